/-
C04, builder half — evaluation order: where `build` puts the instructions of a node relative to those of its children,
for EVERY node vector, root index, fuel and start state (helpers: Garnish/Lemmas/BuildSeq*.lean).

The instruction stream is read through the metadata (`d'.metadata[k] = some (some x)`: instruction `k` is attributed to
node `x`; `C05_metadata_one_per_instruction`: one record per instruction).  Every handler that schedules children on
`stack` does so in the node's first visit, in a fixed arrangement `layout d`; `x` is an IN-LINE descendant of `a`
(`IDesc nodes a x`) when it is reached from `a` through children scheduled on `stack` only; everything else below a node
is emitted OUT OF LINE, in a later root.

  definition                                  layout  in-line order                         proved by
  ------------------------------------------  ------  ------------------------------------  ---------------------------------
  binary operators, InfixApply                lrn     left, right, own instruction          C04_children_in_order, C04_child_before_node
  Pair, ApplyTo                               rln     right, left, own instruction          (same; the documented swap)
  List, CommaList                             lrn     left, right, own MakeList (if any)    (same)
  ElseJump                                    lrn     left arm, right arm (no own instr.)   C04_children_in_order
  Subexpression, ExpressionSeparator          lnr     left, own UpdateValue, right          C04_children_in_order, C04_child_before_node,
  Unit … ExpressionTerminator (value-like)    lnr     left block, own instruction, right      C04_node_before_right
  unary suffix, SuffixApply                   ln      left, own instruction                 C04_child_before_node
  unary prefix, PrefixApply, Reapply          rn      right, own instruction(s)             C04_child_before_node
  SideEffect                                  rn      Start…, right (the body), End…        C04_side_effect_brackets
  And, Or, JumpIfTrue, JumpIfFalse            ln      left, own jump — right OUT OF LINE    C04_child_before_node, C04_out_of_line_after_root
  Group                                       gr      right (no own instruction)            (descent only)
  NestedExpression                            none    own Put — right OUT OF LINE           C04_out_of_line_after_root

Out of line (`C04_out_of_line_after_root`): the right child `r` of And / Or / JumpIf… / NestedExpression is pushed on
`root_stack`; EVERY instruction of the root that contains the owner (every in-line descendant of any `ρ` that has the
owner among its in-line descendants) precedes EVERY instruction of the whole subtree of `r`.  The mutual order of two
out-of-line parts (last pushed first; the arms of an else-chain are pushed together by the chain head, in source order):
Props/C04Eval2.lean (`C04_out_of_line_lifo`); the total order of all attributed nodes: Props/C04Eval5.lean
(`C04_evaluation_order_total_all`).

`C04_evaluation_order` collects the rules as one relation `EmitBefore` and `C04_evaluation_order_total` shows that they
decide the order of any two nodes of one root (up to Group / SideEffect ancestors, which emit nothing / bracket).
-/
import Garnish.Lemmas.BuildSeq14
import Garnish.Props.C04Build
namespace Garnish.Props.C04Order
open Garnish Garnish.Gen Garnish.Model.Parser Garnish.Model.Build Garnish.Lemmas.Build
open Garnish.Lemmas.BuildSeq

variable {F : Type}

/-- the raw statement: all order facts of a successful build -/
theorem C04_order_core (parseFloat : List Char → Option F) (fuel root : Nat) (nodes : Array ParseNode) (d d' : BState F)
    (entry : Nat) (h : build parseFloat fuel root nodes d = .ok (d', entry)) :
    SeqFacts nodes root d.metadata.size d'.metadata := by
  have key := build_seq (tree := nodes) parseFloat fuel root d
  rw [h] at key
  exact key

/-- the hypotheses shared by the theorems below: a successful build, and two attributed instructions -/
structure Built (parseFloat : List Char → Option F) (fuel root : Nat) (nodes : Array ParseNode) (d d' : BState F) (x z kx kz : Nat) :
    Prop where
  ok : ∃ entry, build parseFloat fuel root nodes d = .ok (d', entry)
  hkx : d.metadata.size ≤ kx
  hkz : d.metadata.size ≤ kz
  hmx : d'.metadata[kx]? = some (some x)
  hmz : d'.metadata[kz]? = some (some z)

variable {parseFloat : List Char → Option F} {fuel root : Nat} {nodes : Array ParseNode} {d d' : BState F}

theorem Built.prec {x z kx kz : Nat} (b : Built parseFloat fuel root nodes d d' x z kx kz) (hp : PrecT nodes root x z) : kx < kz := by
  obtain ⟨entry, h⟩ := b.ok
  exact (C04_order_core parseFloat fuel root nodes d d' entry h).1 x z hp kx kz b.hkx b.hkz b.hmx b.hmz

/-- two in-line children: everything in line below the one that is emitted first precedes everything in line below the
other one — left before right, except for `Pair` / `ApplyTo` (layout `rln`) -/
theorem C04_children_in_order {x z kx kz : Nat} (b : Built parseFloat fuel root nodes d d' x z kx kz)
    (p l r : Nat) (pn : ParseNode) (hp : nodes[p]? = some pn) (ht : InTree nodes root p) (hl : pn.left = some l)
    (hr : pn.right = some r)
    (hk : layout pn.definition = .lrn ∨ layout pn.definition = .lnr)
    (hx : IDesc nodes l x) (hz : IDesc nodes r z) : kx < kz :=
  b.prec (Or.inl ⟨p, l, r, ht, ⟨pn, l, r, hp, hl, hr, Or.inr ⟨hk, rfl, rfl⟩⟩, hx, hz⟩)

/-- the documented swap: `Pair`, `ApplyTo` emit the right operand first -/
theorem C04_children_swapped {x z kx kz : Nat} (b : Built parseFloat fuel root nodes d d' x z kx kz)
    (p l r : Nat) (pn : ParseNode) (hp : nodes[p]? = some pn) (ht : InTree nodes root p) (hl : pn.left = some l)
    (hr : pn.right = some r) (hk : layout pn.definition = .rln)
    (hx : IDesc nodes r x) (hz : IDesc nodes l z) : kx < kz :=
  b.prec (Or.inl ⟨p, r, l, ht, ⟨pn, l, r, hp, hl, hr, Or.inl ⟨hk, rfl, rfl⟩⟩, hx, hz⟩)

/-- a child that is scheduled above its parent — any in-line left child; the right child for the layouts lrn, rln, rn —
is finished, with everything in line below it, before the parent emits (the parent is not a SideEffect) -/
theorem C04_child_before_node {x p kx kp : Nat} (b : Built parseFloat fuel root nodes d d' x p kx kp)
    (c : Nat) (pn : ParseNode) (hp : nodes[p]? = some pn) (ht : InTree nodes root p)
    (hc : (pn.left = some c ∧ inlL (layout pn.definition) = true) ∨ (pn.right = some c ∧ preR (layout pn.definition) = true))
    (hnse : pn.definition ≠ .sideEffect) (hx : IDesc nodes c x) : kx < kp :=
  b.prec (Or.inr (Or.inl ⟨p, c, pn, ht, ⟨pn, hp, hc⟩, hp, hnse, hx, rfl⟩))

/-- layout lnr (separators, value-like nodes): the node's own instruction precedes everything in line below its right child -/
theorem C04_node_before_right {p z kp kz : Nat} (b : Built parseFloat fuel root nodes d d' p z kp kz)
    (r : Nat) (pn : ParseNode) (hp : nodes[p]? = some pn) (ht : InTree nodes root p) (hr : pn.right = some r)
    (hk : layout pn.definition = .lnr) (hz : IDesc nodes r z) : kp < kz :=
  b.prec (Or.inr (Or.inr (Or.inl ⟨p, r, ht, ⟨pn, hp, hr, hk⟩, hz, rfl⟩)))

/-- out of line: every instruction of the root that contains the owner `y` precedes every instruction of the subtree of
the out-of-line child `r` (right child of And / Or / JumpIfTrue / JumpIfFalse / NestedExpression) -/
theorem C04_out_of_line_after_root {x z kx kz : Nat} (b : Built parseFloat fuel root nodes d d' x z kx kz)
    (ρ y r : Nat) (yn : ParseNode) (ht : InTree nodes root ρ) (hy : IDesc nodes ρ y) (hyn : nodes[y]? = some yn)
    (hr : yn.right = some r) (hool : oolR yn.definition = true) (hx : IDesc nodes ρ x) (hz : Sub nodes r z) : kx < kz :=
  b.prec (Or.inr (Or.inr (Or.inr ⟨ρ, y, r, ht, hy, ⟨yn, hyn, hr, hool⟩, hx, hz⟩)))

/-- a SideEffect node brackets its body: every instruction in line below the body lies strictly between two instructions
attributed to the block node (`StartSideEffect` is emitted in the first visit, `EndSideEffect` in the second) -/
theorem C04_side_effect_brackets (parseFloat : List Char → Option F) (fuel root : Nat) (nodes : Array ParseNode) (d d' : BState F)
    (entry : Nat) (h : build parseFloat fuel root nodes d = .ok (d', entry))
    (p c x kx : Nat) (pn : ParseNode) (hp : nodes[p]? = some pn) (ht : InTree nodes root p) (hd : pn.definition = .sideEffect)
    (hc : pn.right = some c) (hx : IDesc nodes c x) (hkx : d.metadata.size ≤ kx) (hmx : d'.metadata[kx]? = some (some x)) :
    (∃ k1, d.metadata.size ≤ k1 ∧ k1 < kx ∧ d'.metadata[k1]? = some (some p)) ∧
    (∃ k2, kx < k2 ∧ d'.metadata[k2]? = some (some p)) :=
  (C04_order_core parseFloat fuel root nodes d d' entry h).2 p pn c x kx ht hp hd
    ⟨pn, hp, Or.inr ⟨hc, by rw [hd]; rfl⟩⟩ hx hkx hmx

/-! ### the statement left open in Props/C04Build.lean -/

/-- ElseJump: left arm, right arm (nothing is attributed to the node).  Subexpression / ExpressionSeparator and value-like
nodes with side-effect blocks: left, the node's own instruction, right (`mid`).  Compared with the text in
Props/C04Build.lean the `Subexpression` case carries `Sub nodes root p` — `p` is reachable from the root: the validation
lets `Subexpression` nodes stay outside the tree, and the stale links of such a node say nothing about the order. -/
def C04_sibling_order_rest_statement (F : Type) : Prop :=
  ∀ (parseFloat : List Char → Option F) (fuel root : Nat) (nodes : Array ParseNode) (d d' : BState F) (entry : Nat),
    build parseFloat fuel root nodes d = .ok (d', entry) →
    ∀ (p l r : Nat) (pn : ParseNode) (mid : Bool), nodes[p]? = some pn → pn.left = some l → pn.right = some r →
      ((pn.definition = .elseJump ∧ mid = false) ∨
       (((pn.definition = .subexpression ∧ Sub nodes root p) ∨ pn.definition = .expressionSeparator) ∧ mid = true) ∨
       (pn.definition ∈ [Definition.unit, .true, .false, .number, .charList, .byteList, .symbol, .value, .identifier,
          .property, .expressionTerminator] ∧ mid = true)) →
      ∀ kl kr kp : Nat, d.metadata.size ≤ kl → d.metadata.size ≤ kr → d.metadata.size ≤ kp →
        d'.metadata[kl]? = some (some l) → d'.metadata[kr]? = some (some r) → d'.metadata[kp]? = some (some p) →
        kl < kr ∧ kl < kp ∧ (if mid then kp < kr else kr < kp)

theorem C04_sibling_order_rest (F : Type) : C04_sibling_order_rest_statement F := by
  intro parseFloat fuel root nodes d d' entry h p l r pn mid hp hl hr hcase kl kr kp hkl hkr hkp hml hmr hmp
  have blr : Built parseFloat fuel root nodes d d' l r kl kr := ⟨⟨entry, h⟩, hkl, hkr, hml, hmr⟩
  have blp : Built parseFloat fuel root nodes d d' l p kl kp := ⟨⟨entry, h⟩, hkl, hkp, hml, hmp⟩
  have bpr : Built parseFloat fuel root nodes d d' p r kp kr := ⟨⟨entry, h⟩, hkp, hkr, hmp, hmr⟩
  have brp : Built parseFloat fuel root nodes d d' r p kr kp := ⟨⟨entry, h⟩, hkr, hkp, hmr, hmp⟩
  -- the three groups: the layout, membership in the tree, not a SideEffect
  have hfacts : InTree nodes root p ∧ pn.definition ≠ .sideEffect ∧
      ((layout pn.definition = .lrn ∧ mid = false) ∨ (layout pn.definition = .lnr ∧ mid = true)) := by
    rcases hcase with ⟨hd, hm⟩ | ⟨hd, hm⟩ | ⟨hd, hm⟩
    · exact ⟨Or.inr ⟨pn, hp, by rw [hd]; decide⟩, by rw [hd]; decide, Or.inl ⟨by rw [hd]; rfl, hm⟩⟩
    · rcases hd with ⟨hd, hs⟩ | hd
      · exact ⟨Or.inl hs, by rw [hd]; decide, Or.inr ⟨by rw [hd]; rfl, hm⟩⟩
      · exact ⟨Or.inr ⟨pn, hp, by rw [hd]; decide⟩, by rw [hd]; decide, Or.inr ⟨by rw [hd]; rfl, hm⟩⟩
    · simp only [List.mem_cons, List.mem_nil_iff, or_false] at hd
      refine ⟨Or.inr ⟨pn, hp, ?_⟩, ?_, Or.inr ⟨?_, hm⟩⟩ <;>
        rcases hd with hd | hd | hd | hd | hd | hd | hd | hd | hd | hd | hd <;> rw [hd] <;> first | decide | rfl
  obtain ⟨ht, hnse, hk⟩ := hfacts
  rcases hk with ⟨hk, hm⟩ | ⟨hk, hm⟩
  · subst hm
    exact ⟨C04_children_in_order blr p l r pn hp ht hl hr (Or.inl hk) (IDesc.refl l) (IDesc.refl r),
      C04_child_before_node blp l pn hp ht (Or.inl ⟨hl, by rw [hk]; rfl⟩) hnse (IDesc.refl l),
      C04_child_before_node brp r pn hp ht (Or.inr ⟨hr, by rw [hk]; rfl⟩) hnse (IDesc.refl r)⟩
  · subst hm
    exact ⟨C04_children_in_order blr p l r pn hp ht hl hr (Or.inr hk) (IDesc.refl l) (IDesc.refl r),
      C04_child_before_node blp l pn hp ht (Or.inl ⟨hl, by rw [hk]; rfl⟩) hnse (IDesc.refl l),
      C04_node_before_right bpr r pn hp ht hr hk (IDesc.refl r)⟩

end Garnish.Props.C04Order
