/-
C09 — algebraic corollaries of the exactness theorems for the 32-bit integer fragment:
laws a script author relies on and that a wrapping or trapping implementation breaks.
Every statement is about the model of `SimpleNumber`'s operations (Model/Number.lean),
for all i32 operands.
-/
import Garnish.Props.C09
namespace Garnish.Props.C09Laws
open Garnish Garnish.Number Garnish.Props.C09

variable {F : Type} (fo : FloatOps F)

/-- `+` on integers is commutative, including on which pairs give unit. -/
theorem C09_int_plus_comm (a b : Int) (ha : InRange a) (hb : InRange b) :
    plus fo (.int a) (.int b) = plus fo (.int b) (.int a) := by
  rw [C09_int_plus fo a b ha hb, C09_int_plus fo b a hb ha]; simp [Spec.add, Int.add_comm]

/-- `*` on integers is commutative, including on which pairs give unit. -/
theorem C09_int_multiply_comm (a b : Int) (ha : InRange a) (hb : InRange b) :
    multiply fo (.int a) (.int b) = multiply fo (.int b) (.int a) := by
  rw [C09_int_multiply fo a b ha hb, C09_int_multiply fo b a hb ha]; simp [Spec.mul, Int.mul_comm]

/-- A defined sum is the mathematical sum and lies in range: no wrapped value is ever returned. -/
theorem C09_int_plus_some (a b r : Int) (ha : InRange a) (hb : InRange b)
    (h : plus fo (.int a) (.int b) = some (.int r)) : r = a + b ∧ InRange r := by
  rw [C09_int_plus fo a b ha hb] at h
  unfold Spec.add Spec.exact at h
  split at h
  · simp at h; subst h; exact ⟨rfl, by assumption⟩
  · simp at h

/-- Unit is returned exactly when the mathematical sum is not representable. -/
theorem C09_int_plus_none_iff (a b : Int) (ha : InRange a) (hb : InRange b) :
    plus fo (.int a) (.int b) = none ↔ ¬ InRange (a + b) := by
  rw [C09_int_plus fo a b ha hb]
  unfold Spec.add Spec.exact
  split <;> simp [*]

/-- `0` is a two-sided identity of `+`; `1` of `*`. -/
theorem C09_int_plus_zero (a : Int) (ha : InRange a) :
    plus fo (.int a) (.int 0) = some (.int a) ∧ plus fo (.int 0) (.int a) = some (.int a) := by
  have h0 : InRange 0 := by decide
  rw [C09_int_plus fo a 0 ha h0, C09_int_plus fo 0 a h0 ha]
  simp [Spec.add, Spec.exact, ha]

theorem C09_int_multiply_one (a : Int) (ha : InRange a) :
    multiply fo (.int a) (.int 1) = some (.int a) ∧ multiply fo (.int 1) (.int a) = some (.int a) := by
  have h1 : InRange 1 := by decide
  rw [C09_int_multiply fo a 1 ha h1, C09_int_multiply fo 1 a h1 ha]
  simp [Spec.mul, Spec.exact, ha]

/-- Subtraction undoes addition whenever the sum is representable. -/
theorem C09_int_plus_subtract_cancel (a b r : Int) (ha : InRange a) (hb : InRange b)
    (h : plus fo (.int a) (.int b) = some (.int r)) :
    subtract fo (.int r) (.int b) = some (.int a) := by
  obtain ⟨hr, hin⟩ := C09_int_plus_some fo a b r ha hb h
  rw [C09_int_subtract fo r b hin hb]
  have : r - b = a := by omega
  simp [Spec.sub, Spec.exact, this, ha]

/-- The only integer whose opposite is unit is the most negative one; otherwise `-` is an involution. -/
theorem C09_int_opposite_none_iff (a : Int) (ha : InRange a) :
    opposite fo (.int a) = none ↔ a = -2147483648 := by
  rw [C09_int_opposite fo a ha]
  unfold Spec.neg Spec.exact
  by_cases hin : InRange (-a)
  · rw [if_pos hin]; unfold InRange at *; simp; omega
  · rw [if_neg hin]; unfold InRange at *; simp; omega

theorem C09_int_opposite_involutive (a r : Int) (ha : InRange a)
    (h : opposite fo (.int a) = some (.int r)) : opposite fo (.int r) = some (.int a) := by
  rw [C09_int_opposite fo a ha] at h
  unfold Spec.neg Spec.exact at h
  split at h
  · rename_i hin
    simp at h; subst h
    rw [C09_int_opposite fo (-a) hin]
    simp [Spec.neg, Spec.exact, ha]
  · simp at h

example : InRange 2147483647 ∧ InRange 1 ∧ ¬ InRange (2147483647 + 1) := by decide

end Garnish.Props.C09Laws
