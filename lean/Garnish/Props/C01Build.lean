/-
C01, the tie between the two models of `build`.

`Model.Build.build` (Model/Build.lean) is the statement-by-statement transliteration of compiler/src/build/build.rs — node
array, work list, root stack, two visits per node, `child_count`, `conditional_items`, the terminator loop — tied to the
code by the BUILD suite. `Abs.compile` (Abs/Compile.lean) is the structured compiler about which `C01_compile_correct`
speaks, tied to the code by the COMPILE suite. This file proves that the first refines the second:

  build_refines_compile : on every parse tree that REPRESENTS the program (`Abs.Tree.Rep`, Lemmas/CompileTree.lean: the
    in-order numbered node array with value / operator / list / conditional / else-chain / logic / nested / reapply /
    identifier-application / group nodes linked as the parser links them), `build` returns the program's entry and a
    data object whose instructions, jump table and constants are exactly those of `compile` — for every program, every
    object already in the data object (`compileInto`), and all sufficient fuel (`2 * nodes + 1`; `defaultFuel` suffices).

Stages (each an instance of the same simulation, Lemmas/CompileTree*.lean; 4k lines):
  1 straight line   literals, `$`, identifiers, prefix / suffix / binary operators, pairs, apply-to, lists (the `List` /
                    `CommaList` spine with `child_count`), `;`, identifier application, groups        — `sim_of_rep`
  2 branches        conditionals, `&&` / `||`, else-chains with and without final arm: the second visit that creates
                    the jump / join entries and schedules the out-of-line roots; the root loop, `rootJump`, the
                    terminator loop (`pushEndInstructions` = `addTerms`)                             — `root_step`, `rootLoop_ok`
  3 bodies          nested expressions `{ … }` (a root of its own, `EndExpression` as default terminator), `{ }`, `^~`
  4 blocks          a side-effect block after a value, `v [ body ]` (`Rep.side`; `sim_side`, Lemmas/CompileTree19.lean)
What the theorem assumes beyond `Rep`:
  * `validateParseTree root tree = .ok ()` — `build`'s own check of the parent links, which `Rep` does not mention;
    `validate_ok` (Lemmas/CompileTreeV.lean) proves it from the `Shape` of the tree: in-order intervals with parent
    links (`build_refines_compile_shape`);
  * `(compileState … p).pending = []` — the layout loop of `compile` finishes (`compile_complete` for `WFProgram`s).
`treeOf` (Lemmas/CompileTreeOf*.lean) builds a tree for a program structurally: the expression becomes a skeleton of
leaf / prefix / suffix / binary nodes (operands that are not a single token in a group node, lists as left-nested
`CommaList` spines, else-chains as left-nested `ElseJump` spines over `JumpIf` arms, `{ body }` as a `NestedExpression`
node over the body), numbered in-order as the parser numbers by token position; the token text of literals and names
comes from a `Printer`. `treeOf_rep` / `treeOf_valid`: it represents the program and passes `build`'s check, so
`build_refines_compile_treeOf` has no hypothesis about the tree; `stage1_straight_line` / `stage2_branches` /
`stage3_bodies` are the three stages; where no group is needed `treeOf` is literally the PARSE dump (`$ && 5` below).
That the node array `Model.Parser.parse` returns satisfies `Rep` (for the program its reference tree elaborates to) is
`parse_rep`, Props/C01Source.lean; from tokens and from the source text: Props/C02Numbered.lean, Props/C01Text.lean.
The fragment `InFrag` of `treeOf` asks of the printer
that literal text parses back to the literal (`LitRep`) and name text hashes to the symbol.
Not representable (`Rep` has no constructor), hence outside the tie: side-effect blocks anywhere but directly after a
literal / `$` / identifier (`[b] v`; `(e) [b]`, `v [b] [c]`: there the builder drops the group content / the first block);
literal values other than
unit / true / false / number / text / byte list / symbol; lists with fewer than two items; and, WITHOUT a group node
around them, a conditional or else-chain as direct left operand of `&&` / `||` or as final arm of an else-chain, a list as
direct item of a list of the same kind (the parser cannot produce these shapes without parentheses either).
-/
import Garnish.Lemmas.CompileTree18
import Garnish.Lemmas.CompileTreeOf5
import Garnish.Props.C01Compile
namespace Garnish.Props.C01Build
open Garnish Garnish.Gen Garnish.Spec Garnish.Abs Garnish.Abs.Tree Garnish.Model.Parser Garnish.Model.Literals Garnish.Model.Build

variable {F : Type} (pf : List Char → Option F)

/-- **`build` refines `compileInto`** — the general form: any data object to start from -/
theorem build_refines_compileInto (tree : Array ParseNode) (p : Program F) (data : BState F) (root fuel : Nat)
    (hrep : Rep pf tree p.bodies 0 tree.size root p.main)
    (hmain : lookupBody p.bodies data.jumps.size = some p.main)
    (hval : validateParseTree root tree = .ok ())
    (hcomplete : (compileState (progOf data) p).pending = []) (hfuel : 2 * tree.size + 1 ≤ fuel) :
    ∃ d, build pf fuel root tree data = .ok (d, data.jumps.size) ∧
      d.instrs = (compileInto (progOf data) p).1.instrs ∧ d.jumps = (compileInto (progOf data) p).1.jumps ∧
      d.consts = (compileInto (progOf data) p).1.consts := by
  obtain ⟨d, h1, h2, h3, h4⟩ := buildCore_refines (pf := pf) p data root fuel hrep hmain hcomplete hfuel
  refine ⟨d, ?_, h2, h3, h4⟩
  have hne : tree.isEmpty = false := by
    have := hrep.bounds.2.2
    cases hte : tree.isEmpty with
    | false => rfl
    | true => rw [Array.isEmpty_iff_size_eq_zero] at hte; omega
  simp only [build, hne, Bool.false_eq_true, if_false, hval, Outcome.bind]
  exact h1

/-- **`build` refines `compile`**: on a parse tree that represents the program, the transliteration of `build` started on
the empty data object returns entry `0` and exactly the instructions, jump table and constants of `compile p` -/
theorem build_refines_compile (tree : Array ParseNode) (p : Program F) (root fuel : Nat)
    (hrep : Rep pf tree p.bodies 0 tree.size root p.main)
    (hmain : lookupBody p.bodies 0 = some p.main)
    (hval : validateParseTree root tree = .ok ())
    (hcomplete : (compileState Prog.empty p).pending = []) (hfuel : 2 * tree.size + 1 ≤ fuel) :
    ∃ d, build pf fuel root tree BState.empty = .ok (d, 0) ∧
      d.instrs = (compile p).instrs ∧ d.jumps = (compile p).jumps ∧ d.consts = (compile p).consts :=
  build_refines_compileInto pf tree p BState.empty root fuel hrep hmain hval hcomplete hfuel

/-- … for well-formed programs (the hypotheses of `C01_compile_correct`), with the fuel `build`'s callers use -/
theorem build_refines_compile_wf (tree : Array ParseNode) (p : Program F) (root : Nat) (hwf : C01.WFProgramC p)
    (hrep : Rep pf tree p.bodies 0 tree.size root p.main) (hval : validateParseTree root tree = .ok ()) :
    ∃ d, build pf (defaultFuel tree.size) root tree BState.empty = .ok (d, 0) ∧
      d.instrs = (compile p).instrs ∧ d.jumps = (compile p).jumps ∧ d.consts = (compile p).consts :=
  build_refines_compile pf tree p root _ hrep hwf.main0 hval (C01.compile_complete p hwf.labels)
    (by simp only [defaultFuel]; omega)

/-- **C01 for the transliteration of `build.rs`**: the data object that `Model.Build.build` produces from a parse tree
representing a well-formed program, run on the value-level machine from the entry that `build` returns, computes the value
and the host-call trace that the source means -/
theorem C01_build_correct (fo : FloatOps F) (host : Host F) (tree : Array ParseNode) (p : Program F) (root : Nat)
    (input : Val F) (fuel : Nat) (v : Val F) (st : St F) (hwf : C01.WFProgram p)
    (hrep : Rep pf tree p.bodies 0 tree.size root p.main) (hval : validateParseTree root tree = .ok ())
    (h : evalProgram fo host fuel p input = .ok (v, st)) :
    ∃ d entry, build pf (defaultFuel tree.size) root tree BState.empty = .ok (d, entry) ∧
      ∃ n s, run fo host (progOf d) n
          { pc := (progOf d).jumps[entry]?.getD 0, regs := [], vals := [input], frames := [], trace := [] } = (.halted s, n) ∧
        s.vals = [v] ∧ s.regs = [] ∧ s.frames = [] ∧ s.trace = st.trace := by
  obtain ⟨d, hb, h1, h2, h3⟩ := build_refines_compile_wf pf tree p root hwf.toC hrep hval
  refine ⟨d, 0, hb, ?_⟩
  have e : progOf d = compile p := by
    simp only [progOf, h1, h2, h3]
  rw [e]
  exact C01.C01_compile_correct fo host p input fuel v st hwf h

/-! ### non-vacuity: the trees the real parser produces (PARSE dumps), one per stage -/

def nd (d : Definition) (parent left right : Option Nat) (text : String) : ParseNode :=
  ⟨d, .none, parent, left, right, ⟨text.toList, .unknown, 0, 0⟩⟩

def noFloat : List Char → Option Float := fun _ => none

def int (n : Int) : Expr Float := .lit (.num (.int n))

theorem lit_int (i : Nat) (tree : Array ParseNode) (pn : ParseNode) (n : Nat) (bodies : List (Nat × Expr Float))
    (h : tree[i]? = some pn) (hd : pn.definition = .number) (hl : pn.left = none) (hr : pn.right = none)
    (ht : parseSimpleNumber noFloat pn.lexToken.text = .ok (.int n)) : Rep noFloat tree bodies i (i + 1) i (int n) :=
  .lit h hl hr (.num hd ht)

/-- stage 1: `1 + 2 * 3` -/
def tree1 : Array ParseNode := #[
  nd .number (some 1) none none "1", nd .addition none (some 0) (some 3) "+", nd .number (some 3) none none "2",
  nd .multiplicationSign (some 1) (some 2) (some 4) "*", nd .number (some 3) none none "3"]
def main1 : Expr Float := .binary .add (int 1) (.binary .multiply (int 2) (int 3))
def prog1 : Program Float := { main := main1, bodies := [(0, main1)] }

theorem rep1 : Rep noFloat tree1 prog1.bodies 0 tree1.size 1 prog1.main :=
  .binary (pn := tree1[1]) rfl rfl rfl rfl (lit_int 0 tree1 _ 1 _ rfl rfl rfl rfl (by rfl))
    (.binary (pn := tree1[3]) rfl rfl rfl rfl (lit_int 2 tree1 _ 2 _ rfl rfl rfl rfl (by rfl))
      (lit_int 4 tree1 _ 3 _ rfl rfl rfl rfl (by rfl)))

example : ∃ d, build noFloat 11 1 tree1 BState.empty = .ok (d, 0) ∧
    d.instrs = (compile prog1).instrs ∧ d.jumps = (compile prog1).jumps ∧ d.consts = (compile prog1).consts :=
  build_refines_compile noFloat tree1 prog1 1 11 rep1 rfl (by rfl) (by rfl) (by decide)

/-- … and this is what both produce -/
example : (compile prog1).instrs = #[(.put, some 0), (.put, some 1), (.put, some 2), (.multiply, none), (.add, none),
    (.endExpression, none)] ∧ (compile prog1).jumps = #[0] := by
  constructor <;> decide

theorem notCond_of {tree : Array ParseNode} {i : Nat} {pn0 : ParseNode} (h0 : tree[i]? = some pn0)
    (hc : condDef pn0.definition = false) : NotCond tree i := fun pn h => by rw [h0] at h; cases h; exact hc

/-- stage 2: `$ ?> 1 |> 2 ?> 3 |> 4` (an else-chain with two conditional arms and a final arm) -/
def tree2 : Array ParseNode := #[
  nd .value (some 1) none none "$", nd .jumpIfTrue (some 3) (some 0) (some 2) "?>", nd .number (some 1) none none "1",
  nd .elseJump (some 7) (some 1) (some 5) "|>",
  nd .number (some 5) none none "2", nd .jumpIfTrue (some 3) (some 4) (some 6) "?>", nd .number (some 5) none none "3",
  nd .elseJump none (some 3) (some 8) "|>", nd .number (some 7) none none "4"]
def main2 : Expr Float := .chain [(true, .input, int 1), (true, int 2, int 3)] (some (int 4))
def prog2 : Program Float := { main := main2, bodies := [(0, main2)] }

theorem rep2 : Rep noFloat tree2 prog2.bodies 0 tree2.size 7 prog2.main :=
  .chain (arms := [(true, .input, int 1)] ++ [(true, int 2, int 3)]) (pn := tree2[7]) rfl rfl rfl rfl
    (.more (arms := [(true, .input, int 1)]) (pn := tree2[3]) rfl rfl rfl rfl
      (.one (.mk (pn := tree2[1]) rfl rfl rfl rfl (.input (pn := tree2[0]) rfl rfl rfl rfl)
        (lit_int 2 tree2 _ 1 _ rfl rfl rfl rfl (by rfl))))
      (.mk (pn := tree2[5]) rfl rfl rfl rfl (lit_int 4 tree2 _ 2 _ rfl rfl rfl rfl (by rfl))
        (lit_int 6 tree2 _ 3 _ rfl rfl rfl rfl (by rfl))))
    (notCond_of (pn0 := tree2[8]) rfl rfl) (lit_int 8 tree2 _ 4 _ rfl rfl rfl rfl (by rfl))

example : ∃ d, build noFloat (defaultFuel tree2.size) 7 tree2 BState.empty = .ok (d, 0) ∧
    d.instrs = (compile prog2).instrs ∧ d.jumps = (compile prog2).jumps ∧ d.consts = (compile prog2).consts :=
  build_refines_compile noFloat tree2 prog2 7 _ rep2 rfl (by rfl) (by rfl) (by decide)

example : (compile prog2).instrs = #[(.putValue, none), (.jumpIfTrue, some 1), (.put, some 0), (.jumpIfTrue, some 2),
    (.put, some 1), (.endExpression, none), (.put, some 2), (.jumpTo, some 3), (.put, some 3), (.jumpTo, some 3)] ∧
    (compile prog2).jumps = #[0, 8, 6, 5] := by
  constructor <;> decide

/-- stage 2, logic: `$ && 5` -/
def tree2b : Array ParseNode := #[nd .value (some 1) none none "$", nd .and none (some 0) (some 2) "&&", nd .number (some 1) none none "5"]
def main2b : Expr Float := .and .input (int 5)
def prog2b : Program Float := { main := main2b, bodies := [(0, main2b)] }

theorem rep2b : Rep noFloat tree2b prog2b.bodies 0 tree2b.size 1 prog2b.main :=
  .and (pn := tree2b[1]) rfl rfl rfl rfl (notCond_of (pn0 := tree2b[0]) rfl rfl) (.input (pn := tree2b[0]) rfl rfl rfl rfl)
    (lit_int 2 tree2b _ 5 _ rfl rfl rfl rfl (by rfl))

example : ∃ d, build noFloat (defaultFuel tree2b.size) 1 tree2b BState.empty = .ok (d, 0) ∧
    d.instrs = (compile prog2b).instrs ∧ d.jumps = (compile prog2b).jumps ∧ d.consts = (compile prog2b).consts :=
  build_refines_compile noFloat tree2b prog2b 1 _ rep2b rfl (by rfl) (by rfl) (by decide)

/-- stage 3: `{ ^~ 7 } ~~` (a nested expression with a reapply, applied) -/
def tree3 : Array ParseNode := #[
  nd .nestedExpression (some 3) none (some 1) "{", nd .reapply (some 0) none (some 2) "^~", nd .number (some 1) none none "7",
  nd .emptyApply none (some 0) none "~~"]
def main3 : Expr Float := .unary .emptyApply (.nested 1)
def prog3 : Program Float := { main := main3, bodies := [(0, main3), (1, .reapply (int 7))] }

theorem rep3 : Rep noFloat tree3 prog3.bodies 0 tree3.size 3 prog3.main :=
  .unarySuf (pn := tree3[3]) rfl rfl rfl
    (.nested (pn := tree3[0]) (b := .reapply (int 7)) rfl rfl rfl rfl
      (.reapply (pn := tree3[1]) rfl rfl rfl (lit_int 2 tree3 _ 7 _ rfl rfl rfl rfl (by rfl))))

example : ∃ d, build noFloat (defaultFuel tree3.size) 3 tree3 BState.empty = .ok (d, 0) ∧
    d.instrs = (compile prog3).instrs ∧ d.jumps = (compile prog3).jumps ∧ d.consts = (compile prog3).consts :=
  build_refines_compile noFloat tree3 prog3 3 _ rep3 rfl (by rfl) (by rfl) (by decide)

example : (compile prog3).instrs = #[(.put, some 0), (.emptyApply, none), (.endExpression, none), (.put, some 1),
    (.updateValue, none), (.jumpTo, some 1), (.endExpression, none)] ∧ (compile prog3).jumps = #[0, 3] := by
  constructor <;> decide

/-- stage 4, a side-effect block after a value: `5 [6]` (the `SideEffect` node hangs off the `right` of the value node) -/
def tree4 : Array ParseNode := #[
  nd .number none none (some 1) "5", nd .sideEffect (some 0) none (some 2) "[", nd .number (some 1) none none "6"]
def main4 : Expr Float := .sideAfter (int 5) (int 6)
def prog4 : Program Float := { main := main4, bodies := [(0, main4)] }

theorem rep4 : Rep noFloat tree4 prog4.bodies 0 tree4.size 0 prog4.main :=
  .side (pn := tree4[0]) (ps := tree4[1]) rfl rfl rfl (.lit (.num rfl (by rfl))) rfl rfl rfl
    (lit_int 2 tree4 _ 6 _ rfl rfl rfl rfl (by rfl))

example : ∃ d, build noFloat (defaultFuel tree4.size) 0 tree4 BState.empty = .ok (d, 0) ∧
    d.instrs = (compile prog4).instrs ∧ d.jumps = (compile prog4).jumps ∧ d.consts = (compile prog4).consts :=
  build_refines_compile noFloat tree4 prog4 0 _ rep4 rfl (by rfl) (by rfl) (by decide)

example : (compile prog4).instrs = #[(.put, some 0), (.startSideEffect, none), (.put, some 1), (.endSideEffect, none),
    (.endExpression, none)] := by decide

/-! ### `treeOf`: a tree for every program of the fragment, and the tie on it -/

/-- … with `build`'s own check discharged from the shape of the tree (`validate_ok`, Lemmas/CompileTreeV.lean) -/
theorem build_refines_compile_shape (tree : Array ParseNode) (p : Program F) (root fuel : Nat) (pn : ParseNode)
    (hrep : Rep pf tree p.bodies 0 tree.size root p.main) (hshape : Shape tree 0 tree.size root)
    (hroot : tree[root]? = some pn) (hpar : pn.parent = none)
    (hmain : lookupBody p.bodies 0 = some p.main)
    (hcomplete : (compileState Prog.empty p).pending = []) (hfuel : 2 * tree.size + 1 ≤ fuel) :
    ∃ d, build pf fuel root tree BState.empty = .ok (d, 0) ∧
      d.instrs = (compile p).instrs ∧ d.jumps = (compile p).jumps ∧ d.consts = (compile p).consts :=
  build_refines_compile pf tree p root fuel hrep hmain (validate_ok hshape hroot hpar) hcomplete hfuel

variable (pr : Printer F)

/-- **the tie on `treeOf`** (all stages): for every program in the fragment that `treeOf` renders (`InFrag`: every construct
(side-effect blocks after a value only); lists of at least two items; nesting depth at most `depth`), `build` run on `treeOf p` returns the
entry `0` and the instructions, jump table and constants of `compile p` — no hypothesis about the tree is left -/
theorem build_refines_compile_treeOf (p : Program F) (depth fuel : Nat) (hfrag : InFrag pr pf p depth)
    (hmain : lookupBody p.bodies 0 = some p.main) (hcomplete : (compileState Prog.empty p).pending = [])
    (hfuel : 2 * (treeOf pr p depth).1.size + 1 ≤ fuel) :
    ∃ d, build pf fuel (treeOf pr p depth).2 (treeOf pr p depth).1 BState.empty = .ok (d, 0) ∧
      d.instrs = (compile p).instrs ∧ d.jumps = (compile p).jumps ∧ d.consts = (compile p).consts :=
  build_refines_compile pf _ p _ fuel (treeOf_rep pr pf p depth hfrag) hmain (treeOf_valid pr p depth) hcomplete hfuel

theorem build_refines_compile_treeOf_wf (p : Program F) (depth : Nat) (hwf : C01.WFProgramC p)
    (hfrag : InFrag pr pf p depth) :
    ∃ d, build pf (defaultFuel (treeOf pr p depth).1.size) (treeOf pr p depth).2 (treeOf pr p depth).1 BState.empty = .ok (d, 0) ∧
      d.instrs = (compile p).instrs ∧ d.jumps = (compile p).jumps ∧ d.consts = (compile p).consts :=
  build_refines_compile_treeOf pf pr p depth _ hfrag hwf.main0 (C01.compile_complete p hwf.labels)
    (by simp only [defaultFuel]; omega)

/- `stageOf`: the stage an expression belongs to: 1 straight line, 2 conditionals / logic / else-chains, 3 nested
expressions and `^~`, 4 side-effect blocks after a value -/
mutual
def stageOf : Expr F → Nat
  | .lit _ | .input | .ident _ => 1
  | .unary _ x => stageOf x
  | .binary _ a b | .pair a b | .applyTo a b | .seq a b | .infixApply a _ b => max (stageOf a) (stageOf b)
  | .prefixApply _ x | .suffixApply x _ => stageOf x
  | .list items => max 1 (stageItems items)
  | .cond _ a b | .and a b | .or a b => max 2 (max (stageOf a) (stageOf b))
  | .chain arms (some fe) => max 2 (max (stageArms arms) (stageOf fe))
  | .chain arms none => max 2 (stageArms arms)
  | .nested _ | .emptyNested => 3
  | .reapply x => max 3 (stageOf x)
  | .sideAfter x b => max 4 (max (stageOf x) (stageOf b))
def stageItems : List (Expr F) → Nat
  | [] => 0
  | x :: xs => max (stageOf x) (stageItems xs)
def stageArms : List (Bool × Expr F × Expr F) → Nat
  | [] => 0
  | (_, c, e) :: xs => max (max (stageOf c) (stageOf e)) (stageArms xs)
end

/-- **stage 1**, straight-line programs: literals, `$`, identifiers, operators, pairs, lists, `;`, identifier application -/
theorem stage1_straight_line (p : Program F) (_hs : stageOf p.main ≤ 1) (hwf : C01.WFProgramC p)
    (hfrag : InFrag pr pf p 0) :
    ∃ d, build pf (defaultFuel (treeOf pr p 0).1.size) (treeOf pr p 0).2 (treeOf pr p 0).1 BState.empty = .ok (d, 0) ∧
      d.instrs = (compile p).instrs ∧ d.jumps = (compile p).jumps ∧ d.consts = (compile p).consts :=
  build_refines_compile_treeOf_wf pf pr p 0 hwf hfrag

/-- **stage 2**, … and conditionals, `&&` / `||`, else-chains (out-of-line roots, `rootJump`, the terminator loop) -/
theorem stage2_branches (p : Program F) (_hs : stageOf p.main ≤ 2) (hwf : C01.WFProgramC p) (hfrag : InFrag pr pf p 0) :
    ∃ d, build pf (defaultFuel (treeOf pr p 0).1.size) (treeOf pr p 0).2 (treeOf pr p 0).1 BState.empty = .ok (d, 0) ∧
      d.instrs = (compile p).instrs ∧ d.jumps = (compile p).jumps ∧ d.consts = (compile p).consts :=
  build_refines_compile_treeOf_wf pf pr p 0 hwf hfrag

/-- **stage 3**, … and nested expressions (to any depth), `{ }`, `^~` -/
theorem stage3_bodies (p : Program F) (depth : Nat) (hwf : C01.WFProgramC p) (hfrag : InFrag pr pf p depth) :
    ∃ d, build pf (defaultFuel (treeOf pr p depth).1.size) (treeOf pr p depth).2 (treeOf pr p depth).1 BState.empty = .ok (d, 0) ∧
      d.instrs = (compile p).instrs ∧ d.jumps = (compile p).jumps ∧ d.consts = (compile p).consts :=
  build_refines_compile_treeOf_wf pf pr p depth hwf hfrag

/-- **C01 on `treeOf`**: `build` on the tree of a well-formed program in the fragment produces a data object that computes
what the source means -/
theorem C01_build_correct_treeOf (fo : FloatOps F) (host : Host F) (p : Program F) (depth : Nat) (input : Val F)
    (fuel : Nat) (v : Val F) (st : St F) (hwf : C01.WFProgram p) (hfrag : InFrag pr pf p depth)
    (h : evalProgram fo host fuel p input = .ok (v, st)) :
    ∃ d entry, build pf (defaultFuel (treeOf pr p depth).1.size) (treeOf pr p depth).2 (treeOf pr p depth).1 BState.empty
        = .ok (d, entry) ∧
      ∃ n s, run fo host (progOf d) n
          { pc := (progOf d).jumps[entry]?.getD 0, regs := [], vals := [input], frames := [], trace := [] } = (.halted s, n) ∧
        s.vals = [v] ∧ s.regs = [] ∧ s.frames = [] ∧ s.trace = st.trace :=
  C01_build_correct pf fo host _ p _ input fuel v st hwf (treeOf_rep pr pf p depth hfrag) (treeOf_valid pr p depth) h

/-! ### non-vacuity on `treeOf` -/

/-- a printer for the examples: natural numbers in decimal -/
def prF : Printer Float where
  lit := fun v => match v with
    | .num (.int (.ofNat n)) => (.number, Nat.toDigits 10 n)
    | _ => (.unit, [])
  name := fun _ => []

theorem lit_ok (n : Nat) (h : parseSimpleNumber noFloat (Nat.toDigits 10 n) = .ok (.int n)) :
    LitRep noFloat (Sk.mkPN (prF.lit (.num (.int n))) none none none) (.num (.int n)) := .num rfl h

/-- stage 1: `1 + (2 * 3)` — six nodes, the group included -/
theorem frag1 : InFrag prF noFloat prog1 0 := by
  simp only [InFrag, prog1, main1, int, fragE]
  exact ⟨by decide, lit_ok 1 (by rfl), by decide, lit_ok 2 (by rfl), lit_ok 3 (by rfl)⟩

example : (treeOf prF prog1 0).1.size = 6 ∧ (treeOf prF prog1 0).2 = 1 := by constructor <;> rfl

example : ∃ d, build noFloat (defaultFuel 6) 1 (treeOf prF prog1 0).1 BState.empty = .ok (d, 0) ∧
    d.instrs = (compile prog1).instrs ∧ d.jumps = (compile prog1).jumps ∧ d.consts = (compile prog1).consts :=
  build_refines_compile_treeOf noFloat prF prog1 0 _ frag1 rfl (by rfl) (by decide)

/-- stage 2: the else-chain `$ ?> 1 |> 2 ?> 3 |> 4`, and `$ && 5` -/
theorem frag2 : InFrag prF noFloat prog2 0 := by
  simp only [InFrag, prog2, main2, int, fragE, fragArms]
  exact ⟨by decide, ⟨trivial, lit_ok 1 (by rfl), lit_ok 2 (by rfl), lit_ok 3 (by rfl), trivial⟩, lit_ok 4 (by rfl)⟩

example : stageOf prog2.main = 2 := by decide

example : ∃ d, build noFloat 100 (treeOf prF prog2 0).2 (treeOf prF prog2 0).1 BState.empty = .ok (d, 0) ∧
    d.instrs = (compile prog2).instrs ∧ d.jumps = (compile prog2).jumps ∧ d.consts = (compile prog2).consts :=
  build_refines_compile_treeOf noFloat prF prog2 0 _ frag2 rfl (by rfl) (by decide)

theorem frag2b : InFrag prF noFloat prog2b 0 := by
  simp only [InFrag, prog2b, main2b, int, fragE]
  exact ⟨trivial, lit_ok 5 (by rfl)⟩

/-- where no group is needed `treeOf` IS the tree of the real parser (the PARSE dump of `$ && 5`, token text included) -/
example : treeOf prF prog2b 0 = (tree2b, 1) := by rfl

/-- stage 3: `{ ^~ 7 } ~~`, nesting depth 1 -/
theorem frag3 : InFrag prF noFloat prog3 1 := by
  simp only [InFrag, prog3, main3, int, fragE, okOf]
  exact ⟨by decide, _, rfl, by simp only [fragE]; exact lit_ok 7 (by rfl)⟩

example : stageOf prog3.main = 3 := by decide

example : ∃ d, build noFloat 100 (treeOf prF prog3 1).2 (treeOf prF prog3 1).1 BState.empty = .ok (d, 0) ∧
    d.instrs = (compile prog3).instrs ∧ d.jumps = (compile prog3).jumps ∧ d.consts = (compile prog3).consts :=
  build_refines_compile_treeOf noFloat prF prog3 1 _ frag3 rfl (by rfl) (by decide)

end Garnish.Props.C01Build
