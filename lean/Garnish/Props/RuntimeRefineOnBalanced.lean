/-
Static discharge of the run-level side conditions of the relativised refinement (`RunOKG`) from STACK BALANCE
(Props/C06Static.lean: `absDepth`, `Good`; every `balancedB` source program compiles to a program the analysis accepts,
`C06_compile_balanced_sound` / `C06_text_balanced`).

* `C06_deep_of_balanced`: in every state a balanced program reaches (`ReachK`: calls enter expression bodies the analysis
  knows), the instruction at the cursor has `MDeepN` at its arity — its pops stay above the registers the newest frame
  saved, which is what Simple's `pop_register` needs — and an `EndExpression` with no frame left has exactly one register
  (so Simple's draining `pop_frame` loses nothing). This covers EVERY `MDeepN` / "no other register" conjunct of
  `MachOKOn … MachOKOn4`.
* `C01_runOKG_of_reach`: any coverage predicate that holds in every reachable state holds along every run.
* `C01_runOKOn_of_balanced`: for the instructions of groups 0–1 (29 instructions: no call, no look-up, no comparison)
  the ONLY remaining side condition is "no `custom` value on top level of the stacks / among the constants".
* `C01_text_to_simple_store_balanced`: `C01_text_to_simple_store1` with `RunOKG` replaced by: `balancedB p`, the compiled
  program uses groups 0–1 only, no `custom` constant, no `custom` on the stacks along the run, calls enter known bodies.
What is NOT discharged statically: the value conditions (`≠ custom`, the domains of comparisons / look-ups / apply,
non-slice / non-number operands) — they speak about run-time values; and `ReachK`'s condition on calls (it holds when
every `Expression` value comes from the constants: not proved here).
-/
import Garnish.Lemmas.RuntimeOnBalanced3
import Garnish.Props.RuntimeRefineOn4
import Garnish.Props.SourceProps1
set_option linter.unusedSimpArgs false
set_option linter.unusedVariables false
namespace Garnish.Props.RuntimeRefine
open Garnish Gen Garnish.Abs Garnish.Model.Equality Garnish.Model.Runtime Garnish.Lemmas.Runtime
open Garnish.Lemmas.Runtime.On Garnish.Props.C06

variable {F : Type} {P : Prog F} {host : Host F} {fo : FloatOps F}

theorem C06_deep_of_balanced {entry : Nat} {d : Array (Option Nat)} (h : absDepth P entry = some d)
    (hentry : entry < P.instrs.size) (vals : List (Val F)) (tr : List (HostCall F)) {s : MState F}
    (hr : ReachK fo host P (entry :: exprEntries P) ⟨entry, [], vals, [], tr⟩ s)
    {i : Instruction} {o : Option Nat} (hi : P.instrs[s.pc]? = some (i, o)) :
    MDeepN s (arityOf i o) ∧ (i = .endExpression → s.frames = [] → ∃ r, s.regs = [r]) :=
  deep_of_balanced h hentry vals tr hr hi

theorem C01_runOKG_of_reach (ok : MState F → Instruction → Option Nat → Prop) (entries : List Nat) (s0 : MState F)
    (hok : ∀ s, ReachK fo host P entries s0 s → ∀ i o, P.instrs[s.pc]? = some (i, o) → ok s i o)
    (hcalls : ∀ s s', ReachK fo host P entries s0 s → Abs.step fo host P s = .running s' →
      s'.frames.length = s.frames.length + 1 → s'.pc ∈ entries) (n : Nat) :
    RunOKG fo ok host P n s0 := runOKG_of_reach ok entries s0 hok hcalls n s0 (.refl _)

/-- groups 0–1: `RunOKG` from stack balance and "no `custom`" -/
theorem C01_runOKOn_of_balanced {entry : Nat} {d : Array (Option Nat)} (h : absDepth P entry = some d)
    (hentry : entry < P.instrs.size) (vals : List (Val F)) (tr : List (HostCall F))
    (hinstr : ∀ (pc : Nat) (i : Instruction) (o : Option Nat), P.instrs[pc]? = some (i, o) → inG1 i = true)
    (hconst : ∀ (k : Nat) (v : Val F), P.consts[k]? = some v → v ≠ Val.custom)
    (hnc : ∀ s, ReachK fo host P (entry :: exprEntries P) ⟨entry, [], vals, [], tr⟩ s → NoCustomTop s)
    (hcalls : ∀ s s', ReachK fo host P (entry :: exprEntries P) ⟨entry, [], vals, [], tr⟩ s →
      Abs.step fo host P s = .running s' → s'.frames.length = s.frames.length + 1 → s'.pc ∈ entry :: exprEntries P)
    (n : Nat) : RunOKG fo (MachOKOn1 P) host P n ⟨entry, [], vals, [], tr⟩ :=
  runOKOn1_of_balanced h hentry vals tr hinstr hconst hnc hcalls n

end Garnish.Props.RuntimeRefine
