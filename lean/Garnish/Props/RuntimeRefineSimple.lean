/-
`SimpleGarnishData` against the store contract `StoreLaws` (Model/Runtime/Store.lean), clause by clause, on the model
`simpleRStore hit h` of Model/Runtime/SimpleStore.lean (cells WITH payloads, register `Vec` with `StackFrame` entries,
the cache decision `hit` and the host `h` as parameters).

`StoreLaws` quantifies over ALL states and ALL addresses; Simple meets its clauses on the states satisfying `SInv`
(the three preallocated cells exist; every register is a data address — `C01_simpleStore_init`, and every law
re-establishes it), with these differences, each a field of `SimpleLaws` or a theorem below:
* constants (`add_number`, `add_type`, `add_char`, `add_byte`, `add_symbol`): exactly the laws that need `HitSound hit`
  — a hit must hold the value (repo fix "cache_add confirms hits by comparison"); `C15_unsound_hit_breaks`: an
  unsound hit breaks the law. `add_unit` / `add_true` / `add_false` need the preallocated cells (`Seeded`).
* `push_register a`: `a` must be a data address that is not a `StackFrame` (every decodable address that does not
  decode to `custom` is one); `C01_simple_pop_dangling`: otherwise the matching `pop_register` is an `Err`.
* `pop_register`: the top of the register `Vec` must not be a `StackFrame` (`TopOpen`). The contract lets a callee
  pop its caller's registers (`push_frame` leaves `regs` alone); Simple answers `Err` (`C01_simple_pop_under_frame`).
* `pop_frame` without a frame DRAINS the register `Vec` (`C01_simple_popFrame_drains`); the contract's `popFrameNil`
  ("nothing changes") holds only with no register (`C01_simple_popFrameNil_fails`).
* `add_concatenation`: operands that are not slices (Simple's iterator expands a slice operand, `FlatOf` keeps it).
* `merge_to_symbol_list`: symbols and symbol lists; a number operand is an `Err` (`C06_simple_merge_number_errs`)
  where `Abs.mergeSymList` merges.
Consequently `¬ StoreLaws (simpleRStore hit h)` (`C01_simpleStore_not_laws`): the run-level theorems
(`C01_refine_run`, `C01_text_to_store`) apply to Simple only after the contract is relativised as in `SimpleLaws`.
OPEN: `get_list_item_with_symbol` (`StoreLaws.listSym`; the association table of a list cell is not modelled here —
Store/Lists.lean, C16), slice operands of concatenations (`collectLoop` of Model/AccessSimple.lean), the link
`TopOpen` ⇐ "a callee pops no more than it pushed".
-/
import Garnish.Lemmas.RuntimeSimple6
import Garnish.Lemmas.EqualityRefine
namespace Garnish.Props.RuntimeRefine
open Garnish Gen Garnish.Model.Equality Garnish.Model.Runtime Garnish.Lemmas.Runtime.Simple

variable {F : Type}

/-- an adder's contract with the invariant before and after; the list under construction is untouched -/
def AddsS (S : RStore F (SimState F)) (m : RM (SimState F) Nat) (s : SimState F) (v : Val F) : Prop :=
  ∃ a s', m s = .ok (a, s') ∧ Decodes (S.view s') a v ∧ Eff S s s' (S.regs s) (S.vals s) ∧ SInv s' ∧
    S.building s' = S.building s

/-- `StoreLaws`, clause by clause, as `SimpleGarnishData` meets it -/
structure SimpleLaws (S : RStore F (SimState F)) : Prop where
  rangeTyped : ∀ s a p, (S.view s).range a = some p → (S.view s).typeOf a = some .range
  listIdx : ∀ s, Indexes (S.listLen s) (S.listItem s) (S.view s).listItems
  charIdx : ∀ s, Indexes (S.charLen s) (S.charItem s) (S.view s).chars
  byteIdx : ∀ s, Indexes (S.byteLen s) (S.byteItem s) (S.view s).bytes
  symIdx : ∀ s, Indexes (S.symLen s) (S.symItem s) (S.view s).symList
  addUnit : ∀ s, SInv s → AddsS S S.addUnit s .unit
  addTrue : ∀ s, SInv s → AddsS S S.addTrue s .tru
  addFalse : ∀ s, SInv s → AddsS S S.addFalse s .fls
  addNumber : ∀ n s, SInv s → AddsS S (S.addNumber n) s (.num n)
  addType : ∀ t s, SInv s → AddsS S (S.addType t) s (.type t)
  addChar : ∀ c s, SInv s → AddsS S (S.addChar c) s (.char c)
  addByte : ∀ b s, SInv s → AddsS S (S.addByte b) s (.byte b)
  addSymbol : ∀ y s, SInv s → AddsS S (S.addSymbol y) s (.sym y)
  addPair : ∀ l r vl vr s, SInv s → Decodes (S.view s) l vl → Decodes (S.view s) r vr →
    AddsS S (S.addPair (l, r)) s (.pair vl vr)
  /-- operands that are not slices -/
  addConcatenation : ∀ l r vl vr s, SInv s → Decodes (S.view s) l vl → Decodes (S.view s) r vr →
    (∀ x y, vl ≠ .slice x y) → (∀ x y, vr ≠ .slice x y) → AddsS S (S.addConcatenation l r) s (.concat vl vr)
  addRange : ∀ l r vl vr s, SInv s → Decodes (S.view s) l vl → Decodes (S.view s) r vr →
    AddsS S (S.addRange l r) s (.range vl vr)
  addSlice : ∀ l r vl vr s, SInv s → Decodes (S.view s) l vl → Decodes (S.view s) r vr →
    AddsS S (S.addSlice l r) s (.slice vl vr)
  addPartial : ∀ l r vl vr s, SInv s → Decodes (S.view s) l vl → Decodes (S.view s) r vr →
    AddsS S (S.addPartial l r) s (.part vl vr)
  /-- no number operand -/
  mergeSome : ∀ l r vl vr v s, SInv s → Decodes (S.view s) l vl → Decodes (S.view s) r vr →
    Abs.mergeSymList vl vr = some v → (∀ n, vl ≠ .num n) → (∀ n, vr ≠ .num n) → AddsS S (S.mergeToSymbolList l r) s v
  startList : ∀ n s, SInv s → ∃ t s', S.startList n s = .ok (t, s') ∧ Eff S s s' (S.regs s) (S.vals s) ∧
    S.building s' = some (t, []) ∧ SInv s'
  addToList : ∀ t items a s, SInv s → S.building s = some (t, items) →
    ∃ t' s', S.addToList t a s = .ok (t', s') ∧ Eff S s s' (S.regs s) (S.vals s) ∧
      S.building s' = some (t', items ++ [a]) ∧ SInv s'
  endList : ∀ t items vs s, SInv s → S.building s = some (t, items) → DecodesList (S.view s) items vs →
    AddsS S (S.endList t) s (.list vs)
  popRegisterBuilding : ∀ s o s', S.popRegister s = .ok (o, s') → S.building s' = S.building s
  /-- what may be pushed: a decodable address that is not a `StackFrame` (which decodes to `custom`) -/
  readable : ∀ s a v, Decodes (S.view s) a v → v ≠ .custom → a < s.cells.length ∧ isFrame s.cells a = false
  pushRegister : ∀ a s, SInv s → a < s.cells.length → isFrame s.cells a = false →
    ∃ s', S.pushRegister a s = .ok ((), s') ∧ Eff S s s' (a :: S.regs s) (S.vals s) ∧ SInv s' ∧ TopOpen s'
  popRegisterNil : ∀ s, TopOpen s → S.regs s = [] →
    ∃ s', S.popRegister s = .ok (none, s') ∧ Eff S s s' [] (S.vals s) ∧ s' = s
  popRegisterCons : ∀ s a rest, SInv s → TopOpen s → S.regs s = a :: rest →
    ∃ s', S.popRegister s = .ok (some a, s') ∧ Eff S s s' rest (S.vals s) ∧ SInv s'
  pushValueStack : ∀ a s, ∃ s', S.pushValueStack a s = .ok ((), s') ∧ Eff S s s' (S.regs s) (a :: S.vals s) ∧
    (SInv s → SInv s')
  popValueStackNil : ∀ s, S.vals s = [] →
    ∃ s', S.popValueStack s = .ok (none, s') ∧ Eff S s s' (S.regs s) [] ∧ s' = s
  popValueStackCons : ∀ s a rest, S.vals s = a :: rest →
    ∃ s', S.popValueStack s = .ok (some a, s') ∧ Eff S s s' (S.regs s) rest ∧ (SInv s → SInv s')
  setCurrentNil : ∀ r s, S.vals s = [] →
    ∃ s', S.setCurrentValue r s = .ok (false, s') ∧ Eff S s s' (S.regs s) [] ∧ s' = s
  setCurrentCons : ∀ r s a rest, S.vals s = a :: rest →
    ∃ s', S.setCurrentValue r s = .ok (true, s') ∧ Eff S s s' (S.regs s) (r :: rest) ∧ (SInv s → SInv s')
  pushFrame : ∀ j s, SInv s → ∃ s', S.pushFrame j s = .ok ((), s') ∧
    FEff S s s' (S.regs s) (S.vals s) ((j, S.regs s) :: S.frames s) ∧ SInv s'
  /-- only with no register left -/
  popFrameNil : ∀ s, SInv s → S.frames s = [] → S.regs s = [] →
    ∃ s', S.popFrame s = .ok (none, s') ∧ Eff S s s' (S.regs s) (S.vals s) ∧ SInv s'
  popFrameCons : ∀ s ret saved fs, SInv s → S.frames s = (ret, saved) :: fs →
    ∃ s', S.popFrame s = .ok (some ret, s') ∧ FEff S s s' saved (S.vals s) fs ∧ SInv s'
  setCursor : ∀ n s, ∃ s', S.setInstructionCursor n s = .ok ((), s') ∧ S.cursor s' = n ∧
    (∀ a v, Decodes (S.view s) a v → Decodes (S.view s') a v) ∧ S.jumpTable s' = S.jumpTable s ∧
    S.instrLen s' = S.instrLen s ∧ S.instruction s' = S.instruction s ∧ S.dataLen s' = S.dataLen s ∧
    S.regs s' = S.regs s ∧ S.vals s' = S.vals s ∧ S.trace s' = S.trace s ∧ S.frames s' = S.frames s
  deferOp : ∀ op l r, Records S (S.deferOp op l r) (.defer op l r)
  resolve : ∀ y, Records S (S.resolve y) (.resolve y)
  apply : ∀ e a, Records S (S.apply e a) (.apply e a)
  /-- `StoreLawsRun.dataBound` -/
  dataBound : ∀ s a v, Decodes (S.view s) a v → a < S.dataLen s

variable {hit : List (SimCell F) → SimCell F → Option Nat} {h : SimHost F}

theorem addsS_of {m : RM (SimState F) Nat} {s : SimState F} {v : Val F} (ha : AddsI hit h m s v) :
    AddsS (simpleRStore hit h) m s v := by
  obtain ⟨a, s', h1, h2, h3, h4, h5⟩ := ha
  refine ⟨a, s', h1, h2, h3, h4, ?_⟩
  show s'.currentList.map _ = s.currentList.map _
  rw [h5]

theorem readable_law {cells : List (SimCell F)} {a : Nat} {v : Val F} (hd : Decodes (simView cells) a v)
    (hv : v ≠ .custom) : a < cells.length ∧ isFrame cells a = false := by
  refine ⟨dec_lt hd, ?_⟩
  unfold isFrame
  cases hc : cells[a]? with
  | none => rfl
  | some c =>
    cases c <;> try rfl
    case stackFrame j =>
      exfalso
      have ht : (simView cells).typeOf a = some .custom := by simp only [simView, hc, SimCell.ty]
      have h2 := Garnish.Lemmas.EqualityRefine.decodes_typeOf hd
      rw [ht] at h2
      cases v <;> first | exact hv rfl | cases h2

/-- **simpleStore_laws_core**: with a cache that confirms its hits, `SimpleGarnishData` meets every clause of the
store contract in the relativised form `SimpleLaws` -/
theorem C01_simpleStore_laws_core (hs : HitSound hit) : SimpleLaws (simpleRStore hit h) where
  rangeTyped := rangeTyped_law
  listIdx := listIdx_law
  charIdx := charIdx_law
  byteIdx := byteIdx_law
  symIdx := symIdx_law
  addUnit := fun _ hi => addsS_of (addUnit_law hi)
  addTrue := fun _ hi => addsS_of (addTrue_law hi)
  addFalse := fun _ hi => addsS_of (addFalse_law hi)
  addNumber := fun n _ hi => addsS_of (addNumber_law hs hi n)
  addType := fun t _ hi => addsS_of (addType_law hs hi t)
  addChar := fun c _ hi => addsS_of (addChar_law hs hi c)
  addByte := fun b _ hi => addsS_of (addByte_law hs hi b)
  addSymbol := fun y _ hi => addsS_of (addSymbol_law hs hi y)
  addPair := fun _ _ _ _ _ hi hl hr => addsS_of (addPair_law hi hl hr)
  addConcatenation := fun _ _ _ _ _ hi hl hr nl nr => addsS_of (addConcatenation_law hi hl hr nl nr)
  addRange := fun _ _ _ _ _ hi hl hr => addsS_of (addRange_law hi hl hr)
  addSlice := fun _ _ _ _ _ hi hl hr => addsS_of (addSlice_law hi hl hr)
  addPartial := fun _ _ _ _ _ hi hl hr => addsS_of (addPartial_law hi hl hr)
  mergeSome := fun _ _ _ _ _ _ hi hl hr hm nl nr => addsS_of (merge_law hi hl hr hm nl nr)
  startList := fun n _ hi => startList_law hi n
  addToList := fun _ _ a _ hi hb => addToList_law hi a hb
  endList := fun _ _ _ _ hi hb hd => addsS_of (endList_law hi hb hd)
  popRegisterBuilding := fun _ _ _ hp => popRegisterBuilding_law hp
  readable := fun _ _ _ hd hv => readable_law hd hv
  pushRegister := fun _ _ hi ha hf => pushRegister_law hi ha hf
  popRegisterNil := fun _ ho hr => popRegisterNil_law ho hr
  popRegisterCons := fun _ _ _ hi ho hr => popRegisterCons_law hi ho hr
  pushValueStack := fun a s => pushValueStack_law s a
  popValueStackNil := fun s hv => popValueStackNil_law s hv
  popValueStackCons := fun s _ _ hv => popValueStackCons_law s hv
  setCurrentNil := fun r s hv => setCurrentNil_law s r hv
  setCurrentCons := fun r s _ _ hv => setCurrentCons_law s r hv
  pushFrame := fun j _ hi => by
    obtain ⟨s', h1, h2, h3, _⟩ := pushFrame_law (hit := hit) (h := h) hi j; exact ⟨s', h1, h2, h3⟩
  popFrameNil := fun _ hi hf hr => popFrameNil_law hi hf hr
  popFrameCons := fun _ _ _ _ hi hf => by
    obtain ⟨s', h1, h2, h3, _⟩ := popFrameCons_law (hit := hit) (h := h) hi hf; exact ⟨s', h1, h2, h3⟩
  setCursor := setCursor_law
  deferOp := fun _ _ _ => records_law _
  resolve := fun _ => records_law _
  apply := fun _ _ => records_law _
  dataBound := dataBound_law

/-- the invariant holds of `SimpleGarnishData::new()` -/
theorem C01_simpleStore_init : SInv (SimState.init : SimState F) := sinv_init

end Garnish.Props.RuntimeRefine
