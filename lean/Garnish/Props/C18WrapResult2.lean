/-
C18, the result half for the VALUE wrap `pre ++ [v] ++ post ↦ pre ++ ( :: v :: ) :: post`, with the text agreement DERIVED from the
rewrite (Props/C18WrapResult.lean had it as a hypothesis).

  C18_wrapValue_texts_agree      the two reference trees, parentheses removed, are relabellings of each other (`wrapPos`: positions
                                 before the `(` stay, `v` moves by one, the rest by two) that read the same token texts, and they
                                 elaborate to the same program.  Proof: the in-order walk of a reference tree is the list of the
                                 significant positions (`refParse_inorder`), those of the wrapped list are computed from the
                                 original ones (`significant_wrapValue`), the `( )` nodes are exactly the positions that carry a
                                 `(` (`kindOK_of`, from `refParse_nodes`), `relabel_of_erase_sig`, `elaborate_relabel`.
  C18_wrapValue_result_same'     hypotheses on the ORIGINAL list: `wrapValueOK pre v post` (decidable, tokens), `NoTrim`, its
                                 reference tree `T` has only redundant parentheses (`safe T`) and sane node kinds
                                 (`strippedOK`, true of every tree that elaborates); on the wrapped side ONE hypothesis is left:
                                 `safe T'`.  Conclusion: the wrapped list has a reference tree, and it elaborates to the same
                                 program — same value, trace or error of `evalProgram` for every input, host and fuel.
WHY `safe T'` stays (part (2) of the task): from what the tree half exports — `TreeEqGroups T T'`, the in-order walks, the node
kinds — the PLACE of the new `( )` node in `T'` is not determined: `(a) + b` and `(a + b)` have the same tree up to `( )` nodes
and the same in-order walk (a closing parenthesis leaves no node).  A token-level guard would need the exact statement
`T' = T with the leaf of v replaced by ( leaf )`, i.e. the simulation of Lemmas/RefWrap.lean (`refLoop_b`) with equality instead of
`EStrip` off the spine.  With that, `safe T'` follows from `safe T` alone: a value is never a list, a conditional or a block, so
the new pair passes every clause of the guard.
-/
import Garnish.Lemmas.WrapSig3
import Garnish.Props.C18WrapResult
namespace Garnish.Props.C18WrapResult
open Garnish Garnish.Gen Garnish.Spec Garnish.Abs Garnish.Abs.Source Garnish.Model.Parser Garnish.Props.C02Parse
open Garnish.Props.C18Parse Garnish.Props.C18Wrap Garnish.Props.C01Source Garnish.Props.C01Build

variable {F : Type} (pf : List Char → Option F)

theorem trimStart_head (x : PToken) (l : List PToken) : trimStart (x :: l) = 0 ↔ isTrimmable x = false := by
  simp only [trimStart]
  split <;> simp_all

/-- the wrapped list needs no trimming either -/
theorem noTrim_wrapValue {pre post : List PToken} {o v c : PToken} (ho : o.type = .startGroup) (hc : c.type = .endGroup)
    (h : NoTrim (pre ++ v :: post)) : NoTrim (pre ++ o :: v :: c :: post) := by
  obtain ⟨_, h1, h2⟩ := h
  have to : isTrimmable o = false := by simp [isTrimmable, ho]
  have tc : isTrimmable c = false := by simp [isTrimmable, hc]
  refine ⟨by simp, ?_, ?_⟩
  · cases pre with
    | nil => exact (trimStart_head _ _).mpr to
    | cons x pre' => exact (trimStart_head _ _).mpr ((trimStart_head _ _).mp h1)
  · have e : (pre ++ o :: v :: c :: post).reverse = post.reverse ++ c :: v :: o :: pre.reverse := by simp
    have e0 : (pre ++ v :: post).reverse = post.reverse ++ v :: pre.reverse := by simp
    rw [e]; rw [e0] at h2
    cases hr : post.reverse with
    | nil => exact (trimStart_head _ _).mpr tc
    | cons y r => rw [hr] at h2; exact (trimStart_head _ _).mpr ((trimStart_head _ _).mp h2)

theorem ok_of_outcomeEq {R : RTree → RTree → Prop} {T : RTree} {o : Outcome RTree} (h : OutcomeEq R (.ok T) o) :
    ∃ T', o = .ok T' ∧ R T T' := by
  cases o with
  | ok T' => exact ⟨T', rfl, h⟩
  | err _ => cases h
  | panic _ => cases h
  | fuelOut => cases h

/-- **text agreement, derived**: the wrapped list has a reference tree, equal to the original one up to `( )` nodes, and the two
trees without their parentheses elaborate to the same program -/
theorem C18_wrapValue_texts_agree {pre post : List PToken} {v o c : PToken} {T : RTree}
    (hw : wrapValueOK pre v post = true) (ho : o.type = .startGroup) (hc : c.type = .endGroup)
    (hn : NoTrim (pre ++ ([v] ++ post))) (href : refParse Table.gen (pre ++ ([v] ++ post)) = .ok T)
    (hQ : strippedOK T.stripGroups = true) :
    ∃ T', refParse Table.gen (pre ++ o :: ([v] ++ c :: post)) = .ok T' ∧ TreeEqGroups T T' ∧
      elaborate pf (pre ++ o :: ([v] ++ c :: post)) (ungroup T') = elaborate pf (pre ++ ([v] ++ post)) (ungroup T) := by
  have hn' := noTrim_wrapValue ho hc (by simpa using hn)
  have h := C18_refParse_wrapValue hw ho hc hn (by simpa using hn') href
  rw [href] at h
  obtain ⟨T', hT', hE⟩ := ok_of_outcomeEq h
  have hv : isValueTok v = true := by
    simp only [wrapValueOK, Bool.and_eq_true] at hw
    exact hw.1.1
  refine ⟨T', hT', hE, ?_⟩
  exact elaborate_wrapValue_ungroup pf ho hc hv (by simpa using hn) hn' (by simpa using href) (by simpa using hT') hE hQ

/-- **C18, a value token in parentheses: the same program and the same result** -/
theorem C18_wrapValue_result_same' (fo : FloatOps F) (host : Host F) {pre post : List PToken} {v o c : PToken} {T : RTree}
    (hw : wrapValueOK pre v post = true) (ho : o.type = .startGroup) (hc : c.type = .endGroup)
    (hn : NoTrim (pre ++ ([v] ++ post))) (href : refParse Table.gen (pre ++ ([v] ++ post)) = .ok T)
    (hQ : strippedOK T.stripGroups = true) (hs : safe T = true) :
    ∃ T', refParse Table.gen (pre ++ o :: ([v] ++ c :: post)) = .ok T' ∧ TreeEqGroups T T' ∧
      (safe T' = true →
        elaborate pf (pre ++ o :: ([v] ++ c :: post)) T' = elaborate pf (pre ++ ([v] ++ post)) T ∧
        ∀ (fuel : Nat) (input : Val F),
          (elaborate pf (pre ++ o :: ([v] ++ c :: post)) T').map (fun p => evalProgram fo host fuel p input) =
            (elaborate pf (pre ++ ([v] ++ post)) T).map (fun p => evalProgram fo host fuel p input)) := by
  obtain ⟨T', hT', hE, hel⟩ := C18_wrapValue_texts_agree pf hw ho hc hn href hQ
  refine ⟨T', hT', hE, fun hs' => ?_⟩
  have h : elaborate pf (pre ++ o :: ([v] ++ c :: post)) T' = elaborate pf (pre ++ ([v] ++ post)) T := by
    rw [elaborate_ungroup pf _ T' hs', elaborate_ungroup pf _ T hs, hel]
  exact ⟨h, fun fuel input => by rw [h]⟩

/-! ### non-vacuity: `a + b, 3` ↦ `a + (b), 3` -/

def exV2 : List PToken :=
  [tk .identifier "a" 0, tk .plusSign "+" 1, tk .identifier "b" 2, tk .comma "," 3, tk .number "3" 4]

theorem exV2_cond : wrapValueOK [tk .identifier "a" 0, tk .plusSign "+" 1] (tk .identifier "b" 2)
    [tk .comma "," 3, tk .number "3" 4] = true := by decide

def treeV2 : RTree :=
  .node (.node (.node .nil .identifier 0 .nil) .addition 1 (.node .nil .identifier 2 .nil)) .commaList 3 (.node .nil .number 4 .nil)

theorem exV2_ref : refParse Table.gen exV2 = .ok treeV2 := rfl

/-- every hypothesis about the original list holds (by evaluation), the wrapped list `a + (b), 3` has a reference tree, that tree
is safe too, and the two lists elaborate to the same program -/
example (fo : FloatOps Float) : ∃ T', refParse Table.gen ([tk .identifier "a" 0, tk .plusSign "+" 1] ++ tk .startGroup "(" 2 ::
      ([tk .identifier "b" 2] ++ tk .endGroup ")" 3 :: [tk .comma "," 3, tk .number "3" 4])) = .ok T' ∧ safe T' = true ∧
    elaborate noFloat ([tk .identifier "a" 0, tk .plusSign "+" 1] ++ tk .startGroup "(" 2 ::
      ([tk .identifier "b" 2] ++ tk .endGroup ")" 3 :: [tk .comma "," 3, tk .number "3" 4])) T' = elaborate noFloat exV2 treeV2 := by
  obtain ⟨T', h1, _, h3⟩ := C18_wrapValue_result_same' noFloat fo Host.declining
    (pre := [tk .identifier "a" 0, tk .plusSign "+" 1]) (post := [tk .comma "," 3, tk .number "3" 4]) (v := tk .identifier "b" 2)
    (o := tk .startGroup "(" 2) (c := tk .endGroup ")" 3) (T := treeV2) exV2_cond rfl rfl
    (by refine ⟨by simp, rfl, rfl⟩) exV2_ref (by decide) (by decide)
  have hT : T' = .node (.node (.node .nil .identifier 0 .nil) .addition 1 (.group .group 2 (.node .nil .identifier 3 .nil)))
      .commaList 5 (.node .nil .number 6 .nil) := by
    have : refParse Table.gen ([tk .identifier "a" 0, tk .plusSign "+" 1] ++ tk .startGroup "(" 2 ::
      ([tk .identifier "b" 2] ++ tk .endGroup ")" 3 :: [tk .comma "," 3, tk .number "3" 4])) = .ok _ := rfl
    rw [h1] at this
    exact (Outcome.ok.inj this)
  have hs : safe T' = true := by rw [hT]; decide
  exact ⟨T', h1, hs, (h3 hs).1⟩

end Garnish.Props.C18WrapResult
