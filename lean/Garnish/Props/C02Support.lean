/-
Support lemmas that discharge hypotheses of other end-to-end theorems.

 (1) Fragment membership depends on the token TYPES only: `frag9_of_sameTypes`, `frag9'_of_sameTypes` (for numbered lists —
     the parser's inputs `toP t` are numbered): the recogniser `parseG` commutes with every type-preserving map of tokens
     (Lemmas/ParseSupport1/2), and two numbered lists with the same types are such maps of each other.
     Corollaries: `C18_text_addSpace'`, `C18_text_addSpace_result'` (Props/C18Text.lean without the hypothesis that the
     rewritten token list is in the fragment).
 (2) `refParse_textNodesOnTokens`: every node of the reference tree whose definition reads its token`s text sits on a token
     that is not Whitespace / Subexpression (Lemmas/ParseSupport3: a node `(d, k)` of `refParse toks` is a `List` node or `d`
     is the definition of the type of `toks[k]`, Property for an Identifier after `.`).
     Corollaries: `C18_text_addSpace_elaborate'`, and `C18_text_addSpace_result'` also loses `TextNodesOnTokens`.
 (3) Numbering with a side-effect block: `fragBlocks` = `frag9'` or `v trivia* [ trivia* body trivia* ]` with `v` a value
     token and `body` in `frag8` without a trailing blank line before `}` (`Spec.valueBlockN`).
     `C02_parse_inorder_range_blocks`: on `fragBlocks` the in-order walk of the parser`s tree is `0 … nodes.size - 1`;
     `C01_tokens_build'` / `C01_text_correct_blocks'`: Props/C01Blocks.lean without the hypothesis `hin`.
     NOT covered (see the report): a block inside a larger expression (`5 [6], 1`), after a group, nested `v [b]` operands.
     The induction behind `frag9` is two-sided (every step also states the reference parser`s step), and the reference
     grammar has no rule for `[ ]`; covering those shapes needs a reference semantics for blocks or a parser-only version of
     that induction, plus a bottom-of-spine invariant for "value node with a right child".
-/
import Garnish.Lemmas.ParseSupport2
import Garnish.Lemmas.ParseSupport3
import Garnish.Props.C18Text
import Garnish.Lemmas.ParseSupport5
import Garnish.Props.C01Blocks
namespace Garnish.Props.C02Support
open Garnish Garnish.Gen Garnish.Spec Garnish.Model Garnish.Model.Lexer Garnish.Model.Parser
open Garnish.Abs Garnish.Abs.Source Garnish.Props.C02Parse Garnish.Props.C18Parse Garnish.Props.C18Text
open Garnish.Abs.Tree Garnish.Model.Literals Garnish.Model.Build Garnish.Props.C01Build Garnish.Props.C01Source
open Garnish.Props.C02Numbered

/-! ### (1) token types only -/

theorem frag9_map {f : PToken → PToken} (hf : ∀ t, (f t).type = t.type) (toks : List PToken)
    (h : frag9 toks = true) : frag9 (toks.map f) = true := by
  unfold frag9 frag8 at h ⊢
  rcases Bool.or_eq_true _ _ |>.mp h with h | h
  · rw [fragF_map hf h]; rfl
  · rw [fragTC_map hf h]; simp

/-- **`frag9` depends on the token types only** -/
theorem frag9_of_sameTypes {a b : List PToken} (ha : NumberedFrom 0 a) (hb : NumberedFrom 0 b) (h : SameTypes a b) :
    frag9 a = frag9 b :=
  frag_of_sameTypes (P := frag9) (fun _ hf toks => frag9_map hf toks) ha hb h

/-- **`frag9'` depends on the token types only** -/
theorem frag9'_of_sameTypes {a b : List PToken} (ha : NumberedFrom 0 a) (hb : NumberedFrom 0 b) (h : SameTypes a b) :
    frag9' a = frag9' b :=
  frag_of_sameTypes (P := frag9') (fun _ hf toks => frag9N_map hf toks) ha hb h

/-- the same for the parser inputs of two lexer token lists -/
theorem frag9_toP {t t' : List LexerToken} (h : SameTypes (toP t) (toP t')) : frag9 (toP t) = frag9 (toP t') :=
  frag9_of_sameTypes (toP_numbered t) (toP_numbered t') h

theorem frag9'_toP {t t' : List LexerToken} (h : SameTypes (toP t) (toP t')) : frag9' (toP t) = frag9' (toP t') :=
  frag9'_of_sameTypes (toP_numbered t) (toP_numbered t') h

/-! ### (2) text-reading nodes sit on tokens -/

theorem refParse_textNodesOnTokens (toks : List PToken) (rt : RTree) (h : refParse Table.gen toks = .ok rt)
    (_hnum : NumberedFrom 0 toks) : TextNodesOnTokens toks rt :=
  refParse_text_nodes toks rt h

/-! ### the text-level theorems of Props/C18Text.lean without those hypotheses -/

/-- `C18_text_addSpace` with one fragment hypothesis: the original token list is in `frag9` -/
theorem C18_text_addSpace' (cc : CharClass) (hcc : cc.Sane) (s s' : List Char) (t : List LexerToken)
    (hl : lex cc s = .ok t) (h : C18Text.TextAddSpace cc s s') (hf : frag9 (toP t) = true) :
    ∃ t' r tr r' tr', lex cc s' = .ok t' ∧ parse (toP t) = .ok r ∧ toTree r = some tr ∧ parse (toP t') = .ok r' ∧
      toTree r' = some tr' ∧ treeToRG r tr = treeToRG r' tr' ∧ TreeEqTrivia (treeToRG r tr) (treeToRG r' tr') := by
  obtain ⟨t1, hl1, hc⟩ := C18_text_addSpace_lex cc hcc s s' t hl h
  refine C18_text_addSpace cc hcc s s' t hl h hf (fun t' hl' => ?_)
  rw [hl1] at hl'; cases hl'
  rw [← frag9_toP hc.sameTypes]; exact hf

/-- `C18_text_addSpace_elaborate` without `TextNodesOnTokens`: `rt` is the reference tree of the original tokens -/
theorem C18_text_addSpace_elaborate' {F : Type} (pf : List Char → Option F) (t t' : List LexerToken)
    (h : OneWsChanged t t') (rt : RTree) (href : refParse Table.gen (toP t) = .ok rt) :
    elaborate pf (toP t') rt = elaborate pf (toP t) rt :=
  C18_text_addSpace_elaborate pf t t' h rt (refParse_textNodesOnTokens _ rt href (toP_numbered t))

/-- **result half on `frag9'`**, hypotheses about the ORIGINAL text only -/
theorem C18_text_addSpace_result' {F : Type} (pf : List Char → Option F) (cc : CharClass) (hcc : cc.Sane)
    (fo : FloatOps F) (host : Host F) (s s' : List Char) (t : List LexerToken) (hl : lex cc s = .ok t)
    (h : C18Text.TextAddSpace cc s s') (hf : frag9' (toP t) = true)
    (rt : RTree) (href : refParse Table.gen (toP t) = .ok rt)
    (p : Program F) (hel : elaborate pf (toP t) rt = some p) (hwf : C01.WFProgram p)
    (input : Val F) (fuel : Nat) (v : Val F) (st : St F) (he : evalProgram fo host fuel p input = .ok (v, st)) :
    ∀ src ∈ [s, s'], ∃ d entry, C01Text.buildText pf cc src = .ok (d, entry) ∧
      ∃ n m, run fo host (progOf d) n
          { pc := (progOf d).jumps[entry]?.getD 0, regs := [], vals := [input], frames := [], trace := [] } = (.halted m, n) ∧
        m.vals = [v] ∧ m.regs = [] ∧ m.frames = [] ∧ m.trace = st.trace := by
  obtain ⟨t1, hl1, hc⟩ := C18_text_addSpace_lex cc hcc s s' t hl h
  refine C18_text_addSpace_result pf cc hcc fo host s s' t hl h hf (fun t' hl' => ?_) rt href
    (refParse_textNodesOnTokens _ rt href (toP_numbered t)) p hel hwf input fuel v st he
  rw [hl1] at hl'; cases hl'
  rw [← frag9'_toP hc.sameTypes]; exact hf

/-! ### non-vacuity -/

/-- the example of Props/C18Text.lean (`x + y` / `x  \t+ y`) through the theorem with the single fragment hypothesis -/
example : ∃ t' r tr r' tr', lex rustTables exS' = .ok t' ∧ parse (toP exT) = .ok r ∧ toTree r = some tr ∧
    parse (toP t') = .ok r' ∧ toTree r' = some tr' ∧ treeToRG r tr = treeToRG r' tr' ∧
    TreeEqTrivia (treeToRG r tr) (treeToRG r' tr') :=
  C18_text_addSpace' rustTables rustTables_sane2.toSane exS exS' exT exS_lex.1 exS_add exS_frag.1

/-- membership transfers between the two token lists of that example -/
example : frag9 (toP exT') = frag9 (toP exT) := by
  obtain ⟨t', hl', hc⟩ := C18_text_addSpace_lex rustTables rustTables_sane2.toSane exS exS' exT exS_lex.1 exS_add
  have e : (Outcome.ok t' : Outcome (List LexerToken)) = .ok exT' := hl'.symm.trans exS_lex.2
  cases e
  exact (frag9_toP hc.sameTypes).symm

/-! ### (3) numbering with a side-effect block -/

open Garnish.Props.C01Blocks Garnish.Props.C01Text

/-- `frag9'`, or a value followed by one side-effect block whose body is in `frag8` (no trailing blank line before `}`) -/
def fragBlocks (toks : List PToken) : Bool := frag9' toks || Spec.valueBlockN toks

theorem fragBlocks_of_sameTypes {a b : List PToken} (ha : NumberedFrom 0 a) (hb : NumberedFrom 0 b) (h : SameTypes a b) :
    fragBlocks a = fragBlocks b :=
  frag_of_sameTypes (P := fragBlocks) (fun f hf toks hP => by
    unfold fragBlocks at hP ⊢
    rcases Bool.or_eq_true _ _ |>.mp hP with hP | hP
    · rw [show frag9' (toks.map f) = true from frag9N_map hf toks hP]; rfl
    · rw [valueBlockN_map hf toks hP]; simp) ha hb h

/-- **numbering on `fragBlocks`**: the nodes are numbered in in-order and all of them are in the tree -/
theorem C02_parse_inorder_range_blocks (toks : List PToken) (hf : fragBlocks toks = true) (hnum : NumberedFrom 0 toks)
    (r : ParseResult) (t : Spec.Tree) (hp : parse toks = .ok r) (ht : toTree r = some t) :
    t.inorder = List.range r.nodes.size := by
  unfold fragBlocks at hf
  rcases Bool.or_eq_true _ _ |>.mp hf with h | h
  · exact C02_parse_inorder_range toks h hnum r t hp ht
  · exact parse_inorder_range_valueBlock h hnum hp ht

/-- `WellNumbered` on `fragBlocks` -/
theorem C02_parse_wellNumbered_blocks (toks : List PToken) (hf : fragBlocks toks = true) (hnum : NumberedFrom 0 toks)
    (r : ParseResult) (t : Spec.Tree) (hp : parse toks = .ok r) (ht : toTree r = some t) : WellNumbered toks r t :=
  wellNumbered_of_inorder toks hnum r t hp ht (C02_parse_inorder_range_blocks toks hf hnum r t hp ht)

variable {F : Type} (pf : List Char → Option F) (cc : CharClass)

/-- **tokens → builder** on `fragBlocks` (no hypothesis about the numbering) -/
theorem C01_tokens_build' (toks : List PToken) (hf : fragBlocks toks = true) (hnum : NumberedFrom 0 toks) (r : ParseResult)
    (t : Spec.Tree) (hp : parse toks = .ok r) (ht : toTree r = some t)
    (p : Program F) (hel : elaborate pf toks (refTreeOf r t) = some p)
    (hcomplete : (compileState Prog.empty p).pending = []) :
    ∃ d, build pf (defaultFuel r.nodes.size) r.root r.nodes BState.empty = .ok (d, 0) ∧
      d.instrs = (compile p).instrs ∧ d.jumps = (compile p).jumps ∧ d.consts = (compile p).consts :=
  C01_tokens_build pf toks hnum r t hp ht (C02_parse_inorder_range_blocks toks hf hnum r t hp ht) p hel hcomplete

/-- **characters → machine result** on `fragBlocks` (no hypothesis about the numbering) -/
theorem C01_text_correct_blocks' (fo : FloatOps F) (host : Host F) (s : List Char) (toks : List LexerToken)
    (hlex : lex cc s = .ok toks) (hf : fragBlocks (toP toks) = true) (r : ParseResult) (t : Spec.Tree)
    (hp : parse (toP toks) = .ok r) (ht : toTree r = some t)
    (p : Program F) (hel : elaborate pf (toP toks) (refTreeOf r t) = some p)
    (hwf : C01.WFProgram p) (input : Val F) (fuel : Nat) (v : Val F) (st : St F)
    (h : evalProgram fo host fuel p input = .ok (v, st)) :
    ∃ d entry, buildText pf cc s = .ok (d, entry) ∧
      ∃ n m, run fo host (progOf d) n
          { pc := (progOf d).jumps[entry]?.getD 0, regs := [], vals := [input], frames := [], trace := [] } = (.halted m, n) ∧
        m.vals = [v] ∧ m.regs = [] ∧ m.frames = [] ∧ m.trace = st.trace :=
  C01_text_correct_blocks pf cc fo host s toks hlex r t hp ht
    (C02_parse_inorder_range_blocks (toP toks) hf (Lexer.toP_numbered toks) r t hp ht) p hel hwf input fuel v st h

/-! ### non-vacuity: `"5 [6 + 1]"` -/

def srcVB : String := "5 [6 + 1]"
def mainVB : Expr Float := .sideAfter (int 5) (.binary .add (int 6) (int 1))
def progVB : Program Float := { main := mainVB, bodies := [(0, mainVB)] }
def toksVB : List PToken := toP (lexed srcVB)

theorem vb_lex : lex asciiCC srcVB.toList = .ok (lexed srcVB) := by rfl
theorem vb_frag : fragBlocks toksVB = true ∧ frag9' toksVB = false := by decide
theorem vb_parse : parse toksVB = .ok (resultOf toksVB) := by rfl
theorem vb_tree : toTree (resultOf toksVB) = some (treeOfResult toksVB) := by rfl
theorem vb_elab : elaborate noFloat toksVB (refTreeOf (resultOf toksVB) (treeOfResult toksVB)) = some progVB := by rfl

/-- the numbering theorem on the example (the hypothesis that Props/C01Blocks.lean checks by evaluation) -/
example : (treeOfResult toksVB).inorder = List.range (resultOf toksVB).nodes.size :=
  C02_parse_inorder_range_blocks toksVB vb_frag.1 (Lexer.toP_numbered _) _ _ vb_parse vb_tree

example : ∃ d, build noFloat (defaultFuel (resultOf toksVB).nodes.size) (resultOf toksVB).root
      (resultOf toksVB).nodes BState.empty = .ok (d, 0) ∧
    d.instrs = (compile progVB).instrs ∧ d.jumps = (compile progVB).jumps ∧ d.consts = (compile progVB).consts :=
  C01_tokens_build' noFloat toksVB vb_frag.1 (Lexer.toP_numbered _) _ _ vb_parse vb_tree progVB vb_elab (by rfl)

/-- … and down to the machine: `"5 [6]"` -/
def srcVB2 : String := "5 [6]"
def mainVB2 : Expr Float := .sideAfter (int 5) (int 6)
def progVB2 : Program Float := { main := mainVB2, bodies := [(0, mainVB2)] }
def toksVB2 : List PToken := toP (lexed srcVB2)
theorem vb2_lex : lex asciiCC srcVB2.toList = .ok (lexed srcVB2) := by rfl
theorem vb2_frag : fragBlocks toksVB2 = true ∧ frag9' toksVB2 = false := by decide
theorem vb2_parse : parse toksVB2 = .ok (resultOf toksVB2) := by rfl
theorem vb2_tree : toTree (resultOf toksVB2) = some (treeOfResult toksVB2) := by rfl
theorem vb2_elab : elaborate noFloat toksVB2 (refTreeOf (resultOf toksVB2) (treeOfResult toksVB2)) = some progVB2 := by rfl

theorem progVB2_done : (compileState Prog.empty progVB2).done = [⟨.ref 0, 0, [(.endExpression, none)], 0⟩] := by rfl

theorem progVB2_wf : C01.WFProgram progVB2 where
  main0 := rfl
  wf := by
    intro id b h
    simp only [progVB2, lookupBody] at h
    split at h
    · cases h; rfl
    · cases h
  tail := rfl
  labels := by
    intro r hr id hk
    rw [progVB2_done] at hr
    simp only [List.mem_cons, List.not_mem_nil, or_false] at hr
    subst hr
    cases hk; rfl
  covered := by
    intro id b h
    rw [progVB2_done]
    simp only [progVB2, lookupBody] at h
    split at h
    · rename_i hid
      have h0 : (0 : Nat) = id := by simpa using hid
      subst h0
      exact ⟨⟨.ref 0, 0, [(.endExpression, none)], 0⟩, by simp, rfl⟩
    · cases h

/-- the source means `5` (the value of the block is dropped) -/
theorem progVB2_meaning (fo : FloatOps Float) (host : Host Float) :
    evalProgram fo host 6 progVB2 .unit = .ok (.num (.int 5), ⟨.unit, []⟩) := by
  simp [evalProgram, evalBody, evalF, lookupBody, progVB2, mainVB2, int]

example (fo : FloatOps Float) (host : Host Float) :
    ∃ d entry, buildText noFloat asciiCC srcVB2.toList = .ok (d, entry) ∧
      ∃ n m, run fo host (progOf d) n
          { pc := (progOf d).jumps[entry]?.getD 0, regs := [], vals := [.unit], frames := [], trace := [] } = (.halted m, n) ∧
        m.vals = [.num (.int 5)] ∧ m.regs = [] ∧ m.frames = [] ∧ m.trace = [] := by
  exact C01_text_correct_blocks' noFloat asciiCC fo host _ _ vb2_lex vb2_frag.1 _ _ vb2_parse vb2_tree progVB2 vb2_elab
    progVB2_wf .unit 6 _ _ (progVB2_meaning fo host)

end Garnish.Props.C02Support
