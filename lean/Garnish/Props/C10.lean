/-
C10 — one notion of truth; conditionals and logic evaluate only what they must.
Part 1 (this file, value/instruction level): exactly two values are false and every testing
instruction classifies every value the same way; the three places where the Rust code spells the
falsy set out are regenerated from the source and must equal the language's set (bridge theorems).
Part 2 (program level: short-circuit, selected arm only) is stated on compiled code in Props/C01.
-/
import Garnish.Abs.Machine
import Garnish.Gen.RuntimeTables
namespace Garnish.Props.C10
open Garnish Gen Garnish.Abs

variable {F : Type} (fo : FloatOps F) (host : Host F)

/-- the language's falsy types -/
def Spec.falsy : List Ty := [.false, .unit]

/-! ### bridge: what the code says now (regenerated) = what the language says -/
theorem C10_bridge_is_true_value : Gen.falsy_isTrueValue = Spec.falsy := by decide
theorem C10_bridge_jump_if_true : Gen.falsy_jumpIfTrue = Spec.falsy := by decide
theorem C10_bridge_jump_if_false : Gen.falsy_jumpIfFalse = Spec.falsy := by decide
theorem C10_bridge_logical_sites : Gen.isTrueValueUsers = ["and", "or", "xor", "not", "tis"] := by decide

/-- exactly two values are false: unit and `$!` -/
theorem C10_exactly_two_false (v : Val F) : v.truthy = false ↔ (v = .unit ∨ v = .fls) := by
  cases v <;> simp [Val.truthy]

/-- truth depends on the type only, and the falsy types are exactly the language's two -/
theorem C10_truthiness_by_type (v : Val F) : v.truthy = !(Spec.falsy.contains v.typeOf) := by
  cases v <;> rfl

/-! ### every testing instruction uses that one classification -/

theorem C10_jumpIfTrue (P : Prog F) (s : MState F) (j t : Nat) (d : Val F) (rs : List (Val F))
    (hi : P.instrs[s.pc]? = some (.jumpIfTrue, some j)) (hj : P.jumps[j]? = some t) (hr : s.regs = d :: rs) :
    step fo host P s = finish P (.ok ({ s with regs := rs }, if d.truthy then t else s.pc + 1)) := by
  simp [step, hi, hr, jumpTarget, hj]

theorem C10_jumpIfFalse (P : Prog F) (s : MState F) (j t : Nat) (d : Val F) (rs : List (Val F))
    (hi : P.instrs[s.pc]? = some (.jumpIfFalse, some j)) (hj : P.jumps[j]? = some t) (hr : s.regs = d :: rs) :
    step fo host P s = finish P (.ok ({ s with regs := rs }, if d.truthy then s.pc + 1 else t)) := by
  simp [step, hi, hr, jumpTarget, hj]

/-- `&&`: a false left operand decides the outcome: `$!` is pushed and the right operand's code is
skipped; otherwise control goes to the right operand's code (which ends in `Tis`) -/
theorem C10_and (P : Prog F) (s : MState F) (j t : Nat) (d : Val F) (rs : List (Val F))
    (hi : P.instrs[s.pc]? = some (.and, some j)) (hj : P.jumps[j]? = some t) (hr : s.regs = d :: rs) :
    step fo host P s =
      (if d.truthy then finish P (.ok ({ s with regs := rs }, t))
       else seqNext P s (.ok { s with regs := .fls :: rs })) := by
  simp [step, hi, hr, jumpTarget, hj]
  split <;> simp_all [Except.map]

theorem C10_or (P : Prog F) (s : MState F) (j t : Nat) (d : Val F) (rs : List (Val F))
    (hi : P.instrs[s.pc]? = some (.or, some j)) (hj : P.jumps[j]? = some t) (hr : s.regs = d :: rs) :
    step fo host P s =
      (if d.truthy then seqNext P s (.ok { s with regs := .tru :: rs })
       else finish P (.ok ({ s with regs := rs }, t))) := by
  simp [step, hi, hr, jumpTarget, hj]
  split <;> simp_all [Except.map]

/-- `!!`, `??` and `^^` are functions of the operands' truth and always produce a boolean -/
theorem C10_not_tis_xor (a b : Val F) :
    unaryOp fo .not a = some (.val (Val.ofBool (!a.truthy))) ∧
    unaryOp fo .tis a = some (.val (Val.ofBool a.truthy)) ∧
    binaryOp fo .xor a b = some (.val (Val.ofBool (a.truthy != b.truthy))) := ⟨rfl, rfl, rfl⟩

/-! ### non-vacuity -/
example : (Val.num (F := F) (.int 0)).truthy = true ∧ (Val.chars (F := F) []).truthy = true ∧
    (Val.list (F := F) []).truthy = true ∧ (Val.unit (F := F)).truthy = false ∧ (Val.fls (F := F)).truthy = false :=
  ⟨rfl, rfl, rfl, rfl, rfl⟩

end Garnish.Props.C10
