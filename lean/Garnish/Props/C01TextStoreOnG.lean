/-
`C01_text_to_simple_store` (Props/C01TextStoreOn.lean) made GENERIC in the covered instruction set: from any
coverage predicate `ok` on (program, machine state, instruction, operand) that comes with a relativised step
theorem on `simpleRStore`, the text theorem for the runs `ok` allows (`RunOKG`). Each coverage group instantiates it in
one line (`C01_text_to_simple_store1`, …). Also: the declining host on Simple meets `HostRefinesI`.
-/
import Garnish.Props.C01TextStoreOn
import Garnish.Lemmas.RuntimeOnG1
set_option linter.unusedSimpArgs false
set_option linter.unusedVariables false
namespace Garnish.Props.C01TextStore
open Garnish Garnish.Gen Garnish.Spec Garnish.Abs Garnish.Abs.Tree Garnish.Abs.Source Garnish.Model Garnish.Model.Parser
open Garnish.Model.Lexer Garnish.Model.Literals Garnish.Model.Build Garnish.Props.C01Build Garnish.Props.C01Source
open Garnish.Props.C02Numbered Garnish.Props.C01Text
open Garnish.Model.Equality Garnish.Model.Runtime Garnish.Lemmas.Runtime Garnish.Props.RuntimeRefine
open Garnish.Lemmas.Runtime.On Garnish.Lemmas.Runtime.Simple

variable {F : Type}
variable (pf : List Char → Option F) (cc : CharClass)

/-- the value at the end of a run the predicate `ok` allows, on any store with a step theorem for `ok` -/
theorem refine_run_value_gen {σ : Type} {S : RStore F σ} {Inv : σ → Prop} {P : Prog F} (fo : FloatOps F) (host : Host F)
    (ok : MState F → Instruction → Option Nat → Prop) (fuel : Nat) (H : OtherHandlers σ)
    (hstep : ∀ (s : σ) (m : MState F) instr operand, Sim S P s m → Inv s → Loaded S P s →
      P.instrs[m.pc]? = some (instr, operand) → ok m instr operand → StepSimOn fo host S Inv P fuel H s m)
    (n : Nat) {s : σ} {m : MState F} (hsim : Sim S P s m) (hi : Inv s) (hl : Loaded S P s)
    (hok : RunOKG fo ok host P n m) {m' : MState F} {k : Nat} (hrun : Abs.run fo host P n m = (.halted m', k))
    {v : Val F} (hv : m'.vals = [v]) (hr : m'.regs = []) (hf : m'.frames = []) :
    ∃ s' a, executeLoop fo S fuel H n s = .ok ((.end_, k), s') ∧
      S.vals s' = [a] ∧ Decodes (S.view s') a v ∧ S.regs s' = [] ∧ S.frames s' = [] ∧ Inv s' := by
  obtain ⟨s', h1, hd, _, i'⟩ := executeLoop_spec_gen fo ok fuel H hstep n s m hsim hi hl hok m' k hrun
  have hvals := hd.vals
  rw [hv] at hvals
  obtain ⟨a, as, e1, da, t⟩ := decodesList_cons_inv hvals
  have has : as = [] := by cases t; rfl
  have hregs := hd.regs
  rw [hr] at hregs
  have hfr := hd.frames
  rw [hf] at hfr
  refine ⟨s', a, h1, by rw [e1, has], da, ?_, ?_, i'⟩
  · generalize S.regs s' = rs at hregs; cases hregs; rfl
  · generalize S.frames s' = fs at hfr; cases hfr; rfl

/-- **characters → `SimpleGarnishData`**, for the runs an coverage predicate with a step theorem allows -/
theorem C01_text_to_simple_store_of {hit : List (SimCell F) → SimCell F → Option Nat} (hh : SimHost F)
    (fo : FloatOps F) (host : Host F) (loopFuel : Nat) (H : OtherHandlers (SimState F))
    (ok : Prog F → MState F → Instruction → Option Nat → Prop)
    (hstep : ∀ (P : Prog F) (s : SimState F) (m : MState F) instr operand, Sim (simpleRStore hit hh) P s m → SInv s →
      Loaded (simpleRStore hit hh) P s → P.instrs[m.pc]? = some (instr, operand) → ok P m instr operand →
      StepSimOn fo host (simpleRStore hit hh) SInv P loopFuel H s m)
    (s : List Char) (toks : List LexerToken)
    (hlex : lex cc s = .ok toks) (hf : frag9' (toP toks) = true) (rt : RTree)
    (href : refParse Table.gen (toP toks) = .ok rt) (p : Program F) (hel : elaborate pf (toP toks) rt = some p)
    (hwf : C01.WFProgram p) (input : Val F) (fuel : Nat) (v : Val F) (st : St F)
    (h : evalProgram fo host fuel p input = .ok (v, st)) :
    ∃ d entry n, buildText pf cc s = .ok (d, entry) ∧
      ((progOf d).consts.toList.all isLeafS = true → isLeafS input = true →
        RunOKG fo (ok (reloc (progOf d))) host (reloc (progOf d)) n
          { pc := (progOf d).jumps[entry]?.getD 0, regs := [], vals := [input], frames := [], trace := [] } →
        ∃ s' a, executeLoop fo (simpleRStore hit hh) loopFuel H n
            (loadSimple (reloc (progOf d)) ((progOf d).jumps[entry]?.getD 0) input) = .ok ((.end_, n), s') ∧
          s'.values = [a] ∧ Decodes (simView s'.cells) a v ∧ (simpleRStore hit hh).regs s' = [] ∧
          (simpleRStore hit hh).frames s' = [] ∧ SInv s') := by
  obtain ⟨d, entry, hb, n, m, hrun, hv, hr, hfr, _⟩ :=
    C01_text_correct pf cc fo host s toks hlex hf rt href p hel hwf input fuel v st h
  refine ⟨d, entry, n, hb, fun hleaf hin hok => ?_⟩
  have hleaf' : (reloc (progOf d)).consts.toList.all isLeafS = true := by
    show (Val.unit :: .fls :: .tru :: (progOf d).consts.toList).all isLeafS = true
    simp only [List.all_cons, hleaf, Bool.and_true]
    rfl
  have hload := C01_loadSimple_loaded hit hh (reloc (progOf d)) ((progOf d).jumps[entry]?.getD 0) input hleaf' hin
  have hinv : SInv (loadSimple (reloc (progOf d)) ((progOf d).jumps[entry]?.getD 0) input) :=
    C01_loadSimple_inv _ _ _ (by simp [reloc]) (by simp [reloc]) (by simp [reloc])
  rw [← run_reloc] at hrun
  exact refine_run_value_gen (S := simpleRStore hit hh) fo host (ok (reloc (progOf d))) loopFuel H
    (hstep (reloc (progOf d))) n hload.sim hinv hload.consts hok hrun hv hr hfr

/-- a host model that declines every call (records it, answers `false`) meets the host contract on Simple -/
theorem C01_simple_host_declines {hit : List (SimCell F) → SimCell F → Option Nat} :
    HostRefinesI (simpleRStore hit (fun _ st => (false, st))) SInv (Host.declining : Host F) := by
  have key : ∀ (c : HostCall) (s : SimState F), SInv s →
      HostAnswerI (simpleRStore hit (fun _ st => (false, st))) SInv (SimState.hostCall (fun _ st => (false, st)) c) s
        (none : Option (Val F)) := by
    intro c s hi
    exact ⟨{ s with trace := c :: s.trace }, rfl, ⟨⟨keeps_same rfl rfl rfl rfl, rfl, rfl, rfl⟩, ⟨hi.seeded, hi.regs⟩⟩⟩
  exact ⟨fun op l r vl vr s hi _ _ => key _ s hi, fun op a v s hi _ => key _ s hi, fun y s hi => key _ s hi,
    fun n r vr s hi _ => key _ s hi⟩

end Garnish.Props.C01TextStore
