/-
C18 — layout that carries no meaning does not change the result.
Semantic half (this file): grouping parentheses do not exist in the evaluator's AST (a group node only
forwards its child), and a side-effect block whose body has no observable effect does not change the
value, the input value or the host-call trace of the expression it hangs on — for all expressions.
Syntactic half (whitespace / annotations / trailing blanks leave the parse tree unchanged up to trivia) is
certified per program by the metamorphic RUN/PARSE suites; the lexer/parser-level lemmas live with C13/C02.
-/
import Garnish.Spec.Eval
namespace Garnish.Props.C18
open Garnish Gen Garnish.Abs Garnish.Spec

variable {F : Type} (fo : FloatOps F) (host : Host F)

/-- adding a side-effect block `e [body]` whose body terminates with a value and makes no host call
leaves value, input value and trace exactly as evaluating `e` alone -/
theorem C18_pure_side_effect (bodies : List (Nat × Expr F)) (cur fuel : Nat) (e body : Expr F) (st st1 st2 : St F) (v w : Val F)
    (he : evalF fo host bodies cur fuel e st = .ok (.val v, st1))
    (hb : evalF fo host bodies cur fuel body st1 = .ok (.val w, st2))
    (hpure : st2.trace = st1.trace) :
    evalF fo host bodies cur (fuel + 1) (.sideAfter e body) st = .ok (.val v, st1) := by
  have : ({ st2 with inp := st1.inp } : St F) = st1 := by
    cases st1; cases st2; simp_all
  simp [evalF, he, hb, this]

/-- removing it is the same statement read backwards: if `e [body]` has value `v` then so has `e`,
provided the body is pure -/
theorem C18_remove_pure_side_effect (bodies : List (Nat × Expr F)) (cur fuel : Nat) (e body : Expr F) (st st1 : St F) (v : Val F)
    (h : evalF fo host bodies cur (fuel + 1) (.sideAfter e body) st = .ok (.val v, st1)) :
    ∃ st', evalF fo host bodies cur fuel e st = .ok (.val v, st') ∧ st'.inp = st1.inp := by
  simp only [evalF] at h
  cases he : evalF fo host bodies cur fuel e st with
  | ok p =>
    obtain ⟨r, st'⟩ := p
    cases r with
    | val vx =>
      simp only [he] at h
      cases hb : evalF fo host bodies cur fuel body st' with
      | ok q =>
        obtain ⟨r2, st2⟩ := q
        cases r2 with
        | val w => simp [hb] at h; exact ⟨st', by rw [h.1], by rw [← h.2]⟩
        | restart w => simp [hb] at h
      | err e => simp [hb] at h
      | fuelOut => simp [hb] at h
    | restart vx => simp [he] at h
  | err e => simp [he] at h
  | fuelOut => simp [he] at h

/-- a literal block body is pure: it makes no host call and its value is discarded -/
theorem C18_literal_block (bodies : List (Nat × Expr F)) (cur fuel : Nat) (e : Expr F) (lit : Val F) (st st1 : St F) (v : Val F)
    (he : evalF fo host bodies cur (fuel + 1) e st = .ok (.val v, st1)) :
    evalF fo host bodies cur (fuel + 2) (.sideAfter e (.lit lit)) st = .ok (.val v, st1) := by
  apply C18_pure_side_effect fo host bodies cur (fuel + 1) e (.lit lit) st st1 st1 v lit he
  · simp [evalF]
  · rfl

end Garnish.Props.C18
