/-
`BInvL` = `BInv` + `LayoutOK` as THE invariant of the Basic store interface: every clause of
`basicStore_lawsOn_noList` re-establishes it (`basicStore_lawsOnL_noList`), and the announced-length list contract
holds under it (`basic_makeList_law`, Props/C19ListOn.lean).  Together (`basicStore_contract`): everything
`StoreLawsOn` asks for, with the two unrestricted list clauses replaced by the law of the sequence
`start_list(n)`, exactly `n` × `add_to_list`, `end_list`.
-/
import Garnish.Props.C19ListOn
import Garnish.Lemmas.BasicLayout
namespace Garnish.Props.C19StoreOnL
open Garnish Gen Garnish.Model.Equality Garnish.Model.Runtime Garnish.Model.Runtime.Basic Garnish.BasicOpt
open Garnish.Lemmas.Runtime.Basic Garnish.Props.C19StoreOn Garnish.Props.C19ListOn

variable {F : Type}

theorem liftEx {α : Type} {m : RM BState α} {st : BState} {x : α} {P : BState → Prop}
    (hm : ∀ st', m st = .ok (x, st') → LayoutOK st'.store)
    (h : ∃ st', m st = .ok (x, st') ∧ P st' ∧ BInv st') : ∃ st', m st = .ok (x, st') ∧ P st' ∧ BInvL st' := by
  obtain ⟨st', h1, h2, h3⟩ := h
  exact ⟨st', h1, h2, h3, hm st' h1⟩

theorem addsL {nc : NumCode F} {m : RM BState Nat} {st : BState} {v : Val F}
    (hm : ∀ a st', m st = .ok (a, st') → LayoutOK st'.store)
    (h : Garnish.Model.Runtime.AddsOn (basicRStore nc) BInv m st v) :
    Garnish.Model.Runtime.AddsOn (basicRStore nc) BInvL m st v := by
  obtain ⟨a, st', h1, h2, h3, h4⟩ := h
  exact ⟨a, st', h1, h2, h3, h4, hm a st' h1⟩

theorem pushL {c : Cell} {st : BState} (hl : LayoutOK st.store) :
    ∀ a st', liftAdd (fun s => s.push c) st = .ok (a, st') → LayoutOK st'.store :=
  fun a st' h => liftAdd_layout (fun s s' a hl h => push_layout hl h) hl h

/-- **basicStore_lawsOnL_noList**: every clause of `StoreLawsOn` except `addToList` / `endList`, with `BInvL` -/
theorem basicStore_lawsOnL_noList (nc : NumCode F) : StoreLawsOnNoList (basicRStore nc) BInvL BReadable := by
  have L := basicStore_lawsOn_noList nc
  exact {
    rangeTyped := L.rangeTyped
    listIdx := L.listIdx
    charIdx := L.charIdx
    byteIdx := L.byteIdx
    symIdx := L.symIdx
    addUnit := fun s h => addsL (pushL h.2) (L.addUnit s h.1)
    addTrue := fun s h => addsL (pushL h.2) (L.addTrue s h.1)
    addFalse := fun s h => addsL (pushL h.2) (L.addFalse s h.1)
    addNumber := fun n s h => addsL (pushL h.2) (L.addNumber n s h.1)
    addType := fun t s h => addsL (pushL h.2) (L.addType t s h.1)
    addChar := fun c s h => addsL (pushL h.2) (L.addChar c s h.1)
    addByte := fun b s h => addsL (pushL h.2) (L.addByte b s h.1)
    addSymbol := fun y s h => addsL (pushL h.2) (L.addSymbol y s h.1)
    addPair := fun l r vl vr s h hl hr => addsL (pushL h.2) (L.addPair l r vl vr s h.1 hl hr)
    addConcatenation := fun l r vl vr s h hl hr h1 h2 =>
      addsL (pushL h.2) (L.addConcatenation l r vl vr s h.1 hl hr h1 h2)
    addRange := fun l r vl vr s h hl hr => addsL (pushL h.2) (L.addRange l r vl vr s h.1 hl hr)
    addSlice := fun l r vl vr s h hl hr => addsL (pushL h.2) (L.addSlice l r vl vr s h.1 hl hr)
    addPartial := fun l r vl vr s h hl hr => addsL (pushL h.2) (L.addPartial l r vl vr s h.1 hl hr)
    mergeSome := fun l r vl vr v s h hl hr hm h1 h2 =>
      addsL (fun a st' hh => liftAdd_layout (f := fun s => s.mergeToSymbolList l r)
        (fun s s' a hl h => mergeToSymbolList_layout hl h) h.2 hh) (L.mergeSome l r vl vr v s h.1 hl hr hm h1 h2)
    startList := fun n s h => by
      obtain ⟨t, s', h1, h2, h3, h4⟩ := L.startList n s h.1
      refine ⟨t, s', h1, h2, h3, h4, ?_⟩
      change (match s.store.startList n with
        | .ok (s1, i) => Outcome.ok (i, ({ s with store := s1, building := some (i, []) } : BState))
        | .err e => .err e | .panic m => .panic m | .fuelOut => .fuelOut) = _ at h1
      split at h1
      · rename_i s1 i heq
        simp only [Outcome.ok.injEq, Prod.mk.injEq] at h1
        rw [← h1.2]; exact startList_layout h.2 heq
      all_goals cases h1
    popRegisterBuilding := L.popRegisterBuilding
    readable := fun s a v h hd hv => L.readable s a v h.1 hd hv
    pushRegister := fun a s h hr => liftEx (fun st' hh => liftUnit_layout (f := fun s => s.pushRegister a)
        (fun s s' hl h => pushRegister_layout hl h) h.2 hh) (L.pushRegister a s h.1 hr)
    popRegisterNil := fun s h hn hf => liftEx (fun st' hh => liftPop_layout (f := fun s => s.popRegister)
        (fun s s' o hl h => popRegister_layout hl h) h.2 hh) (L.popRegisterNil s h.1 hn hf)
    popRegisterCons := fun s a rest h hr hd => liftEx (fun st' hh => liftPop_layout (f := fun s => s.popRegister)
        (fun s s' o hl h => popRegister_layout hl h) h.2 hh) (L.popRegisterCons s a rest h.1 hr hd)
    pushValueStack := fun a s h hr => liftEx (fun st' hh => liftUnit_layout (f := fun s => s.pushValue a)
        (fun s s' hl h => pushValue_layout hl h) h.2 hh) (L.pushValueStack a s h.1 hr)
    popValueStackNil := fun s h hv => liftEx (fun st' hh => by
        change Outcome.ok ((s.store.popValue).2, ({ s with store := (s.store.popValue).1 } : BState)) = _ at hh
        simp only [Outcome.ok.injEq, Prod.mk.injEq] at hh
        rw [← hh.2]; exact popValue_layout h.2) (L.popValueStackNil s h.1 hv)
    popValueStackCons := fun s a rest h hv => liftEx (fun st' hh => by
        change Outcome.ok ((s.store.popValue).2, ({ s with store := (s.store.popValue).1 } : BState)) = _ at hh
        simp only [Outcome.ok.injEq, Prod.mk.injEq] at hh
        rw [← hh.2]; exact popValue_layout h.2) (L.popValueStackCons s a rest h.1 hv)
    setCurrentNil := fun r s h hv => liftEx (fun st' hh => by
        change (match s.store.setCurrentValue r with
          | .ok s' => Outcome.ok (true, ({ s with store := s' } : BState))
          | .err _ => .ok (false, s) | .panic m => .panic m | .fuelOut => .fuelOut) = _ at hh
        split at hh
        · rename_i s1 heq
          simp only [Outcome.ok.injEq, Prod.mk.injEq] at hh
          rw [← hh.2]; exact setCurrentValue_layout h.2 heq
        · simp only [Outcome.ok.injEq, Prod.mk.injEq] at hh
          rw [← hh.2]; exact h.2
        all_goals cases hh) (L.setCurrentNil r s h.1 hv)
    setCurrentCons := fun r s a rest h hr hv => liftEx (fun st' hh => by
        change (match s.store.setCurrentValue r with
          | .ok s' => Outcome.ok (true, ({ s with store := s' } : BState))
          | .err _ => .ok (false, s) | .panic m => .panic m | .fuelOut => .fuelOut) = _ at hh
        split at hh
        · rename_i s1 heq
          simp only [Outcome.ok.injEq, Prod.mk.injEq] at hh
          rw [← hh.2]; exact setCurrentValue_layout h.2 heq
        · simp only [Outcome.ok.injEq, Prod.mk.injEq] at hh
          rw [← hh.2]; exact h.2
        all_goals cases hh) (L.setCurrentCons r s a rest h.1 hr hv)
    pushFrame := fun j s h => liftEx (fun st' hh => liftUnit_layout (f := fun s => s.pushFrame j)
        (fun s s' hl h => pushFrame_layout hl h) h.2 hh) (L.pushFrame j s h.1)
    popFrameNil := fun s h hf => by
      obtain ⟨s', R, h1, h2, h3, h4⟩ := L.popFrameNil s h.1 hf
      exact ⟨s', R, h1, h2, h3, h4, liftPop_layout (f := fun s => s.popFrame)
        (fun s s' o hl h => popFrame_layout hl h) h.2 h1⟩
    popFrameCons := fun s ret saved fs h hf => liftEx (fun st' hh => liftPop_layout (f := fun s => s.popFrame)
        (fun s s' o hl h => popFrame_layout hl h) h.2 hh) (L.popFrameCons s ret saved fs h.1 hf)
    setCursor := fun n s => by
      obtain ⟨s', h1, h2, h3, h4, h5, h6, h7, h8, h9, h10, h11, h12⟩ := L.setCursor n s
      refine ⟨s', h1, h2, h3, h4, h5, h6, h7, h8, h9, h10, h11, fun hi => ⟨h12 hi.1, ?_⟩⟩
      change Outcome.ok ((), ({ s with cursor := n } : BState)) = _ at h1
      simp only [Outcome.ok.injEq, Prod.mk.injEq] at h1
      rw [← h1.2]; exact hi.2
    deferOp := L.deferOp
    resolve := L.resolve
    apply := L.apply
    dataBound := L.dataBound }

/-- **basicStore_contract**: the store contract of the runtime on BasicGarnishData, from `BasicGarnishData::new()`:
the invariant holds initially, every clause of `StoreLawsOn` other than the two unrestricted list clauses holds, and
list construction that respects the announced length satisfies the list law -/
theorem basicStore_contract (nc : NumCode F) :
    BInvL BState.init ∧ StoreLawsOnNoList (basicRStore nc) BInvL BReadable ∧ ListLawOn (basicRStore nc) BInvL :=
  ⟨binvL_init, basicStore_lawsOnL_noList nc, basic_makeList_law nc⟩

end Garnish.Props.C19StoreOnL
