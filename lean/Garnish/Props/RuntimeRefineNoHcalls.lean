/-
The call condition of `ReachK` (`hcalls` of `C01_runOKOn_full_of_balanced` / `C01_text_to_simple_store_balanced_full`)
DISCHARGED by a second machine invariant, obtained from the NoCustom development parametrised by a leaf test
(Lemmas/Her1..9.lean):
* `ExprsKnown P m`: every `Expression j` value occurring — hereditarily — in registers, input values and the registers
  saved by frames has its jump-table entry among `C06.exprEntries P`;
* `C01_step_exprsKnown`: kept by every step of Abs/Machine when the constants satisfy it (`C01_consts_exprsKnown`: leaf
  constants always do, by the definition of `exprEntries`) and the host never answers with an unknown `Expression`
  (`HostExprsKnown`) — no operation of Abs/Ops creates an `Expression`;
* `C01_hcalls_of_exprsKnown`: in a state a balanced program reaches, a step that pushes a frame is an `Apply` /
  `EmptyApply` that enters the body of its `Expression` operand: the new cursor is in `exprEntries P`;
* `C01_runOKOn_full_of_balanced_noHcalls`, `C01_text_to_simple_store_balanced_full_noHcalls`: the theorems without `hcalls`.
-/
import Garnish.Lemmas.Her9
import Garnish.Props.C01TextStoreOnBalancedFull
set_option linter.unusedSimpArgs false
set_option linter.unusedVariables false
namespace Garnish.Props.RuntimeRefine
open Garnish Gen Garnish.Abs Garnish.Model.Equality Garnish.Model.Runtime Garnish.Lemmas.Runtime
open Garnish.Lemmas.Runtime.On Garnish.Props.C06 Garnish.Lemmas.NoCustom Garnish.Lemmas.Her

variable {F σ : Type} {fo : FloatOps F} {host : Host F} {S : RStore F σ} {Inv : σ → Prop} {P : Prog F}

theorem C01_consts_exprsKnown (hleaf : ∀ (k : Nat) (v : Val F), P.consts[k]? = some v → leafV v = true) :
    ConstsHer (exprQ P) P := consts_exprsKnown hleaf

theorem C01_step_exprsKnown (HE : HostExprsKnown P host) (hce : ConstsHer (exprQ P) P) {s s' : MState F}
    (hs : ExprsKnown P s) (h : Abs.step fo host P s = .running s' ∨ Abs.step fo host P s = .halted s') :
    ExprsKnown P s' := step_exprsKnown HE hce hs h

theorem C01_hcalls_of_exprsKnown {entry : Nat} {d : Array (Option Nat)} (hbal : absDepth P entry = some d)
    (hentry : entry < P.instrs.size) (vals : List (Val F)) (tr : List (HostCall F)) {s s' : MState F}
    (hr : ReachK fo host P (entry :: exprEntries P) ⟨entry, [], vals, [], tr⟩ s) (hk : ExprsKnown P s)
    (hs : Abs.step fo host P s = .running s') (hgrow : s'.frames.length = s.frames.length + 1) :
    s'.pc ∈ entry :: exprEntries P := hcalls_of_exprsKnown hbal hentry vals tr hr hk hs hgrow

theorem C01_runOKOn_full_of_balanced_noHcalls {entry : Nat} {d : Array (Option Nat)} (h : absDepth P entry = some d)
    (hentry : entry < P.instrs.size) (vals : List (Val F)) (tr : List (HostCall F)) (fuel : Nat)
    (HN : HostNoCustom host) (HE : HostExprsKnown P host) (hc : ConstsNC P) (hce : ConstsHer (exprQ P) P)
    (hv : ncL vals = true) (hve : herL (exprQ P) vals = true)
    (hdyn : ∀ s, ReachK fo host P (entry :: exprEntries P) ⟨entry, [], vals, [], tr⟩ s → ∀ i o,
      P.instrs[s.pc]? = some (i, o) → DynOK fo S Inv P fuel s i o)
    (n : Nat) : RunOKG fo (MachOKOn4 fo S Inv P fuel) host P n ⟨entry, [], vals, [], tr⟩ :=
  runOKOn4_of_balanced_noHcalls h hentry vals tr fuel HN HE hc hce hv hve hdyn n

end Garnish.Props.RuntimeRefine

namespace Garnish.Props.C01TextStore
open Garnish Garnish.Gen Garnish.Spec Garnish.Abs Garnish.Abs.Tree Garnish.Abs.Source Garnish.Model Garnish.Model.Parser
open Garnish.Model.Lexer Garnish.Model.Literals Garnish.Model.Build Garnish.Props.C01Build Garnish.Props.C01Source
open Garnish.Props.C02Numbered Garnish.Props.C01Text
open Garnish.Model.Equality Garnish.Model.Runtime Garnish.Lemmas.Runtime Garnish.Props.RuntimeRefine
open Garnish.Lemmas.Runtime.On Garnish.Lemmas.Runtime.Simple Garnish.Props.SourceProps Garnish.Lemmas.NoCustom
open Garnish.Lemmas.Her

variable {F : Type} (pf : List Char → Option F) (cc : CharClass)

theorem leafV_of_isLeafS {v : Val F} (h : isLeafS v = true) : leafV v = true := by
  cases v <;> first | rfl | (cases h; done)

/-- the text theorem on `SimpleGarnishData`, whole instruction set, WITHOUT the call hypothesis -/
theorem C01_text_to_simple_store_balanced_full_noHcalls {hit : List (SimCell F) → SimCell F → Option Nat}
    (hs : HitSound hit) (hh : SimHost F) (fo : FloatOps F) (host : Host F)
    (HR : HostRefinesI (simpleRStore hit hh) SInv host) (HN : HostNoCustom host)
    (HE : HostExprsKnown (compile p) host) (loopFuel : Nat) (cast : RM (SimState F) (Option Nat)) (s : List Char)
    (toks : List LexerToken) (hlex : lex cc s = .ok toks) (hf : frag9' (toP toks) = true) (rt : RTree)
    (href : refParse Table.gen (toP toks) = .ok rt) (hel : elaborate pf (toP toks) rt = some p)
    (hwf : C01.WFProgram p) (hbal : balancedB p = true) (input : Val F) (fuel : Nat) (v : Val F) (st : St F)
    (h : evalProgram fo host fuel p input = .ok (v, st))
    (hentry : (compile p).jumps[0]?.getD 0 < (compile p).instrs.size)
    (hleaf : (compile p).consts.toList.all isLeafS = true) (hin : isLeafS input = true)
    (hc : ConstsNC (compile p)) (hinc : nc input = true) (hine : her (exprQ (compile p)) input = true)
    (hdyn : ∀ m, C06.ReachK fo host (compile p) ((compile p).jumps[0]?.getD 0 :: C06.exprEntries (compile p))
      ⟨(compile p).jumps[0]?.getD 0, [], [input], [], []⟩ m → ∀ i o, (compile p).instrs[m.pc]? = some (i, o) →
      DynOK fo (simpleRStore hit hh) SInv (compile p) loopFuel m i o) :
    ∃ d n, buildText pf cc s = .ok (d, 0) ∧ progOf d = compile p ∧
      ∃ s' a, executeLoop fo (simpleRStore hit hh) loopFuel (fullHandlers fo (simpleRStore hit hh) loopFuel cast) n
          (loadSimple (reloc (progOf d)) ((progOf d).jumps[0]?.getD 0) input) = .ok ((.end_, n), s') ∧
        s'.values = [a] ∧ Decodes (simView s'.cells) a v ∧ (simpleRStore hit hh).regs s' = [] ∧
        (simpleRStore hit hh).frames s' = [] ∧ SInv s' := by
  have hwb := balancedB_sound hbal
  obtain ⟨dep, hdep, _⟩ := C06.C06_compile_balanced_sound fo host p hwb
  have hce : ConstsHer (exprQ (compile p)) (compile p) := consts_exprsKnown (fun k c hk =>
    leafV_of_isLeafS ((List.all_eq_true.mp hleaf) c (List.mem_of_getElem? (by simpa using hk))))
  have HEs : HostExprsKnown (compile p) host := HE
  refine C01_text_to_simple_store_balanced_full pf cc hs hh fo host HR HN loopFuel cast s toks hlex hf rt href p hel hwf
    hbal input fuel v st h hentry hleaf hin hc hinc hdyn (fun m m' hr hst hg => ?_)
  exact hcalls_of_exprsKnown hdep hentry [input] [] hr
    (exprsKnown_reach HEs hce (s0 := ⟨_, [], [input], [], []⟩) ⟨rfl, by simp [herL, hine], fun _ hf => by cases hf⟩ hr)
    hst hg

end Garnish.Props.C01TextStore
