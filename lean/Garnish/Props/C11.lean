/-
C11 — equality is structural and an equivalence relation.
`valEq` (Abs/Ops.lean) compares normal forms: integers and floats numerically, a char as the
one-element text, a byte as the one-element byte list, pairs component-wise, lists and concatenations
as the flat sequence of their items. The OP.Equal/NotEqual suites tie it to both data implementations.
Domain (`Clean`): no NaN (unreachable since the C09 fix), integers in the i32 range, no
slice / partial / custom values, range end points unit or number.
-/
import Garnish.Lemmas.Eq
import Garnish.Abs.Machine
namespace Garnish.Props.C11
open Garnish Gen Garnish.Abs Garnish.Lemmas

variable {F : Type} (fo : FloatOps F) (host : Host F)

def Clean (v : Val F) : Prop := NVal.clean fo (norm v) = true

theorem C11_eq_refl (h : FloatEqLaws fo) (v : Val F) (hc : Clean fo v) : valEq fo v v = true :=
  nvalEq_refl fo h _ hc

theorem C11_eq_symm (h : FloatEqLaws fo) (a b : Val F) : valEq fo a b = valEq fo b a :=
  nvalEq_symm fo h _ _

theorem C11_eq_trans (h : FloatEqLaws fo) (a b c : Val F) (ha : Clean fo a) (hc : Clean fo c)
    (h1 : valEq fo a b = true) (h2 : valEq fo b c = true) : valEq fo a c = true :=
  nvalEq_trans fo h _ _ _ ha hc h1 h2

/-- `!=` is always the negation of `==` -/
theorem C11_ne_is_negation (l r : Val F) :
    binaryOp fo .equal l r = some (.val (Val.ofBool (valEq fo l r))) ∧
    binaryOp fo .notEqual l r = some (.val (Val.ofBool (!valEq fo l r))) := ⟨rfl, rfl⟩

/-! ### what "structurally identical" means, case by case -/

theorem C11_numbers_numeric (a b : Number F) : valEq fo (.num a) (.num b) = Number.numEq fo a b := by simp [valEq, norm, nvalEq]
theorem C11_int_float (a : Int) (f : F) : valEq fo (.num (.int a)) (.num (.float f)) = fo.feq (fo.ofInt a) f := by simp [valEq, norm, nvalEq, Number.numEq]
theorem C11_text_elementwise (a b : List Nat) : valEq fo (.chars a) (.chars b) = (a == b) := by simp [valEq, norm, nvalEq]
theorem C11_bytes_elementwise (a b : List Nat) : valEq fo (.bytes a) (.bytes b) = (a == b) := by simp [valEq, norm, nvalEq]
theorem C11_char_is_one_element_text (c : Nat) (cs : List Nat) :
    valEq fo (.char c) (.chars cs) = ([c] == cs) ∧ valEq fo (.chars cs) (.char c) = (cs == [c]) := by simp [valEq, norm, nvalEq]
theorem C11_byte_is_one_element_list (b : Nat) (bs : List Nat) :
    valEq fo (.byte b) (.bytes bs) = ([b] == bs) ∧ valEq fo (.bytes bs) (.byte b) = (bs == [b]) := by simp [valEq, norm, nvalEq]
theorem C11_pairs_componentwise (a b c d : Val F) :
    valEq fo (.pair a b) (.pair c d) = (valEq fo a c && valEq fo b d) := by
  simp [valEq, norm, nvalEq]

theorem normList_append (xs ys : List (Val F)) : normList (xs ++ ys) = normList xs ++ normList ys := by
  induction xs with
  | nil => simp [normList]
  | cons x xs ih => simp [normList, ih]

/-- a list equals the concatenation of its parts: both are the same flat sequence of items -/
theorem C11_concat_is_flat_sequence (xs ys : List (Val F)) (a : Val F) :
    valEq fo (.concat (.list xs) (.list ys)) a = valEq fo (.list (xs ++ ys)) a := by
  simp [valEq, norm, normConcat, normList_append]

/-- a non-list operand of a concatenation is one item -/
theorem C11_concat_single_items (x y : Val F) (a : Val F)
    (hx : ∀ items, x ≠ .list items) (hx' : ∀ l r, x ≠ .concat l r)
    (hy : ∀ items, y ≠ .list items) (hy' : ∀ l r, y ≠ .concat l r) :
    valEq fo (.concat x y) a = valEq fo (.list [x, y]) a := by
  have nx : normConcat x = [norm x] := by cases x <;> simp_all [normConcat]
  have ny : normConcat y = [norm y] := by cases y <;> simp_all [normConcat]
  simp [valEq, norm, normList, nx, ny]

/-- different kinds of value are never equal (a sample of the `_ => false` arm) -/
theorem C11_kinds_differ (n : Number F) (cs : List Nat) (s : Nat) (xs : List (Val F)) :
    valEq fo (.num n) (.chars cs) = false ∧ valEq fo (.sym s) (.chars cs) = false ∧
    valEq fo (.list xs) (.chars cs) = false ∧ valEq fo .unit .fls = false ∧ valEq fo (.char 97) (.byte 97) = false := by
  simp [valEq, norm, nvalEq]

/-- executing `==` replaces exactly the two operands by one boolean — nothing is left behind on the
operand stack, the input-value stack and the frames are untouched, the host is not consulted -/
theorem C11_step_equal (P : Prog F) (s : MState F) (d : Option Nat) (l r : Val F) (rs : List (Val F))
    (hi : P.instrs[s.pc]? = some (.equal, d)) (hr : s.regs = r :: l :: rs) :
    step fo host P s = seqNext P s (.ok { s with regs := Val.ofBool (valEq fo l r) :: rs }) := by
  simp [step, hi, hr, unaryOp, binaryOp, pushOut]

theorem C11_step_notEqual (P : Prog F) (s : MState F) (d : Option Nat) (l r : Val F) (rs : List (Val F))
    (hi : P.instrs[s.pc]? = some (.notEqual, d)) (hr : s.regs = r :: l :: rs) :
    step fo host P s = seqNext P s (.ok { s with regs := Val.ofBool (!valEq fo l r) :: rs }) := by
  simp [step, hi, hr, unaryOp, binaryOp, pushOut]

/-! ### non-vacuity: the domain is inhabited by nested values -/
example : NVal.clean fo (norm (Val.list [.num (.int 1), .pair (.sym 5) (.chars [97]), .concat (.byte 1) (.list [])])) = true := by
  simp [norm, normList, normConcat, NVal.clean, NVal.cleanList, numClean, InRange]

end Garnish.Props.C11
