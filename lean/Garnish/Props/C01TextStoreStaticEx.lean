/-
Non-vacuity of `C01_text_to_simple_store_static_declining`: the source text `$ ?> 1 |> 2` is in the class
`staticOKSimple` (checked by evaluation), so on the payload model of `SimpleGarnishData` (cache that never hits,
declining host) the loop ends with ONE input-value address that decodes to `1` for the input `true` — with no run-time
hypothesis at all.
-/
import Garnish.Props.C01TextStoreStatic
import Garnish.Props.RuntimeRefineSimple2
set_option linter.unusedSimpArgs false
set_option linter.unusedVariables false
namespace Garnish.Props.C01TextStore
open Garnish Garnish.Gen Garnish.Spec Garnish.Abs Garnish.Abs.Tree Garnish.Abs.Source Garnish.Model Garnish.Model.Parser
open Garnish.Model.Lexer Garnish.Model.Literals Garnish.Model.Build Garnish.Props.C01Build Garnish.Props.C01Source
open Garnish.Props.C02Numbered Garnish.Props.C01Text
open Garnish.Model.Equality Garnish.Model.Runtime Garnish.Lemmas.Runtime Garnish.Props.RuntimeRefine
open Garnish.Lemmas.Runtime.On Garnish.Lemmas.Runtime.Simple

/-- the text is in the class -/
theorem cond_static : staticOKSimple progCond (.tru : Val Float) = true := by rfl

example (fo : FloatOps Float) :
    ∃ d n, buildText noFloat asciiCC "$ ?> 1 |> 2".toList = .ok (d, 0) ∧ progOf d = compile progCond ∧
      ∃ s' a, executeLoop fo (simpleRStore (fun _ _ => none) (fun _ st => (false, st))) 0
          (fullHandlers fo (simpleRStore (fun _ _ => none) (fun _ st => (false, st))) 0 (RM.fail .unsupported)) n
          (loadSimple (reloc (progOf d)) ((progOf d).jumps[0]?.getD 0) .tru) = .ok ((.end_, n), s') ∧
        s'.values = [a] ∧ Decodes (simView s'.cells) a (.num (.int 1)) ∧
        (simpleRStore (fun _ _ => none) (fun _ st => (false, st))).regs s' = [] ∧
        (simpleRStore (fun _ _ => none) (fun _ st => (false, st))).frames s' = [] ∧ SInv s' :=
  C01_text_to_simple_store_static_declining (hit := fun _ _ => none) noFloat asciiCC C15_hitSound_never fo 0
    (RM.fail .unsupported) _ _ text_cond_lex (by rw [text_cond_toks]; exact exCond_frag') _
    (by rw [text_cond_toks]; exact exCond_ref) (by rw [text_cond_toks]; exact exCond_elab) progCond_wf .tru cond_static
    5 _ _ (progCond_meaning fo Host.declining)

end Garnish.Props.C01TextStore
