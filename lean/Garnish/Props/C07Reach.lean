/-
C07 on every reachable heap: the well-formedness that Props/C07Access.lean assumes (`Heap.WF`) is a THEOREM for the
heaps `BasicGarnishData` can hold after any sequence of store-constructor operations.

* `Op` / `step` / `run`: the op language of the OPT / CLONE / LIST scripts as an executable function on the store
  model of Store/BasicOptimize.lean (tied cell by cell to the Rust by the OPT and CLONE suites).  An operation is
  guarded by what the scripts guarantee about its arguments: addresses are addresses of existing values (results of
  earlier operations), a numeric retention count does not cut through a value.  A guard that fails is `Err`.
* `run_reachable`: every store `run` produces is `Reachable` (Props/C19.lean), hence `WF` (`WF_reachable`).
* `wf_implies_accessWF` (Lemmas/AccessReach2.lean): every heap that `Represents` a `WF` store — whatever the other five
  blocks hold — satisfies `Heap.WF`.
* `C07_reachable_no_panic`: after ANY op sequence, on ANY representing heap, EVERY accessor / iterator / conversion
  call with ANY address, index and extent answers `Ok` / `Err`, never panics.

Modelled constructors: `add_unit/true/false/type/number/char/byte/symbol/expression/external`,
`add_pair/range/slice/partial/concatenation` (`addValue`), `add_string`-style text and `add_byte_slice` (`addChars`,
`addBytes`), `start_list` + `add_to_list`* + `end_list` (`buildList`), `merge_to_symbol_list`, `parse_add_symbol`,
`push_register` / `push_value_stack` / `push_frame` and their pops, `retain_all_current_data`,
`set_data_retention_count`, `optimize`, `clone_data`.
Not modelled: custom data (`Custom(T)` cells and the custom block), the instruction / jump-table / expression-symbol
blocks (their contents are unconstrained in `Represents`), `get_current_value_mut` (in-place update of the input value:
`Heap.WF` does not depend on value links, but `Reachable` does not include it), growth policies other than the
default `FixedSize`, a list under construction interleaved with other operations.
Size assumption: the allocation is a `Vec` (`heap.size ≤ usize::MAX`, part of `Represents`); only
`access_with_integer` needs more: fewer than `2^31` data cells.
-/
import Garnish.Props.C07Access
import Garnish.Props.C19
import Garnish.Lemmas.AccessReach2
import Garnish.Lemmas.AccessReach3
namespace Garnish.Props.C07Reach
open Garnish Garnish.Access Garnish.Access.Runtime Garnish.BasicOpt Garnish.Props.C19 Garnish.Props.C07Access

/-- the cells the public `add_*` value constructors push -/
def publicValue : Cell → Bool
  | .unit | .tru | .fls | .type _ | .number _ | .char _ | .byte _ | .symbol _ | .expression _ | .external _
  | .pair _ _ | .range _ _ | .slice _ _ | .partial_ _ _ | .concatenation _ _ => true
  | _ => false

/-- one store-constructor operation -/
inductive Op where
  | addValue (c : Cell)
  | addChars (cs : List Nat)
  | addBytes (bs : List Nat)
  | buildList (items : List Nat)
  | mergeSymbolList (first second : Nat)
  | addSymbol (sym : Nat) (name : List Nat)
  | pushRegister (v : Nat)
  | pushValue (v : Nat)
  | pushFrame (ret : Nat)
  | popRegister
  | popValue
  | popFrame
  | retainAll
  | setRetention (n : Nat)
  | optimize (roots : List Nat)
  | cloneData (a : Nat)
deriving Repr

def guard (b : Bool) (k : Outcome Store) : Outcome Store := if b then k else .err .other

/-- the operation on the store model; a call the scripts never make (an argument that is not the address of a value)
is `Err` -/
def step (s : Store) : Op → Outcome Store
  | .addValue c =>
    match soloShape c with
    | some sh =>
      guard (publicValue c && sh.kids.all (fun k => decide (k < s.cells.size) && isNode s.cells k))
        ((s.push c).bind fun p => .ok p.1)
    | none => .err .other
  | .addChars cs => (s.addInline (.charList (cs.map Cell.char).length) (cs.map Cell.char)).bind fun p => .ok p.1
  | .addBytes bs => (s.addInline (.byteList (bs.map Cell.byte).length) (bs.map Cell.byte)).bind fun p => .ok p.1
  | .buildList items => guard (items.all (isNode s.cells)) ((s.buildList items).bind fun p => .ok p.1)
  | .mergeSymbolList a b =>
    guard (isNode s.cells a && isNode s.cells b) ((s.mergeToSymbolList a b).bind fun p => .ok p.1)
  | .addSymbol sym name => (s.parseAddSymbol sym name).bind fun p => .ok p.1
  | .pushRegister v => guard (isNode s.cells v) (s.pushRegister v)
  | .pushValue v => guard (isNode s.cells v) (s.pushValue v)
  | .pushFrame ret => s.pushFrame ret
  | .popRegister => s.popRegister.bind fun p => .ok p.1
  | .popValue => .ok s.popValue.1
  | .popFrame => s.popFrame.bind fun p => .ok p.1
  | .retainAll => .ok s.retainAll
  | .setRetention n =>
    guard (decide (n ≤ s.cells.size) && (List.range n).all (extentOK s.cells n)) (.ok (s.setRetention n))
  | .optimize roots => guard (rootsOK s roots) ((s.optimize roots).bind fun p => .ok p.1)
  | .cloneData a => guard (isNode s.cells a) ((s.cloneData a).bind fun p => .ok p.1)

/-- a sequence of operations -/
def run : List Op → Store → Outcome Store
  | [], s => .ok s
  | op :: ops, s => (step s op).bind (run ops)

theorem guard_ok {b : Bool} {k : Outcome Store} {s' : Store} (h : guard b k = .ok s') : b = true ∧ k = .ok s' := by
  unfold guard at h
  cases b
  · simp at h
  · exact ⟨rfl, by simpa using h⟩

theorem bind_fst_ok {α : Type} {o : Outcome (Store × α)} {s' : Store} (h : (o.bind fun p => .ok p.1) = .ok s') :
    ∃ a, o = .ok (s', a) := by
  cases o with
  | ok p => simp only [Outcome.bind, Outcome.ok.injEq] at h; exact ⟨p.2, by rw [← h]⟩
  | err e => simp [Outcome.bind] at h
  | panic m => simp [Outcome.bind] at h
  | fuelOut => simp [Outcome.bind] at h

theorem step_reachable {s s' : Store} {op : Op} (hs : Reachable s) (h : step s op = .ok s') : Reachable s' := by
  cases op with
  | addValue c =>
    simp only [step] at h
    cases hso : soloShape c with
    | none => rw [hso] at h; simp at h
    | some sh =>
      rw [hso] at h
      obtain ⟨hb, hk⟩ := guard_ok h
      obtain ⟨i, hp⟩ := bind_fst_ok hk
      simp only [Bool.and_eq_true, List.all_eq_true, decide_eq_true_eq] at hb
      exact .addSolo hs hso (fun k hkm => hb.2 k hkm) hp
  | addChars cs =>
    obtain ⟨a, hp⟩ := bind_fst_ok h
    exact .addText hs (Or.inl ⟨rfl, by intro c hc; simp only [List.mem_map] at hc; obtain ⟨x, _, rfl⟩ := hc; rfl⟩) hp
  | addBytes bs =>
    obtain ⟨a, hp⟩ := bind_fst_ok h
    exact .addText hs (Or.inr ⟨rfl, by intro c hc; simp only [List.mem_map] at hc; obtain ⟨x, _, rfl⟩ := hc; rfl⟩) hp
  | buildList items =>
    obtain ⟨hb, hk⟩ := guard_ok h
    obtain ⟨li, hp⟩ := bind_fst_ok hk
    simp only [List.all_eq_true] at hb
    exact .buildList hs hb hp
  | mergeSymbolList a b =>
    obtain ⟨hb, hk⟩ := guard_ok h
    obtain ⟨i, hp⟩ := bind_fst_ok hk
    simp only [Bool.and_eq_true] at hb
    exact .mergeSymbolList hs hb.1 hb.2 hp
  | addSymbol sym name =>
    obtain ⟨a, hp⟩ := bind_fst_ok h
    exact .addSymbol hs hp
  | pushRegister v => obtain ⟨hb, hk⟩ := guard_ok h; exact .pushRegister hs hb hk
  | pushValue v => obtain ⟨hb, hk⟩ := guard_ok h; exact .pushValue hs hb hk
  | pushFrame ret => exact .pushFrame hs h
  | popRegister => obtain ⟨r, hp⟩ := bind_fst_ok h; exact .popRegister hs hp
  | popValue =>
    simp only [step, Outcome.ok.injEq] at h
    rw [← h]; exact .popValue hs
  | popFrame => obtain ⟨r, hp⟩ := bind_fst_ok h; exact .popFrame hs hp
  | retainAll =>
    simp only [step, Outcome.ok.injEq] at h
    rw [← h]; exact .retainAll hs
  | setRetention n =>
    obtain ⟨hb, hk⟩ := guard_ok h
    simp only [Outcome.ok.injEq] at hk
    simp only [Bool.and_eq_true, decide_eq_true_eq, List.all_eq_true, List.mem_range] at hb
    rw [← hk]; exact .setRetention hs hb.1 hb.2
  | optimize roots =>
    obtain ⟨hb, hk⟩ := guard_ok h
    obtain ⟨m, hp⟩ := bind_fst_ok hk
    exact .optimize hs hb hp
  | cloneData a =>
    obtain ⟨hb, hk⟩ := guard_ok h
    obtain ⟨r, hp⟩ := bind_fst_ok hk
    exact .cloneData hs hb hp

/-- every store an op sequence produces from a reachable store is reachable -/
theorem run_reachable : ∀ (ops : List Op) {s s' : Store}, Reachable s → run ops s = .ok s' → Reachable s'
  | [], s, s', hs, h => by simp only [run, Outcome.ok.injEq] at h; rw [← h]; exact hs
  | op :: ops, s, s', hs, h => by
    simp only [run] at h
    cases hst : step s op with
    | ok s1 => rw [hst] at h; exact run_reachable ops (step_reachable hs hst) h
    | err e => rw [hst] at h; simp [Outcome.bind] at h
    | panic m => rw [hst] at h; simp [Outcome.bind] at h
    | fuelOut => rw [hst] at h; simp [Outcome.bind] at h

/-- after any op sequence from the empty store, every representing heap is well formed for the accessors -/
theorem run_accessWF {ops : List Op} {s : Store} {h : Heap} (hrun : run ops Store.fresh = .ok s)
    (hr : Represents s h) : h.WF :=
  wf_implies_accessWF (WF_reachable (run_reachable ops .init hrun)) hr

/-- every accessor, iterator constructor and slicing conversion of the data block answers `Ok` or `Err` -/
structure AccessSafe (h : Heap) : Prop where
  ensureIndex : ∀ i, Safe (h.getData i)
  itemGetters : ∀ la ix, Safe (getListItem h la ix) ∧ Safe (getCharListItem h la ix) ∧ Safe (getByteListItem h la ix) ∧
    Safe (getSymbolListItem h la ix)
  iterators : ∀ li s e, Safe (getListItemIter h li s e) ∧ Safe (getCharListIter h li s e) ∧
    Safe (getByteListIter h li s e) ∧ Safe (getSymbolListIter h li s e)
  concatenation : ∀ fuel index s e, NoPanic (getConcatenationIter h fuel index s e) ∧
    (3 ^ index ≤ fuel → Safe (getConcatenationIter h fuel index s e))
  conversions : ∀ a, Safe (getAssociationSlice h a) ∧ Safe (convertBytesSlice h a) ∧
    (∀ n, a + n < h.cursor → Safe (inlineCellsAt h a n)) ∧ (∀ bytes, Safe (bytesToI32 bytes)) ∧
    (∀ len i, a + 1 + len ≤ USIZE_MAX → Safe (separatorAfter a len i))
  /-- the runtime's `access_with_integer`, on data blocks of fewer than `2^31` cells -/
  accessWithInteger : ∀ (intOf : Nat → Option Int), (∀ n v, intOf n = some v → InRange v) → h.cursor ≤ 2147483647 →
    1 ≤ h.cursor → ∀ fuel, fuel * h.cursor ≤ USIZE_MAX → ∀ ix value,
    NoPanic (accessWithInteger (basicIface h intOf) fuel ix value)

theorem accessSafe_of_wf {h : Heap} (wf : h.WF) : AccessSafe h where
  ensureIndex := fun i => by
    rcases C07_ensure_index_total wf i with ⟨_, h1⟩ | ⟨_, c, _, h1⟩
    · rw [h1]; exact safe_err _
    · rw [h1]; exact safe_ok _
  itemGetters := fun la ix => C07_item_getters_total wf la ix
  iterators := fun li s e => C07_iterators_total wf li s e
  concatenation := fun fuel index s e =>
    ⟨(C07_concatenation_iter_total wf fuel index s e).1, (C07_concatenation_iter_total wf fuel index s e).2.1⟩
  conversions := fun a => C07_slicing_conversions_total wf a
  accessWithInteger := fun intOf hint hsmall hpos _ hf ix value =>
    C07_access_with_integer_basic wf intOf hint hsmall hpos hf ix value

/-- **C07_reachable_no_panic**: for every sequence of store-constructor operations from the empty store and every heap
that represents the resulting store, every accessor / iterator / conversion call — any address, any index, any
extent — answers `Ok` / `Err` and never panics -/
theorem C07_reachable_no_panic {ops : List Op} {s : Store} {h : Heap} (hrun : run ops Store.fresh = .ok s)
    (hr : Represents s h) : AccessSafe h :=
  accessSafe_of_wf (run_accessWF hrun hr)

/-- the same for any `Reachable` store (Props/C19.lean) -/
theorem C07_reachable_store_no_panic {s : Store} {h : Heap} (hs : Reachable s) (hr : Represents s h) : AccessSafe h :=
  accessSafe_of_wf (wf_implies_accessWF (WF_reachable hs) hr)

/-! ### non-vacuity: a nested list with text, then an out-of-range extent -/

/-- `"ab"`, `1`, `:5`, `(:5 = 1)`, `("ab", :5 = 1)`, `(("ab", :5 = 1), 1)`, a register, retain, compact -/
def exOps : List Op :=
  [.addChars [97, 98], .addValue (.number 1), .addValue (.symbol 5), .addValue (.pair 4 3), .buildList [0, 5],
   .buildList [6, 3], .pushRegister 11, .retainAll, .addValue (.number 9), .optimize [11]]

/-- `run` with the fuelled sort of Lemmas/AccessReach3.lean (the kernel does not unfold `List.mergeSort`) -/
def stepK (s : Store) : Op → Outcome Store
  | .buildList items => guard (items.all (isNode s.cells)) ((s.buildListK items).bind fun p => .ok p.1)
  | op => step s op

def runK : List Op → Store → Outcome Store
  | [], s => .ok s
  | op :: ops, s => (stepK s op).bind (runK ops)

theorem step_eq (s : Store) (op : Op) : step s op = stepK s op := by
  cases op <;> first | rfl | simp only [step, stepK, Store.buildList_eq]

theorem run_eq : ∀ (ops : List Op) (s : Store), run ops s = runK ops s
  | [], _ => rfl
  | op :: ops, s => by
    simp only [run, runK, step_eq]
    congr 1
    funext s1
    exact run_eq ops s1

/-- the sequence runs, the inner list keeps its key table (`L:2,1`), and the heap view is well formed -/
example : (match run exOps Store.fresh with
    | .ok s => decide (s.cells.size = 17 ∧ s.cells[6]? = some (.list 2 1) ∧ s.cells[11]? = some (.list 2 0)) &&
        decide (toAccessHeap s).WF
    | _ => false) = true := by rw [run_eq]; decide +kernel

/-- `get_char_list_iter(0, 1 .. 100)` on it: the extent is clamped, the answer is `"b"` -/
example : (match run exOps Store.fresh with
    | .ok s => (match getCharListIter (toAccessHeap s) 0 (.int 1) (.int 100) with
        | .ok l => decide (l = [98])
        | _ => false)
    | _ => false) = true := by rw [run_eq]; decide +kernel

/-- a descending extent and `i32::MIN .. i32::MAX` on the nested list -/
example : (match run exOps Store.fresh with
    | .ok s => (match getListItemIter (toAccessHeap s) 11 (.int 5) (.int (-3)),
                      getListItemIter (toAccessHeap s) 11 (.int (-2147483648)) (.int 2147483647) with
        | .ok l1, .ok l2 => decide (l1 = [] ∧ l2 = [6, 3])
        | _, _ => false)
    | _ => false) = true := by rw [run_eq]; decide +kernel

/-- and the theorem applies to it -/
example : ∀ s, run exOps Store.fresh = .ok s →
    s.start + s.cells.size + (s.size - s.cells.size + s.custom.size) ≤ USIZE_MAX → AccessSafe (toAccessHeap s) :=
  fun s hrun hsz => C07_reachable_no_panic hrun (toAccessHeap_represents s hsz)

end Garnish.Props.C07Reach
