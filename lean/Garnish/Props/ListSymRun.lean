/-
The distinct-keys look-up contract threaded to the step and run theorems of the relativised refinement
(`Access` and `Resolve` with a symbol key into a LIST are covered on SimpleGarnishData without any `ListSymOn`
hypothesis), and the Basic counterpart of `ListSym_simple_not_general`.

* `ListSymRun_step` / `ListSymRun_run`: ONE STEP / MULTI-STEP for the whole instruction set over `StoreLawsOn` +
  `ListSymDistinctOn`, coverage predicate `MachOKOn4D` = `MachOKOn4` with `LookupOnD` (the list looked into has pairwise
  different symbol keys) in place of `LookupOn` (`… ≠ .list _ ∨ ListSymOn S Inv`) for `Access` and `Resolve`.
* `ListSymRun_simple_step` / `ListSymRun_simple_run`: the same on `simpleRStoreA` (SimpleGarnishData with its real
  `get_list_item_with_symbol`), from `HitSound` and the host contract alone — no look-up hypothesis left.
* `ListSymRun_basic_not_general`: `ListSymOn` is false of BasicGarnishData too (the binary search ends on the LAST of
  equal keys; the real store answers the same on `(l (p (s 5) U) (p (s 5) T))`, `sym:5` = `T`, LIST suite).
* non-vacuity: `(:a = 1, :b = 2) . :b` (symbols 5 and 6) satisfies `MachOKOn4D` at an `Access` instruction, and the
  value-level machine finds `2`.
-/
import Garnish.Lemmas.RuntimeOnDistinct2
import Garnish.Lemmas.BasicListSym
namespace Garnish.Props.ListSymRun
open Garnish Gen Garnish.Abs Garnish.Model.Equality Garnish.Model.Runtime Garnish.Lemmas.Runtime
open Garnish.Lemmas.Runtime.On Garnish.Lemmas.Runtime.Simple Garnish.Lemmas.Runtime.SimpleSym
open Garnish.Props.RuntimeRefine

variable {F σ : Type} {S : RStore F σ} {Inv : σ → Prop} {Rd : σ → Nat → Prop} {P : Prog F} {host : Host F}
  (fo : FloatOps F)

/-- ONE STEP, whole instruction set, look-up contract on distinct keys -/
theorem ListSymRun_step (L : StoreLawsOn S Inv Rd) (LS : ListSymDistinctOn S Inv) (HR : HostRefinesI S Inv host)
    (fuel : Nat) (cast : RM σ (Option Nat)) {s : σ} {m : MState F} (hsim : Sim S P s m) (hi : Inv s)
    (hl : Loaded S P s) {instr : Instruction} {operand : Option Nat}
    (hfetch : P.instrs[m.pc]? = some (instr, operand)) (hok : MachOKOn4D fo S Inv P fuel m instr operand) :
    StepSimOn fo host S Inv P fuel (fullHandlers fo S fuel cast) s m :=
  refine_step_on4D fo L LS HR fuel cast hsim hi hl hfetch hok

/-- MULTI-STEP -/
theorem ListSymRun_run (L : StoreLawsOn S Inv Rd) (LS : ListSymDistinctOn S Inv) (HR : HostRefinesI S Inv host)
    (fuel : Nat) (cast : RM σ (Option Nat)) (n : Nat) {s : σ} {m : MState F} (hsim : Sim S P s m) (hi : Inv s)
    (hl : Loaded S P s) (hok : RunOKG fo (MachOKOn4D fo S Inv P fuel) host P n m) {m' : MState F} {k : Nat}
    (hrun : Abs.run fo host P n m = (.halted m', k)) :
    ∃ s', executeLoop fo S fuel (fullHandlers fo S fuel cast) n s = .ok ((.end_, k), s') ∧
      SimD S P s' m'.regs m'.vals m'.frames ∧ DecKept S s s' ∧ Inv s' :=
  executeLoop_spec_gen fo (MachOKOn4D fo S Inv P fuel) fuel _
    (fun _ _ _ _ hs hi hl hf hk => refine_step_on4D fo L LS HR fuel cast hs hi hl hf hk) n s m hsim hi hl
    hok m' k hrun

section simple
variable {hit : List (SimCell F) → SimCell F → Option Nat} {h : SimHost F}

/-- **ONE STEP on SimpleGarnishData, symbol look-ups into lists included, no `ListSym` hypothesis** -/
theorem ListSymRun_simple_step (hs : HitSound hit) (HR : HostRefinesI (simpleRStoreA hit h) SInv host) (fuel : Nat)
    (cast : RM (SimState F) (Option Nat)) {s : SimState F} {m : MState F} (hsim : Sim (simpleRStoreA hit h) P s m)
    (hi : SInv s) (hl : Loaded (simpleRStoreA hit h) P s) {instr : Instruction} {operand : Option Nat}
    (hfetch : P.instrs[m.pc]? = some (instr, operand))
    (hok : MachOKOn4D fo (simpleRStoreA hit h) SInv P fuel m instr operand) :
    StepSimOn fo host (simpleRStoreA hit h) SInv P fuel (fullHandlers fo (simpleRStoreA hit h) fuel cast) s m :=
  refine_step_on4D fo (simpleA_lawsOn hs) (simpleA_listSymDistinct SInv) HR fuel cast hsim hi hl hfetch hok

/-- **MULTI-STEP on SimpleGarnishData** -/
theorem ListSymRun_simple_run (hs : HitSound hit) (HR : HostRefinesI (simpleRStoreA hit h) SInv host) (fuel : Nat)
    (cast : RM (SimState F) (Option Nat)) (n : Nat) {s : SimState F} {m : MState F}
    (hsim : Sim (simpleRStoreA hit h) P s m) (hi : SInv s) (hl : Loaded (simpleRStoreA hit h) P s)
    (hok : RunOKG fo (MachOKOn4D fo (simpleRStoreA hit h) SInv P fuel) host P n m) {m' : MState F} {k : Nat}
    (hrun : Abs.run fo host P n m = (.halted m', k)) :
    ∃ s', executeLoop fo (simpleRStoreA hit h) fuel (fullHandlers fo (simpleRStoreA hit h) fuel cast) n s
        = .ok ((.end_, k), s') ∧
      SimD (simpleRStoreA hit h) P s' m'.regs m'.vals m'.frames ∧ DecKept (simpleRStoreA hit h) s s' ∧ SInv s' :=
  ListSymRun_run fo (simpleA_lawsOn hs) (simpleA_listSymDistinct SInv) HR fuel cast n hsim hi hl hok hrun

end simple

/-- `ListSymOn` is false of BasicGarnishData as well -/
theorem ListSymRun_basic_not_general (nc : Basic.NumCode F) :
    ¬ ListSymOn (Basic.basicRStore nc) Garnish.Lemmas.Runtime.Basic.BInv :=
  Garnish.Lemmas.Runtime.BasicSym.basic_not_listSymOn nc

/-! ### non-vacuity: `(:a = 1, :b = 2) . :b` -/

/-- the list `(:a = 1, :b = 2)` with `:a` = 5, `:b` = 6 -/
def exList : Val F := .list [.pair (.sym 5) (.num (.int 1)), .pair (.sym 6) (.num (.int 2))]

theorem exList_distinct : DistinctKeys [(.pair (.sym 5) (.num (.int 1)) : Val F), .pair (.sym 6) (.num (.int 2))] := by
  unfold DistinctKeys
  refine List.pairwise_cons.mpr ⟨?_, List.pairwise_cons.mpr ⟨(by intro _ h; cases h), List.Pairwise.nil⟩⟩
  intro y hy k v k' v' h1 h2
  simp only [List.mem_singleton] at hy
  subst hy
  cases h1; cases h2
  decide

example : getAccess fo (.sym 6) (exList : Val F) = .some (.num (.int 2)) := by rfl

/-- the machine state just before the `Access` of `(:a = 1, :b = 2) . :b` meets the coverage predicate -/
example (S : RStore F σ) (Inv : σ → Prop) (P : Prog F) :
    MachOKOn4D fo S Inv P 0 { pc := 0, regs := [.sym 6, exList], vals := [], frames := [], trace := [] } .access none := by
  refine ⟨(fun fr frs hf => by cases hf), ?_⟩
  intro vr vl rs hr
  simp only [List.cons.injEq] at hr
  obtain ⟨rfl, rfl, rfl⟩ := hr
  refine ⟨fun _ => ⟨by simp [exList, AccessDomain], by simp [exList, accessFuel], (fun n hn => by cases hn)⟩, ?_, ?_⟩
  · intro _
    refine ⟨by simp [exList, ncConcat], ?_, ?_⟩
    · intro y _ vs hvs
      simp only [exList, Val.list.injEq] at hvs
      subst hvs
      exact exList_distinct
    · intro v hv
      have : getAccess fo (.sym 6) (exList : Val F) = .some (.num (.int 2)) := rfl
      rw [this] at hv
      cases hv
      intro hc; cases hc
  · intro hm; cases hm

end Garnish.Props.ListSymRun
