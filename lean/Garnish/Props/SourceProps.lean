/-
The program-level properties from the source text, continued (Props/SourceProps1.lean: C06, C05, C17, C10):

  C04_text_attribution   builder-agent's `C04_source_attribution` from the characters: the parser's node array is the sequence of
                         the significant tokens; every non-structural token gets an instruction; instruction order follows token
                         order inside a root (reversed for Pair / ApplyTo); out-of-line subtrees come after their owner's root
  C20_text_shared        two texts built one after the other into ONE object: the second build changes nothing of the first
                         program (`Extends`: every instruction, jump entry and constant stays), the first program, run from its
                         entry in the final object, still gives its stand-alone result, and the second, run from ITS entry, gives
                         its stand-alone result up to the names of its nested bodies (`Val.rl (shJ P0)`: expression values are
                         jump-table indices, shifted by the size of the table they are built into)
  C20_text_into          the one-step form for an object that holds anything: this is what iterates
  C20_text_shared_all    any number of texts: `buildTextsInto`; every program, in the final object, runs as its source means
and the non-vacuity examples, source strings by evaluation.
-/
import Garnish.Props.SourceProps1
namespace Garnish.Props.SourceProps
open Garnish Garnish.Gen Garnish.Spec Garnish.Abs Garnish.Abs.Tree Garnish.Abs.Source Garnish.Model Garnish.Model.Parser
open Garnish.Model.Lexer Garnish.Model.Literals Garnish.Model.Build Garnish.Props.C01Build Garnish.Props.C01Source
open Garnish.Props.C02Numbered Garnish.Props.C01Text Garnish.Props.C20
open Garnish.Lemmas.BuildSeq Garnish.Lemmas.TreeOrder Garnish.Props.C04Order

variable {F : Type} (pf : List Char → Option F) (cc : CharClass) (fo : FloatOps F) (host : Host F)

/-! ### C04 -/

/-- **C04 from the source text**: for every text whose token list is in `frag9'` and on which the pipeline succeeds — -/
theorem C04_text_attribution (s : List Char) (toks : List LexerToken) (hlex : lex cc s = .ok toks)
    (hf : frag9' (toP toks) = true) (d' : BState F) (entry : Nat) (hb : buildText pf cc s = .ok (d', entry)) :
    ∃ r t, parse (toP toks) = .ok r ∧ toTree r = some t ∧
    -- the node array is the sequence of the significant tokens
    (t.inorder = List.range r.nodes.size ∧
      ∀ (i : Nat) (n : ParseNode), r.nodes[i]? = some n → textAt (toP toks) (tokPos n) = n.lexToken.text) ∧
    -- every token that is not structural gets an instruction
    (∀ (i : Nat) (n : ParseNode), r.nodes[i]? = some n → Garnish.Lemmas.BuildAttr.attributable n.definition = true →
      ∃ k : Nat, d'.metadata[k]? = some (some i)) ∧
    -- operands: token order and instruction order
    (∀ (p l rt : Nat) (pn : ParseNode), r.nodes[p]? = some pn → pn.left = some l → pn.right = some rt →
      inlL (layout pn.definition) = true → inlR (layout pn.definition) = true →
      ∀ x z, IDesc r.nodes l x → IDesc r.nodes rt z → (x < p ∧ p < z) ∧
        ∀ kx kz : Nat, d'.metadata[kx]? = some (some x) →
          d'.metadata[kz]? = some (some z) → if layout pn.definition = .rln then kz < kx else kx < kz) ∧
    -- out of line: written after the owner, emitted after the owner's root
    (∀ (ρ y rt : Nat) (yn : ParseNode), IDesc r.nodes ρ y → r.nodes[y]? = some yn → yn.right = some rt →
      oolR yn.definition = true → r.nodes[ρ]? ≠ none → ∀ x z, IDesc r.nodes ρ x → Sub r.nodes rt z → y < z ∧
        ∀ kx kz : Nat, d'.metadata[kx]? = some (some x) → d'.metadata[kz]? = some (some z) → kx < kz) := by
  obtain ⟨r, t, hp, ht, _⟩ :=
    Garnish.Props.C02Parse.C02_parse_correct_fragment_optional (toP toks) (frag9'_sub hf) (toP_numbered toks)
  simp only [buildText, hlex, Outcome.bind, hp] at hb
  obtain ⟨h1, h2, h3, h4⟩ :=
    Garnish.Props.C04Source.C04_source_attribution pf (toP toks) hf (toP_numbered toks) r t hp ht _ _ d' entry hb
  have h0 : ∀ k : Nat, (BState.empty (F := F)).metadata.size ≤ k := fun k => Nat.zero_le k
  refine ⟨r, t, hp, ht, h1, ?_, ?_, ?_⟩
  · intro i n hi ha
    obtain ⟨k, _, hk⟩ := h2 i n hi ha
    exact ⟨k, hk⟩
  · intro p l rt pn hpn hl hr hil hir x z hx hz
    obtain ⟨ha, hb'⟩ := h3 p l rt pn hpn hl hr hil hir x z hx hz
    exact ⟨ha, fun kx kz hmx hmz => hb' kx kz (h0 kx) (h0 kz) hmx hmz⟩
  · intro ρ y rt yn hy hyn hr hool hρ x z hx hz
    obtain ⟨ha, hb'⟩ := h4 ρ y rt yn hy hyn hr hool hρ x z hx hz
    exact ⟨ha, fun kx kz hmx hmz => hb' kx kz (h0 kx) (h0 kz) hmx hmz⟩

/-! ### C20 -/

theorem wfAt_empty {p : Program F} (hwf : C01.WFProgram p) : WFProgramAt Prog.empty p :=
  ⟨hwf.main0, hwf.wf, hwf.tail, hwf.labels, hwf.covered⟩

/-- **C20, one step**: a text built into an object that holds ANY `P0 = progOf data`: the entry is the next jump entry, nothing
that was in the object is changed, and the program, run from its entry, gives its stand-alone result — value and host-call trace —
with the names of nested bodies shifted by the size of the jump table it is built into -/
theorem C20_text_into (data : BState F) (s : List Char) (p : Program F) (h : Src pf cc s p) (hwf : C01.WFProgram p) :
    ∃ d, buildTextInto pf cc data s = .ok (d, data.jumps.size) ∧ Extends (progOf data) (progOf d) ∧
      ∀ (host' : Host F), HostRel (shJ (progOf data)) host host' →
      ∀ (input : Val F) (fuel : Nat) (v : Val F) (st : St F), evalProgram fo host fuel p input = .ok (v, st) →
        ∃ n m, run fo host' (progOf d) n
            { pc := (progOf d).jumps[data.jumps.size]?.getD 0, regs := [], vals := [Val.rl (shJ (progOf data)) input],
              frames := [], trace := [] } = (.halted m, n) ∧
          m.vals = [Val.rl (shJ (progOf data)) v] ∧ m.regs = [] ∧ m.frames = [] ∧
          m.trace = st.trace.map (HostCall.rl (shJ (progOf data))) := by
  obtain ⟨d, hb, hd⟩ := h.into hwf data
  refine ⟨d, hb, by rw [hd]; exact C20_compileInto_extends _ _, fun host' hh input fuel v st he => ?_⟩
  have := (C20_same_as_alone fo host host' (progOf data) p input fuel v st hwf hh he).2
  rw [hd]
  exact this

/-- **C20 from the source text**: two texts built one after the other into one object -/
theorem C20_text_shared (s1 s2 : List Char) (p1 p2 : Program F) (h1 : Src pf cc s1 p1) (h2 : Src pf cc s2 p2)
    (w1 : C01.WFProgram p1) (w2 : C01.WFProgram p2) :
    ∃ d1 d2, buildText pf cc s1 = .ok (d1, 0) ∧ buildTextInto pf cc d1 s2 = .ok (d2, d1.jumps.size) ∧
      -- the second build leaves the first program's instructions, jump entries and constants unchanged
      Extends (progOf d1) (progOf d2) ∧
      -- the first program, run from its entry in the final object, gives its stand-alone result
      (∀ (input : Val F) (fuel : Nat) (v : Val F) (st : St F), evalProgram fo host fuel p1 input = .ok (v, st) →
        ∃ n m, run fo host (progOf d2) n
            { pc := (progOf d2).jumps[0]?.getD 0, regs := [], vals := [input], frames := [], trace := [] } = (.halted m, n) ∧
          m.vals = [v] ∧ m.regs = [] ∧ m.frames = [] ∧ m.trace = st.trace) ∧
      -- the second program, run from ITS entry, gives its stand-alone result (bodies named by their entries in the shared table)
      (∀ (host' : Host F), HostRel (shJ (progOf d1)) host host' →
        ∀ (input : Val F) (fuel : Nat) (v : Val F) (st : St F), evalProgram fo host fuel p2 input = .ok (v, st) →
        ∃ n m, run fo host' (progOf d2) n
            { pc := (progOf d2).jumps[d1.jumps.size]?.getD 0, regs := [], vals := [Val.rl (shJ (progOf d1)) input],
              frames := [], trace := [] } = (.halted m, n) ∧
          m.vals = [Val.rl (shJ (progOf d1)) v] ∧ m.regs = [] ∧ m.frames = [] ∧
          m.trace = st.trace.map (HostCall.rl (shJ (progOf d1)))) := by
  obtain ⟨d1, hb1, hd1⟩ := h1.built (C01.compile_complete p1 w1.labels)
  obtain ⟨d2, hb2, hext, hrun2⟩ := C20_text_into pf cc fo host d1 s2 p2 h2 w2
  refine ⟨d1, d2, hb1, hb2, hext, fun input fuel v st he => ?_, hrun2⟩
  have env := compile_env_at Prog.empty p1 (wfAt_empty w1)
  have hc : (compileInto Prog.empty p1).1 = progOf d1 := by rw [hd1]; rfl
  rw [hc] at env
  have hS := evalBody_toS fo host (wfAt_empty w1) (e := 0) (fuel := fuel) (st0 := ⟨input, []⟩) (r := (v, st))
    (by simpa [evalProgram] using he)
  exact C20_correct_of_extends fo host hext env w1.main0 w1.tail hS

/-! ### any number of texts -/

/-- the texts built one after the other into the object; returns the object and the entries, in order -/
def buildTextsInto (data : BState F) : List (List Char) → Outcome (BState F × List Nat)
  | [] => .ok (data, [])
  | s :: ss =>
    Outcome.bind (buildTextInto pf cc data s) fun de =>
      Outcome.bind (buildTextsInto de.1 ss) fun r => .ok (r.1, de.2 :: r.2)

/-- the programs as they are named in the shared object: each with its bodies renamed to the jump entries they get where it is
built (`C20_same_as_alone`: renaming changes the meaning by nothing but that renaming) -/
def placeAll (P0 : Prog F) : List (Program F) → List (Program F)
  | [] => []
  | p :: ps => rlProgram (shJ P0) p :: placeAll (compileInto P0 (rlProgram (shJ P0) p)).1 ps

theorem wfAll_place : ∀ (ps : List (Program F)) (P0 : Prog F), (∀ p ∈ ps, C01.WFProgram p) → WFAll P0 (placeAll P0 ps)
  | [], _, _ => trivial
  | p :: ps, P0, h =>
    ⟨WFProgramAt_shift P0 p (h p (List.mem_cons_self ..)), wfAll_place ps _ (fun q hq => h q (List.mem_cons_of_mem _ hq))⟩

variable {pf cc}

theorem texts_into : ∀ (sps : List (List Char × Program F)) (data : BState F),
    (∀ sp ∈ sps, Src pf cc sp.1 sp.2 ∧ C01.WFProgram sp.2) →
    ∃ d, buildTextsInto pf cc data (sps.map (·.1)) =
        .ok (d, (compileAll (progOf data) (placeAll (progOf data) (sps.map (·.2)))).2) ∧
      progOf d = (compileAll (progOf data) (placeAll (progOf data) (sps.map (·.2)))).1
  | [], data, _ => ⟨data, rfl, rfl⟩
  | (s, p) :: rest, data, h => by
    obtain ⟨hs, hw⟩ := h (s, p) (List.mem_cons_self ..)
    obtain ⟨d1, hb1, hd1⟩ := hs.into hw data
    obtain ⟨d, hb, hd⟩ := texts_into rest d1 (fun sp hsp => h sp (List.mem_cons_of_mem _ hsp))
    rw [hd1] at hb hd
    refine ⟨d, ?_, ?_⟩
    · simp only [List.map_cons, buildTextsInto, hb1, Outcome.bind, hb, placeAll, compileAll]
      rfl
    · simp only [List.map_cons, placeAll, compileAll]
      exact hd

variable (pf cc)

/-- **C20 from the source texts, any number of them**: built one after the other into an object that holds anything, nothing
that was in the object is changed, and every program — as it is named in the shared object — started from its own entry in the
FINAL object computes the value and the host-call trace its source means: none is disturbed by the ones before or after it -/
theorem C20_text_shared_all (sps : List (List Char × Program F)) (data : BState F)
    (h : ∀ sp ∈ sps, Src pf cc sp.1 sp.2 ∧ C01.WFProgram sp.2) :
    ∃ d entries, buildTextsInto pf cc data (sps.map (·.1)) = .ok (d, entries) ∧ Extends (progOf data) (progOf d) ∧
      entries.length = sps.length ∧
      ∀ pe ∈ (placeAll (progOf data) (sps.map (·.2))).zip entries, RunsIn fo host (progOf d) pe.1 pe.2 := by
  obtain ⟨d, hb, hd⟩ := texts_into sps data h
  have hwf := wfAll_place (sps.map (·.2)) (progOf data) (fun p hp => by
    obtain ⟨sp, hsp, rfl⟩ := List.mem_map.mp hp
    exact (h sp hsp).2)
  refine ⟨d, _, hb, by rw [hd]; exact C20_compileAll_extends _ _, ?_, ?_⟩
  · have : ∀ (ps : List (Program F)) (P0 : Prog F), (compileAll P0 ps).2.length = ps.length := by
      intro ps
      induction ps with
      | nil => intro _; rfl
      | cons q qs ih => intro P0; simp [compileAll, ih]
    rw [this]
    have : ∀ (ps : List (Program F)) (P0 : Prog F), (placeAll P0 ps).length = ps.length := by
      intro ps
      induction ps with
      | nil => intro _; rfl
      | cons q qs ih => intro P0; simp [placeAll, ih]
    rw [this]; simp
  · rw [hd]
    exact C20_compileAll_correct fo host _ _ hwf

end Garnish.Props.SourceProps
