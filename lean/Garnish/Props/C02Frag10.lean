/-
C02: the shapes that lie outside `frag9` — where the real parser and the reference grammar DISAGREE, and where they agree
in rejecting.  Each statement is about concrete token lists and is proved by evaluation; they delimit the fragment: an
extension of `frag9` with `toTree (parse toks) = refParse toks` is impossible for these shapes.

  C02_trailing_semicolon_in_braces   `{a;}`  : `parse` returns `Ok` with an IMPROPER tree — the `;` node keeps the dangling
                                               `right = 3` (no node 3 exists; only a trailing BLANK LINE is unlinked at a
                                               closer) — the reference grammar says syntax error;
  C02_trailing_semicolon_at_end      `a ;`   : `parse` returns the tree `(; a -)`, a separator without right operand; the
                                               reference grammar says syntax error (a `;` is never redundant);
  C02_blank_line_after_operator_in_group `(a + <blank> b)` : `parse` says syntax error (an operator may not be followed by
                                               a separator token), the reference grammar reads a blank line inside `( )` as
                                               whitespace: `(a + b)`;
  C02_suffix_then_operand            `a~~ b` : `parse` gives the SUFFIX operator a right operand: `(~~ a b)` (no `List` node);
                                               the reference grammar has no rule for an operand after a suffix operator
                                               (`unsupported`);
  C02_separator_after_operator_rejected  `a + <blank> b`, `a + ; b`, `{a + <blank> b}` : both say syntax error.
-/
import Garnish.Props.C02Parse
namespace Garnish.Props.C02Frag10
open Garnish Garnish.Gen Garnish.Spec Garnish.Model.Parser Garnish.Props.C02Parse

def shape (n : ParseNode) : Definition × Option Nat × Option Nat × Option Nat := (n.definition, n.parent, n.left, n.right)

def nodesOf (toks : List PToken) : Option (Nat × List (Definition × Option Nat × Option Nat × Option Nat)) :=
  match parse toks with
  | .ok r => some (r.root, r.nodes.toList.map shape)
  | _ => none

def properOf (toks : List PToken) : Option Bool :=
  match parse toks with
  | .ok r => some (toTree r).isSome
  | _ => none

def exBraceSemi : List PToken :=
  [tk .startExpression "{" 0, tk .identifier "a" 1, tk .expressionSeparator ";" 2, tk .endExpression "}" 3]

theorem C02_trailing_semicolon_in_braces :
    nodesOf exBraceSemi = some (0, [(.nestedExpression, none, none, some 2), (.identifier, some 2, none, none),
      (.expressionSeparator, some 0, some 1, some 3)]) ∧
    properOf exBraceSemi = some false ∧ refParse Table.gen exBraceSemi = .err .syntax := by
  refine ⟨by rfl, by decide, rfl⟩

def exSemiEnd : List PToken := [tk .identifier "a" 0, tk .whitespace " " 1, tk .expressionSeparator ";" 2]

theorem C02_trailing_semicolon_at_end :
    nodesOf exSemiEnd = some (1, [(.identifier, some 1, none, none), (.expressionSeparator, none, some 0, none)]) ∧
    properOf exSemiEnd = some true ∧ refParse Table.gen exSemiEnd = .err .syntax := by
  refine ⟨by rfl, by decide, rfl⟩

def exGroupBlank : List PToken :=
  [tk .startGroup "(" 0, tk .identifier "a" 1, tk .plusSign "+" 2, tk .subexpression "\n\n" 3, tk .identifier "b" 4,
   tk .endGroup ")" 5]

theorem C02_blank_line_after_operator_in_group :
    nodesOf exGroupBlank = none ∧ (parse exGroupBlank).isOk = false ∧
    refParse Table.gen exGroupBlank =
      .ok (.group .group 0 (.node (.node .nil .identifier 1 .nil) .addition 2 (.node .nil .identifier 4 .nil))) := by
  refine ⟨by rfl, by decide, rfl⟩

def exSuffixOperand : List PToken :=
  [tk .identifier "a" 0, tk .emptyApply "~~" 1, tk .whitespace " " 2, tk .identifier "b" 3]

theorem C02_suffix_then_operand :
    nodesOf exSuffixOperand = some (1, [(.identifier, some 1, none, none), (.emptyApply, none, some 0, some 2),
      (.identifier, some 1, none, none)]) ∧
    properOf exSuffixOperand = some true ∧ refParse Table.gen exSuffixOperand = .err .unsupported := by
  refine ⟨by rfl, by decide, rfl⟩

theorem C02_separator_after_operator_rejected :
    (parse [tk .identifier "a" 0, tk .plusSign "+" 1, tk .subexpression "\n\n" 2, tk .identifier "b" 3]).isOk = false ∧
    refParse Table.gen [tk .identifier "a" 0, tk .plusSign "+" 1, tk .subexpression "\n\n" 2, tk .identifier "b" 3] =
      .err .syntax ∧
    (parse [tk .identifier "a" 0, tk .plusSign "+" 1, tk .expressionSeparator ";" 2, tk .identifier "b" 3]).isOk = false ∧
    refParse Table.gen [tk .identifier "a" 0, tk .plusSign "+" 1, tk .expressionSeparator ";" 2, tk .identifier "b" 3] =
      .err .syntax ∧
    (parse [tk .startExpression "{" 0, tk .identifier "a" 1, tk .plusSign "+" 2, tk .subexpression "\n\n" 3,
      tk .identifier "b" 4, tk .endExpression "}" 5]).isOk = false ∧
    refParse Table.gen [tk .startExpression "{" 0, tk .identifier "a" 1, tk .plusSign "+" 2, tk .subexpression "\n\n" 3,
      tk .identifier "b" 4, tk .endExpression "}" 5] = .err .syntax := by
  refine ⟨by decide, rfl, by decide, rfl, by decide, rfl⟩

end Garnish.Props.C02Frag10
