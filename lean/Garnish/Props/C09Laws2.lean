/-
C09 — division laws for the 32-bit integer fragment (corollaries of the exactness theorems):
truncation toward zero stated as the quotient/remainder identity, the remainder bound and its sign.
-/
import Garnish.Props.C09
namespace Garnish.Props.C09Laws
open Garnish Garnish.Number Garnish.Props.C09

variable {F : Type} (fo : FloatOps F)

/-- Whenever `/` and `%` both give numbers, `q * b + r = a`, `|r| < |b|` and `r` has the sign of
the dividend: the pair is the truncated (toward zero) division, never the floored or Euclidean one. -/
theorem C09_int_div_rem_identity (a b q r : Int) (ha : InRange a) (hb : InRange b)
    (hq : divide fo (.int a) (.int b) = some (.int q))
    (hr : remainder fo (.int a) (.int b) = some (.int r)) :
    q * b + r = a ∧ r.natAbs < b.natAbs ∧ (0 ≤ a → 0 ≤ r) ∧ (a ≤ 0 → r ≤ 0) := by
  rw [C09_int_divide fo a b ha hb] at hq
  rw [C09_int_remainder fo a b ha hb] at hr
  unfold Spec.div Spec.exact at hq
  unfold Spec.rem at hr
  by_cases hb0 : b = 0
  · simp [hb0] at hq
  · rw [if_neg hb0] at hq hr
    by_cases hin : InRange (a.tdiv b)
    · rw [if_pos hin] at hq hr
      simp at hq hr
      subst hq; subst hr
      refine ⟨?_, ?_, ?_, ?_⟩
      · have := Int.mul_tdiv_add_tmod a b
        rw [Int.mul_comm]; exact this
      · rw [Int.natAbs_tmod]
        exact Nat.mod_lt _ (by omega)
      · intro h; exact Int.tmod_nonneg b h
      · intro h
        have := Int.tmod_nonneg b (a := -a) (by omega)
        rw [Int.neg_tmod] at this; omega
    · rw [if_neg hin] at hq; simp at hq

/-- `/` and `//` agree on integers. -/
theorem C09_int_divide_eq_integerDivide (a b : Int) (ha : InRange a) (hb : InRange b) :
    divide fo (.int a) (.int b) = integerDivide fo (.int a) (.int b) := by
  rw [C09_int_divide fo a b ha hb, C09_int_integerDivide fo a b ha hb]

/-- Division by zero and remainder by zero give unit for every dividend. -/
theorem C09_int_div_zero (a : Int) (ha : InRange a) :
    divide fo (.int a) (.int 0) = none ∧ remainder fo (.int a) (.int 0) = none := by
  have h0 : InRange 0 := by decide
  rw [C09_int_divide fo a 0 ha h0, C09_int_remainder fo a 0 ha h0]
  simp [Spec.div, Spec.rem]

/-- `a * 0 = 0` and `a - a = 0` always (no spurious unit). -/
theorem C09_int_multiply_zero (a : Int) (ha : InRange a) :
    multiply fo (.int a) (.int 0) = some (.int 0) := by
  have h0 : InRange 0 := by decide
  rw [C09_int_multiply fo a 0 ha h0]; simp [Spec.mul, Spec.exact, h0]

theorem C09_int_subtract_self (a : Int) (ha : InRange a) :
    subtract fo (.int a) (.int a) = some (.int 0) := by
  have h0 : InRange 0 := by decide
  rw [C09_int_subtract fo a a ha ha]; simp [Spec.sub, Spec.exact, h0]

example : Spec.div (-7) 2 = some (-3) ∧ Spec.rem (-7) 2 = some (-1) ∧ (-3) * 2 + (-1) = (-7 : Int) := by decide

end Garnish.Props.C09Laws
