/-
C01 from the source TEXT to the STORE: `C01_text_correct` (Props/C01Text.lean: characters → lexer → parser → builder →
value-level machine) chained with `C01_refine_run` (Props/RuntimeRefineRun.lean: value-level machine → address-level
loop over an abstract store).

`C01_text_to_store`: take a source text the models of the lexer, parser and builder accept (hypotheses of
`C01_text_correct`: `lex` succeeds, the tokens are in `frag9'`, the reference tree elaborates to a well-formed program
`p`), and let `evalProgram … p input = ok (v, st)`. Then there are a built object `d`, its entry and a step count `n`
such that on ANY store `S` with `StoreLawsRun` whose extension points refine the host (`HostRefines`), from ANY state
`s0` in which the built program is loaded (`ProgramLoaded`: instructions, jump table, instruction length, constants at
their own addresses, cursor at the entry, no registers, no frames, one input-value address denoting `input`), provided
the dynamic side conditions hold along the run (`RunOK`; automatically for a static program, `C01_runOK_of_static`),
the loop `executeLoop` answers `End` after exactly `n` steps with ONE input-value address, which decodes to `v`.
What remains as hypotheses: the source-side hypotheses of `C01_text_correct`; `StoreLawsRun`, `HostRefines`;
`ProgramLoaded` (the link between the builder model's `BState` and the store — on the reference store it is met by
construction, `loadRef_loaded`); `RunOK` for programs that use Resolve, comparisons, Access, Apply, EmptyApply, Equal,
NotEqual or AccessLengthInternal.
-/
import Garnish.Props.C01Text
import Garnish.Props.RuntimeRefineRun
set_option linter.unusedSimpArgs false
set_option linter.unusedVariables false
namespace Garnish.Props.C01TextStore
open Garnish Garnish.Gen Garnish.Spec Garnish.Abs Garnish.Abs.Tree Garnish.Abs.Source Garnish.Model Garnish.Model.Parser
open Garnish.Model.Lexer Garnish.Model.Literals Garnish.Model.Build Garnish.Props.C01Build Garnish.Props.C01Source
open Garnish.Props.C02Numbered Garnish.Props.C01Text
open Garnish.Model.Equality Garnish.Model.Runtime Garnish.Lemmas.Runtime Garnish.Props.RuntimeRefine

variable {F σ : Type}

/-- the program `P` is loaded in the store, the store stands at `pc` with `input` as its only input value -/
structure ProgramLoaded (S : RStore F σ) (P : Prog F) (pc : Nat) (s : σ) (input : Val F) : Prop where
  cursor : S.cursor s = pc
  regs : S.regs s = []
  frames : S.frames s = []
  vals : ∃ ia, S.vals s = [ia] ∧ Decodes (S.view s) ia input
  instrs : ∀ i, S.instruction s i = P.instrs[i]?
  jumps : ∀ j, S.jumpTable s j = P.jumps[j]?
  ilen : S.instrLen s = P.instrs.size
  consts : Loaded S P s

theorem ProgramLoaded.sim {S : RStore F σ} {P : Prog F} {pc : Nat} {s : σ} {input : Val F}
    (h : ProgramLoaded S P pc s input) :
    Sim S P s { pc := pc, regs := [], vals := [input], frames := [], trace := [] } := by
  obtain ⟨ia, hv, dia⟩ := h.vals
  exact ⟨h.cursor, by rw [h.regs]; exact .nil, by rw [hv]; exact .cons dia .nil, by rw [h.frames]; exact .nil,
    h.instrs, h.jumps, h.ilen⟩

variable (pf : List Char → Option F) (cc : CharClass)

/-- **characters → store**: the source text, taken through the models of the lexer, parser and builder, and then run
by the address-level loop on ANY store that satisfies the contract and has the built program loaded, ends with one
input-value address that decodes to the value `evalProgram` assigns to the text's program -/
theorem C01_text_to_store {S : RStore F σ} (L : StoreLawsRun S) (fo : FloatOps F) (host : Host F)
    (HR : HostRefines S host) (loopFuel : Nat) (cast : RM σ (Option Nat))
    (s : List Char) (toks : List LexerToken)
    (hlex : lex cc s = .ok toks) (hf : frag9' (toP toks) = true) (rt : RTree)
    (href : refParse Table.gen (toP toks) = .ok rt) (p : Program F) (hel : elaborate pf (toP toks) rt = some p)
    (hwf : C01.WFProgram p) (input : Val F) (fuel : Nat) (v : Val F) (st : St F)
    (h : evalProgram fo host fuel p input = .ok (v, st)) :
    ∃ d entry n, buildText pf cc s = .ok (d, entry) ∧
      ∀ s0 : σ, ProgramLoaded S (progOf d) ((progOf d).jumps[entry]?.getD 0) s0 input →
        RunOK fo host (progOf d) loopFuel n
          { pc := (progOf d).jumps[entry]?.getD 0, regs := [], vals := [input], frames := [], trace := [] } →
        ∃ s' a, executeLoop fo S loopFuel (fullHandlers fo S loopFuel cast) n s0 = .ok ((.end_, n), s') ∧
          S.vals s' = [a] ∧ Decodes (S.view s') a v ∧ S.regs s' = [] ∧ S.frames s' = [] := by
  obtain ⟨d, entry, hb, n, m, hrun, hv, hr, hfr, _⟩ :=
    C01_text_correct pf cc fo host s toks hlex hf rt href p hel hwf input fuel v st h
  refine ⟨d, entry, n, hb, fun s0 hload hok => ?_⟩
  exact C01_refine_run_value fo L HR loopFuel cast n hload.sim hload.consts hok hrun hv hr hfr

/-! ### loading a built program into the reference store -/

/-- the cell of a constant (constants are leaves: numbers, characters, symbols, texts, expressions …) -/
def cellOfVal : Val F → RCell F
  | .unit => .unit | .tru => .tru | .fls => .fls | .num n => .num n | .char c => .char c | .byte b => .byte b
  | .sym y => .sym y | .expr j => .expr j | .ext n => .ext n | .type t => .type t | .chars cs => .chars cs
  | .bytes bs => .bytes bs | .symList ps => .symList ps | _ => .custom

def isLeaf : Val F → Bool
  | .pair _ _ | .list _ | .concat _ _ | .range _ _ | .slice _ _ | .part _ _ => false
  | _ => true

theorem leaf_decodes {cells : List (RCell F)} {k : Nat} {v : Val F} (hc : cells[k]? = some (cellOfVal v))
    (hl : isLeaf v = true) : Decodes (refView cells) k v := by
  cases v <;> simp [isLeaf] at hl
  case unit => exact .unit (by rw [rv_typeOf, hc]; rfl)
  case tru => exact .tru (by rw [rv_typeOf, hc]; rfl)
  case fls => exact .fls (by rw [rv_typeOf, hc]; rfl)
  case num n => exact .num (by rw [rv_typeOf, hc]; rfl) (by rw [rv_number, hc]; rfl)
  case char c => exact .char (by rw [rv_typeOf, hc]; rfl) (by rw [rv_char, hc]; rfl)
  case byte b => exact .byte (by rw [rv_typeOf, hc]; rfl) (by rw [rv_byte, hc]; rfl)
  case sym y => exact .sym (by rw [rv_typeOf, hc]; rfl) (by rw [rv_symbol, hc]; rfl)
  case expr j => exact .expr (by rw [rv_typeOf, hc]; rfl) (by rw [rv_expression, hc]; rfl)
  case ext n => exact .ext (by rw [rv_typeOf, hc]; rfl) (by rw [rv_external, hc]; rfl)
  case type t => exact .type (by rw [rv_typeOf, hc]; rfl) (by rw [rv_type_, hc]; rfl)
  case chars cs => exact .chars (by rw [rv_typeOf, hc]; rfl) (by rw [rv_chars, hc]; rfl)
  case bytes bs => exact .bytes (by rw [rv_typeOf, hc]; rfl) (by rw [rv_bytes, hc]; rfl)
  case symList ps => exact .symList (by rw [rv_typeOf, hc]; rfl) (by rw [rv_symList, hc]; rfl)
  case custom => exact .custom (by rw [rv_typeOf, hc]; rfl)

/-- the reference store with `P` loaded: the constants at their own addresses, then the input value -/
def loadRef (P : Prog F) (pc : Nat) (input : Val F) : RefState F :=
  { cells := P.consts.toList.map cellOfVal ++ [cellOfVal input], regs := [], vals := [P.consts.size], frames := [],
    trace := [], building := none, jumps := P.jumps.toList, instrs := P.instrs.toList, instrLen := P.instrs.size,
    cursor := pc }

theorem loadRef_loaded (h : RefHost F) (P : Prog F) (pc : Nat) (input : Val F)
    (hc : P.consts.toList.all isLeaf = true) (hi : isLeaf input = true) :
    ProgramLoaded (refStore h) P pc (loadRef P pc input) input where
  cursor := rfl
  regs := rfl
  frames := rfl
  vals := ⟨P.consts.size, rfl, by
    show Decodes (refView (P.consts.toList.map cellOfVal ++ [cellOfVal input])) P.consts.size input
    exact leaf_decodes (by simp) hi⟩
  instrs i := by show P.instrs.toList[i]? = P.instrs[i]?; simp
  jumps j := by show P.jumps.toList[j]? = P.jumps[j]?; simp
  ilen := rfl
  consts k v hk := by
    show Decodes (refView (P.consts.toList.map cellOfVal ++ [cellOfVal input])) k v
    have hlt : k < P.consts.size := by
      apply Nat.lt_of_not_le; intro hle
      rw [Array.getElem?_eq_none hle] at hk; cases hk
    have hv : P.consts.toList[k]? = some v := by simpa using hk
    refine leaf_decodes ?_ ?_
    · rw [List.getElem?_append_left (by simpa using hlt), List.getElem?_map, hv]; rfl
    · exact (List.all_eq_true.mp hc) v (List.mem_of_getElem? hv)

theorem staticOK_of_all (P : Prog F) (h : P.instrs.toList.all (fun p => !isDynamic p.1) = true) : StaticOK P := by
  intro i instr operand hi
  have hm : (instr, operand) ∈ P.instrs.toList := List.mem_of_getElem? (by simpa using hi)
  have := (List.all_eq_true.mp h) _ hm
  simpa using this

/-! ### non-vacuity: the text `$ ?> 1 |> 2` on the reference store, input `true` -/

/-- the source text `$ ?> 1 |> 2`, lexed, parsed and built by the models, loaded into the reference store with the
input value `true` and a declining host, and run by the address-level loop: it ends (`End`) with ONE input-value
address, and that address decodes to `1` — the value `evalProgram` assigns to the text's program on input `true`.
All hypotheses of `C01_text_to_store` are discharged: the store laws (`refStore_lawsRun`), the host
(`refStore_hostRefines`), the loading (`loadRef_loaded`: the built constants are leaves) and `RunOK` (the built
program is static: `staticOK_of_all`). -/
example (fo : FloatOps Float) :
    ∃ d entry n, buildText noFloat asciiCC "$ ?> 1 |> 2".toList = .ok (d, entry) ∧
      ∃ s' a, executeLoop fo (refStore (fun _ => none)) 0 (fullHandlers fo (refStore (fun _ => none)) 0 (RM.fail .unsupported)) n
          (loadRef (progOf d) ((progOf d).jumps[entry]?.getD 0) .tru) = .ok ((.end_, n), s') ∧
        s'.vals = [a] ∧ Decodes (refView s'.cells) a (.num (.int 1)) ∧ s'.regs = [] ∧ s'.frames = [] := by
  obtain ⟨d, entry, n, hb, hrun⟩ :=
    C01_text_to_store (S := refStore (fun _ => none)) noFloat asciiCC (refStore_lawsRun _) fo Host.declining
      refStore_hostRefines 0 (RM.fail .unsupported) _ _ text_cond_lex (by rw [text_cond_toks]; exact exCond_frag') _
      (by rw [text_cond_toks]; exact exCond_ref) progCond (by rw [text_cond_toks]; exact exCond_elab) progCond_wf
      .tru 5 _ _ (progCond_meaning fo Host.declining)
  -- what was built is `compile progCond`
  obtain ⟨d', hb', hi, hj, hc⟩ :=
    C01_text_build noFloat asciiCC _ _ text_cond_lex (by rw [text_cond_toks]; exact exCond_frag') _
      (by rw [text_cond_toks]; exact exCond_ref) progCond (by rw [text_cond_toks]; exact exCond_elab) (by rfl)
  rw [hb] at hb'
  obtain ⟨rfl, rfl⟩ : d = d' ∧ entry = 0 := by
    simp only [Outcome.ok.injEq, Prod.mk.injEq] at hb'; exact hb'
  have hleaf : (progOf d).consts.toList.all isLeaf = true := by
    show d.consts.toList.all isLeaf = true
    rw [hc]; rfl
  have hstatic : StaticOK (progOf d) := staticOK_of_all _ (by
    show d.instrs.toList.all (fun p => !isDynamic p.1) = true
    rw [hi]; rfl)
  obtain ⟨s', a, h1, h2, h3, h4, h5⟩ := hrun _ (loadRef_loaded _ (progOf d) _ .tru hleaf rfl)
    (C01_runOK_of_static fo 0 hstatic n _)
  exact ⟨d, 0, n, hb, s', a, h1, h2, h3, h4, h5⟩

end Garnish.Props.C01TextStore
