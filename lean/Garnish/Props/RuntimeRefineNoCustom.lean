/-
The VALUE side conditions of the relativised refinement, discharged by a machine invariant.

* `C01_step_noCustom`: `NoCustom m` (no `custom` anywhere — hereditarily — in registers, input values and the registers
  saved by frames) is kept by every step of Abs/Machine, for a program with custom-free constants (`ConstsNC`) and a host
  that never answers with `custom` (`HostNoCustom`). Hence it holds in every reachable state (`C01_noCustom_reach`).
* From it: every "≠ custom" / `ncNodes` / `ncConcat` / `NoCustomTop` conjunct of `MachOKOn … MachOKOn4`.
* `DynOK` (Lemmas/NoCustom8.lean) is the ONE residual predicate; it demands: `CompareDomain` (comparisons), no slice
  operand (`Concat`, `input <> argument` of a partial application), `ApplyDomain` + no symbol look-up into a list without
  `ListSymOn` (apply arms, path), `AccessOK` + `ListSymAlt` + no number operand in the merge arm (`Access`), the look-up
  domain of `Resolve`, `EqualDomain`, `LengthDomain`; nothing for the other 40 instructions.
* `C01_runOKOn_full_of_balanced`: `RunOKG (MachOKOn4 …)` for EVERY run of a program the depth analysis accepts, from
  `ConstsNC`, `HostNoCustom`, a custom-free input, `DynOK` in the reachable states and `hcalls`.
* `C01_text_to_simple_store_balanced_full`: the text theorem on `SimpleGarnishData` for the whole instruction set with
  these hypotheses in place of `RunOKG`.
-/
import Garnish.Lemmas.NoCustom10
import Garnish.Props.C01TextStoreOnBalanced
set_option linter.unusedSimpArgs false
set_option linter.unusedVariables false
namespace Garnish.Props.RuntimeRefine
open Garnish Gen Garnish.Abs Garnish.Model.Equality Garnish.Model.Runtime Garnish.Lemmas.Runtime
open Garnish.Lemmas.Runtime.On Garnish.Props.C06 Garnish.Lemmas.NoCustom

variable {F σ : Type} {fo : FloatOps F} {host : Host F} {S : RStore F σ} {Inv : σ → Prop} {P : Prog F}

theorem C01_step_noCustom (HN : HostNoCustom host) (hc : ConstsNC P) {s s' : MState F} (hs : NoCustom s)
    (h : Abs.step fo host P s = .running s' ∨ Abs.step fo host P s = .halted s') : NoCustom s' :=
  step_nc HN hc hs h

theorem C01_noCustom_reach (HN : HostNoCustom host) (hc : ConstsNC P) {entries : List Nat} {s0 s : MState F}
    (h0 : NoCustom s0) (hr : ReachK fo host P entries s0 s) : NoCustom s := noCustom_reach HN hc h0 hr

theorem C01_runOKOn_full_of_balanced {entry : Nat} {d : Array (Option Nat)} (h : absDepth P entry = some d)
    (hentry : entry < P.instrs.size) (vals : List (Val F)) (tr : List (HostCall F)) (fuel : Nat)
    (HN : HostNoCustom host) (hc : ConstsNC P) (hv : ncL vals = true)
    (hdyn : ∀ s, ReachK fo host P (entry :: exprEntries P) ⟨entry, [], vals, [], tr⟩ s → ∀ i o,
      P.instrs[s.pc]? = some (i, o) → DynOK fo S Inv P fuel s i o)
    (hcalls : ∀ s s', ReachK fo host P (entry :: exprEntries P) ⟨entry, [], vals, [], tr⟩ s →
      Abs.step fo host P s = .running s' → s'.frames.length = s.frames.length + 1 → s'.pc ∈ entry :: exprEntries P)
    (n : Nat) : RunOKG fo (MachOKOn4 fo S Inv P fuel) host P n ⟨entry, [], vals, [], tr⟩ :=
  runOKOn4_of_balanced h hentry vals tr fuel HN hc hv hdyn hcalls n

end Garnish.Props.RuntimeRefine
