/-
The addresses the REAL builder emits into a fresh `BasicGarnishData` (observed on the crate: lex → parse → build into
`BasicGarnishData::new(NoOpCompanion)`, instruction operands and data block printed; probe /tmp/basicprobe_buildagent)
against `relocBy` along Basic's own address map (Lemmas/BasicBuilderIntern.lean):
* `1 + 1`           real: `Put 0; Put 1; Add; EndExpression`, data `[Number 1, Number 1]` — no sharing (Simple: `Put 3; Put 3`)
* `$ ?> () |> 1`    real: `PutValue; JumpIfTrue 1; Put 0; EndExpression; Put 1; JumpTo 2`, jumps `[0,4,3]`,
                    data `[Number 1, Unit]` — the `()` literal is pushed like any constant (Simple: preallocated cell 0)
* `{ $ + 1 } <~ 5`  real: `Put 0; Put 1; Apply; EndExpression; PutValue; Put 2; Add; EndExpression`, jumps `[0,4]`,
                    data `[Expression 1, Number 5, Number 1]`
* `"ab" + 1`        real: `Put 0; Put 3; Add; EndExpression`, data `[CharList 2, Char a, Char b, Number 1]` — a char
                    list occupies `1 + n` cells
* `"ab" + x`        real: `Put 0; Resolve 3; Add; EndExpression`,
                    data `[CharList 2, Char a, Char b, Symbol _, CharList 1, Char x]` — a symbol is followed by its text
                    (these two are checked on the written-out programs `progCharList` / `progSymbol`: evaluating the
                    lexer on a string literal / the symbol hash in the kernel is out of reach)
So Basic's builder path differs from Simple's in kind, not in the cache decision: nothing is shared, nothing preallocated,
constants have a footprint; for programs without char lists, byte lists and symbols the addresses are the model
builder's own 0-based indexes (`basicBuilderAddr_single`).
-/
import Garnish.Lemmas.BasicBuilderIntern
import Garnish.Props.C01BuilderAddresses
namespace Garnish.Props.C01TextStore
open Garnish Garnish.Gen Garnish.Abs Garnish.Abs.Tree Garnish.Model Garnish.Model.Build Garnish.Props.C01Build Garnish.Props.C01Text
open Garnish.Lemmas.Runtime.On Garnish.Lemmas.BasicBuilderIntern

variable {F : Type}

/-- the program the Rust builder leaves in a fresh `BasicGarnishData`; `symText k` = the text of the `k`-th constant when
it is a symbol -/
def basicRealProg (symText : Nat → List Nat) (P : Prog F) : Prog F :=
  relocBy (basicBuilderAddr symText P) (basicBuilderData symText P) P

/-- the value-level machine does not see the difference -/
theorem C01_basic_builder_run_agrees (symText : Nat → List Nat) (fo : FloatOps F) (host : Host F) (P : Prog F) (n : Nat)
    (m : MState F) : Abs.run fo host (basicRealProg symText P) n m = Abs.run fo host P n m :=
  run_relocBy fo host (basic_builder_constsAgree symText P) n m

set_option maxRecDepth 8000

/-- `1 + 1`: two cells, `Put 0; Put 1` -/
theorem basic_real_equal_literals :
    (builtProg "1 + 1").map (fun P => ((basicRealProg (fun _ => []) P).instrs.toList, (basicRealProg (fun _ => []) P).consts.toList)) =
      some ([(.put, some 0), (.put, some 1), (.add, none), (.endExpression, none)], [.num (.int 1), .num (.int 1)]) := by rfl

/-- `$ ?> () |> 1`: the `()` literal is a pushed cell -/
theorem basic_real_unit_literal :
    (builtProg "$ ?> () |> 1").map (fun P =>
        ((basicRealProg (fun _ => []) P).instrs.toList, (basicRealProg (fun _ => []) P).consts.toList)) =
      some ([(.putValue, none), (.jumpIfTrue, some 1), (.put, some 0), (.endExpression, none), (.put, some 1),
        (.jumpTo, some 2)], [.num (.int 1), .unit]) := by rfl

/-- `{ $ + 1 } <~ 5` -/
theorem basic_real_nested :
    (builtProg "{ $ + 1 } <~ 5").map (fun P =>
        ((basicRealProg (fun _ => []) P).instrs.toList, (basicRealProg (fun _ => []) P).consts.toList)) =
      some ([(.put, some 0), (.put, some 1), (.apply, none), (.endExpression, none), (.putValue, none),
        (.put, some 2), (.add, none), (.endExpression, none)], [.expr 1, .num (.int 5), .num (.int 1)]) := by rfl

/-- the program the model builder makes of `"ab" + 1` (constants `"ab"`, `1`; evaluating the lexer on the string literal in
the kernel is out of reach, so the program is written out): the char list occupies three cells, the number sits at 3 -/
def progCharList : Prog Float :=
  { instrs := #[(.put, some 0), (.put, some 1), (.add, none), (.endExpression, none)], jumps := #[0],
    consts := #[.chars [97, 98], .num (.int 1)] }

theorem basic_real_footprints :
    ((basicRealProg (fun _ => []) progCharList).instrs.toList, (basicRealProg (fun _ => []) progCharList).consts.toList) =
      ([(.put, some 0), (.put, some 3), (.add, none), (.endExpression, none)],
        [.chars [97, 98], .char 97, .char 98, .num (.int 1)]) := by rfl

/-- a symbol constant is followed by its text: `x` (text `[120]`) after `"ab"` sits at 3 and the block has six cells -/
def progSymbol : Prog Float :=
  { instrs := #[(.put, some 0), (.resolve, some 1), (.add, none), (.endExpression, none)], jumps := #[0],
    consts := #[.chars [97, 98], .sym 7] }

theorem basic_real_symbol_text :
    ((basicRealProg (fun k => if k = 1 then [120] else []) progSymbol).instrs.toList,
      (basicRealProg (fun k => if k = 1 then [120] else []) progSymbol).consts.toList) =
      ([(.put, some 0), (.resolve, some 3), (.add, none), (.endExpression, none)],
        [.chars [97, 98], .char 97, .char 98, .sym 7, .chars [120], .char 120]) := by rfl

end Garnish.Props.C01TextStore
