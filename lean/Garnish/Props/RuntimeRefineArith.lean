/-
Runtime refinement, part 2a (C08 / C09 anchors): the statement-level models of runtime/src/runtime/arithmetic.rs
and bitwise.rs (Model/Runtime/Arithmetic.lean) refine `arithBinary` / `arithUnary` of Abs/Ops.lean.

For ALL operand values: two numbers ↦ the registers end with `a :: rest` where `a` decodes to the result of the
`GarnishNumber` operation, or to unit when it answers `None` (C09: exact or unit, nothing else); any other pair
↦ both operands popped, `defer_op` called exactly once with (instruction, (type, address) of the left operand,
(type, address) of the right operand — `(Unit, 0)` for a unary operation), unit pushed iff the host declined.
Hypotheses: `StoreLaws S`, the register shape, `Decodes` of the operands.
-/
import Garnish.Lemmas.RuntimeArith
import Garnish.Lemmas.RuntimeRefStore
set_option linter.unusedSimpArgs false
set_option linter.unusedVariables false
namespace Garnish.Props.RuntimeRefine
open Garnish Gen Garnish.Abs Garnish.Model.Equality Garnish.Model.Runtime Garnish.Lemmas.Runtime

variable {F σ : Type} {S : RStore F σ} (fo : FloatOps F)

/-- `perform_op` with the `GarnishNumber` method of `nop` refines `arithBinary` -/
theorem C08_refine_perform_op (L : StoreLaws S) (op : Instruction) (nop : NumOp)
    {s : σ} {r l : Nat} {vr vl : Val F} {rest : List Nat}
    (hregs : S.regs s = r :: l :: rest) (hl : Decodes (S.view s) l vl) (hr : Decodes (S.view s) r vr) :
    RefinesOut S s (performOp S op (Number.apply fo nop) s) none rest l r (arithBinary fo op nop vl vr) := by
  rw [arithBinary_eq]; exact performOp_spec L op _ hregs hl hr

/-- `perform_unary_op` refines `arithUnary`; the host sees `(Unit, 0)` as the right operand -/
theorem C08_refine_perform_unary_op (L : StoreLaws S) (op : Instruction) (nop : NumOp)
    {s : σ} {a : Nat} {v : Val F} {rest : List Nat}
    (hregs : S.regs s = a :: rest) (h : Decodes (S.view s) a v) :
    RefinesOut S s (performUnaryOp S op (fun x => Number.apply fo nop x x) s) none rest a 0
      (arithUnary fo op nop v) := by
  rw [arithUnary_eq]; exact performUnaryOp_spec L op _ hregs h

/-- every handler of arithmetic.rs / bitwise.rs is `perform_op` / `perform_unary_op` at the instruction's own
number operation (`numOpOf`, the table Abs/Ops `binaryOp` / `unaryOp` use) -/
theorem C08_refine_handlers_binary :
    add fo S = performOp S .add (Number.apply fo .plus) ∧
    subtract fo S = performOp S .subtract (Number.apply fo .subtract) ∧
    multiply fo S = performOp S .multiply (Number.apply fo .multiply) ∧
    power fo S = performOp S .power (Number.apply fo .power) ∧
    divide fo S = performOp S .divide (Number.apply fo .divide) ∧
    integerDivide fo S = performOp S .integerDivide (Number.apply fo .integerDivide) ∧
    remainder fo S = performOp S .remainder (Number.apply fo .remainder) ∧
    bitwiseAnd S = performOp S .bitwiseAnd (Number.apply fo .bitwiseAnd) ∧
    bitwiseOr S = performOp S .bitwiseOr (Number.apply fo .bitwiseOr) ∧
    bitwiseXor S = performOp S .bitwiseXor (Number.apply fo .bitwiseXor) ∧
    bitwiseLeftShift S = performOp S .bitwiseShiftLeft (Number.apply fo .bitwiseShiftLeft) ∧
    bitwiseRightShift S = performOp S .bitwiseShiftRight (Number.apply fo .bitwiseShiftRight) :=
  ⟨rfl, rfl, rfl, rfl, rfl, rfl, rfl, rfl, rfl, rfl, rfl, rfl⟩

theorem C08_refine_handlers_unary :
    absoluteValue fo S = performUnaryOp S .absoluteValue (fun x => Number.apply fo .absoluteValue x x) ∧
    opposite fo S = performUnaryOp S .opposite (fun x => Number.apply fo .opposite x x) ∧
    bitwiseNot S = performUnaryOp S .bitwiseNot (fun x => Number.apply fo .bitwiseNot x x) :=
  ⟨rfl, rfl, rfl⟩

/-- `add` (one instance spelled out; the others are the same statement through `C08_refine_handlers_*`) -/
theorem C08_refine_add (L : StoreLaws S) {s : σ} {r l : Nat} {vr vl : Val F} {rest : List Nat}
    (hregs : S.regs s = r :: l :: rest) (hl : Decodes (S.view s) l vl) (hr : Decodes (S.view s) r vr) :
    ∃ o, binaryOp fo .add vl vr = some o ∧ RefinesOut S s (add fo S s) none rest l r o :=
  ⟨_, rfl, C08_refine_perform_op fo L .add .plus hregs hl hr⟩

/-- for every binary arithmetic / bitwise instruction `perform_op` at its number operation refines Abs/Ops
`binaryOp` -/
theorem C08_refine_binary_instruction (L : StoreLaws S) (op : Instruction) (nop : NumOp)
    (hop : numOpOf op = some nop) (hb : nop.isUnary = false)
    {s : σ} {r l : Nat} {vr vl : Val F} {rest : List Nat}
    (hregs : S.regs s = r :: l :: rest) (hl : Decodes (S.view s) l vl) (hr : Decodes (S.view s) r vr) :
    ∃ o, binaryOp fo op vl vr = some o ∧
      RefinesOut S s (performOp S op (Number.apply fo nop) s) none rest l r o := by
  refine ⟨arithBinary fo op nop vl vr, ?_, C08_refine_perform_op fo L op nop hregs hl hr⟩
  cases op <;> simp [numOpOf] at hop <;> subst hop <;> simp [NumOp.isUnary] at hb <;> rfl

/-- likewise the three unary instructions and `unaryOp` -/
theorem C08_refine_unary_instruction (L : StoreLaws S) (op : Instruction) (nop : NumOp)
    (hop : numOpOf op = some nop) (hb : nop.isUnary = true)
    {s : σ} {a : Nat} {v : Val F} {rest : List Nat}
    (hregs : S.regs s = a :: rest) (h : Decodes (S.view s) a v) :
    ∃ o, unaryOp fo op v = some o ∧
      RefinesOut S s (performUnaryOp S op (fun x => Number.apply fo nop x x) s) none rest a 0 o := by
  refine ⟨arithUnary fo op nop v, ?_, C08_refine_perform_unary_op fo L op nop hregs h⟩
  cases op <;> simp [numOpOf] at hop <;> subst hop <;> simp [NumOp.isUnary] at hb <;> rfl

/-- C09 at the handler: two numbers never reach the host; the register gets the number the operation returns,
or unit when it returns `None` -/
theorem C09_refine_numbers (L : StoreLaws S) (op : Instruction) (nop : NumOp)
    {s : σ} {r l : Nat} {a b : Number F} {rest : List Nat}
    (hregs : S.regs s = r :: l :: rest) (hl : Decodes (S.view s) l (.num a)) (hr : Decodes (S.view s) r (.num b)) :
    Pushed S s (performOp S op (Number.apply fo nop) s) none rest (numResult (Number.apply fo nop a b)) :=
  C08_refine_perform_op fo L op nop hregs hl hr

/-- "exactly once": after a deferred operation the host trace is the old trace plus this one call -/
theorem C08_refine_defer_once (L : StoreLaws S) {α : Type} {s0 : σ} {res : Outcome (α × σ)} {next : α}
    {op : Instruction} {lt rt : Ty × Nat} (h : DeferProtocol S s0 res next op lt rt)
    {x : α} {s' : σ} (hres : res = .ok (x, s')) : S.trace s' = .defer op lt rt :: S.trace s0 := by
  unfold DeferProtocol at h
  cases hd : S.deferOp op lt rt s0 with
  | ok p =>
    obtain ⟨b, s1⟩ := p
    rw [hd] at h
    have ht := L.deferOp op lt rt s0 b s1 hd
    cases b with
    | true =>
      simp only [] at h
      rw [h] at hres
      cases hres
      exact ht
    | false =>
      simp only [] at h
      obtain ⟨a, s2, h2, _, e2⟩ := h
      rw [h2] at hres
      cases hres
      rw [e2.trace, ht]
  | err e => rw [hd] at h; simp only [] at h; rw [h] at hres; cases hres
  | panic p => rw [hd] at h; simp only [] at h; rw [h] at hres; cases hres
  | fuelOut => rw [hd] at h; simp only [] at h; rw [h] at hres; cases hres

/-! ### non-vacuity -/

/-- `0: 5   1: 7   2: "a"` -/
def arithCells : List (RCell F) := [.num (.int 5), .num (.int 7), .chars [97]]

/-- `5 + 7` on the reference store: the theorem applies … -/
example : Pushed (refStore (fun _ => none)) (RefState.init (arithCells (F := F)) [1, 0, 9])
    (add fo (refStore (fun _ => none)) (RefState.init arithCells [1, 0, 9])) none [9]
    (numResult (Number.apply fo .plus (.int 5) (.int 7))) :=
  C08_refine_perform_op fo (refStore_laws _) .add .plus (vl := .num (.int 5)) (vr := .num (.int 7)) rfl
    (.num rfl rfl) (.num rfl rfl)

/-- … and the model run gives the new cell `12` at address 3 -/
example : ∃ s', add fo (refStore (fun _ => none)) (RefState.init (arithCells (F := F)) [1, 0, 9]) = .ok (none, s') ∧
    s'.regs = [3, 9] ∧ s'.cells = arithCells ++ [.num (.int 12)] ∧ s'.trace = [] := ⟨_, rfl, rfl, rfl, rfl⟩

/-- `5 + "a"` with a declining host: one `defer` call recorded, unit pushed -/
example : ∃ s', add fo (refStore (fun _ => none)) (RefState.init (arithCells (F := F)) [2, 0, 9]) = .ok (none, s') ∧
    s'.regs = [3, 9] ∧ s'.cells = arithCells ++ [.unit] ∧
    s'.trace = [.defer .add (.number, 0) (.charList, 2)] := ⟨_, rfl, rfl, rfl, rfl⟩

/-- with an accepting host (answers `true`): the host's value is on the registers, nothing pushed by the handler -/
example : ∃ s', add fo (refStore (fun _ => some .tru)) (RefState.init (arithCells (F := F)) [2, 0, 9]) = .ok (none, s') ∧
    s'.regs = [3, 9] ∧ s'.cells = arithCells ++ [.tru] ∧
    s'.trace = [.defer .add (.number, 0) (.charList, 2)] := ⟨_, rfl, rfl, rfl, rfl⟩

end Garnish.Props.RuntimeRefine
