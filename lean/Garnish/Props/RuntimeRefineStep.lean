/-
Runtime refinement, part 5 (C01 anchor): ONE STEP. runtime/src/execute.rs `execute_current_instruction`
(Model/Runtime/Execute.lean: fetch at the cursor, the `match instruction` in source order, `Some(next)` or `cursor + 1`,
end or `set_instruction_cursor`) simulates `Abs.Machine.step` for every instruction whose handler is transliterated.

`C01_refine_step`: let the address-level state `s` and the machine state `m` be related (`Sim`: cursor = pc, the
register and input-value stacks decode pointwise to the machine's, the frame chains correspond, the store holds the
program `P`), let the store's extension points answer as the value-level host does (`HostRefines`), and let the
instruction at the cursor satisfy its side condition (`StepOK`, Model/Runtime/StepDomain.lean). Then (`StepSim`):
  * every `Decodes` fact of `s` still holds afterwards (`DecKept`: in particular the program's constants stay loaded);
  * if the machine step is `running m'`, the address-level step returns `Running` in a state related to `m'`;
  * if it is `halted m'`, the address-level step returns `End` with data related to `m'` (the Rust does not move the
    cursor when it ends);
  * if the machine errs, nothing is claimed (the handlers' error theorems are in the other Props files).
COVERED (48 of 56 instructions): Invalid, Put, PutValue, PushValue, UpdateValue, StartSideEffect, EndSideEffect,
JumpTo, JumpIfTrue, JumpIfFalse, And, Or, EndExpression, Add … Remainder, Opposite, AbsoluteValue, BitwiseNot …
BitwiseShiftRight, Xor, Not, Tis, LessThan … GreaterThanOrEqual, MakePair, MakeList, Apply, PartialApply, EmptyApply,
Reapply, Access, Resolve, MakeRange … MakeExclusiveRange, Concat.
NOT COVERED (`StepOK` is `False`): TypeOf, ApplyType (casting.rs), TypeEqual, Equal, NotEqual (equality.rs is modelled
read-only over `StoreView` in Model/Equality.lean with `C11_equalInstr_refines`; it is not an `RM` handler, so it is a
parameter `OtherHandlers` of the dispatcher here), AccessLeftInternal, AccessRightInternal, AccessLengthInternal.
The host TRACE is not part of `Sim`; "exactly once" is `C08_refine_defer_once`, `C17_refine_resolve_once`,
`C17_refine_apply_once`.
-/
import Garnish.Lemmas.RuntimeStep8
import Garnish.Props.RuntimeRefineConcat
import Garnish.Lemmas.RuntimeRefStore
set_option linter.unusedSimpArgs false
set_option linter.unusedVariables false
namespace Garnish.Props.RuntimeRefine
open Garnish Gen Garnish.Abs Garnish.Model.Equality Garnish.Model.Runtime Garnish.Lemmas.Runtime

variable {F σ : Type} {S : RStore F σ} {P : Prog F} {host : Host F} (fo : FloatOps F)

/-- no instruction at the cursor: both sides end, nothing changes -/
theorem C01_refine_step_end (fuel : Nat) (H : OtherHandlers σ) {s : σ} {m : MState F} (hsim : Sim S P s m)
    (hfetch : P.instrs[m.pc]? = none) : StepSim fo host S P fuel H s m := by
  have hf : (RM.read (fun st => S.instruction st (S.cursor st)) : RM σ _) s = .ok (none, s) := by
    show Outcome.ok (S.instruction s (S.cursor s), s) = _
    rw [hsim.2.instrs, hsim.1, hfetch]
  have hstep : Abs.step fo host P m = .halted m := by unfold Abs.step; rw [hfetch]
  unfold StepSim
  rw [hstep]
  exact ⟨s, by rw [executeCurrentInstruction, bind_ok hf]; rfl, hsim.2, fun _ _ h => h⟩

/-- ONE STEP of the address-level runtime simulates one step of Abs/Machine -/
theorem C01_refine_step (L : StoreLaws S) (HR : HostRefines S host) (fuel : Nat) (H : OtherHandlers σ)
    {s : σ} {m : MState F} (hsim : Sim S P s m) {instr : Instruction} {operand : Option Nat}
    (hfetch : P.instrs[m.pc]? = some (instr, operand)) (hok : StepOK fo S P fuel s m instr operand) :
    StepSim fo host S P fuel H s m := by
  have arithB : ∀ nop : NumOp, numOpOf instr = some nop → nop.isUnary = false → StepSim fo host S P fuel H s m :=
    fun nop h1 h2 => total_binary fo fuel H s hfetch (arith_facts_binary (S := S) fo h1 h2 fuel H operand .unit .unit).1
      (fun v => (arith_facts_binary (S := S) fo h1 h2 fuel H operand .unit v).2.1)
      (fun vr vl rs hr => stepSim_arith_binary fo L HR fuel H hsim hfetch h1 h2 hr)
  have arithU : ∀ nop : NumOp, numOpOf instr = some nop → nop.isUnary = true → StepSim fo host S P fuel H s m :=
    fun nop h1 h2 => total_unary fo fuel H s hfetch (arith_facts_unary (S := S) fo h1 h2 fuel H operand .unit).1
      (fun v rs hr => stepSim_arith_unary fo L HR fuel H hsim hfetch h1 h2 hr)
  cases instr
  case invalid => exact stepSim_invalid fo L fuel H hsim hfetch
  case put => exact total_put fo L fuel H hsim hfetch hok
  case putValue => exact stepSim_putValue fo L fuel H hsim hfetch
  case pushValue => exact total_pushValue fo L fuel H hsim hfetch
  case updateValue => exact total_updateValue fo L fuel H hsim hfetch
  case jumpTo => exact total_jumpTo fo L fuel H hsim hfetch
  case endExpression => exact total_endExpression fo L fuel H hsim hfetch
  case add => exact arithB .plus rfl rfl
  case subtract => exact arithB .subtract rfl rfl
  case multiply => exact arithB .multiply rfl rfl
  case divide => exact arithB .divide rfl rfl
  case integerDivide => exact arithB .integerDivide rfl rfl
  case power => exact arithB .power rfl rfl
  case opposite => exact arithU .opposite rfl rfl
  case absoluteValue => exact arithU .absoluteValue rfl rfl
  case remainder => exact arithB .remainder rfl rfl
  case bitwiseNot => exact arithU .bitwiseNot rfl rfl
  case bitwiseAnd => exact arithB .bitwiseAnd rfl rfl
  case bitwiseOr => exact arithB .bitwiseOr rfl rfl
  case bitwiseXor => exact arithB .bitwiseXor rfl rfl
  case bitwiseShiftLeft => exact arithB .bitwiseShiftLeft rfl rfl
  case bitwiseShiftRight => exact arithB .bitwiseShiftRight rfl rfl
  case and => exact total_and fo L fuel H hsim hfetch
  case or => exact total_or fo L fuel H hsim hfetch
  case xor =>
    exact total_binary fo fuel H s hfetch rfl (fun _ => rfl)
      (fun vr vl rs hr => stepSim_xor fo L HR fuel H hsim hfetch hr)
  case not => exact total_unary fo fuel H s hfetch rfl (fun v rs hr => stepSim_not fo L HR fuel H hsim hfetch hr)
  case tis => exact total_unary fo fuel H s hfetch rfl (fun v rs hr => stepSim_tis fo L HR fuel H hsim hfetch hr)
  case jumpIfTrue => exact total_jumpIf fo L fuel H hsim true hfetch
  case jumpIfFalse => exact total_jumpIf fo L fuel H hsim false hfetch
  case typeOf => exact absurd hok id
  case applyType => exact absurd hok id
  case typeEqual => exact absurd hok id
  case equal => exact absurd hok id
  case notEqual => exact absurd hok id
  case lessThan =>
    exact total_binary fo fuel H s hfetch rfl (fun _ => rfl) (fun vr vl rs hr => by
      obtain ⟨h1, h2, h3, h4⟩ := hok vr vl rs hr
      exact stepSim_compare fo L HR fuel H hsim (Or.inl rfl) hfetch hr h1 h2 h3 h4)
  case lessThanOrEqual =>
    exact total_binary fo fuel H s hfetch rfl (fun _ => rfl) (fun vr vl rs hr => by
      obtain ⟨h1, h2, h3, h4⟩ := hok vr vl rs hr
      exact stepSim_compare fo L HR fuel H hsim (Or.inr (Or.inl rfl)) hfetch hr h1 h2 h3 h4)
  case greaterThan =>
    exact total_binary fo fuel H s hfetch rfl (fun _ => rfl) (fun vr vl rs hr => by
      obtain ⟨h1, h2, h3, h4⟩ := hok vr vl rs hr
      exact stepSim_compare fo L HR fuel H hsim (Or.inr (Or.inr (Or.inl rfl))) hfetch hr h1 h2 h3 h4)
  case greaterThanOrEqual =>
    exact total_binary fo fuel H s hfetch rfl (fun _ => rfl) (fun vr vl rs hr => by
      obtain ⟨h1, h2, h3, h4⟩ := hok vr vl rs hr
      exact stepSim_compare fo L HR fuel H hsim (Or.inr (Or.inr (Or.inr rfl))) hfetch hr h1 h2 h3 h4)
  case makePair => exact total_makePair fo L fuel H hsim hfetch
  case makeList => exact total_makeList fo L fuel H hsim hfetch
  case apply => exact total_apply fo L HR fuel H hsim hfetch hok
  case partialApply =>
    exact total_binary fo fuel H s hfetch rfl (fun _ => rfl)
      (fun vr vl rs hr => stepSim_partialApply fo L HR fuel H hsim hfetch hr)
  case emptyApply => exact total_emptyApply fo L HR fuel H hsim hfetch hok
  case reapply => exact total_reapply fo L fuel H hsim hfetch
  case access =>
    exact total_binary fo fuel H s hfetch rfl (fun _ => rfl)
      (fun vr vl rs hr => stepSim_access fo L HR fuel H hsim hfetch hr (hok vr vl rs hr))
  case accessLeftInternal => exact absurd hok id
  case accessRightInternal => exact absurd hok id
  case accessLengthInternal => exact absurd hok id
  case resolve => exact total_resolve fo L HR fuel H hsim hfetch hok
  case startSideEffect => exact stepSim_startSideEffect fo L fuel H hsim hfetch
  case endSideEffect => exact total_endSideEffect fo L fuel H hsim hfetch
  case makeRange =>
    exact total_binary fo fuel H s hfetch rfl (fun _ => rfl)
      (fun vr vl rs hr => stepSim_make_range fo L HR fuel H hsim false false rfl hfetch hr)
  case makeStartExclusiveRange =>
    exact total_binary fo fuel H s hfetch rfl (fun _ => rfl)
      (fun vr vl rs hr => stepSim_make_range fo L HR fuel H hsim true false rfl hfetch hr)
  case makeEndExclusiveRange =>
    exact total_binary fo fuel H s hfetch rfl (fun _ => rfl)
      (fun vr vl rs hr => stepSim_make_range fo L HR fuel H hsim false true rfl hfetch hr)
  case makeExclusiveRange =>
    exact total_binary fo fuel H s hfetch rfl (fun _ => rfl)
      (fun vr vl rs hr => stepSim_make_range fo L HR fuel H hsim true true rfl hfetch hr)
  case concat =>
    exact total_binary fo fuel H s hfetch rfl (fun _ => rfl)
      (fun vr vl rs hr => stepSim_concat fo L HR fuel H hsim hfetch hr)

/-! ### non-vacuity: the reference store, a declining host, the program `5 + 7` -/

/-- the reference store with the host that declines everything refines the value-level declining host -/
theorem refStore_hostRefines : HostRefines (refStore (fun _ => none : RefHost F)) Host.declining := by
  have ans : ∀ (c : HostCall) (st : RefState F),
      HostAnswer (refStore (fun _ => none : RefHost F)) (RefState.host (fun _ => none) c) st none :=
    fun c st => ⟨{ st with trace := c :: st.trace }, rfl, keeps_same _ rfl rfl rfl rfl rfl, rfl, rfl, rfl⟩
  exact ⟨fun op l r vl vr st _ _ => ans _ st, fun op a v st _ => ans _ st, fun y st => ans _ st,
    fun n r vr st _ => ans _ st⟩

/-- `Put 0; Put 1; Add` over the constants `5`, `7` -/
def stepProg : Prog F :=
  { instrs := #[(.put, some 0), (.put, some 1), (.add, none)], jumps := #[], consts := #[.num (.int 5), .num (.int 7)] }

def stepStore : RefState F :=
  { RefState.init [.num (.int 5), .num (.int 7)] [] with
    instrs := [(.put, some 0), (.put, some 1), (.add, none)], instrLen := 3 }

def stepMachine : MState F := { pc := 0, regs := [], vals := [], frames := [], trace := [] }

theorem stepSim0 : Sim (refStore (fun _ => none)) (stepProg (F := F)) stepStore stepMachine :=
  ⟨rfl, .nil, .nil, .nil, fun i => by simp [refStore, stepStore, stepProg], fun j => by simp [refStore, stepStore, stepProg, RefState.init],
    rfl⟩

def noHandlers : OtherHandlers (RefState F) :=
  ⟨RM.fail .unsupported, RM.fail .unsupported, RM.fail .unsupported, RM.fail .unsupported, RM.fail .unsupported,
    RM.fail .unsupported, RM.fail .unsupported, RM.fail .unsupported⟩

/-- the first step (`Put 0`): the hypotheses of `C01_refine_step` hold and it yields the step simulation -/
example : StepSim fo Host.declining (refStore (fun _ => none)) (stepProg (F := F)) 1 noHandlers stepStore
    stepMachine :=
  C01_refine_step fo (refStore_laws _) refStore_hostRefines 1 noHandlers stepSim0 (instr := .put) (operand := some 0)
    rfl (by
      intro k hk v hv
      cases hk
      have : v = .num (.int 5) := by simpa [stepProg] using hv.symm
      subst this
      exact ⟨by show 0 < 2; omega, .num rfl rfl⟩)

/-- three address-level steps of the same program, run by the kernel: `Running`, `Running`, `End`; one register
holding the address of the new cell `12`; the cursor stays at the last instruction -/
def threeSteps : Option (List RuntimeState × List Nat × Nat × Option Int) :=
  let exec := executeCurrentInstruction noFloats (refStore (fun _ => none)) 1 noHandlers
  match exec stepStore with
  | .ok (r1, s1) => match exec s1 with
    | .ok (r2, s2) => match exec s2 with
      | .ok (r3, s3) => some ([r1, r2, r3], s3.regs, s3.cursor,
          match (refView s3.cells).number 2 with | some (.int v) => some v | _ => none)
      | _ => none
    | _ => none
  | _ => none

example : threeSteps = some ([.running, .running, .end_], [2], 2, some 12) := by decide +kernel

end Garnish.Props.RuntimeRefine
