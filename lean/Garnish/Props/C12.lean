/-
C12 — ordering comparisons agree with the natural order.
-/
import Garnish.Abs.Machine
set_option linter.unusedSimpArgs false
namespace Garnish.Props.C12
open Garnish Gen Garnish.Abs

variable {F : Type} (fo : FloatOps F)

/-! ### lists: the loop-then-length routine is the lexicographic order, shorter prefix first -/

theorem cmpList_lt_iff (xs ys : List Nat) : cmpList xs ys = .lt ↔ xs < ys := by
  induction xs generalizing ys with
  | nil => cases ys <;> simp [cmpList]
  | cons x xs ih =>
    cases ys with
    | nil => simp [cmpList]
    | cons y ys =>
      simp only [cmpList, List.cons_lt_cons_iff]
      by_cases h1 : x < y
      · simp [h1]
      · by_cases h2 : x > y
        · have : x ≠ y := by omega
          simp [h1, h2, this]
        · have : x = y := by omega
          simp [h1, h2, this, ih]

theorem cmpList_eq_iff (xs ys : List Nat) : cmpList xs ys = .eq ↔ xs = ys := by
  induction xs generalizing ys with
  | nil => cases ys <;> simp [cmpList]
  | cons x xs ih =>
    cases ys with
    | nil => simp [cmpList]
    | cons y ys =>
      simp only [cmpList]
      by_cases h1 : x < y
      · have : x ≠ y := by omega
        simp [h1, this]
      · by_cases h2 : x > y
        · have : x ≠ y := by omega
          simp [h1, h2, this]
        · have : x = y := by omega
          simp [h1, h2, this, ih]

theorem cmpList_gt_iff (xs ys : List Nat) : cmpList xs ys = .gt ↔ ys < xs := by
  induction xs generalizing ys with
  | nil => cases ys <;> simp [cmpList]
  | cons x xs ih =>
    cases ys with
    | nil => simp [cmpList]
    | cons y ys =>
      simp only [cmpList, List.cons_lt_cons_iff]
      by_cases h1 : x < y
      · have : ¬ y < x := by omega
        have : y ≠ x := by omega
        simp_all
      · by_cases h2 : x > y
        · simp [h1, h2]
        · have : x = y := by omega
          subst this
          simp [ih]

/-- all four operators on two char lists (likewise byte lists) decide the lexicographic order of the
code points, the shorter prefix first -/
theorem C12_charList_order (a b : List Nat) :
    lessThan fo (.chars a) (.chars b) = Val.ofBool (decide (a < b)) ∧
    greaterThan fo (.chars a) (.chars b) = Val.ofBool (decide (b < a)) ∧
    lessThanOrEqual fo (.chars a) (.chars b) = Val.ofBool (!decide (b < a)) ∧
    greaterThanOrEqual fo (.chars a) (.chars b) = Val.ofBool (!decide (a < b)) := by
  have h1 := cmpList_lt_iff a b
  have h2 := cmpList_gt_iff a b
  simp only [lessThan, greaterThan, lessThanOrEqual, greaterThanOrEqual, cmpOp, compareVals]
  cases h : cmpList a b
  · have ha : a < b := h1.mp h
    have hb : ¬ b < a := fun hb => by rw [h2.mpr hb] at h; cases h
    simp [ha, hb] <;> (try constructor) <;> rfl
  · have ha : ¬ a < b := fun ha => by rw [h1.mpr ha] at h; cases h
    have hb : ¬ b < a := fun hb => by rw [h2.mpr hb] at h; cases h
    simp [ha, hb] <;> (try constructor) <;> rfl
  · have ha : ¬ a < b := fun ha => by rw [h1.mpr ha] at h; cases h
    have hb : b < a := h2.mp h
    simp [ha, hb] <;> (try constructor) <;> rfl

theorem C12_byteList_order (a b : List Nat) :
    lessThan fo (.bytes a) (.bytes b) = Val.ofBool (decide (a < b)) ∧
    greaterThan fo (.bytes a) (.bytes b) = Val.ofBool (decide (b < a)) ∧
    lessThanOrEqual fo (.bytes a) (.bytes b) = Val.ofBool (!decide (b < a)) ∧
    greaterThanOrEqual fo (.bytes a) (.bytes b) = Val.ofBool (!decide (a < b)) := by
  have h1 := cmpList_lt_iff a b
  have h2 := cmpList_gt_iff a b
  simp only [lessThan, greaterThan, lessThanOrEqual, greaterThanOrEqual, cmpOp, compareVals]
  cases h : cmpList a b
  · have ha : a < b := h1.mp h
    have hb : ¬ b < a := fun hb => by rw [h2.mpr hb] at h; cases h
    simp [ha, hb] <;> (try constructor) <;> rfl
  · have ha : ¬ a < b := fun ha => by rw [h1.mpr ha] at h; cases h
    have hb : ¬ b < a := fun hb => by rw [h2.mpr hb] at h; cases h
    simp [ha, hb] <;> (try constructor) <;> rfl
  · have ha : ¬ a < b := fun ha => by rw [h1.mpr ha] at h; cases h
    have hb : b < a := h2.mp h
    simp [ha, hb] <;> (try constructor) <;> rfl

/-! ### integers, characters, bytes: the natural order -/

theorem compare_int_cases (a b : Int) :
    (compare a b = .lt ↔ a < b) ∧ (compare a b = .eq ↔ a = b) ∧ (compare a b = .gt ↔ b < a) := by
  refine ⟨?_, ?_, ?_⟩
  · exact Int.compare_eq_lt
  · exact Int.compare_eq_eq
  · exact Int.compare_eq_gt

theorem C12_int_order (a b : Int) :
    lessThan fo (.num (.int a)) (.num (.int b)) = Val.ofBool (decide (a < b)) ∧
    greaterThan fo (.num (.int a)) (.num (.int b)) = Val.ofBool (decide (b < a)) ∧
    lessThanOrEqual fo (.num (.int a)) (.num (.int b)) = Val.ofBool (decide (a ≤ b)) ∧
    greaterThanOrEqual fo (.num (.int a)) (.num (.int b)) = Val.ofBool (decide (b ≤ a)) := by
  obtain ⟨h1, h2, h3⟩ := compare_int_cases a b
  simp only [lessThan, greaterThan, lessThanOrEqual, greaterThanOrEqual, cmpOp, compareVals, Number.partialCmp]
  cases h : compare a b
  · have := h1.mp h
    have e1 : decide (a < b) = true := by simp; omega
    have e2 : decide (b < a) = false := by simp; omega
    have e3 : decide (a ≤ b) = true := by simp; omega
    have e4 : decide (b ≤ a) = false := by simp; omega
    rw [e1, e2, e3, e4]; exact ⟨rfl, rfl, rfl, rfl⟩
  · have := h2.mp h
    have e1 : decide (a < b) = false := by simp; omega
    have e2 : decide (b < a) = false := by simp; omega
    have e3 : decide (a ≤ b) = true := by simp; omega
    have e4 : decide (b ≤ a) = true := by simp; omega
    rw [e1, e2, e3, e4]; exact ⟨rfl, rfl, rfl, rfl⟩
  · have := h3.mp h
    have e1 : decide (a < b) = false := by simp; omega
    have e2 : decide (b < a) = true := by simp; omega
    have e3 : decide (a ≤ b) = false := by simp; omega
    have e4 : decide (b ≤ a) = true := by simp; omega
    rw [e1, e2, e3, e4]; exact ⟨rfl, rfl, rfl, rfl⟩

theorem C12_char_order (a b : Nat) :
    lessThan fo (.char a) (.char b) = Val.ofBool (decide (a < b)) ∧
    greaterThan fo (.char a) (.char b) = Val.ofBool (decide (b < a)) ∧
    lessThanOrEqual fo (.char a) (.char b) = Val.ofBool (decide (a ≤ b)) ∧
    greaterThanOrEqual fo (.char a) (.char b) = Val.ofBool (decide (b ≤ a)) := by
  simp only [lessThan, greaterThan, lessThanOrEqual, greaterThanOrEqual, cmpOp, compareVals]
  have h1 := @Nat.compare_eq_lt a b
  have h2 := @Nat.compare_eq_eq a b
  have h3 := @Nat.compare_eq_gt a b
  cases h : compare a b
  · have := h1.mp h
    have e1 : decide (a < b) = true := by simp; omega
    have e2 : decide (b < a) = false := by simp; omega
    have e3 : decide (a ≤ b) = true := by simp; omega
    have e4 : decide (b ≤ a) = false := by simp; omega
    rw [e1, e2, e3, e4]; exact ⟨rfl, rfl, rfl, rfl⟩
  · have := h2.mp h
    have e1 : decide (a < b) = false := by simp; omega
    have e2 : decide (b < a) = false := by simp; omega
    have e3 : decide (a ≤ b) = true := by simp; omega
    have e4 : decide (b ≤ a) = true := by simp; omega
    rw [e1, e2, e3, e4]; exact ⟨rfl, rfl, rfl, rfl⟩
  · have := h3.mp h
    have e1 : decide (a < b) = false := by simp; omega
    have e2 : decide (b < a) = true := by simp; omega
    have e3 : decide (a ≤ b) = false := by simp; omega
    have e4 : decide (b ≤ a) = true := by simp; omega
    rw [e1, e2, e3, e4]; exact ⟨rfl, rfl, rfl, rfl⟩

theorem C12_byte_order (a b : Nat) :
    lessThan fo (.byte a) (.byte b) = Val.ofBool (decide (a < b)) ∧
    greaterThan fo (.byte a) (.byte b) = Val.ofBool (decide (b < a)) ∧
    lessThanOrEqual fo (.byte a) (.byte b) = Val.ofBool (decide (a ≤ b)) ∧
    greaterThanOrEqual fo (.byte a) (.byte b) = Val.ofBool (decide (b ≤ a)) := by
  simp only [lessThan, greaterThan, lessThanOrEqual, greaterThanOrEqual, cmpOp, compareVals]
  have h1 := @Nat.compare_eq_lt a b
  have h2 := @Nat.compare_eq_eq a b
  have h3 := @Nat.compare_eq_gt a b
  cases h : compare a b
  · have := h1.mp h
    have e1 : decide (a < b) = true := by simp; omega
    have e2 : decide (b < a) = false := by simp; omega
    have e3 : decide (a ≤ b) = true := by simp; omega
    have e4 : decide (b ≤ a) = false := by simp; omega
    rw [e1, e2, e3, e4]; exact ⟨rfl, rfl, rfl, rfl⟩
  · have := h2.mp h
    have e1 : decide (a < b) = false := by simp; omega
    have e2 : decide (b < a) = false := by simp; omega
    have e3 : decide (a ≤ b) = true := by simp; omega
    have e4 : decide (b ≤ a) = true := by simp; omega
    rw [e1, e2, e3, e4]; exact ⟨rfl, rfl, rfl, rfl⟩
  · have := h3.mp h
    have e1 : decide (a < b) = false := by simp; omega
    have e2 : decide (b < a) = true := by simp; omega
    have e3 : decide (a ≤ b) = false := by simp; omega
    have e4 : decide (b ≤ a) = true := by simp; omega
    rw [e1, e2, e3, e4]; exact ⟨rfl, rfl, rfl, rfl⟩

/-! ### the laws the property names, for every comparable pair -/

/-- on every ordered pair `<=` is the negation of `>` and `>=` the negation of `<` -/
theorem C12_le_is_not_gt (l r : Val F) (o : Ordering) (h : compareVals fo l r = .ord o) :
    (lessThanOrEqual fo l r = .tru ↔ greaterThan fo l r = .fls) ∧
    (lessThanOrEqual fo l r = .fls ↔ greaterThan fo l r = .tru) ∧
    (greaterThanOrEqual fo l r = .tru ↔ lessThan fo l r = .fls) ∧
    (greaterThanOrEqual fo l r = .fls ↔ lessThan fo l r = .tru) := by
  simp only [lessThan, greaterThan, lessThanOrEqual, greaterThanOrEqual, cmpOp, h]
  cases o <;> simp [Val.ofBool]

/-- exactly one of `<`, `==`-ordering, `>` holds on an ordered pair -/
theorem C12_trichotomy (l r : Val F) (o : Ordering) (h : compareVals fo l r = .ord o) :
    (lessThan fo l r = .tru ∧ greaterThan fo l r = .fls ∧ o = .lt) ∨
    (lessThan fo l r = .fls ∧ greaterThan fo l r = .fls ∧ o = .eq) ∨
    (lessThan fo l r = .fls ∧ greaterThan fo l r = .tru ∧ o = .gt) := by
  simp only [lessThan, greaterThan, cmpOp, h]
  cases o <;> simp [Val.ofBool]

/-- order laws of IEEE doubles the mixed comparisons rely on (a hypothesis, not an axiom) -/
structure FloatOrderLaws (fo : FloatOps F) : Prop where
  lt_asymm : ∀ a b, fo.flt a b = true → fo.flt b a = false
  lt_not_eq : ∀ a b, fo.flt a b = true → fo.feq a b = false
  eq_symm : ∀ a b, fo.feq a b = fo.feq b a
  lt_irrefl_of_eq : ∀ a b, fo.feq a b = true → fo.flt a b = false ∧ fo.flt b a = false

theorem partialCmp_swap (h : FloatOrderLaws fo) (a b : Number F) :
    Number.partialCmp fo a b = (Number.partialCmp fo b a).map Ordering.swap := by
  have key : ∀ x y : F,
      (if fo.flt x y then some Ordering.lt else if fo.feq x y then some .eq else if fo.flt y x then some .gt else none) =
      ((if fo.flt y x then some Ordering.lt else if fo.feq y x then some .eq else if fo.flt x y then some .gt else none).map
        Ordering.swap) := by
    intro x y
    by_cases h1 : fo.flt x y = true
    · have := h.lt_asymm x y h1
      have h3 := h.lt_not_eq x y h1
      have h4 : fo.feq y x = false := by rw [h.eq_symm]; exact h3
      simp [h1, this, h3, h4]
    · by_cases h2 : fo.feq x y = true
      · have ⟨h5, h6⟩ := h.lt_irrefl_of_eq x y h2
        have h4 : fo.feq y x = true := by rw [h.eq_symm]; exact h2
        simp [h5, h6, h2, h4]
      · have h4 : fo.feq y x = false := by rw [h.eq_symm]; simpa using h2
        by_cases h3 : fo.flt y x = true
        · simp [h1, h2, h3]
        · simp [h1, h2, h3, h4]
  cases a <;> cases b <;> simp only [Number.partialCmp]
  · rename_i x y
    obtain ⟨a1, a2, a3⟩ := compare_int_cases x y
    obtain ⟨b1, b2, b3⟩ := compare_int_cases y x
    cases h2 : compare y x
    · have : compare x y = .gt := a3.mpr (b1.mp h2)
      simp [this]
    · have : compare x y = .eq := a2.mpr (b2.mp h2).symm
      simp [this]
    · have : compare x y = .lt := a1.mpr (b3.mp h2)
      simp [this]
  all_goals exact key _ _

/-- numbers of either representation: `a < b` holds iff `b > a` (both are unit when a float operand is
not a number) -/
theorem C12_number_lt_gt_swap (h : FloatOrderLaws fo) (a b : Number F) :
    lessThan fo (.num a) (.num b) = greaterThan fo (.num b) (.num a) ∧
    lessThanOrEqual fo (.num a) (.num b) = greaterThanOrEqual fo (.num b) (.num a) := by
  simp only [lessThan, greaterThan, lessThanOrEqual, greaterThanOrEqual, cmpOp, compareVals]
  rw [partialCmp_swap fo h a b]
  cases Number.partialCmp fo b a with
  | none => exact ⟨rfl, rfl⟩
  | some o => cases o <;> exact ⟨rfl, rfl⟩

/-- on any combination of operands that is not two numbers, two characters, two bytes, two char lists
or two byte lists, all four operators yield false — never an error (two slices: `C12_slices_*` below) -/
theorem C12_foreign_false (l r : Val F)
    (h : ¬ (l.typeOf = r.typeOf ∧ (l.typeOf = .number ∨ l.typeOf = .char ∨ l.typeOf = .byte ∨
             l.typeOf = .charList ∨ l.typeOf = .byteList)))
    (hs : ¬ (l.typeOf = .slice ∧ r.typeOf = .slice)) :
    lessThan fo l r = .fls ∧ lessThanOrEqual fo l r = .fls ∧
    greaterThan fo l r = .fls ∧ greaterThanOrEqual fo l r = .fls := by
  have : compareVals fo l r = .foreign := by
    cases l <;> cases r <;> simp_all [compareVals, Val.typeOf]
  simp [lessThan, lessThanOrEqual, greaterThan, greaterThanOrEqual, cmpOp, this]

/-! ### two slices (the Slice/Slice arm of `perform_comparison`)

The code orders two slices of text, or two slices of bytes, by running `cmp_list` from the two START offsets to the end of the
underlying lists and breaking a tie by the FULL lengths of the underlying lists; the ends of the ranges do not take part. This is
what the code does, modelled as it is (`cmpListFrom`); it is NOT the order of the selected texts (a witness below), which is why
slices stay outside the order laws of this property. Slices over any other kind of value, and over two different kinds, are not
ordered: all four operators yield false. -/

/-- slices over different kinds of value (or over values that are neither text nor bytes) are not ordered -/
theorem C12_slices_foreign_false (lv lr rv rr : Val F)
    (h : ¬ (lv.typeOf = rv.typeOf ∧ (lv.typeOf = .charList ∨ lv.typeOf = .byteList))) :
    lessThan fo (.slice lv lr) (.slice rv rr) = .fls ∧ lessThanOrEqual fo (.slice lv lr) (.slice rv rr) = .fls ∧
    greaterThan fo (.slice lv lr) (.slice rv rr) = .fls ∧ greaterThanOrEqual fo (.slice lv lr) (.slice rv rr) = .fls := by
  have : compareVals fo (.slice lv lr) (.slice rv rr) = .foreign := by
    cases lv <;> cases rv <;> simp_all [compareVals, compareSlices, Val.typeOf]
  simp [lessThan, lessThanOrEqual, greaterThan, greaterThanOrEqual, cmpOp, this]

/-- two slices of text with integer ranges and non-negative starts: the answer is `cmp_list` from the start offsets, whatever
the ends are — and the four operators are then consistent with each other (`C12_le_is_not_gt`, `C12_trichotomy` apply) -/
theorem C12_slices_of_text (a b : List Nat) (s1 e1 s2 e2 : Int) (h1 : 0 ≤ s1) (h2 : 0 ≤ s2)
    (hl1 : InRange (e1 - s1) ∧ InRange (e1 - s1 + 1)) (hl2 : InRange (e2 - s2) ∧ InRange (e2 - s2 + 1)) :
    compareVals fo (.slice (.chars a) (.range (.num (.int s1)) (.num (.int e1))))
                   (.slice (.chars b) (.range (.num (.int s2)) (.num (.int e2)))) =
      .ord (cmpListFrom a b s1.toNat s2.toNat) := by
  simp [compareVals, compareSlices, sliceStart, h1, h2, hl1, hl2]

/-- the same slice against itself is "equal" under all four operators (`<=`, `>=` true; `<`, `>` false) -/
theorem cmpTail_self (xs : List Nat) (n : Nat) : cmpTail xs xs n n = .eq := by
  induction xs with
  | nil => simp [cmpTail]
  | cons x xs ih => simp [cmpTail, ih]

theorem C12_slice_self (a : List Nat) (i : Nat) : cmpListFrom a a i i = .eq := by
  simp [cmpListFrom, cmpTail_self]

/-- witness that the code's order on slices is not the order of the selected texts: `"abcd"` from 1 and `"bcd"` from 0 select
the same text to the end, yet the first is "greater" because the underlying list is longer -/
example : cmpListFrom [97, 98, 99, 100] [98, 99, 100] 1 0 = .gt := by decide
/-- two different selections of one text are told apart by their start offsets -/
example : cmpListFrom [97, 98, 99, 100, 101, 102] [97, 98, 99, 100, 101, 102] 0 1 = .lt := by decide

/-- a float operand that is not a number makes the comparison unit -/
theorem C12_unordered_unit (a b : Number F) (h : Number.partialCmp fo a b = none) :
    lessThan fo (.num a) (.num b) = .unit ∧ lessThanOrEqual fo (.num a) (.num b) = .unit ∧
    greaterThan fo (.num a) (.num b) = .unit ∧ greaterThanOrEqual fo (.num a) (.num b) = .unit := by
  simp [lessThan, lessThanOrEqual, greaterThan, greaterThanOrEqual, cmpOp, compareVals, h]

/-! ### non-vacuity -/
example : cmpList [97] [97, 98] = .lt ∧ cmpList [98] [97, 98] = .gt ∧ cmpList [] [] = .eq := by decide
example : ([97] : List Nat) < [97, 98] := by decide

end Garnish.Props.C12
