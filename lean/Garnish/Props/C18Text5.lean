/-
Property C18, TEXT level, part 5: the two rewrites that change the number of tokens, WITHOUT hypotheses about the
rewritten side at the level of the reference parser.

`NoTrim` (no Whitespace / Subexpression token at either end — what `trim_tokens` leaves, and the precondition of the
reference-tree invariances) of the ORIGINAL token list implies it for the rewritten list: the inserted tokens are in the
interior (`Spec.noTrim_insert`), because after the operator token the rest of the text still produces a token
(`C13_lossless`), resp. because the split whitespace token has neighbours on both sides (`Spec.noTrim_sides`).
  C18_text_padOperator_refParse'   a blank after an `opLikeBefore` operator: same reference tree up to positions
  C18_text_annotation_refParse'    `@name` inside a run of blanks (Whitespace token): same reference tree up to positions
The elaborated PROGRAM is the same (`C18_text_padOperator_elaborate`, `C18_text_annotation_elaborate`): the two reference
trees are equal after erasing positions (parser-agent), their in-order walks are the significant token positions
(`refParse_inorder`), and those shift by one behind an inserted filler token (`Spec.significant_insert`) — so one tree is a
relabelling of the other (`relabel_of_erase_sig`), and the elaboration of a relabelled tree reads the same texts and names
the nested expressions by the same ranks (`go_relabel`, `elaborate_relabel`: the elaboration does not depend on the stored
positions). Result level (`C18_text_padOperator_result'`, `C18_text_annotation_result'`): both texts are built into objects
on which the machine halts with the same value and trace; the ONLY hypothesis about the rewritten text is fragment membership.
Fragment membership (`frag9` / `frag9'`) of the rewritten list is NOT derived: the fragment is decided by a recogniser (`fragF`,
`parseG`) for which only soundness is proved, so closure under inserting a trivia token is not available; the theorems on
the real parser (Props/C18Text4.lean) keep that hypothesis.
-/
import Garnish.Lemmas.LexRewrite5
import Garnish.Lemmas.LexRewrite5Sig
import Garnish.Lemmas.LexRewrite5Elab2
import Garnish.Props.C13
set_option linter.unusedVariables false
namespace Garnish.Props.C18Text5
open Garnish Garnish.Gen Garnish.Spec Garnish.Model Garnish.Model.Lexer Garnish.Model.Parser
open Garnish.Abs Garnish.Abs.Source Garnish.Props.C02Parse Garnish.Props.C18Parse Garnish.Props.C18Text
open Garnish.Props.C18Text4 Garnish.Props.C13

theorem toP_split (A : List LexerToken) (x : LexerToken) (B : List LexerToken) :
    toP (A ++ x :: B) = toP A ++ toPFrom (0 + A.length) (x :: B) := by
  rw [toP, toPFrom_append]; rfl

theorem toPFrom_ne_nil {k : Nat} {B : List LexerToken} (h : B ≠ []) : toPFrom k B ≠ [] := by
  cases B with
  | nil => exact absurd rfl h
  | cons x r => simp [toPFrom]

/-- the padded text: explicit form of the token lists, and the rest after the operator token is not empty -/
theorem C18_text_padOperator_lex' (cc : CharClass) (hcc : cc.SaneBlank) (hcc2 : cc.Sane2) (s s' : List Char)
    (toks : List LexerToken) (t : LexerToken) (h : TextPadOperatorAt cc s s' toks t) (T : List LexerToken)
    (hl : lex cc s = .ok T) :
    ∃ T' w B B', lex cc s' = .ok T' ∧ T = toks ++ t :: B ∧ T' = toks ++ t :: w :: B' ∧ w.tokenType = .whitespace ∧
      SameTT B B' ∧ B ≠ [] := by
  obtain ⟨p, d, b, c, hc, rfl, rfl, σ, hrun, hok, hst, hty, hch, hrow, hcol, htab, hbf, hw, d1, d2, d3⟩ := h
  have hdb : ¬ IsBlank d := fun hb => by rcases hb with hb | hb; exact d1 hb; exact d2 hb
  have key := lexFull_padOperator cc hcc hcc2 p c d b hc σ toks t.tokenType hrun hok hst hty (by rw [hch]; exact htab) hbf
    (by rw [hch]; exact hw) hdb d3
  rw [hch, hrow, hcol] at key
  obtain ⟨T', rest, rest', h1, h2, h3, h4⟩ := (outSameExt_lex key).1 T hl
  refine ⟨T', ⟨[c], .whitespace, σ.textRow, σ.textColumn⟩, rest, rest', h1, by rw [h2]; simp, by rw [h3]; simp, rfl, h4, ?_⟩
  -- the text of `p` is the text of `toks ++ [t]`, so the rest spells `d :: b`
  obtain ⟨hcr, hinv, hat, htr⟩ := run_facts cc hcc2 p σ toks hrun hok
  have hA : At σ .operator (some t.tokenType) t.text (t.row, t.column) (σ.textRow, σ.textColumn)
      σ.startQuoteCount σ.endQuoteCount false := ⟨hst, hty, hch, hrow, hcol, rfl, rfl, hcr, hok, htr, hat, rfl, rfl⟩
  obtain ⟨σ'', he⟩ := tail_end cc hcc.toSane 2 σ toks hA
    (ending_plain cc hcc .operator t.tokenType _ (Or.inr (Or.inr (Or.inr (Or.inr rfl)))) (by decide)) (by decide)
    (tableNoIdentifier _ htab)
  have hlp : lex cc p = .ok (toks ++ [t]) := by
    apply lex_of_lexFull_eq (σ := σ'')
    rw [lexFull_eq_lexEnd cc p σ toks hrun]
    exact he
  have e1 := C13_lossless cc hcc2 _ _ hlp
  have e2 := C13_lossless cc hcc2 _ _ hl
  intro hr
  rw [h2, hr, List.append_nil, e1] at e2
  have := congrArg List.length e2
  simp at this

/-- **a blank after an operator token, every input**: hypotheses on the ORIGINAL text only — it lexes, its tokens have no
trivia at the ends; then the padded text lexes, its tokens have no trivia at the ends, and the reference parser returns
the same tree up to token positions -/
theorem C18_text_padOperator_refParse' (cc : CharClass) (hcc : cc.SaneBlank) (hcc2 : cc.Sane2) (s s' : List Char)
    (toks : List LexerToken) (t : LexerToken) (h : TextPadOperatorAt cc s s' toks t)
    (hop : opLikeBefore { text := t.text, type := t.tokenType, row := 0, col := 0 } = true)
    (T : List LexerToken) (hl : lex cc s = .ok T) (hn : NoTrim (toP T)) :
    ∃ T', lex cc s' = .ok T' ∧ NoTrim (toP T') ∧
      OutcomeEq TreeEqTrivia (refParse Table.gen (toP T)) (refParse Table.gen (toP T')) := by
  obtain ⟨T', w, B, B', hl', e1, e2, hw, hs, hB⟩ := C18_text_padOperator_lex' cc hcc hcc2 s s' toks t h T hl
  have hadd : AddSpace (toP T) (toP T') :=
    C18_text_padOperator_tokens t T T' ⟨toks, w, B, B', e1, e2, hw, hs⟩ hop
  have hn' : NoTrim (toP T') := by
    have e3 : toP T = toP (toks ++ [t]) ++ toPFrom (0 + (toks ++ [t]).length) B := by
      rw [e1, show toks ++ t :: B = (toks ++ [t]) ++ B by simp, toP, toPFrom_append]; rfl
    rw [e3] at hn
    have hmid := noTrim_insert _ _ { text := w.text, type := w.tokenType, row := 0, col := 0 }
      (by simp [toP, toPFrom_append, toPFrom]) (toPFrom_ne_nil hB) hn
    refine hmid.types ?_
    unfold SameTypes
    rw [e2]
    simp only [toP, List.map_append, List.map_cons, toPFrom_types, sameTT_types hs]
    simp
  exact ⟨T', hl', hn', C18_refParse_addSpace hadd hn hn'⟩

/-- `C18Text4.C18_text_annotation_tokens` with the intermediate list named -/
theorem annotation_tokens_explicit (A rest rest' : List LexerToken) (W W1 ann W2 : LexerToken)
    (hW1 : W1.tokenType = .whitespace) (hann : ann.tokenType = .annotation) (hW2 : W2.tokenType = W.tokenType)
    (hWs : W.tokenType = .whitespace) (hs : SameTT rest rest') :
    AddSpace (toP (A ++ W :: rest)) (toP (A ++ W1 :: W :: rest)) ∧
    AddAnnotation (toP (A ++ W1 :: W :: rest)) (toP (A ++ W1 :: ann :: W2 :: rest')) := by
  constructor
  · refine ⟨toP A ++ { text := W1.text, type := W1.tokenType, row := 0, col := 0 } ::
        ([] ++ { text := W.text, type := W.tokenType, row := 0, col := 0 + A.length } :: toPFrom (0 + A.length + 1) rest), ?_, ?_⟩
    · have e : toP (A ++ W :: rest) = toP A ++
          ([] ++ { text := W.text, type := W.tokenType, row := 0, col := 0 + A.length } :: toPFrom (0 + A.length + 1) rest) := by
        simp only [toP, toPFrom_append, toPFrom, List.nil_append]
      rw [e]
      exact AddSpace0.before _ [] _ _ _ (by simp [isWsTok, hW1]) (Or.inl (by simp [isWsTok, hWs]))
        (fun a ha => by cases ha)
    · unfold SameTypes
      simp only [toP, List.map_append, List.map_cons, toPFrom_types, List.nil_append]
  · have e : toP (A ++ W1 :: W :: rest) = toP (A ++ [W1]) ++ toPFrom (0 + (A ++ [W1]).length) (W :: rest) := by
      have : A ++ W1 :: W :: rest = (A ++ [W1]) ++ (W :: rest) := by simp
      rw [this, toP, toPFrom_append]; rfl
    rw [e]
    refine ⟨_, AddAnnotation0.mk _ _ { text := ann.text, type := ann.tokenType, row := 0, col := 0 }
      (by simp [isAnnTok, hann]), ?_⟩
    unfold SameTypes
    simp only [toP, List.map_append, List.map_cons, toPFrom_types, List.map_nil, hW2, sameTT_types hs]
    simp

/-- **an annotation inside a run of blanks, every input**: hypotheses on the ORIGINAL text only (it lexes, no trivia at
the ends of its token list; the run is a Whitespace token) -/
theorem C18_text_annotation_refParse' (cc : CharClass) (hcc : cc.SaneBlank) (hcc2 : cc.Sane2) (hat : cc.SaneAt)
    (s s' : List Char) (T : List LexerToken) (hl : lex cc s = .ok T) (h : TextAnnotation cc s s') (hn : NoTrim (toP T)) :
    ∃ T' W, lex cc s' = .ok T' ∧ AnnInserted W T T' ∧ (W.tokenType = .whitespace → NoTrim (toP T') ∧
      OutcomeEq TreeEqTrivia (refParse Table.gen (toP T)) (refParse Table.gen (toP T'))) := by
  obtain ⟨T', W, hl', hins⟩ := C18_text_annotation_lex cc hcc hcc2 hat s s' T hl h
  refine ⟨T', W, hl', hins, fun hWs => ?_⟩
  obtain ⟨A, rest, W1, ann, W2, rest', e1, e2, hW1, hann, hW2, _, _, hs⟩ := hins
  subst e1 e2
  obtain ⟨h1, h2⟩ := annotation_tokens_explicit A rest rest' W W1 ann W2 hW1 hann hW2 hWs hs
  -- the whitespace token has neighbours on both sides
  have e3 : toP (A ++ W :: rest) = toP A ++ { text := W.text, type := W.tokenType, row := 0, col := 0 + A.length } ::
      toPFrom (0 + A.length + 1) rest := by rw [toP_split]; rfl
  have hn0 := hn
  rw [e3] at hn
  obtain ⟨hA, hR⟩ := noTrim_sides _ _ _ (by simp [isTrimmable, hWs]) hn
  -- insert the two tokens
  have hm1 := noTrim_insert (toP A) _ { text := W1.text, type := W1.tokenType, row := 0, col := 0 } hA (by simp) hn
  have hm2 := noTrim_insert (toP A ++ [{ text := W1.text, type := W1.tokenType, row := 0, col := 0 }])
    ({ text := W.text, type := W.tokenType, row := 0, col := 0 + A.length } :: toPFrom (0 + A.length + 1) rest)
    { text := ann.text, type := ann.tokenType, row := 0, col := 0 } (by simp) (by simp) (by simpa using hm1)
  have hnX : NoTrim (toP (A ++ W1 :: W :: rest)) := by
    refine hm1.types ?_
    unfold SameTypes
    simp only [toP, toPFrom_append, toPFrom, List.map_append, List.map_cons, toPFrom_types]
  have hnT' : NoTrim (toP (A ++ W1 :: ann :: W2 :: rest')) := by
    refine hm2.types ?_
    unfold SameTypes
    simp only [toP, toPFrom_append, toPFrom, List.map_append, List.map_cons, toPFrom_types, List.map_nil, hW2,
      sameTT_types hs]
    simp
  exact ⟨hnT', outcomeEq_of_mapT ((refParse_addSpace h1 hn0 hnX).trans (refParse_addAnnotation h2 hnX hnT'))⟩

/-! ### the elaborated program is the same (positions shift, texts stay) -/

/-- text of token `i` of a lexer token list -/
def textL (l : List LexerToken) (i : Nat) : List Char := ((l[i]?).map (·.text)).getD []

theorem toPFrom_getElem? : ∀ (l : List LexerToken) (k i : Nat),
    (toPFrom k l)[i]? = (l[i]?).map (fun t => { text := t.text, type := t.tokenType, row := 0, col := k + i })
  | [], _, _ => by simp [toPFrom]
  | x :: l, k, 0 => by simp [toPFrom]
  | x :: l, k, i + 1 => by
    simp only [toPFrom, List.getElem?_cons_succ, toPFrom_getElem? l (k + 1) i]
    congr 1; funext t; congr 1; omega

theorem textAt_toP (l : List LexerToken) (i : Nat) : textAt (toP l) i = textL l i := by
  unfold textAt textL toP
  rw [toPFrom_getElem?]
  cases l[i]? <;> rfl

theorem textL_append_left {A X : List LexerToken} {i : Nat} (h : i < A.length) : textL (A ++ X) i = textL A i := by
  unfold textL; rw [List.getElem?_append_left h]

theorem textL_append_right (A X : List LexerToken) (j : Nat) : textL (A ++ X) (A.length + j) = textL X j := by
  unfold textL; rw [List.getElem?_append_right (by omega)]; simp

theorem textL_sameTT {B B' : List LexerToken} (h : SameTT B B') (j : Nat) : textL B j = textL B' j := by
  have := congrArg (fun l => (l[j]?).map Prod.snd) h
  simp only [List.getElem?_map, Option.map_map] at this
  unfold textL
  simp only [Function.comp_def] at this
  rw [this]

/-- from the correspondence of the significant positions and of the texts to the same program -/
theorem elaborate_of_sig {F : Type} (pf : List Char → Option F) (P P' : List PToken) (f : Nat → Nat)
    (hf : ∀ x y, f x = f y → x = y) (rt rt' : RTree) (href : refParse Table.gen P = .ok rt)
    (href' : refParse Table.gen P' = .ok rt') (herase : rt.eraseTok = rt'.eraseTok)
    (hsig : significant P' = (significant P).map f)
    (htext : ∀ d k, (d, k) ∈ nodeDefs rt → readsText d = true → textAt P' (f k) = textAt P k) :
    elaborate pf P' rt' = elaborate pf P rt :=
  elaborate_relabel pf P P' f rt rt' hf
    (relabel_of_erase_sig f rt rt' herase (by rw [refParse_inorder _ _ href', refParse_inorder _ _ href, hsig])) htext

/-- **a blank after an operator token: the same program** -/
theorem C18_text_padOperator_elaborate {F : Type} (pf : List Char → Option F) (toks B B' : List LexerToken)
    (t w : LexerToken) (hw : w.tokenType = .whitespace) (hs : SameTT B B') (rt rt' : RTree)
    (href : refParse Table.gen (toP (toks ++ t :: B)) = .ok rt)
    (href' : refParse Table.gen (toP (toks ++ t :: w :: B')) = .ok rt') (herase : rt.eraseTok = rt'.eraseTok)
    (hn : NoTrim (toP (toks ++ t :: B))) (hn' : NoTrim (toP (toks ++ t :: w :: B'))) :
    elaborate pf (toP (toks ++ t :: w :: B')) rt' = elaborate pf (toP (toks ++ t :: B)) rt := by
  have eL : toks ++ t :: B = (toks ++ [t]) ++ B := by simp
  have eL' : toks ++ t :: w :: B' = (toks ++ [t]) ++ w :: B' := by simp
  refine elaborate_of_sig pf _ _ (shiftAt (toks ++ [t]).length) (shiftAt_inj _) rt rt' href href' herase ?_ ?_
  · -- significant positions
    have e3 : toP (toks ++ t :: B) = toP (toks ++ [t]) ++ toPFrom (0 + (toks ++ [t]).length) B := by
      rw [eL, toP, toPFrom_append]; rfl
    have hty : SameTypes (toP (toks ++ [t]) ++ { text := w.text, type := w.tokenType, row := 0, col := 0 } ::
        toPFrom (0 + (toks ++ [t]).length) B) (toP (toks ++ t :: w :: B')) := by
      unfold SameTypes
      rw [eL']
      simp only [toP, List.map_append, List.map_cons, toPFrom_types, sameTT_types hs]
    have hnm := hn'.types hty.symm
    rw [significant_types hty hnm, e3]
    rw [e3] at hn
    have := significant_insert _ _ _ (by simp [isFiller, hw]) hn hnm
    rw [this]
    simp [toP, toPFrom_types, ← List.length_map (f := fun (x : PToken) => x.type)]
  · intro d k _ _
    rw [textAt_toP, textAt_toP, eL, eL']
    unfold shiftAt
    by_cases hk : k < (toks ++ [t]).length
    · rw [if_pos hk, textL_append_left hk, textL_append_left hk]
    · rw [if_neg hk]
      obtain ⟨j, rfl⟩ : ∃ j, k = (toks ++ [t]).length + j := ⟨k - (toks ++ [t]).length, by omega⟩
      rw [Nat.add_assoc, textL_append_right, textL_append_right]
      show textL B' j = textL B j
      exact (textL_sameTT hs j).symm

theorem toP_length (l : List LexerToken) : (toP l).length = l.length := by
  have := congrArg List.length (toPFrom_types 0 l)
  simpa [toP] using this

theorem textL_cons_succ (x : LexerToken) (l : List LexerToken) (j : Nat) : textL (x :: l) (j + 1) = textL l j := by
  unfold textL; simp

/-- **an annotation inside a run of blanks: the same program** -/
theorem C18_text_annotation_elaborate {F : Type} (pf : List Char → Option F) (A rest rest' : List LexerToken)
    (W W1 ann W2 : LexerToken) (hW1 : W1.tokenType = .whitespace) (hann : ann.tokenType = .annotation)
    (hW2 : W2.tokenType = W.tokenType) (hWs : W.tokenType = .whitespace) (hs : SameTT rest rest') (rt rt' : RTree)
    (href : refParse Table.gen (toP (A ++ W :: rest)) = .ok rt)
    (href' : refParse Table.gen (toP (A ++ W1 :: ann :: W2 :: rest')) = .ok rt') (herase : rt.eraseTok = rt'.eraseTok)
    (hn : NoTrim (toP (A ++ W :: rest))) :
    elaborate pf (toP (A ++ W1 :: ann :: W2 :: rest')) rt' = elaborate pf (toP (A ++ W :: rest)) rt := by
  have e3 : toP (A ++ W :: rest) = toP A ++ { text := W.text, type := W.tokenType, row := 0, col := 0 + A.length } ::
      toPFrom (0 + A.length + 1) rest := by rw [toP_split]; rfl
  have hn0 := hn
  rw [e3] at hn
  obtain ⟨hA, hR⟩ := noTrim_sides _ _ _ (by simp [isTrimmable, hWs]) hn
  have hm1 := noTrim_insert (toP A) _ { text := W1.text, type := W1.tokenType, row := 0, col := 0 } hA (by simp) hn
  have hm2 := noTrim_insert (toP A ++ [{ text := W1.text, type := W1.tokenType, row := 0, col := 0 }])
    ({ text := W.text, type := W.tokenType, row := 0, col := 0 + A.length } :: toPFrom (0 + A.length + 1) rest)
    { text := ann.text, type := ann.tokenType, row := 0, col := 0 } (by simp) (by simp) (by simpa using hm1)
  have hty : SameTypes ((toP A ++ [{ text := W1.text, type := W1.tokenType, row := 0, col := 0 }]) ++
      { text := ann.text, type := ann.tokenType, row := 0, col := 0 } ::
        ({ text := W.text, type := W.tokenType, row := 0, col := 0 + A.length } :: toPFrom (0 + A.length + 1) rest))
      (toP (A ++ W1 :: ann :: W2 :: rest')) := by
    unfold SameTypes
    simp only [toP, toPFrom_append, toPFrom, List.map_append, List.map_cons, toPFrom_types, List.map_nil, hW2,
      sameTT_types hs]
    simp
  refine elaborate_of_sig pf _ _ (fun k => shiftAt (A.length + 1) (shiftAt A.length k))
    (fun x y h => shiftAt_inj _ _ _ (shiftAt_inj _ _ _ h)) rt rt' href href' herase ?_ ?_
  · rw [significant_types hty hm2,
      significant_insert _ _ _ (by simp [isFiller, hann]) (by simpa using hm1) hm2,
      show (toP A ++ [{ text := W1.text, type := W1.tokenType, row := 0, col := 0 }]) ++
          ({ text := W.text, type := W.tokenType, row := 0, col := 0 + A.length } :: toPFrom (0 + A.length + 1) rest) =
        toP A ++ { text := W1.text, type := W1.tokenType, row := 0, col := 0 } ::
          ({ text := W.text, type := W.tokenType, row := 0, col := 0 + A.length } :: toPFrom (0 + A.length + 1) rest) by simp,
      significant_insert _ _ _ (by simp [isFiller, hW1]) hn hm1, e3]
    simp [toP_length, List.map_map, Function.comp_def]
  · intro d k hm hr
    have hkm : k ≠ A.length := by
      intro e
      have hg : (toP (A ++ W :: rest))[k]? = some { text := W.text, type := W.tokenType, row := 0, col := 0 + A.length } := by
        rw [e3, e, ← toP_length A, List.getElem?_append_right (Nat.le_refl _)]; simp
      exact (refParse_text_nodes _ rt href d k hm hr _ hg).1 hWs
    rw [textAt_toP, textAt_toP]
    unfold shiftAt
    by_cases hk : k < A.length
    · rw [if_pos hk, if_pos (by omega), textL_append_left hk, textL_append_left hk]
    · obtain ⟨j, rfl⟩ : ∃ j, k = A.length + (j + 1) := ⟨k - A.length - 1, by omega⟩
      rw [if_neg hk, if_neg (by omega), show A.length + (j + 1) + 1 + 1 = A.length + (j + 1 + 1 + 1) by omega,
        textL_append_right, textL_append_right, textL_cons_succ, textL_cons_succ, textL_cons_succ, textL_cons_succ]
      exact (textL_sameTT hs j).symm

/-! ### result level: hypotheses about the rewritten text reduced to fragment membership -/

theorem ok_of_outcomeEq {rt : RTree} {o : Outcome RTree} (h : OutcomeEq TreeEqTrivia (.ok rt) o) :
    ∃ rt', o = .ok rt' ∧ rt.eraseTok = rt'.eraseTok := by
  cases o with
  | ok rt' => exact ⟨rt', rfl, h⟩
  | err e => exact h.elim
  | panic m => exact h.elim
  | fuelOut => exact h.elim

open Garnish.Abs.Tree Garnish.Model.Literals Garnish.Model.Build Garnish.Props.C01Build Garnish.Props.C01Source
open Garnish.Props.C02Numbered

/-- **a blank after an operator token, result**: the padded text is built into an object on which the machine halts with
the same value and trace. The only hypothesis about the padded text: its token list is in the fragment of `C01_text_correct` -/
theorem C18_text_padOperator_result' {F : Type} (pf : List Char → Option F) (cc : CharClass) (hcc : cc.SaneBlank)
    (hcc2 : cc.Sane2) (fo : FloatOps F) (host : Host F) (s s' : List Char) (toks : List LexerToken) (t : LexerToken)
    (h : TextPadOperatorAt cc s s' toks t)
    (hop : opLikeBefore { text := t.text, type := t.tokenType, row := 0, col := 0 } = true)
    (T : List LexerToken) (hl : lex cc s = .ok T) (hf : frag9' (toP T) = true)
    (rt : RTree) (href : refParse Table.gen (toP T) = .ok rt) (p : Program F) (hel : elaborate pf (toP T) rt = some p)
    (hwf : C01.WFProgram p) (input : Val F) (fuel : Nat) (v : Val F) (st : St F)
    (he : evalProgram fo host fuel p input = .ok (v, st))
    (hf' : ∀ T', lex cc s' = .ok T' → frag9' (toP T') = true) :
    ∀ src ∈ [s, s'], ∃ d entry, C01Text.buildText pf cc src = .ok (d, entry) ∧
      ∃ n m, run fo host (progOf d) n
          { pc := (progOf d).jumps[entry]?.getD 0, regs := [], vals := [input], frames := [], trace := [] } = (.halted m, n) ∧
        m.vals = [v] ∧ m.regs = [] ∧ m.frames = [] ∧ m.trace = st.trace := by
  have hn : NoTrim (toP T) := frag9_noTrim (frag9'_sub hf)
  obtain ⟨T', w, B, B', hl', e1, e2, hw, hs, hB⟩ := C18_text_padOperator_lex' cc hcc hcc2 s s' toks t h T hl
  obtain ⟨T'', hl'', hn', heq⟩ := C18_text_padOperator_refParse' cc hcc hcc2 s s' toks t h hop T hl hn
  rw [hl'] at hl''
  cases hl''
  rw [href] at heq
  obtain ⟨rt', href', herase⟩ := ok_of_outcomeEq heq
  subst e1 e2
  have hel' : elaborate pf (toP (toks ++ t :: w :: B')) rt' = some p := by
    rw [C18_text_padOperator_elaborate pf toks B B' t w hw hs rt rt' href href' herase hn hn']; exact hel
  intro src hsrc
  simp only [List.mem_cons, List.not_mem_nil, or_false] at hsrc
  rcases hsrc with rfl | rfl
  · exact C01Text.C01_text_correct pf cc fo host _ _ hl hf rt href p hel hwf input fuel v st he
  · exact C01Text.C01_text_correct pf cc fo host _ _ hl' (hf' _ hl') rt' href' p hel' hwf input fuel v st he

/-- **an annotation inside a run of blanks, result** (the run is a Whitespace token) -/
theorem C18_text_annotation_result' {F : Type} (pf : List Char → Option F) (cc : CharClass) (hcc : cc.SaneBlank)
    (hcc2 : cc.Sane2) (hat : cc.SaneAt) (fo : FloatOps F) (host : Host F) (s s' : List Char) (T : List LexerToken)
    (hl : lex cc s = .ok T) (h : TextAnnotation cc s s') (hf : frag9' (toP T) = true)
    (hWs : ∀ T' W, lex cc s' = .ok T' → AnnInserted W T T' → W.tokenType = .whitespace)
    (rt : RTree) (href : refParse Table.gen (toP T) = .ok rt) (p : Program F) (hel : elaborate pf (toP T) rt = some p)
    (hwf : C01.WFProgram p) (input : Val F) (fuel : Nat) (v : Val F) (st : St F)
    (he : evalProgram fo host fuel p input = .ok (v, st))
    (hf' : ∀ T', lex cc s' = .ok T' → frag9' (toP T') = true) :
    ∀ src ∈ [s, s'], ∃ d entry, C01Text.buildText pf cc src = .ok (d, entry) ∧
      ∃ n m, run fo host (progOf d) n
          { pc := (progOf d).jumps[entry]?.getD 0, regs := [], vals := [input], frames := [], trace := [] } = (.halted m, n) ∧
        m.vals = [v] ∧ m.regs = [] ∧ m.frames = [] ∧ m.trace = st.trace := by
  have hn : NoTrim (toP T) := frag9_noTrim (frag9'_sub hf)
  obtain ⟨T', W, hl', hins, hrest⟩ := C18_text_annotation_refParse' cc hcc hcc2 hat s s' T hl h hn
  have hW := hWs T' W hl' hins
  obtain ⟨hn', heq⟩ := hrest hW
  rw [href] at heq
  obtain ⟨rt', href', herase⟩ := ok_of_outcomeEq heq
  obtain ⟨A, rest, W1, ann, W2, rest', e1, e2, hW1, hann, hW2, _, _, hs⟩ := hins
  subst e1 e2
  have hel' : elaborate pf (toP (A ++ W1 :: ann :: W2 :: rest')) rt' = some p := by
    rw [C18_text_annotation_elaborate pf A rest rest' W W1 ann W2 hW1 hann hW2 hW hs rt rt' href href' herase hn]
    exact hel
  intro src hsrc
  simp only [List.mem_cons, List.not_mem_nil, or_false] at hsrc
  rcases hsrc with rfl | rfl
  · exact C01Text.C01_text_correct pf cc fo host _ _ hl hf rt href p hel hwf input fuel v st he
  · exact C01Text.C01_text_correct pf cc fo host _ _ hl' (hf' _ hl') rt' href' p hel' hwf input fuel v st he

/-! ### non-vacuity (Rust tables): `x+y` → `x+ y` through the theorems without hypotheses on the padded side -/

example : ∃ T', lex rustTables ['x', '+', ' ', 'y'] = .ok T' ∧ NoTrim (toP T') ∧
    OutcomeEq TreeEqTrivia
      (refParse Table.gen (toP [⟨['x'], .identifier, 0, 0⟩, ⟨['+'], .plusSign, 0, 1⟩, ⟨['y'], .identifier, 0, 2⟩]))
      (refParse Table.gen (toP T')) :=
  C18_text_padOperator_refParse' rustTables C18Text2.rustTables_saneBlank rustTables_sane2 _ _ _ _ exPad (by decide) _
    exPad_lex.1 ⟨by simp [toP, toPFrom], by rfl, by rfl⟩

/-- the two reference trees of that example, and the program both elaborate to -/
example : refParse Table.gen (toP [⟨['x'], .identifier, 0, 0⟩, ⟨['+'], .plusSign, 0, 1⟩, ⟨['y'], .identifier, 0, 2⟩]) =
      .ok (.node (.node .nil .identifier 0 .nil) .addition 1 (.node .nil .identifier 2 .nil)) ∧
    refParse Table.gen (toP [⟨['x'], .identifier, 0, 0⟩, ⟨['+'], .plusSign, 0, 1⟩, ⟨[' '], .whitespace, 0, 2⟩,
      ⟨['y'], .identifier, 0, 3⟩]) =
      .ok (.node (.node .nil .identifier 0 .nil) .addition 1 (.node .nil .identifier 3 .nil)) := by
  constructor <;> rfl

end Garnish.Props.C18Text5
