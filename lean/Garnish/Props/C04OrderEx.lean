/-
C04, builder half — evaluation order: non-vacuity.  Four concrete node vectors (an else-chain, a `;` sequence, a value with a
side-effect block, a nested body): the build succeeds (`decide`), and the order theorems of Props/C04Order.lean /
Props/C04Eval.lean apply to them.
-/
import Garnish.Props.C04Eval
namespace Garnish.Props.C04Order
open Garnish Garnish.Gen Garnish.Model.Parser Garnish.Model.Build Garnish.Lemmas.Build
open Garnish.Lemmas.BuildSeq

/-- the metadata of a build into the empty state -/
def metaOf (fuel root : Nat) (t : Array ParseNode) : List (Option Nat) :=
  match build (F := Unit) (fun _ => none) fuel root t BState.empty with
  | .ok (d', _) => d'.metadata.toList
  | _ => []

def num (p l r : Option Nat) (s : Char) (i : Nat) : ParseNode := ⟨.number, .value, p, l, r, ⟨[s], .number, 0, i⟩⟩

/-- `1 ?> 2 |> 3 !> 4`: ElseJump(JumpIfTrue(1, 2), JumpIfFalse(3, 4)), root 3 -/
def exElse : Array ParseNode := #[
  num (some 1) none none '1' 0,
  ⟨.jumpIfTrue, .binaryLeftToRight, some 3, some 0, some 2, ⟨['?', '>'], .jumpIfTrue, 0, 1⟩⟩,
  num (some 1) none none '2' 2,
  ⟨.elseJump, .binaryLeftToRight, none, some 1, some 5, ⟨['|', '>'], .elseJump, 0, 3⟩⟩,
  num (some 5) none none '3' 4,
  ⟨.jumpIfFalse, .binaryLeftToRight, some 3, some 4, some 6, ⟨['!', '>'], .jumpIfFalse, 0, 5⟩⟩,
  num (some 5) none none '4' 6]

/-- tests in source order (0, 1; 4, 5), then the root's terminator, then the arms out of line — last scheduled first -/
example : metaOf (defaultFuel 7) 3 exElse = [some 0, some 1, some 4, some 5, none, some 6, none, some 2, none] := by decide

/-- the first arm's test (node 1, with its operand 0) precedes the second arm's test (5, with 4) -/
example (d' : BState Unit) (entry : Nat)
    (h : build (fun _ => none) (defaultFuel 7) 3 exElse BState.empty = .ok (d', entry))
    (k0 k5 : Nat) (h0 : d'.metadata[k0]? = some (some 0)) (h5 : d'.metadata[k5]? = some (some 5)) : k0 < k5 :=
  C04_children_in_order ⟨⟨entry, h⟩, Nat.zero_le _, Nat.zero_le _, h0, h5⟩ 3 1 5 _ rfl (Or.inl (Sub.refl 3)) rfl rfl (Or.inl rfl)
    (IDesc.step (IDesc.refl 1) ⟨_, (rfl : exElse[1]? = some _), Or.inl ⟨rfl, rfl⟩⟩) (IDesc.refl 5)

/-- the arm `2` is out of line: everything of the main line (here the second test, node 5) precedes it -/
example (d' : BState Unit) (entry : Nat)
    (h : build (fun _ => none) (defaultFuel 7) 3 exElse BState.empty = .ok (d', entry))
    (k5 k2 : Nat) (h5 : d'.metadata[k5]? = some (some 5)) (h2 : d'.metadata[k2]? = some (some 2)) : k5 < k2 :=
  C04_out_of_line_after_root ⟨⟨entry, h⟩, Nat.zero_le _, Nat.zero_le _, h5, h2⟩ 3 1 2 _ (Or.inl (Sub.refl 3))
    (IDesc.step (IDesc.refl 3) ⟨_, (rfl : exElse[3]? = some _), Or.inl ⟨rfl, rfl⟩⟩) rfl rfl rfl
    (IDesc.step (IDesc.refl 3) ⟨_, (rfl : exElse[3]? = some _), Or.inr ⟨rfl, rfl⟩⟩) (Sub.refl 2)

/-- `1 ; 2` -/
def exSeq : Array ParseNode := #[
  num (some 1) none none '1' 0,
  ⟨.expressionSeparator, .binaryLeftToRight, none, some 0, some 2, ⟨[';'], .expressionSeparator, 0, 1⟩⟩,
  num (some 1) none none '2' 2]

example : metaOf (defaultFuel 3) 1 exSeq = [some 0, some 1, some 2, none] := by decide

/-- left statement, `UpdateValue`, right statement: the proved form of the statement that was left open -/
example (d' : BState Unit) (entry : Nat)
    (h : build (fun _ => none) (defaultFuel 3) 1 exSeq BState.empty = .ok (d', entry))
    (kl kr kp : Nat) (hl : d'.metadata[kl]? = some (some 0)) (hr : d'.metadata[kr]? = some (some 2))
    (hp : d'.metadata[kp]? = some (some 1)) : kl < kr ∧ kl < kp ∧ kp < kr := by
  have := C04_sibling_order_rest Unit (fun _ => none) _ 1 exSeq BState.empty d' entry h 1 0 2 _ true rfl rfl rfl
    (Or.inr (Or.inl ⟨Or.inr rfl, rfl⟩)) kl kr kp (Nat.zero_le _) (Nat.zero_le _) (Nat.zero_le _) hl hr hp
  simpa using this

/-- `[ 1 ] 5`: the value 5 (root, node 2) with a side-effect block (node 0, body 1) on its left -/
def exBlock : Array ParseNode := #[
  ⟨.sideEffect, .startSideEffect, some 2, none, some 1, ⟨['['], .startSideEffect, 0, 0⟩⟩,
  num (some 0) none none '1' 1,
  num none (some 0) none '5' 2]

example : metaOf (defaultFuel 3) 2 exBlock = [some 0, some 1, some 0, some 2, none] := by decide

/-- the block (with its body) precedes the value it is written in front of -/
example (d' : BState Unit) (entry : Nat)
    (h : build (fun _ => none) (defaultFuel 3) 2 exBlock BState.empty = .ok (d', entry))
    (k1 k2 : Nat) (h1 : d'.metadata[k1]? = some (some 1)) (h2 : d'.metadata[k2]? = some (some 2)) : k1 < k2 :=
  C04_child_before_node ⟨⟨entry, h⟩, Nat.zero_le _, Nat.zero_le _, h1, h2⟩ 0 _ rfl (Or.inl (Sub.refl 2)) (Or.inl ⟨rfl, rfl⟩)
    (by decide) (IDesc.step (IDesc.refl 0) ⟨_, (rfl : exBlock[0]? = some _), Or.inr ⟨rfl, rfl⟩⟩)

/-- the body lies between `StartSideEffect` and `EndSideEffect` -/
example (d' : BState Unit) (entry : Nat)
    (h : build (fun _ => none) (defaultFuel 3) 2 exBlock BState.empty = .ok (d', entry))
    (k1 : Nat) (h1 : d'.metadata[k1]? = some (some 1)) :
    (∃ k, k < k1 ∧ d'.metadata[k]? = some (some 0)) ∧ (∃ k, k1 < k ∧ d'.metadata[k]? = some (some 0)) := by
  obtain ⟨⟨ka, _, h2, h3⟩, hb⟩ := C04_side_effect_brackets (fun _ => none) _ 2 exBlock BState.empty d' entry h 0 1 1 k1 _ rfl
    (Or.inr ⟨_, rfl, by decide⟩) rfl rfl (IDesc.refl 1) (Nat.zero_le _) h1
  exact ⟨⟨ka, h2, h3⟩, hb⟩

/-- `{ 5 }`: a nested expression (root, node 0) with the body 1 -/
def exNested : Array ParseNode := #[
  ⟨.nestedExpression, .startGrouping, none, none, some 1, ⟨['{'], .startExpression, 0, 0⟩⟩,
  num (some 0) none none '5' 1]

example : metaOf (defaultFuel 2) 0 exNested = [some 0, none, some 1, none] := by decide

/-- the body is a separate root, after the root that contains the `Put` of the nested expression -/
example (d' : BState Unit) (entry : Nat)
    (h : build (fun _ => none) (defaultFuel 2) 0 exNested BState.empty = .ok (d', entry))
    (k0 k1 : Nat) (h0 : d'.metadata[k0]? = some (some 0)) (h1 : d'.metadata[k1]? = some (some 1)) : k0 < k1 :=
  C04_evaluation_order (fun _ => none) _ 0 exNested BState.empty d' entry h 0 1
    (EmitBefore.outOfLine 0 0 1 _ (Or.inl (Sub.refl 0)) (IDesc.refl 0) rfl rfl rfl (IDesc.refl 0) (Sub.refl 1))
    k0 k1 (Nat.zero_le _) (Nat.zero_le _) h0 h1

end Garnish.Props.C04Order
