/-
C17 — host extension points are called exactly as documented.
Handler level, for all states, symbols and hosts; the program level ("inside skipped branches, loops,
nested expressions") is the trace component of the PROG oracle (evalF's trace vs the recorded calls).
-/
import Garnish.Props.C01
namespace Garnish.Props.C17
open Garnish Gen Garnish.Abs Garnish.Spec

variable {F : Type} (fo : FloatOps F) (host : Host F)

/-- an identifier found in the current input value never reaches the host -/
theorem C17_resolve_found_in_input (s : MState F) (sym : Nat) (cur v : Val F) (vs : List (Val F))
    (hv : s.vals = cur :: vs) (hf : getAccess fo (.sym sym) cur = .some v) :
    resolveStep fo host s (.sym sym) = .ok { s with regs := v :: s.regs } := by
  simp [resolveStep, hv, hf]

/-- otherwise the host's resolve callback is invoked exactly once with that symbol; if it declines
the identifier evaluates to unit, if it accepts its value is used unchanged -/
theorem C17_resolve_protocol (s : MState F) (sym : Nat)
    (hmiss : ∀ cur vs, s.vals = cur :: vs →
      getAccess fo (.sym sym) cur = .none ∨ getAccess fo (.sym sym) cur = .unsupported ∨
      getAccess fo (.sym sym) cur = .err .unsupported) :
    resolveStep fo host s (.sym sym) = .ok { s with
      regs := (match host.resolve sym with | some v => v | none => .unit) :: s.regs,
      trace := HostCall.resolve sym :: s.trace } := by
  simp only [resolveStep]
  cases hvals : s.vals with
  | nil => cases hh : host.resolve sym <;> simp [hh]
  | cons cur vs =>
    rcases hmiss cur vs hvals with h | h | h <;> simp [h] <;> (cases hh : host.resolve sym <;> simp [hh])

/-- applying an external value invokes the host's apply callback exactly once with the external's
number and the argument; unit if it declines, its value unchanged if it accepts -/
theorem C17_apply_external_protocol (P : Prog F) (s : MState F) (d : Option Nat) (n : Nat) (x : Val F) (rs : List (Val F))
    (hi : P.instrs[s.pc]? = some (.apply, d)) (hr : s.regs = x :: .ext n :: rs) :
    step fo host P s = finish P (.ok ({ s with
      regs := (match host.apply n x with | some v => v | none => .unit) :: rs,
      trace := HostCall.apply n x :: s.trace }, s.pc + 1)) := by
  simp only [step, hi, hr, applyStep, applyKind]
  cases hh : host.apply n x <;> simp [hh]

/-- `f ~~` on an external passes unit as the argument -/
theorem C17_emptyApply_external (P : Prog F) (s : MState F) (d : Option Nat) (n : Nat) (rs : List (Val F))
    (hi : P.instrs[s.pc]? = some (.emptyApply, d)) (hr : s.regs = .ext n :: rs) :
    step fo host P s = finish P (.ok ({ s with
      regs := (match host.apply n .unit with | some v => v | none => .unit) :: rs,
      trace := HostCall.apply n .unit :: s.trace }, s.pc + 1)) := by
  simp only [step, hi, hr, applyStep, applyKind]
  cases hh : host.apply n .unit <;> simp [hh]

/-- the evaluator emits the same calls: identifier look-up in `evalF` is `resolveVal`, which performs
at most one `resolve` call (none when the input value has the key) -/
theorem C17_evalF_resolve_calls (st : St F) (sym : Nat) (v : Val F) (st' : St F)
    (h : resolveVal fo host st sym = .ok (v, st')) :
    st'.trace = st.trace ∨ st'.trace = HostCall.resolve sym :: st.trace := by
  simp only [resolveVal] at h
  cases hg : getAccess fo (.sym sym) st.inp with
  | some x => simp [hg] at h; left; rw [← h.2]
  | none => simp [hg] at h; right; cases hh : host.resolve sym <;> simp [hh] at h <;> rw [← h.2]
  | unsupported => simp [hg] at h; right; cases hh : host.resolve sym <;> simp [hh] at h <;> rw [← h.2]
  | err e =>
    cases e <;> simp [hg] at h
    right; cases hh : host.resolve sym <;> simp [hh] at h <;> rw [← h.2]

end Garnish.Props.C17
