/-
`C01_text_to_simple_store_scalar`: a second syntactic class with NO run-time hypothesis, containing calls, comparisons
and equality: `staticOKScalar p input` —
* `balancedB p`, the entry of `compile p` inside the program,
* every instruction of `compile p` in the SCALAR class (`scalarInstr`: everything except `MakePair`, `MakeList`, `Concat`,
  `PartialApply`, the four ranges, `Access`, `Resolve`, `AccessLengthInternal` — so `Apply`, `EmptyApply`, `Reapply`, the
  comparisons, `Equal` / `NotEqual`, all arithmetic / logic, `TypeOf`, `TypeEqual` are allowed),
* the constants and the input are scalars (`scalar`: unit, booleans, numbers, characters, bytes, symbols, expressions,
  externals, types — no text, no symbol list, no container, no `custom`), an `Expression` input is known.
Then every value the machine computes is a scalar (`ScalarState`, kept by every step: Lemmas/Scalar2.lean), and on
scalars the residual side condition `DynOK` holds with loop fuel ≥ 3 (Lemmas/Scalar3.lean). The host must answer with
scalars (`HostScalar`) besides `HostRefinesI` / `HostExprsKnown`; `…_declining` discharges all of it. Non-vacuity:
`{ $ + 1 } <~ 5` — a call (Props/C01TextStoreScalarEx.lean).
-/
import Garnish.Lemmas.Scalar3
import Garnish.Props.C01TextStoreStatic
set_option linter.unusedSimpArgs false
set_option linter.unusedVariables false
namespace Garnish.Props.C01TextStore
open Garnish Garnish.Gen Garnish.Spec Garnish.Abs Garnish.Abs.Tree Garnish.Abs.Source Garnish.Model Garnish.Model.Parser
open Garnish.Model.Lexer Garnish.Model.Literals Garnish.Model.Build Garnish.Props.C01Build Garnish.Props.C01Source
open Garnish.Props.C02Numbered Garnish.Props.C01Text
open Garnish.Model.Equality Garnish.Model.Runtime Garnish.Lemmas.Runtime Garnish.Props.RuntimeRefine
open Garnish.Lemmas.Runtime.On Garnish.Lemmas.Runtime.Simple Garnish.Props.SourceProps Garnish.Lemmas.NoCustom
open Garnish.Lemmas.Her Garnish.Lemmas.Scalar

variable {F : Type} (pf : List Char → Option F) (cc : CharClass)

def staticOKScalar (p : Program F) (input : Val F) : Bool :=
  balancedB p &&
  decide ((compile p).jumps[0]?.getD 0 < (compile p).instrs.size) &&
  (compile p).instrs.toList.all (fun x => scalarInstr x.1) &&
  (compile p).consts.toList.all scalar &&
  scalar input && her (exprQ (compile p)) input

theorem isLeafS_of_scalar {v : Val F} (h : scalar v = true) : isLeafS v = true := by
  cases v <;> first | rfl | (cases h; done)

theorem nc_of_scalar {v : Val F} (h : scalar v = true) : nc v = true := by
  cases v <;> first | rfl | (cases h; done)

theorem hostNoCustom_of_scalar {host : Host F} (h : HostScalar host) : HostNoCustom host :=
  ⟨fun op l r v hv => nc_of_scalar (h.defer op l r v hv), fun y v hv => nc_of_scalar (h.resolve y v hv),
    fun n a v hv => nc_of_scalar (h.apply n a v hv)⟩

theorem hostScalar_declining : HostScalar (Host.declining : Host F) :=
  ⟨fun _ _ _ _ h => (by cases h), fun _ _ h => (by cases h), fun _ _ _ h => (by cases h)⟩

/-- **no run-time hypothesis, calls and comparisons included** -/
theorem C01_text_to_simple_store_scalar {p : Program F} {hit : List (SimCell F) → SimCell F → Option Nat}
    (hs : HitSound hit) (hh : SimHost F) (fo : FloatOps F) (host : Host F)
    (HR : HostRefinesI (simpleRStore hit hh) SInv host) (HS : HostScalar host)
    (HE : HostExprsKnown (compile p) host) (loopFuel : Nat) (hfuel : 3 ≤ loopFuel)
    (cast : RM (SimState F) (Option Nat)) (s : List Char)
    (toks : List LexerToken) (hlex : lex cc s = .ok toks) (hf : frag9' (toP toks) = true) (rt : RTree)
    (href : refParse Table.gen (toP toks) = .ok rt) (hel : elaborate pf (toP toks) rt = some p)
    (hwf : C01.WFProgram p) (input : Val F) (hstatic : staticOKScalar p input = true) (fuel : Nat) (v : Val F)
    (st : St F) (h : evalProgram fo host fuel p input = .ok (v, st)) :
    ∃ d n, buildText pf cc s = .ok (d, 0) ∧ progOf d = compile p ∧
      ∃ s' a, executeLoop fo (simpleRStore hit hh) loopFuel (fullHandlers fo (simpleRStore hit hh) loopFuel cast) n
          (loadSimple (reloc (progOf d)) ((progOf d).jumps[0]?.getD 0) input) = .ok ((.end_, n), s') ∧
        s'.values = [a] ∧ Decodes (simView s'.cells) a v ∧ (simpleRStore hit hh).regs s' = [] ∧
        (simpleRStore hit hh).frames s' = [] ∧ SInv s' := by
  simp only [staticOKScalar, Bool.and_eq_true, decide_eq_true_eq] at hstatic
  obtain ⟨⟨⟨⟨⟨hbal, hentry⟩, hinstr⟩, hconsts⟩, hin⟩, hine⟩ := hstatic
  have hcs : ∀ (k : Nat) (c : Val F), (compile p).consts[k]? = some c → scalar c = true := fun k c hk =>
    (List.all_eq_true.mp hconsts) c (List.mem_of_getElem? (by simpa using hk))
  have hsi : ∀ (pc : Nat) (i : Instruction) (o : Option Nat), (compile p).instrs[pc]? = some (i, o) →
      scalarInstr i = true := fun pc i o hi =>
    (List.all_eq_true.mp hinstr) (i, o) (List.mem_of_getElem? (by simpa using hi))
  have hleaf : (compile p).consts.toList.all isLeafS = true :=
    List.all_eq_true.mpr fun c hc => isLeafS_of_scalar ((List.all_eq_true.mp hconsts) c hc)
  have reach : ∀ m, C06.ReachK fo host (compile p) ((compile p).jumps[0]?.getD 0 :: C06.exprEntries (compile p))
      ⟨(compile p).jumps[0]?.getD 0, [], [input], [], []⟩ m → ScalarState m := by
    intro m hr
    induction hr with
    | refl => exact ⟨rfl, by simp [scalarL, hin], fun _ hfr => by cases hfr⟩
    | snoc _ hst _ ih => exact step_scalar HS hcs hsi ih (Or.inl hst)
  exact C01_text_to_simple_store_balanced_full_noHcalls pf cc hs hh fo host HR (hostNoCustom_of_scalar HS) HE loopFuel
    cast s toks hlex hf rt href hel hwf hbal input fuel v st h hentry hleaf (isLeafS_of_scalar hin)
    (fun k c hk => nc_of_scalar (hcs k c hk)) (nc_of_scalar hin) hine
    (fun m hr i o hi => dynOK_of_scalar fo _ _ _ hfuel (reach m hr) o (hsi _ i o hi))

theorem C01_text_to_simple_store_scalar_declining {p : Program F} {hit : List (SimCell F) → SimCell F → Option Nat}
    (hs : HitSound hit) (fo : FloatOps F) (loopFuel : Nat) (hfuel : 3 ≤ loopFuel)
    (cast : RM (SimState F) (Option Nat)) (s : List Char)
    (toks : List LexerToken) (hlex : lex cc s = .ok toks) (hf : frag9' (toP toks) = true) (rt : RTree)
    (href : refParse Table.gen (toP toks) = .ok rt) (hel : elaborate pf (toP toks) rt = some p)
    (hwf : C01.WFProgram p) (input : Val F) (hstatic : staticOKScalar p input = true) (fuel : Nat) (v : Val F)
    (st : St F) (h : evalProgram fo Host.declining fuel p input = .ok (v, st)) :
    ∃ d n, buildText pf cc s = .ok (d, 0) ∧ progOf d = compile p ∧
      ∃ s' a, executeLoop fo (simpleRStore hit (fun _ st => (false, st))) loopFuel
          (fullHandlers fo (simpleRStore hit (fun _ st => (false, st))) loopFuel cast) n
          (loadSimple (reloc (progOf d)) ((progOf d).jumps[0]?.getD 0) input) = .ok ((.end_, n), s') ∧
        s'.values = [a] ∧ Decodes (simView s'.cells) a v ∧
        (simpleRStore hit (fun _ st => (false, st))).regs s' = [] ∧
        (simpleRStore hit (fun _ st => (false, st))).frames s' = [] ∧ SInv s' :=
  C01_text_to_simple_store_scalar pf cc hs (fun _ st => (false, st)) fo Host.declining C01_simple_host_declines
    hostScalar_declining (hostHer_declining _) loopFuel hfuel cast s toks hlex hf rt href hel hwf input hstatic fuel v st h

end Garnish.Props.C01TextStore
