/-
The `AccessLengthInternal` step of the real Basic store (the dispatcher equation `ds_accessLengthInternal`,
Lemmas/RuntimeOnL3.lean, is not part of `shadowCovered`).
-/
import Garnish.Lemmas.RuntimeOnL3
import Garnish.Props.C01RefineBasicList
namespace Garnish.Props.RuntimeRefine
open Garnish Gen Garnish.Abs Garnish.Model.Equality Garnish.Model.Runtime Garnish.Model.Runtime.Basic
open Garnish.Lemmas.Runtime Garnish.Lemmas.Runtime.On Garnish.Lemmas.Runtime.OnL
open Garnish.Props.C19StoreOn Garnish.Props.C19ListOn

variable {F : Type} (fo : FloatOps F) {P : Prog F} {host : Host F}

theorem C01_refine_step_on_basic_accessLength (nc : NumCode F) (HR : HostRefinesI (basicRStore nc) BInvL host)
    (fuel : Nat) (cast : RM BState (Option Nat)) {s : BState} {m : MState F} (hsim : Sim (basicRStore nc) P s m)
    (hi : BInvL s) (hl : Loaded (basicRStore nc) P s) {operand : Option Nat}
    (hfetch : P.instrs[m.pc]? = some (.accessLengthInternal, operand))
    (hok : MachOKOn4 fo (basicRStore nc) BInvL P fuel m .accessLengthInternal operand) :
    StepSimOn fo host (basicRStore nc) BInvL P fuel (fullHandlers fo (basicRStore nc) fuel cast) s m :=
  stepSimOn_shadow fo ghostAdd (ghostEnd nc) fuel _ _ hsim hfetch
    (ds_accessLengthInternal fo ghostAdd (ghostEnd nc) fuel cast operand)
    (refine_step_on4 fo (basic_shadow_laws nc) (hostRefinesI_shadow ghostAdd (ghostEnd nc) HR) fuel cast
      (s := s) (m := m) ⟨hsim.1, (simD_shadow ghostAdd (ghostEnd nc)).symm ▸ hsim.2⟩ hi hl hfetch hok)

end Garnish.Props.RuntimeRefine
