/-
C04, builder half — `C04_evaluation_order`: the rules of Props/C04Order.lean as one relation, and the proof that they
decide the order of any two nodes of one root.

`EmitBefore nodes root x z`: every instruction attributed to `x` precedes every instruction attributed to `z`:
  operands   left subtree before right subtree (in line)                          — the order of the source tokens
  swapped    Pair / ApplyTo: right subtree before left subtree                    — the documented swap
  childFirst an operand before the own instruction of its operator                — postfix: differs from token order for
             (binary, unary, list, And / Or / JumpIf… for the left operand)         a right operand, which is written after
  nodeFirst  separators and value-like nodes: own instruction before the right    — the order of the source tokens
  outOfLine  the whole root of the owner before the out-of-line subtree
For the nodes of one root in-line (`IDesc ρ x`, `IDesc ρ z`, `x ≠ z`) one of `EmitBefore x z`, `EmitBefore z x` holds
unless one of them is a `Group` (emits nothing) or a `SideEffect` (brackets its body: `C04_side_effect_brackets`) and the
other one lies in line below it (`C04_evaluation_order_total`).  So within a root the instruction order IS the order of
the source tokens, with two systematic differences: an operator is emitted after its operands, and Pair / ApplyTo emit
their right operand first; the out-of-line roots follow the root of their owner.
-/
import Garnish.Props.C04Order
namespace Garnish.Props.C04Order
open Garnish Garnish.Gen Garnish.Model.Parser Garnish.Model.Build Garnish.Lemmas.Build
open Garnish.Lemmas.BuildSeq

variable {F : Type}

inductive EmitBefore (nodes : Array ParseNode) (root : Nat) : Nat → Nat → Prop
  | operands {x z : Nat} (p l r : Nat) (pn : ParseNode) : nodes[p]? = some pn → InTree nodes root p → pn.left = some l →
      pn.right = some r → (layout pn.definition = .lrn ∨ layout pn.definition = .lnr) → IDesc nodes l x → IDesc nodes r z →
      EmitBefore nodes root x z
  | swapped {x z : Nat} (p l r : Nat) (pn : ParseNode) : nodes[p]? = some pn → InTree nodes root p → pn.left = some l →
      pn.right = some r → layout pn.definition = .rln → IDesc nodes r x → IDesc nodes l z → EmitBefore nodes root x z
  | childFirst {x : Nat} (p c : Nat) (pn : ParseNode) : nodes[p]? = some pn → InTree nodes root p →
      ((pn.left = some c ∧ inlL (layout pn.definition) = true) ∨ (pn.right = some c ∧ preR (layout pn.definition) = true)) →
      pn.definition ≠ .sideEffect → IDesc nodes c x → EmitBefore nodes root x p
  | nodeFirst {z : Nat} (p r : Nat) (pn : ParseNode) : nodes[p]? = some pn → InTree nodes root p → pn.right = some r →
      layout pn.definition = .lnr → IDesc nodes r z → EmitBefore nodes root p z
  | outOfLine {x z : Nat} (ρ y r : Nat) (yn : ParseNode) : InTree nodes root ρ → IDesc nodes ρ y → nodes[y]? = some yn →
      yn.right = some r → oolR yn.definition = true → IDesc nodes ρ x → Sub nodes r z → EmitBefore nodes root x z

/-- C04, builder half, evaluation order: for EVERY node vector, root, fuel and start state, after a successful `build`
the metadata puts every instruction attributed to `x` before every instruction attributed to `z` whenever
`EmitBefore nodes root x z` -/
theorem C04_evaluation_order (parseFloat : List Char → Option F) (fuel root : Nat) (nodes : Array ParseNode) (d d' : BState F)
    (entry : Nat) (h : build parseFloat fuel root nodes d = .ok (d', entry)) (x z : Nat) (he : EmitBefore nodes root x z)
    (kx kz : Nat) (hkx : d.metadata.size ≤ kx) (hkz : d.metadata.size ≤ kz)
    (hmx : d'.metadata[kx]? = some (some x)) (hmz : d'.metadata[kz]? = some (some z)) : kx < kz := by
  have b : Built parseFloat fuel root nodes d d' x z kx kz := ⟨⟨entry, h⟩, hkx, hkz, hmx, hmz⟩
  cases he with
  | operands p l r pn hp ht hl hr hk hx hz => exact C04_children_in_order b p l r pn hp ht hl hr hk hx hz
  | swapped p l r pn hp ht hl hr hk hx hz => exact C04_children_swapped b p l r pn hp ht hl hr hk hx hz
  | childFirst p c pn hp ht hc hnse hx => exact C04_child_before_node b c pn hp ht hc hnse hx
  | nodeFirst p r pn hp ht hr hk hz => exact C04_node_before_right b r pn hp ht hr hk hz
  | outOfLine ρ y r yn ht hy hyn hr hool hx hz => exact C04_out_of_line_after_root b ρ y r yn ht hy hyn hr hool hx hz

/-! ### the rules decide the order inside a root -/

/-- the first link of an in-line path -/
theorem idesc_head {nodes : Array ParseNode} {w z : Nat} (h : IDesc nodes w z) :
    z = w ∨ ∃ c, ILink nodes w c ∧ IDesc nodes c z := by
  induction h with
  | refl => exact Or.inl rfl
  | @step u z _ hl ih =>
    rcases ih with e | ⟨c, hc, hd⟩
    · subst e; exact Or.inr ⟨z, hl, IDesc.refl z⟩
    · exact Or.inr ⟨c, hc, IDesc.step hd hl⟩

/-- two nodes in line below `ρ`: one is in line below the other, or they lie below two different in-line children of a
common ancestor -/
theorem idesc_split {nodes : Array ParseNode} {ρ x z : Nat} (hx : IDesc nodes ρ x) (hz : IDesc nodes ρ z) :
    IDesc nodes x z ∨ IDesc nodes z x ∨
    ∃ y a b, IDesc nodes ρ y ∧ ILink nodes y a ∧ ILink nodes y b ∧ a ≠ b ∧ IDesc nodes a x ∧ IDesc nodes b z := by
  induction hx with
  | refl => exact Or.inl hz
  | @step w x hw hl ih =>
    rcases ih with h | h | ⟨y, a, b, h1, h2, h3, h4, h5, h6⟩
    · rcases idesc_head h with e | ⟨c, hc, hd⟩
      · subst e; exact Or.inr (Or.inl (IDesc.step (IDesc.refl z) hl))
      · rcases Classical.em (c = x) with e | e
        · subst e; exact Or.inl hd
        · exact Or.inr (Or.inr ⟨w, x, c, hw, hl, hc, fun e' => e e'.symm, IDesc.refl x, hd⟩)
    · exact Or.inr (Or.inl (IDesc.step h hl))
    · exact Or.inr (Or.inr ⟨y, a, b, h1, h2, h3, h4, IDesc.step h5 hl, h6⟩)

/-- `z` lies in line strictly below `x`: the rule that applies, or `x` is a Group / SideEffect -/
theorem emit_below {nodes : Array ParseNode} {root x z : Nat} (ht : InTree nodes root x) (h : IDesc nodes x z) (hne : z ≠ x) :
    EmitBefore nodes root x z ∨ EmitBefore nodes root z x ∨
    ∃ xn, nodes[x]? = some xn ∧ (xn.definition = .group ∨ xn.definition = .sideEffect) := by
  rcases idesc_head h with e | ⟨c, ⟨xn, hxn, hc⟩, hd⟩
  · exact absurd e hne
  · rcases Classical.em (xn.definition = .sideEffect) with hse | hse
    · exact Or.inr (Or.inr ⟨xn, hxn, Or.inr hse⟩)
    · rcases hc with ⟨hl, hk⟩ | ⟨hr, hk⟩
      · exact Or.inr (Or.inl (EmitBefore.childFirst x c xn hxn ht (Or.inl ⟨hl, hk⟩) hse hd))
      · cases hlay : layout xn.definition with
        | lrn => exact Or.inr (Or.inl (EmitBefore.childFirst x c xn hxn ht (Or.inr ⟨hr, by rw [hlay]; rfl⟩) hse hd))
        | rln => exact Or.inr (Or.inl (EmitBefore.childFirst x c xn hxn ht (Or.inr ⟨hr, by rw [hlay]; rfl⟩) hse hd))
        | rn => exact Or.inr (Or.inl (EmitBefore.childFirst x c xn hxn ht (Or.inr ⟨hr, by rw [hlay]; rfl⟩) hse hd))
        | lnr => exact Or.inl (EmitBefore.nodeFirst x c xn hxn ht hr hlay hd)
        | gr =>
          refine Or.inr (Or.inr ⟨xn, hxn, Or.inl ?_⟩)
          cases hdef : xn.definition <;> rw [hdef] at hlay <;> first | rfl | cases hlay
        | ln => rw [hlay] at hk; cases hk
        | none => rw [hlay] at hk; cases hk

/-- the rules decide the order of two nodes of one root, except below a Group (which emits nothing) or a SideEffect
(which brackets its body) -/
theorem C04_evaluation_order_total (nodes : Array ParseNode) (root ρ x z : Nat) (hρ : Sub nodes root ρ)
    (hx : IDesc nodes ρ x) (hz : IDesc nodes ρ z) (hne : x ≠ z) :
    EmitBefore nodes root x z ∨ EmitBefore nodes root z x ∨
    ∃ a an, (a = x ∨ a = z) ∧ nodes[a]? = some an ∧ (an.definition = .group ∨ an.definition = .sideEffect) ∧
      IDesc nodes a x ∧ IDesc nodes a z := by
  have hin : ∀ y, IDesc nodes ρ y → InTree nodes root y := fun y hy => Or.inl (Sub.trans hρ hy.sub)
  rcases idesc_split hx hz with h | h | ⟨y, a, b, hy, ⟨yn, hyn, ha⟩, ⟨yn', hyn', hb⟩, hab, hax, hbz⟩
  · rcases emit_below (hin x hx) h (fun e => hne e.symm) with h1 | h1 | ⟨xn, h2, h3⟩
    · exact Or.inl h1
    · exact Or.inr (Or.inl h1)
    · exact Or.inr (Or.inr ⟨x, xn, Or.inl rfl, h2, h3, IDesc.refl x, h⟩)
  · rcases emit_below (hin z hz) h hne with h1 | h1 | ⟨zn, h2, h3⟩
    · exact Or.inr (Or.inl h1)
    · exact Or.inl h1
    · exact Or.inr (Or.inr ⟨z, zn, Or.inr rfl, h2, h3, h, IDesc.refl z⟩)
  · rw [hyn] at hyn'; cases hyn'
    have hty := hin y hy
    -- `a` and `b` are the two children of `y`, both in line
    have hcases : (yn.left = some a ∧ yn.right = some b) ∨ (yn.left = some b ∧ yn.right = some a) := by
      rcases ha with ⟨ha, _⟩ | ⟨ha, _⟩ <;> rcases hb with ⟨hb, _⟩ | ⟨hb, _⟩
      · rw [ha] at hb; cases hb; exact absurd rfl hab
      · exact Or.inl ⟨ha, hb⟩
      · exact Or.inr ⟨hb, ha⟩
      · rw [ha] at hb; cases hb; exact absurd rfl hab
    have hboth : inlL (layout yn.definition) = true ∧ inlR (layout yn.definition) = true := by
      rcases ha with ⟨h1, h2⟩ | ⟨h1, h2⟩ <;> rcases hb with ⟨h3, h4⟩ | ⟨h3, h4⟩
      · rw [h1] at h3; cases h3; exact absurd rfl hab
      · exact ⟨h2, h4⟩
      · exact ⟨h4, h2⟩
      · rw [h1] at h3; cases h3; exact absurd rfl hab
    have hlay : layout yn.definition = .lrn ∨ layout yn.definition = .lnr ∨ layout yn.definition = .rln := by
      cases hl : layout yn.definition <;> rw [hl] at hboth <;> simp [inlL, inlR] at hboth <;> simp
    rcases hcases with ⟨hl, hr⟩ | ⟨hl, hr⟩
    · rcases hlay with hk | hk | hk
      · exact Or.inl (EmitBefore.operands y a b yn hyn hty hl hr (Or.inl hk) hax hbz)
      · exact Or.inl (EmitBefore.operands y a b yn hyn hty hl hr (Or.inr hk) hax hbz)
      · exact Or.inr (Or.inl (EmitBefore.swapped y a b yn hyn hty hl hr hk hbz hax))
    · rcases hlay with hk | hk | hk
      · exact Or.inr (Or.inl (EmitBefore.operands y b a yn hyn hty hl hr (Or.inl hk) hbz hax))
      · exact Or.inr (Or.inl (EmitBefore.operands y b a yn hyn hty hl hr (Or.inr hk) hbz hax))
      · exact Or.inl (EmitBefore.swapped y b a yn hyn hty hl hr hk hax hbz)

/-! ### the mutual order of two out-of-line parts (proved in Props/C04Eval2.lean) -/

/-- the last visit of `y1` comes before the last visit of `y2` (two nodes of one root); `w` has to be a node of the tree
(an unlinked Subexpression node may carry stale links) -/
def LastBefore (nodes : Array ParseNode) (root y1 y2 : Nat) : Prop :=
  (∃ w a b, InTree nodes root w ∧ Ord nodes w a b ∧ IDesc nodes a y1 ∧ IDesc nodes b y2) ∨
  (∃ c, PreC nodes y2 c ∧ IDesc nodes c y1) ∨ (∃ c, PostC nodes y1 c ∧ IDesc nodes c y2)

/-- `root_stack` is a stack: of two out-of-line children scheduled while one root is built, the one scheduled later is
emitted first, with its whole subtree — stated here for the owners that always schedule in their own last visit (And, Or,
NestedExpression).  Proved in Props/C04Eval2.lean (`C04_out_of_line_lifo_direct`), together with the general form that
covers the arms of conditionals (`C04_out_of_line_lifo`): when the JumpIf… sits in an else-chain the chain head collects
the arms (in source order) and pushes them together in its own last visit, so they are emitted in reverse source order
after everything that was scheduled before the head finished (`exElse` in Props/C04OrderEx.lean). -/
def C04_out_of_line_lifo_statement (F : Type) : Prop :=
  ∀ (parseFloat : List Char → Option F) (fuel root : Nat) (nodes : Array ParseNode) (d d' : BState F) (entry : Nat),
    build parseFloat fuel root nodes d = .ok (d', entry) →
    ∀ (ρ y1 y2 r1 r2 : Nat) (n1 n2 : ParseNode), Sub nodes root ρ → IDesc nodes ρ y1 → IDesc nodes ρ y2 →
      nodes[y1]? = some n1 → nodes[y2]? = some n2 → n1.right = some r1 → n2.right = some r2 →
      (n1.definition = .and ∨ n1.definition = .or ∨ n1.definition = .nestedExpression) →
      (n2.definition = .and ∨ n2.definition = .or ∨ n2.definition = .nestedExpression) →
      LastBefore nodes root y1 y2 →
      ∀ x z kx kz : Nat, Sub nodes r2 x → Sub nodes r1 z → d.metadata.size ≤ kx → d.metadata.size ≤ kz →
        d'.metadata[kx]? = some (some x) → d'.metadata[kz]? = some (some z) → kx < kz

end Garnish.Props.C04Order
