/-
Value-level properties from the source text (continuation of Props/SourceProps.lean, same namespace).

C14 — a one-literal source: the pipeline of the models succeeds and the machine run of the built program ends with exactly the
value that Spec/Spell.lean says the literal spells.  `C14_text_literal` is the general form (any literal token, the value that
`Model.Literals` computes from its text); the named corollaries compose it with the theorems of Props/C14.lean:
  C14_text_number / C14_text_roundtrip   every radix 2..36, every separator placement, every n ≤ i32::MAX:  value n
  C14_text_charlist / _roundtrip         every quote count, every body:  the escape processing `unescape` of the body / cs itself
  C14_text_bytelist / _numeric           the quoted form: `unescBytes` of the body;  the numeric form: the byte vector itself
  C14_text_symbol                        `:name`:  SipHash-1-3 of the name as written
C09 — `a op b` with integer literals: `C09_text_int_arith` (+ - * / // % ** << >>: the exact i32 result, or unit where
Spec/Num says there is none), `C09_text_int_bitwise` (& | ^: bit by bit).  C12 / C11: Props/SourceProps3.lean.

PARTIAL in one respect: that the lexer model turns the SPELLING into the expected token(s) — one literal token, or literal
whitespace operator whitespace literal — is a hypothesis (`hlex`, `htoks`); it is decidable on every concrete text and discharged
by evaluation in the examples (Props/SourceProps3.lean).  MISSING: a lexer theorem `lex (spellNumber r n seps) = [one Number
token]` for all `n` (lexer-agent has the arm-level statement for char lists, `C14_charlist_lexable_one_token`).  Everything
behind the tokens — parser, builder, machine, literal parsing, arithmetic — is proved for ALL operands.
-/
import Garnish.Lemmas.SourceLit2
import Garnish.Props.C14
import Garnish.Props.C09
namespace Garnish.Props.SourceProps
open Garnish Garnish.Gen Garnish.Spec Garnish.Spec.Spell Garnish.Abs Garnish.Abs.Tree Garnish.Abs.Source Garnish.Model
open Garnish.Model.Parser Garnish.Model.Lexer Garnish.Model.Literals Garnish.Model.Build Garnish.Props.C01Build
open Garnish.Props.C01Source Garnish.Props.C02Numbered Garnish.Props.C01Text Garnish.Props.C01Blocks
open Garnish.Lemmas.Literals

variable {F : Type} (pf : List Char → Option F) (cc : CharClass) (fo : FloatOps F) (host : Host F)

/-- the machine run of the object `dd` from `entry` on `input` halts with the value `v`, nothing else on the stacks, and no
host call -/
def RunsTo (dd : BState F) (entry : Nat) (input v : Val F) : Prop :=
  ∃ n m, run fo host (progOf dd) n
      { pc := (progOf dd).jumps[entry]?.getD 0, regs := [], vals := [input], frames := [], trace := [] } = (.halted m, n) ∧
    m.vals = [v] ∧ m.regs = [] ∧ m.frames = [] ∧ m.trace = []

/-! ### C14 -/

/-- **C14 from the source text, general form**: a text that the lexer turns into ONE literal token whose text parses
(Model/Literals) to the value `v` is built into a program that computes exactly `v` -/
theorem C14_text_literal (s : List Char) (tok : LexerToken) (hlex : lex cc s = .ok [tok]) (d : Definition)
    (hd : litDef tok.tokenType = some d) (v : Val F) (hv : leafE pf d tok.text = some (.lit v)) (input : Val F) :
    ∃ dd entry, buildText pf cc s = .ok (dd, entry) ∧ RunsTo fo host dd entry input v := by
  obtain ⟨hp, ht, hin, hel⟩ := one_token tok.text tok.tokenType d hd v hv
  have he : evalProgram fo host 2 (litProg v) input = .ok (v, ⟨input, []⟩) := by
    simp [evalProgram, evalBody, evalF, litProg]
  obtain ⟨dd, entry, hb, n, m, hr, h1, h2, h3, h4⟩ :=
    C01_text_correct_blocks pf cc fo host s [tok] hlex _ _ hp ht hin (litProg v) hel (litProg_wf v (leafE_lit_wf hv)) input 2 v
      ⟨input, []⟩ he
  exact ⟨dd, entry, hb, n, m, hr, h1, h2, h3, h4⟩

/-- **numbers**: the spelling of `n` in radix `r` (plain decimal for `r = 10`, `0R_digits` otherwise) with `_` separators
anywhere runs to the integer `n` -/
theorem C14_text_number (r n : Nat) (seps : List Nat) (hr2 : 2 ≤ r) (hr36 : r ≤ 36) (hn : n ≤ 2147483647)
    (hvs : ValidSeps r n seps) (row col : Nat)
    (hlex : lex cc (spellNumber r n seps) = .ok [⟨spellNumber r n seps, .number, row, col⟩]) (input : Val F) :
    ∃ dd entry, buildText pf cc (spellNumber r n seps) = .ok (dd, entry) ∧ RunsTo fo host dd entry input (.num (.int n)) :=
  C14_text_literal pf cc fo host _ _ hlex .number rfl _
    (by simp only [leafE, C14.C14_number_value pf r n seps hr2 hr36 hn hvs]) input

/-- **round trip**: print `n` in any radix, lex, parse, build, run: `n` -/
theorem C14_text_roundtrip (r n : Nat) (hr2 : 2 ≤ r) (hr36 : r ≤ 36) (hn : n ≤ 2147483647) (row col : Nat)
    (hlex : lex cc (spellNumber r n []) = .ok [⟨spellNumber r n [], .number, row, col⟩]) (input : Val F) :
    ∃ dd entry, buildText pf cc (spellNumber r n []) = .ok (dd, entry) ∧ RunsTo fo host dd entry input (.num (.int n)) :=
  C14_text_number pf cc fo host r n [] hr2 hr36 hn (by intro _ _; simp) row col hlex input

/-- **char lists**: `q` quotes, body, `q` quotes runs to the escape processing of exactly the body -/
theorem C14_text_charlist (q : Nat) (body : List Char) (h : body.head? ≠ some '"') (cs : List Char)
    (hu : unescape (uniModel pf) q body = .ok cs) (row col : Nat)
    (hlex : lex cc (quoteCharList q body) = .ok [⟨quoteCharList q body, .charList, row, col⟩]) (input : Val F) :
    ∃ dd entry, buildText pf cc (quoteCharList q body) = .ok (dd, entry) ∧
      RunsTo fo host dd entry input (.chars (cs.map Char.toNat)) :=
  C14_text_literal pf cc fo host _ _ hlex .charList rfl _
    (by simp only [leafE, C14.C14_charlist_exact pf q body h, hu]) input

/-- round trip, the lexable spelling (quotes written `\u{22}`): every string, every quote count -/
theorem C14_text_charlist_roundtrip (q : Nat) (cs : List Char) (row col : Nat)
    (hlex : lex cc (quoteCharList q (escapeCharsU q cs)) = .ok [⟨quoteCharList q (escapeCharsU q cs), .charList, row, col⟩])
    (input : Val F) :
    ∃ dd entry, buildText pf cc (quoteCharList q (escapeCharsU q cs)) = .ok (dd, entry) ∧
      RunsTo fo host dd entry input (.chars (cs.map Char.toNat)) :=
  C14_text_literal pf cc fo host _ _ hlex .charList rfl _
    (by simp only [leafE, C14.C14_charlist_roundtrip_lexable pf q cs]) input

/-- **byte lists, quoted form**: `'body'` runs to the escape processing of the body, every character its UTF-8 bytes -/
theorem C14_text_bytelist (body : List Char) (h : body.head? ≠ some '\'') (bs : List Nat)
    (hu : unescBytes false body = .ok bs) (row col : Nat)
    (hlex : lex cc (quoteByteList 1 body) = .ok [⟨quoteByteList 1 body, .byteList, row, col⟩]) (input : Val F) :
    ∃ dd entry, buildText pf cc (quoteByteList 1 body) = .ok (dd, entry) ∧ RunsTo fo host dd entry input (.bytes bs) :=
  C14_text_literal pf cc fo host _ _ hlex .byteList rfl _
    (by simp only [leafE, C14.C14_bytelist_exact pf body h, hu]) input

/-- **byte lists, numeric form** (round trip): every byte vector, `q ≥ 2` quotes -/
theorem C14_text_bytelist_numeric (q : Nat) (hq : 2 ≤ q) (bs : List Nat) (hb : ∀ b ∈ bs, b ≤ 255) (row col : Nat)
    (hlex : lex cc (spellBytesNumeric q bs) = .ok [⟨spellBytesNumeric q bs, .byteList, row, col⟩]) (input : Val F) :
    ∃ dd entry, buildText pf cc (spellBytesNumeric q bs) = .ok (dd, entry) ∧ RunsTo fo host dd entry input (.bytes bs) :=
  C14_text_literal pf cc fo host _ _ hlex .byteList rfl _
    (by simp only [leafE, C14.C14_bytelist_roundtrip pf q hq bs hb]) input

/-- **symbols**: `:name` runs to the symbol whose value is SipHash-1-3 of the name as written -/
theorem C14_text_symbol (name : List Char) (h1 : name.head? ≠ some ':') (h2 : name.getLast? ≠ some ':') (row col : Nat)
    (hlex : lex cc (spellSymbol name) = .ok [⟨spellSymbol name, .symbol, row, col⟩]) (input : Val F) :
    ∃ dd entry, buildText pf cc (spellSymbol name) = .ok (dd, entry) ∧
      RunsTo fo host dd entry input (.sym (Garnish.Model.SipHash.symbolValue name).toNat) := by
  obtain ⟨e1, e2⟩ := C14.C14_symbol_keeps_name name h1 h2
  exact C14_text_literal pf cc fo host _ _ hlex .symbol rfl _ (by simp only [leafE, e1, e2]) input

/-! ### `a op b` on two literals -/

/-- **a binary operator on two literal operands**: the text lexes to literal, whitespace, operator, whitespace, literal; the
operand texts parse to `va`, `vb`; the operation on them is defined with value `v` — the built program computes `v` -/
theorem text_binop (s : List Char) (toks : List LexerToken) (hlex : lex cc s = .ok toks) (ta w1 to w2 tb : List Char)
    (tya oty tyb : TokenType) (htoks : toP toks = fiveToks ta w1 to w2 tb tya oty tyb) (da dop db : Definition)
    (op : Instruction) (hda : litDef4 tya = some da) (hdb : litDef4 tyb = some db) (hop : opTok oty = some (dop, op))
    (va vb : Val F) (ha : leafE pf da ta = some (.lit va)) (hb : leafE pf db tb = some (.lit vb)) (v : Val F)
    (hv : binaryOp fo op va vb = some (.val v)) (hne : (op == .apply) = false) (input : Val F) :
    ∃ dd entry, buildText pf cc s = .ok (dd, entry) ∧ RunsTo fo host dd entry input v := by
  obtain ⟨hp, ht, hin, href⟩ := five_tokens ta w1 to w2 tb tya oty tyb da dop db op hda hdb hop
  obtain ⟨hbo, hok⟩ := opTok_binOp hop
  have hel := five_elab (pf := pf) ta w1 to w2 tb tya oty tyb da dop db op hbo va vb ha hb
  rw [← href, ← htoks] at hel
  rw [← htoks] at hp
  have he : evalProgram fo host 3 (binProg op va vb) input = .ok (v, ⟨input, []⟩) := by
    simp [evalProgram, evalBody, evalF, binProg, hv, hne, settle]
  obtain ⟨dd, entry, hbt, n, m, hr, h1, h2, h3, h4⟩ :=
    C01_text_correct_blocks pf cc fo host s toks hlex _ _ hp ht hin (binProg op va vb) hel
      (binProg_wf op va vb hok (leafE_lit_wf ha) (leafE_lit_wf hb)) input 3 v ⟨input, []⟩ he
  exact ⟨dd, entry, hbt, n, m, hr, h1, h2, h3, h4⟩

/-! ### C09 -/

/-- the exact specification (Spec/Num.lean) of the binary arithmetic operators of the language -/
def arithSpec : Instruction → Option (Int → Int → Option Int)
  | .add => some Spec.add
  | .subtract => some Spec.sub
  | .multiply => some Spec.mul
  | .divide => some Spec.div
  | .integerDivide => some Spec.div
  | .remainder => some Spec.rem
  | .power => some Spec.pow
  | .bitwiseShiftLeft => some Spec.shl
  | .bitwiseShiftRight => some Spec.shr
  | _ => none

theorem int_arith_value (op : Instruction) (f : Int → Int → Option Int) (hf : arithSpec op = some f) (a b : Int)
    (ha : InRange a) (hb : InRange b) :
    binaryOp fo op (.num (.int a)) (.num (.int b)) = some (.val (numResult ((f a b).map .int))) := by
  cases op <;> simp only [arithSpec, reduceCtorEq, Option.some.injEq] at hf <;> subst hf
  · simp [binaryOp, numOpOf, arithBinary, Number.apply, C09.C09_int_plus fo a b ha hb]
  · simp [binaryOp, numOpOf, arithBinary, Number.apply, C09.C09_int_subtract fo a b ha hb]
  · simp [binaryOp, numOpOf, arithBinary, Number.apply, C09.C09_int_multiply fo a b ha hb]
  · simp [binaryOp, numOpOf, arithBinary, Number.apply, C09.C09_int_divide fo a b ha hb]
  · simp [binaryOp, numOpOf, arithBinary, Number.apply, C09.C09_int_integerDivide fo a b ha hb]
  · simp [binaryOp, numOpOf, arithBinary, Number.apply, C09.C09_int_power fo a b ha hb]
  · simp [binaryOp, numOpOf, arithBinary, Number.apply, C09.C09_int_remainder fo a b ha hb]
  · simp [binaryOp, numOpOf, arithBinary, Number.apply, C09.C09_int_shl (F := F) a b ha hb]
  · simp [binaryOp, numOpOf, arithBinary, Number.apply, C09.C09_int_shr (F := F) a b ha hb]

theorem inRange_nat (n : Nat) (h : n ≤ 2147483647) : InRange (n : Int) := by
  unfold InRange; omega

/-- **C09 from the source text**: `a op b` for two integer literals (any radix, any separators) and `op` one of
`+ - * / // % ** << >>`: the built program runs to the EXACT result of Spec/Num.lean when that is representable in an `i32`,
and to unit when it is not (overflow, division by zero, negative exponent, shift out of range) — never to a wrapped value -/
theorem C09_text_int_arith (ra na rb nb : Nat) (sa sb : List Nat) (hra : 2 ≤ ra ∧ ra ≤ 36) (hrb : 2 ≤ rb ∧ rb ≤ 36)
    (hna : na ≤ 2147483647) (hnb : nb ≤ 2147483647) (hva : ValidSeps ra na sa) (hvb : ValidSeps rb nb sb)
    (oty : TokenType) (dop : Definition) (op : Instruction) (f : Int → Int → Option Int) (hop : opTok oty = some (dop, op))
    (hf : arithSpec op = some f) (s : List Char) (toks : List LexerToken) (hlex : lex cc s = .ok toks) (w1 to w2 : List Char)
    (htoks : toP toks = fiveToks (spellNumber ra na sa) w1 to w2 (spellNumber rb nb sb) .number oty .number) (input : Val F) :
    ∃ dd entry, buildText pf cc s = .ok (dd, entry) ∧
      RunsTo fo host dd entry input (numResult ((f na nb).map .int)) := by
  refine text_binop pf cc fo host s toks hlex _ w1 to w2 _ .number oty .number htoks .number dop .number op rfl rfl hop
    (.num (.int na)) (.num (.int nb))
    (by simp only [leafE, C14.C14_number_value pf ra na sa hra.1 hra.2 hna hva])
    (by simp only [leafE, C14.C14_number_value pf rb nb sb hrb.1 hrb.2 hnb hvb]) _
    (int_arith_value fo op f hf na nb (inRange_nat na hna) (inRange_nat nb hnb)) ?_ input
  cases op <;> first | rfl | (simp [arithSpec] at hf)

/-- `& | ^` on two integer literals: the result is the i32 whose every bit is the bit operation of the operands' bits -/
theorem C09_text_int_bitwise (ra na rb nb : Nat) (sa sb : List Nat) (hra : 2 ≤ ra ∧ ra ≤ 36) (hrb : 2 ≤ rb ∧ rb ≤ 36)
    (hna : na ≤ 2147483647) (hnb : nb ≤ 2147483647) (hva : ValidSeps ra na sa) (hvb : ValidSeps rb nb sb)
    (oty : TokenType) (dop : Definition) (op : Instruction) (g : Bool → Bool → Bool) (hop : opTok oty = some (dop, op))
    (hg : (op = .bitwiseAnd ∧ g = and) ∨ (op = .bitwiseOr ∧ g = or) ∨ (op = .bitwiseXor ∧ g = xor))
    (s : List Char) (toks : List LexerToken) (hlex : lex cc s = .ok toks) (w1 to w2 : List Char)
    (htoks : toP toks = fiveToks (spellNumber ra na sa) w1 to w2 (spellNumber rb nb sb) .number oty .number) (input : Val F) :
    ∃ r : Int, InRange r ∧ (∀ i, Spec.bit r i = g (Spec.bit na i) (Spec.bit nb i)) ∧
      ∃ dd entry, buildText pf cc s = .ok (dd, entry) ∧ RunsTo fo host dd entry input (.num (.int r)) := by
  have key : ∀ r : Int, binaryOp fo op (.num (.int na)) (.num (.int nb)) = some (.val (.num (.int r))) → (op == .apply) = false →
      ∃ dd entry, buildText pf cc s = .ok (dd, entry) ∧ RunsTo fo host dd entry input (.num (.int r)) := fun r hr hne =>
    text_binop pf cc fo host s toks hlex _ w1 to w2 _ .number oty .number htoks .number dop .number op rfl rfl hop
      (.num (.int na)) (.num (.int nb))
      (by simp only [leafE, C14.C14_number_value pf ra na sa hra.1 hra.2 hna hva])
      (by simp only [leafE, C14.C14_number_value pf rb nb sb hrb.1 hrb.2 hnb hvb]) _ hr hne input
  rcases hg with ⟨rfl, rfl⟩ | ⟨rfl, rfl⟩ | ⟨rfl, rfl⟩
  · obtain ⟨r, h1, h2, h3⟩ := C09.C09_int_bitwiseAnd (F := F) na nb
    exact ⟨r, h2, h3, key r (by simp [binaryOp, numOpOf, arithBinary, Number.apply, h1, numResult]) rfl⟩
  · obtain ⟨r, h1, h2, h3⟩ := C09.C09_int_bitwiseOr (F := F) na nb
    exact ⟨r, h2, h3, key r (by simp [binaryOp, numOpOf, arithBinary, Number.apply, h1, numResult]) rfl⟩
  · obtain ⟨r, h1, h2, h3⟩ := C09.C09_int_bitwiseXor (F := F) na nb
    exact ⟨r, h2, h3, key r (by simp [binaryOp, numOpOf, arithBinary, Number.apply, h1, numResult]) rfl⟩

end Garnish.Props.SourceProps
