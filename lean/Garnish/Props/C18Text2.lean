/-
Property C18, TEXT level, part 2: trailing whitespace.

`TextTrailingAt cc s s'`: `s' = s ++ w` for a non-empty run `w` of spaces/tabs, where the lexer ends `s` with a pending
number / float / identifier / annotation / operator or between tokens (`TrailGuard`, decided by `trailGuardB`; excluded:
inputs that end inside whitespace — covered by `TextAddSpace` — and inside a line annotation, where the blanks become
part of the comment). Proved:
  * `C18_text_trailing_lex` — `s'` lexes to the tokens of `s` followed by ONE Whitespace token spelling `w`; the core is
    `blank_vs_sentinel`: a blank ends the pending token exactly as the end-of-input sentinel does;
  * `C18_text_trailing_tokens` — `TrailingSpace (toP t) (toP t')` (parser-agent's relation);
  * `C18_text_trailing` — for EVERY such input `parse (toP t') = parse (toP t)` and the reference trees are equal;
  * `C18_text_trailing_result` — on `frag9'` both texts are built into objects on which the machine halts with the same
    value and trace (under `TextNodesInRange`: text-reading nodes sit on existing tokens).
Not proved here: blanks inserted directly before a newline; `TextPadOperator`; `TextAnnotation` (see the report).
-/
import Garnish.Lemmas.LexRewrite2b
import Garnish.Props.C18Text
namespace Garnish.Props.C18Text2
open Garnish Garnish.Gen Garnish.Spec Garnish.Model Garnish.Model.Lexer Garnish.Model.Parser
open Garnish.Abs Garnish.Abs.Source Garnish.Props.C02Parse Garnish.Props.C18Parse Garnish.Props.C18Text
open Garnish.Abs.Tree Garnish.Model.Literals Garnish.Model.Build Garnish.Props.C01Build Garnish.Props.C01Source
open Garnish.Props.C02Numbered

/-- the lexer ends `s` in a state where trailing blanks add exactly one Whitespace token -/
def TrailGuard (cc : CharClass) (s : List Char) : Prop :=
  ∃ σ toks, runChars cc s (Lexer.init theTree) [] = .ok (σ, toks) ∧ TrailState σ

/-- executable form of `TrailGuard` -/
def trailGuardB (cc : CharClass) (s : List Char) : Bool :=
  match runChars cc s (Lexer.init theTree) [] with
  | .ok (σ, _) =>
    σ.state == .number || σ.state == .float || σ.state == .identifier || σ.state == .annotation ||
    σ.state == .operator || (σ.state == .noToken && σ.couldBeSubExpression == false)
  | _ => false

theorem trailGuard_of_check {cc : CharClass} {s : List Char} (h : trailGuardB cc s = true) : TrailGuard cc s := by
  unfold trailGuardB at h
  cases hr : runChars cc s (Lexer.init theTree) [] with
  | ok r =>
    obtain ⟨σ, toks⟩ := r
    rw [hr] at h
    refine ⟨σ, toks, hr, ?_⟩
    simp only [Bool.or_eq_true, Bool.and_eq_true, beq_iff_eq] at h
    unfold TrailState PlainState
    rcases h with ((((h | h) | h) | h) | h) | h
    · exact Or.inl (Or.inl h)
    · exact Or.inl (Or.inr (Or.inl h))
    · exact Or.inl (Or.inr (Or.inr (Or.inl h)))
    · exact Or.inl (Or.inr (Or.inr (Or.inr (Or.inl h))))
    · exact Or.inl (Or.inr (Or.inr (Or.inr (Or.inr h))))
    · exact Or.inr h
  | err e => rw [hr] at h; cases h
  | panic m => rw [hr] at h; cases h
  | fuelOut => rw [hr] at h; cases h

/-- **trailing whitespace at the end of the input** -/
def TextTrailingAt (cc : CharClass) (s s' : List Char) : Prop :=
  ∃ c r, (c = ' ' ∨ c = '\t') ∧ (∀ x ∈ r, x = ' ' ∨ x = '\t') ∧ s' = s ++ c :: r ∧ TrailGuard cc s

/-- it is an instance of the unguarded text rewrite of Props/C18Text -/
theorem TextTrailingAt.toTrailing {cc : CharClass} {s s' : List Char} (h : TextTrailingAt cc s s') : TextTrailing s s' := by
  obtain ⟨c, r, hc, hr, rfl, _⟩ := h
  refine ⟨c :: r, by simp, ?_, rfl⟩
  intro x hx
  simp only [List.mem_cons] at hx
  rcases hx with rfl | hx
  · exact hc
  · exact hr x hx

/-- **through the lexer**: the tokens of `s` followed by one Whitespace token spelling the appended blanks.
Hypotheses on the tables: `cc.SaneBlank` (space, tab, NUL, newline neither alphanumeric nor numeric) and `cc.Sane2`. -/
theorem C18_text_trailing_lex (cc : CharClass) (hcc : cc.SaneBlank) (hcc2 : cc.Sane2) (s s' : List Char)
    (t : List LexerToken) (hl : lex cc s = .ok t) (h : TextTrailingAt cc s s') :
    ∃ ws, lex cc s' = .ok (t ++ [ws]) ∧ ws.tokenType = .whitespace ∧ s' = s ++ ws.text := by
  obtain ⟨c, r, hc, hr, rfl, σ, toks, hrun, hG⟩ := h
  obtain ⟨ws, h1, h2, h3⟩ := lex_trailing cc hcc hcc2 s c r hc hr σ toks hrun hG t hl
  exact ⟨ws, h1, h2, by rw [h3]⟩

/-- the parser's inputs are related by parser-agent's `TrailingSpace` -/
theorem C18_text_trailing_tokens (t : List LexerToken) (ws : LexerToken) (hw : ws.tokenType = .whitespace) :
    TrailingSpace (toP t) (toP (t ++ [ws])) := by
  have e : toP (t ++ [ws]) = toP t ++ toPFrom (0 + t.length) [ws] := toPFrom_append 0 t [ws]
  rw [e]
  refine .mk _ _ ?_
  intro w hwm
  simp only [toPFrom, List.mem_singleton] at hwm
  subst hwm
  simp [isTrimmable, hw]

/-- **every input** (no fragment): the parser returns exactly the same result, and so does the reference parser -/
theorem C18_text_trailing (cc : CharClass) (hcc : cc.SaneBlank) (hcc2 : cc.Sane2) (s s' : List Char)
    (t : List LexerToken) (hl : lex cc s = .ok t) (h : TextTrailingAt cc s s') :
    ∃ t', lex cc s' = .ok t' ∧ parse (toP t') = parse (toP t) ∧
      refParse Table.gen (toP t') = refParse Table.gen (toP t) := by
  obtain ⟨ws, h1, h2, _⟩ := C18_text_trailing_lex cc hcc hcc2 s s' t hl h
  have hts := C18_text_trailing_tokens t ws h2
  exact ⟨_, h1, C18_parse_trailingSpace hts, C18_refParse_trailingSpace Table.gen hts⟩

/-- text-reading nodes of the tree sit on tokens of the list -/
def TextNodesInRange (toks : List PToken) (rt : RTree) : Prop :=
  ∀ d k, (d, k) ∈ nodeDefs rt → readsText d = true → k < toks.length

theorem textAt_append_left (a b : List PToken) (k : Nat) (hk : k < a.length) : textAt (a ++ b) k = textAt a k := by
  unfold textAt
  rw [List.getElem?_append_left hk]

/-- **result half on `frag9'`**: if `s` lexes, is in the fragment, has the reference tree `rt`, elaborates to a well-formed
program `p` that evaluates to `v`, then BOTH texts are built into objects on which the machine halts with `v` and the
same host-call trace -/
theorem C18_text_trailing_result {F : Type} (pf : List Char → Option F) (cc : CharClass) (hcc : cc.SaneBlank)
    (hcc2 : cc.Sane2) (fo : FloatOps F) (host : Host F) (s s' : List Char) (t : List LexerToken) (hl : lex cc s = .ok t)
    (h : TextTrailingAt cc s s') (hf : frag9' (toP t) = true) (hf' : ∀ t', lex cc s' = .ok t' → frag9' (toP t') = true)
    (rt : RTree) (href : refParse Table.gen (toP t) = .ok rt) (hn : TextNodesInRange (toP t) rt)
    (p : Program F) (hel : elaborate pf (toP t) rt = some p) (hwf : C01.WFProgram p)
    (input : Val F) (fuel : Nat) (v : Val F) (st : St F) (he : evalProgram fo host fuel p input = .ok (v, st)) :
    ∀ src ∈ [s, s'], ∃ d entry, C01Text.buildText pf cc src = .ok (d, entry) ∧
      ∃ n m, run fo host (progOf d) n
          { pc := (progOf d).jumps[entry]?.getD 0, regs := [], vals := [input], frames := [], trace := [] } = (.halted m, n) ∧
        m.vals = [v] ∧ m.regs = [] ∧ m.frames = [] ∧ m.trace = st.trace := by
  obtain ⟨ws, hl', hw, _⟩ := C18_text_trailing_lex cc hcc hcc2 s s' t hl h
  have hts := C18_text_trailing_tokens t ws hw
  have href' : refParse Table.gen (toP (t ++ [ws])) = .ok rt := by
    rw [C18_refParse_trailingSpace Table.gen hts]; exact href
  have hel' : elaborate pf (toP (t ++ [ws])) rt = some p := by
    have e : toP (t ++ [ws]) = toP t ++ toPFrom (0 + t.length) [ws] := toPFrom_append 0 t [ws]
    rw [e, elaborate_congr pf (toP t ++ toPFrom (0 + t.length) [ws]) (toP t) rt
      (fun d k hm hr => textAt_append_left _ _ k (hn d k hm hr))]
    exact hel
  intro src hsrc
  simp only [List.mem_cons, List.mem_nil_iff, or_false] at hsrc
  rcases hsrc with rfl | rfl
  · exact C01Text.C01_text_correct pf cc fo host _ t hl hf rt href p hel hwf input fuel v st he
  · exact C01Text.C01_text_correct pf cc fo host _ _ hl' (hf' _ hl') rt href' p hel' hwf input fuel v st he

/-! ### the Rust tables; non-vacuity -/

theorem rustTables_saneBlank : rustTables.SaneBlank :=
  { rustTables_sane2.toSane with
    spaceA := by decide +kernel
    tabA := by decide +kernel
    spaceN := by decide +kernel
    tabN := by decide +kernel }

/-- `x + y` followed by two blanks and a tab: licensed … -/
theorem exTrail : TextTrailingAt rustTables exS (exS ++ [' ', ' ', '\t']) :=
  ⟨' ', [' ', '\t'], Or.inl rfl, by simp, rfl, trailGuard_of_check (by decide +kernel)⟩

/-- … so the rewritten text lexes and parses to exactly the same result -/
example : ∃ t', lex rustTables (exS ++ [' ', ' ', '\t']) = .ok t' ∧ parse (toP t') = parse (toP exT) ∧
    refParse Table.gen (toP t') = refParse Table.gen (toP exT) :=
  C18_text_trailing rustTables rustTables_saneBlank rustTables_sane2 exS _ exT exS_lex.1 exTrail

/-- also after an operator, a closing bracket, a number with a pending period: `f(1.` -/
example : trailGuardB rustTables ['f', '(', ')'] = true ∧ trailGuardB rustTables ['1', '.'] = true ∧
    trailGuardB rustTables ['"', 's', '"'] = true := by decide +kernel

/-- the guard excludes a line annotation (the blanks would join the comment) and an open char list -/
example : trailGuardB rustTables ['@', '@', 'n', 'o', 't', 'e'] = false ∧
    trailGuardB rustTables ['"', 'a'] = false := by decide +kernel

end Garnish.Props.C18Text2
