/-
C12 — totality and swap laws derived from the agreement theorems, for all operands.
-/
import Garnish.Props.C12Laws
namespace Garnish.Props.C12Laws
open Garnish Gen Garnish.Abs Garnish.Props.C12

variable {F : Type} (fo : FloatOps F)

/-- On integers the order is total: two operands are equal or one is strictly less. -/
theorem C12_int_total (a b : Int) :
    lessThan fo (.num (.int a)) (.num (.int b)) = .tru ∨ a = b ∨
    lessThan fo (.num (.int b)) (.num (.int a)) = .tru := by
  rw [(C12_int_order fo a b).1, (C12_int_order fo b a).1, ofBool_eq_tru, ofBool_eq_tru]
  simp; omega

/-- `a < b` is `b > a`, on integers and on char lists, as values (not only as truth). -/
theorem C12_int_lt_is_swapped_gt (a b : Int) :
    lessThan fo (.num (.int a)) (.num (.int b)) = greaterThan fo (.num (.int b)) (.num (.int a)) := by
  rw [(C12_int_order fo a b).1, (C12_int_order fo b a).2.1]

theorem C12_charList_lt_is_swapped_gt (a b : List Nat) :
    lessThan fo (.chars a) (.chars b) = greaterThan fo (.chars b) (.chars a) := by
  rw [(C12_charList_order fo a b).1, (C12_charList_order fo b a).2.1]

/-- `<=` is the negation of `>` on char lists: exactly one of them is the true value. -/
theorem C12_charList_le_xor_gt (a b : List Nat) :
    (lessThanOrEqual fo (.chars a) (.chars b) = .tru ∧ greaterThan fo (.chars a) (.chars b) = .fls) ∨
    (lessThanOrEqual fo (.chars a) (.chars b) = .fls ∧ greaterThan fo (.chars a) (.chars b) = .tru) := by
  rw [(C12_charList_order fo a b).2.2.1, (C12_charList_order fo a b).2.1]
  cases decide (b < a) <;> simp [Val.ofBool]

/-- The empty text is below every non-empty text; a proper prefix is below its extension. -/
theorem C12_charList_prefix_lt (a : List Nat) (x : Nat) (t : List Nat) :
    lessThan fo (.chars a) (.chars (a ++ x :: t)) = .tru := by
  rw [(C12_charList_order fo a (a ++ x :: t)).1, ofBool_eq_tru]
  simp
  induction a with
  | nil => exact List.Lex.nil
  | cons h tl ih => exact List.Lex.cons ih

end Garnish.Props.C12Laws
