/-
C11 (L2 refinement) — the register work-list algorithm `perform_equality_check` of
runtime/src/runtime/equality.rs (Model/Equality.lean) computes exactly the value-level equality `valEq`
(Abs/Ops.lean: structural equality of normal forms) of the values its two operands denote, for ALL value
graphs (unbounded depth and width, shared sub-values, equal values at different addresses), and leaves the
register stack exactly as it was below the two operands — whether it runs to the end or decides early.

Hypotheses: the operands decode (`Decodes`, structural; no well-foundedness or freshness assumption on
addresses) and contain no slice at a position `data_equal` reaches (`NoSlice`; the slice arms are outside
C11's domain and return `unsupported` in the model). No hypothesis on numbers (NaN included: the verdict is
still `valEq`, which uses the same IEEE comparison).

Every arm of `data_equal`'s dispatch agrees with `valEq` (lemma `dataEqual_step`, all 20 × 20 kind pairs):
no disagreement between code and value-level spec was found.
-/
import Garnish.Lemmas.EqualityRefine
import Garnish.Props.C11
namespace Garnish.Props.C11Refine
open Garnish Gen Garnish.Abs Garnish.Model.Equality Garnish.Lemmas Garnish.Lemmas.EqualityRefine

variable {F : Type} (fo : FloatOps F)

/-- THE THEOREM, with explicit fuel: any fuel ≥ `eqFuel vl vr = vsize vl + vsize vr + 1` suffices -/
theorem C11_equal_refines_fuel (view : StoreView F) (l r : Nat) (vl vr : Val F) (rest : List Nat)
    (hl : Decodes view l vl) (hr : Decodes view r vr) (nl : NoSlice vl) (nr : NoSlice vr)
    (fuel : Nat) (hf : eqFuel vl vr ≤ fuel) :
    performEqualityCheck fo fuel view (r :: l :: rest) = .ok (valEq fo vl vr, rest) := by
  have h := eqLoop_spec fo rest fuel [⟨l, r, vl, vr⟩]
    (by intro p hp; simp only [List.mem_singleton] at hp; subst hp; exact ⟨hl, hr, nl, nr⟩)
    (by simp only [pendSize, eqFuel] at hf ⊢; omega)
  have hlen : ¬ (r :: l :: rest).length < 2 := by simp
  have hstart : (r :: l :: rest).length - 2 = rest.length := by simp
  simp only [performEqualityCheck, hlen, if_false, hstart]
  simpa [flat, pendAll] using h

/-- THE THEOREM: for all decodable slice-free operands the work-list algorithm returns the value-level
verdict and restores the register stack to `rest` -/
theorem C11_equal_refines (view : StoreView F) (l r : Nat) (vl vr : Val F) (rest : List Nat)
    (hl : Decodes view l vl) (hr : Decodes view r vr) (nl : NoSlice vl) (nr : NoSlice vr) :
    ∃ fuel, performEqualityCheck fo fuel view (r :: l :: rest) = .ok (valEq fo vl vr, rest) :=
  ⟨eqFuel vl vr, C11_equal_refines_fuel fo view l r vl vr rest hl hr nl nr _ (Nat.le_refl _)⟩

/-- it never runs out of fuel, errs or panics above the bound: termination is part of the statement -/
theorem C11_equal_terminates (view : StoreView F) (l r : Nat) (vl vr : Val F) (rest : List Nat)
    (hl : Decodes view l vl) (hr : Decodes view r vr) (nl : NoSlice vl) (nr : NoSlice vr)
    (fuel : Nat) (hf : eqFuel vl vr ≤ fuel) :
    (performEqualityCheck fo fuel view (r :: l :: rest)).isOk = true := by
  rw [C11_equal_refines_fuel fo view l r vl vr rest hl hr nl nr fuel hf]; rfl

/-- `equal` hands `valEq` to `push_boolean` -/
theorem C11_equalInstr_refines (view : StoreView F) (l r : Nat) (vl vr : Val F) (rest : List Nat)
    (hl : Decodes view l vl) (hr : Decodes view r vr) (nl : NoSlice vl) (nr : NoSlice vr) :
    ∃ fuel, equal fo fuel view (r :: l :: rest) = .ok (valEq fo vl vr, rest) :=
  ⟨eqFuel vl vr, by
    simp [equal, C11_equal_refines_fuel fo view l r vl vr rest hl hr nl nr _ (Nat.le_refl _)]⟩

/-- `!=` is the negation of the same verdict, with the same register effect -/
theorem C11_notEqual_refines (view : StoreView F) (l r : Nat) (vl vr : Val F) (rest : List Nat)
    (hl : Decodes view l vl) (hr : Decodes view r vr) (nl : NoSlice vl) (nr : NoSlice vr) :
    ∃ fuel, notEqual fo fuel view (r :: l :: rest) = .ok (!valEq fo vl vr, rest) :=
  ⟨eqFuel vl vr, by
    simp [notEqual, C11_equal_refines_fuel fo view l r vl vr rest hl hr nl nr _ (Nat.le_refl _)]⟩

/-- "a comparison leaves nothing behind on the operand stack however early it decides": whatever the
verdict, the registers afterwards are exactly those below the two operands -/
theorem C11_register_balance (view : StoreView F) (l r : Nat) (vl vr : Val F) (rest : List Nat)
    (hl : Decodes view l vl) (hr : Decodes view r vr) (nl : NoSlice vl) (nr : NoSlice vr)
    (fuel : Nat) (hf : eqFuel vl vr ≤ fuel) :
    ∃ b, performEqualityCheck fo fuel view (r :: l :: rest) = .ok (b, rest) :=
  ⟨_, C11_equal_refines_fuel fo view l r vl vr rest hl hr nl nr fuel hf⟩

/-- "regardless of how, where or in which order the values were created": two pairs of addresses (even in
two different stores, above different registers) that denote the same values get the same verdict -/
theorem C11_independent_of_addresses (view view' : StoreView F) (l r l' r' : Nat) (vl vr : Val F)
    (rest rest' : List Nat)
    (hl : Decodes view l vl) (hr : Decodes view r vr) (hl' : Decodes view' l' vl) (hr' : Decodes view' r' vr)
    (nl : NoSlice vl) (nr : NoSlice vr) :
    ∃ fuel b, performEqualityCheck fo fuel view (r :: l :: rest) = .ok (b, rest) ∧
              performEqualityCheck fo fuel view' (r' :: l' :: rest') = .ok (b, rest') :=
  ⟨eqFuel vl vr, valEq fo vl vr,
    C11_equal_refines_fuel fo view l r vl vr rest hl hr nl nr _ (Nat.le_refl _),
    C11_equal_refines_fuel fo view' l' r' vl vr rest' hl' hr' nl nr _ (Nat.le_refl _)⟩

/-! ### the equivalence laws, transported to the code -/

/-- symmetry of the code's verdict -/
theorem C11_code_symm (h : FloatEqLaws fo) (view : StoreView F) (l r : Nat) (vl vr : Val F) (rest : List Nat)
    (hl : Decodes view l vl) (hr : Decodes view r vr) (nl : NoSlice vl) (nr : NoSlice vr) :
    ∃ fuel, performEqualityCheck fo fuel view (r :: l :: rest)
      = (performEqualityCheck fo fuel view (l :: r :: rest)) := by
  refine ⟨eqFuel vl vr, ?_⟩
  rw [C11_equal_refines_fuel fo view l r vl vr rest hl hr nl nr _ (Nat.le_refl _),
    C11_equal_refines_fuel fo view r l vr vl rest hr hl nr nl _ (by simp [eqFuel]; omega),
    C11.C11_eq_symm fo h]

/-- reflexivity: a clean value equals itself, also when read from two different addresses -/
theorem C11_code_refl (h : FloatEqLaws fo) (view : StoreView F) (a a' : Nat) (v : Val F) (rest : List Nat)
    (ha : Decodes view a v) (ha' : Decodes view a' v) (hc : C11.Clean fo v) (n : NoSlice v) :
    ∃ fuel, performEqualityCheck fo fuel view (a' :: a :: rest) = .ok (true, rest) := by
  refine ⟨eqFuel v v, ?_⟩
  rw [C11_equal_refines_fuel fo view a a' v v rest ha ha' n n _ (Nat.le_refl _), C11.C11_eq_refl fo h v hc]

/-- transitivity of the code's verdicts -/
theorem C11_code_trans (h : FloatEqLaws fo) (view : StoreView F) (a b c : Nat) (va vb vc : Val F) (rest : List Nat)
    (ha : Decodes view a va) (hb : Decodes view b vb) (hc : Decodes view c vc)
    (ca : C11.Clean fo va) (cc : C11.Clean fo vc) (na : NoSlice va) (nb : NoSlice vb) (nc : NoSlice vc)
    (f1 f2 : Nat) (hf1 : eqFuel va vb ≤ f1) (hf2 : eqFuel vb vc ≤ f2)
    (h1 : performEqualityCheck fo f1 view (b :: a :: rest) = .ok (true, rest))
    (h2 : performEqualityCheck fo f2 view (c :: b :: rest) = .ok (true, rest)) :
    ∃ fuel, performEqualityCheck fo fuel view (c :: a :: rest) = .ok (true, rest) := by
  rw [C11_equal_refines_fuel fo view a b va vb rest ha hb na nb f1 hf1] at h1
  rw [C11_equal_refines_fuel fo view b c vb vc rest hb hc nb nc f2 hf2] at h2
  have e1 : valEq fo va vb = true := by simpa using h1
  have e2 : valEq fo vb vc = true := by simpa using h2
  refine ⟨eqFuel va vc, ?_⟩
  rw [C11_equal_refines_fuel fo view a c va vc rest ha hc na nc _ (Nat.le_refl _),
    C11.C11_eq_trans fo h va vb vc ca cc e1 e2]

/-! ### non-vacuity: a concrete store with sharing, equal values at different addresses, nested
lists against nested concatenations, and an early exit with pending work on the stack -/

/--
```
 0 ()            1 1             2 2            3 'a'          4 "a"          10 1 (second copy)
 5 (1 = 'a')                     9 (10 = "a")                   -- equal pairs at different addresses
 6 [1, 5, 5]     (item 5 shared)  7 [1]          8 [5, 9]
11 7 <> 8        = 1, 5, 9
12 11 <> 2       = 1, 5, 9, 2     (nested concatenation)
13 [1, 5, 5, 2]                  16 [1, 5, 5, 10]
14 [6, 12]                       15 [11, 13]
```
-/
def exView : StoreView F where
  typeOf a := match a with
    | 0 => some .unit | 1 => some .number | 2 => some .number | 3 => some .char | 4 => some .charList
    | 5 => some .pair | 6 => some .list | 7 => some .list | 8 => some .list | 9 => some .pair
    | 10 => some .number | 11 => some .concatenation | 12 => some .concatenation | 13 => some .list
    | 14 => some .list | 15 => some .list | 16 => some .list
    | _ => none
  number a := match a with
    | 1 => some (.int 1) | 2 => some (.int 2) | 10 => some (.int 1) | _ => none
  char a := match a with | 3 => some 97 | _ => none
  byte _ := none
  symbol _ := none
  expression _ := none
  external _ := none
  type_ _ := none
  pair a := match a with | 5 => some (1, 3) | 9 => some (10, 4) | _ => none
  range _ := none
  concatenation a := match a with | 11 => some (7, 8) | 12 => some (11, 2) | _ => none
  slice _ := none
  partial_ _ := none
  listItems a := match a with
    | 6 => some [1, 5, 5] | 7 => some [1] | 8 => some [5, 9] | 13 => some [1, 5, 5, 2]
    | 14 => some [6, 12] | 15 => some [11, 13] | 16 => some [1, 5, 5, 10] | _ => none
  concatItems a := match a with | 11 => some [1, 5, 9] | 12 => some [1, 5, 9, 2] | _ => none
  chars a := match a with | 4 => some [97] | _ => none
  bytes _ := none
  symList _ := none

def one : Val F := .num (.int 1)
def two : Val F := .num (.int 2)
def p5 : Val F := .pair one (.char 97)
def p9 : Val F := .pair one (.chars [97])
def v6 : Val F := .list [one, p5, p5]
def v11 : Val F := .concat (.list [one]) (.list [p5, p9])
def v12 : Val F := .concat v11 two
def v13 : Val F := .list [one, p5, p5, two]
def v14 : Val F := .list [v6, v12]
def v15 : Val F := .list [v11, v13]
def v16 : Val F := .list [one, p5, p5, one]

theorem d1 : Decodes (exView (F := F)) 1 one := .num rfl rfl
theorem d2 : Decodes (exView (F := F)) 2 two := .num rfl rfl
theorem d10 : Decodes (exView (F := F)) 10 one := .num rfl rfl
theorem d5 : Decodes (exView (F := F)) 5 p5 := .pair rfl rfl d1 (.char rfl rfl)
theorem d9 : Decodes (exView (F := F)) 9 p9 := .pair rfl rfl d10 (.chars rfl rfl)
theorem d6 : Decodes (exView (F := F)) 6 v6 := .list rfl rfl (.cons d1 (.cons d5 (.cons d5 .nil)))
theorem d7 : Decodes (exView (F := F)) 7 (.list [one]) := .list rfl rfl (.cons d1 .nil)
theorem d8 : Decodes (exView (F := F)) 8 (.list [p5, p9]) := .list rfl rfl (.cons d5 (.cons d9 .nil))
theorem f7 : FlatOf (exView (F := F)) 7 [1] := .list rfl rfl
theorem f8 : FlatOf (exView (F := F)) 8 [5, 9] := .list rfl rfl
theorem f11 : FlatOf (exView (F := F)) 11 ([1] ++ [5, 9]) := .concat rfl rfl f7 f8
theorem f2 : FlatOf (exView (F := F)) 2 [2] := .other (t := .number) rfl (by decide) (by decide)
theorem d11 : Decodes (exView (F := F)) 11 v11 := .concat rfl rfl d7 d8 f7 f8 rfl
theorem d12 : Decodes (exView (F := F)) 12 v12 := .concat rfl rfl d11 d2 f11 f2 rfl
theorem d13 : Decodes (exView (F := F)) 13 v13 :=
  .list rfl rfl (.cons d1 (.cons d5 (.cons d5 (.cons d2 .nil))))
theorem d14 : Decodes (exView (F := F)) 14 v14 := .list rfl rfl (.cons d6 (.cons d12 .nil))
theorem d15 : Decodes (exView (F := F)) 15 v15 := .list rfl rfl (.cons d11 (.cons d13 .nil))
theorem d16 : Decodes (exView (F := F)) 16 v16 :=
  .list rfl rfl (.cons d1 (.cons d5 (.cons d5 (.cons d10 .nil))))

/-- the hypotheses of the theorem are satisfiable on a nested, shared graph, and the verdict is `true`:
`[[1, p, p], (([1] <> [p, p']) <> 2)] == [[1] <> [p, p'], [1, p, p, 2]]` with `p = (1 = 'a')`, `p' = (1 = "a")` -/
example : ∃ fuel, performEqualityCheck fo fuel exView [15, 14, 77, 88] = .ok (true, [77, 88]) := by
  have h := C11_equal_refines fo exView 14 15 v14 v15 [77, 88] d14 d15 rfl rfl
  have e : valEq fo (v14 : Val F) v15 = true := by
    simp [valEq, v14, v15, v6, v11, v12, v13, p5, p9, one, two, norm, normList, normConcat, nvalEq, nvalsEq,
      Number.numEq]
  rwa [e] at h

/-- early exit: `[1, p, p, 2] != [1, p, p, 1]` is decided by the first pair popped (the LAST items) while
three item pairs are still pending; the six registers are removed and `[77, 88]` is what remains -/
example : ∃ fuel, performEqualityCheck fo fuel exView [16, 13, 77, 88] = .ok (false, [77, 88]) := by
  have h := C11_equal_refines fo exView 13 16 v13 v16 [77, 88] d13 d16 rfl rfl
  have e : valEq fo (v13 : Val F) v16 = false := by
    simp [valEq, v13, v16, p5, one, two, norm, normList, nvalEq, nvalsEq, Number.numEq]
  rwa [e] at h

/-- the model itself, run on the same registers (no theorem involved): same answers with fuel 40 -/
example : performEqualityCheck fo 40 exView [15, 14, 77, 88] = .ok (true, [77, 88]) := rfl

example : performEqualityCheck fo 40 exView [16, 13, 77, 88] = .ok (false, [77, 88]) := rfl

end Garnish.Props.C11Refine
