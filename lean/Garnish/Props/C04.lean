/-
C04 — an accepted parse result is a proper binary tree whose in-order walk meets every significant token once, in
source order.

What is proved here (property theorems only; proofs in Garnish/Lemmas/Tree.lean) is the correctness of the CHECKER that
the TREECHK suite runs on the node dump of the real implementation, for ALL parse results (no size bound):
  * `properTree` decides `ProperTree` (links in range, child/parent links agree, no index twice: no sharing, no cycle),
  * `toTree` returns exactly the tree that follows the links,
  * its in-order walk is duplicate free and visits exactly the nodes reachable from the root,
  * `inorderSorted` decides "token positions strictly increase along the in-order walk".
The universal statement about `parse` itself is FALSE for the code as it is (witnesses in the report: `5 + + 5`,
`5 + @a`, `!! ,`, `5 ~~ -- 3`, ...); it is stated as `C04_parse_proper` / `C04_parse_proper_partial` below and left
unproved.  The repaired pipeline rejects improper trees in `build` (patch .work/buildvalidate.diff).
-/
import Garnish.Spec.Tree
import Garnish.Lemmas.Tree
import Garnish.Lemmas.Parser
namespace Garnish.Props.C04
open Garnish Garnish.Gen Garnish.Model.Parser Garnish.Spec

/-- the executable checker is sound: an accepted node array is a proper tree -/
theorem C04_properTree_sound (r : ParseResult) (h : properTree r = true) : ProperTree r :=
  properTree_sound r h

/-- the executable checker is complete: it accepts every proper tree (the traversal fuel `nodes.size` always suffices) -/
theorem C04_properTree_complete (r : ParseResult) (h : ProperTree r) : properTree r = true :=
  properTree_complete r h

/-- `toTree` returns `t` iff `t` is the tree obtained by following the links from the root, with every index at most once -/
theorem C04_toTree_some_iff (r : ParseResult) (t : Tree) :
    toTree r = some t ↔ IsTreeAt r.nodes none (rootLink r) t ∧ t.inorder.Nodup :=
  toTree_some_iff r t

/-- the tree that follows the links is unique -/
theorem C04_tree_unique (nodes : Array ParseNode) (p link : Option Nat) (t t' : Tree)
    (h : IsTreeAt nodes p link t) (h' : IsTreeAt nodes p link t') : t = t' :=
  h.unique h'

/-- the in-order walk has no duplicates and visits exactly the nodes reachable from the root through left/right links -/
theorem C04_inorder_visits_all (r : ParseResult) (t : Tree) (h : toTree r = some t) :
    t.inorder.Nodup ∧ ∀ i, i ∈ t.inorder ↔ Reachable r i :=
  inorder_visits_all r t h

/-- `inorderSorted` decides: along the in-order walk the token positions strictly increase (source order; in particular no
    token is met twice) -/
theorem C04_inorderSorted_iff (t : Tree) : inorderSorted t = true ↔ t.inorderToks.Pairwise (· < ·) :=
  inorderSorted_iff t

/-- the model of `parse` always returns (`ok` or `err`): no panic site is reachable, the capped walks end (C03 for parse) -/
theorem C04_parse_returns (tokens : List PToken) : Safe (parse tokens) := parse_safe tokens

/-- token k carries position k (what the harness' `!tokidx` mode does) -/
def numbered : List PToken → Nat → List PToken
  | [], _ => []
  | t :: rest, k => { t with col := k } :: numbered rest (k + 1)

/-- C04 for a token list: if `parse` accepts, the result is a proper tree, in source order, covering exactly the significant
    tokens (synthesized `List` nodes aside) -/
def C04_holds_on (toks : List PToken) : Prop :=
  ∀ r, parse (numbered toks 0) = .ok r →
    ∃ t, toTree r = some t ∧ inorderSorted t = true ∧ coverage r t.inorder (significant toks) = ([], [])

/-- the full claim: NOT a theorem of the code as it is (e.g. `Number Whitespace PlusSign Whitespace PlusSign Whitespace Number`) -/
def C04_parse_proper : Prop := ∀ toks, C04_holds_on toks

def isAtomTok (t : PToken) : Bool :=
  match getDefinition t.type with
  | (d, .value) => d != .drop && d != .expressionTerminator
  | (_, .identifier) => true
  | _ => false

def isBinOpTok (t : PToken) : Bool := (getDefinition t.type).2 == .binaryLeftToRight
def isWsTok (t : PToken) : Bool := t.type == .whitespace

/-- token lists of the shape `atom (ws? binop ws? atom)*` -/
def atomOpShape : List PToken → Bool
  | [a] => isAtomTok a
  | a :: rest =>
    isAtomTok a &&
      (match rest with
       | w1 :: o :: w2 :: rest' => (isWsTok w1 && isBinOpTok o && isWsTok w2 && atomOpShape rest')
                                    || (isWsTok w1 && isBinOpTok o && atomOpShape (w2 :: rest'))
                                    || (isBinOpTok w1 && isWsTok o && atomOpShape (w2 :: rest'))
                                    || (isBinOpTok w1 && atomOpShape (o :: w2 :: rest'))
       | [o, b] => isBinOpTok o && isAtomTok b
       | _ => false)
  | [] => false

/-- (see `Garnish.Props.C02Parse.C04_parse_proper_fragment` / `C02_parse_fragment_precOK_inorder` for what is proved on the
    fragment `value (trivia* binop trivia* value)*`: an accepted list yields a proper tree whose in-order walk is the
    significant tokens.)
    the partial claim asked for (binary operators of any priorities between atoms): stated, NOT proved end to end — it needs
    the array-level right-spine simulation; proved pieces are in Garnish/Lemmas/ParserInv.lean (`walkLoop_chain`: on a parent
    chain the capped walk never hits its cap and computes the bottom-up search; `step_binop_post`; trivia invisibility).
    The correspondence suite and TREECHK check the claim on every generated instance instead. -/
def C04_parse_proper_partial : Prop := ∀ toks, atomOpShape toks = true → C04_holds_on toks

end Garnish.Props.C04
