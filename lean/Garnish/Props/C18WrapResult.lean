/-
C18, the RESULT half of "wrapping a sub-expression in parentheses" — the positive, guarded theorem.

Props/C18Wrap.lean shows that a licensed wrap keeps the reference tree up to `( )` nodes (`TreeEqGroups`) and that this is NOT
enough for the result: `C18_wrap_list_prefix_result_differs` (`1, 2, 3` vs `(1, 2), 3`).  Here: the exact guard under which it is.

`safe T` (Lemmas/WrapElab.lean, executable): every `( )` node of the tree is REDUNDANT for the elaboration — its content is
  (L) not a list of the parent's own kind, when it is an operand of `,` / of the space list   [`(a, b), c` ≠ `a, b, c`: the witness]
  (C) not a conditional / else-chain, when it is the left operand of `&&` / `||` or the final arm of `|>`   [parentheses needed]
  (E) not the left operand of `|>` at all   [`(c ?> t) |> e` is not an else-chain: elaboration undefined]
  (S) not a side-effect block directly after a value   [`v ([b])`]
  and not empty.  In every other position — operand of any unary / binary operator, of `=`, `~>`, `;`, of a conditional, item of a
  list of the other kind, body of `{ }` or of `[ ]`, inside other parentheses, the whole program — parentheses are transparent.
`TextEq` (Lemmas/WrapElab3.lean, executable `textEqB`): two trees have the same shape and definitions, the same token text at
corresponding positions, the same names for corresponding nested bodies.

  C18_wrap_go_same          `go` (the elaboration pass) computes the same expression and bodies on a safe tree and on the tree
                            without its parentheses (`go_ungroup`), for EVERY tree: all operator classes, lists, conditionals,
                            else-chains, nested bodies, side-effect blocks
  C18_wrap_elabWith_same    two safe trees that agree, parentheses removed, up to positions elaborate to the same program
  C18_wrap_result_same      … stated for `refParse` / `elaborate` / `evalProgram`: same program, hence the same evaluated result
                            (value and host-call trace), for every input, host and fuel
  C18_wrap_result_same_of_treeEq / C18_wrapValue_result_same
                            the same from `TreeEqGroups` — the conclusion of the tree half (Props/C18Wrap.lean) — plus the flat
                            condition "same sequence of token texts and body names along the two trees"
  C18_wrap_guard_tight      the guard is tight: the tree of `(1, 2), 3` violates exactly (L), everything else of the hypotheses
                            holds, and the results differ (`C18_wrap_list_prefix_result_differs`)
What remains (hypotheses here, decidable, `by decide` on concrete lists): (i) that the token texts along the two trees agree
(`TextEq`, or its flat form `texts a (ungroup T) = texts b (ungroup T')`) is not derived from the token-level rewrite
`pre ++ mid ++ post ↦ pre ++ ( :: mid ++ ) :: post`: `C18_refParse_wrapOperand` gives equality up to positions (`TreeEqGroups`) but
does not export which position of the one list corresponds to which of the other; (ii) `safe` is a condition on the reference
TREE, not yet on the token list (for `wrapValueOK` / `wrapGroupOK` wraps clause (L)/(C)/(E) would read: the wrapped tokens are not
a comma / space list next to a `,` / list whitespace, not a conditional next to `&&` `||` `|>`).
-/
import Garnish.Lemmas.WrapElab4
import Garnish.Props.C18Wrap
namespace Garnish.Props.C18WrapResult
open Garnish Garnish.Gen Garnish.Spec Garnish.Abs Garnish.Abs.Source Garnish.Model.Parser Garnish.Props.C02Parse
open Garnish.Props.C18Parse Garnish.Props.C18Wrap Garnish.Props.C01Source Garnish.Props.C01Build

variable {F : Type} (pf : List Char → Option F)

/-- **parentheses that are redundant do not change what the elaboration pass computes**: expression and bodies of a safe tree are
those of the tree without its `( )` nodes -/
theorem C18_wrap_go_same (κ : Nat → Nat) (toks : List PToken) (T : RTree) (hs : safe T = true) :
    (go pf κ toks T).map (fun x => (x.e, x.bodies)) = (go pf κ toks (ungroup T)).map (fun x => (x.e, x.bodies)) := by
  rw [go_ungroup pf κ toks T hs]
  cases go pf κ toks (ungroup T) with
  | none => rfl
  | some x => simp [fixP_e, fixP_bodies]

/-- **the guarded theorem, any naming of the bodies** -/
theorem C18_wrap_elabWith_same (toks toks' : List PToken) (κ κ' : Nat → Nat) (T T' : RTree) (hs : safe T = true)
    (hs' : safe T' = true) (he : TextEq toks toks' κ κ' (ungroup T) (ungroup T')) :
    elabWith pf κ toks T = elabWith pf κ' toks' T' := by
  unfold elabWith
  rw [go_ungroup pf κ toks T hs, go_ungroup pf κ' toks' T' hs', go_textEq pf _ _ he]
  cases go pf κ' toks' (ungroup T') with
  | none => rfl
  | some x => simp [fixP_e, fixP_bodies]

/-- … with the bodies named in source order, and by their jump entries -/
theorem C18_wrap_elaborate_same (toks toks' : List PToken) (T T' : RTree) (hs : safe T = true) (hs' : safe T' = true)
    (he : TextEq toks toks' (srcName T) (srcName T') (ungroup T) (ungroup T')) :
    elabSrc pf toks T = elabSrc pf toks' T' ∧ elaborate pf toks T = elaborate pf toks' T' := by
  have h1 : elabSrc pf toks T = elabSrc pf toks' T' := C18_wrap_elabWith_same pf toks toks' _ _ T T' hs hs' he
  refine ⟨h1, ?_⟩
  unfold elaborate
  rw [h1]
  cases elabSrc pf toks' T' with
  | none => rfl
  | some p0 => exact C18_wrap_elabWith_same pf toks toks' _ _ T T' hs hs' (he.map (canonName p0))

/-- **C18, wrapping in parentheses leaves the evaluated result unchanged — under the guard**: two token lists whose reference
trees have only redundant parentheses and agree, parentheses removed, up to positions (the wrapped list and the original: `T'` is
`T` with `( )` nodes added) elaborate to the SAME program; hence the reference evaluator gives the same outcome — value, final
input value and host-call trace, or the same error — for every input, host and fuel -/
theorem C18_wrap_result_same (fo : FloatOps F) (host : Host F) (a b : List PToken) (T T' : RTree)
    (_ha : refParse Table.gen a = .ok T) (_hb : refParse Table.gen b = .ok T') (hs : safe T = true) (hs' : safe T' = true)
    (he : TextEq a b (srcName T) (srcName T') (ungroup T) (ungroup T')) :
    elaborate pf a T = elaborate pf b T' ∧
    ∀ (fuel : Nat) (input : Val F),
      (elaborate pf a T).map (fun p => evalProgram fo host fuel p input) =
        (elaborate pf b T').map (fun p => evalProgram fo host fuel p input) := by
  have h := (C18_wrap_elaborate_same pf a b T T' hs hs' he).2
  exact ⟨h, fun fuel input => by rw [h]⟩

/-! ### from `TreeEqGroups` (what the tree half of C18 proves) -/

/-- the hypothesis `TextEq` in flat form: the trees are equal up to positions and `( )` nodes (`TreeEqGroups`: the conclusion of
`C18_refParse_wrapValue` / `C18_refParse_wrapGroup` / `C18_refParse_wrapOperand`), and the SEQUENCES of token texts and of body
names along the trees agree — wrapping changes neither -/
theorem C18_wrap_result_same_of_treeEq (fo : FloatOps F) (host : Host F) (a b : List PToken) (T T' : RTree)
    (hT : TreeEqGroups T T') (hs : safe T = true) (hs' : safe T' = true)
    (ht : texts a (ungroup T) = texts b (ungroup T'))
    (hn : names (srcName T) (ungroup T) = names (srcName T') (ungroup T')) :
    elaborate pf a T = elaborate pf b T' ∧
    ∀ (fuel : Nat) (input : Val F),
      (elaborate pf a T).map (fun p => evalProgram fo host fuel p input) =
        (elaborate pf b T').map (fun p => evalProgram fo host fuel p input) := by
  have he : TextEq a b (srcName T) (srcName T') (ungroup T) (ungroup T') :=
    textEq_of_flat _ _ (by rw [eraseTok_ungroup, eraseTok_ungroup]; exact hT) ht hn
  have h := (C18_wrap_elaborate_same pf a b T T' hs hs' he).2
  exact ⟨h, fun fuel input => by rw [h]⟩

/-- **a value token in parentheses: tree half and result half together** — under the syntactic condition `wrapValueOK` of
Props/C18Wrap.lean the two lists have the same reference tree up to `( )` nodes; if that tree's parentheses are redundant
(`safe`: a value is never a list or a conditional, so the new pair passes every clause but (S); the other parentheses of the
list have to be redundant too) and the token texts agree along the trees, the programs and the results are the same -/
theorem C18_wrapValue_result_same (fo : FloatOps F) (host : Host F) {pre post : List PToken} {v o c : PToken} {T T' : RTree}
    (hw : wrapValueOK pre v post = true) (ho : o.type = .startGroup) (hc : c.type = .endGroup)
    (hn : NoTrim (pre ++ ([v] ++ post))) (hn' : NoTrim (pre ++ o :: ([v] ++ c :: post)))
    (href : refParse Table.gen (pre ++ ([v] ++ post)) = .ok T)
    (href' : refParse Table.gen (pre ++ o :: ([v] ++ c :: post)) = .ok T')
    (hs : safe T = true) (hs' : safe T' = true)
    (ht : texts (pre ++ ([v] ++ post)) (ungroup T) = texts (pre ++ o :: ([v] ++ c :: post)) (ungroup T'))
    (hnm : names (srcName T) (ungroup T) = names (srcName T') (ungroup T')) :
    elaborate pf (pre ++ ([v] ++ post)) T = elaborate pf (pre ++ o :: ([v] ++ c :: post)) T' ∧
    ∀ (fuel : Nat) (input : Val F),
      (elaborate pf (pre ++ ([v] ++ post)) T).map (fun p => evalProgram fo host fuel p input) =
        (elaborate pf (pre ++ o :: ([v] ++ c :: post)) T').map (fun p => evalProgram fo host fuel p input) := by
  have h := C18_refParse_wrapValue hw ho hc hn hn' href
  rw [href, href'] at h
  exact C18_wrap_result_same_of_treeEq pf fo host _ _ T T' h hs hs' ht hnm

/-! ### non-vacuity -/

/-- `1 + 2, 3` and `(1 + (2)), 3`: parentheses around an operand of `+` and around an item that is not a comma list -/
def exW : List PToken :=
  [tk .number "1" 0, tk .plusSign "+" 1, tk .number "2" 2, tk .comma "," 3, tk .number "3" 4]
def exW' : List PToken :=
  [tk .startGroup "(" 0, tk .number "1" 1, tk .plusSign "+" 2, tk .startGroup "(" 3, tk .number "2" 4, tk .endGroup ")" 5,
   tk .endGroup ")" 6, tk .comma "," 7, tk .number "3" 8]

def treeW : RTree :=
  .node (.node (.node .nil .number 0 .nil) .addition 1 (.node .nil .number 2 .nil)) .commaList 3 (.node .nil .number 4 .nil)
def treeW' : RTree :=
  .node (.group .group 0 (.node (.node .nil .number 1 .nil) .addition 2 (.group .group 3 (.node .nil .number 4 .nil))))
    .commaList 7 (.node .nil .number 8 .nil)

theorem exW_ref : refParse Table.gen exW = .ok treeW ∧ refParse Table.gen exW' = .ok treeW' := ⟨rfl, rfl⟩
theorem exW_safe : safe treeW = true ∧ safe treeW' = true := by decide
theorem exW_text : TextEq exW exW' (srcName treeW) (srcName treeW') (ungroup treeW) (ungroup treeW') :=
  textEqB_sound _ _ (by decide)

/-- the same program — `[1 + 2, 3]` — and therefore the same result -/
example : elaborate noFloat exW treeW = elaborate noFloat exW' treeW' ∧
    (elaborate noFloat exW' treeW').map (·.main) = some (.list [.binary .add (int 1) (int 2), int 3]) :=
  ⟨(C18_wrap_elaborate_same noFloat exW exW' treeW treeW' exW_safe.1 exW_safe.2 exW_text).2, rfl⟩

example (fo : FloatOps Float) (host : Host Float) (fuel : Nat) (input : Val Float) :
    (elaborate noFloat exW treeW).map (fun p => evalProgram fo host fuel p input) =
      (elaborate noFloat exW' treeW').map (fun p => evalProgram fo host fuel p input) :=
  (C18_wrap_result_same noFloat fo host exW exW' treeW treeW' exW_ref.1 exW_ref.2 exW_safe.1 exW_safe.2 exW_text).2 fuel input

/-! ### the guard is tight -/

def treeL : RTree :=
  .node (.node (.node .nil .number 0 .nil) .commaList 1 (.node .nil .number 2 .nil)) .commaList 3 (.node .nil .number 4 .nil)
def treeL' : RTree :=
  .node (.group .group 0 (.node (.node .nil .number 1 .nil) .commaList 2 (.node .nil .number 3 .nil))) .commaList 5
    (.node .nil .number 6 .nil)

/-- **tightness**: for `1, 2, 3` ↦ `(1, 2), 3` (the witness `C18_wrap_list_prefix_result_differs`) every hypothesis of
`C18_wrap_result_same` holds except clause (L) of the guard — the wrapped expression is a comma list and sits as the left
operand of a comma — and the elaborated programs differ -/
theorem C18_wrap_guard_tight :
    refParse Table.gen exL = .ok treeL ∧ refParse Table.gen exL' = .ok treeL' ∧ safe treeL = true ∧
    TextEq exL exL' (srcName treeL) (srcName treeL') (ungroup treeL) (ungroup treeL') ∧
    safe treeL' = false ∧
    leftSafe .commaList (.group .group 0 (.node (.node .nil .number 1 .nil) .commaList 2 (.node .nil .number 3 .nil))) = false ∧
    (elaborate noFloat exL treeL).map (·.main) ≠ (elaborate noFloat exL' treeL').map (·.main) := by
  refine ⟨rfl, rfl, by decide, textEqB_sound _ _ (by decide), by decide, by decide, ?_⟩
  have h1 : (elaborate noFloat exL treeL).map (·.main) = some (.list [int 1, int 2, int 3]) := rfl
  have h2 : (elaborate noFloat exL' treeL').map (·.main) = some (.list [.list [int 1, int 2], int 3]) := rfl
  rw [h1, h2]
  intro h
  injection h with h
  injection h with h
  have := congrArg List.length h
  simp at this

end Garnish.Props.C18WrapResult
