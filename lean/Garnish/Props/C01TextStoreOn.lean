/-
C01 from the source TEXT to a store that meets the RELATIVISED contract, and to `SimpleGarnishData`.

`C01_text_to_store_on`: `C01_text_to_store` (Props/C01TextStore.lean) with `StoreLawsOn S Inv Readable` in place of
`StoreLawsRun S`, `Inv` of the start state as an extra hypothesis and `Inv` of the end state as an extra conclusion,
for the instructions `C01_refine_step_on` covers (`RunOKOn`; any other instruction makes `RunOKOn` false).

`C01_text_to_simple_store`: the instance for the payload model of `SimpleGarnishData` (`simpleRStore hit h`) with a
cache that confirms its hits (`HitSound`) and ANY host model `h`: the text's program, relocated past the three
preallocated cells (`reloc`: the builder model's constant table is 0-based), loaded by `loadSimple` together with the
input value, run by the address-level loop, ends (`End`) after exactly the machine's number of steps with ONE
input-value address, which decodes to the value `evalProgram` assigns to the text; no register, no frame, `SInv`.
There is NO loading hypothesis and no store-law hypothesis left; what remains: the source-side hypotheses of
`C01_text_correct`, "the built constants and the input are leaves Simple holds" (`isLeafS`, decidable) and
`RunOKOn` along the run (in particular: only covered instructions are executed).
-/
import Garnish.Props.C01TextStoreSimple
import Garnish.Props.RuntimeRefineSimpleOn
import Garnish.Props.RuntimeRefineOn
import Garnish.Lemmas.RuntimeReloc
set_option linter.unusedSimpArgs false
set_option linter.unusedVariables false
namespace Garnish.Props.C01TextStore
open Garnish Garnish.Gen Garnish.Spec Garnish.Abs Garnish.Abs.Tree Garnish.Abs.Source Garnish.Model Garnish.Model.Parser
open Garnish.Model.Lexer Garnish.Model.Literals Garnish.Model.Build Garnish.Props.C01Build Garnish.Props.C01Source
open Garnish.Props.C02Numbered Garnish.Props.C01Text
open Garnish.Model.Equality Garnish.Model.Runtime Garnish.Lemmas.Runtime Garnish.Props.RuntimeRefine
open Garnish.Lemmas.Runtime.On Garnish.Lemmas.Runtime.Simple

variable {F σ : Type}
variable (pf : List Char → Option F) (cc : CharClass)

/-- **characters → store, relativised contract** -/
theorem C01_text_to_store_on {S : RStore F σ} {Inv : σ → Prop} {Rd : σ → Nat → Prop} (L : StoreLawsOn S Inv Rd)
    (fo : FloatOps F) (host : Host F) (loopFuel : Nat) (H : OtherHandlers σ)
    (s : List Char) (toks : List LexerToken)
    (hlex : lex cc s = .ok toks) (hf : frag9' (toP toks) = true) (rt : RTree)
    (href : refParse Table.gen (toP toks) = .ok rt) (p : Program F) (hel : elaborate pf (toP toks) rt = some p)
    (hwf : C01.WFProgram p) (input : Val F) (fuel : Nat) (v : Val F) (st : St F)
    (h : evalProgram fo host fuel p input = .ok (v, st)) :
    ∃ d entry n, buildText pf cc s = .ok (d, entry) ∧
      ∀ s0 : σ, ProgramLoaded S (progOf d) ((progOf d).jumps[entry]?.getD 0) s0 input → Inv s0 →
        RunOKOn fo host (progOf d) n
          { pc := (progOf d).jumps[entry]?.getD 0, regs := [], vals := [input], frames := [], trace := [] } →
        ∃ s' a, executeLoop fo S loopFuel H n s0 = .ok ((.end_, n), s') ∧
          S.vals s' = [a] ∧ Decodes (S.view s') a v ∧ S.regs s' = [] ∧ S.frames s' = [] ∧ Inv s' := by
  obtain ⟨d, entry, hb, n, m, hrun, hv, hr, hfr, _⟩ :=
    C01_text_correct pf cc fo host s toks hlex hf rt href p hel hwf input fuel v st h
  refine ⟨d, entry, n, hb, fun s0 hload hi hok => ?_⟩
  exact C01_refine_run_value_on fo L loopFuel H n hload.sim hi hload.consts hok hrun hv hr hfr

/-- **characters → `SimpleGarnishData`** -/
theorem C01_text_to_simple_store {hit : List (SimCell F) → SimCell F → Option Nat} (hs : HitSound hit)
    (hh : SimHost F) (fo : FloatOps F) (host : Host F) (loopFuel : Nat) (H : OtherHandlers (SimState F))
    (s : List Char) (toks : List LexerToken)
    (hlex : lex cc s = .ok toks) (hf : frag9' (toP toks) = true) (rt : RTree)
    (href : refParse Table.gen (toP toks) = .ok rt) (p : Program F) (hel : elaborate pf (toP toks) rt = some p)
    (hwf : C01.WFProgram p) (input : Val F) (fuel : Nat) (v : Val F) (st : St F)
    (h : evalProgram fo host fuel p input = .ok (v, st)) :
    ∃ d entry n, buildText pf cc s = .ok (d, entry) ∧
      ((progOf d).consts.toList.all isLeafS = true → isLeafS input = true →
        RunOKOn fo host (reloc (progOf d)) n
          { pc := (progOf d).jumps[entry]?.getD 0, regs := [], vals := [input], frames := [], trace := [] } →
        ∃ s' a, executeLoop fo (simpleRStore hit hh) loopFuel H n
            (loadSimple (reloc (progOf d)) ((progOf d).jumps[entry]?.getD 0) input) = .ok ((.end_, n), s') ∧
          s'.values = [a] ∧ Decodes (simView s'.cells) a v ∧ (simpleRStore hit hh).regs s' = [] ∧
          (simpleRStore hit hh).frames s' = [] ∧ SInv s') := by
  obtain ⟨d, entry, hb, n, m, hrun, hv, hr, hfr, _⟩ :=
    C01_text_correct pf cc fo host s toks hlex hf rt href p hel hwf input fuel v st h
  refine ⟨d, entry, n, hb, fun hleaf hin hok => ?_⟩
  have hleaf' : (reloc (progOf d)).consts.toList.all isLeafS = true := by
    show (Val.unit :: .fls :: .tru :: (progOf d).consts.toList).all isLeafS = true
    simp only [List.all_cons, hleaf, Bool.and_true]
    rfl
  have hload := C01_loadSimple_loaded hit hh (reloc (progOf d)) ((progOf d).jumps[entry]?.getD 0) input hleaf' hin
  have hinv : SInv (loadSimple (reloc (progOf d)) ((progOf d).jumps[entry]?.getD 0) input) :=
    C01_loadSimple_inv _ _ _ (by simp [reloc]) (by simp [reloc]) (by simp [reloc])
  rw [← run_reloc] at hrun
  exact C01_refine_run_value_on (S := simpleRStore hit hh) fo (C01_simpleStore_lawsOn hs) loopFuel H n hload.sim hinv
    hload.consts hok hrun hv hr hfr

end Garnish.Props.C01TextStore
