/-
Property C13 (lexer), proved on the model Garnish.Model.Lexer = compiler/src/lex/lexer.rs with the repair patches
lexfix-1..5 applied. Helper lemmas: Garnish/Lemmas/LexerC13.lean.

"Whenever `lex` succeeds, the token texts concatenated in order reproduce the input exactly, no token is empty, each
token's line and column are those of its first character, and operators and literals are classified by longest
match against the language's token table. A character that cannot start or continue any token makes `lex` fail; it
is never silently dropped, and a blank line separates sub-expressions whether or not spaces or tabs trail the line
before it."

All theorems are for every input `s : List Char` and every character-class table `cc` satisfying `cc.Sane2`:
`'\0'`, `'\n'` and `'.'` are neither numeric nor alphanumeric (`rustTables_sane2` proves it for the tables of the
Rust std the lexer is compiled against).
-/
import Garnish.Lemmas.LexerC13
namespace Garnish.Props.C13
open Garnish Garnish.Model.Lexer

/-- 1. the token texts concatenated in order reproduce the input exactly -/
theorem C13_lossless (cc : CharClass) (hcc : cc.Sane2) (s : List Char) (toks : List LexerToken)
    (h : lex cc s = .ok toks) : (toks.map (·.text)).flatten = s :=
  (lex_final cc hcc s toks h).lossless

/-- 2. no token is empty -/
theorem C13_nonempty (cc : CharClass) (hcc : cc.Sane2) (s : List Char) (toks : List LexerToken)
    (h : lex cc s = .ok toks) : ∀ t ∈ toks, t.text ≠ [] :=
  (lex_final cc hcc s toks h).nonempty

/-- offset of token `i` in the input: total length of the texts of the tokens before it -/
def tokenOffset (toks : List LexerToken) (i : Nat) : Nat := ((toks.take i).map (·.text)).flatten.length

/-- 3. each token's line and column are those of its first character: `posOf` of the input before the token
(with the patched line accounting this holds for every input, carriage returns included: a `'\r'` counts as one
column like any other character) -/
theorem C13_positions_all (cc : CharClass) (hcc : cc.Sane2) (s : List Char) (toks : List LexerToken)
    (h : lex cc s = .ok toks) (i : Nat) (hi : i < toks.length) :
    (toks[i].row, toks[i].column) = posOf (s.take (tokenOffset toks i)) := by
  have hf := lex_final cc hcc s toks h
  have := TokPosFrom_get [] toks hf.tokPos i hi
  rw [List.nil_append, textsOf_take_prefix toks s hf.lossless i] at this
  exact this

/-- 3. in the form asked for (inputs without carriage returns) -/
theorem C13_positions (cc : CharClass) (hcc : cc.Sane2) (s : List Char) (toks : List LexerToken)
    (_hcr : '\r' ∉ s) (h : lex cc s = .ok toks) (i : Nat) (hi : i < toks.length) :
    (toks[i].row, toks[i].column) = posOf (s.take (tokenOffset toks i)) :=
  C13_positions_all cc hcc s toks h i hi

/-- summary of a lexer result for the examples: type, row, column, text of every token (`none` on failure) -/
def summary (r : Outcome (List LexerToken)) : Option (List (Gen.TokenType × Nat × Nat × List Char)) :=
  match r with
  | .ok toks => some (toks.map fun t => (t.tokenType, t.row, t.column, t.text))
  | _ => none

/-- the hypotheses of 1–3 are satisfiable: `5 \n\n"a\nb" c` lexes; the blank line after the trailing space is one
Subexpression token, the newline inside the literal advances the row of `c` -/
example : summary (lex rustTables ['5', ' ', '\n', '\n', '"', 'a', '\n', 'b', '"', ' ', 'c']) =
    some [(.number, 0, 0, ['5']), (.subexpression, 0, 1, [' ', '\n', '\n']),
          (.charList, 2, 0, ['"', 'a', '\n', 'b', '"']), (.whitespace, 3, 2, [' ']), (.identifier, 3, 3, ['c'])] := by
  decide +kernel

/-! ### 4. characters that cannot start a token -/

/-- 4a. `start_token` records an error for every character that is not the start of some token
(`CanStart` is the disjunction of the branches of `start_token`: first character of an operator spelling of the
regenerated table, space/tab/CR, other ASCII whitespace, numeric, alphanumeric / `_` / `:`, backtick, `@`, `"`, `'`) -/
theorem C13_start_token_rejects (cc : CharClass) (σ : Lexer) (c : Char)
    (h : ¬CanStart cc σ.operatorTree c) (hns : ¬(c = '\x00' ∧ σ.atEnd = true)) :
    (startToken cc σ c).result = .err :=
  startToken_rejects cc σ c h hns

/-- 4b. a character that cannot start a token and is reached between tokens (the lexer is in `NoToken` after
`pre`) makes `lex` fail, whatever follows; with `pre = []` this is: the first character of the input.
(Inside a char list, byte list or line annotation any character is content, which is correct; inside other tokens
a character that cannot continue the token ends it and is then "reached between tokens".) -/
theorem C13_rejects_foreign (cc : CharClass) (pre post : List Char) (c : Char) (σ : Lexer) (toks : List LexerToken)
    (hrun : runChars cc pre (Lexer.init theTree) [] = .ok (σ, toks)) (hs : σ.state = .noToken)
    (hc : ¬CanStart cc theTree c) : lex cc (pre ++ c :: post) = .err .syntax :=
  lex_rejects cc pre post c σ toks hrun hs hc

/-- 4c. corollary: an input whose first character cannot start a token is rejected -/
theorem C13_rejects_foreign_head (cc : CharClass) (c : Char) (post : List Char) (hc : ¬CanStart cc theTree c) :
    lex cc (c :: post) = .err .syntax :=
  lex_rejects cc [] post c (Lexer.init theTree) [] rfl rfl hc

/-- once an error is recorded `lex` returns `Err` (the first error is kept, patch 1) -/
theorem C13_error_sticky (cc : CharClass) (input : List Char) (σ : Lexer) (toks : List LexerToken)
    (h : σ.result = .err) : lexLoop cc input σ toks = .err .syntax :=
  lexLoop_err cc input σ toks h

/-- the euro sign cannot start a token (Rust tables, regenerated operator table) … -/
example : ¬CanStart rustTables theTree (Char.ofNat 0x20ac) := by
  unfold CanStart isIdentifierChar rustTables
  decide +kernel

/-- … so `€1 ` (which the unpatched lexer accepted, dropping the `€`) is rejected, and so is `1 €` -/
example : lex rustTables [Char.ofNat 0x20ac, '1', ' '] = .err .syntax :=
  C13_rejects_foreign_head rustTables _ _ (by unfold CanStart isIdentifierChar rustTables; decide +kernel)
example : summary (lex rustTables ['1', ' ', Char.ofNat 0x20ac]) = none := by decide +kernel

/-- 4d (global form). In a successful lex, a character that cannot start or continue any token
(`CanStartOrContinue`: alphanumeric, numeric, ASCII whitespace, one of ``_ : . ` @ " '``, or a character of an
operator spelling) never appears outside a char list, a byte list or a line annotation (Annotation tokens `@word`
are NOT exempt: they contain only `@`, alphanumerics and `_`). Together with `C13_lossless` (nothing is dropped):
every such character of the input lies inside a literal or a comment line. -/
theorem C13_no_foreign_outside_literals (cc : CharClass) (hcc : cc.Sane2) (s : List Char) (toks : List LexerToken)
    (h : lex cc s = .ok toks) (t : LexerToken) (ht : t ∈ toks)
    (hlit : t.tokenType ≠ .charList ∧ t.tokenType ≠ .byteList ∧ t.tokenType ≠ .lineAnnotation) :
    ∀ c ∈ t.text, CanStartOrContinue cc c := by
  apply ((lex_final2 cc hcc s toks h).toksOk t ht).chars
  simp [isLitType, hlit.1, hlit.2.1, hlit.2.2]

/-- corollary: an input without quotes and without `@` that contains a character that can neither start nor continue
a token is rejected -/
theorem C13_rejects_foreign_anywhere (cc : CharClass) (hcc : cc.Sane2) (s : List Char) (c : Char) (hc : c ∈ s)
    (hforeign : ¬CanStartOrContinue cc c) (toks : List LexerToken) (h : lex cc s = .ok toks) :
    ∃ t ∈ toks, c ∈ t.text ∧
      (t.tokenType = .charList ∨ t.tokenType = .byteList ∨ t.tokenType = .lineAnnotation) := by
  have hl := C13_lossless cc hcc s toks h
  rw [← hl] at hc
  simp only [List.mem_flatten, List.mem_map] at hc
  obtain ⟨l, ⟨t, ht, rfl⟩, hcl⟩ := hc
  refine ⟨t, ht, hcl, ?_⟩
  by_cases h1 : t.tokenType = .charList
  · exact Or.inl h1
  · by_cases h2 : t.tokenType = .byteList
    · exact Or.inr (Or.inl h2)
    · by_cases h3 : t.tokenType = .lineAnnotation
      · exact Or.inr (Or.inr h3)
      · exact absurd (C13_no_foreign_outside_literals cc hcc s toks h t ht ⟨h1, h2, h3⟩ c hcl) hforeign

/-! ### 4e. whitespace that is not ASCII whitespace -/

/-- the characters for which Rust's `char::is_whitespace` holds but `char::is_ascii_whitespace` does not
(VT, NEL, NBSP, OGHAM SPACE MARK, U+2000–U+200A, LS, PS, NNBSP, MMSP, IDEOGRAPHIC SPACE) -/
def nonAsciiWhitespace : List Char :=
  [0x0b, 0x85, 0xa0, 0x1680, 0x2000, 0x2001, 0x2002, 0x2003, 0x2004, 0x2005, 0x2006, 0x2007, 0x2008, 0x2009, 0x200a,
   0x2028, 0x2029, 0x202f, 0x205f, 0x3000].map Char.ofNat

/-- the list is exactly the difference of the two generated range tables (`whitespaceRanges` minus
`asciiWhitespaceRanges`, Garnish/Gen/CharRanges.lean, dumped from the Rust std by the harness suite CHARCLASS) -/
theorem nonAsciiWhitespace_complete :
    ((Gen.CharRanges.whitespaceRanges.toList.flatMap fun ab => List.range' ab.1 (ab.2 - ab.1 + 1)).filter
      fun n => !Gen.CharRanges.inRanges Gen.CharRanges.asciiWhitespaceRanges n) =
    nonAsciiWhitespace.map Char.toNat := by decide +kernel

/-- each of them is whitespace for `char::is_whitespace`, is not ASCII whitespace for the model, and cannot start a
token (`start_token` tests `is_ascii_whitespace`, not `is_whitespace`) -/
theorem nonAsciiWhitespace_cannot_start :
    ∀ c ∈ nonAsciiWhitespace, Gen.CharRanges.isWhitespace c = true ∧ isAsciiWhitespace c = false ∧
      ¬CanStart rustTables theTree c := by
  unfold CanStart isIdentifierChar rustTables nonAsciiWhitespace
  decide +kernel

/-- 4e. a whitespace character that is not ASCII whitespace (e.g. U+00A0, U+2003, U+3000, U+0085), reached between
tokens (the lexer is in `NoToken` after `pre`), is a lex error — it neither starts a Whitespace token nor is skipped -/
theorem C13_rejects_non_ascii_whitespace (pre post : List Char) (c : Char) (hc : c ∈ nonAsciiWhitespace)
    (σ : Lexer) (toks : List LexerToken)
    (hrun : runChars rustTables pre (Lexer.init theTree) [] = .ok (σ, toks)) (hs : σ.state = .noToken) :
    lex rustTables (pre ++ c :: post) = .err .syntax :=
  lex_rejects rustTables pre post c σ toks hrun hs (nonAsciiWhitespace_cannot_start c hc).2.2

/-- `a` NBSP `b`, `1 + ` IDEOGRAPHIC SPACE and a leading EM SPACE are rejected; inside a char list NBSP is content -/
example : summary (lex rustTables ['a', Char.ofNat 0xa0, 'b']) = none ∧
    summary (lex rustTables ['1', ' ', '+', ' ', Char.ofNat 0x3000]) = none ∧
    summary (lex rustTables [Char.ofNat 0x2003, 'a']) = none ∧
    summary (lex rustTables ['"', Char.ofNat 0xa0, '"']) =
      some [(.charList, 0, 0, ['"', Char.ofNat 0xa0, '"'])] := by decide +kernel

/-! ### 3'. columns count characters, not bytes -/

/-- `C13_positions_all` is about `List Char`: `posOf` counts characters. Example with multi-byte characters
(é is 2 bytes, 中 3 bytes, 😀 4 bytes in UTF-8): in `é中 "😀" x` the char list starts at column 3 and `x` at column 7,
i.e. character counts (byte offsets would be 6 and 13) -/
example : summary (lex rustTables [Char.ofNat 0xe9, Char.ofNat 0x4e2d, ' ', '"', Char.ofNat 0x1f600, '"', ' ', 'x']) =
    some [(.identifier, 0, 0, [Char.ofNat 0xe9, Char.ofNat 0x4e2d]), (.whitespace, 0, 2, [' ']),
          (.charList, 0, 3, ['"', Char.ofNat 0x1f600, '"']), (.whitespace, 0, 6, [' ']), (.identifier, 0, 7, ['x'])] := by
  decide +kernel

/-- 3'. the column of a token on the first line is the NUMBER OF CHARACTERS before it (not their UTF-8 length) -/
theorem C13_columns_count_characters (cc : CharClass) (hcc : cc.Sane2) (s : List Char) (toks : List LexerToken)
    (h : lex cc s = .ok toks) (i : Nat) (hi : i < toks.length) (hnl : '\n' ∉ s.take (tokenOffset toks i)) :
    toks[i].row = 0 ∧ toks[i].column = tokenOffset toks i := by
  have hp := C13_positions_all cc hcc s toks h i hi
  have hoff : (s.take (tokenOffset toks i)).length = tokenOffset toks i := by
    have hl := C13_lossless cc hcc s toks h
    have hpre := textsOf_take_prefix toks s hl i
    have e : tokenOffset toks i = (textsOf (toks.take i)).length := rfl
    rw [e, ← hpre]
  generalize s.take (tokenOffset toks i) = pfx at hp hnl hoff
  have hpos : posOf pfx = (0, pfx.length) := by
    unfold posOf
    have h1 : pfx.count '\n' = 0 := List.count_eq_zero.mpr hnl
    have tw : ∀ l : List Char, (∀ x ∈ l, x ≠ '\n') → l.takeWhile (· != '\n') = l := by
      intro l
      induction l with
      | nil => intro _; rfl
      | cons x r ih =>
        intro hx
        have hx1 : (x != '\n') = true := by simpa using hx x (by simp)
        simp only [List.takeWhile, hx1]
        rw [ih (fun y hy => hx y (by simp [hy]))]
    have h2 : pfx.reverse.takeWhile (· != '\n') = pfx.reverse := by
      apply tw
      intro x hx hxe
      subst hxe
      exact hnl (by simpa using hx)
    rw [h1, h2]; simp
  rw [hpos, hoff] at hp
  exact ⟨congrArg Prod.fst hp, congrArg Prod.snd hp⟩

/-! ### 5. a blank line separates sub-expressions, with or without trailing spaces/tabs -/

/-- 5 (general form). `a` is any string after which whitespace starts a fresh whitespace token (`Boundary`: the
lexer, run over `a` followed by a space/tab/newline, has emitted tokens spelling `a` and is at the start of a
whitespace run); `ws`, `ws'` are runs of spaces/tabs; `b` is arbitrary. If `lex` succeeds, the token list is
`pre ++ [t] ++ post` with `pre` spelling `a`, `post` spelling `b`, and `t` ONE token of type Subexpression spelling
the whole whitespace run. -/
theorem C13_blank_line_separates_general (cc : CharClass) (hcc : cc.Sane2) (a ws ws' b : List Char)
    (hbd : Boundary cc (Lexer.init theTree) a)
    (hws : ∀ c ∈ ws, c = ' ' ∨ c = '\t') (hws' : ∀ c ∈ ws', c = ' ' ∨ c = '\t') (toks : List LexerToken)
    (h : lex cc (a ++ ws ++ ['\n'] ++ ws' ++ ['\n'] ++ b) = .ok toks) :
    ∃ pre t post, toks = pre ++ [t] ++ post ∧ (pre.map (·.text)).flatten = a ∧
      t.tokenType = .subexpression ∧ t.text = ws ++ ['\n'] ++ ws' ++ ['\n'] ∧ (post.map (·.text)).flatten = b := by
  obtain ⟨pre, t, post, htoks, hpre, hty, htx⟩ := lex_blank_line cc a ws ws' b hbd hws hws' toks h
  refine ⟨pre, t, post, htoks, hpre, hty, htx, ?_⟩
  have hl := C13_lossless cc hcc _ toks h
  rw [htoks] at hl
  simp only [List.map_append, List.flatten_append, List.map_cons, List.map_nil, List.flatten_cons,
    List.flatten_nil, List.append_nil] at hl
  have hpre' : (pre.map (·.text)).flatten = a := hpre
  rw [hpre', htx] at hl
  simp only [List.append_assoc] at hl
  have := List.append_cancel_left hl
  have := List.append_cancel_left this
  simpa using this

/-- 5 (identifier family). `a` is any non-empty string of letters (`Letter`: alphanumeric, not numeric, not
whitespace, not `_`/`:`, not the first character of an operator); hypothesis on the tables: space, tab, newline are
not alphanumeric (`SaneWs`). -/
theorem C13_blank_line_separates (cc : CharClass) (hcc : cc.Sane2) (hws0 : cc.SaneWs) (x : Char) (r ws ws' b : List Char)
    (hl : ∀ ch ∈ x :: r, Letter cc ch)
    (hws : ∀ c ∈ ws, c = ' ' ∨ c = '\t') (hws' : ∀ c ∈ ws', c = ' ' ∨ c = '\t') (toks : List LexerToken)
    (h : lex cc ((x :: r) ++ ws ++ ['\n'] ++ ws' ++ ['\n'] ++ b) = .ok toks) :
    ∃ pre t post, toks = pre ++ [t] ++ post ∧ (pre.map (·.text)).flatten = x :: r ∧
      t.tokenType = .subexpression ∧ t.text = ws ++ ['\n'] ++ ws' ++ ['\n'] ∧ (post.map (·.text)).flatten = b :=
  C13_blank_line_separates_general cc hcc (x :: r) ws ws' b (boundary_letters cc hws0 x r hl) hws hws' toks h

theorem rustTables_saneWs : rustTables.SaneWs where
  space := by decide +kernel
  tab := by decide +kernel
  newline := by decide +kernel

/-- the hypotheses are satisfiable: `a`, `b` are letters for the Rust tables … -/
example : Letter rustTables 'a' ∧ Letter rustTables 'b' :=
  ⟨⟨by decide +kernel, by decide +kernel, by decide, by decide, by decide, by decide⟩,
   ⟨by decide +kernel, by decide +kernel, by decide, by decide, by decide, by decide⟩⟩

/-- … and `ab \t\n \ncd` lexes to identifier, ONE Subexpression token (the defect `5 \n\n6` of the unpatched
lexer: the trailing space was lost and the token typed Whitespace), identifier -/
example : summary (lex rustTables ['a', 'b', ' ', '\t', '\n', ' ', '\n', 'c', 'd']) =
    some [(.identifier, 0, 0, ['a', 'b']), (.subexpression, 0, 2, [' ', '\t', '\n', ' ', '\n']),
          (.identifier, 2, 0, ['c', 'd'])] := by
  decide +kernel

/-! ### 6. operators are classified by longest match against the token table -/

/-- 6. longest match. For every token of `lex cc s = .ok toks` whose type is a type of the regenerated operator
table (`isOpType`): its text is a spelling of the table with exactly that type, and no strictly longer spelling of
the table is a prefix of the input from the token's start.
The documented exceptions are not exceptions to this statement, they are about which tokens exist at all:
* `_`-prefixed identifiers and `.digit` floats (when `can_float`) yield Identifier / Number tokens, not operator
  tokens (`armOperator` switches state), so e.g. `.5` is one Number although `.` is a spelling;
* greedy without backtracking: see `C13_no_backtracking` — if the characters read are a path of the tree without a
  type and the next character continues nothing, `lex` FAILS ("No token") instead of emitting a shorter spelling;
  hence the theorem is about successful runs only. -/
theorem C13_longest_match (cc : CharClass) (hcc : cc.Sane2) (s : List Char) (toks : List LexerToken)
    (h : lex cc s = .ok toks) (i : Nat) (hi : i < toks.length) (hop : isOpType toks[i].tokenType = true) :
    (toks[i].text, toks[i].tokenType) ∈ Gen.LexTables.operatorChars ∧
    ∀ sp ty, (sp, ty) ∈ Gen.LexTables.operatorChars → toks[i].text.length < sp.length →
      ¬ sp <+: s.drop (tokenOffset toks i) :=
  lex_longest_match cc hcc s toks h i hi hop

/-- 6, the other direction of the table: a token type is an operator type iff it occurs in the table; every other
token type is one of the twelve lexical types -/
theorem C13_token_types (ty : Gen.TokenType) :
    isOpType ty = true ∨ ty ∈ [Gen.TokenType.whitespace, .subexpression, .number, .identifier, .symbol,
      .suffixIdentifier, .prefixIdentifier, .infixIdentifier, .annotation, .lineAnnotation, .charList, .byteList,
      .unknown] := by
  cases ty <;> decide

/-- 6, greedy without backtracking, characterised exactly (one step of the Operator state) -/
theorem C13_no_backtracking (cc : CharClass) (σ : Lexer) (c : Char) (hs : σ.state = .operator)
    (hty : σ.currentTokenType = none)
    (hpath : walkOperator σ.operatorTree (σ.currentCharacters ++ [c]) = none)
    (hident : ¬(startsWith (σ.currentCharacters ++ [c]) '_' = true ∧ isIdentifier cc (σ.currentCharacters ++ [c]) = true))
    (hfloat : ¬(startsWith (σ.currentCharacters ++ [c]) '.' = true ∧ utf8Len (σ.currentCharacters ++ [c]) = 2 ∧
                cc.isNumeric c = true ∧ σ.canFloat = true)) :
    ∃ σ1, processChar cc σ c = .ok (σ1, none) ∧ σ1.result = .err :=
  processChar_no_backtracking cc σ c hs hty hpath hident hfloat

/-- the tree recognises exactly the table: soundness (completeness is `C13_longest_match_partial_table`) -/
theorem C13_tree_sound (cs : List Char) (n : LexerOperatorNode) (ty : Gen.TokenType)
    (h : walkOperator theTree cs = some n) (hty : n.tokenType = some ty) :
    (cs, ty) ∈ Gen.LexTables.operatorChars :=
  tree_sound cs n ty h hty

/-- 6 (partial, table side). every spelling of the regenerated table is recognised by the operator tree of
`Lexer::new` with exactly its token type -/
theorem C13_longest_match_partial_table :
    ∀ p ∈ Gen.LexTables.operatorChars, ∃ n, walkOperator theTree p.1 = some n ∧ n.tokenType = some p.2 := by
  intro p hp
  have h := tableRecognised_true
  unfold tableRecognised at h
  rw [List.all_eq_true] at h
  have := h p hp
  cases hw : walkOperator theTree p.1 with
  | none => rw [hw] at this; cases this
  | some n => rw [hw] at this; exact ⟨n, rfl, by simpa using this⟩

/-- 6 (partial, lexer side). while an operator is being read its token type is the one the tree stores for the
characters read so far, and the operator token is ended only by a character that continues no path of the tree,
i.e. no spelling of the table and no prefix of one (greedy = longest match; there is no backtracking: `>.5`
reads the prefix `>.` of `>..` and then fails with "No token" instead of falling back to `>` `.5`) -/
theorem C13_longest_match_partial_step (cc : CharClass) (σ : Lexer) (c : Char) :
    (∀ node, walkOperator σ.operatorTree (σ.currentCharacters ++ [c]) = some node →
      (armOperator cc σ c).1.currentTokenType = node.tokenType ∧ (armOperator cc σ c).2 = false ∧
      (armOperator cc σ c).1.currentCharacters = σ.currentCharacters ++ [c]) ∧
    ((armOperator cc σ c).2 = true → walkOperator σ.operatorTree (σ.currentCharacters ++ [c]) = none) :=
  ⟨fun node h => armOperator_type cc σ c node h, armOperator_maximal cc σ c⟩

/-- longest match at work: `>..<` is one ExclusiveRange token, `>..` `>` splits after the longest spelling, and
`>.5` is rejected (no backtracking) -/
example : summary (lex rustTables ['>', '.', '.', '<', ' ', '>', '.', '.', '>']) =
    some [(.exclusiveRange, 0, 0, ['>', '.', '.', '<']), (.whitespace, 0, 4, [' ']),
          (.startExclusiveRange, 0, 5, ['>', '.', '.']), (.greaterThan, 0, 8, ['>'])] := by decide +kernel
example : summary (lex rustTables ['>', '.', '5']) = none := by decide +kernel

end Garnish.Props.C13
