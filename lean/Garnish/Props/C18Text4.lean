/-
Property C18, TEXT level, part 4: the two rewrites that change the NUMBER of tokens.

(1) A blank inserted directly after an operator token (`TextPadOperatorAt`, the state form of `C18Text.TextPadOperator`,
of which it is an instance: `TextPadOperatorAt.toPad`).  Both texts fail to lex or both lex; the tokens of the padded text are
those of the original with ONE Whitespace token inserted after the operator token (`C18_text_padOperator_lex`); on the
parser's inputs this is parser-agent's `AddSpace` when the operator is one after which the parser does not look at the
whitespace flag (`opLikeBefore`: binary, prefix, suffix operators and opening brackets — `C18_text_padOperator_tokens`);
hence the same reference tree up to positions for every such input (`C18_text_padOperator_refParse`) and the same tree of the
real parser on `frag9` (`C18_text_padOperator`).
(2) An annotation `@name` inserted inside a run of blanks, before a blank (`C18Text.TextAnnotation`).  The whitespace token
is split in two around one Annotation token (`C18_text_annotation_lex`); on the parser's inputs `AddSpace` followed by
`AddAnnotation` (`C18_text_annotation_tokens`); same reference tree up to positions, same tree of the real parser on `frag9`.

NOT proved (the hypotheses that remain, all about the REWRITTEN token list):
  * fragment membership / no leading-trailing trivia of the rewritten (and, for the annotation, the intermediate) list —
    there is no lemma "`frag9` is closed under inserting a trivia token";
  * the result corollaries (`…_result`) assume that the rewritten text elaborates to the SAME program: parser-agent's
    invariance is equality of trees after ERASING token positions, the elaboration reads texts BY position
    (`elaborate_congr` covers equal trees only), and with an inserted token all later positions shift.
Witnesses where the rewrites are not licensed: Props/C18Text.lean (`C18_text_space_before_float_differs`,
`C18_text_operator_merge_differs`).
-/
import Garnish.Props.C18Text3
import Garnish.Lemmas.LexRewrite4c
set_option linter.unusedVariables false
namespace Garnish.Props.C18Text4
open Garnish Garnish.Gen Garnish.Spec Garnish.Model Garnish.Model.Lexer Garnish.Model.Parser
open Garnish.Abs Garnish.Abs.Source Garnish.Props.C02Parse Garnish.Props.C18Parse Garnish.Props.C18Text
open Garnish.Abs.Tree Garnish.Model.Literals Garnish.Model.Build Garnish.Props.C01Build Garnish.Props.C01Source
open Garnish.Props.C02Numbered

/-! ### (1) a blank after an operator token -/

/-- after `p` the lexer holds the complete operator spelling `t` (a spelling of the table with its type; not one after
which `.5` would be an access), the tokens before it are `toks`, and `d` continues no spelling and is no blank / newline -/
def PadGuard (cc : CharClass) (p : List Char) (d : Char) (toks : List LexerToken) (t : LexerToken) : Prop :=
  ∃ σ, runChars cc p (Lexer.init theTree) [] = .ok (σ, toks) ∧ σ.result = .ok ∧ σ.state = .operator ∧
    σ.currentTokenType = some t.tokenType ∧ σ.currentCharacters = t.text ∧ σ.tokenStartRow = t.row ∧
    σ.tokenStartColumn = t.column ∧ (t.text, t.tokenType) ∈ Garnish.Gen.LexTables.operatorChars ∧
    blocksFloat (some t.tokenType) = false ∧ walkOperator theTree (t.text ++ [d]) = none ∧
    d ≠ ' ' ∧ d ≠ '\t' ∧ d ≠ '\n'

/-- **a blank inserted directly after an operator token** -/
def TextPadOperatorAt (cc : CharClass) (s s' : List Char) (toks : List LexerToken) (t : LexerToken) : Prop :=
  ∃ p d b c, (c = ' ' ∨ c = '\t') ∧ s = p ++ d :: b ∧ s' = p ++ c :: d :: b ∧ PadGuard cc p d toks t

/-- it is an instance of the rewrite defined in Props/C18Text.lean -/
theorem TextPadOperatorAt.toPad {cc : CharClass} (hcc : cc.SaneBlank) (hcc2 : cc.Sane2) {s s' : List Char}
    {toks : List LexerToken} {t : LexerToken} (h : TextPadOperatorAt cc s s' toks t) : TextPadOperator cc s s' := by
  obtain ⟨p, d, b, c, hc, rfl, rfl, σ, hrun, hok, hst, hty, hch, hrow, hcol, htab, hbf, hw, d1, d2, d3⟩ := h
  obtain ⟨hcr, hinv, hat, htr⟩ := run_facts cc hcc2 p σ toks hrun hok
  have hA : At σ .operator (some t.tokenType) t.text (t.row, t.column) (σ.textRow, σ.textColumn)
      σ.startQuoteCount σ.endQuoteCount false := ⟨hst, hty, hch, hrow, hcol, rfl, rfl, hcr, hok, htr, hat, rfl, rfl⟩
  obtain ⟨σ'', he⟩ := tail_end cc hcc.toSane 2 σ toks hA
    (ending_plain cc hcc .operator t.tokenType _ (Or.inr (Or.inr (Or.inr (Or.inr rfl)))) (by decide)) (by decide)
    (tableNoIdentifier _ htab)
  have hl : lex cc p = .ok (toks ++ [t]) := by
    apply lex_of_lexFull_eq (σ := σ'')
    rw [lexFull_eq_lexEnd cc p σ toks hrun]
    exact he
  refine ⟨p, d, b, c, toks, t, hc, rfl, rfl, hl, ?_, hbf, hw, d1, d2, d3⟩
  unfold isOpType
  rw [List.any_eq_true]
  exact ⟨_, htab, by simp⟩

/-- the token lists: the same up to types and texts, with one Whitespace token inserted after `t` -/
def WsInsertedAfter (t : LexerToken) (T T' : List LexerToken) : Prop :=
  ∃ A w B B', T = A ++ t :: B ∧ T' = A ++ t :: w :: B' ∧ w.tokenType = .whitespace ∧ SameTT B B'

/-- **through the lexer**: the two texts lex together, and the padded text has ONE more token — Whitespace, after `t` -/
theorem C18_text_padOperator_lex (cc : CharClass) (hcc : cc.SaneBlank) (hcc2 : cc.Sane2) (s s' : List Char)
    (toks : List LexerToken) (t : LexerToken) (h : TextPadOperatorAt cc s s' toks t) :
    (∀ T, lex cc s = .ok T → ∃ T', lex cc s' = .ok T' ∧ WsInsertedAfter t T T') ∧
    (∀ T', lex cc s' = .ok T' → ∃ T, lex cc s = .ok T ∧ WsInsertedAfter t T T') := by
  obtain ⟨p, d, b, c, hc, rfl, rfl, σ, hrun, hok, hst, hty, hch, hrow, hcol, htab, hbf, hw, d1, d2, d3⟩ := h
  have hdb : ¬ IsBlank d := fun hb => by rcases hb with hb | hb; exact d1 hb; exact d2 hb
  have key := lexFull_padOperator cc hcc hcc2 p c d b hc σ toks t.tokenType hrun hok hst hty (by rw [hch]; exact htab) hbf
    (by rw [hch]; exact hw) hdb d3
  rw [hch, hrow, hcol] at key
  obtain ⟨k1, k2⟩ := outSameExt_lex key
  refine ⟨fun T hT => ?_, fun T' hT' => ?_⟩
  · obtain ⟨T', rest, rest', h1, h2, h3, h4⟩ := k1 T hT
    exact ⟨T', h1, toks, ⟨[c], .whitespace, σ.textRow, σ.textColumn⟩, rest, rest', by rw [h2]; simp, by rw [h3]; simp, rfl, h4⟩
  · obtain ⟨T, rest, rest', h1, h2, h3, h4⟩ := k2 T' hT'
    exact ⟨T, h1, toks, ⟨[c], .whitespace, σ.textRow, σ.textColumn⟩, rest, rest', by rw [h2]; simp, by rw [h3]; simp, rfl, h4⟩

theorem sameTT_types {B B' : List LexerToken} (h : SameTT B B') : B.map (·.tokenType) = B'.map (·.tokenType) := by
  have := congrArg (List.map Prod.fst) h
  simpa [List.map_map, Function.comp_def] using this

/-- the parser's inputs: parser-agent's `AddSpace`, when `t` is an operator after which the parser does not look at the
whitespace flag -/
theorem C18_text_padOperator_tokens (t : LexerToken) (T T' : List LexerToken) (h : WsInsertedAfter t T T')
    (hop : opLikeBefore { text := t.text, type := t.tokenType, row := 0, col := 0 } = true) :
    AddSpace (toP T) (toP T') := by
  obtain ⟨A, w, B, B', rfl, rfl, hw, hs⟩ := h
  refine ⟨toP A ++ { text := t.text, type := t.tokenType, row := 0, col := 0 + A.length } ::
      ([] ++ { text := w.text, type := w.tokenType, row := 0, col := 0 } :: toPFrom (0 + A.length + 1) B), ?_, ?_⟩
  · have e : toP (A ++ t :: B) = toP A ++ { text := t.text, type := t.tokenType, row := 0, col := 0 + A.length } ::
        ([] ++ toPFrom (0 + A.length + 1) B) := by
      simp only [toP, toPFrom_append, toPFrom, List.nil_append]
    rw [e]
    exact AddSpace0.after _ [] _ _ _ (by simp [isWsTok, hw]) (Or.inr hop) (fun a ha => by cases ha)
  · unfold SameTypes
    simp only [toP, List.map_append, List.map_cons, toPFrom_types, List.nil_append, sameTT_types hs]

/-- **every input** (without leading / trailing trivia): the reference parser returns the same tree up to positions -/
theorem C18_text_padOperator_refParse (cc : CharClass) (hcc : cc.SaneBlank) (hcc2 : cc.Sane2) (s s' : List Char)
    (toks : List LexerToken) (t : LexerToken) (h : TextPadOperatorAt cc s s' toks t)
    (hop : opLikeBefore { text := t.text, type := t.tokenType, row := 0, col := 0 } = true)
    (T : List LexerToken) (hl : lex cc s = .ok T) (hn : NoTrim (toP T)) :
    ∃ T', lex cc s' = .ok T' ∧ (NoTrim (toP T') →
      OutcomeEq TreeEqTrivia (refParse Table.gen (toP T)) (refParse Table.gen (toP T'))) := by
  obtain ⟨T', hl', hins⟩ := (C18_text_padOperator_lex cc hcc hcc2 s s' toks t h).1 T hl
  exact ⟨T', hl', fun hn' => C18_refParse_addSpace (C18_text_padOperator_tokens t T T' hins hop) hn hn'⟩

/-- **the real parser on `frag9`**: both texts parse, to the same tree up to positions. Remaining hypothesis: the padded
token list is in the fragment too -/
theorem C18_text_padOperator (cc : CharClass) (hcc : cc.SaneBlank) (hcc2 : cc.Sane2) (s s' : List Char)
    (toks : List LexerToken) (t : LexerToken) (h : TextPadOperatorAt cc s s' toks t)
    (hop : opLikeBefore { text := t.text, type := t.tokenType, row := 0, col := 0 } = true)
    (T : List LexerToken) (hl : lex cc s = .ok T) (hf : frag9 (toP T) = true)
    (hf' : ∀ T', lex cc s' = .ok T' → frag9 (toP T') = true) :
    ∃ T' r tr r' tr', lex cc s' = .ok T' ∧ parse (toP T) = .ok r ∧ toTree r = some tr ∧ parse (toP T') = .ok r' ∧
      toTree r' = some tr' ∧ TreeEqTrivia (treeToRG r tr) (treeToRG r' tr') := by
  obtain ⟨T', hl', hins⟩ := (C18_text_padOperator_lex cc hcc hcc2 s s' toks t h).1 T hl
  obtain ⟨r, tr, r', tr', h1, h2, h3, h4, h5⟩ := C18_parse_addSpace (C18_text_padOperator_tokens t T T' hins hop) hf
    (hf' T' hl') (Lexer.toP_numbered T) (Lexer.toP_numbered T')
  exact ⟨T', r, tr, r', tr', hl', h1, h2, h3, h4, h5⟩

/-- **result half**: both texts are built into objects on which the machine halts with the same value and trace.
Remaining hypotheses (rewritten text): its tokens are in `frag9'` and elaborate to the same program `p` -/
theorem C18_text_padOperator_result {F : Type} (pf : List Char → Option F) (cc : CharClass) (hcc : cc.SaneBlank)
    (hcc2 : cc.Sane2) (fo : FloatOps F) (host : Host F) (s s' : List Char) (toks : List LexerToken) (t : LexerToken)
    (h : TextPadOperatorAt cc s s' toks t) (T : List LexerToken) (hl : lex cc s = .ok T) (hf : frag9' (toP T) = true)
    (rt : RTree) (href : refParse Table.gen (toP T) = .ok rt) (p : Program F) (hel : elaborate pf (toP T) rt = some p)
    (hwf : C01.WFProgram p) (input : Val F) (fuel : Nat) (v : Val F) (st : St F)
    (he : evalProgram fo host fuel p input = .ok (v, st))
    (hrem : ∀ T', lex cc s' = .ok T' → frag9' (toP T') = true ∧
      ∃ rt', refParse Table.gen (toP T') = .ok rt' ∧ elaborate pf (toP T') rt' = some p) :
    ∀ src ∈ [s, s'], ∃ d entry, C01Text.buildText pf cc src = .ok (d, entry) ∧
      ∃ n m, run fo host (progOf d) n
          { pc := (progOf d).jumps[entry]?.getD 0, regs := [], vals := [input], frames := [], trace := [] } = (.halted m, n) ∧
        m.vals = [v] ∧ m.regs = [] ∧ m.frames = [] ∧ m.trace = st.trace := by
  obtain ⟨T', hl', _⟩ := (C18_text_padOperator_lex cc hcc hcc2 s s' toks t h).1 T hl
  obtain ⟨hf', rt', href', hel'⟩ := hrem T' hl'
  intro src hsrc
  simp only [List.mem_cons, List.not_mem_nil, or_false] at hsrc
  rcases hsrc with rfl | rfl
  · exact C01Text.C01_text_correct pf cc fo host _ T hl hf rt href p hel hwf input fuel v st he
  · exact C01Text.C01_text_correct pf cc fo host _ T' hl' hf' rt' href' p hel' hwf input fuel v st he

/-! ### (2) an annotation inside a run of blanks -/

/-- the whitespace token `W` is split into `W1`, the annotation, `W2`; the rest has the same types and texts -/
def AnnInserted (W : LexerToken) (T T' : List LexerToken) : Prop :=
  ∃ A rest W1 ann W2 rest', T = A ++ W :: rest ∧ T' = A ++ W1 :: ann :: W2 :: rest' ∧ W1.tokenType = .whitespace ∧
    ann.tokenType = .annotation ∧ W2.tokenType = W.tokenType ∧
    (W.tokenType = .whitespace ∨ W.tokenType = .subexpression) ∧ W.text = W1.text ++ W2.text ∧ SameTT rest rest'

/-- **through the lexer**: if the original text lexes, so does the one with the annotation, and the whitespace token is
split around ONE Annotation token with the text `@name` -/
theorem C18_text_annotation_lex (cc : CharClass) (hcc : cc.SaneBlank) (hcc2 : cc.Sane2) (hat : cc.SaneAt)
    (s s' : List Char) (T : List LexerToken) (hl : lex cc s = .ok T) (h : TextAnnotation cc s s') :
    ∃ T' W, lex cc s' = .ok T' ∧ AnnInserted W T T' := by
  obtain ⟨p, cs, name, c, b, ⟨σ, toks, hrun, hw⟩, hname, hc, rfl, rfl⟩ := h
  obtain ⟨hcr, hinv, hae, htr⟩ := run_facts cc hcc2 p σ toks hrun hw.wsA.ok
  obtain ⟨σf, hfull⟩ := lex_of_lexFull hl
  rw [lexFull_eq_lexLoop, lexLoop_append cc p (c :: b) _ σ [] toks hrun] at hfull
  obtain ⟨T', σf', W, W2, rest, rest', h1, h2, h3, h4, h5, h6, h7⟩ :=
    lexLoop_annotation cc hcc hat σ cs name c b toks hw htr hae hname hc T σf hfull
  have es : p ++ ('@' :: name) ++ c :: b = p ++ '@' :: (name ++ c :: b) := by simp
  refine ⟨T', W, ?_, toks, rest, _, _, W2, rest', h2, h3, rfl, rfl, h5, h6, h4, h7⟩
  apply lex_of_lexFull_eq (σ := σf')
  rw [es, lexFull_eq_lexLoop, lexLoop_append cc p _ _ σ [] toks hrun]
  exact h1

/-- the parser's inputs: `AddSpace` (the first part of the split run) followed by `AddAnnotation` -/
theorem C18_text_annotation_tokens (W : LexerToken) (T T' : List LexerToken) (h : AnnInserted W T T')
    (hWs : W.tokenType = .whitespace) :
    ∃ X, NumberedFrom 0 X ∧ AddSpace (toP T) X ∧ AddAnnotation X (toP T') := by
  obtain ⟨A, rest, W1, ann, W2, rest', rfl, rfl, hW1, hann, hW2, hWty, _, hs⟩ := h
  refine ⟨toP (A ++ W1 :: W :: rest), Lexer.toP_numbered _, ?_, ?_⟩
  · refine ⟨toP A ++ { text := W1.text, type := W1.tokenType, row := 0, col := 0 } ::
        ([] ++ { text := W.text, type := W.tokenType, row := 0, col := 0 + A.length } :: toPFrom (0 + A.length + 1) rest), ?_, ?_⟩
    · have e : toP (A ++ W :: rest) = toP A ++
          ([] ++ { text := W.text, type := W.tokenType, row := 0, col := 0 + A.length } :: toPFrom (0 + A.length + 1) rest) := by
        simp only [toP, toPFrom_append, toPFrom, List.nil_append]
      rw [e]
      exact AddSpace0.before _ [] _ _ _ (by simp [isWsTok, hW1]) (Or.inl (by simp [isWsTok, hWs]))
        (fun a ha => by cases ha)
    · unfold SameTypes
      simp only [toP, List.map_append, List.map_cons, toPFrom_types, List.nil_append]
  · have e : toP (A ++ W1 :: W :: rest) = toP (A ++ [W1]) ++ toPFrom (0 + (A ++ [W1]).length) (W :: rest) := by
      have : A ++ W1 :: W :: rest = (A ++ [W1]) ++ (W :: rest) := by simp
      rw [this, toP, toPFrom_append]; rfl
    rw [e]
    refine ⟨_, AddAnnotation0.mk _ _ { text := ann.text, type := ann.tokenType, row := 0, col := 0 }
      (by simp [isAnnTok, hann]), ?_⟩
    unfold SameTypes
    simp only [toP, List.map_append, List.map_cons, toPFrom_types, List.map_nil, hW2, sameTT_types hs]
    simp

/-- **every input** (no leading / trailing trivia in the three token lists): the same reference tree up to positions -/
theorem C18_text_annotation_refParse (cc : CharClass) (hcc : cc.SaneBlank) (hcc2 : cc.Sane2) (hat : cc.SaneAt)
    (s s' : List Char) (T : List LexerToken) (hl : lex cc s = .ok T) (h : TextAnnotation cc s s') (hn : NoTrim (toP T)) :
    ∃ T' W, lex cc s' = .ok T' ∧ AnnInserted W T T' ∧ (W.tokenType = .whitespace → ∃ X, AddSpace (toP T) X ∧
      AddAnnotation X (toP T') ∧ (NoTrim X → NoTrim (toP T') →
        OutcomeEq TreeEqTrivia (refParse Table.gen (toP T)) (refParse Table.gen (toP T')))) := by
  obtain ⟨T', W, hl', hins⟩ := C18_text_annotation_lex cc hcc hcc2 hat s s' T hl h
  refine ⟨T', W, hl', hins, fun hWs => ?_⟩
  obtain ⟨X, _, h1, h2⟩ := C18_text_annotation_tokens W T T' hins hWs
  exact ⟨X, h1, h2, fun hx hn' =>
    outcomeEq_of_mapT ((refParse_addSpace h1 hn hx).trans (refParse_addAnnotation h2 hx hn'))⟩

/-- **the real parser on `frag9`**: both texts parse, to the same tree up to positions. Remaining hypotheses: the
intermediate and the rewritten token list are in the fragment too -/
theorem C18_text_annotation (cc : CharClass) (hcc : cc.SaneBlank) (hcc2 : cc.Sane2) (hat : cc.SaneAt)
    (s s' : List Char) (T : List LexerToken) (hl : lex cc s = .ok T) (h : TextAnnotation cc s s')
    (hf : frag9 (toP T) = true) (hWs : ∀ T' W, lex cc s' = .ok T' → AnnInserted W T T' → W.tokenType = .whitespace)
    (hf' : ∀ T' X, lex cc s' = .ok T' → AddSpace (toP T) X → AddAnnotation X (toP T') → frag9 X = true ∧ frag9 (toP T') = true) :
    ∃ T' r tr r' tr', lex cc s' = .ok T' ∧ parse (toP T) = .ok r ∧ toTree r = some tr ∧ parse (toP T') = .ok r' ∧
      toTree r' = some tr' ∧ TreeEqTrivia (treeToRG r tr) (treeToRG r' tr') := by
  obtain ⟨T', W, hl', hins⟩ := C18_text_annotation_lex cc hcc hcc2 hat s s' T hl h
  obtain ⟨X, hnX, h1, h2⟩ := C18_text_annotation_tokens W T T' hins (hWs T' W hl' hins)
  obtain ⟨fX, fT'⟩ := hf' T' X hl' h1 h2
  obtain ⟨r, tr, r1, tr1, a1, a2, a3, a4, a5⟩ := C18_parse_addSpace h1 hf fX (Lexer.toP_numbered T) hnX
  obtain ⟨r2, tr2, r', tr', b1, b2, b3, b4, b5⟩ := C18_parse_addAnnotation h2 fX fT' hnX (Lexer.toP_numbered T')
  rw [a3] at b1
  cases b1
  rw [a4] at b2
  cases b2
  exact ⟨T', r, tr, r', tr', hl', a1, a2, b3, b4, a5.trans b5⟩

/-- **result half**, as for the operator padding: the remaining hypotheses are about the rewritten text -/
theorem C18_text_annotation_result {F : Type} (pf : List Char → Option F) (cc : CharClass) (hcc : cc.SaneBlank)
    (hcc2 : cc.Sane2) (hat : cc.SaneAt) (fo : FloatOps F) (host : Host F) (s s' : List Char) (T : List LexerToken)
    (hl : lex cc s = .ok T) (h : TextAnnotation cc s s') (hf : frag9' (toP T) = true)
    (rt : RTree) (href : refParse Table.gen (toP T) = .ok rt) (p : Program F) (hel : elaborate pf (toP T) rt = some p)
    (hwf : C01.WFProgram p) (input : Val F) (fuel : Nat) (v : Val F) (st : St F)
    (he : evalProgram fo host fuel p input = .ok (v, st))
    (hrem : ∀ T', lex cc s' = .ok T' → frag9' (toP T') = true ∧
      ∃ rt', refParse Table.gen (toP T') = .ok rt' ∧ elaborate pf (toP T') rt' = some p) :
    ∀ src ∈ [s, s'], ∃ d entry, C01Text.buildText pf cc src = .ok (d, entry) ∧
      ∃ n m, run fo host (progOf d) n
          { pc := (progOf d).jumps[entry]?.getD 0, regs := [], vals := [input], frames := [], trace := [] } = (.halted m, n) ∧
        m.vals = [v] ∧ m.regs = [] ∧ m.frames = [] ∧ m.trace = st.trace := by
  obtain ⟨T', _, hl', _⟩ := C18_text_annotation_lex cc hcc hcc2 hat s s' T hl h
  obtain ⟨hf', rt', href', hel'⟩ := hrem T' hl'
  intro src hsrc
  simp only [List.mem_cons, List.not_mem_nil, or_false] at hsrc
  rcases hsrc with rfl | rfl
  · exact C01Text.C01_text_correct pf cc fo host _ T hl hf rt href p hel hwf input fuel v st he
  · exact C01Text.C01_text_correct pf cc fo host _ T' hl' hf' rt' href' p hel' hwf input fuel v st he

/-! ### non-vacuity (Rust tables, by evaluation) -/

/-- executable form of `PadGuard` -/
def padGuardB (cc : CharClass) (p : List Char) (d : Char) (toks : List LexerToken) (t : LexerToken) : Bool :=
  match runChars cc p (Lexer.init theTree) [] with
  | .ok (σ, tk) =>
    tk == toks && σ.result == .ok && σ.state == .operator && σ.currentTokenType == some t.tokenType &&
    σ.currentCharacters == t.text && σ.tokenStartRow == t.row && σ.tokenStartColumn == t.column &&
    Garnish.Gen.LexTables.operatorChars.contains (t.text, t.tokenType) && !blocksFloat (some t.tokenType) &&
    (walkOperator theTree (t.text ++ [d])).isNone && d != ' ' && d != '\t' && d != '\n'
  | _ => false

theorem padGuard_of_check {cc : CharClass} {p : List Char} {d : Char} {toks : List LexerToken} {t : LexerToken}
    (h : padGuardB cc p d toks t = true) : PadGuard cc p d toks t := by
  unfold padGuardB at h
  cases hr : runChars cc p (Lexer.init theTree) [] with
  | ok r =>
    obtain ⟨σ, tk⟩ := r
    rw [hr] at h
    simp only [Bool.and_eq_true, beq_iff_eq, Bool.not_eq_true', bne_iff_ne, ne_eq, List.contains_eq_mem,
      decide_eq_true_eq, Option.isNone_iff_eq_none] at h
    obtain ⟨⟨⟨⟨⟨⟨⟨⟨⟨⟨⟨⟨h1, h2⟩, h3⟩, h4⟩, h5⟩, h6⟩, h7⟩, h8⟩, h9⟩, h10⟩, h11⟩, h12⟩, h13⟩ := h
    subst h1
    exact ⟨σ, hr, h2, h3, h4, h5, h6, h7, h8, h9, h10, h11, h12, h13⟩
  | err e => rw [hr] at h; cases h
  | panic m => rw [hr] at h; cases h
  | fuelOut => rw [hr] at h; cases h

theorem rustTables_saneAt : rustTables.SaneAt := ⟨by decide +kernel, by decide +kernel⟩

/-- `x+y` → `x+ y` -/
theorem exPad : TextPadOperatorAt rustTables ['x', '+', 'y'] ['x', '+', ' ', 'y'] [⟨['x'], .identifier, 0, 0⟩]
    ⟨['+'], .plusSign, 0, 1⟩ :=
  ⟨['x', '+'], 'y', [], ' ', Or.inl rfl, rfl, rfl, padGuard_of_check (by decide +kernel)⟩

deriving instance DecidableEq for Outcome

theorem exPad_lex : lex rustTables ['x', '+', 'y'] = .ok [⟨['x'], .identifier, 0, 0⟩, ⟨['+'], .plusSign, 0, 1⟩, ⟨['y'], .identifier, 0, 2⟩] ∧
    lex rustTables ['x', '+', ' ', 'y'] = .ok [⟨['x'], .identifier, 0, 0⟩, ⟨['+'], .plusSign, 0, 1⟩, ⟨[' '], .whitespace, 0, 2⟩,
      ⟨['y'], .identifier, 0, 3⟩] := by decide +kernel

/-- the composed theorem applies to it: both texts parse, to the same tree up to positions -/
example : ∃ T' r tr r' tr', lex rustTables ['x', '+', ' ', 'y'] = .ok T' ∧
    parse (toP [⟨['x'], .identifier, 0, 0⟩, ⟨['+'], .plusSign, 0, 1⟩, ⟨['y'], .identifier, 0, 2⟩]) = .ok r ∧ toTree r = some tr ∧
    parse (toP T') = .ok r' ∧ toTree r' = some tr' ∧ TreeEqTrivia (treeToRG r tr) (treeToRG r' tr') :=
  C18_text_padOperator rustTables C18Text2.rustTables_saneBlank rustTables_sane2 _ _ _ _ exPad (by decide) _ exPad_lex.1
    (by decide +kernel) (fun T' h => by
      have e : (Outcome.ok T' : Outcome (List LexerToken)) = .ok _ := h.symm.trans exPad_lex.2
      cases e
      decide +kernel)

/-- `x  + y` → `x @n  + y`… here: `x  y` → `x @ab y` (the annotation goes between the two blanks) -/
theorem exAnn : TextAnnotation rustTables ['x', ' ', ' ', 'y'] ['x', ' ', '@', 'a', 'b', ' ', 'y'] :=
  ⟨['x', ' '], [' '], ['a', 'b'], ' ', ['y'], inWsAfter_of_check (by decide +kernel),
    by decide +kernel, Or.inl rfl, rfl, rfl⟩

example : ∃ T' W, lex rustTables ['x', ' ', '@', 'a', 'b', ' ', 'y'] = .ok T' ∧
    AnnInserted W [⟨['x'], .identifier, 0, 0⟩, ⟨[' ', ' '], .whitespace, 0, 1⟩, ⟨['y'], .identifier, 0, 3⟩] T' :=
  C18_text_annotation_lex rustTables C18Text2.rustTables_saneBlank rustTables_sane2 rustTables_saneAt _ _ _
    (by decide +kernel) exAnn

end Garnish.Props.C18Text4
