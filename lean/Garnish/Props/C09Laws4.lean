/-
C09 — absolute value laws for the 32-bit integer fragment (corollaries of exactness).
-/
import Garnish.Props.C09
namespace Garnish.Props.C09Laws
open Garnish Garnish.Number Garnish.Props.C09

variable {F : Type} (fo : FloatOps F)

/-- The absolute value is unit only for the most negative integer. -/
theorem C09_int_absoluteValue_none_iff (a : Int) (ha : InRange a) :
    absoluteValue fo (.int a) = none ↔ a = -2147483648 := by
  rw [C09_int_absoluteValue fo a ha]
  unfold Spec.abs Spec.exact
  by_cases hin : InRange (a.natAbs : Int)
  · rw [if_pos hin]; unfold InRange at *; simp; omega
  · rw [if_neg hin]; unfold InRange at *; simp; omega

/-- A defined absolute value is non-negative, equals `a` or `-a`, and is a fixed point. -/
theorem C09_int_absoluteValue_some (a r : Int) (ha : InRange a)
    (h : absoluteValue fo (.int a) = some (.int r)) :
    0 ≤ r ∧ (r = a ∨ r = -a) ∧ absoluteValue fo (.int r) = some (.int r) := by
  rw [C09_int_absoluteValue fo a ha] at h
  unfold Spec.abs Spec.exact at h
  by_cases hin : InRange (a.natAbs : Int)
  · rw [if_pos hin] at h; simp at h; subst h
    refine ⟨by omega, by omega, ?_⟩
    rw [C09_int_absoluteValue fo _ hin]
    have e : (((a.natAbs : Int)).natAbs : Int) = (a.natAbs : Int) := by omega
    simp only [Spec.abs, Spec.exact, e]; simp [hin]
  · rw [if_neg hin] at h; simp at h

example : Spec.abs (-2147483648) = none ∧ Spec.abs (-2147483647) = some 2147483647 := by decide

end Garnish.Props.C09Laws
