/-
C01 over the RELATIVISED store contract `StoreLawsOn S Inv Readable` (Model/Runtime/StoreOn.lean) — the contract the
two concrete data objects can meet (`C01_simpleStore_lawsOn` for `SimpleGarnishData`).

`C01_refine_step_on`: one step of `execute_current_instruction` from an `Inv`-state simulates one step of Abs/Machine
and re-establishes `Inv`; `C01_refine_run_on` / `C01_refine_run_value_on`: the loop follows the machine's run.
COVERED instructions (`MachOKOn ≠ False`): Invalid, Put, PutValue, PushValue, UpdateValue, JumpTo, JumpIfTrue,
JumpIfFalse, EndExpression. Their side conditions (machine state only) are what the relativisation costs:
* a value that is pushed on a stack is not `custom` (`readable`: in Simple a `StackFrame` cell also has type Custom);
* a pop stays above the registers the newest frame saved (`MDeep`; holds for code that pops only what it pushed);
* the outermost `EndExpression` leaves no other register (Simple's `pop_frame` empties the registers there, so the
  halted state's registers are related only in this case; compiled programs end so: `C01_text_correct` gives
  `m.regs = []`).
NOT covered yet (the step theorem has `False` as their side condition): every other instruction; their handler lemmas
(Lemmas/Runtime*.lean) go through in the same way — thread `Inv`, give `Readable` at each `push_register` from the
`Decodes` fact at hand, give `Deep` at each `next_ref` — plus, for Concat / Access-with-merge / symbol look-up in
lists, the premises of `addConcatenation` / `mergeSome` / `ListSymOn`, and for the host calls an `Inv`-preservation
clause for `HostRefines`.
`StoreLawsRun.toOn`: every store with the unrelativised contract is an instance (`Inv = Readable = True`).
-/
import Garnish.Lemmas.RuntimeOn4
namespace Garnish.Props.RuntimeRefine
open Garnish Gen Garnish.Abs Garnish.Model.Equality Garnish.Model.Runtime Garnish.Lemmas.Runtime
open Garnish.Lemmas.Runtime.On

variable {F σ : Type} {S : RStore F σ} {Inv : σ → Prop} {Rd : σ → Nat → Prop} {P : Prog F} {host : Host F}
  (fo : FloatOps F)

/-- ONE STEP over the relativised contract -/
theorem C01_refine_step_on (L : StoreLawsOn S Inv Rd) (fuel : Nat) (H : OtherHandlers σ) {s : σ} {m : MState F}
    (hsim : Sim S P s m) (hi : Inv s) (hl : Loaded S P s) {instr : Instruction} {operand : Option Nat}
    (hfetch : P.instrs[m.pc]? = some (instr, operand)) (hok : MachOKOn P m instr operand) :
    StepSimOn fo host S Inv P fuel H s m := refine_step_on fo L fuel H hsim hi hl hfetch hok

/-- MULTI-STEP over the relativised contract: `Sim` and `Inv` are kept along the run -/
theorem C01_refine_run_on (L : StoreLawsOn S Inv Rd) (fuel : Nat) (H : OtherHandlers σ) (n : Nat) {s : σ}
    {m : MState F} (hsim : Sim S P s m) (hi : Inv s) (hl : Loaded S P s) (hok : RunOKOn fo host P n m)
    {m' : MState F} {k : Nat} (hrun : Abs.run fo host P n m = (.halted m', k)) :
    ∃ s', executeLoop fo S fuel H n s = .ok ((.end_, k), s') ∧ SimD S P s' m'.regs m'.vals m'.frames ∧
      DecKept S s s' ∧ Inv s' := executeLoop_spec_on fo L fuel H n s m hsim hi hl hok m' k hrun

/-- the final value -/
theorem C01_refine_run_value_on (L : StoreLawsOn S Inv Rd) (fuel : Nat) (H : OtherHandlers σ) (n : Nat) {s : σ}
    {m : MState F} (hsim : Sim S P s m) (hi : Inv s) (hl : Loaded S P s) (hok : RunOKOn fo host P n m)
    {m' : MState F} {k : Nat} (hrun : Abs.run fo host P n m = (.halted m', k)) {v : Val F}
    (hv : m'.vals = [v]) (hr : m'.regs = []) (hf : m'.frames = []) :
    ∃ s' a, executeLoop fo S fuel H n s = .ok ((.end_, k), s') ∧
      S.vals s' = [a] ∧ Decodes (S.view s') a v ∧ S.regs s' = [] ∧ S.frames s' = [] ∧ Inv s' := by
  obtain ⟨s', h1, hd, _, i'⟩ := C01_refine_run_on fo L fuel H n hsim hi hl hok hrun
  have hvals := hd.vals
  rw [hv] at hvals
  obtain ⟨a, as, e1, da, t⟩ := decodesList_cons_inv hvals
  have has : as = [] := by cases t; rfl
  have hregs := hd.regs
  rw [hr] at hregs
  have hfr := hd.frames
  rw [hf] at hfr
  refine ⟨s', a, h1, by rw [e1, has], da, ?_, ?_, i'⟩
  · generalize S.regs s' = rs at hregs; cases hregs; rfl
  · generalize S.frames s' = fs at hfr; cases hfr; rfl

end Garnish.Props.RuntimeRefine
