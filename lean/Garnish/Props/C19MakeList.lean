/-
The list interface as the runtime's `make_list` uses it, on BasicGarnishData: `start_list(n)`, `n` × `add_to_list`,
`k` × `pop_register`, `end_list` (`makeListPopRM`, Lemmas/BasicList4.lean) — the construction respects the announced
length and the pops happen while the list is under construction.
`basic_makeListPop_law`: on every `BInvL` state, if the items decode to `vs` the sequence answers `Ok` with an address
that decodes to `.list vs`; the registers are the old ones without the first `k`, the input values, frames and every
earlier `Decodes` fact are untouched, and `BInvL` holds again.  For `k = 0` this is `basic_makeList_law`.
-/
import Garnish.Props.C19StoreOnL
import Garnish.Lemmas.BasicList4
namespace Garnish.Props.C19MakeList
open Garnish Gen Garnish.Model.Equality Garnish.Model.Runtime Garnish.Model.Runtime.Basic Garnish.BasicOpt
open Garnish.Lemmas.Runtime.Basic Garnish.Lemmas.Runtime Garnish.Props.C19StoreOn Garnish.Props.C19ListOn

variable {F : Type}

theorem regCell_node {cells : Array Cell} {o : Option Nat} (h : ∀ a, o = some a → isRegCell cells a = true) :
    headOK cells o = true := by
  cases o with
  | none => rfl
  | some x =>
    have := h x rfl
    unfold isRegCell at this
    cases hc : cells[x]? with
    | none => simp [hc] at this
    | some c =>
      rw [hc] at this
      cases c <;> simp at this
      · exact (by simp [headOK, isNode, shape_of_solo hc (sh := ⟨.register 0 0, [], [_, _]⟩) rfl])
      · exact (by simp [headOK, isNode, shape_of_solo hc (sh := ⟨.registerRoot 0, [], [_]⟩) rfl])

/-- **basic_makeListPop_law** -/
theorem basic_makeListPop_law (nc : NumCode F) {st : BState} (hI : BInvL st) {items : List Nat} {vs : List (Val F)}
    (hd : DecodesList ((basicRStore nc).view st) items vs) (k : Nat) :
    ∃ a st', makeListPopRM (basicRStore nc) items k st = .ok (a, st') ∧
      Decodes ((basicRStore nc).view st') a (.list vs) ∧
      Eff (basicRStore nc) st st' (((basicRStore nc).regs st).drop k) ((basicRStore nc).vals st) ∧ BInvL st' := by
  obtain ⟨hinv, hlay⟩ := hI
  have hd' : DecodesList (basicView nc.dec st.store.cells) items vs := hd
  have hnode : ∀ a ∈ items, isNode st.store.cells a = true := by
    intro a ha
    obtain ⟨v, hv⟩ := decodesList_mem hd' a ha
    exact (decodes_node hinv.wfq hv).2
  have hlt : ∀ a ∈ items, a < st.store.cells.size := fun a ha => node_lt (hnode a ha)
  have hpair : ∀ a ∈ items, ∀ l r, st.store.cells[a]? = some (Cell.pair l r) → l < st.store.cells.size := by
    intro a ha l r hc
    have hsh : shape st.store.cells a = some ⟨.pair 0 0, [], [l, r]⟩ := shape_of_solo hc rfl
    have := hinv.wfq.kid_lt hsh (by simp [svAt, hc, isSV]) (k := l) (by simp)
    have := hlt a ha
    omega
  obtain ⟨s4, li, hok, hlay'⟩ := buildList_total hinv.fits hlay hlt hpair
  obtain ⟨_, hdec, he, hb⟩ := basic_buildList_law nc hinv hd hok
  obtain ⟨_, hcells4, hf4⟩ := buildList_spec hlt hok
  have hsub4 : Sub st.store.cells s4.cells := by rw [hcells4]; exact sub_append _ _
  -- the three phases
  have hsplit := hok
  simp only [Store.buildList, BasicOpt.bind_eq_ok] at hsplit
  obtain ⟨⟨s1, li1⟩, hstart, s2, hfold, hend⟩ := hsplit
  obtain ⟨hli1, _, f1⟩ := startList_spec hstart
  subst hli1
  obtain ⟨hinv2, f2⟩ := addAll_exp items 0 s1 s2 (by simp) (startList_exp hstart) hlt hfold
  have hsub2 : Sub st.store.cells s2.cells := by
    intro p c hc
    rw [hinv2 p, expCell_base (cell_lt hc)]; exact hc
  have hreg2 : s2.currentRegister = st.store.currentRegister := (f1.trans f2).2.2.2.2.1
  -- the pops
  obtain ⟨o', hh, htyped, hregs⟩ := headAfter_total hinv.wfq hinv.regPrev k st.store.currentRegister hinv.regHead
  have hh2 : headAfter s2.cells k s2.currentRegister = some o' := by
    rw [hreg2]; exact headAfter_sub hsub2 k _ _ hh
  have h1 : (basicRStore nc).startList items.length st =
      .ok (st.store.cells.size, { st with store := s1, building := some (st.store.cells.size, []) }) := by
    show (match st.store.startList items.length with | .ok (s', i) => _ | .err e => _ | .panic m => _ | .fuelOut => _) = _
    rw [hstart]
  obtain ⟨bl, h2⟩ := addAllRM_basic nc st.store.cells.size items
    { st with store := s1, building := some (st.store.cells.size, []) } s2 hfold
  have h3 := popsRM_basic nc k { st with store := s2, building := bl } o' hh2
  have hend' := endList_reg o' hend
  have h4 : (basicRStore nc).endList st.store.cells.size
      { st with store := { s2 with currentRegister := o' }, building := bl } =
      .ok (li, { st with store := { s4 with currentRegister := o' }, building := none }) := by
    show (match Store.endList { s2 with currentRegister := o' } st.store.cells.size with
      | .ok (s', i) => _ | .err e => _ | .panic m => _ | .fuelOut => _) = _
    rw [hend']
  have hotlt : ∀ a, o' = some a → a < st.store.cells.size := fun a ha => isRegCell_lt (htyped a ha)
  refine ⟨li, { st with store := { s4 with currentRegister := o' }, building := none }, ?_, hdec,
    ⟨⟨he.keeps.dec, rfl, rfl, rfl, rfl⟩, ?_, he.vals, rfl, he.frames⟩, ⟨?_, hb.fits, ?_, hb.regPrev, hb.frameSaved,
      ⟨hb.ftyped.head, hb.ftyped.prev, hb.ftyped.reg⟩⟩, hlay'⟩
  · simp only [makeListPopRM, RM.bind, h1, h2, h3]
    exact h4
  · show regsOf s4.cells o' = _
    rw [regsOf_sub hsub4 hotlt, hregs]; rfl
  · exact hb.wfq.withHeads o' _ _ (regCell_node (fun a ha => isRegCell_sub hsub4 (htyped a ha))) hb.wfq.val hb.wfq.frm
  · intro a ha
    exact isRegCell_sub hsub4 (htyped a ha)

/-! ### non-vacuity: `7`, `:3`, two registers, then the list `(7 :3)` built while both registers are popped -/

example (nc : NumCode F) : ∃ st1 st2 st3 st4 st5 a b l,
    (basicRStore nc).addNumber (.int 7) BState.init = .ok (a, st1) ∧
    (basicRStore nc).addSymbol 3 st1 = .ok (b, st2) ∧
    (basicRStore nc).pushRegister a st2 = .ok ((), st3) ∧ (basicRStore nc).pushRegister b st3 = .ok ((), st4) ∧
    makeListPopRM (basicRStore nc) [a, b] 2 st4 = .ok (l, st5) ∧
    Decodes ((basicRStore nc).view st5) l (.list [.num (.int 7), .sym 3]) ∧
    (basicRStore nc).regs st5 = [] ∧ BInvL st5 := by
  have L := Garnish.Props.C19StoreOnL.basicStore_lawsOnL_noList nc
  obtain ⟨a, st1, h1, d1, e1, i1⟩ := L.addNumber (.int 7) _ binvL_init
  obtain ⟨b, st2, h2, d2, e2, i2⟩ := L.addSymbol 3 _ i1
  have d1' := e2.keeps.dec _ _ d1
  obtain ⟨st3, h3, e3, i3⟩ := L.pushRegister a _ i2 (L.readable _ _ _ i2 d1' (by simp))
  obtain ⟨st4, h4, e4, i4⟩ := L.pushRegister b _ i3 (L.readable _ _ _ i3 (e3.keeps.dec _ _ d2) (by simp))
  have dl : DecodesList ((basicRStore nc).view st4) [a, b] [.num (.int 7), .sym 3] :=
    .cons (e4.keeps.dec _ _ (e3.keeps.dec _ _ d1')) (.cons (e4.keeps.dec _ _ (e3.keeps.dec _ _ d2)) .nil)
  obtain ⟨l, st5, h5, d5, e5, i5⟩ := basic_makeListPop_law nc i4 dl 2
  refine ⟨st1, st2, st3, st4, st5, a, b, l, h1, h2, h3, h4, h5, d5, ?_, i5⟩
  rw [e5.regs, e4.regs, e3.regs, e2.regs, e1.regs]; rfl

end Garnish.Props.C19MakeList
