/-
`simpleRStore` and the payload-free model of the `SimpleDataList` (Model/SimpleBuild.lean, Model/AccessSimple.lean)
describe the same data list: every adder of the store is the corresponding constructor step on the erased list.
-/
import Garnish.Lemmas.RuntimeSimpleErase
namespace Garnish.Props.RuntimeRefine
open Garnish Gen Garnish.Model.Equality Garnish.Model.Runtime Garnish.Lemmas.Runtime.Simple
open Garnish.Access.Simple (SData SCell SOp step)

variable {F : Type}

/-- adder by adder: the call on the store is the step `op` on the erased list -/
structure AddersErase (S : RStore F (SimState F)) (hit' : SData → SCell → Option Nat) : Prop where
  unit : ∀ st a st', S.addUnit st = .ok (a, st') → step hit' (eraseD st.cells) .unit = .ok (eraseD st'.cells, a)
  tru : ∀ st a st', S.addTrue st = .ok (a, st') → step hit' (eraseD st.cells) .tru = .ok (eraseD st'.cells, a)
  fls : ∀ st a st', S.addFalse st = .ok (a, st') → step hit' (eraseD st.cells) .fls = .ok (eraseD st'.cells, a)
  int : ∀ (v : Int32) st a st', S.addNumber (.int v.toInt) st = .ok (a, st') →
    step hit' (eraseD st.cells) (.number v) = .ok (eraseD st'.cells, a)
  float : ∀ (f : F) st a st', S.addNumber (.float f) st = .ok (a, st') →
    step hit' (eraseD st.cells) .float = .ok (eraseD st'.cells, a)
  type : ∀ t st a st', S.addType t st = .ok (a, st') →
    step hit' (eraseD st.cells) (.leafConst .type_) = .ok (eraseD st'.cells, a)
  char : ∀ c st a st', S.addChar c st = .ok (a, st') →
    step hit' (eraseD st.cells) (.leafConst .char) = .ok (eraseD st'.cells, a)
  byte : ∀ b st a st', S.addByte b st = .ok (a, st') →
    step hit' (eraseD st.cells) (.leafConst .byte) = .ok (eraseD st'.cells, a)
  symbol : ∀ y st a st', S.addSymbol y st = .ok (a, st') →
    step hit' (eraseD st.cells) (.symbol y) = .ok (eraseD st'.cells, a)
  pair : ∀ l r st a st', S.addPair (l, r) st = .ok (a, st') →
    step hit' (eraseD st.cells) (.pair l r) = .ok (eraseD st'.cells, a)
  range : ∀ l r st a st', S.addRange l r st = .ok (a, st') →
    step hit' (eraseD st.cells) (.range l r) = .ok (eraseD st'.cells, a)
  slice : ∀ l r st a st', S.addSlice l r st = .ok (a, st') →
    step hit' (eraseD st.cells) (.slice l r) = .ok (eraseD st'.cells, a)
  concat : ∀ l r st a st', S.addConcatenation l r st = .ok (a, st') →
    step hit' (eraseD st.cells) (.concat l r) = .ok (eraseD st'.cells, a)
  part : ∀ l r st a st', S.addPartial l r st = .ok (a, st') →
    step hit' (eraseD st.cells) (.partial_ l r) = .ok (eraseD st'.cells, a)
  list : ∀ t items st a st', st.currentList = some items → S.endList t st = .ok (a, st') →
    step hit' (eraseD st.cells) (.list items) = .ok (eraseD st'.cells, a)
  frame : ∀ j st st', S.pushFrame j st = .ok ((), st') →
    step hit' (eraseD st.cells) .stackFrame = .ok (eraseD st'.cells, st.cells.length)

theorem C15_simple_adders_erase {hit : List (SimCell F) → SimCell F → Option Nat} {h : SimHost F}
    {hit' : SData → SCell → Option Nat} (he : HitErases hit hit') : AddersErase (simpleRStore hit h) hit' where
  unit := fun _ _ _ hp => addUnit_erases hp
  tru := fun _ _ _ hp => addTrue_erases hp
  fls := fun _ _ _ hp => addFalse_erases hp
  int := fun _ _ _ _ hp => addInt_erases he hp
  float := fun _ _ _ _ hp => addFloat_erases he hp
  type := fun _ _ _ _ hp => addType_erases he hp
  char := fun _ _ _ _ hp => addChar_erases he hp
  byte := fun _ _ _ _ hp => addByte_erases he hp
  symbol := fun _ _ _ _ hp => addSymbol_erases he hp
  pair := fun _ _ _ _ _ hp => addPair_erases hp
  range := fun _ _ _ _ _ hp => addRange_erases hp
  slice := fun _ _ _ _ _ hp => addSlice_erases hp
  concat := fun _ _ _ _ _ hp => addConcatenation_erases hp
  part := fun _ _ _ _ _ hp => addPartial_erases hp
  list := fun _ _ _ _ _ hb hp => endList_erases hb hp
  frame := fun _ _ _ hp => pushFrame_erases hp

end Garnish.Props.RuntimeRefine
