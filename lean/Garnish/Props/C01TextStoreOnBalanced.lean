/-
`C01_text_to_simple_store_balanced`: the source-text theorem on `SimpleGarnishData` for programs of coverage groups 0–1
with the run-level side condition `RunOKG` DISCHARGED from stack balance (Props/RuntimeRefineOnBalanced.lean): what
remains are a static check of the compiled program (`balancedB p`, instructions of groups 0–1 only, constants that are
leaves Simple holds and not `custom`, the entry inside the program) and two conditions on the machine run (no `custom`
value on top level of the stacks; calls enter bodies the analysis knows — no instruction of groups 0–1 makes a call, but
that no frame is pushed then is not proved here).
-/
import Garnish.Props.RuntimeRefineOnBalanced
namespace Garnish.Props.C01TextStore
open Garnish Garnish.Gen Garnish.Spec Garnish.Abs Garnish.Abs.Tree Garnish.Abs.Source Garnish.Model Garnish.Model.Parser
open Garnish.Model.Lexer Garnish.Model.Literals Garnish.Model.Build Garnish.Props.C01Build Garnish.Props.C01Source
open Garnish.Props.C02Numbered Garnish.Props.C01Text
open Garnish.Model.Equality Garnish.Model.Runtime Garnish.Lemmas.Runtime Garnish.Props.RuntimeRefine
open Garnish.Lemmas.Runtime.On Garnish.Lemmas.Runtime.Simple Garnish.Props.SourceProps

variable {F : Type} (pf : List Char → Option F) (cc : CharClass)

theorem C01_text_to_simple_store_balanced {hit : List (SimCell F) → SimCell F → Option Nat} (hs : HitSound hit)
    (hh : SimHost F) (fo : FloatOps F) (host : Host F) (HR : HostRefinesI (simpleRStore hit hh) SInv host)
    (loopFuel : Nat) (H : OtherHandlers (SimState F)) (s : List Char) (toks : List LexerToken)
    (hlex : lex cc s = .ok toks) (hf : frag9' (toP toks) = true) (rt : RTree)
    (href : refParse Table.gen (toP toks) = .ok rt) (p : Program F) (hel : elaborate pf (toP toks) rt = some p)
    (hwf : C01.WFProgram p) (hbal : balancedB p = true) (input : Val F) (fuel : Nat) (v : Val F) (st : St F)
    (h : evalProgram fo host fuel p input = .ok (v, st))
    (hentry : (compile p).jumps[0]?.getD 0 < (compile p).instrs.size)
    (hinstr : ∀ (pc : Nat) (i : Instruction) (o : Option Nat), (compile p).instrs[pc]? = some (i, o) → inG1 i = true)
    (hleaf : (compile p).consts.toList.all isLeafS = true) (hin : isLeafS input = true)
    (hconst : ∀ (k : Nat) (c : Val F), (compile p).consts[k]? = some c → c ≠ Val.custom)
    (hnc : ∀ m, C06.ReachK fo host (compile p) ((compile p).jumps[0]?.getD 0 :: C06.exprEntries (compile p))
      ⟨(compile p).jumps[0]?.getD 0, [], [input], [], []⟩ m → NoCustomTop m)
    (hcalls : ∀ m m', C06.ReachK fo host (compile p) ((compile p).jumps[0]?.getD 0 :: C06.exprEntries (compile p))
      ⟨(compile p).jumps[0]?.getD 0, [], [input], [], []⟩ m → Abs.step fo host (compile p) m = .running m' →
      m'.frames.length = m.frames.length + 1 →
      m'.pc ∈ (compile p).jumps[0]?.getD 0 :: C06.exprEntries (compile p)) :
    ∃ d n, buildText pf cc s = .ok (d, 0) ∧ progOf d = compile p ∧
      ∃ s' a, executeLoop fo (simpleRStore hit hh) loopFuel H n
          (loadSimple (reloc (progOf d)) ((progOf d).jumps[0]?.getD 0) input) = .ok ((.end_, n), s') ∧
        s'.values = [a] ∧ Decodes (simView s'.cells) a v ∧ (simpleRStore hit hh).regs s' = [] ∧
        (simpleRStore hit hh).frames s' = [] ∧ SInv s' := by
  have hwb := balancedB_sound hbal
  have hsrc : Src pf cc s p := ⟨toks, rt, hlex, hf, href, hel⟩
  obtain ⟨d0, hbt, hd⟩ := hsrc.built (C01.compile_complete p hwb.labels)
  obtain ⟨dep, hdep, _⟩ := C06.C06_compile_balanced_sound fo host p hwb
  obtain ⟨d, entry, n, hb, hrun⟩ :=
    C01_text_to_simple_store1 pf cc hs hh fo host HR loopFuel H s toks hlex hf rt href p hel hwf input fuel v st h
  rw [hbt] at hb
  obtain ⟨rfl, rfl⟩ : d0 = d ∧ 0 = entry := by
    simp only [Outcome.ok.injEq, Prod.mk.injEq] at hb; exact hb
  refine ⟨d0, n, hbt, hd, ?_⟩
  rw [hd] at hrun ⊢
  refine hrun hleaf hin ?_
  refine runOKG_reloc (MachOKOn1 (reloc (compile p))) (MachOKOn1 (compile p)) (fun m i o _ hk => machOKOn1_reloc hk) n _ ?_
  exact C01_runOKOn_of_balanced hdep hentry [input] [] hinstr hconst hnc hcalls n

end Garnish.Props.C01TextStore
