/-
**characters → `SimpleGarnishData` with its symbol look-up** (`simpleRStoreA`), the whole instruction set, coverage
`MachOKOn4D`: `C01_text_to_simple_store_full` (Props/RuntimeRefineOn4.lean) on the store that models
`get_list_item_with_symbol`, with symbol look-ups into lists of pairwise different keys COVERED and no `ListSymOn`
hypothesis.  `Sim` / `Loaded` / the loaded state carry over from `simpleRStore` (they do not mention the getter).
-/
import Garnish.Props.ListSymRun
import Garnish.Props.C01TextStoreOnG
set_option linter.unusedSimpArgs false
set_option linter.unusedVariables false
namespace Garnish.Props.ListSymText
open Garnish Garnish.Gen Garnish.Spec Garnish.Abs Garnish.Abs.Tree Garnish.Abs.Source Garnish.Model Garnish.Model.Parser
open Garnish.Model.Lexer Garnish.Model.Literals Garnish.Model.Build Garnish.Props.C01Build Garnish.Props.C01Source
open Garnish.Props.C02Numbered Garnish.Props.C01Text Garnish.Props.C01TextStore
open Garnish.Model.Equality Garnish.Model.Runtime Garnish.Lemmas.Runtime Garnish.Props.RuntimeRefine
open Garnish.Lemmas.Runtime.On Garnish.Lemmas.Runtime.Simple Garnish.Lemmas.Runtime.SimpleSym

variable {F σ : Type}

theorem sim_withSym {S : RStore F σ} {g : σ → Nat → Nat → Outcome (Option Nat)} {P : Prog F} {s : σ} {m : MState F}
    (h : Sim S P s m) : Sim (withSym S g) P s m :=
  ⟨h.1, ⟨h.2.regs, h.2.vals, h.2.frames, h.2.instrs, h.2.jumps, h.2.ilen⟩⟩

variable (pf : List Char → Option F) (cc : CharClass)

/-- **ListSym_text_to_simple_store** -/
theorem ListSym_text_to_simple_store {hit : List (SimCell F) → SimCell F → Option Nat} (hs : HitSound hit)
    (hh : SimHost F) (fo : FloatOps F) (host : Host F) (HR : HostRefinesI (simpleRStoreA hit hh) SInv host)
    (loopFuel : Nat) (cast : RM (SimState F) (Option Nat)) (s : List Char) (toks : List LexerToken)
    (hlex : lex cc s = .ok toks) (hf : frag9' (toP toks) = true) (rt : RTree)
    (href : refParse Table.gen (toP toks) = .ok rt) (p : Program F) (hel : elaborate pf (toP toks) rt = some p)
    (hwf : C01.WFProgram p) (input : Val F) (fuel : Nat) (v : Val F) (st : St F)
    (h : evalProgram fo host fuel p input = .ok (v, st)) :
    ∃ d entry n, buildText pf cc s = .ok (d, entry) ∧
      ((progOf d).consts.toList.all isLeafS = true → isLeafS input = true →
        RunOKG fo (MachOKOn4D fo (simpleRStoreA hit hh) SInv (reloc (progOf d)) loopFuel) host (reloc (progOf d)) n
          { pc := (progOf d).jumps[entry]?.getD 0, regs := [], vals := [input], frames := [], trace := [] } →
        ∃ s' a, executeLoop fo (simpleRStoreA hit hh) loopFuel (fullHandlers fo (simpleRStoreA hit hh) loopFuel cast) n
            (loadSimple (reloc (progOf d)) ((progOf d).jumps[entry]?.getD 0) input) = .ok ((.end_, n), s') ∧
          s'.values = [a] ∧ Decodes (simView s'.cells) a v ∧ (simpleRStoreA hit hh).regs s' = [] ∧
          (simpleRStoreA hit hh).frames s' = [] ∧ SInv s') := by
  obtain ⟨d, entry, hb, n, m, hrun, hv, hr, hfr, _⟩ :=
    C01_text_correct pf cc fo host s toks hlex hf rt href p hel hwf input fuel v st h
  refine ⟨d, entry, n, hb, fun hleaf hin hok => ?_⟩
  have hleaf' : (reloc (progOf d)).consts.toList.all isLeafS = true := by
    show (Val.unit :: .fls :: .tru :: (progOf d).consts.toList).all isLeafS = true
    simp only [List.all_cons, hleaf, Bool.and_true]
    rfl
  have hload := C01_loadSimple_loaded hit hh (reloc (progOf d)) ((progOf d).jumps[entry]?.getD 0) input hleaf' hin
  have hinv : SInv (loadSimple (reloc (progOf d)) ((progOf d).jumps[entry]?.getD 0) input) :=
    C01_loadSimple_inv _ _ _ (by simp [reloc]) (by simp [reloc]) (by simp [reloc])
  rw [← run_reloc] at hrun
  exact refine_run_value_gen (S := simpleRStoreA hit hh) fo host
    (MachOKOn4D fo (simpleRStoreA hit hh) SInv (reloc (progOf d)) loopFuel) loopFuel _
    (fun s m instr operand hsim hi hl hf hk =>
      refine_step_on4D fo (simpleA_lawsOn hs) (simpleA_listSymDistinct SInv) HR loopFuel cast hsim hi hl hf hk)
    n (sim_withSym hload.sim) hinv hload.consts hok hrun hv hr hfr

end Garnish.Props.ListSymText
