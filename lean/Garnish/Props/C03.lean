/-
Property C03 — the compile pipeline is total.

"For every input string, `lex`, then `parse` on its tokens, then `build` on the parse result (into either data
implementation) each return promptly - in time polynomial in the input length - with either Ok or an Err value.
None of them panics, overflows the stack, or fails to terminate, whatever the text contains."

Models: Garnish.Model.Lexer (lexer.rs), Garnish.Model.Parser (parser.rs), Garnish.Model.Build (build.rs, value-level data
object: the statement does not depend on which of the two data implementations is written into).  The models are
structurally recursive functions (no `partial`), so "overflows the stack / fails to terminate" is `Outcome.fuelOut`
(a loop of the Rust that is still running when the model's fuel is used up) and "panics" is `Outcome.panic`.

Proved:
  * `C03_lex_total`, `C03_lex_cost`: `lex` returns `ok` or `err` for every input, stepping its state machine at most
    `|s| + 2` times;
  * `C03_parse_total`: `parse` returns `ok` or `err` for every token list (its parent walks are capped by the node count);
  * `C03_build_total`: `build`, run with the explicit step bound `defaultFuel n = 20·n + 100` for each of its two
    work-list loops, returns `ok` or `err` for EVERY node vector and root index (proper tree or not — the validation
    pass `validate_parse_tree` rejects everything else) whose Symbol and ByteList token texts have the shape the lexer
    gives them (`LexShaped`); in particular it never panics and never runs out of fuel:
    `C03_build_no_panic`, `C03_build_terminates`.  Proof (Lemmas/BuildTotal*.lean): `validate_parse_tree = ok` establishes
    a tree (`validateParseTree_ok`); on it every node goes through the phases unscheduled → [arm of an else-chain] →
    [pending root] → first visit pending → [second visit pending] → done and is scheduled only by its unique parent in
    one fixed visit; the potential `Σ rank(phase)` starts below `5·n` and drops in every iteration of either loop;
    every index the traversal touches is a marked node, hence in range.
  * `C03_pipeline_total`: the three stages composed.
The literal hypothesis is exact: `build` DOES panic on a Symbol token whose text is empty or starts with a multi-byte
character (`&text[1..]`) and on a multi-quote ByteList token whose closing quotes are unbalanced around a multi-byte
character (`&input[q..len-q]`); the lexer never produces such tokens (an unterminated literal is a lex error), which the
LEX suite checks against the implementation.  Number and CharList texts need no hypothesis.
Cost: lexing is linear, parsing at most quadratic in the number of tokens (two capped walks per token), building linear
in the number of nodes (at most `5·n` loop iterations in total, `validate_parse_tree` at most `n + 1`).
-/
import Garnish.Lemmas.Lexer
import Garnish.Lemmas.Parser
import Garnish.Lemmas.BuildTotalLits
namespace Garnish.Props.C03
open Garnish Garnish.Gen Garnish.Model.Lexer Garnish.Model.Parser Garnish.Model.Build Garnish.Model.Literals Garnish.Lemmas.Build
open Garnish.Lemmas.BuildTotal

/-- the outcome is a value or an error value: no panic, no non-termination -/
def Returns {α : Type} (o : Outcome α) : Prop := (∃ a, o = .ok a) ∨ (∃ e, o = .err e)

theorem returns_of_safe {α : Type} {o : Outcome α} (h : Garnish.Model.Parser.Safe o) : Returns o := by
  cases o with
  | ok a => exact Or.inl ⟨a, rfl⟩
  | err e => exact Or.inr ⟨e, rfl⟩
  | panic s => exact absurd h (by simp)
  | fuelOut => exact absurd h (by simp)

theorem returns_of_ne {α : Type} {o : Outcome α} (hp : ∀ s, o ≠ .panic s) (hf : o ≠ .fuelOut) : Returns o := by
  cases o with
  | ok a => exact Or.inl ⟨a, rfl⟩
  | err e => exact Or.inr ⟨e, rfl⟩
  | panic s => exact absurd rfl (hp s)
  | fuelOut => exact absurd rfl hf

theorem Returns.ne_panic {α : Type} {o : Outcome α} (h : Returns o) (s : String) : o ≠ .panic s := by
  rcases h with ⟨a, h⟩ | ⟨e, h⟩ <;> rw [h] <;> intro h' <;> cases h'

theorem Returns.ne_fuelOut {α : Type} {o : Outcome α} (h : Returns o) : o ≠ .fuelOut := by
  rcases h with ⟨a, h⟩ | ⟨e, h⟩ <;> rw [h] <;> intro h' <;> cases h'

/-- `LexerToken` of the lexer model as the token type of the parser model -/
def toPToken (t : LexerToken) : PToken := ⟨t.text, t.tokenType, t.row, t.column⟩

/-! ### lexer and parser (re-exports) -/

/-- lexing is total (Lemmas/Lexer.lean) -/
theorem C03_lex_total (cc : CharClass) (hcc : cc.Sane) (input : List Char) : Returns (lex cc input) := by
  rcases lex_total cc hcc input with h | ⟨toks, h⟩
  · exact Or.inr ⟨_, h⟩
  · exact Or.inl ⟨_, h⟩

/-- cost of lexing: the state machine is stepped once per input character plus at most two end-of-input steps -/
theorem C03_lex_cost (cc : CharClass) (hcc : cc.Sane) (input : List Char) :
    lexFull cc input = .err .syntax ∨
    ∃ toks s', lexFull cc input = .ok (toks, s') ∧
      (s'.charactersLexed = input.length + 1 ∨ s'.charactersLexed = input.length + 2) :=
  lexFull_total cc hcc input

/-- parsing is total (Lemmas/Parser.lean); per token the two parent walks are capped by `nodes.size + 1` iterations -/
theorem C03_parse_total (tokens : List PToken) : Returns (parse tokens) := returns_of_safe (parse_safe tokens)

/-! ### the builder -/

/-- the validation prefix of `build` is total: at most `nodes.size + 1` iterations, no panic -/
theorem C03_validate_total (root : Nat) (nodes : Array ParseNode) : Returns (validateParseTree root nodes) :=
  returns_of_ne (fun s => satNP_noPanic (validateParseTree_np root nodes) s) (validateParseTree_terminates root nodes)

/-- what a successful validation establishes, in the form of in-range links -/
theorem C03_validated_links {root : Nat} {tree : Array ParseNode} (h : validateParseTree root tree = .ok ()) :
    root < tree.size ∧ ∃ G : Nat → Prop, G root ∧
      ∀ i, G i → ∃ pn, tree[i]? = some pn ∧ (∀ c, pn.left = some c → c < tree.size ∧ G c) ∧
        (∀ c, pn.right = some c → c < tree.size ∧ G c) :=
  validateParseTree_links h

/-- every node of the vector carries a lexer-shaped token text (only Symbol and ByteList nodes are constrained) -/
def NodesShaped (nodes : Array ParseNode) : Prop :=
  ∀ (i : Nat) (pn : ParseNode), nodes[i]? = some pn → LexShaped pn

variable {F : Type}

/-- C03 for the builder: for every node vector and root index whose Symbol / ByteList texts are lexer-shaped, `build`
with the step bound `defaultFuel n = 20·n + 100` returns `ok` or `err` -/
theorem C03_build_total (parseFloat : List Char → Option F) (root : Nat) (nodes : Array ParseNode) (d : BState F)
    (hshape : NodesShaped nodes) : Returns (build parseFloat (defaultFuel nodes.size) root nodes d) :=
  good_returns (build_total_shaped parseFloat root nodes hshape d)

theorem C03_build_no_panic (parseFloat : List Char → Option F) (root : Nat) (nodes : Array ParseNode) (d : BState F)
    (hshape : NodesShaped nodes) (site : String) : build parseFloat (defaultFuel nodes.size) root nodes d ≠ .panic site :=
  (C03_build_total parseFloat root nodes d hshape).ne_panic site

theorem C03_build_terminates (parseFloat : List Char → Option F) (root : Nat) (nodes : Array ParseNode) (d : BState F)
    (hshape : NodesShaped nodes) : build parseFloat (defaultFuel nodes.size) root nodes d ≠ .fuelOut :=
  (C03_build_total parseFloat root nodes d hshape).ne_fuelOut

/-- the same with the semantic literal condition instead of the syntactic shape: the two slicing operations of the
literal layer succeed on the texts of Symbol and ByteList nodes -/
theorem C03_build_total_litSafe (parseFloat : List Char → Option F) (root : Nat) (nodes : Array ParseNode) (d : BState F)
    (hlit : ∀ (i : Nat) (pn : ParseNode), nodes[i]? = some pn → LitSafe parseFloat pn) :
    Returns (build parseFloat (defaultFuel nodes.size) root nodes d) :=
  good_returns (build_total parseFloat hlit d)

/-! ### the pipeline -/

/-- C03 on the models: for every string each stage returns `ok` or `err`; for the builder under the hypothesis that
the Symbol / ByteList nodes of the parse result carry lexer-shaped texts -/
theorem C03_pipeline_total (cc : CharClass) (hcc : cc.Sane) (parseFloat : List Char → Option F) (s : List Char) (d : BState F) :
    Returns (lex cc s) ∧
    ∀ toks, lex cc s = .ok toks →
      Returns (parse (toks.map toPToken)) ∧
      ∀ r, parse (toks.map toPToken) = .ok r → NodesShaped r.nodes →
        Returns (build parseFloat (defaultFuel r.nodes.size) r.root r.nodes d) :=
  ⟨C03_lex_total cc hcc s, fun toks _ => ⟨C03_parse_total _, fun r _ hsh => C03_build_total parseFloat r.root r.nodes d hsh⟩⟩

/-- what is still assumed rather than proved about the front end: the parser copies token texts into nodes unchanged and
the lexer gives Symbol / ByteList tokens the shape `LexShaped` asks for -/
def C03_front_end_shape_statement : Prop :=
  ∀ (cc : CharClass), cc.Sane → ∀ (s : List Char) toks r, lex cc s = .ok toks → parse (toks.map toPToken) = .ok r →
    NodesShaped r.nodes

/-! ### the statements of the earlier stage, now proved; names kept for the manifest -/

abbrev LexerShaped := LexShaped

/-- the `build` stage alone, for arbitrary node vectors -/
def C03_build_total_statement (F : Type) : Prop :=
  ∀ (parseFloat : List Char → Option F) (root : Nat) (nodes : Array ParseNode) (d : BState F),
    (∀ (i : Nat) (pn : ParseNode), nodes[i]? = some pn → LexerShaped pn) →
    Returns (build parseFloat (defaultFuel nodes.size) root nodes d)

theorem C03_build_total_statement_proved : C03_build_total_statement F :=
  fun parseFloat root nodes d h => C03_build_total parseFloat root nodes d h

/-- C03 on the models without any side condition -/
def C03_pipeline_total_statement (F : Type) : Prop :=
  ∀ (cc : CharClass), cc.Sane → ∀ (parseFloat : List Char → Option F) (s : List Char) (d : BState F),
    Returns (lex cc s) ∧
    ∀ toks, lex cc s = .ok toks →
      Returns (parse (toks.map toPToken)) ∧
      ∀ r, parse (toks.map toPToken) = .ok r →
        Returns (build parseFloat (defaultFuel r.nodes.size) r.root r.nodes d)

/-- the unconditional pipeline statement follows from the front-end shape fact (the only part not proved in Lean) -/
theorem C03_pipeline_total_of_shape (hshape : C03_front_end_shape_statement) : C03_pipeline_total_statement F := by
  intro cc hcc parseFloat s d
  refine ⟨C03_lex_total cc hcc s, fun toks ht => ⟨C03_parse_total _, fun r hr => ?_⟩⟩
  exact C03_build_total parseFloat r.root r.nodes d (hshape cc hcc s toks r ht hr)

theorem C03_pipeline_total_partial (cc : CharClass) (hcc : cc.Sane) (parseFloat : List Char → Option F) (s : List Char)
    (d : BState F) :
    Returns (lex cc s) ∧
    ∀ toks, lex cc s = .ok toks →
      Returns (parse (toks.map toPToken)) ∧
      ∀ r, parse (toks.map toPToken) = .ok r → NodesShaped r.nodes →
        Returns (build parseFloat (defaultFuel r.nodes.size) r.root r.nodes d) :=
  C03_pipeline_total cc hcc parseFloat s d

theorem build_no_panic_shaped (parseFloat : List Char → Option F) (root : Nat) (nodes : Array ParseNode) (d : BState F)
    (hshape : NodesShaped nodes) (site : String) : build parseFloat (defaultFuel nodes.size) root nodes d ≠ .panic site :=
  C03_build_no_panic parseFloat root nodes d hshape site

/-! ### non-vacuity -/

/-- a node vector for `:a + 'x'` -/
def exampleTree : Array ParseNode := #[
  ⟨.symbol, .value, some 1, none, none, ⟨[':', 'a'], .symbol, 0, 0⟩⟩,
  ⟨.addition, .binaryLeftToRight, none, some 0, some 2, ⟨['+'], .plusSign, 0, 0⟩⟩,
  ⟨.byteList, .value, some 1, none, none, ⟨['\'', 'x', '\''], .byteList, 0, 0⟩⟩]

theorem exampleTree_shaped : NodesShaped exampleTree := by
  intro i pn h
  have hi : i < 3 := by
    rcases Nat.lt_or_ge i 3 with h1 | h1
    · exact h1
    · rw [Array.getElem?_eq_none (by simpa [exampleTree] using h1)] at h; cases h
  have h0 : i = 0 ∨ i = 1 ∨ i = 2 := by omega
  rcases h0 with rfl | rfl | rfl
  · simp [exampleTree] at h; subst h
    exact ⟨fun _ => ⟨['a'], rfl⟩, (fun hd => by cases hd)⟩
  · simp [exampleTree] at h; subst h
    exact ⟨(fun hd => by cases hd), (fun hd => by cases hd)⟩
  · simp [exampleTree] at h; subst h
    exact ⟨(fun hd => by cases hd), fun _ => ⟨1, ['x'], rfl, fun c hc => by simp at hc; subst hc; decide⟩⟩

/-- the hypotheses of `C03_build_total` are satisfiable, and the theorem applies to a tree with both constrained kinds -/
example (parseFloat : List Char → Option F) (d : BState F) :
    Returns (build parseFloat (defaultFuel exampleTree.size) 1 exampleTree d) :=
  C03_build_total parseFloat 1 exampleTree d exampleTree_shaped

/-- both outcomes occur: a one-node tree builds, a cyclic vector is rejected by the validation (and does not hang) -/
example : (build (F := Unit) (fun _ => none) (defaultFuel 1) 0
    #[⟨.number, .value, none, none, none, ⟨['5'], .number, 0, 0⟩⟩] BState.empty).isOk = true := by decide
example : (build (F := Unit) (fun _ => none) (defaultFuel 1) 0
    #[⟨.addition, .binaryLeftToRight, none, some 0, some 0, ⟨['+'], .plusSign, 0, 0⟩⟩] BState.empty).isOk = false := by decide

end Garnish.Props.C03
