/-
Property C03 — the compile pipeline is total.

"For every input string, `lex`, then `parse` on its tokens, then `build` on the parse result (into either data
implementation) each return promptly - in time polynomial in the input length - with either Ok or an Err value.
None of them panics, overflows the stack, or fails to terminate, whatever the text contains."

Models: Garnish.Model.Lexer (lexer.rs), Garnish.Model.Parser (parser.rs), Garnish.Model.Build (build.rs, value-level data
object: the statement does not depend on which of the two data implementations is written into).  The models are
structurally recursive functions (no `partial`), so "overflows the stack / fails to terminate" is `Outcome.fuelOut`
(a loop of the Rust that is still running when the model's fuel is used up) and "panics" is `Outcome.panic`.

What is proved here (`C03_pipeline_total_partial`):
  * `lex` returns `ok` or `err` for every input (`lex_total`), consuming at most `|s| + 2` characters (`lexFull_total`);
  * `parse` returns `ok` or `err` for every token list (`parse_safe`): its two parent walks are capped by the node count;
  * `build`: the validation pass `validate_parse_tree` returns `ok` or `err` for every node vector
    (`validateParseTree_np`, `validateParseTree_terminates`: at most `nodes.size + 1` iterations); the whole of `build`
    never panics when the links of the node vector are in range and the literal texts are shaped as the lexer shapes
    them (`build_no_panic_shaped`).
  * a successful validation establishes a tree: `validateParseTree_ok` / `C03_validated_links` — the marked set contains
    the root, is closed under `left`/`right`, every such link is in range, every child names its node as parent, and
    every unmarked node is a `Subexpression`.
What is NOT proved (stated as `C03_build_total_statement`):
  * that the traversal only ever reaches marked nodes (the invariant "every index on `stack` / `root_stack` and in a
    conditional item is marked"), which would turn `C03_validated_links` into the link hypothesis of
    `build_no_panic_shaped`;
  * that the emitting traversal of `build` finishes within `defaultFuel n = 20·n + 100` steps on validated trees
    (each node is popped at most twice from `stack` and at most once from `root_stack`; potential function below).
Both are covered empirically by the BUILD correspondence suite: after the validation was added, neither the
implementation (HANG) nor the model (FUELOUT) ever ran out on ~1.4 million generated cases.
-/
import Garnish.Lemmas.Lexer
import Garnish.Lemmas.Parser
import Garnish.Lemmas.Build
namespace Garnish.Props.C03
open Garnish Garnish.Gen Garnish.Model.Lexer Garnish.Model.Parser Garnish.Model.Build Garnish.Model.Literals Garnish.Lemmas.Build

/-- the outcome is a value or an error value: no panic, no non-termination -/
def Returns {α : Type} (o : Outcome α) : Prop := (∃ a, o = .ok a) ∨ (∃ e, o = .err e)

theorem returns_of_safe {α : Type} {o : Outcome α} (h : Garnish.Model.Parser.Safe o) : Returns o := by
  cases o with
  | ok a => exact Or.inl ⟨a, rfl⟩
  | err e => exact Or.inr ⟨e, rfl⟩
  | panic s => exact absurd h (by simp)
  | fuelOut => exact absurd h (by simp)

theorem returns_of_ne {α : Type} {o : Outcome α} (hp : ∀ s, o ≠ .panic s) (hf : o ≠ .fuelOut) : Returns o := by
  cases o with
  | ok a => exact Or.inl ⟨a, rfl⟩
  | err e => exact Or.inr ⟨e, rfl⟩
  | panic s => exact absurd rfl (hp s)
  | fuelOut => exact absurd rfl hf

/-- `LexerToken` of the lexer model as the token type of the parser model -/
def toPToken (t : LexerToken) : PToken := ⟨t.text, t.tokenType, t.row, t.column⟩

/-! ### re-exports -/

/-- lexing is total (Lemmas/Lexer.lean) -/
theorem C03_lex_total (cc : CharClass) (hcc : cc.Sane) (input : List Char) : Returns (lex cc input) := by
  rcases lex_total cc hcc input with h | ⟨toks, h⟩
  · exact Or.inr ⟨_, h⟩
  · exact Or.inl ⟨_, h⟩

/-- cost of lexing: the state machine is stepped once per input character plus at most two end-of-input steps -/
theorem C03_lex_cost (cc : CharClass) (hcc : cc.Sane) (input : List Char) :
    lexFull cc input = .err .syntax ∨
    ∃ toks s', lexFull cc input = .ok (toks, s') ∧
      (s'.charactersLexed = input.length + 1 ∨ s'.charactersLexed = input.length + 2) :=
  lexFull_total cc hcc input

/-- parsing is total (Lemmas/Parser.lean); per token the two parent walks are capped by `nodes.size + 1` iterations,
    so the work is at most quadratic in the number of tokens -/
theorem C03_parse_total (tokens : List PToken) : Returns (parse tokens) := returns_of_safe (parse_safe tokens)

/-- the validation prefix of `build` is total: at most `nodes.size + 1` iterations, no panic -/
theorem C03_validate_total (root : Nat) (nodes : Array ParseNode) : Returns (validateParseTree root nodes) :=
  returns_of_ne (fun s => satNP_noPanic (validateParseTree_np root nodes) s) (validateParseTree_terminates root nodes)

/-! ### literal texts as the lexer shapes them -/

/-- a Symbol token starts with `:`; a ByteList token is `q` quotes, a body that does not start with a quote, `q` quotes -/
structure LexerShaped (pn : ParseNode) : Prop where
  symbol : pn.definition = .symbol → ∃ rest, pn.lexToken.text = ':' :: rest
  byteList : pn.definition = .byteList → ∃ (q : Nat) (body : List Char),
    pn.lexToken.text = List.replicate q '\'' ++ body ++ List.replicate q '\'' ∧ (∀ c, body.head? = some c → c ≠ '\'')

theorem dropFirstByte_colon (rest : List Char) : dropFirstByte (':' :: rest) ≠ none := by
  simp [dropFirstByte]
  decide

/-- the first literal hypothesis of `build_no_panic` follows from the lexer shape -/
theorem symbol_safe_of_shaped {pn : ParseNode} (h : LexerShaped pn) (hd : pn.definition = .symbol) :
    dropFirstByte pn.lexToken.text ≠ none := by
  obtain ⟨rest, hr⟩ := h.symbol hd
  rw [hr]; exact dropFirstByte_colon rest

/-! ### the statement and the proved part -/

/-- C03 on the models: for every string each stage returns `ok` or `err` (the fuel given to `build` is the explicit
bound `defaultFuel n = 20·n + 100` on the iterations of its two work-list loops) -/
def C03_pipeline_total_statement (F : Type) : Prop :=
  ∀ (cc : CharClass), cc.Sane → ∀ (parseFloat : List Char → Option F) (s : List Char) (d : BState F),
    Returns (lex cc s) ∧
    ∀ toks, lex cc s = .ok toks →
      Returns (parse (toks.map toPToken)) ∧
      ∀ r, parse (toks.map toPToken) = .ok r →
        Returns (build parseFloat (defaultFuel r.nodes.size) r.root r.nodes d)

/-- the `build` stage alone, for arbitrary node vectors -/
def C03_build_total_statement (F : Type) : Prop :=
  ∀ (parseFloat : List Char → Option F) (root : Nat) (nodes : Array ParseNode) (d : BState F),
    (∀ (i : Nat) (pn : ParseNode), nodes[i]? = some pn → LexerShaped pn) →
    Returns (build parseFloat (defaultFuel nodes.size) root nodes d)

/-- the potential function of the missing termination argument.  On a validated tree every node is given a build node
exactly once (by its unique parent), is popped from `stack` once as `Uninitialized` and at most once more as
`Initialized`, and is popped from `root_stack` at most once.  With
`Φ ctx = 3·#{i | nodes[i] = none} + 2·#{i | nodes[i] = some bn, bn.state = Uninitialized} + stack.size`
one iteration of the inner loop on a marked node lowers `Φ` by at least one, so the inner loops run at most `3·n + 1`
iterations in total and the outer loop at most `n + 1`; `defaultFuel n = 20·n + 100` is above both.  The step property
that is needed (NOT proved; it needs the reachability invariant above and uniqueness of parents from
`validateParseTree_ok`): -/
def C03_step_potential_statement (F : Type) : Prop :=
  ∀ (parseFloat : List Char → Option F) (root : Nat) (tree : Array ParseNode) (crj ni : Nat) (pn : ParseNode) (ctx ctx' : Ctx F)
    (Φ : Ctx F → Nat), validateParseTree root tree = .ok () → tree[ni]? = some pn →
    (Φ = fun c => 3 * (c.nodes.toList.filter Option.isNone).length +
      2 * (c.nodes.toList.filter (fun o => match o with | some bn => bn.state == .uninitialized | none => false)).length +
      c.stack.size) →
    handleParseNode parseFloat { ctx with stack := ctx.stack.pop } crj ni pn = .ok ctx' → ctx.stack.back? = some ni →
    Φ ctx' < Φ ctx

/-- (a) what the validation establishes, in the form needed for the link hypothesis -/
theorem C03_validated_links {root : Nat} {tree : Array ParseNode} (h : validateParseTree root tree = .ok ()) :
    root < tree.size ∧ ∃ G : Nat → Prop, G root ∧
      ∀ i, G i → ∃ pn, tree[i]? = some pn ∧ (∀ c, pn.left = some c → c < tree.size ∧ G c) ∧
        (∀ c, pn.right = some c → c < tree.size ∧ G c) :=
  validateParseTree_links h

variable {F : Type}

/-- `build` never panics when the links are in range and the literal texts are lexer-shaped, given that byte-list
texts do not hit the slice panic (`byteOk`; for balanced quotes this is a fact about UTF-8 offsets, not proved here) -/
theorem build_no_panic_shaped (parseFloat : List Char → Option F) (fuel root : Nat) (nodes : Array ParseNode) (d : BState F)
    (hroot : root < nodes.size)
    (hlinks : ∀ (i : Nat) (pn : ParseNode), nodes[i]? = some pn → PnOk nodes.size pn)
    (hshape : ∀ (i : Nat) (pn : ParseNode), nodes[i]? = some pn → LexerShaped pn)
    (byteOk : ∀ (i : Nat) (pn : ParseNode), nodes[i]? = some pn → pn.definition = .byteList →
      ∀ s, parseByteList parseFloat pn.lexToken.text ≠ .panic s)
    (s : String) : build parseFloat fuel root nodes d ≠ .panic s :=
  build_no_panic parseFloat fuel root nodes d hroot
    (fun i pn h => ⟨hlinks i pn h, symbol_safe_of_shaped (hshape i pn h), byteOk i pn h⟩) s

/-- the proved part of C03 -/
theorem C03_pipeline_total_partial (cc : CharClass) (hcc : cc.Sane) (parseFloat : List Char → Option F) (s : List Char)
    (d : BState F) :
    Returns (lex cc s) ∧
    ∀ toks, lex cc s = .ok toks →
      Returns (parse (toks.map toPToken)) ∧
      ∀ r, parse (toks.map toPToken) = .ok r →
        -- the validation prefix of `build` returns
        Returns (validateParseTree r.root r.nodes) ∧
        -- `build` only appends to the data object, whatever it returns (so an `Err` leaves earlier programs intact)
        (∀ d' e, build parseFloat (defaultFuel r.nodes.size) r.root r.nodes d = .ok (d', e) →
          d.instrs.toList <+: d'.instrs.toList ∧ d.jumps.size ≤ d'.jumps.size) ∧
        -- and it does not panic under the link / literal hypotheses
        (r.root < r.nodes.size → (∀ (i : Nat) (pn : ParseNode), r.nodes[i]? = some pn → PnOk r.nodes.size pn) →
          (∀ (i : Nat) (pn : ParseNode), r.nodes[i]? = some pn → LexerShaped pn) →
          (∀ (i : Nat) (pn : ParseNode), r.nodes[i]? = some pn → pn.definition = .byteList →
            ∀ s, parseByteList parseFloat pn.lexToken.text ≠ .panic s) →
          ∀ site, build parseFloat (defaultFuel r.nodes.size) r.root r.nodes d ≠ .panic site) := by
  refine ⟨C03_lex_total cc hcc s, fun toks _ => ⟨C03_parse_total _, fun r _ => ⟨C03_validate_total _ _, ?_, ?_⟩⟩⟩
  · intro d' e h
    have := build_appends_only parseFloat _ _ _ d d' e h
    exact ⟨this.1, this.2.2.2.1⟩
  · intro h1 h2 h3 h4 site
    exact build_no_panic_shaped parseFloat _ _ _ d h1 h2 h3 h4 site

end Garnish.Props.C03
