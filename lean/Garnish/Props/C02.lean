/-
C02 — `parse` returns the tree the operator table dictates.

The oracle is `Spec.refParse` (Garnish/Spec/RefParse.lean), parameterised by a `Table`; the precedence condition is
`Spec.PrecOK` (walk-based form of: tighter below looser, equal priority left-to-right unless right-to-left, prefix
operators and brackets in operand position).  Proved here (proofs in Garnish/Lemmas/RefParse.lean):
  * `C02_refParse_precOK`: every tree `refParse` returns satisfies `PrecOK` — for the WHOLE reference grammar
    (values, prefix / suffix / binary / optional-binary operators, implicit space lists, groups, nested expressions,
    separators), for any table whose right-to-left flag agrees with its token classes; `C02_gen_rtlAgrees` discharges
    that hypothesis for the generated table;
  * the core operations keep the in-order token sequence (`C02_attach_inorder`, `C02_plug_inorder`);
The end-to-end statements (`refParse_inorder`: in-order of the result = significant tokens; `precOK_unique`;
`parse` agrees with `refParse`) are stated as `def .. : Prop`; agreement of the real parser with `refParse` is checked by
the REFPARSE/TREECHK suites on every accepted generated input.
-/
import Garnish.Spec.RefParse
import Garnish.Lemmas.RefParse
namespace Garnish.Props.C02
open Garnish Garnish.Gen Garnish.Model.Parser Garnish.Spec

/-! ### bridge: the table the code has now (regenerated) = the language`s table (committed) -/
theorem C02_bridge_priority : ∀ d : Definition, Garnish.Gen.priority d = Spec.Lang.priority d := by
  intro d; cases d <;> rfl
theorem C02_bridge_definition : ∀ t : TokenType, Garnish.Gen.getDefinition t = Spec.Lang.getDefinition t := by
  intro t; cases t <;> rfl
theorem C02_bridge_table : Table.gen = Table.spec := by
  have h1 : Garnish.Gen.getDefinition = Spec.Lang.getDefinition := funext C02_bridge_definition
  have h2 : Garnish.Gen.priority = Spec.Lang.priority := funext C02_bridge_priority
  simp [Table.gen, Table.spec, h1, h2]

/-- in the generated table the right-to-left flag (`Pair` only) agrees with the syntactic class of every token type -/
theorem C02_gen_rtlAgrees : RtlAgrees Table.gen Table.gen.rtl where
  tokens := by intro tt; cases tt <;> rfl
  list := by rfl

/-- every tree the reference parser returns satisfies the precedence condition (whole reference grammar, any table) -/
theorem C02_refParse_precOK (tbl : Table) (rtlf : Definition → Bool) (hr : RtlAgrees tbl rtlf) (toks : List PToken)
    (t : RTree) (h : refParse tbl toks = .ok t) : PrecOK tbl rtlf t :=
  refParse_precOK tbl rtlf hr toks t h

/-- instance for the table regenerated from parser.rs -/
theorem C02_refParse_precOK_gen (toks : List PToken) (t : RTree) (h : refParse Table.gen toks = .ok t) :
    PrecOK Table.gen Table.gen.rtl t :=
  refParse_precOK Table.gen Table.gen.rtl C02_gen_rtlAgrees toks t h

/-- inserting an operator appends its token to the in-order sequence -/
theorem C02_attach_inorder (tbl : Table) (q : Nat) (rtl : Bool) (d : Definition) (k : Nat) (t : RTree) :
    (attach tbl q rtl d k t).inorderToks = t.inorderToks ++ [k] :=
  attach_inorder tbl q rtl d k t

/-- placing an operand appends its tokens to the in-order sequence -/
theorem C02_plug_inorder (t x : RTree) (h : openSpine t = true) :
    (plug t x).inorderToks = t.inorderToks ++ x.inorderToks :=
  plug_inorder t x h

/-- inserting an operator / placing an operand keep the precedence condition -/
theorem C02_attach_precOK (tbl : Table) (rtlf : Definition → Bool) (q : Nat) (d : Definition) (k : Nat)
    (hq : tbl.prio d = some q) (t : RTree) (hok : PrecOK tbl rtlf t) : PrecOK tbl rtlf (attach tbl q (rtlf d) d k t) :=
  attach_precOK tbl rtlf q d k hq t hok

theorem C02_plug_precOK (tbl : Table) (rtlf : Definition → Bool) (t x : RTree) (ht : PrecOK tbl rtlf t)
    (hx : PrecOK tbl rtlf x) (hop : OperandLike x) : PrecOK tbl rtlf (plug t x) :=
  plug_precOK tbl rtlf t x ht hx hop

/-- full statement (NOT proved; proof sketch: in a `PrecOK` tree of the fragment priorities do not increase downwards, so
    the root is the rightmost (left-to-right level) resp. leftmost (right-to-left level) operator of maximal priority of
    the item sequence, which determines the split): the precedence condition determines the tree — two trees of the
    atoms + binary operators fragment with the same in-order item sequence that both satisfy `PrecOK` are equal -/
def C02_precOK_unique : Prop :=
  ∀ (tbl : Table) (rtlf : Definition → Bool), Consistent tbl rtlf →
    ∀ (t1 t2 : RTree), binFrag t1 = true → binFrag t2 = true → allPrio tbl t1 = true → allPrio tbl t2 = true →
      PrecOK tbl rtlf t1 → PrecOK tbl rtlf t2 → items t1 = items t2 → t1 = t2

end Garnish.Props.C02
