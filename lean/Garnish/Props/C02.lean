/-
C02 — `parse` returns the tree the operator table dictates.

The oracle is `Spec.refParse` (Garnish/Spec/RefParse.lean), parameterised by a `Table`; the precedence condition is
`Spec.PrecOK` (walk-based form of: tighter below looser, equal priority left-to-right unless right-to-left, prefix
operators and brackets in operand position).  Proved here (proofs in Garnish/Lemmas/RefParse.lean):
  * `C02_refParse_precOK`: every tree `refParse` returns satisfies `PrecOK` — for the WHOLE reference grammar
    (values, prefix / suffix / binary / optional-binary operators, implicit space lists, groups, nested expressions,
    separators), for any table whose right-to-left flag agrees with its token classes; `C02_gen_rtlAgrees` discharges
    that hypothesis for the generated table;
  * the core operations keep the in-order token sequence (`C02_attach_inorder`, `C02_plug_inorder`);
  * `C02_refParse_inorder`: the in-order walk of the reference tree = the significant tokens in source order;
  * `C02_precOK_unique`: in the atoms + brackets + binary operators fragment `PrecOK` and the item sequence determine the tree.
Agreement of the real parser with `refParse` is checked by the REFPARSE/TREECHK suites on every accepted generated input
(and proved for a fragment in Garnish/Lemmas/ParserInv.lean as far as stated there).
-/
import Garnish.Spec.RefParse
import Garnish.Lemmas.RefParse
import Garnish.Lemmas.RefParseUnique
import Garnish.Lemmas.RefParseInorder
namespace Garnish.Props.C02
open Garnish Garnish.Gen Garnish.Model.Parser Garnish.Spec

/-! ### bridge: the table the code has now (regenerated) = the language`s table (committed) -/
theorem C02_bridge_priority : ∀ d : Definition, Garnish.Gen.priority d = Spec.Lang.priority d := by
  intro d; cases d <;> rfl
theorem C02_bridge_definition : ∀ t : TokenType, Garnish.Gen.getDefinition t = Spec.Lang.getDefinition t := by
  intro t; cases t <;> rfl
theorem C02_bridge_table : Table.gen = Table.spec := by
  have h1 : Garnish.Gen.getDefinition = Spec.Lang.getDefinition := funext C02_bridge_definition
  have h2 : Garnish.Gen.priority = Spec.Lang.priority := funext C02_bridge_priority
  simp [Table.gen, Table.spec, h1, h2]

/-- in the generated table the right-to-left flag (`Pair` only) agrees with the syntactic class of every token type -/
theorem C02_gen_rtlAgrees : RtlAgrees Table.gen Table.gen.rtl where
  tokens := by intro tt; cases tt <;> rfl
  list := by rfl

/-- every tree the reference parser returns satisfies the precedence condition (whole reference grammar, any table) -/
theorem C02_refParse_precOK (tbl : Table) (rtlf : Definition → Bool) (hr : RtlAgrees tbl rtlf) (toks : List PToken)
    (t : RTree) (h : refParse tbl toks = .ok t) : PrecOK tbl rtlf t :=
  refParse_precOK tbl rtlf hr toks t h

/-- instance for the table regenerated from parser.rs -/
theorem C02_refParse_precOK_gen (toks : List PToken) (t : RTree) (h : refParse Table.gen toks = .ok t) :
    PrecOK Table.gen Table.gen.rtl t :=
  refParse_precOK Table.gen Table.gen.rtl C02_gen_rtlAgrees toks t h

/-- inserting an operator appends its token to the in-order sequence -/
theorem C02_attach_inorder (tbl : Table) (q : Nat) (rtl : Bool) (d : Definition) (k : Nat) (t : RTree) :
    (attach tbl q rtl d k t).inorderToks = t.inorderToks ++ [k] :=
  attach_inorder tbl q rtl d k t

/-- placing an operand appends its tokens to the in-order sequence -/
theorem C02_plug_inorder (t x : RTree) (h : openSpine t = true) :
    (plug t x).inorderToks = t.inorderToks ++ x.inorderToks :=
  plug_inorder t x h

/-- inserting an operator / placing an operand keep the precedence condition -/
theorem C02_attach_precOK (tbl : Table) (rtlf : Definition → Bool) (q : Nat) (d : Definition) (k : Nat)
    (hq : tbl.prio d = some q) (t : RTree) (hok : PrecOK tbl rtlf t) : PrecOK tbl rtlf (attach tbl q (rtlf d) d k t) :=
  attach_precOK tbl rtlf q d k hq t hok

theorem C02_plug_precOK (tbl : Table) (rtlf : Definition → Bool) (t x : RTree) (ht : PrecOK tbl rtlf t)
    (hx : PrecOK tbl rtlf x) (hop : OperandLike x) : PrecOK tbl rtlf (plug t x) :=
  plug_precOK tbl rtlf t x ht hx hop

/-- **the in-order walk of the reference tree is exactly the significant tokens, in source order**: every token that is not
    whitespace, an annotation, a closer or a redundant separator (`Spec.significant`) stands for exactly one node, the
    synthesized `List` nodes aside; nothing is dropped, duplicated or reordered -/
theorem C02_refParse_inorder (toks : List PToken) (t : RTree) (h : refParse Table.gen toks = .ok t) :
    t.inorderSig = significant toks :=
  refParse_inorder toks t h

theorem C02_refParse_inorder_spec (toks : List PToken) (t : RTree) (h : refParse Table.spec toks = .ok t) :
    t.inorderSig = significant toks := by
  rw [← C02_bridge_table] at h; exact refParse_inorder toks t h

/-- in the generated table only `Pair` groups right-to-left and it is alone at its priority -/
theorem C02_gen_consistent : Consistent Table.gen Table.gen.rtl := by
  have hrtl : ∀ d, Table.gen.rtl d = (d == Definition.pair) := by intro d; cases d <;> rfl
  have hpair : ∀ d, Table.gen.prio d = Table.gen.prio Definition.pair → d = Definition.pair := by
    intro d; cases d <;> simp [Table.gen, priority]
  intro d1 d2 p h1 h2
  rw [hrtl, hrtl]
  by_cases e1 : d1 = Definition.pair
  · subst e1
    have : d2 = Definition.pair := hpair d2 (by rw [h2, h1])
    subst this; rfl
  · by_cases e2 : d2 = Definition.pair
    · subst e2
      exact absurd (hpair d1 (by rw [h1, h2])) e1
    · rw [beq_eq_false_iff_ne.mpr e1, beq_eq_false_iff_ne.mpr e2]

/-- **the precedence condition determines the tree** (atoms, closed brackets as atoms, binary operators): two trees with the
    same in-order item sequence that both satisfy `PrecOK` are equal — "the tree the table dictates" is well defined -/
theorem C02_precOK_unique (tbl : Table) (rtlf : Definition → Bool) (hc : Consistent tbl rtlf) (t1 t2 : RTree)
    (hb1 : binFrag t1 = true) (hb2 : binFrag t2 = true) (ha1 : allPrio tbl t1 = true) (ha2 : allPrio tbl t2 = true)
    (h1 : PrecOK tbl rtlf t1) (h2 : PrecOK tbl rtlf t2) (hi : items t1 = items t2) : t1 = t2 :=
  precOK_unique tbl rtlf hc t1 t2 hb1 hb2 ha1 ha2 h1 h2 hi

/-- instance for the generated table -/
theorem C02_precOK_unique_gen (t1 t2 : RTree) (hb1 : binFrag t1 = true) (hb2 : binFrag t2 = true)
    (ha1 : allPrio Table.gen t1 = true) (ha2 : allPrio Table.gen t2 = true)
    (h1 : PrecOK Table.gen Table.gen.rtl t1) (h2 : PrecOK Table.gen Table.gen.rtl t2) (hi : items t1 = items t2) : t1 = t2 :=
  precOK_unique Table.gen Table.gen.rtl C02_gen_consistent t1 t2 hb1 hb2 ha1 ha2 h1 h2 hi

/-- consequence: in the fragment the reference tree is THE tree with that item sequence that satisfies the table -/
theorem C02_refParse_is_the_tree (toks : List PToken) (t t' : RTree) (h : refParse Table.gen toks = .ok t)
    (hb : binFrag t = true) (hb' : binFrag t' = true) (ha : allPrio Table.gen t = true) (ha' : allPrio Table.gen t' = true)
    (hok' : PrecOK Table.gen Table.gen.rtl t') (hi : items t' = items t) : t' = t :=
  precOK_unique Table.gen Table.gen.rtl C02_gen_consistent t' t hb' hb ha' ha hok' (C02_refParse_precOK_gen toks t h) hi

/-! ### the transliterated parser on the binary-operator fragment (statement; proved parts in Lemmas/ParserInv.lean) -/

/-- the implementation-side tree as a reference tree (definitions looked up in the node array; brackets do not occur
    in the fragment) -/
def treeToR (r : ParseResult) : Tree → RTree
  | .nil => .nil
  | .node l i k rt =>
    .node (treeToR r l) ((r.nodes[i]?).map (·.definition) |>.getD .drop) k (treeToR r rt)

def isAtomTok (t : PToken) : Bool :=
  ((getDefinition t.type).2 == .value || (getDefinition t.type).2 == .identifier) &&
    (getDefinition t.type).1 != .drop && (getDefinition t.type).1 != .expressionTerminator
def isBinTok (t : PToken) : Bool :=
  (getDefinition t.type).2 == .binaryLeftToRight || (getDefinition t.type).2 == .binaryRightToLeft
def isWsTok (t : PToken) : Bool := t.type == .whitespace

/-- `atom (ws? binop ws? atom)*` -/
def binShape : List PToken → Bool
  | [] => false
  | [a] => isAtomTok a
  | a :: rest =>
    isAtomTok a &&
      (match rest with
       | w1 :: o :: w2 :: rest' =>
         (isWsTok w1 && isBinTok o && isWsTok w2 && binShape rest') || (isWsTok w1 && isBinTok o && binShape (w2 :: rest'))
           || (isBinTok w1 && isWsTok o && binShape (w2 :: rest')) || (isBinTok w1 && binShape (o :: w2 :: rest'))
       | [o, b] => isBinTok o && isAtomTok b
       | _ => false)

def numbered : List PToken → Nat → List PToken
  | [], _ => []
  | t :: rest, k => { t with col := k } :: numbered rest (k + 1)

/-- the fragment claim INCLUDING acceptance (`parse` returns `ok`): proved, on the larger fragment with trivia and with the
    positions stated as `NumberedFrom 0 toks`, as `Garnish.Props.C02Parse.C02_modelParse_binary` (and with prefix operators
    as `C02_parse_correct_fragment_prefix`); this `def` with `binShape` / `numbered` is kept for reference only.  What IS proved, for all token
    lists `value (trivia* binop trivia* value)*` without length bound, is the conditional form "whenever `parse` accepts,
    the node array is a proper tree and it is the reference tree": `Garnish.Props.C02Parse.C02_parse_correct_fragment`
    (Garnish/Props/C02Parse.lean).  Original note:
    the fragment claim for the transliterated parser (NOT proved end to end): on `atom (ws? binop ws? atom)*` over binary
    operators of any priorities, `parse` accepts, the result is a proper tree and it is the reference tree.
    Proved pieces (Garnish/Lemmas/ParserInv.lean): `walkLoop_chain` (on a parent chain the capped walk of `parse_token`
    never hits its cap and returns exactly the bottom-up search `walkSpec` that `Spec.absorb` performs),
    `parseToken_size_def`, `step_binop_post` (state after an operator token), `step_trivia` / `step_atom_indep` /
    `loop_binop_trivia_atom` (whitespace between operator and atom is invisible); missing: the array-level simulation
    "nodes represent the tree `T` with right spine `c`" ⇒ "after `parse_token` they represent `attach T`". -/
def C02_modelParse_binary_partial : Prop :=
  ∀ toks, binShape toks = true →
    ∃ r t, parse (numbered toks 0) = .ok r ∧ toTree r = some t ∧ refParse Table.gen toks = .ok (treeToR r t)

end Garnish.Props.C02
