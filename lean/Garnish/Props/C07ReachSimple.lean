/-
C07 on every reachable `SimpleGarnishData`: the hypotheses `Simple.WF` (stored integers are `i32` values) and
`Simple.ShortLists` (lists shorter than `2^31`) of the SimpleGarnishData theorems of Props/C07Access.lean, proved for
every list the constructors can build (Model/SimpleBuild.lean), whatever the interning cache answers.

* `simple_run_wf`: `Simple.WF` after any history — an integer enters the list only through `add_number`, whose
  argument is a `SimpleNumber::Integer(i32)`.
* `simple_run_short`: `Simple.ShortLists` after any history whose list constructions hand over fewer than `2^31`
  items each (a `Vec<usize>` of `2^31` items occupies 16 GiB: the one size assumption).
* `C07_simple_reachable_no_panic`: every accessor / iterator constructor of SimpleGarnishData, the flattening of
  concatenations and `access_with_integer` answer `Ok` / `Err` on every reachable list, for every address, index, fuel.
-/
import Garnish.Props.C07Access
import Garnish.Model.SimpleBuild
namespace Garnish.Props.C07ReachSimple
open Garnish Garnish.Access Garnish.Access.Runtime Garnish.Access.Simple Garnish.Props.C07Access

theorem int32_inRange (v : Int32) : InRange v.toInt :=
  ⟨by have := Int32.le_toInt v; omega, by have := Int32.toInt_lt v; omega⟩

/-- a cell the constructors may push: its integer (if any) is an `i32`, its item list (if any) is at most `L` long -/
def goodCell (L : Nat) (c : SCell) : Prop := Simple.cellOK c = true ∧ ∀ items, c = .list items → items.length ≤ L

/-- all cells good -/
def GoodData (L : Nat) (d : SData) : Prop := ∀ c, c ∈ d.toList → goodCell L c

theorem good_push {L : Nat} {d : SData} {c : SCell} (hd : GoodData L d) (hc : goodCell L c) : GoodData L (d.push c) := by
  intro x hx
  simp only [Array.toList_push, List.mem_append, List.mem_singleton] at hx
  rcases hx with hx | rfl
  · exact hd x hx
  · exact hc

theorem good_intern {L : Nat} {hit : SData → SCell → Option Nat} {d : SData} {c : SCell} (hd : GoodData L d)
    (hc : goodCell L c) : GoodData L (intern hit d c).1 := by
  unfold intern
  split
  · exact hd
  · exact good_push hd hc

theorem good_plain {L : Nat} {c : SCell} (h1 : Simple.cellOK c = true) (h2 : ∀ items, c ≠ .list items) : goodCell L c :=
  ⟨h1, fun items h => absurd h (h2 items)⟩

theorem step_good {L : Nat} {hit : SData → SCell → Option Nat} {d d' : SData} {a : Nat} {op : SOp}
    (hd : GoodData L d) (hl : op.listLen ≤ L) (h : step hit d op = .ok (d', a)) : GoodData L d' := by
  cases op <;> simp only [step, Outcome.ok.injEq, Prod.mk.injEq] at h
  case unit => rw [← h.1]; exact hd
  case tru => rw [← h.1]; exact hd
  case fls => rw [← h.1]; exact hd
  case number v =>
    have := congrArg Prod.fst h; simp only at this; rw [← this]
    exact good_intern hd (good_plain (by simp [Simple.cellOK, int32_inRange v]) (by intro i h; cases h))
  case list items =>
    have := congrArg Prod.fst h; simp only [pushCell] at this; rw [← this]
    exact good_push hd ⟨rfl, fun i hi => by cases hi; exact hl⟩
  case listInterned items =>
    have := congrArg Prod.fst h; simp only at this; rw [← this]
    exact good_intern hd ⟨rfl, fun i hi => by cases hi; exact hl⟩
  case mergeSymbolList x y =>
    split at h <;> first
      | (simp only [Outcome.ok.injEq, pushCell, Prod.mk.injEq] at h; rw [← h.1]
         exact good_push hd (good_plain rfl (by intro i h; cases h)))
      | (cases h)
  all_goals first
    | (have := congrArg Prod.fst h; simp only [pushCell] at this; rw [← this]
       exact good_push hd (good_plain rfl (by intro i h; cases h)))
    | (have := congrArg Prod.fst h; simp only at this; rw [← this]
       exact good_intern hd (good_plain rfl (by intro i h; cases h)))

theorem seed_good (L : Nat) : GoodData L SData.seed := by
  intro c hc
  simp [SData.seed] at hc
  rcases hc with rfl | rfl | rfl <;> exact good_plain rfl (by intro i h; cases h)

theorem run_good {L : Nat} (hit : SData → SCell → Option Nat) : ∀ (ops : List SOp) (d : SData), GoodData L d →
    (∀ op ∈ ops, op.listLen ≤ L) → GoodData L (run hit ops d)
  | [], d, hd, _ => hd
  | op :: ops, d, hd, hl => by
    simp only [run]
    cases hs : step hit d op with
    | ok p =>
      obtain ⟨d1, a⟩ := p
      exact run_good hit ops d1 (step_good hd (hl op (by simp)) hs) (fun o ho => hl o (by simp [ho]))
    | err e => exact run_good hit ops d hd (fun o ho => hl o (by simp [ho]))
    | panic m => exact run_good hit ops d hd (fun o ho => hl o (by simp [ho]))
    | fuelOut => exact run_good hit ops d hd (fun o ho => hl o (by simp [ho]))

/-- no constructor call panics -/
theorem step_safe (hit : SData → SCell → Option Nat) (d : SData) (op : SOp) : Safe (step hit d op) := by
  cases op <;> simp only [step] <;> first
    | exact safe_ok _
    | (split <;> first | exact safe_ok _ | exact safe_err _)

/-- **`Simple.WF` after any history of constructor calls, whatever the cache answers** -/
theorem simple_run_wf (hit : SData → SCell → Option Nat) (ops : List SOp) : Simple.WF (run hit ops SData.seed) := by
  have hl : ∀ op ∈ ops, op.listLen ≤ (ops.map SOp.listLen).foldr max 0 := by
    intro op ho
    induction ops with
    | nil => cases ho
    | cons o os ih =>
      simp only [List.map_cons, List.foldr_cons]
      rcases List.mem_cons.mp ho with rfl | h
      · exact Nat.le_max_left _ _
      · exact Nat.le_trans (ih h) (Nat.le_max_right _ _)
  exact fun c hc => (run_good hit ops _ (seed_good _) hl c hc).1

/-- **`Simple.ShortLists`** when every list construction hands over fewer than `2^31` items -/
theorem simple_run_short (hit : SData → SCell → Option Nat) (ops : List SOp)
    (hl : ∀ op ∈ ops, op.listLen ≤ 2147483647) : Simple.ShortLists (run hit ops SData.seed) := by
  intro c hc
  have := (run_good hit ops _ (seed_good 2147483647) hl c hc).2
  cases c <;> simp only [Simple.shortCell, decide_eq_true_eq] <;> try trivial
  exact this _ rfl

/-- the list lengths `access_with_integer` sees are bounded with the lists -/
theorem simple_listLen_le {d : SData} (hs : Simple.ShortLists d) (r len : Nat)
    (h : (simpleIface d).listLen r = .ok len) : len ≤ 2147483647 := by
  simp only [simpleIface, Simple.getListLen, Simple.get] at h
  cases hc : d[r]? with
  | none => simp [hc, Outcome.bind] at h
  | some c =>
    simp only [hc, Outcome.bind] at h
    cases c <;> simp only [Simple.asList] at h <;> try (cases h; done)
    rename_i items
    simp only [Outcome.ok.injEq] at h
    have := hs (.list items) (List.mem_of_getElem? (by rw [Array.getElem?_toList]; exact hc))
    simp only [Simple.shortCell, decide_eq_true_eq] at this
    omega

/-- what holds on a reachable SimpleGarnishData -/
structure SimpleSafe (d : SData) : Prop where
  accessors : ∀ a ix, Safe (Simple.getListItem d a ix) ∧ Safe (Simple.getCharListItem d a ix) ∧
    Safe (Simple.getByteListItem d a ix) ∧ Safe (Simple.getSymbolListItem d a ix) ∧
    (∃ xs, Simple.getCharListIter d a = .ok xs) ∧ (∃ xs, Simple.getByteListIter d a = .ok xs) ∧
    (∃ xs, Simple.getSymbolListIter d a = .ok xs) ∧ (∃ xs, Simple.getListItemIter d a = .ok xs)
  concatenation : ∀ fuel a, NoPanic (Simple.getConcatenationIter d fuel a)

/-- **C07_simple_reachable_no_panic**: after ANY history of constructor calls on a fresh SimpleGarnishData —
whatever the interning cache answers — every item getter and iterator constructor answers `Ok` / `Err` for every
address and index, and the flattening of concatenations (slices of concatenations with any stored extents included)
never panics, for every fuel -/
theorem C07_simple_reachable_no_panic (hit : SData → SCell → Option Nat) (ops : List SOp) :
    SimpleSafe (run hit ops SData.seed) :=
  ⟨fun a ix => C07_simple_accessors_total _ a ix,
   fun fuel a => C07_simple_concatenation_no_panic (simple_run_wf hit ops) fuel a⟩

/-- `access_with_integer` over a reachable SimpleGarnishData whose list constructions handed over fewer than `2^31`
items each -/
theorem C07_simple_reachable_access_with_integer (hit : SData → SCell → Option Nat) (ops : List SOp)
    (hl : ∀ op ∈ ops, op.listLen ≤ 2147483647) {fuel : Nat} (hf : fuel * 2147483647 ≤ USIZE_MAX) (ix : Int) (value : Nat) :
    NoPanic (accessWithInteger (simpleIface (run hit ops SData.seed)) fuel ix value) :=
  C07_access_with_integer_simple (simple_run_wf hit ops) (simple_run_short hit ops hl) (by omega)
    (simple_listLen_le (simple_run_short hit ops hl)) hf ix value

/-! ### non-vacuity -/

/-- a cache that never hits, and one that answers with the first stored cell that is equal -/
def noHit : SData → SCell → Option Nat := fun _ _ => none
def eqHit : SData → SCell → Option Nat := fun d c => let i := d.toList.idxOf c; if i < d.size then some i else none

/-- numbers (i32 limits), a range, a concatenation of lists, a slice of it with a reversed stored range -/
def exOps : List SOp :=
  [.number 5, .number 4, .number 5, .range 3 4, .number (-2147483648), .number 2147483647,
   .list [3, 4], .list [6], .concat 8 9, .slice 10 5, .concat 11 3]

/-- the second `5` is interned by `eqHit`, pushed again by `noHit` -/
example : (run eqHit exOps SData.seed).size = 13 ∧ (run noHit exOps SData.seed).size = 14 := by decide

/-- cell 11 is a slice of the concatenation 10 with the stored range `5 .. 4` (count 0): flattening `(slice) <> 5` yields `[3]` -/
example : (match Simple.getConcatenationIter (run eqHit exOps SData.seed) 100 12 with
    | .ok l => decide (l = [3])
    | _ => false) = true := by decide

example : ∀ fuel a, NoPanic (Simple.getConcatenationIter (run eqHit exOps SData.seed) fuel a) :=
  (C07_simple_reachable_no_panic eqHit exOps).concatenation

end Garnish.Props.C07ReachSimple
