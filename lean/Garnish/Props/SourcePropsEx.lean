/-
Non-vacuity of Props/SourceProps.lean: source STRINGS, every hypothesis by evaluation.
  "$ ?> 1 |> 2"   C06 (balanced), C05 (well formed), C17 (trace), C04 (attribution)
  "$ && 5"        C10 (`&&` with a false left operand: `$!`, no host call, the right operand not entered)
  "$ ?> 1"        C10 (conditional whose test fails)
  both            C20 (two texts in one object)
-/
import Garnish.Props.SourceProps
namespace Garnish.Props.SourceProps
open Garnish Garnish.Gen Garnish.Spec Garnish.Abs Garnish.Abs.Tree Garnish.Abs.Source Garnish.Model Garnish.Model.Parser
open Garnish.Model.Lexer Garnish.Model.Literals Garnish.Model.Build Garnish.Props.C01Build Garnish.Props.C01Source
open Garnish.Props.C02Numbered Garnish.Props.C01Text Garnish.Props.C20

/-- a string is a source text of `p`, by three evaluations -/
theorem src_of_eval (s : String) (p : Program Float) (h1 : lex asciiCC s.toList = .ok (lexed s))
    (h2 : frag9' (toP (lexed s)) = true)
    (h3 : (match refParse Table.gen (toP (lexed s)) with
      | .ok rt => elaborate noFloat (toP (lexed s)) rt
      | _ => none) = some p) : Src noFloat asciiCC s.toList p := by
  cases hr : refParse Table.gen (toP (lexed s)) with
  | ok rt => rw [hr] at h3; exact ⟨_, rt, h1, h2, hr, h3⟩
  | err _ => rw [hr] at h3; cases h3
  | panic _ => rw [hr] at h3; cases h3
  | fuelOut => rw [hr] at h3; cases h3

/-- a program without nested bodies is well formed as soon as its expression is -/
theorem wf_single (main : Expr Float) (hw : wfE main = true) (ht : tailR main = true)
    (hd : ∀ r ∈ (compileState Prog.empty (⟨main, [(0, main)]⟩ : Program Float)).done, ∀ id, r.kind = .ref id → r.patch = 0 ∧ id = 0)
    (hs : ∃ r ∈ (compileState Prog.empty (⟨main, [(0, main)]⟩ : Program Float)).done, r.kind = .ref 0) :
    C01.WFProgram (⟨main, [(0, main)]⟩ : Program Float) where
  main0 := rfl
  wf := by
    intro id b h
    simp only [lookupBody] at h
    split at h
    · cases h; exact hw
    · cases h
  tail := ht
  labels := fun r hr id hk => by obtain ⟨h1, h2⟩ := hd r hr id hk; rw [h1, h2]
  covered := by
    intro id b h
    simp only [lookupBody] at h
    split at h
    · rename_i hid
      have h0 : (0 : Nat) = id := by simpa using hid
      subst h0
      exact hs
    · cases h

def sCond : String := "$ ?> 1 |> 2"
theorem srcCond : Src noFloat asciiCC sCond.toList progCond := src_of_eval sCond progCond (by rfl) (by decide) (by rfl)

/-- C06: the analysis succeeds on the program built from `"$ ?> 1 |> 2"` -/
example (fo : FloatOps Float) (host : Host Float) : ∃ d dep, buildText noFloat asciiCC sCond.toList = .ok (d, 0) ∧
    C06.absDepth (progOf d) ((progOf d).jumps[0]?.getD 0) = some dep := by
  obtain ⟨d, dep, h1, h2, _⟩ := C06_text_balanced noFloat asciiCC fo host _ progCond srcCond (by rfl)
  exact ⟨d, dep, h1, h2⟩

/-- C05: … and the built object is well formed -/
example : ∃ (d : BState Float) (r : ParseResult), buildText noFloat asciiCC sCond.toList = .ok (d, 0) ∧
    wfProg r.nodes.size BState.empty d = true := by
  obtain ⟨d, hb, _⟩ := srcCond.built (by rfl)
  obtain ⟨_, r, _, _, hw, _⟩ := C05_text_wf noFloat asciiCC _ d 0 hb
  exact ⟨d, r, hb, hw⟩

/-- C17: on input `true` the run records exactly the (no) host calls of the evaluation -/
example (fo : FloatOps Float) (host : Host Float) : ∃ d entry, buildText noFloat asciiCC sCond.toList = .ok (d, entry) ∧
    ∃ n m, run fo host (progOf d) n
        { pc := (progOf d).jumps[entry]?.getD 0, regs := [], vals := [.tru], frames := [], trace := [] } = (.halted m, n) ∧
      m.trace = [] :=
  C17_text_trace noFloat asciiCC fo host _ progCond srcCond progCond_wf .tru 5 _ _ (progCond_meaning fo host)

/-- C04: every non-structural token of the text has an instruction -/
example : ∃ d r, buildText noFloat asciiCC sCond.toList = .ok (d, 0) ∧ parse (toP (lexed sCond)) = .ok r ∧
    ∀ (i : Nat) (n : ParseNode), r.nodes[i]? = some n → Garnish.Lemmas.BuildAttr.attributable n.definition = true →
      ∃ k : Nat, d.metadata[k]? = some (some i) := by
  obtain ⟨d, hb, _⟩ := srcCond.built (by rfl)
  obtain ⟨r, t, hp, _, _, h2, _⟩ := C04_text_attribution noFloat asciiCC sCond.toList (lexed sCond) (by rfl) (by decide) d 0 hb
  exact ⟨d, r, hb, hp, h2⟩

/-! `"$ && 5"` -/

def sAnd : String := "$ && 5"
theorem srcAnd : Src noFloat asciiCC sAnd.toList prog2b := src_of_eval sAnd prog2b (by rfl) (by decide) (by rfl)

theorem prog2b_done : (compileState Prog.empty prog2b).done =
    [⟨.code (int 5), 1, [(.tis, none), (.jumpTo, some 2)], 0⟩, ⟨.ref 0, 0, [(.endExpression, none)], 0⟩] := by rfl

theorem prog2b_wf : C01.WFProgram prog2b :=
  wf_single main2b rfl rfl
    (fun r hr id hk => by
      rw [show (⟨main2b, [(0, main2b)]⟩ : Program Float) = prog2b from rfl, prog2b_done] at hr
      simp only [List.mem_cons, List.not_mem_nil, or_false] at hr
      rcases hr with rfl | rfl <;> first | (cases hk; exact ⟨rfl, rfl⟩) | cases hk)
    (by rw [show (⟨main2b, [(0, main2b)]⟩ : Program Float) = prog2b from rfl, prog2b_done]
        exact ⟨⟨.ref 0, 0, [(.endExpression, none)], 0⟩, by simp, rfl⟩)

/-- C10: on input `false` the program built from `"$ && 5"` halts with `$!` and an empty trace: the right operand is not run -/
example (fo : FloatOps Float) (host : Host Float) : ∃ d, buildText noFloat asciiCC sAnd.toList = .ok (d, 0) ∧
    ∃ n m, run fo host (progOf d) n
        { pc := (progOf d).jumps[0]?.getD 0, regs := [], vals := [.fls], frames := [], trace := [] } = (.halted m, n) ∧
      m.vals = [.fls] ∧ m.trace = [] :=
  C10_text_and_short_circuits noFloat asciiCC fo host _ prog2b srcAnd prog2b_wf .input (int 5) rfl .fls 1 .fls ⟨.fls, []⟩
    (by simp [evalF]) rfl

/-- C10 at the program counter: in the built program the `And` sits at `pc + 1` and the right operand strictly behind the
continuation -/
example (fo : FloatOps Float) (host : Host Float) : ∃ d, buildText noFloat asciiCC sAnd.toList = .ok (d, 0) ∧
    ∃ pc j tb, (progOf d).instrs[pc + len (Expr.input : Expr Float)]? = some (.and, some j) ∧
      (progOf d).jumps[j]? = some tb ∧ pc + len (Expr.input : Expr Float) + 1 < tb := by
  obtain ⟨d, hb, _, pc, j, tb, _, h1, h2, _, h3, _⟩ :=
    C10_text_and_in_context noFloat asciiCC fo host _ prog2b srcAnd prog2b_wf.toC (id := 0) (b := main2b) rfl (Sub.refl _)
  exact ⟨d, hb, pc, j, tb, h1, h2, h3⟩

/-! two texts in one object -/

/-- C20: `"$ ?> 1 |> 2"` and then `"$ && 5"` built into one object: the first program is untouched and still computes `1` on
input `true` in the final object; the second one, from its entry (jump entry 3), computes `$!` on input `false` -/
example (fo : FloatOps Float) :
    ∃ d1 d2, buildText noFloat asciiCC sCond.toList = .ok (d1, 0) ∧
      buildTextInto noFloat asciiCC d1 sAnd.toList = .ok (d2, d1.jumps.size) ∧ Extends (progOf d1) (progOf d2) ∧
      (∃ n m, run fo Host.declining (progOf d2) n
          { pc := (progOf d2).jumps[0]?.getD 0, regs := [], vals := [.tru], frames := [], trace := [] } = (.halted m, n) ∧
        m.vals = [.num (.int 1)]) ∧
      (∃ n m, run fo Host.declining (progOf d2) n
          { pc := (progOf d2).jumps[d1.jumps.size]?.getD 0, regs := [], vals := [.fls], frames := [], trace := [] } = (.halted m, n) ∧
        m.vals = [.fls]) := by
  obtain ⟨d1, d2, h1, h2, h3, h4, h5⟩ :=
    C20_text_shared noFloat asciiCC fo Host.declining _ _ progCond prog2b srcCond srcAnd progCond_wf prog2b_wf
  refine ⟨d1, d2, h1, h2, h3, ?_, ?_⟩
  · obtain ⟨n, m, hr, hv, _⟩ := h4 .tru 5 _ _ (progCond_meaning fo Host.declining)
    exact ⟨n, m, hr, hv⟩
  · obtain ⟨n, m, hr, hv, _⟩ := h5 Host.declining (HostRel.declining _) .fls 3 .fls ⟨.fls, []⟩
      (by simp [evalProgram, evalBody, evalF, prog2b, main2b, Val.truthy])
    exact ⟨n, m, hr, hv⟩

end Garnish.Props.SourceProps
