/-
C09 — power, shift and increment laws for the 32-bit integer fragment (corollaries of exactness).
-/
import Garnish.Props.C09
namespace Garnish.Props.C09Laws
open Garnish Garnish.Number Garnish.Props.C09

variable {F : Type} (fo : FloatOps F)

/-- `a ** 0 = 1` and `a ** 1 = a` for every integer (including 0 and MIN). -/
theorem C09_int_power_zero (a : Int) (ha : InRange a) :
    power fo (.int a) (.int 0) = some (.int 1) := by
  have h0 : InRange 0 := by decide
  have h1 : InRange 1 := by decide
  rw [C09_int_power fo a 0 ha h0]; simp [Spec.pow, Spec.exact, h1]

theorem C09_int_power_one (a : Int) (ha : InRange a) :
    power fo (.int a) (.int 1) = some (.int a) := by
  have h1 : InRange 1 := by decide
  rw [C09_int_power fo a 1 ha h1]
  have e : a ^ (1:Int).toNat = a := by
    show a ^ (0 + 1) = a
    rw [Int.pow_succ, Int.pow_zero, Int.one_mul]
  simp only [Spec.pow, Spec.exact, e]; simp [ha]

/-- A defined power is the mathematical power; unit exactly on a negative exponent or an
unrepresentable result. -/
theorem C09_int_power_some (a b r : Int) (ha : InRange a) (hb : InRange b)
    (h : power fo (.int a) (.int b) = some (.int r)) : 0 ≤ b ∧ r = a ^ b.toNat ∧ InRange r := by
  rw [C09_int_power fo a b ha hb] at h
  unfold Spec.pow Spec.exact at h
  by_cases hneg : b < 0
  · rw [if_pos hneg] at h; simp at h
  · rw [if_neg hneg] at h
    by_cases hin : InRange (a ^ b.toNat)
    · rw [if_pos hin] at h; simp at h; subst h; exact ⟨by omega, rfl, hin⟩
    · rw [if_neg hin] at h; simp at h

/-- Shifting by zero is the identity; a count outside 0..31 gives unit in both directions. -/
theorem C09_int_shift_zero (a : Int) (ha : InRange a) :
    bitwiseShiftLeft (F := F) (.int a) (.int 0) = some (.int a) ∧
    bitwiseShiftRight (F := F) (.int a) (.int 0) = some (.int a) := by
  have h0 : InRange 0 := by decide
  rw [C09_int_shl a 0 ha h0, C09_int_shr a 0 ha h0]
  unfold InRange at ha
  refine ⟨?_, ?_⟩
  · simp [Spec.shl, wrap]; omega
  · simp [Spec.shr]

theorem C09_int_shift_count_out_of_range (a b : Int) (ha : InRange a) (hb : InRange b)
    (h : b < 0 ∨ 31 < b) :
    bitwiseShiftLeft (F := F) (.int a) (.int b) = none ∧
    bitwiseShiftRight (F := F) (.int a) (.int b) = none := by
  rw [C09_int_shl a b ha hb, C09_int_shr a b ha hb]
  have : ¬ (0 ≤ b ∧ b ≤ 31) := by omega
  simp [Spec.shl, Spec.shr, this]

/-- `++` then `--` returns the operand whenever the increment is representable (everything but MAX). -/
theorem C09_int_increment_decrement (a : Int) (ha : InRange a) (hmax : a ≠ 2147483647) :
    increment fo (.int a) = some (.int (a + 1)) ∧ decrement fo (.int (a + 1)) = some (.int a) := by
  have h1 : InRange (a + 1) := by unfold InRange at *; omega
  rw [C09_int_increment fo a ha, C09_int_decrement fo (a + 1) h1]
  have e : a + 1 - 1 = a := by omega
  simp [Spec.inc, Spec.dec, Spec.exact, h1, e, ha]

example : Spec.pow 2 31 = none ∧ Spec.pow 2 30 = some 1073741824 ∧ Spec.pow (-2) 31 = some (-2147483648) := by decide

end Garnish.Props.C09Laws
