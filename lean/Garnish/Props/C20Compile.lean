/-
C20 — programs built into a shared data object do not disturb each other: the compile-level theorems, for all
programs. `Abs.compileInto P0 p` is the structured model of `build` on a data object that already holds `P0`
(suite COMPILE2 ties it to the real `build` applied to one object several times).

  C20_compileInto_extends        every instruction, jump entry and constant of `P0` is unchanged (for EVERY program `p`)
  C20_roots_in_own_range         every root of `p` (its entry, its nested bodies, its out-of-line branch bodies) has a
                                 jump entry of its own (`≥ P0.jumps.size`) that points into `p`'s own instructions
  C20_own_pieces                 every jump operand / `Expression` constant / constant index that `p`'s compilation writes
                                 is `≥ P0`'s sizes: `p`'s instructions name only `p`'s pieces
  C20_compile_correct_shared     a program compiled after anything computes what its source means, started from its entry
  C20_earlier_program_undisturbed  … and still does after anything else is compiled into the same object
  C20_compileAll_correct         … for every program of an arbitrary finite sequence `compileAll P0 [p1, …, pn]`

Bodies are named by their jump entries (as in `WFProgram`), so a program compiled into an object that holds `P0` has
its top-level body named `P0.jumps.size` (`WFProgramAt`); the meaning of the source is `evalBody … (cur := entry)`.
Why the earlier program is not disturbed: `Located` — the relation between a body and the program text on which the
whole of `run_located` rests — only mentions instructions, jump entries and constants that the body names, and
`Extends` keeps those (`Located_extends`, `Env_extends`).
-/
import Garnish.Lemmas.CompileShared
import Garnish.Lemmas.CompileRange
import Garnish.Lemmas.CompileShift2
import Garnish.Props.C01Compile
namespace Garnish.Props.C20
open Garnish Gen Garnish.Abs Garnish.Spec

variable {F : Type} (fo : FloatOps F) (host : Host F)

theorem startState_inv_at (P0 : Prog F) : Inv (startState P0) := by
  refine ⟨fun r hr => ?_, fun r hr => ?_, fun r hr => ?_⟩ <;>
    simp only [startState, List.mem_singleton] at hr <;> subst hr
  · simp [startState]
  · simp [startState]
  · intro id _; exact ⟨rfl, rfl⟩

/-- **C20**: building a program into a data object leaves every instruction, jump entry and constant that the object
already holds unchanged — for every program, well formed or not -/
theorem C20_compileInto_extends (P0 : Prog F) (p : Program F) : Extends P0 (compileInto P0 p).1 := by
  have ev := layoutRoots_ev p.bodies (bodiesSize p.bodies + 2) (startState P0) (startState_inv_at P0)
  have lt : ∀ {α : Type} {a : Array α} {i : Nat} {x : α}, a[i]? = some x → i < a.size :=
    fun h => (Array.getElem?_eq_some_iff.mp h).1
  refine ⟨fun i x hx => ?_, fun j t hx => ?_, fun k v hx => ?_⟩
  · have := ev.instrs i (by simpa [startState] using lt hx)
    simp only [compileInto, compileState, LState.toProg]
    rw [this]; simpa [startState] using hx
  · have hj := lt hx
    have := ev.jumps j (by simp [startState]; omega) (fun r hr => by
      simp only [startState, List.mem_singleton] at hr; subst hr; simp; omega)
    simp only [compileInto, compileState, LState.toProg]
    rw [this]
    simp [startState, Array.getElem?_push, Nat.ne_of_lt hj, hx]
  · have := ev.consts k (by simpa [startState] using lt hx)
    simp only [compileInto, compileState, LState.toProg]
    rw [this]; simpa [startState] using hx

theorem C20_compileInto_entry (P0 : Prog F) (p : Program F) : (compileInto P0 p).2 = P0.jumps.size := rfl

/-! ### well-formed programs at a position -/

/-- `WFProgram` for a program that is built into an object holding `P0`: the same conditions, bodies named by the
jump entries they get there, the top-level body named by the program's entry `P0.jumps.size` -/
structure WFProgramAt (P0 : Prog F) (p : Program F) : Prop where
  main0 : lookupBody p.bodies P0.jumps.size = some p.main
  wf : ∀ id b, lookupBody p.bodies id = some b → wfE b = true
  tail : tailR p.main = true
  labels : ∀ r ∈ (compileState P0 p).done, ∀ id, r.kind = .ref id → r.patch = id
  covered : ∀ id b, lookupBody p.bodies id = some b → ∃ r ∈ (compileState P0 p).done, r.kind = .ref id

theorem compile_distinct_at (P0 : Prog F) (p : Program F) : ((compileState P0 p).done.map (·.patch)).Nodup := by
  have n0 : NInv (startState P0) := ⟨by simp [startState, pats], fun q hq => by simp [startState] at hq⟩
  have n := (layoutRoots_ninv p.bodies (bodiesSize p.bodies + 2) (startState P0) (startState_inv_at P0) n0).nodup
  rw [pats, List.map_append, List.nodup_append] at n
  exact n.2.1

theorem compile_complete_at (P0 : Prog F) (p : Program F)
    (hlab : ∀ r ∈ (compileState P0 p).done, ∀ id, r.kind = .ref id → r.patch = id) :
    (compileState P0 p).pending = [] := by
  apply Classical.byContradiction
  intro hne
  have hsteps := layoutRoots_steps p.bodies (bodiesSize p.bodies + 2) (startState P0) (startState_inv_at P0) hne
  have hbud := layoutRoots_budget p.bodies (bodiesSize p.bodies + 2) (startState P0) (startState_inv_at P0)
    (by simp [startState, listW, rootW, listC, sumCr])
  have hids := C01.refIds_nodup _ hlab (compile_distinct_at P0 p)
  have hsum := sumCr_le p.bodies _ hids
  have htot := totalSize_le p.bodies
  have hd0 : (startState P0).done.length = 0 := by simp [startState]
  simp only [listC] at hbud
  have e : compileState P0 p = layoutRoots p.bodies (bodiesSize p.bodies + 2) (startState P0) := rfl
  rw [← e] at hsteps hbud
  omega

/-- every body of a well-formed program is laid out, in the shared object, at the jump entry that is its id -/
theorem compile_env_at (P0 : Prog F) (p : Program F) (hwf : WFProgramAt P0 p) : Env (compileInto P0 p).1 p.bodies := by
  have hlo := layoutRoots_located p.bodies (bodiesSize p.bodies + 2) (startState P0) (startState_inv_at P0)
    (compile_complete_at P0 p hwf.labels) (fun r hr => hwf.labels r hr) (compile_distinct_at P0 p)
  obtain ⟨_, _, hdone, _⟩ := hlo
  constructor
  intro id b hb
  obtain ⟨r, hr, hk⟩ := hwf.covered id b hb
  rcases hdone r hr with h | ⟨⟨hlab, hloc⟩, href⟩
  · simp [startState] at h
  · have hpid : r.patch = id := hlab id hk
    obtain ⟨hcont, hterm⟩ := href id hk
    have hrb : rootBody p.bodies r = some b := by simp [rootBody, hk, hb]
    obtain ⟨tb, hj, hl, hi⟩ := hloc b hrb
    rw [hcont, hpid] at hl
    rw [hpid] at hj
    have hwb := wfE_wfC b (hwf.wf id b hb)
    rw [hterm, termsAfter_end hl hwb] at hi
    exact ⟨tb, hj, hl, hwb, hi.1⟩

/-- **C20, own pieces**: every root of `p` — its entry, its nested bodies, the out-of-line bodies of its conditionals
and logical operators — has a jump entry of its own (not one of `P0`'s) that points into `p`'s own instructions -/
theorem C20_roots_in_own_range (P0 : Prog F) (p : Program F) (hwf : WFProgramAt P0 p) :
    ∀ r ∈ (compileState P0 p).done, P0.jumps.size ≤ r.patch ∧
      ∃ t, (compileInto P0 p).1.jumps[r.patch]? = some t ∧ P0.instrs.size ≤ t := by
  intro r hr
  have := roots_range p.bodies P0.jumps.size (bodiesSize p.bodies + 2) (startState P0) (startState_inv_at P0)
    (compile_complete_at P0 p hwf.labels) (fun q hq => hwf.labels q hq) (compile_distinct_at P0 p)
    (fun q hq => by simp only [startState, List.mem_singleton] at hq; subst hq; exact Nat.le_refl _)
    (by simp [startState]) r hr
  rcases this with h | h
  · simp [startState] at h
  · exact h

/-- **C20, own pieces (2)**: everything `p`'s compilation writes names only `p`'s own pieces — every jump operand
(`JumpTo`, `JumpIfTrue`, `JumpIfFalse`, `And`, `Or`, `Reapply` … see `jumpOperand`) of an instruction after `P0`'s is a
jump entry after `P0`'s; every `Expression` constant added is a jump entry after `P0`'s; every `Put`/`Resolve` added reads
a constant after `P0`'s. Needs only that the bodies are in the fragment (`wfE`). -/
theorem C20_own_pieces (P0 : Prog F) (p : Program F) (hwf : ∀ id b, lookupBody p.bodies id = some b → wfE b = true) :
    (∀ i x j, P0.instrs.size ≤ i → (compileInto P0 p).1.instrs[i]? = some x → jumpOperand x = some j → P0.jumps.size ≤ j) ∧
    (∀ k j, P0.consts.size ≤ k → (compileInto P0 p).1.consts[k]? = some (.expr j) → P0.jumps.size ≤ j) ∧
    (∀ i ins k, P0.instrs.size ≤ i → (compileInto P0 p).1.instrs[i]? = some (ins, some k) →
      (ins = .put ∨ ins = .resolve) → P0.consts.size ≤ k) := by
  have h := layoutRoots_own p.bodies (lo := P0.jumps.size) (bodiesSize p.bodies + 2) (startState P0) (startState_inv_at P0)
    (fun q hq => by
      simp only [startState, List.mem_singleton] at hq; subst hq
      exact ⟨Nat.le_refl _, Nat.le_refl _, fun j hj => (by simp at hj), fun b hb => (by cases hb),
        fun t ht => by simp at ht; exact .inr (.inr ht)⟩)
    (by simp [startState]) hwf
  exact ⟨h.ops, h.exprs, h.cidx⟩

/-- the whole-program run theorem for a body named `e`: relative to `Env`, for any program text `P` (stated for the
strict evaluator, on which the simulation is proved; `evalBodyS = evalBody` on programs whose else-chains have their final
arms, `strict_eq`) -/
theorem run_body {P : Prog F} {bodies : List (Nat × Expr F)} (env : Env P bodies) {e : Nat} {main : Expr F}
    (hmain : lookupBody bodies e = some main) (htail : tailR main = true)
    {fuel : Nat} {input v : Val F} {st : St F}
    (h : evalBodyS fo host bodies e fuel main ⟨input, []⟩ = .ok (v, st)) :
    ∃ n s, run fo host P n { pc := P.jumps[e]?.getD 0, regs := [], vals := [input], frames := [], trace := [] } = (.halted s, n) ∧
      s.vals = [v] ∧ s.regs = [] ∧ s.frames = [] ∧ s.trace = st.trace := by
  obtain ⟨t, hjt, hloc, hwf, hend⟩ := env.body e main hmain
  have hsz := lt_size_of_get hend
  obtain ⟨rs', hr, he⟩ := (sim_all fo host env fuel).2.2.2.2.1 e main ⟨input, []⟩ v st h t [] [] [] hloc hwf hjt hsz
  rw [he htail] at hr
  obtain ⟨n, hn⟩ := hr.run_halts (step_endExpression_halt hend)
  exact ⟨n, _, by rw [hjt]; exact hn, rfl, rfl, rfl, rfl⟩

theorem evalBody_toS {P0 : Prog F} {p : Program F} (hwf : WFProgramAt P0 p) {e fuel : Nat} {st0 : St F} {r : Val F × St F}
    (h : evalBody fo host p.bodies e fuel p.main st0 = .ok r) : evalBodyS fo host p.bodies e fuel p.main st0 = .ok r := by
  rw [strict_eq hwf.wf e fuel p.main st0 (hwf.wf _ _ hwf.main0)]; exact h

/-- **C20 / C01 in a shared object**: a well-formed program built into an object that already holds anything computes,
started from ITS entry, the value and the host-call trace that its source means — exactly the conclusion of
`C01_compile_correct` -/
theorem C20_compile_correct_shared (P0 : Prog F) (p : Program F) (input : Val F) (fuel : Nat) (v : Val F) (st : St F)
    (hwf : WFProgramAt P0 p)
    (h : evalBody fo host p.bodies (compileInto P0 p).2 fuel p.main ⟨input, []⟩ = .ok (v, st)) :
    ∃ n s, run fo host (compileInto P0 p).1 n
        { pc := (compileInto P0 p).1.jumps[(compileInto P0 p).2]?.getD 0, regs := [], vals := [input], frames := [],
          trace := [] } = (.halted s, n) ∧
      s.vals = [v] ∧ s.regs = [] ∧ s.frames = [] ∧ s.trace = st.trace :=
  run_body fo host (compile_env_at P0 p hwf) hwf.main0 hwf.tail (evalBody_toS fo host hwf h)

/-- whatever is built into the object afterwards, a program that was correct in it stays correct: it is started from
the same entry and computes the same value and trace -/
theorem C20_correct_of_extends {P P' : Prog F} (hext : Extends P P') {bodies : List (Nat × Expr F)} (env : Env P bodies)
    {e : Nat} {main : Expr F} (hmain : lookupBody bodies e = some main) (htail : tailR main = true)
    {fuel : Nat} {input v : Val F} {st : St F}
    (h : evalBodyS fo host bodies e fuel main ⟨input, []⟩ = .ok (v, st)) :
    ∃ n s, run fo host P' n { pc := P'.jumps[e]?.getD 0, regs := [], vals := [input], frames := [], trace := [] } = (.halted s, n) ∧
      s.vals = [v] ∧ s.regs = [] ∧ s.frames = [] ∧ s.trace = st.trace :=
  run_body fo host (Env_extends hext env) hmain htail h

/-- **C20, the earlier program**: `q` was built into `P0`, then `p` — any program at all, well formed or not — is
built into the same object; `q`, started from its entry, still computes what its source means -/
theorem C20_earlier_program_undisturbed (P0 : Prog F) (q p : Program F) (input : Val F) (fuel : Nat) (v : Val F) (st : St F)
    (hwf : WFProgramAt P0 q)
    (h : evalBody fo host q.bodies (compileInto P0 q).2 fuel q.main ⟨input, []⟩ = .ok (v, st)) :
    ∃ n s, run fo host (compileInto (compileInto P0 q).1 p).1 n
        { pc := (compileInto (compileInto P0 q).1 p).1.jumps[(compileInto P0 q).2]?.getD 0, regs := [], vals := [input],
          frames := [], trace := [] } = (.halted s, n) ∧
      s.vals = [v] ∧ s.regs = [] ∧ s.frames = [] ∧ s.trace = st.trace :=
  C20_correct_of_extends fo host (C20_compileInto_extends _ p) (compile_env_at P0 q hwf) hwf.main0 hwf.tail
    (evalBody_toS fo host hwf h)

/-! ### any finite sequence of programs -/

/-- build the programs one after the other into the object; returns the object and the entries, in order -/
def compileAll (P0 : Prog F) : List (Program F) → Prog F × List Nat
  | [] => (P0, [])
  | p :: ps =>
    let r := compileAll (compileInto P0 p).1 ps
    (r.1, (compileInto P0 p).2 :: r.2)

/-- every program of the sequence is well formed at the position it is built at -/
def WFAll (P0 : Prog F) : List (Program F) → Prop
  | [] => True
  | p :: ps => WFProgramAt P0 p ∧ WFAll (compileInto P0 p).1 ps

theorem compileAll_extends : ∀ (ps : List (Program F)) (P0 : Prog F), Extends P0 (compileAll P0 ps).1
  | [], P0 => .refl P0
  | p :: ps, P0 => (C20_compileInto_extends P0 p).trans (compileAll_extends ps _)

/-- the program `p` with entry `e` runs correctly in the object `P` -/
def RunsIn (P : Prog F) (p : Program F) (e : Nat) : Prop :=
  ∀ (input : Val F) (fuel : Nat) (v : Val F) (st : St F),
    evalBody fo host p.bodies e fuel p.main ⟨input, []⟩ = .ok (v, st) →
    ∃ n s, run fo host P n { pc := P.jumps[e]?.getD 0, regs := [], vals := [input], frames := [], trace := [] } = (.halted s, n) ∧
      s.vals = [v] ∧ s.regs = [] ∧ s.frames = [] ∧ s.trace = st.trace

/-- **C20 for any number of programs**: in the object that holds `P0` and then `p1, …, pn`, every `pi`, started from its
own entry, computes the value and the trace its source means — none is disturbed by the ones before or after it -/
theorem C20_compileAll_correct : ∀ (ps : List (Program F)) (P0 : Prog F), WFAll P0 ps →
    ∀ pe ∈ ps.zip (compileAll P0 ps).2, RunsIn fo host (compileAll P0 ps).1 pe.1 pe.2
  | [], _, _ => by intro pe h; simp [compileAll] at h
  | p :: ps, P0, hwf => by
    intro pe hpe
    simp only [compileAll, List.zip_cons_cons, List.mem_cons] at hpe
    rcases hpe with rfl | hpe
    · intro input fuel v st h
      exact C20_correct_of_extends fo host (compileAll_extends ps _) (compile_env_at P0 p hwf.1) hwf.1.main0 hwf.1.tail
        (evalBody_toS fo host hwf.1 h)
    · exact C20_compileAll_correct ps _ hwf.2 pe hpe

/-- … and nothing that was in the object before is changed by the whole sequence -/
theorem C20_compileAll_extends (ps : List (Program F)) (P0 : Prog F) : Extends P0 (compileAll P0 ps).1 :=
  compileAll_extends ps P0

/-! ### "the same as when compiled alone" as a theorem

A program compiled alone has its bodies named `0, 1, 2, …` (its jump entries); built into an object that holds `P0` the
same source has them named `P0.jumps.size + 0, + 1, …`: it is the renamed program `rlProgram (shJ P0) p`.
`evalF_relabel` (Lemmas/CompileRelabel4.lean) says what renaming does to the meaning: nothing but renaming the
expression values in the result and in the trace. -/

/-- **position independence of well-formedness**: a program that is well formed alone is well formed, renamed, at
every position. (Proof: the shared build goes through the shifted states of the build alone, `layoutRoots_sh`.) -/
theorem WFProgramAt_shift (P0 : Prog F) (p : Program F) (hwf : C01.WFProgram p) :
    WFProgramAt P0 (rlProgram (shJ P0) p) := by
  have h0 : Sh P0 (startState (F := F) Prog.empty) (startState P0) :=
    ⟨by simp [startState, Prog.empty], by simp [startState, Prog.empty, shJ], by simp [startState, Prog.empty],
     by simp [startState, Prog.empty, shRoot, shKind, shJ, shI], by simp [startState]⟩
  have hsh : Sh P0 (compileState Prog.empty p) (compileState P0 (rlProgram (shJ P0) p)) := by
    simp only [compileState, rlProgram, bodiesSize_rl]
    exact layoutRoots_sh p.bodies _ _ _ h0 C01.startState_inv
  have hz : shJ P0 0 = P0.jumps.size := by simp [shJ]
  refine ⟨?_, ?_, ?_, ?_, ?_⟩
  · have := lookupBody_rl (shJ_inj P0) p.bodies 0
    rw [hz, hwf.main0] at this
    simpa [rlProgram] using this
  · intro id' b' h
    obtain ⟨id, b, _, rfl, hb⟩ := lookupBody_rl_inv (shJ P0) p.bodies id' b' h
    rw [wfE_rl]; exact hwf.wf id b hb
  · simp only [rlProgram, tailR_rl]; exact hwf.tail
  · intro r' hr' id' hk
    rw [hsh.done, List.mem_map] at hr'
    obtain ⟨r, hr, rfl⟩ := hr'
    simp only [shRoot, shKind] at hk ⊢
    cases hkr : r.kind with
    | code e => rw [hkr] at hk; cases hk
    | ref id =>
      rw [hkr] at hk
      simp only [RootKind.ref.injEq] at hk
      rw [← hk, hwf.labels r hr id hkr]
  · intro id' b' h
    obtain ⟨id, b, rfl, rfl, hb⟩ := lookupBody_rl_inv (shJ P0) p.bodies id' b' h
    obtain ⟨r, hr, hk⟩ := hwf.covered id b hb
    refine ⟨shRoot P0 r, by rw [hsh.done]; exact List.mem_map_of_mem hr, ?_⟩
    simp only [shRoot, shKind, hk]

/-- **C20: a program computes in a shared object the same as when compiled alone** — up to the names of the bodies.
For a well-formed `p` that means `(v, trace)` on `input`: compiled alone it halts with `v` and `trace` (this is
`C01_compile_correct`); built into an object that holds ANY `P0` — where the same source is `rlProgram ρ p`,
`ρ = shJ P0` = "shift the jump entries by `P0.jumps.size`" — it halts, started from its entry on the renamed input,
with `ρ v` and `ρ trace`: the expression values inside the result and inside the recorded host calls are shifted, nothing
else differs. `host'` answers the renamed questions with the renamed answers (`HostRel`); for a host that does not
look inside expression values `host' = host`. -/
theorem C20_same_as_alone (host' : Host F) (P0 : Prog F) (p : Program F) (input : Val F) (fuel : Nat) (v : Val F) (st : St F)
    (hwf : C01.WFProgram p) (hh : HostRel (shJ P0) host host')
    (h : evalProgram fo host fuel p input = .ok (v, st)) :
    (∃ n s, run fo host (compile p) n
        { pc := (compile p).jumps[0]?.getD 0, regs := [], vals := [input], frames := [], trace := [] } = (.halted s, n) ∧
      s.vals = [v] ∧ s.regs = [] ∧ s.frames = [] ∧ s.trace = st.trace) ∧
    (∃ n s, run fo host' (compileInto P0 (rlProgram (shJ P0) p)).1 n
        { pc := (compileInto P0 (rlProgram (shJ P0) p)).1.jumps[(compileInto P0 (rlProgram (shJ P0) p)).2]?.getD 0,
          regs := [], vals := [Val.rl (shJ P0) input], frames := [], trace := [] } = (.halted s, n) ∧
      s.vals = [Val.rl (shJ P0) v] ∧ s.regs = [] ∧ s.frames = [] ∧ s.trace = st.trace.map (HostCall.rl (shJ P0))) := by
  refine ⟨C01.C01_compile_correct fo host p input fuel v st hwf h, ?_⟩
  have hr := evalBody_relabel fo (shJ_inj P0) hh p.bodies 0 fuel p.main ⟨input, []⟩
  simp only [evalProgram] at h
  rw [h] at hr
  have hz : shJ P0 0 = (compileInto P0 (rlProgram (shJ P0) p)).2 := by simp [shJ, compileInto]
  rw [hz] at hr
  exact C20_compile_correct_shared fo host' P0 (rlProgram (shJ P0) p) (Val.rl (shJ P0) input) fuel _ _
    (WFProgramAt_shift P0 p hwf) hr

/-! ### non-vacuity: two programs in one object, the second with a top-level `^~` and a nested body -/

/-- first program: `$ ?> 1` (entry 0) -/
def ex1 : Prog Float := compile (C01.exProg (F := Float))

/-- second program: `$ ?> { 7 } |> ^~ 1`, built after the first one: its entry is jump entry 3, the nested body is
jump entry 6 -/
def ex2main : Expr Float := .chain [(true, .input, .nested 6)] (some (.reapply (.lit (.num (.int 1)))))
def ex2 : Program Float := { main := ex2main, bodies := [(3, ex2main), (6, .lit (.num (.int 7)))] }

/-- the compiled object: the first program untouched, the second one after it; the `^~` of the second program is
`JumpTo 3` — its OWN entry, not entry 0 of the first program -/
example : (compileInto ex1 ex2).1.instrs =
    #[(.putValue, none), (.jumpIfTrue, some 1), (.putValue, none), (.endExpression, none), (.put, some 0), (.jumpTo, some 2),
      (.putValue, none), (.jumpIfTrue, some 4), (.put, some 1), (.updateValue, none), (.jumpTo, some 3), (.endExpression, none),
      (.put, some 2), (.jumpTo, some 5), (.put, some 3), (.endExpression, none)] ∧
    (compileInto ex1 ex2).1.jumps = #[0, 4, 3, 6, 12, 11, 14] ∧ (compileInto ex1 ex2).2 = 3 := by
  refine ⟨by decide, by decide, rfl⟩

theorem ex2_done : (compileState ex1 ex2).done =
    [⟨.ref 6, 6, [(.endExpression, none)], 6⟩, ⟨.code (.nested 6), 4, [(.jumpTo, some 5)], 3⟩,
     ⟨.ref 3, 3, [(.endExpression, none)], 3⟩] := by rfl

example : WFProgramAt ex1 ex2 where
  main0 := rfl
  wf := by
    intro id b h
    simp only [ex2, lookupBody] at h
    split at h
    · cases h; rfl
    · split at h
      · cases h; rfl
      · cases h
  tail := rfl
  labels := by
    intro r hr id hk
    rw [ex2_done] at hr
    simp only [List.mem_cons, List.not_mem_nil, or_false] at hr
    rcases hr with rfl | rfl | rfl <;> first | (cases hk; rfl) | cases hk
  covered := by
    intro id b h
    rw [ex2_done]
    simp only [ex2, lookupBody] at h
    split at h
    · rename_i hid
      have : (3 : Nat) = id := by simpa using hid
      subst this
      exact ⟨⟨.ref 3, 3, [(.endExpression, none)], 3⟩, by simp, rfl⟩
    · split at h
      · rename_i hid
        have : (6 : Nat) = id := by simpa using hid
        subst this
        exact ⟨⟨.ref 6, 6, [(.endExpression, none)], 6⟩, by simp, rfl⟩
      · cases h

/-- the second program means: on `()` the test fails, `^~ 1` restarts its body with `$ = 1`, the test succeeds and the
value is the nested expression (jump entry 6) — one iteration of the loop -/
theorem ex2_meaning (fo : FloatOps Float) (host : Host Float) :
    evalBody fo host ex2.bodies 3 6 ex2.main ⟨.unit, []⟩ = .ok (.expr 6, ⟨.num (.int 1), []⟩) := by
  simp [evalBody, evalF, evalChain, ex2, ex2main, Val.truthy]

/-- … and so does the compiled object, started at entry 3: it halts with that value — the restart went to the second
program's own entry -/
example (fo : FloatOps Float) (host : Host Float) (hwf : WFProgramAt ex1 ex2) :
    ∃ n s, run fo host (compileInto ex1 ex2).1 n
        { pc := (compileInto ex1 ex2).1.jumps[3]?.getD 0, regs := [], vals := [.unit], frames := [], trace := [] } = (.halted s, n) ∧
      s.vals = [.expr 6] ∧ s.regs = [] ∧ s.frames = [] ∧ s.trace = [] :=
  C20_compile_correct_shared fo host ex1 ex2 .unit 6 _ _ hwf (ex2_meaning fo host)

/-- the first program holds jump entries 0, 1, 2; by `C20_own_pieces` no jump operand the second program's compilation
writes is one of them (the seeded change that made `^~` jump to entry 0 contradicts this) -/
example : ∀ i x j, ex1.instrs.size ≤ i → (compileInto ex1 ex2).1.instrs[i]? = some x → jumpOperand x = some j → 3 ≤ j :=
  (C20_own_pieces ex1 ex2 (by
    intro id b h
    simp only [ex2, lookupBody] at h
    split at h
    · cases h; rfl
    · split at h
      · cases h; rfl
      · cases h)).1

/-- the second program as it is when compiled alone (entry 0, nested body 3) … -/
def ex2alone : Program Float :=
  { main := .chain [(true, .input, .nested 3)] (some (.reapply (.lit (.num (.int 1))))),
    bodies := [(0, .chain [(true, .input, .nested 3)] (some (.reapply (.lit (.num (.int 1)))))), (3, .lit (.num (.int 7)))] }

/-- … renamed to its position after the first program is `ex2` -/
example : rlProgram (shJ ex1) ex2alone = ex2 := by
  have : ex1.jumps.size = 3 := by decide
  simp [rlProgram, ex2alone, ex2, ex2main, rlE, rlArms, rlBodies, shJ, this, Val.rl]

end Garnish.Props.C20

