/-
Property C05 — built instruction streams are well-formed (builder model Garnish.Model.Build, checker Garnish.Spec.WFProg).

Main theorem (end of file): `C05_build_wf : build pf fuel root tree s0 = .ok (s, entry) → WFState s0 →
  wfProg tree.size s0 s = true ∧ (tree.size ≠ 0 → entry < s.jumps.size)`, for every node vector, fuel and start state.
Proof: an invariant threaded through every handler (`InvH`, inner loop) and through the outer loop (`InvR`):
  * `DataOk`   every instruction / expression constant appended so far is fine w.r.t. the current tables (monotone in
               the tables, so it is enough to check each push against the state it is pushed into), metadata and
               instructions grow in lock-step and metadata names nodes below `tree.size`;
  * `JOk`      every jump entry written by this build is ≤ the instruction count, and equal to it only while more
               instructions are guaranteed: a root is pending on `root_stack`, or the current root has emitted nothing
               yet (commit 3cee692 then forces its terminator);
  * `NodesWF`  every build node names a parse node, an existing containing jump entry, and a terminator list that is
               non-empty, fine as it stands and ends in `EndExpression`/`JumpTo` (`EndShape`);
  * `EndsInTerm` after each root the stream ends in a terminator (commit 7afc7c5: only an `EndExpression` may be skipped).
-/
import Garnish.Lemmas.Build
import Garnish.Spec.WFProg
namespace Garnish.Props.C05
open Garnish Garnish.Gen Garnish.Model.Parser Garnish.Model.Literals Garnish.Model.Build Garnish.Lemmas.Build Garnish.Spec

set_option linter.unusedSimpArgs false

variable {F : Type}

/-! ### monotonicity of the per-element checks -/

theorem instrOk_mono {jb jb' : Nat} {C C' : Array (Val F)} (hj : jb ≤ jb') (hs : C.size ≤ C'.size)
    (hc : ∀ (k : Nat) (v : Val F), C[k]? = some v → C'[k]? = some v) {i : Instr} (h : instrOk jb C i = true) :
    instrOk jb' C' i = true := by
  unfold instrOk at *
  cases hk : opKind i.1 <;> cases ho : i.2 <;> simp only [hk, ho] at h ⊢
  case data.some k => simp only [decide_eq_true_eq] at h ⊢; omega
  case sym.some k =>
    cases hck : C[k]? with
    | none => simp [hck] at h
    | some v =>
      rw [hc k v hck]
      rw [hck] at h
      exact h
  case jump.some j => simp only [decide_eq_true_eq] at h ⊢; omega
  all_goals exact h

theorem constOk_mono {jb jb' : Nat} (hj : jb ≤ jb') {v : Val F} (h : constOk jb v = true) : constOk jb' v = true := by
  unfold constOk at *
  split at h
  · simp only [decide_eq_true_eq] at h ⊢; omega
  · rfl

/-- an instruction that is fine without any constant is fine with every constant table -/
theorem instrOk_of_empty {G : Type} {jb : Nat} {i : Instr} (C : Array (Val F)) (h : instrOk jb (#[] : Array (Val G)) i = true) :
    instrOk jb C i = true := by
  unfold instrOk at *
  cases hk : opKind i.1 <;> cases ho : i.2 <;> simp only [hk, ho] at h ⊢
  case data.some k => simp at h
  case sym.some k => simp at h
  case jump.some j => exact h
  all_goals exact h

theorem allFrom_push {α : Type} {lo : Nat} {a : Array α} {P : α → Prop} (h : AllFrom lo a P) {x : α} (hx : P x) :
    AllFrom lo (a.push x) P := by
  intro i y hlo hy
  rw [Array.getElem?_push] at hy
  split at hy
  · cases hy; exact hx
  · exact h i y hlo hy

theorem allFrom_imp {α : Type} {lo : Nat} {a : Array α} {P Q : α → Prop} (h : AllFrom lo a P) (hpq : ∀ x, P x → Q x) :
    AllFrom lo a Q := fun i x hlo hx => hpq x (h i x hlo hx)

theorem getElem?_push_of_some {α : Type} (a : Array α) (x : α) (k : Nat) (v : α) (h : a[k]? = some v) : (a.push x)[k]? = some v := by
  rw [Array.getElem?_push]
  split
  · rename_i hk
    subst hk
    simp at h
  · exact h

/-! ### the data part of the invariant, stated on the four arrays of the state -/

/-- the fixed quantities: sizes of the start state and the number of parse nodes -/
structure Base where
  i0 : Nat
  c0 : Nat
  j0 : Nat
  m0 : Nat
  n : Nat

structure DataOk (b : Base) (I : Array Instr) (J : Array Nat) (C : Array (Val F)) (M : Array (Option Nat)) : Prop where
  operands : AllFrom b.i0 I (fun i => instrOk J.size C i = true)
  exprConsts : AllFrom b.c0 C (fun v => constOk J.size v = true)
  metaCount : M.size + b.i0 = I.size + b.m0
  metaNodes : AllFrom b.m0 M (fun m => metaOk b.n m = true)

theorem DataOk.pushI {b : Base} {I : Array Instr} {J : Array Nat} {C : Array (Val F)} {M : Array (Option Nat)}
    (h : DataOk b I J C M) {x : Instr} {m : Option Nat} (hx : instrOk J.size C x = true) (hm : metaOk b.n m = true) :
    DataOk b (I.push x) J C (M.push m) :=
  ⟨allFrom_push h.operands hx, h.exprConsts, by have := h.metaCount; simp only [Array.size_push]; omega,
   allFrom_push h.metaNodes hm⟩

theorem DataOk.pushJ {b : Base} {I : Array Instr} {J : Array Nat} {C : Array (Val F)} {M : Array (Option Nat)}
    (h : DataOk b I J C M) (v : Nat) : DataOk b I (J.push v) C M :=
  ⟨allFrom_imp h.operands (fun _ hx => instrOk_mono (by simp) (Nat.le_refl _) (fun _ _ h => h) hx),
   allFrom_imp h.exprConsts (fun _ hx => constOk_mono (by simp) hx), h.metaCount, h.metaNodes⟩

theorem DataOk.pushC {b : Base} {I : Array Instr} {J : Array Nat} {C : Array (Val F)} {M : Array (Option Nat)}
    (h : DataOk b I J C M) {v : Val F} (hv : constOk J.size v = true) : DataOk b I J (C.push v) M :=
  ⟨allFrom_imp h.operands (fun _ hx => instrOk_mono (Nat.le_refl _) (by simp) (fun k w hk => getElem?_push_of_some C v k w hk) hx),
   allFrom_push h.exprConsts hv, h.metaCount, h.metaNodes⟩

theorem DataOk.setJ {b : Base} {I : Array Instr} {J : Array Nat} {C : Array (Val F)} {M : Array (Option Nat)}
    (h : DataOk b I J C M) (i v : Nat) (hi : i < J.size) : DataOk b I (J.set i v hi) C M :=
  ⟨by simpa using h.operands, by simpa using h.exprConsts, h.metaCount, h.metaNodes⟩

/-! ### jump entries: every new entry is at most the instruction count, and may equal it only while more
instructions are guaranteed to come (`p`) -/

def JOk (lo L : Nat) (p : Prop) (J : Array Nat) : Prop := AllFrom lo J (fun v => v ≤ L ∧ (v = L → p))

theorem jOk_push {lo L : Nat} {p : Prop} {J : Array Nat} (h : JOk lo L p J) {v : Nat} (hv : v ≤ L) (hp : v = L → p) :
    JOk lo L p (J.push v) := allFrom_push h ⟨hv, hp⟩

theorem jOk_mono {lo L L' : Nat} {p p' : Prop} {J : Array Nat} (h : JOk lo L p J) (hL : L ≤ L') (hp : L' = L → p → p') :
    JOk lo L' p' J := by
  intro i v hlo hv
  obtain ⟨h1, h2⟩ := h i v hlo hv
  refine ⟨by omega, fun hvl => ?_⟩
  have : L' = L := by omega
  exact hp this (h2 (by omega))

theorem jOk_set {lo L : Nat} {p : Prop} {J : Array Nat} (h : JOk lo L p J) (i : Nat) (hi : i < J.size) (hp : p) :
    JOk lo L p (J.set i L hi) := by
  intro k v hlo hv
  rw [Array.getElem?_set] at hv
  split at hv
  · cases hv; exact ⟨Nat.le_refl _, fun _ => hp⟩
  · exact h k v hlo hv

/-! ### build nodes -/

/-- the shape of a terminator list: `[EndExpression]`, or a list ending in a `JumpTo` -/
def EndShape (l : List Instr) : Prop :=
  l = [(.endExpression, none)] ∨ ∃ (init : List Instr) (j : Nat), l = init ++ [(.jumpTo, some j)]

/-- a build node refers to an existing parse node, an existing jump entry, and its terminator list is a non-empty
list of instructions that are fine as they stand and ends in a terminator -/
def BnWF (jb n : Nat) (bn : BuildNode) : Prop :=
  bn.parseNodeIndex < n ∧ bn.containingExpressionJump < jb ∧
  ∀ l, bn.rootEndInstruction = some l → l ≠ [] ∧ (∀ e, e ∈ l → instrOk jb (#[] : Array (Val Unit)) e = true) ∧ EndShape l

def NodesWF (jb n : Nat) (nodes : Nodes) : Prop :=
  nodes.size = n ∧ ∀ (i : Nat) (bn : BuildNode), nodes[i]? = some (some bn) → BnWF jb n bn

theorem bnWF_mono {jb jb' n : Nat} (hj : jb ≤ jb') {bn : BuildNode} (h : BnWF jb n bn) : BnWF jb' n bn :=
  ⟨h.1, by have := h.2.1; omega, fun l hl => ⟨(h.2.2 l hl).1, fun e he =>
    instrOk_mono hj (Nat.le_refl _) (fun _ _ h => h) ((h.2.2 l hl).2.1 e he), (h.2.2 l hl).2.2⟩⟩

theorem nodesWF_mono {jb jb' n : Nat} (hj : jb ≤ jb') {nodes : Nodes} (h : NodesWF jb n nodes) : NodesWF jb' n nodes :=
  ⟨h.1, fun i bn hb => bnWF_mono hj (h.2 i bn hb)⟩

theorem bnWF_congr {jb n : Nat} {b b' : BuildNode} (h : BnWF jb n b) (h1 : b'.parseNodeIndex = b.parseNodeIndex)
    (h2 : b'.containingExpressionJump = b.containingExpressionJump) (h3 : b'.rootEndInstruction = b.rootEndInstruction) :
    BnWF jb n b' := by
  unfold BnWF at *; rw [h1, h2, h3]; exact h

theorem bnWF_new {jb n a c : Nat} (ha : a < n) (hc : c < jb) : BnWF jb n (BuildNode.new a c) :=
  ⟨ha, hc, fun l hl => by simp [BuildNode.new] at hl⟩
theorem bnWF_newWithList {jb n a c : Nat} (p : Nat) (d : Definition) (ha : a < n) (hc : c < jb) :
    BnWF jb n (BuildNode.newWithList a c p d) :=
  ⟨ha, hc, fun l hl => by simp [BuildNode.newWithList, BuildNode.new] at hl⟩
theorem bnWF_newWithConditional {jb n a c : Nat} (p : Nat) (ha : a < n) (hc : c < jb) :
    BnWF jb n (BuildNode.newWithConditional a c p) :=
  ⟨ha, hc, fun l hl => by simp [BuildNode.newWithConditional, BuildNode.new] at hl⟩
theorem bnWF_newWithJump {jb n a c : Nat} (j : Nat) (ha : a < n) (hc : c < jb) : BnWF jb n (BuildNode.newWithJump a c j) :=
  ⟨ha, hc, fun l hl => by simp [BuildNode.newWithJump, BuildNode.new] at hl⟩
theorem bnWF_newWithJumpAndEnd {jb n a c : Nat} (j : Nat) {e : List Instr} (ha : a < n) (hc : c < jb) (he : e ≠ [])
    (hs : EndShape e) (hi : ∀ x, x ∈ e → instrOk jb (#[] : Array (Val Unit)) x = true) :
    BnWF jb n (BuildNode.newWithJumpAndEnd a c j e) :=
  ⟨ha, hc, fun l hl => by
    simp [BuildNode.newWithJumpAndEnd, BuildNode.new] at hl
    subst hl; exact ⟨he, hi, hs⟩⟩

theorem nodesWF_putNode {jb n : Nat} {nodes : Nodes} (h : NodesWF jb n nodes) (i : Nat) {b : BuildNode} (hb : BnWF jb n b) :
    NodesWF jb n (putNode nodes i b) := by
  refine ⟨by simp [putNode, h.1], ?_⟩
  intro k b' hk
  unfold putNode at hk
  rw [Array.getElem?_setIfInBounds] at hk
  split at hk
  · split at hk
    · cases hk; exact hb
    · cases hk
  · exact h.2 k b' hk

/-- `nodes[i] = Some(b)`: the new node only has to be fine when `i` is in range (otherwise the Rust panics) -/
theorem setNodeIdx_wf {jb n : Nat} {nodes : Nodes} (h : NodesWF jb n nodes) (i : Nat) {b : BuildNode} (hb : i < n → BnWF jb n b)
    (site : String) : Sat (NodesWF jb n) (setNodeIdx nodes i b site) := by
  unfold setNodeIdx
  split
  · rename_i hlt
    simp only [sat_ok]
    refine ⟨by simp [h.1], ?_⟩
    intro k b' hk
    rw [Array.getElem?_set] at hk
    split at hk
    · cases hk; exact hb (h.1 ▸ hlt)
    · exact h.2 k b' hk
  · exact sat_panic

theorem getNode_wf {jb n : Nat} {nodes : Nodes} (h : NodesWF jb n nodes) (i : Nat) : Sat (BnWF jb n) (getNode nodes i) := by
  unfold getNode
  split
  · rename_i b hb; simp only [sat_ok]; exact h.2 i b hb
  · exact sat_buildErr


/-! ### the invariant of the inner loop (one root being emitted; `rs` = instruction count when the root started) -/

structure InvH (b : Base) (rs jlo : Nat) (ctx : Ctx F) : Prop where
  data : DataOk b ctx.data.instrs ctx.data.jumps ctx.data.consts ctx.data.metadata
  jok : JOk b.j0 ctx.data.instrs.size (0 < ctx.rootStack.size ∨ ctx.data.instrs.size = rs) ctx.data.jumps
  nodes : NodesWF ctx.data.jumps.size b.n ctx.nodes
  rsLe : rs ≤ ctx.data.instrs.size
  jLe : jlo ≤ ctx.data.jumps.size

macro "arith_tac" : tactic => `(tactic| (
  first
    | omega
    | (simp only [Array.size_push]; omega)
    | (intros; simp only [Array.size_push] at *; omega)))

macro "side_tac" : tactic => `(tactic| (
  first
    | rfl
    | assumption
    | (simp only [metaOk, decide_eq_true_eq]; first | assumption | exact (‹BnWF _ _ _›).1)
    | (simp only [instrOk, *]; done)
    | (simp only [instrOk, *]; simp only [Array.size_push, decide_eq_true_eq]; omega)
    | (simp only [instrOk, opKind, decide_eq_true_eq]; exact (‹BnWF _ _ _›).2.1)
    | (simp [instrOk, opKind, constOk, Array.size_push]; done)
    | (simp [instrOk, opKind, constOk, Array.size_push, *]; done)
    | arith_tac))

macro "data_tac" : tactic => `(tactic| (
  (repeat (first
    | assumption
    | (refine DataOk.pushI ?_ ?_ ?_)
    | (refine DataOk.pushC ?_ ?_)
    | (apply DataOk.pushJ))) <;> side_tac))

macro "jok_tac" : tactic => `(tactic| (
  (repeat (first
    | (refine jOk_push ?_ ?_ ?_)
    | (refine jOk_mono ‹JOk _ _ _ _› ?_ ?_))) <;> arith_tac))

macro "wfbn_put" : tactic => `(tactic| (
  first
    | assumption
    | (apply bnWF_congr (by assumption) <;> rfl)))

macro "wfnodes_tac" : tactic => `(tactic| (
  repeat (first
    | assumption
    | (apply nodesWF_putNode (hb := by wfbn_put)))))

macro "wfbn_new" : tactic => `(tactic| (
  intro hlt;
  first
    | exact bnWF_new hlt (‹BnWF _ _ _›).2.1
    | exact bnWF_newWithList _ _ hlt (‹BnWF _ _ _›).2.1
    | exact bnWF_newWithConditional _ hlt (‹BnWF _ _ _›).2.1))

macro "wf_final" jb:term : tactic => `(tactic| (
  refine InvH.mk ?_ ?_ ?_ ?_ ?_ <;> (try dsimp only) <;>
    first | data_tac | jok_tac | (wfnodes_tac; done) | (refine nodesWF_mono (jb := $jb) ?_ ?_; rotate_left; (· wfnodes_tac; done); arith_tac) | arith_tac))

macro "wf_tac" b:term "," jb:term : tactic => `(tactic| (
  repeat' (first
    | (refine sat_bind (getNode_wf (jb := $jb) (n := Base.n $b) ?_ _) (fun _ _ => ?_); (· wfnodes_tac))
    | (refine sat_bind (setNodeIdx_wf (jb := $jb) (n := Base.n $b) ?_ _ ?_ _) (fun _ _ => ?_); (· wfnodes_tac); (· wfbn_new))
    | exact sat_buildErr
    | exact sat_panic
    | wf_final $jb
    | simp only [bind_ok, bind_assoc]
    | split)))

section handlersWF
variable {b : Base} {rs jlo : Nat} {ctx : Ctx F}

theorem handleUnaryPrefix_wf (h : InvH b rs jlo ctx) {ni : Nat} (hni : ni < b.n) {ins : Instruction} (hk : opKind ins = .free) (pn : ParseNode) :
    Sat (InvH b rs jlo) (handleUnaryPrefix ins ctx ni pn) := by
  obtain ⟨hd, hj, hn, hr, hjl⟩ := h
  unfold handleUnaryPrefix
  try simp only [pushInstr, pushToJumpTable, addConst, parseAddSymbol, getJumpTableLen, getInstructionLen]
  wf_tac b, ctx.data.jumps.size


theorem handleUnarySuffix_wf (h : InvH b rs jlo ctx) {ni : Nat} (hni : ni < b.n) {ins : Instruction} (hk : opKind ins = .free) (pn : ParseNode) :
    Sat (InvH b rs jlo) (handleUnarySuffix ins ctx ni pn) := by
  obtain ⟨hd, hj, hn, hr, hjl⟩ := h
  unfold handleUnarySuffix
  try simp only [pushInstr, pushToJumpTable, addConst, parseAddSymbol, getJumpTableLen, getInstructionLen]
  wf_tac b, ctx.data.jumps.size

theorem handleBinaryOperationWithPush_wf (h : InvH b rs jlo ctx) {ni : Nat} (hni : ni < b.n) {ins : Instruction} (hk : opKind ins = .free) (lr : Bool) (pn : ParseNode) :
    Sat (InvH b rs jlo) (handleBinaryOperationWithPush ins lr ctx ni pn) := by
  obtain ⟨hd, hj, hn, hr, hjl⟩ := h
  unfold handleBinaryOperationWithPush
  try simp only [pushInstr, pushToJumpTable, addConst, parseAddSymbol, getJumpTableLen, getInstructionLen]
  wf_tac b, ctx.data.jumps.size

theorem handleList_wf (h : InvH b rs jlo ctx) {ni : Nat} (hni : ni < b.n)  (pn : ParseNode) :
    Sat (InvH b rs jlo) (handleList  ctx ni pn) := by
  obtain ⟨hd, hj, hn, hr, hjl⟩ := h
  unfold handleList
  try simp only [pushInstr, pushToJumpTable, addConst, parseAddSymbol, getJumpTableLen, getInstructionLen]
  wf_tac b, ctx.data.jumps.size

theorem handleGroup_wf (h : InvH b rs jlo ctx) {ni : Nat} (hni : ni < b.n)  (pn : ParseNode) :
    Sat (InvH b rs jlo) (handleGroup  ctx ni pn) := by
  obtain ⟨hd, hj, hn, hr, hjl⟩ := h
  unfold handleGroup
  try simp only [pushInstr, pushToJumpTable, addConst, parseAddSymbol, getJumpTableLen, getInstructionLen]
  wf_tac b, ctx.data.jumps.size

theorem handleSideEffect_wf (h : InvH b rs jlo ctx) {ni : Nat} (hni : ni < b.n)  (pn : ParseNode) :
    Sat (InvH b rs jlo) (handleSideEffect  ctx ni pn) := by
  obtain ⟨hd, hj, hn, hr, hjl⟩ := h
  unfold handleSideEffect
  try simp only [pushInstr, pushToJumpTable, addConst, parseAddSymbol, getJumpTableLen, getInstructionLen]
  wf_tac b, ctx.data.jumps.size

theorem handleReapply_wf (h : InvH b rs jlo ctx) {ni : Nat} (hni : ni < b.n)  (pn : ParseNode) :
    Sat (InvH b rs jlo) (handleReapply  ctx ni pn) := by
  obtain ⟨hd, hj, hn, hr, hjl⟩ := h
  unfold handleReapply
  try simp only [pushInstr, pushToJumpTable, addConst, parseAddSymbol, getJumpTableLen, getInstructionLen]
  wf_tac b, ctx.data.jumps.size

theorem handleSubexpression_wf (h : InvH b rs jlo ctx) {ni : Nat} (hni : ni < b.n)  (pn : ParseNode) :
    Sat (InvH b rs jlo) (handleSubexpression  ctx ni pn) := by
  obtain ⟨hd, hj, hn, hr, hjl⟩ := h
  unfold handleSubexpression
  try simp only [pushInstr, pushToJumpTable, addConst, parseAddSymbol, getJumpTableLen, getInstructionLen]
  wf_tac b, ctx.data.jumps.size

theorem handleInfixApply_wf (h : InvH b rs jlo ctx) {ni : Nat} (hni : ni < b.n)  (pn : ParseNode) :
    Sat (InvH b rs jlo) (handleInfixApply  ctx ni pn) := by
  obtain ⟨hd, hj, hn, hr, hjl⟩ := h
  unfold handleInfixApply
  try simp only [pushInstr, pushToJumpTable, addConst, parseAddSymbol, getJumpTableLen, getInstructionLen]
  wf_tac b, ctx.data.jumps.size

theorem handleUnaryFixApply_wf (h : InvH b rs jlo ctx) {ni : Nat} (hni : ni < b.n) (child : Option Nat) (pn : ParseNode) :
    Sat (InvH b rs jlo) (handleUnaryFixApply child ctx ni pn) := by
  obtain ⟨hd, hj, hn, hr, hjl⟩ := h
  unfold handleUnaryFixApply
  try simp only [pushInstr, pushToJumpTable, addConst, parseAddSymbol, getJumpTableLen, getInstructionLen]
  wf_tac b, ctx.data.jumps.size


theorem handleNestedExpression_wf (h : InvH b rs jlo ctx) {ni : Nat} (hni : ni < b.n) {crj : Nat} (hcrj : crj < ctx.data.jumps.size)
    (pn : ParseNode) : Sat (InvH b rs jlo) (handleNestedExpression ctx crj ni pn) := by
  obtain ⟨hd, hj, hn, hr, hjl⟩ := h
  unfold handleNestedExpression
  split
  · -- commit df89d39: the constant names the containing expression of the build node (a valid jump entry by `NodesWF`)
    have key : ∀ cj : Nat, cj < ctx.data.jumps.size → Sat (InvH b rs jlo) (Outcome.ok ({ ctx with
        data := pushInstr (addConst ctx.data (Val.expr cj)).1 Instruction.put (some (addConst ctx.data (Val.expr cj)).2)
          (some ni) } : Ctx F)) := by
      intro cj hc
      simp only [pushInstr, pushToJumpTable, addConst, getJumpTableLen]
      wf_final ctx.data.jumps.size
    refine key _ ?_
    split
    · rename_i node hnode; exact (hn.2 ni node hnode).2.1
    · exact hcrj
  · simp only [pushInstr, pushToJumpTable, addConst, getJumpTableLen]
    have hn' := nodesWF_mono (jb' := ctx.data.jumps.size + 1) (by omega) hn
    refine sat_bind (setNodeIdx_wf hn' _ (fun hlt => bnWF_newWithJump _ hlt (by omega)) _) (fun nodes hnodes => ?_)
    have hnodes' : NodesWF (ctx.data.jumps.push 0).size b.n nodes := by simpa using hnodes
    wf_final ctx.data.jumps.size

theorem handleLogicalBinary_wf (h : InvH b rs jlo ctx) {ni : Nat} (hni : ni < b.n) {ins : Instruction} (hk : opKind ins = .jump)
    (pn : ParseNode) : Sat (InvH b rs jlo) (handleLogicalBinary ins ctx ni pn) := by
  obtain ⟨hd, hj, hn, hr, hjl⟩ := h
  unfold handleLogicalBinary
  simp only [pushInstr, pushToJumpTable, getJumpTableLen, getInstructionLen]
  refine sat_bind (getNode_wf hn _) (fun node hnode => ?_)
  split
  · wf_tac b, ctx.data.jumps.size
  · split
    · exact sat_buildErr
    · have hn' := nodesWF_mono (jb' := ctx.data.jumps.size + 2) (by omega) hn
      have hc := hnode.2.1
      refine sat_bind (setNodeIdx_wf hn' _ (fun hlt => bnWF_newWithJumpAndEnd _ hlt (by omega) (by simp)
        (Or.inr ⟨[(.tis, none)], _, rfl⟩) ?_) _) (fun nodes hnodes => ?_)
      · intro x hx
        simp only [List.mem_cons, List.mem_append, List.mem_nil_iff, or_false, false_or] at hx
        rcases hx with hx | hx <;> subst hx <;> simp [instrOk, opKind, Array.size_push]
      · have hnodes' : NodesWF ((ctx.data.jumps.push 0).push (ctx.data.instrs.push (ins, some ctx.data.jumps.size)).size).size b.n nodes := by
          simpa using hnodes
        wf_final ctx.data.jumps.size

theorem handleJumpIf_wf (h : InvH b rs jlo ctx) {ni : Nat} (hni : ni < b.n) {ins : Instruction} (hk : opKind ins = .jump)
    (pn : ParseNode) : Sat (InvH b rs jlo) (handleJumpIf ins ctx ni pn) := by
  obtain ⟨hd, hj, hn, hr, hjl⟩ := h
  unfold handleJumpIf
  simp only [pushInstr, pushToJumpTable, getJumpTableLen, getInstructionLen]
  refine sat_bind (getNode_wf hn _) (fun node hnode => ?_)
  split
  · wf_tac b, ctx.data.jumps.size
  · split
    · exact sat_buildErr
    · split
      · split
        · rename_i parent hparent
          have hp : BnWF ctx.data.jumps.size b.n parent := hn.2 _ _ hparent
          wf_final ctx.data.jumps.size
        · wf_final ctx.data.jumps.size
      · have hn' := nodesWF_mono (jb' := ctx.data.jumps.size + 2) (by omega) hn
        have hc := hnode.2.1
        refine sat_bind (setNodeIdx_wf hn' _ (fun hlt => bnWF_newWithJumpAndEnd _ hlt (by omega) (by simp)
          (Or.inr ⟨[], _, rfl⟩) ?_) _) (fun nodes hnodes => ?_)
        · intro x hx
          simp only [List.mem_cons, List.mem_append, List.mem_nil_iff, or_false, false_or] at hx
          subst hx; simp [instrOk, opKind, Array.size_push]
        · have hnodes' : NodesWF ((ctx.data.jumps.push 0).push
              ((ctx.data.instrs.push (ins, some ctx.data.jumps.size)).push (.putValue, none)).size).size b.n nodes := by
            simpa using hnodes
          wf_final ctx.data.jumps.size


theorem elseJumpItems_wf {jb n : Nat} (containing jumpToIndex : Nat) (hc : containing < jb) (hj : jumpToIndex < jb) :
    ∀ (items : List ConditionItem) (rootStack : Array Nat) (newItems : Array (Nat × BuildNode)),
      (∀ p, p ∈ newItems.toList → p.1 < n → BnWF jb n p.2) →
      (∀ p, p ∈ (elseJumpItems containing jumpToIndex items rootStack newItems).2.toList → p.1 < n → BnWF jb n p.2) ∧
      (elseJumpItems containing jumpToIndex items rootStack newItems).1.size = rootStack.size + items.length := by
  intro items
  induction items with
  | nil => intro rs ni h2; exact ⟨by simpa [elseJumpItems] using h2, by simp [elseJumpItems]⟩
  | cons c rest ih =>
    intro rs ni h2
    simp only [elseJumpItems]
    have := ih (rs.push c.nodeIndex) (ni.push (c.nodeIndex,
      BuildNode.newWithJumpAndEnd c.nodeIndex containing c.jumpIndexToUpdate [(.jumpTo, some jumpToIndex)])) (by
        intro p hp hlt
        simp only [Array.toList_push, List.mem_append, List.mem_singleton] at hp
        rcases hp with hp | hp
        · exact h2 p hp hlt
        · subst hp
          refine bnWF_newWithJumpAndEnd _ hlt hc (by simp) (Or.inr ⟨[], _, rfl⟩) ?_
          intro x hx
          simp only [List.mem_cons, List.mem_nil_iff, or_false] at hx
          subst hx
          simp [instrOk, opKind, hj])
    refine ⟨this.1, ?_⟩
    rw [this.2]
    simp only [Array.size_push, List.length_cons]
    omega

theorem assignNewItems_wf {jb n : Nat} : ∀ (items : List (Nat × BuildNode)) (nodes : Nodes), NodesWF jb n nodes →
    (∀ p, p ∈ items → p.1 < n → BnWF jb n p.2) → Sat (NodesWF jb n) (assignNewItems nodes items) := by
  intro items
  induction items with
  | nil => intro nodes hn _; simpa [assignNewItems] using hn
  | cons p rest ih =>
    intro nodes hn hp
    obtain ⟨index, bn⟩ := p
    simp only [assignNewItems]
    refine sat_bind (setNodeIdx_wf hn _ (hp (index, bn) List.mem_cons_self) _) (fun nodes' hn' => ?_)
    exact ih nodes' hn' (fun q hq => hp q (List.mem_cons_of_mem _ hq))

theorem handleElseJump_wf (h : InvH b rs jlo ctx) {ni : Nat} (hni : ni < b.n) (pn : ParseNode) :
    Sat (InvH b rs jlo) (handleElseJump ctx ni pn) := by
  obtain ⟨hd, hj, hn, hr, hjl⟩ := h
  unfold handleElseJump
  simp only [pushInstr, pushToJumpTable, getJumpTableLen, getInstructionLen]
  refine sat_bind (getNode_wf hn _) (fun node hnode => ?_)
  split
  · wf_tac b, ctx.data.jumps.size
  · split
    · wf_final ctx.data.jumps.size
    · split
      · rename_i hpos
        generalize heq : elseJumpItems node.containingExpressionJump ctx.data.jumps.size
          node.conditionalItems.toList ctx.rootStack #[] = r
        obtain ⟨rootStack, newItems⟩ := r
        dsimp only
        have hn' := nodesWF_mono (jb' := ctx.data.jumps.size + 1) (by omega) hn
        have hc := hnode.2.1
        have key := elseJumpItems_wf (jb := ctx.data.jumps.size + 1) (n := b.n) node.containingExpressionJump ctx.data.jumps.size
          (by omega) (by omega) node.conditionalItems.toList ctx.rootStack #[] (by simp)
        rw [heq] at key
        have hrs : 0 < rootStack.size := by
          have := key.2
          simp only [Array.length_toList] at this
          omega
        refine sat_bind (assignNewItems_wf _ _ hn' key.1) (fun nodes hnodes => ?_)
        have hnodes' : NodesWF (ctx.data.jumps.push ctx.data.instrs.size).size b.n nodes := by simpa using hnodes
        wf_final ctx.data.jumps.size
      · wf_final ctx.data.jumps.size

/-! value arms -/

/-- what an `add_fn` closure does to the state: nothing, or one more constant that is not an expression; and the
operand it returns suits the instruction it is used with -/
def AddOk (ins : Instruction) (addFn : AddFn F) : Prop :=
  ∀ (d : BState F) (pn : ParseNode), Sat (fun r =>
    instrOk r.1.jumps.size r.1.consts (ins, r.2) = true ∧
    (r.1 = d ∨ ∃ v, constOk 0 v = true ∧ r.1 = { d with consts := d.consts.push v })) (addFn d pn)

theorem constOk_zero {v : Val F} (h : constOk 0 v = true) (jb : Nat) : constOk jb v = true := constOk_mono (Nat.zero_le _) h

theorem handleValueLike_wf (h : InvH b rs jlo ctx) {ni : Nat} (hni : ni < b.n) {ins : Instruction} {addFn : AddFn F}
    (ha : AddOk ins addFn) (pn : ParseNode) : Sat (InvH b rs jlo) (handleValueLike addFn ins ctx ni pn) := by
  obtain ⟨hd, hj, hn, hr, hjl⟩ := h
  unfold handleValueLike
  simp only [pushInstr]
  refine sat_bind (getNode_wf hn _) (fun node hnode => ?_)
  split
  · wf_tac b, ctx.data.jumps.size
  · refine sat_bind (ha ctx.data pn) (fun r hr' => ?_)
    obtain ⟨data, o⟩ := r
    obtain ⟨hi, hcase⟩ := hr'
    dsimp only at hi hcase ⊢
    rcases hcase with hcase | ⟨v, hv, hcase⟩
    · subst hcase
      wf_final data.jumps.size
    · subst hcase
      dsimp only at hi ⊢
      have hv' := constOk_zero hv ctx.data.jumps.size
      wf_final ctx.data.jumps.size


/-- an `add_fn` of `handle_value_primitive`: appends exactly one constant that is not an expression and returns its index -/
def Add1 (addFn : BState F → ParseNode → Outcome (BState F × Nat)) : Prop :=
  ∀ (d : BState F) (pn : ParseNode), Sat (fun r => ∃ v, constOk 0 v = true ∧
    r = (({ d with consts := d.consts.push v } : BState F), d.consts.size)) (addFn d pn)

theorem handleValuePrimitive_wf (h : InvH b rs jlo ctx) {ni : Nat} (hni : ni < b.n)
    {addFn : BState F → ParseNode → Outcome (BState F × Nat)} (ha : Add1 addFn) (pn : ParseNode) :
    Sat (InvH b rs jlo) (handleValuePrimitive addFn ctx ni pn) := by
  unfold handleValuePrimitive
  apply handleValueLike_wf h hni
  intro d pn
  refine sat_bind (ha d pn) (fun r hr => ?_)
  obtain ⟨v, hv, hr⟩ := hr
  subst hr
  simp only [sat_ok]
  exact ⟨by simp [instrOk, opKind], Or.inr ⟨v, hv, rfl⟩⟩

theorem handleBinaryOperation_wf (h : InvH b rs jlo ctx) {ni : Nat} (hni : ni < b.n) {ins : Instruction} (hk : opKind ins = .free)
    (pn : ParseNode) : Sat (InvH b rs jlo) (handleBinaryOperation ins ctx ni pn) :=
  handleBinaryOperationWithPush_wf h hni hk false pn

theorem addUnit_add1 : Add1 (addUnit : BState F → ParseNode → Outcome (BState F × Nat)) := fun _ _ => ⟨.unit, rfl, rfl⟩
theorem addFalse_add1 : Add1 (addFalse : BState F → ParseNode → Outcome (BState F × Nat)) := fun _ _ => ⟨.fls, rfl, rfl⟩
theorem addTrue_add1 : Add1 (addTrue : BState F → ParseNode → Outcome (BState F × Nat)) := fun _ _ => ⟨.tru, rfl, rfl⟩

variable (parseFloat : List Char → Option F)

theorem parseAddNumber_add1 : Add1 (parseAddNumber parseFloat) := by
  intro d pn
  unfold parseAddNumber
  exact sat_bind sat_true (fun n _ => ⟨.num n, rfl, rfl⟩)
theorem parseAddCharList_add1 : Add1 (parseAddCharList parseFloat) := by
  intro d pn
  unfold parseAddCharList
  exact sat_bind sat_true (fun n _ => ⟨.chars _, rfl, rfl⟩)
theorem parseAddByteList_add1 : Add1 (parseAddByteList parseFloat) := by
  intro d pn
  unfold parseAddByteList
  exact sat_bind sat_true (fun n _ => ⟨.bytes _, rfl, rfl⟩)
theorem parseAddSymbolLiteral_add1 : Add1 (parseAddSymbolLiteral : BState F → ParseNode → Outcome (BState F × Nat)) := by
  intro d pn
  unfold parseAddSymbolLiteral
  split
  · exact sat_panic
  · exact ⟨.sym _, rfl, rfl⟩

theorem parseAddSymbolText_addOk_resolve : AddOk .resolve (parseAddSymbolText : AddFn F) := by
  intro d pn
  simp only [parseAddSymbolText, parseAddSymbol, addConst, sat_ok]
  exact ⟨by simp [instrOk, opKind], Or.inr ⟨.sym _, rfl, rfl⟩⟩
theorem parseAddSymbolText_addOk_put : AddOk .put (parseAddSymbolText : AddFn F) := by
  intro d pn
  simp only [parseAddSymbolText, parseAddSymbol, addConst, sat_ok]
  exact ⟨by simp [instrOk, opKind], Or.inr ⟨.sym _, rfl, rfl⟩⟩
theorem noOperand_addOk {ins : Instruction} (hk : opKind ins = .free) :
    AddOk ins (fun (data : BState F) (_ : ParseNode) => Outcome.ok (data, (none : Option Nat))) := by
  intro d pn
  show _ ∧ _
  exact ⟨by simp [instrOk, hk], Or.inl rfl⟩

theorem handleParseNode_wf (h : InvH b rs jlo ctx) {ni : Nat} (hni : ni < b.n) {crj : Nat} (hcrj : crj < ctx.data.jumps.size)
    (pn : ParseNode) : Sat (InvH b rs jlo) (handleParseNode parseFloat ctx crj ni pn) := by
  unfold handleParseNode
  split
  · exact handleValuePrimitive_wf h hni addUnit_add1 pn
  · exact handleValuePrimitive_wf h hni addFalse_add1 pn
  · exact handleValuePrimitive_wf h hni addTrue_add1 pn
  · exact handleValuePrimitive_wf h hni (parseAddNumber_add1 parseFloat) pn
  · exact handleValuePrimitive_wf h hni (parseAddCharList_add1 parseFloat) pn
  · exact handleValuePrimitive_wf h hni (parseAddByteList_add1 parseFloat) pn
  · exact handleValuePrimitive_wf h hni parseAddSymbolLiteral_add1 pn
  · exact handleValueLike_wf h hni (noOperand_addOk rfl) pn
  · exact handleValueLike_wf h hni parseAddSymbolText_addOk_resolve pn
  · exact handleValueLike_wf h hni parseAddSymbolText_addOk_put pn
  · exact handleValueLike_wf h hni (noOperand_addOk rfl) pn
  · exact handleUnaryPrefix_wf h hni rfl pn
  · exact handleUnaryPrefix_wf h hni rfl pn
  · exact handleUnaryPrefix_wf h hni rfl pn
  · exact handleUnaryPrefix_wf h hni rfl pn
  · exact handleUnaryPrefix_wf h hni rfl pn
  · exact handleUnaryPrefix_wf h hni rfl pn
  · exact handleUnaryPrefix_wf h hni rfl pn
  · exact handleUnarySuffix_wf h hni rfl pn
  · exact handleUnarySuffix_wf h hni rfl pn
  · exact handleUnarySuffix_wf h hni rfl pn
  · exact handleBinaryOperation_wf h hni rfl pn
  · exact handleBinaryOperation_wf h hni rfl pn
  · exact handleBinaryOperation_wf h hni rfl pn
  · exact handleBinaryOperation_wf h hni rfl pn
  · exact handleBinaryOperation_wf h hni rfl pn
  · exact handleBinaryOperation_wf h hni rfl pn
  · exact handleBinaryOperation_wf h hni rfl pn
  · exact handleBinaryOperation_wf h hni rfl pn
  · exact handleBinaryOperation_wf h hni rfl pn
  · exact handleBinaryOperation_wf h hni rfl pn
  · exact handleBinaryOperation_wf h hni rfl pn
  · exact handleBinaryOperation_wf h hni rfl pn
  · exact handleBinaryOperation_wf h hni rfl pn
  · exact handleBinaryOperation_wf h hni rfl pn
  · exact handleBinaryOperation_wf h hni rfl pn
  · exact handleBinaryOperation_wf h hni rfl pn
  · exact handleBinaryOperation_wf h hni rfl pn
  · exact handleBinaryOperation_wf h hni rfl pn
  · exact handleBinaryOperation_wf h hni rfl pn
  · exact handleBinaryOperation_wf h hni rfl pn
  · exact handleBinaryOperation_wf h hni rfl pn
  · exact handleBinaryOperation_wf h hni rfl pn
  · exact handleBinaryOperation_wf h hni rfl pn
  · exact handleBinaryOperation_wf h hni rfl pn
  · exact handleBinaryOperation_wf h hni rfl pn
  · exact handleBinaryOperation_wf h hni rfl pn
  · exact handleBinaryOperation_wf h hni rfl pn
  · exact handleBinaryOperation_wf h hni rfl pn
  · exact handleBinaryOperation_wf h hni rfl pn
  · exact handleBinaryOperationWithPush_wf h hni rfl _ pn
  · exact handleBinaryOperationWithPush_wf h hni rfl _ pn
  · exact handleList_wf h hni pn
  · exact handleList_wf h hni pn
  · exact handleLogicalBinary_wf h hni rfl pn
  · exact handleLogicalBinary_wf h hni rfl pn
  · exact handleGroup_wf h hni pn
  · exact handleSideEffect_wf h hni pn
  · exact handleNestedExpression_wf h hni hcrj pn
  · exact handleJumpIf_wf h hni rfl pn
  · exact handleJumpIf_wf h hni rfl pn
  · exact handleElseJump_wf h hni pn
  · exact handleReapply_wf h hni pn
  · exact handleSubexpression_wf h hni pn
  · exact handleSubexpression_wf h hni pn
  · exact handleUnaryFixApply_wf h hni _ pn
  · exact handleUnaryFixApply_wf h hni _ pn
  · exact handleInfixApply_wf h hni pn
  · exact sat_buildErr


/-! ### the loops -/

theorem afterHandle_wf {jb n : Nat} {nodes : Nodes} (hn : NodesWF jb n nodes) (ni : Nat) : Sat (NodesWF jb n) (afterHandle nodes ni) := by
  unfold afterHandle
  split
  · rename_i node hnode
    have hb : BnWF jb n node := hn.2 _ _ hnode
    split
    · split
      · have h1 : NodesWF jb n (putNode nodes ni { node with contributesToList := false }) :=
          nodesWF_putNode hn _ (bnWF_congr hb rfl rfl rfl)
        refine sat_bind (getNode_wf h1 _) (fun parentNode hp => ?_)
        exact nodesWF_putNode h1 _ (bnWF_congr hp rfl rfl rfl)
      · exact hn
    · exact hn
  · exact hn

theorem getElem?_some_lt {α : Type} {a : Array α} {i : Nat} {x : α} (h : a[i]? = some x) : i < a.size := by
  rcases Nat.lt_or_ge i a.size with h1 | h1
  · exact h1
  · rw [Array.getElem?_eq_none h1] at h; cases h

theorem innerLoop_wf (parseTree : Array ParseNode) (hb : b.n = parseTree.size) {crj : Nat} (hcrj : crj < jlo) :
    ∀ (stepFuel : Nat) (ctx : Ctx F), InvH b rs jlo ctx →
      Sat (fun r => InvH b rs jlo r.1) (innerLoop parseFloat parseTree crj stepFuel ctx) := by
  intro stepFuel
  induction stepFuel with
  | zero => intro ctx _; exact sat_fuelOut
  | succ k ih =>
    intro ctx h
    unfold innerLoop
    split
    · exact h
    · split
      · exact sat_buildErr
      · rename_i pn hpn
        have h' : InvH b rs jlo ({ ctx with stack := ctx.stack.pop } : Ctx F) := ⟨h.data, h.jok, h.nodes, h.rsLe, h.jLe⟩
        have hni := hb ▸ getElem?_some_lt hpn
        have hc : crj < ({ ctx with stack := ctx.stack.pop } : Ctx F).data.jumps.size := Nat.lt_of_lt_of_le hcrj h.jLe
        refine sat_bind (handleParseNode_wf parseFloat h' hni hc pn) (fun ctx1 h1 => ?_)
        refine sat_bind (afterHandle_wf h1.nodes _) (fun nodes hnodes => ?_)
        exact ih _ ⟨h1.data, h1.jok, hnodes, h1.rsLe, h1.jLe⟩

/-- the stream ends in `EndExpression` or `JumpTo` -/
def EndsInTerm (d : BState F) : Prop := ∃ i, d.instrs.back? = some i ∧ isTerminator i = true

/-- the invariant at the head of the outer loop -/
structure InvR (b : Base) (ctx : Ctx F) : Prop where
  data : DataOk b ctx.data.instrs ctx.data.jumps ctx.data.consts ctx.data.metadata
  jok : JOk b.j0 ctx.data.instrs.size (0 < ctx.rootStack.size) ctx.data.jumps
  nodes : NodesWF (max ctx.data.jumps.size (b.j0 + 1)) b.n ctx.nodes
  first : b.j0 < ctx.data.jumps.size ∨
    ∃ r bn, ctx.rootStack.back? = some r ∧ ctx.nodes[r]? = some (some bn) ∧ bn.jumpIndexToUpdate = none
  jlo : b.j0 ≤ ctx.data.jumps.size
  term : EndsInTerm ctx.data ∨ ∃ r, ctx.rootStack.back? = some r

/-- what `rootJump` establishes -/
structure RootJumpPost (b : Base) (d0 : BState F) (r : BState F × Nat) : Prop where
  dataOk : DataOk b r.1.instrs r.1.jumps r.1.consts r.1.metadata
  jok : JOk b.j0 r.1.instrs.size True r.1.jumps
  crj : r.2 < r.1.jumps.size
  j0 : b.j0 < r.1.jumps.size
  instrsEq : r.1.instrs = d0.instrs
  mono : d0.jumps.size ≤ r.1.jumps.size

theorem rootJump_wf {data : BState F} {nodes : Nodes} {p : Prop}
    (hd : DataOk b data.instrs data.jumps data.consts data.metadata) (hj : JOk b.j0 data.instrs.size p data.jumps)
    (hjlo : b.j0 ≤ data.jumps.size) (rootIndex : Nat)
    (hfirst : b.j0 < data.jumps.size ∨ ∃ bn, nodes[rootIndex]? = some (some bn) ∧ bn.jumpIndexToUpdate = none) :
    Sat (RootJumpPost b data) (rootJump data nodes rootIndex) := by
  have hj' : JOk b.j0 data.instrs.size True data.jumps := jOk_mono hj (Nat.le_refl _) (fun _ _ => trivial)
  have pushNew : RootJumpPost b data (pushToJumpTable data (getInstructionLen data), getJumpTableLen data) := by
    simp only [pushToJumpTable, getInstructionLen, getJumpTableLen]
    exact ⟨hd.pushJ _, jOk_push hj' (Nat.le_refl _) (fun _ => trivial), by simp, by simp only [Array.size_push]; omega, rfl,
      by simp⟩
  unfold rootJump
  dsimp only
  split
  · rename_i node hnode
    split
    · rename_i index hidx
      split
      · rename_i data' hset
        unfold setJump? at hset
        split at hset
        · rename_i hlt
          cases hset
          simp only [sat_ok, getInstructionLen]
          refine ⟨hd.setJ _ _ hlt, jOk_set hj' _ hlt trivial, by simpa using hlt, ?_, rfl, by simp⟩
          rcases hfirst with h1 | ⟨bn, h1, h2⟩
          · simpa using h1
          · rw [hnode] at h1
            cases h1
            rw [hidx] at h2
            cases h2
        · cases hset
      · exact sat_buildErr
    · exact pushNew
  · exact pushNew

/-- one element of the `for end_instruction in end_instructions` loop -/
def peStep (last : Option Instr) (rs : Nat) (d : BState F) (e : Instr) : BState F :=
  match last with
  | some instruction =>
    if instruction = e ∧ e.1 = .endExpression ∧ getInstructionLen d > rs then d
    else pushInstr d e.1 e.2 none
  | none => pushInstr d e.1 e.2 none

theorem pushEndInstructions_cons (last : Option Instr) (rs : Nat) (d : BState F) (e : Instr) (rest : List Instr) :
    pushEndInstructions last rs d (e :: rest) = pushEndInstructions last rs (peStep last rs d e) rest := rfl

theorem peStep_wf (last : Option Instr) (rs : Nat) (d : BState F) (e : Instr)
    (hd : DataOk b d.instrs d.jumps d.consts d.metadata) (he : instrOk d.jumps.size d.consts e = true) :
    DataOk b (peStep last rs d e).instrs (peStep last rs d e).jumps (peStep last rs d e).consts (peStep last rs d e).metadata ∧
    (peStep last rs d e).jumps = d.jumps ∧ (peStep last rs d e).consts = d.consts ∧
    d.instrs.size ≤ (peStep last rs d e).instrs.size ∧ (rs ≤ d.instrs.size → rs < (peStep last rs d e).instrs.size) := by
  have hpush : DataOk b (pushInstr d e.1 e.2 none).instrs (pushInstr d e.1 e.2 none).jumps (pushInstr d e.1 e.2 none).consts
      (pushInstr d e.1 e.2 none).metadata := by
    simp only [pushInstr]
    exact hd.pushI he rfl
  unfold peStep
  split
  · split
    · rename_i hc
      exact ⟨hd, rfl, rfl, Nat.le_refl _, fun _ => hc.2.2⟩
    · exact ⟨hpush, rfl, rfl, by simp [pushInstr], fun h => by simp only [pushInstr, Array.size_push]; omega⟩
  · exact ⟨hpush, rfl, rfl, by simp [pushInstr], fun h => by simp only [pushInstr, Array.size_push]; omega⟩

/-- `pushEndInstructions`: only instructions (with `None` metadata) are appended; at least one instruction exists
    after `rootStart` afterwards (commit 3cee692) -/
theorem pushEndInstructions_wf (last : Option Instr) (rs : Nat) : ∀ (l : List Instr) (d : BState F),
    DataOk b d.instrs d.jumps d.consts d.metadata → (∀ e, e ∈ l → instrOk d.jumps.size d.consts e = true) →
    DataOk b (pushEndInstructions last rs d l).instrs (pushEndInstructions last rs d l).jumps
      (pushEndInstructions last rs d l).consts (pushEndInstructions last rs d l).metadata ∧
    (pushEndInstructions last rs d l).jumps = d.jumps ∧
    d.instrs.size ≤ (pushEndInstructions last rs d l).instrs.size ∧
    (l ≠ [] → rs ≤ d.instrs.size → rs < (pushEndInstructions last rs d l).instrs.size) := by
  intro l
  induction l with
  | nil => intro d hd _; exact ⟨hd, rfl, Nat.le_refl _, fun h => absurd rfl h⟩
  | cons e rest ih =>
    intro d hd he
    rw [pushEndInstructions_cons]
    obtain ⟨h1a, h1b, h1c, h1d, h1e⟩ := peStep_wf last rs d e hd (he e List.mem_cons_self)
    have := ih (peStep last rs d e) h1a (fun x hx => by rw [h1b, h1c]; exact he x (List.mem_cons_of_mem _ hx))
    obtain ⟨i1, i2, i3, _⟩ := this
    refine ⟨i1, by rw [i2, h1b], by omega, fun _ hrs => ?_⟩
    have := h1e hrs
    omega

theorem term_pushInstr (d : BState F) (e : Instr) (he : isTerminator e = true) : EndsInTerm (pushInstr d e.1 e.2 none) :=
  ⟨e, by simp [pushInstr], he⟩

theorem pushEndInstructions_append (last : Option Instr) (rs : Nat) : ∀ (init : List Instr) (d : BState F) (e : Instr),
    pushEndInstructions last rs d (init ++ [e]) = peStep last rs (pushEndInstructions last rs d init) e := by
  intro init
  induction init with
  | nil => intro d e; rfl
  | cons x rest ih => intro d e; simp only [List.cons_append, pushEndInstructions_cons]; exact ih _ e

/-- commit 7afc7c5: only an `EndExpression` already at the end may stand in for the terminator, so after the loop
over a well-shaped terminator list the stream ends in a terminator -/
theorem pushEndInstructions_term (rs : Nat) (d : BState F) {l : List Instr} (hl : EndShape l) :
    EndsInTerm (pushEndInstructions d.instrs.back? rs d l) := by
  rcases hl with hl | ⟨init, j, hl⟩
  · subst hl
    show EndsInTerm (peStep d.instrs.back? rs d (.endExpression, none))
    unfold peStep
    split
    · rename_i instr hlast
      split
      · rename_i hc
        exact ⟨instr, hlast, by rw [hc.1]; rfl⟩
      · exact term_pushInstr d _ rfl
    · exact term_pushInstr d _ rfl
  · subst hl
    rw [pushEndInstructions_append]
    unfold peStep
    split
    · split
      · rename_i hc
        exact absurd hc.2.1 (by simp)
      · exact term_pushInstr _ _ rfl
    · exact term_pushInstr _ _ rfl

theorem last_eq_back {α : Type} (a : Array α) : (if (a.size == 0) = true then none else a[a.size - 1]?) = a.back? := by
  unfold Array.back?
  split
  · rename_i h
    have : a.size = 0 := by simpa using h
    simp [this]
  · rfl

theorem back_none_size {α : Type} {a : Array α} (h : a.back? = none) : a.size = 0 := by
  rcases Nat.eq_zero_or_pos a.size with h0 | h0
  · exact h0
  · have : a.back? = some a[a.size - 1] := by
      simp [Array.back?, Array.getElem?_eq_getElem (show a.size - 1 < a.size by omega)]
    rw [this] at h; cases h

theorem rootLoop_wf (parseTree : Array ParseNode) (hb : b.n = parseTree.size) :
    ∀ (rootFuel stepFuel : Nat) (ctx : Ctx F), InvR b ctx →
      Sat (fun c => InvR b c ∧ c.rootStack.back? = none) (Garnish.Model.Build.rootLoop parseFloat parseTree rootFuel stepFuel ctx) := by
  intro rootFuel
  induction rootFuel with
  | zero => intro _ ctx _; exact sat_fuelOut
  | succ k ih =>
    intro stepFuel ctx h
    unfold Garnish.Model.Build.rootLoop
    split
    · rename_i hnone; exact ⟨h, hnone⟩
    · rename_i rootIndex hback
      dsimp only
      have hfirst : b.j0 < ctx.data.jumps.size ∨ ∃ bn, ctx.nodes[rootIndex]? = some (some bn) ∧ bn.jumpIndexToUpdate = none := by
        rcases h.first with h1 | ⟨r, bn, h1, h2, h3⟩
        · exact Or.inl h1
        · rw [hback] at h1; cases h1; exact Or.inr ⟨bn, h2, h3⟩
      refine sat_bind (rootJump_wf h.data h.jok h.jlo rootIndex hfirst) (fun r hr => ?_)
      obtain ⟨data, crj⟩ := r
      obtain ⟨r1, r2, r3, r4, r5, r6⟩ := hr
      dsimp only at r1 r2 r3 r4 r5 r6 ⊢
      -- the invariant of the inner loop, with rs = the instruction count now and jlo = max crj j0 + 1
      have hmax : max ctx.data.jumps.size (b.j0 + 1) ≤ data.jumps.size := by omega
      have hinv : InvH b (getInstructionLen data) (max crj b.j0 + 1)
          ({ data := data, nodes := ctx.nodes, rootStack := ctx.rootStack.pop, stack := #[rootIndex] } : Ctx F) :=
        ⟨r1, jOk_mono r2 (Nat.le_refl _) (fun _ _ => Or.inr rfl), nodesWF_mono hmax h.nodes, Nat.le_refl _, by
          show max crj b.j0 + 1 ≤ data.jumps.size
          omega⟩
      refine sat_bind (innerLoop_wf parseFloat parseTree hb (by omega) stepFuel _ hinv) (fun r2 h2 => ?_)
      obtain ⟨ctx2, fuel2⟩ := r2
      dsimp only at h2 ⊢
      -- the terminators
      have key : ∀ (last : Option Instr) (endL : List Instr),
          (∀ e, e ∈ endL → instrOk ctx2.data.jumps.size ctx2.data.consts e = true) → endL ≠ [] →
          last = ctx2.data.instrs.back? → EndShape endL →
          Sat (fun c => InvR b c ∧ c.rootStack.back? = none)
            (Garnish.Model.Build.rootLoop parseFloat parseTree k fuel2
              { ctx2 with data := pushEndInstructions last (getInstructionLen data) ctx2.data endL }) := by
        intro last endL hend hne hlast hshape
        have hterm : EndsInTerm (pushEndInstructions last (getInstructionLen data) ctx2.data endL) := by
          rw [hlast]; exact pushEndInstructions_term _ _ hshape
        obtain ⟨p1, p2, p3, p4⟩ := pushEndInstructions_wf (b := b) last (getInstructionLen data) endL ctx2.data h2.data hend
        have p4' := p4 hne h2.rsLe
        apply ih
        have hj0 : b.j0 < ctx2.data.jumps.size := by
          have := h2.jLe
          omega
        refine ⟨p1, ?_, ?_, Or.inl (by dsimp only; rw [p2]; exact hj0), by dsimp only; rw [p2]; omega, Or.inl hterm⟩
        · dsimp only
          rw [p2]
          refine jOk_mono h2.jok p3 (fun heq hp => ?_)
          rcases hp with hp | hp
          · exact hp
          · omega
        · dsimp only
          rw [p2]
          exact nodesWF_mono (by omega) h2.nodes
      refine key _ _ ?_ ?_ (last_eq_back _) ?_
      rotate_left 2
      · split
        · rename_i node hnode
          have hbn := h2.nodes.2 _ _ hnode
          split
          · rename_i l hl
            exact (hbn.2.2 l hl).2.2
          · exact Or.inl rfl
        · exact Or.inl rfl
      · intro e he
        split at he
        · rename_i node hnode
          have hbn := h2.nodes.2 _ _ hnode
          split at he
          · rename_i l hl
            exact instrOk_of_empty _ ((hbn.2.2 l hl).2.1 e he)
          · simp only [List.mem_cons, List.mem_nil_iff, or_false] at he
            subst he; simp [instrOk, opKind]
        · simp only [List.mem_cons, List.mem_nil_iff, or_false] at he
          subst he; simp [instrOk, opKind]
      · split
        · rename_i node hnode
          have hbn := h2.nodes.2 _ _ hnode
          split
          · rename_i l hl
            exact (hbn.2.2 l hl).1
          · simp
        · simp


theorem allFrom_of_size_le {α : Type} {lo : Nat} {a : Array α} {P : α → Prop} (h : a.size ≤ lo) : AllFrom lo a P :=
  fun i x hlo hx => absurd (getElem?_some_lt hx) (by omega)

/-- the sizes of the start state and the number of parse nodes -/
def baseOf (s0 : BState F) (n : Nat) : Base := ⟨s0.instrs.size, s0.consts.size, s0.jumps.size, s0.metadata.size, n⟩

theorem buildCore_wf (fuel parseRoot : Nat) (parseTree : Array ParseNode) (s0 : BState F) :
    Sat (fun r => (WFState s0 → WFCore parseTree.size s0 r.1) ∧ r.2 < r.1.jumps.size ∧ EndsInTerm r.1 ∧
      r.1.metadata.size + s0.instrs.size = r.1.instrs.size + s0.metadata.size)
      (buildCore parseFloat fuel parseRoot parseTree s0) := by
  unfold buildCore
  dsimp only
  unfold setNodeIdx
  split
  · rename_i hlt
    simp only [bind_ok]
    have hlt' : parseRoot < parseTree.size := by simpa using hlt
    have hinv : InvR (baseOf s0 parseTree.size)
        ({ data := s0, nodes := (Array.replicate parseTree.size none).set parseRoot
            (some (BuildNode.new parseRoot (getJumpTableLen s0))) hlt, rootStack := #[parseRoot], stack := #[] } : Ctx F) := by
      refine ⟨⟨allFrom_of_size_le (Nat.le_refl _), allFrom_of_size_le (Nat.le_refl _), Nat.add_comm _ _, allFrom_of_size_le (Nat.le_refl _)⟩,
        allFrom_of_size_le (Nat.le_refl _), ⟨by simp [baseOf], ?_⟩, Or.inr ⟨parseRoot, BuildNode.new parseRoot (getJumpTableLen s0), by simp, by simp [hlt'], rfl⟩, Nat.le_refl _,
        Or.inr ⟨parseRoot, by simp⟩⟩
      intro i bn hi
      rw [Array.getElem?_set] at hi
      split at hi
      · cases hi
        exact bnWF_new hlt' (by simp [baseOf, getJumpTableLen])
      · simp [Array.getElem?_replicate] at hi
    refine sat_bind (rootLoop_wf parseFloat parseTree rfl fuel fuel _ hinv) (fun ctx hctx => ?_)
    obtain ⟨hR, hnone⟩ := hctx
    have hsz := back_none_size hnone
    have hj0 : s0.jumps.size < ctx.data.jumps.size := by
      rcases hR.first with h1 | ⟨r, bn, h1, _, _⟩
      · exact h1
      · rw [hnone] at h1; cases h1
    split
    · simp only [sat_ok]
      have hterm : EndsInTerm ctx.data := by
        rcases hR.term with h1 | ⟨r, h1⟩
        · exact h1
        · rw [hnone] at h1; cases h1
      have hmc : ctx.data.metadata.size + s0.instrs.size = ctx.data.instrs.size + s0.metadata.size := hR.data.metaCount
      refine ⟨fun hs0 => ⟨hR.data.operands, hR.data.exprConsts, ?_, by unfold WFState at hs0; omega, hR.data.metaNodes⟩, hj0, hterm, hmc⟩
      intro i v hlo hv
      obtain ⟨h1, h2⟩ := hR.jok i v hlo hv
      rcases Nat.lt_or_ge v ctx.data.instrs.size with h3 | h3
      · exact h3
      · have := h2 (by omega)
        omega
    · exact sat_buildErr
  · exact sat_panic

theorem build_wfCore (fuel parseRoot : Nat) (parseTree : Array ParseNode) (s0 : BState F) :
    Sat (fun r => (WFState s0 → WFCore parseTree.size s0 r.1) ∧ (parseTree.size ≠ 0 → r.2 < r.1.jumps.size) ∧ EndsInTerm r.1 ∧
      r.1.metadata.size + s0.instrs.size = r.1.instrs.size + s0.metadata.size)
      (build parseFloat fuel parseRoot parseTree s0) := by
  unfold build
  split
  · rename_i hempty
    simp only [sat_ok, pushInstr, pushToJumpTable, getInstructionLen, getJumpTableLen]
    refine ⟨fun hs0 => ⟨allFrom_push (allFrom_of_size_le (Nat.le_refl _)) (by simp [instrOk, opKind]), allFrom_of_size_le (Nat.le_refl _),
      allFrom_push (allFrom_of_size_le (Nat.le_refl _)) (by simp), by simp [show s0.metadata.size = s0.instrs.size from hs0],
      allFrom_push (allFrom_of_size_le (Nat.le_refl _)) rfl⟩, fun _ => by simp, ⟨(.endExpression, none), by simp, rfl⟩,
      by simp only [Array.size_push]; omega⟩
  · refine sat_bind (Q := fun _ => True) sat_true (fun _ _ => ?_)
    exact sat_mono (buildCore_wf parseFloat fuel parseRoot parseTree s0) (fun r hr => ⟨hr.1, fun _ => hr.2.1, hr.2.2⟩)

end handlersWF

/-! ## C05 -/

/-- "After a successful `build`, every data operand names an existing value of the kind its instruction expects, every
jump operand and every expression value names an existing jump-table entry, every jump-table entry written by the build
points at an existing instruction (no unpatched placeholder survives), and every straight-line run of instructions ends
in an end-of-expression or an unconditional jump.  There is exactly one metadata record per emitted instruction and it
names an existing parse node."

`wfProg` (Spec/WFProg.lean) is the executable form of these clauses for the part of `s` appended to `s0`; the theorem
holds for EVERY node vector, every fuel and every start state whose metadata is in step with its instructions
(`WFState s0`), on the builder model that follows build.rs up to commit 7afc7c5.  The returned entry names an existing
jump entry unless the node vector is empty (`build` then returns entry 0 without creating an entry). -/
theorem C05_build_wf (parseFloat : List Char → Option F) (fuel root : Nat) (tree : Array ParseNode) (s0 s : BState F)
    (entry : Nat) (h : build parseFloat fuel root tree s0 = .ok (s, entry)) (hs0 : WFState s0) :
    wfProg tree.size s0 s = true ∧ (tree.size ≠ 0 → entry < s.jumps.size) := by
  have := build_wfCore parseFloat fuel root tree s0
  rw [h] at this
  obtain ⟨h1, h2, h3, _⟩ := this
  exact ⟨(wfProg_iff _ _ _).2 ⟨h1 hs0, h3⟩, h2⟩

/-- the declarative form -/
theorem C05_build_WFProg (parseFloat : List Char → Option F) (fuel root : Nat) (tree : Array ParseNode) (s0 s : BState F)
    (entry : Nat) (h : build parseFloat fuel root tree s0 = .ok (s, entry)) (hs0 : WFState s0) :
    WFProg tree.size s0 s :=
  (wfProg_iff _ _ _).1 (C05_build_wf parseFloat fuel root tree s0 s entry h hs0).1

/-- a build leaves the object in a state another build may start from -/
theorem C05_wfState_preserved (parseFloat : List Char → Option F) (fuel root : Nat) (tree : Array ParseNode) (s0 s : BState F)
    (entry : Nat) (h : build parseFloat fuel root tree s0 = .ok (s, entry)) (hs0 : WFState s0) : WFState s :=
  (C05_build_WFProg parseFloat fuel root tree s0 s entry h hs0).metaCount

/-- "There is exactly one metadata record per emitted instruction": the number of metadata records appended by an accepted
build equals the number of instructions it appended — for EVERY start state (no `WFState` needed; with `WFState s0` this
is also the `metaCount` clause of `wfProg`: `s.metadata.size = s.instrs.size`).  A handler that pushes two
instructions and one record (or the reverse) breaks this theorem. -/
theorem C05_metadata_one_per_instruction (parseFloat : List Char → Option F) (fuel root : Nat) (tree : Array ParseNode)
    (s0 s : BState F) (entry : Nat) (h : build parseFloat fuel root tree s0 = .ok (s, entry)) :
    s.metadata.size - s0.metadata.size = s.instrs.size - s0.instrs.size ∧
    s0.metadata.size ≤ s.metadata.size ∧ s0.instrs.size ≤ s.instrs.size := by
  have := build_wfCore parseFloat fuel root tree s0
  rw [h] at this
  obtain ⟨_, _, _, h4⟩ := this
  have hap := Garnish.Lemmas.Build.build_appends_only parseFloat fuel root tree s0 s entry h
  obtain ⟨⟨l1, h1⟩, _, ⟨l3, h3⟩, _, _⟩ := hap
  have e1 := congrArg List.length h1
  have e3 := congrArg List.length h3
  simp only [List.length_append, Array.length_toList] at e1 e3
  dsimp only at h4
  omega

/-- the remaining gap, for the record: with an EMPTY node vector `build` returns `jump_index = 0` without creating a
jump entry, so `entry < s.jumps.size` can fail (first program) or name another program's entry (shared object) -/
example : (build (F := Unit) (fun _ => none) 0 0 #[] BState.empty).isOk = true := by decide

end Garnish.Props.C05
