/-
Property C05 — built instruction streams are well-formed (builder model Garnish.Model.Build, checker Garnish.Spec.WFProg).
-/
import Garnish.Lemmas.Build
import Garnish.Spec.WFProg
namespace Garnish.Props.C05
open Garnish Garnish.Gen Garnish.Model.Parser Garnish.Model.Literals Garnish.Model.Build Garnish.Lemmas.Build Garnish.Spec

set_option linter.unusedSimpArgs false

variable {F : Type}

/-! ### monotonicity of the per-element checks -/

theorem instrOk_mono {jb jb' : Nat} {C C' : Array (Val F)} (hj : jb ≤ jb') (hs : C.size ≤ C'.size)
    (hc : ∀ (k : Nat) (v : Val F), C[k]? = some v → C'[k]? = some v) {i : Instr} (h : instrOk jb C i = true) :
    instrOk jb' C' i = true := by
  unfold instrOk at *
  cases hk : opKind i.1 <;> cases ho : i.2 <;> simp only [hk, ho] at h ⊢
  case data.some k => simp only [decide_eq_true_eq] at h ⊢; omega
  case sym.some k =>
    cases hck : C[k]? with
    | none => simp [hck] at h
    | some v =>
      rw [hc k v hck]
      rw [hck] at h
      exact h
  case jump.some j => simp only [decide_eq_true_eq] at h ⊢; omega
  all_goals exact h

theorem constOk_mono {jb jb' : Nat} (hj : jb ≤ jb') {v : Val F} (h : constOk jb v = true) : constOk jb' v = true := by
  unfold constOk at *
  split at h
  · simp only [decide_eq_true_eq] at h ⊢; omega
  · rfl

/-- an instruction that is fine without any constant is fine with every constant table -/
theorem instrOk_of_empty {G : Type} {jb : Nat} {i : Instr} (C : Array (Val F)) (h : instrOk jb (#[] : Array (Val G)) i = true) :
    instrOk jb C i = true := by
  unfold instrOk at *
  cases hk : opKind i.1 <;> cases ho : i.2 <;> simp only [hk, ho] at h ⊢
  case data.some k => simp at h
  case sym.some k => simp at h
  case jump.some j => exact h
  all_goals exact h

theorem allFrom_push {α : Type} {lo : Nat} {a : Array α} {P : α → Prop} (h : AllFrom lo a P) {x : α} (hx : P x) :
    AllFrom lo (a.push x) P := by
  intro i y hlo hy
  rw [Array.getElem?_push] at hy
  split at hy
  · cases hy; exact hx
  · exact h i y hlo hy

theorem allFrom_imp {α : Type} {lo : Nat} {a : Array α} {P Q : α → Prop} (h : AllFrom lo a P) (hpq : ∀ x, P x → Q x) :
    AllFrom lo a Q := fun i x hlo hx => hpq x (h i x hlo hx)

theorem getElem?_push_of_some {α : Type} (a : Array α) (x : α) (k : Nat) (v : α) (h : a[k]? = some v) : (a.push x)[k]? = some v := by
  rw [Array.getElem?_push]
  split
  · rename_i hk
    subst hk
    simp at h
  · exact h

/-! ### the data part of the invariant, stated on the four arrays of the state -/

/-- the fixed quantities: sizes of the start state and the number of parse nodes -/
structure Base where
  i0 : Nat
  c0 : Nat
  j0 : Nat
  m0 : Nat
  n : Nat

structure DataOk (b : Base) (I : Array Instr) (J : Array Nat) (C : Array (Val F)) (M : Array (Option Nat)) : Prop where
  operands : AllFrom b.i0 I (fun i => instrOk J.size C i = true)
  exprConsts : AllFrom b.c0 C (fun v => constOk J.size v = true)
  metaCount : M.size = I.size
  metaNodes : AllFrom b.m0 M (fun m => metaOk b.n m = true)

theorem DataOk.pushI {b : Base} {I : Array Instr} {J : Array Nat} {C : Array (Val F)} {M : Array (Option Nat)}
    (h : DataOk b I J C M) {x : Instr} {m : Option Nat} (hx : instrOk J.size C x = true) (hm : metaOk b.n m = true) :
    DataOk b (I.push x) J C (M.push m) :=
  ⟨allFrom_push h.operands hx, h.exprConsts, by simp [h.metaCount], allFrom_push h.metaNodes hm⟩

theorem DataOk.pushJ {b : Base} {I : Array Instr} {J : Array Nat} {C : Array (Val F)} {M : Array (Option Nat)}
    (h : DataOk b I J C M) (v : Nat) : DataOk b I (J.push v) C M :=
  ⟨allFrom_imp h.operands (fun _ hx => instrOk_mono (by simp) (Nat.le_refl _) (fun _ _ h => h) hx),
   allFrom_imp h.exprConsts (fun _ hx => constOk_mono (by simp) hx), h.metaCount, h.metaNodes⟩

theorem DataOk.pushC {b : Base} {I : Array Instr} {J : Array Nat} {C : Array (Val F)} {M : Array (Option Nat)}
    (h : DataOk b I J C M) {v : Val F} (hv : constOk J.size v = true) : DataOk b I J (C.push v) M :=
  ⟨allFrom_imp h.operands (fun _ hx => instrOk_mono (Nat.le_refl _) (by simp) (fun k w hk => getElem?_push_of_some C v k w hk) hx),
   allFrom_push h.exprConsts hv, h.metaCount, h.metaNodes⟩

theorem DataOk.setJ {b : Base} {I : Array Instr} {J : Array Nat} {C : Array (Val F)} {M : Array (Option Nat)}
    (h : DataOk b I J C M) (i v : Nat) (hi : i < J.size) : DataOk b I (J.set i v hi) C M :=
  ⟨by simpa using h.operands, by simpa using h.exprConsts, h.metaCount, h.metaNodes⟩

/-! ### jump entries: every new entry is at most the instruction count, and may equal it only while more
instructions are guaranteed to come (`p`) -/

def JOk (lo L : Nat) (p : Prop) (J : Array Nat) : Prop := AllFrom lo J (fun v => v ≤ L ∧ (v = L → p))

theorem jOk_push {lo L : Nat} {p : Prop} {J : Array Nat} (h : JOk lo L p J) {v : Nat} (hv : v ≤ L) (hp : v = L → p) :
    JOk lo L p (J.push v) := allFrom_push h ⟨hv, hp⟩

theorem jOk_mono {lo L L' : Nat} {p p' : Prop} {J : Array Nat} (h : JOk lo L p J) (hL : L ≤ L') (hp : L' = L → p → p') :
    JOk lo L' p' J := by
  intro i v hlo hv
  obtain ⟨h1, h2⟩ := h i v hlo hv
  refine ⟨by omega, fun hvl => ?_⟩
  have : L' = L := by omega
  exact hp this (h2 (by omega))

theorem jOk_set {lo L : Nat} {p : Prop} {J : Array Nat} (h : JOk lo L p J) (i : Nat) (hi : i < J.size) (hp : p) :
    JOk lo L p (J.set i L hi) := by
  intro k v hlo hv
  rw [Array.getElem?_set] at hv
  split at hv
  · cases hv; exact ⟨Nat.le_refl _, fun _ => hp⟩
  · exact h k v hlo hv

/-! ### build nodes -/

/-- a build node refers to an existing parse node, an existing jump entry, and its terminator list is a non-empty
list of instructions that are fine as they stand -/
def BnWF (jb n : Nat) (bn : BuildNode) : Prop :=
  bn.parseNodeIndex < n ∧ bn.containingExpressionJump < jb ∧
  ∀ l, bn.rootEndInstruction = some l → l ≠ [] ∧ ∀ e, e ∈ l → instrOk jb (#[] : Array (Val Unit)) e = true

def NodesWF (jb n : Nat) (nodes : Nodes) : Prop :=
  nodes.size = n ∧ ∀ (i : Nat) (bn : BuildNode), nodes[i]? = some (some bn) → BnWF jb n bn

theorem bnWF_mono {jb jb' n : Nat} (hj : jb ≤ jb') {bn : BuildNode} (h : BnWF jb n bn) : BnWF jb' n bn :=
  ⟨h.1, by have := h.2.1; omega, fun l hl => ⟨(h.2.2 l hl).1, fun e he =>
    instrOk_mono hj (Nat.le_refl _) (fun _ _ h => h) ((h.2.2 l hl).2 e he)⟩⟩

theorem nodesWF_mono {jb jb' n : Nat} (hj : jb ≤ jb') {nodes : Nodes} (h : NodesWF jb n nodes) : NodesWF jb' n nodes :=
  ⟨h.1, fun i bn hb => bnWF_mono hj (h.2 i bn hb)⟩

theorem bnWF_congr {jb n : Nat} {b b' : BuildNode} (h : BnWF jb n b) (h1 : b'.parseNodeIndex = b.parseNodeIndex)
    (h2 : b'.containingExpressionJump = b.containingExpressionJump) (h3 : b'.rootEndInstruction = b.rootEndInstruction) :
    BnWF jb n b' := by
  unfold BnWF at *; rw [h1, h2, h3]; exact h

theorem bnWF_new {jb n a c : Nat} (ha : a < n) (hc : c < jb) : BnWF jb n (BuildNode.new a c) :=
  ⟨ha, hc, fun l hl => by simp [BuildNode.new] at hl⟩
theorem bnWF_newWithList {jb n a c : Nat} (p : Nat) (d : Definition) (ha : a < n) (hc : c < jb) :
    BnWF jb n (BuildNode.newWithList a c p d) :=
  ⟨ha, hc, fun l hl => by simp [BuildNode.newWithList, BuildNode.new] at hl⟩
theorem bnWF_newWithConditional {jb n a c : Nat} (p : Nat) (ha : a < n) (hc : c < jb) :
    BnWF jb n (BuildNode.newWithConditional a c p) :=
  ⟨ha, hc, fun l hl => by simp [BuildNode.newWithConditional, BuildNode.new] at hl⟩
theorem bnWF_newWithJump {jb n a c : Nat} (j : Nat) (ha : a < n) (hc : c < jb) : BnWF jb n (BuildNode.newWithJump a c j) :=
  ⟨ha, hc, fun l hl => by simp [BuildNode.newWithJump, BuildNode.new] at hl⟩
theorem bnWF_newWithJumpAndEnd {jb n a c : Nat} (j : Nat) {e : List Instr} (ha : a < n) (hc : c < jb) (he : e ≠ [])
    (hi : ∀ x, x ∈ e → instrOk jb (#[] : Array (Val Unit)) x = true) : BnWF jb n (BuildNode.newWithJumpAndEnd a c j e) :=
  ⟨ha, hc, fun l hl => by
    simp [BuildNode.newWithJumpAndEnd, BuildNode.new] at hl
    subst hl; exact ⟨he, hi⟩⟩

theorem nodesWF_putNode {jb n : Nat} {nodes : Nodes} (h : NodesWF jb n nodes) (i : Nat) {b : BuildNode} (hb : BnWF jb n b) :
    NodesWF jb n (putNode nodes i b) := by
  refine ⟨by simp [putNode, h.1], ?_⟩
  intro k b' hk
  unfold putNode at hk
  rw [Array.getElem?_setIfInBounds] at hk
  split at hk
  · split at hk
    · cases hk; exact hb
    · cases hk
  · exact h.2 k b' hk

/-- `nodes[i] = Some(b)`: the new node only has to be fine when `i` is in range (otherwise the Rust panics) -/
theorem setNodeIdx_wf {jb n : Nat} {nodes : Nodes} (h : NodesWF jb n nodes) (i : Nat) {b : BuildNode} (hb : i < n → BnWF jb n b)
    (site : String) : Sat (NodesWF jb n) (setNodeIdx nodes i b site) := by
  unfold setNodeIdx
  split
  · rename_i hlt
    simp only [sat_ok]
    refine ⟨by simp [h.1], ?_⟩
    intro k b' hk
    rw [Array.getElem?_set] at hk
    split at hk
    · cases hk; exact hb (h.1 ▸ hlt)
    · exact h.2 k b' hk
  · exact sat_panic

theorem getNode_wf {jb n : Nat} {nodes : Nodes} (h : NodesWF jb n nodes) (i : Nat) : Sat (BnWF jb n) (getNode nodes i) := by
  unfold getNode
  split
  · rename_i b hb; simp only [sat_ok]; exact h.2 i b hb
  · exact sat_buildErr


/-! ### the invariant of the inner loop (one root being emitted; `rs` = instruction count when the root started) -/

structure InvH (b : Base) (rs : Nat) (ctx : Ctx F) : Prop where
  data : DataOk b ctx.data.instrs ctx.data.jumps ctx.data.consts ctx.data.metadata
  jok : JOk b.j0 ctx.data.instrs.size (0 < ctx.rootStack.size ∨ ctx.data.instrs.size = rs) ctx.data.jumps
  nodes : NodesWF ctx.data.jumps.size b.n ctx.nodes
  rsLe : rs ≤ ctx.data.instrs.size

macro "arith_tac" : tactic => `(tactic| (
  first
    | omega
    | (simp only [Array.size_push]; omega)
    | (intros; simp only [Array.size_push] at *; omega)))

macro "side_tac" : tactic => `(tactic| (
  first
    | rfl
    | assumption
    | (simp only [metaOk, decide_eq_true_eq]; first | assumption | exact (‹BnWF _ _ _›).1)
    | (simp only [instrOk, *]; done)
    | (simp only [instrOk, *]; simp [Array.size_push]; done)
    | (simp only [instrOk, opKind, decide_eq_true_eq]; exact (‹BnWF _ _ _›).2.1)
    | (simp [instrOk, opKind, constOk, Array.size_push]; done)
    | (simp [instrOk, opKind, constOk, Array.size_push, *]; done)
    | arith_tac))

macro "data_tac" : tactic => `(tactic| (
  (repeat (first
    | assumption
    | (refine DataOk.pushI ?_ ?_ ?_)
    | (refine DataOk.pushC ?_ ?_)
    | (apply DataOk.pushJ))) <;> side_tac))

macro "jok_tac" : tactic => `(tactic| (
  (repeat (first
    | (refine jOk_push ?_ ?_ ?_)
    | (refine jOk_mono ‹JOk _ _ _ _› ?_ ?_))) <;> arith_tac))

macro "wfbn_put" : tactic => `(tactic| (
  first
    | assumption
    | (apply bnWF_congr (by assumption) <;> rfl)))

macro "wfnodes_tac" : tactic => `(tactic| (
  repeat (first
    | assumption
    | (apply nodesWF_putNode (hb := by wfbn_put)))))

macro "wfbn_new" : tactic => `(tactic| (
  intro hlt;
  first
    | exact bnWF_new hlt (‹BnWF _ _ _›).2.1
    | exact bnWF_newWithList _ _ hlt (‹BnWF _ _ _›).2.1
    | exact bnWF_newWithConditional _ hlt (‹BnWF _ _ _›).2.1))

macro "wf_final" : tactic => `(tactic| (
  refine InvH.mk ?_ ?_ ?_ ?_ <;> (try dsimp only) <;>
    first | data_tac | jok_tac | wfnodes_tac | (refine nodesWF_mono ?_ (by assumption); arith_tac) | arith_tac))

macro "wf_tac" b:term "," jb:term : tactic => `(tactic| (
  repeat' (first
    | (refine sat_bind (getNode_wf (jb := $jb) (n := Base.n $b) ?_ _) (fun _ _ => ?_); (· wfnodes_tac))
    | (refine sat_bind (setNodeIdx_wf (jb := $jb) (n := Base.n $b) ?_ _ ?_ _) (fun _ _ => ?_); (· wfnodes_tac); (· wfbn_new))
    | exact sat_buildErr
    | exact sat_panic
    | wf_final
    | simp only [bind_ok, bind_assoc]
    | split)))

section handlersWF
variable {b : Base} {rs : Nat} {ctx : Ctx F}

theorem handleUnaryPrefix_wf (h : InvH b rs ctx) {ni : Nat} (hni : ni < b.n) {ins : Instruction} (hk : opKind ins = .free) (pn : ParseNode) :
    Sat (InvH b rs) (handleUnaryPrefix ins ctx ni pn) := by
  obtain ⟨hd, hj, hn, hr⟩ := h
  unfold handleUnaryPrefix
  try simp only [pushInstr, pushToJumpTable, addConst, parseAddSymbol, getJumpTableLen, getInstructionLen]
  wf_tac b, ctx.data.jumps.size


theorem handleUnarySuffix_wf (h : InvH b rs ctx) {ni : Nat} (hni : ni < b.n) {ins : Instruction} (hk : opKind ins = .free) (pn : ParseNode) :
    Sat (InvH b rs) (handleUnarySuffix ins ctx ni pn) := by
  obtain ⟨hd, hj, hn, hr⟩ := h
  unfold handleUnarySuffix
  try simp only [pushInstr, pushToJumpTable, addConst, parseAddSymbol, getJumpTableLen, getInstructionLen]
  wf_tac b, ctx.data.jumps.size

theorem handleBinaryOperationWithPush_wf (h : InvH b rs ctx) {ni : Nat} (hni : ni < b.n) {ins : Instruction} (hk : opKind ins = .free) (lr : Bool) (pn : ParseNode) :
    Sat (InvH b rs) (handleBinaryOperationWithPush ins lr ctx ni pn) := by
  obtain ⟨hd, hj, hn, hr⟩ := h
  unfold handleBinaryOperationWithPush
  try simp only [pushInstr, pushToJumpTable, addConst, parseAddSymbol, getJumpTableLen, getInstructionLen]
  wf_tac b, ctx.data.jumps.size

theorem handleList_wf (h : InvH b rs ctx) {ni : Nat} (hni : ni < b.n)  (pn : ParseNode) :
    Sat (InvH b rs) (handleList  ctx ni pn) := by
  obtain ⟨hd, hj, hn, hr⟩ := h
  unfold handleList
  try simp only [pushInstr, pushToJumpTable, addConst, parseAddSymbol, getJumpTableLen, getInstructionLen]
  wf_tac b, ctx.data.jumps.size

theorem handleGroup_wf (h : InvH b rs ctx) {ni : Nat} (hni : ni < b.n)  (pn : ParseNode) :
    Sat (InvH b rs) (handleGroup  ctx ni pn) := by
  obtain ⟨hd, hj, hn, hr⟩ := h
  unfold handleGroup
  try simp only [pushInstr, pushToJumpTable, addConst, parseAddSymbol, getJumpTableLen, getInstructionLen]
  wf_tac b, ctx.data.jumps.size

theorem handleSideEffect_wf (h : InvH b rs ctx) {ni : Nat} (hni : ni < b.n)  (pn : ParseNode) :
    Sat (InvH b rs) (handleSideEffect  ctx ni pn) := by
  obtain ⟨hd, hj, hn, hr⟩ := h
  unfold handleSideEffect
  try simp only [pushInstr, pushToJumpTable, addConst, parseAddSymbol, getJumpTableLen, getInstructionLen]
  wf_tac b, ctx.data.jumps.size

theorem handleReapply_wf (h : InvH b rs ctx) {ni : Nat} (hni : ni < b.n)  (pn : ParseNode) :
    Sat (InvH b rs) (handleReapply  ctx ni pn) := by
  obtain ⟨hd, hj, hn, hr⟩ := h
  unfold handleReapply
  try simp only [pushInstr, pushToJumpTable, addConst, parseAddSymbol, getJumpTableLen, getInstructionLen]
  wf_tac b, ctx.data.jumps.size

theorem handleSubexpression_wf (h : InvH b rs ctx) {ni : Nat} (hni : ni < b.n)  (pn : ParseNode) :
    Sat (InvH b rs) (handleSubexpression  ctx ni pn) := by
  obtain ⟨hd, hj, hn, hr⟩ := h
  unfold handleSubexpression
  try simp only [pushInstr, pushToJumpTable, addConst, parseAddSymbol, getJumpTableLen, getInstructionLen]
  wf_tac b, ctx.data.jumps.size

theorem handleInfixApply_wf (h : InvH b rs ctx) {ni : Nat} (hni : ni < b.n)  (pn : ParseNode) :
    Sat (InvH b rs) (handleInfixApply  ctx ni pn) := by
  obtain ⟨hd, hj, hn, hr⟩ := h
  unfold handleInfixApply
  try simp only [pushInstr, pushToJumpTable, addConst, parseAddSymbol, getJumpTableLen, getInstructionLen]
  wf_tac b, ctx.data.jumps.size

theorem handleUnaryFixApply_wf (h : InvH b rs ctx) {ni : Nat} (hni : ni < b.n) (child : Option Nat) (pn : ParseNode) :
    Sat (InvH b rs) (handleUnaryFixApply child ctx ni pn) := by
  obtain ⟨hd, hj, hn, hr⟩ := h
  unfold handleUnaryFixApply
  try simp only [pushInstr, pushToJumpTable, addConst, parseAddSymbol, getJumpTableLen, getInstructionLen]
  wf_tac b, ctx.data.jumps.size


theorem handleNestedExpression_wf (h : InvH b rs ctx) {ni : Nat} (hni : ni < b.n) {crj : Nat} (hcrj : crj < ctx.data.jumps.size)
    (pn : ParseNode) : Sat (InvH b rs) (handleNestedExpression ctx crj ni pn) := by
  obtain ⟨hd, hj, hn, hr⟩ := h
  unfold handleNestedExpression
  simp only [pushInstr, pushToJumpTable, addConst, getJumpTableLen]
  split
  · wf_final
  · have hn' := nodesWF_mono (jb' := ctx.data.jumps.size + 1) (by omega) hn
    refine sat_bind (setNodeIdx_wf hn' _ (fun hlt => bnWF_newWithJump _ hlt (by omega)) _) (fun nodes hnodes => ?_)
    have hnodes' : NodesWF (ctx.data.jumps.push 0).size b.n nodes := by simpa using hnodes
    wf_final

theorem handleLogicalBinary_wf (h : InvH b rs ctx) {ni : Nat} (hni : ni < b.n) {ins : Instruction} (hk : opKind ins = .jump)
    (pn : ParseNode) : Sat (InvH b rs) (handleLogicalBinary ins ctx ni pn) := by
  obtain ⟨hd, hj, hn, hr⟩ := h
  unfold handleLogicalBinary
  simp only [pushInstr, pushToJumpTable, getJumpTableLen, getInstructionLen]
  refine sat_bind (getNode_wf hn _) (fun node hnode => ?_)
  split
  · wf_tac b, ctx.data.jumps.size
  · split
    · exact sat_buildErr
    · have hn' := nodesWF_mono (jb' := ctx.data.jumps.size + 2) (by omega) hn
      have hc := hnode.2.1
      refine sat_bind (setNodeIdx_wf hn' _ (fun hlt => bnWF_newWithJumpAndEnd _ hlt (by omega) (by simp) ?_) _)
        (fun nodes hnodes => ?_)
      · intro x hx
        simp only [List.mem_cons, List.mem_nil_iff, or_false] at hx
        rcases hx with hx | hx <;> subst hx <;> simp [instrOk, opKind, Array.size_push]
      · have hnodes' : NodesWF ((ctx.data.jumps.push 0).push (ctx.data.instrs.push (ins, some ctx.data.jumps.size)).size).size b.n nodes := by
          simpa using hnodes
        wf_final

theorem handleJumpIf_wf (h : InvH b rs ctx) {ni : Nat} (hni : ni < b.n) {ins : Instruction} (hk : opKind ins = .jump)
    (pn : ParseNode) : Sat (InvH b rs) (handleJumpIf ins ctx ni pn) := by
  obtain ⟨hd, hj, hn, hr⟩ := h
  unfold handleJumpIf
  simp only [pushInstr, pushToJumpTable, getJumpTableLen, getInstructionLen]
  refine sat_bind (getNode_wf hn _) (fun node hnode => ?_)
  split
  · wf_tac b, ctx.data.jumps.size
  · split
    · exact sat_buildErr
    · split
      · split
        · rename_i parent hparent
          have hp : BnWF ctx.data.jumps.size b.n parent := hn.2 _ _ hparent
          wf_final
        · wf_final
      · have hn' := nodesWF_mono (jb' := ctx.data.jumps.size + 2) (by omega) hn
        have hc := hnode.2.1
        refine sat_bind (setNodeIdx_wf hn' _ (fun hlt => bnWF_newWithJumpAndEnd _ hlt (by omega) (by simp) ?_) _)
          (fun nodes hnodes => ?_)
        · intro x hx
          simp only [List.mem_cons, List.mem_nil_iff, or_false] at hx
          subst hx; simp [instrOk, opKind, Array.size_push]
        · have hnodes' : NodesWF ((ctx.data.jumps.push 0).push
              ((ctx.data.instrs.push (ins, some ctx.data.jumps.size)).push (.putValue, none)).size).size b.n nodes := by
            simpa using hnodes
          wf_final

end handlersWF

end Garnish.Props.C05
