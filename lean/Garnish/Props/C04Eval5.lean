/-
C04, builder half — `C04_evaluation_order_total_all` (see Props/C04Eval4.lean for the statement in words).
-/
import Garnish.Props.C04Eval4
namespace Garnish.Props.C04Order
open Garnish Garnish.Gen Garnish.Model.Parser Garnish.Model.Build Garnish.Lemmas.Build
open Garnish.Lemmas.BuildTotal (IsChild child_facts parent_unique child_ne_root)
open Garnish.Lemmas.BuildSeq

variable {F : Type} {nodes : Array ParseNode} {root : Nat} {G : Nat → Prop}

/-- what a build says about a node that has an instruction attributed to it -/
structure Reached (nodes : Array ParseNode) (root x : Nat) : Prop where
  sub : Sub nodes root x
  good : ∀ y c, Sub nodes root y → IsChild nodes y c → Sub nodes c x → GoodLink nodes root y c
  notGroup : ∀ pn, nodes[x]? = some pn → pn.definition ≠ .group

/-- the exception: a SideEffect node brackets what lies in line below it -/
def Bracketed (nodes : Array ParseNode) (x z : Nat) : Prop :=
  ∃ a an, (a = x ∨ a = z) ∧ nodes[a]? = some an ∧ an.definition = .sideEffect ∧ IDesc nodes a x ∧ IDesc nodes a z

/-- `z` lies strictly below `x` -/
theorem below_case {x z : Nat} (hx : Reached nodes root x) (hz : Reached nodes root z) (h : Sub nodes x z) (hne : z ≠ x) :
    EmitBefore nodes root x z ∨ EmitBefore nodes root z x ∨
      ∃ xn, nodes[x]? = some xn ∧ xn.definition = .sideEffect ∧ IDesc nodes x z := by
  have htx : InTree nodes root x := Or.inl hx.sub
  rcases sub_head h with e | ⟨c, hc, hcz⟩
  · exact absurd e hne
  · rcases hz.good x c hx.sub hc hcz with hil | ⟨⟨xn, hxn, hr, hool⟩, _⟩
    · rcases path_decomp (Sub.step hx.sub hc) hz.good z hcz (Sub.refl z) with hd | ⟨k, r, s, hdk, ⟨kn, hkn, hkr, hkool⟩, _, hrz⟩
      · have hxz : IDesc nodes x z := IDesc.trans (IDesc.step (IDesc.refl x) hil) hd
        rcases emit_below htx hxz hne with h1 | h1 | ⟨xn, hxn, hd'⟩
        · exact Or.inl h1
        · exact Or.inr (Or.inl h1)
        · rcases hd' with hd' | hd'
          · exact absurd hd' (hx.notGroup xn hxn)
          · exact Or.inr (Or.inr ⟨xn, hxn, hd', hxz⟩)
      · exact Or.inl (EmitBefore.outOfLine x k r kn htx (IDesc.trans (IDesc.step (IDesc.refl x) hil) hdk) hkn hkr hkool
          (IDesc.refl x) hrz)
    · exact Or.inl (EmitBefore.outOfLine x x c xn htx (IDesc.refl x) hxn hr hool (IDesc.refl x) hcz)

theorem total_core (V : Validated root nodes G) {x z : Nat} (hx : Reached nodes root x) (hz : Reached nodes root z)
    (hne : x ≠ z) : EmitBefore2 nodes root x z ∨ EmitBefore2 nodes root z x ∨ Bracketed nodes x z := by
  rcases sub_split hx.sub hz.sub with h | h | ⟨y, c1, c2, hy, hc1, hc2, hne12, h1x, h2z⟩
  · rcases below_case hx hz h (fun e => hne e.symm) with h1 | h1 | ⟨xn, hxn, hd, hxz⟩
    · exact Or.inl (Or.inl h1)
    · exact Or.inr (Or.inl (Or.inl h1))
    · exact Or.inr (Or.inr ⟨x, xn, Or.inl rfl, hxn, hd, IDesc.refl x, hxz⟩)
  · rcases below_case hz hx h hne with h1 | h1 | ⟨zn, hzn, hd, hzx⟩
    · exact Or.inr (Or.inl (Or.inl h1))
    · exact Or.inl (Or.inl h1)
    · exact Or.inr (Or.inr ⟨z, zn, Or.inr rfl, hzn, hd, hzx, IDesc.refl z⟩)
  · have hty : InTree nodes root y := Or.inl hy
    have hyG := sub_G V V.rootIn hy
    -- the root that contains y
    obtain ⟨ρ, hρ, hρy, hρtop⟩ := root_above V hy (fun w c hw hc hs => by
      rcases hx.good w c hw hc (Sub.trans hs (Sub.trans (Sub.step (Sub.refl y) hc1) h1x)) with h | ⟨h, _⟩
      · exact Or.inl h
      · exact Or.inr h)
    have g1 := hx.good y c1 hy hc1 h1x
    have g2 := hz.good y c2 hy hc2 h2z
    have d1 := path_decomp (Sub.step hy hc1) hx.good x h1x (Sub.refl x)
    have d2 := path_decomp (Sub.step hy hc2) hz.good z h2z (Sub.refl z)
    -- the stack rule for two out-of-line children with different owners in the root ρ
    have stack : ∀ {k1 k2 r1 r2 s1 s2 : Nat}, IDesc nodes y k1 → IDesc nodes y k2 → Scheduled nodes root r1 s1 k1 →
        Scheduled nodes root r2 s2 k2 → k1 ≠ k2 → Sub nodes r1 x → Sub nodes r2 z →
        EmitBefore2 nodes root x z ∨ EmitBefore2 nodes root z x ∨ Bracketed nodes x z := by
      intro k1 k2 r1 r2 s1 s2 hk1 hk2 hs1 hs2 hk hr1x hr2z
      rcases pushed_total V hρ hρtop (IDesc.trans hρy hk1) (IDesc.trans hρy hk2) hs1 hs2 hk with hp | hp
      · exact Or.inr (Or.inl (Or.inr ⟨r1, r2, hp, hr2z, hr1x⟩))
      · exact Or.inl (Or.inr ⟨r2, r1, hp, hr1x, hr2z⟩)
    rcases g1 with hil1 | ⟨⟨yn1, hyn1, hyr1, hyool1⟩, s1', hs1'⟩
    · rcases g2 with hil2 | ⟨⟨yn2, hyn2, hyr2, hyool2⟩, s2', hs2'⟩
      · -- both children in line
        rcases d1 with hd1 | ⟨k1, r1, s1, hdk1, ⟨kn1, hkn1, hkr1, hkool1⟩, hs1, hr1x⟩
        · rcases d2 with hd2 | ⟨k2, r2, s2, hdk2, ⟨kn2, hkn2, hkr2, hkool2⟩, _, hr2z⟩
          · have hyx := IDesc.trans (IDesc.step (IDesc.refl y) hil1) hd1
            have hyz := IDesc.trans (IDesc.step (IDesc.refl y) hil2) hd2
            rcases C04_evaluation_order_total nodes root y x z hy hyx hyz hne with h1 | h1 | ⟨a, an, ha, han, hd, hax, haz⟩
            · exact Or.inl (Or.inl h1)
            · exact Or.inr (Or.inl (Or.inl h1))
            · rcases hd with hd | hd
              · rcases ha with e | e <;> subst e
                · exact absurd hd (hx.notGroup an han)
                · exact absurd hd (hz.notGroup an han)
              · exact Or.inr (Or.inr ⟨a, an, ha, han, hd, hax, haz⟩)
          · exact Or.inl (Or.inl (EmitBefore.outOfLine y k2 r2 kn2 hty (IDesc.trans (IDesc.step (IDesc.refl y) hil2) hdk2) hkn2
              hkr2 hkool2 (IDesc.trans (IDesc.step (IDesc.refl y) hil1) hd1) hr2z))
        · rcases d2 with hd2 | ⟨k2, r2, s2, hdk2, _, hs2, hr2z⟩
          · exact Or.inr (Or.inl (Or.inl (EmitBefore.outOfLine y k1 r1 kn1 hty (IDesc.trans (IDesc.step (IDesc.refl y) hil1) hdk1)
              hkn1 hkr1 hkool1 (IDesc.trans (IDesc.step (IDesc.refl y) hil2) hd2) hr1x)))
          · refine stack (IDesc.trans (IDesc.step (IDesc.refl y) hil1) hdk1) (IDesc.trans (IDesc.step (IDesc.refl y) hil2) hdk2)
              hs1 hs2 (fun e => ?_) hr1x hr2z
            subst e
            exact children_disjoint V hy hc1 hc2 hne12 hdk1.sub hdk2.sub
      · -- c1 in line, c2 out of line
        rcases d1 with hd1 | ⟨k1, r1, s1, hdk1, _, hs1, hr1x⟩
        · exact Or.inl (Or.inl (EmitBefore.outOfLine y y c2 yn2 hty (IDesc.refl y) hyn2 hyr2 hyool2
            (IDesc.trans (IDesc.step (IDesc.refl y) hil1) hd1) h2z))
        · refine stack (IDesc.trans (IDesc.step (IDesc.refl y) hil1) hdk1) (IDesc.refl y) hs1 hs2' (fun e => ?_) hr1x h2z
          subst e
          exact not_below_self V hy hc1 hdk1.sub
    · rcases g2 with hil2 | ⟨⟨yn2, hyn2, hyr2, _⟩, _, _⟩
      · -- c1 out of line, c2 in line
        rcases d2 with hd2 | ⟨k2, r2, s2, hdk2, _, hs2, hr2z⟩
        · exact Or.inr (Or.inl (Or.inl (EmitBefore.outOfLine y y c1 yn1 hty (IDesc.refl y) hyn1 hyr1 hyool1
            (IDesc.trans (IDesc.step (IDesc.refl y) hil2) hd2) h1x)))
        · refine stack (IDesc.refl y) (IDesc.trans (IDesc.step (IDesc.refl y) hil2) hdk2) hs1' hs2 (fun e => ?_) h1x hr2z
          subst e
          exact not_below_self V hy hc2 hdk2.sub
      · -- both would be the right child of y
        rw [hyn1] at hyn2; cases hyn2
        rw [hyr1] at hyr2; cases hyr2
        exact absurd rfl hne12

/-- C04, builder half, the total order: for EVERY node vector, root, fuel and start state, after a successful `build` any
two different nodes that have an instruction of this build attributed to them are ordered by the rules — `EmitBefore2`
one way or the other, so that `C04_evaluation_order2` fixes the order of all their instructions — or one of them is a
SideEffect node whose two instructions bracket the other one (`C04_side_effect_brackets`) -/
theorem C04_evaluation_order_total_all (parseFloat : List Char → Option F) (fuel root : Nat) (nodes : Array ParseNode)
    (d d' : BState F) (entry : Nat) (h : build parseFloat fuel root nodes d = .ok (d', entry))
    (x z kx kz : Nat) (hkx : d.metadata.size ≤ kx) (hkz : d.metadata.size ≤ kz)
    (hmx : d'.metadata[kx]? = some (some x)) (hmz : d'.metadata[kz]? = some (some z)) (hne : x ≠ z) :
    EmitBefore2 nodes root x z ∨ EmitBefore2 nodes root z x ∨ Bracketed nodes x z := by
  obtain ⟨_, hreach, hgood, hngr, hex⟩ := C04_lifo_core parseFloat fuel root nodes d d' entry h
  obtain ⟨xn, hxn⟩ := hex x kx hkx hmx
  have hsz : nodes.size ≠ 0 := by
    intro e
    rw [Array.getElem?_eq_none (by omega)] at hxn; cases hxn
  obtain ⟨G, V⟩ := Garnish.Props.C04Build.C04_build_validated parseFloat fuel root nodes d d' entry h hsz
  have rx : Reached nodes root x := ⟨hreach x kx hkx hmx, fun y c hy hc hs => hgood x kx y c hkx hmx hy hc hs,
    fun pn hpn => hngr x kx pn hkx hmx hpn⟩
  have rz : Reached nodes root z := ⟨hreach z kz hkz hmz, fun y c hy hc hs => hgood z kz y c hkz hmz hy hc hs,
    fun pn hpn => hngr z kz pn hkz hmz hpn⟩
  exact total_core V rx rz hne

/-! ### non-vacuity: the else-chain `1 ?> 2 |> 3 !> 4` (Props/C04OrderEx.lean), metadata `[0,1,4,5,-,6,-,2,-]` -/

/-- every node of the else-chain except the ElseJump itself is attributed, so any two of them are ordered by the rules -/
example (d' : BState Unit) (entry : Nat)
    (h : build (fun _ => none) (defaultFuel 7) 3 exElse BState.empty = .ok (d', entry))
    (x z kx kz : Nat) (hmx : d'.metadata[kx]? = some (some x)) (hmz : d'.metadata[kz]? = some (some z)) (hne : x ≠ z) :
    EmitBefore2 exElse 3 x z ∨ EmitBefore2 exElse 3 z x ∨ Bracketed exElse x z :=
  C04_evaluation_order_total_all (fun _ => none) _ 3 exElse BState.empty d' entry h x z kx kz (Nat.zero_le _) (Nat.zero_le _)
    hmx hmz hne

/-- and the rules give the order that was computed: e.g. the arm `6` precedes the arm `2` by the stack rule, and both
follow the main line (`C04_out_of_line_after_root`) -/
example : metaOf (defaultFuel 7) 3 exElse = [some 0, some 1, some 4, some 5, none, some 6, none, some 2, none] := by decide

end Garnish.Props.C04Order
