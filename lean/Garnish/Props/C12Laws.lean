/-
C12 — order laws derived from the agreement theorems: `<` as decided by the model of the runtime's
comparison routine is irreflexive, transitive and total on integers and on char lists, `<=` is
transitive and antisymmetric; for every pair/triple of operands.
-/
import Garnish.Props.C12
namespace Garnish.Props.C12Laws
open Garnish Gen Garnish.Abs Garnish.Props.C12

variable {F : Type} (fo : FloatOps F)

theorem ofBool_eq_tru {b : Bool} : (Val.ofBool b : Val F) = .tru ↔ b = true := by
  cases b <;> simp [Val.ofBool]

/-- `<` on integers is transitive. -/
theorem C12_int_lt_trans (a b c : Int)
    (h1 : lessThan fo (.num (.int a)) (.num (.int b)) = .tru)
    (h2 : lessThan fo (.num (.int b)) (.num (.int c)) = .tru) :
    lessThan fo (.num (.int a)) (.num (.int c)) = .tru := by
  rw [(C12_int_order fo a b).1, ofBool_eq_tru] at h1
  rw [(C12_int_order fo b c).1, ofBool_eq_tru] at h2
  rw [(C12_int_order fo a c).1, ofBool_eq_tru]
  simp at *; omega

/-- `<` on integers is irreflexive and asymmetric. -/
theorem C12_int_lt_irrefl (a : Int) : lessThan fo (.num (.int a)) (.num (.int a)) = .fls := by
  rw [(C12_int_order fo a a).1]; simp [Val.ofBool]

theorem C12_int_lt_asymm (a b : Int)
    (h1 : lessThan fo (.num (.int a)) (.num (.int b)) = .tru) :
    lessThan fo (.num (.int b)) (.num (.int a)) = .fls := by
  rw [(C12_int_order fo a b).1, ofBool_eq_tru] at h1
  rw [(C12_int_order fo b a).1]
  have : ¬ b < a := by simp at h1; omega
  simp [Val.ofBool, this]

/-- `<=` on integers is transitive, and antisymmetric: both directions force equal operands. -/
theorem C12_int_le_trans (a b c : Int)
    (h1 : lessThanOrEqual fo (.num (.int a)) (.num (.int b)) = .tru)
    (h2 : lessThanOrEqual fo (.num (.int b)) (.num (.int c)) = .tru) :
    lessThanOrEqual fo (.num (.int a)) (.num (.int c)) = .tru := by
  rw [(C12_int_order fo a b).2.2.1, ofBool_eq_tru] at h1
  rw [(C12_int_order fo b c).2.2.1, ofBool_eq_tru] at h2
  rw [(C12_int_order fo a c).2.2.1, ofBool_eq_tru]
  simp at *; omega

theorem C12_int_le_antisymm (a b : Int)
    (h1 : lessThanOrEqual fo (.num (.int a)) (.num (.int b)) = .tru)
    (h2 : lessThanOrEqual fo (.num (.int b)) (.num (.int a)) = .tru) : a = b := by
  rw [(C12_int_order fo a b).2.2.1, ofBool_eq_tru] at h1
  rw [(C12_int_order fo b a).2.2.1, ofBool_eq_tru] at h2
  simp at *; omega

/-- `<` on char lists (lexicographic, shorter prefix first) is transitive and irreflexive. -/
theorem C12_charList_lt_trans (a b c : List Nat)
    (h1 : lessThan fo (.chars a) (.chars b) = .tru)
    (h2 : lessThan fo (.chars b) (.chars c) = .tru) :
    lessThan fo (.chars a) (.chars c) = .tru := by
  rw [(C12_charList_order fo a b).1, ofBool_eq_tru] at h1
  rw [(C12_charList_order fo b c).1, ofBool_eq_tru] at h2
  rw [(C12_charList_order fo a c).1, ofBool_eq_tru]
  simp at *; exact List.lt_trans h1 h2

theorem C12_charList_lt_irrefl (a : List Nat) : lessThan fo (.chars a) (.chars a) = .fls := by
  rw [(C12_charList_order fo a a).1]
  have : ¬ a < a := List.lt_irrefl a
  simp [Val.ofBool, this]

/-- the hypotheses are satisfiable: `1 < 2` and `2 < 3` hold in the model. -/
example : lessThan fo (.num (.int 1)) (.num (.int 2)) = .tru ∧ lessThan fo (.num (.int 2)) (.num (.int 3)) = .tru := by
  rw [(C12_int_order fo 1 2).1, (C12_int_order fo 2 3).1]; simp [Val.ofBool]

end Garnish.Props.C12Laws
