/-
C07 — executing a built program never panics the host.
What a theorem can carry here: in the models every place where the Rust code could panic is an explicit
guard whose failure is an `err`/`none` outcome, and the abstract machine's step function is total with
`running | halted | err` as its only outcomes. The number model's guards are exactly the Rust panic
conditions of i32 arithmetic (division by zero, MIN / -1, shift counts outside 0..31), discharged for all
operands; index arithmetic of the value-level accessors never leaves the sequence. Panics inside the data
implementations, allocation failure and stack exhaustion are runtime facts: they are watched by the
RUN/OP oracles (no PANIC/ABORT/HANG on any case, both stores, three host modes) and by the regenerated
panic-site inventory (tools/gen/panic_sites.py), not proved.
-/
import Garnish.Props.C09
import Garnish.Abs.Machine
namespace Garnish.Props.C07
open Garnish Gen Garnish.Abs

variable {F : Type} (fo : FloatOps F) (host : Host F)

/-- integer arithmetic never reaches a Rust panic condition: whenever the exact operation is undefined
(zero divisor, MIN / -1, shift count outside 0..31, negative exponent) the result is `none`, for all i32 -/
theorem C07_int_guards (a b : Int) (ha : InRange a) (hb : InRange b) :
    (b = 0 → Number.divide fo (.int a) (.int b) = none ∧ Number.remainder fo (.int a) (.int b) = none ∧
             Number.integerDivide fo (.int a) (.int b) = none) ∧
    (a = -2147483648 ∧ b = -1 → Number.divide fo (.int a) (.int b) = none ∧ Number.remainder fo (.int a) (.int b) = none) ∧
    ((b < 0 ∨ 31 < b) → Number.bitwiseShiftLeft (F := F) (.int a) (.int b) = none ∧
                         Number.bitwiseShiftRight (F := F) (.int a) (.int b) = none) ∧
    (b < 0 → Number.power fo (.int a) (.int b) = none) := by
  refine ⟨?_, ?_, ?_, ?_⟩
  · intro h; subst h
    simp [Number.divide, Number.remainder, Number.integerDivide, Number.isZeroNum]
  · rintro ⟨rfl, rfl⟩
    rw [C09.C09_int_divide fo _ _ ha hb, C09.C09_int_remainder fo _ _ ha hb]
    have h1 : Spec.div (-2147483648) (-1) = none := by decide
    have h2 : Spec.rem (-2147483648) (-1) = none := by decide
    simp [h1, h2]
  · intro h
    simp [Number.bitwiseShiftLeft, Number.bitwiseShiftRight, h]
  · intro h; simp [Number.power, h]

/-- positional access never indexes outside the sequence: outside 0..n-1 the answer is "no item" -/
theorem C07_index_guarded (i : Int) (items : List (Val F)) (h : i < 0 ∨ (items.length : Int) ≤ i) :
    (match accessInt fo (.int i) (.list items) with | .none => True | _ => False) := by
  simp only [accessInt, numLtZero, geLen, Number.partialCmp]
  rcases h with h | h
  · simp [h]
  · by_cases hneg : i < 0
    · simp [hneg]
    · have hc : compare i (items.length : Int) ≠ .lt := by
        intro hlt; have := Int.compare_eq_lt.mp hlt; omega
      simp only [hneg, decide_false, Bool.false_or]
      cases hcmp : compare i (items.length : Int) <;> simp_all

/-- the machine's step function is total: there is no outcome besides running, halted and a runtime
error value the host can handle (by construction of `StepRes`; stated for the record) -/
theorem C07_step_outcomes (P : Prog F) (s : MState F) :
    (∃ s', step fo host P s = .running s') ∨ (∃ s', step fo host P s = .halted s') ∨ (∃ e, step fo host P s = .err e) := by
  cases h : step fo host P s with
  | running s' => exact .inl ⟨s', rfl⟩
  | halted s' => exact .inr (.inl ⟨s', rfl⟩)
  | err e => exact .inr (.inr ⟨e, rfl⟩)

end Garnish.Props.C07
