/-
Non-vacuity of `C01_text_to_simple_store` (Props/C01TextStoreOn.lean): the source text `$ ?> 1 |> 2` on the payload
model of `SimpleGarnishData`, every hypothesis discharged. `condSimple` is the built program as it sits in Simple
(`reloc`); `cond_r0 … cond_r4` establish the run-level side condition `RunOKOn` along the five machine steps
(PutValue, JumpIfTrue, Put, JumpTo, EndExpression) for every step count.
-/
import Garnish.Props.C01TextStoreOn
import Garnish.Props.RuntimeRefineSimple2
set_option linter.unusedSimpArgs false
set_option linter.unusedVariables false
namespace Garnish.Props.C01TextStore
open Garnish Garnish.Gen Garnish.Spec Garnish.Abs Garnish.Abs.Tree Garnish.Abs.Source Garnish.Model Garnish.Model.Parser
open Garnish.Model.Lexer Garnish.Model.Literals Garnish.Model.Build Garnish.Props.C01Build Garnish.Props.C01Source
open Garnish.Props.C02Numbered Garnish.Props.C01Text
open Garnish.Model.Equality Garnish.Model.Runtime Garnish.Lemmas.Runtime Garnish.Props.RuntimeRefine
open Garnish.Lemmas.Runtime.On Garnish.Lemmas.Runtime.Simple

/-- `$ ?> 1 |> 2` as it sits in a `SimpleGarnishData` -/
def condSimple : Prog Float := reloc (compile progCond)


def cm (pc : Nat) (regs : List (Val Float)) : MState Float :=
  { pc := pc, regs := regs, vals := [.tru], frames := [], trace := [] }

variable (fo : FloatOps Float) (host : Host Float)

theorem mdeep_nil (pc : Nat) (regs rs : List (Val Float)) : MDeep (cm pc regs) rs := fun fr frs h => by cases h

theorem cond_r4 (x : Val Float) (hx : x ≠ .custom) : ∀ k, RunOKOn fo host condSimple k (cm 3 [x]) := by
  intro k
  cases k with
  | zero => trivial
  | succ k =>
    refine ⟨fun instr operand hf => ?_, fun m' hst => ?_⟩
    · have : condSimple.instrs[(cm 3 [x]).pc]? = some (.endExpression, none) := by rfl
      rw [this] at hf; cases hf
      intro r rs h
      cases h
      exact ⟨hx, mdeep_nil _ _ _, fun _ => rfl⟩
    · have : Abs.step fo host condSimple (cm 3 [x]) = .halted { cm 3 [] with vals := [x], pc := 6 } := by rfl
      rw [this] at hst; cases hst

theorem cond_r3 (x : Val Float) (hx : x ≠ .custom) : ∀ k, RunOKOn fo host condSimple k (cm 5 [x]) := by
  intro k
  cases k with
  | zero => trivial
  | succ k =>
    refine ⟨fun instr operand hf => ?_, fun m' hst => ?_⟩
    · have : condSimple.instrs[(cm 5 [x]).pc]? = some (.jumpTo, some 2) := by rfl
      rw [this] at hf; cases hf
      trivial
    · have : Abs.step fo host condSimple (cm 5 [x]) = .running (cm 3 [x]) := by rfl
      rw [this] at hst; cases hst
      exact cond_r4 fo host x hx k

theorem cond_r2 : ∀ k, RunOKOn fo host condSimple k (cm 4 []) := by
  intro k
  cases k with
  | zero => trivial
  | succ k =>
    refine ⟨fun instr operand hf => ?_, fun m' hst => ?_⟩
    · have : condSimple.instrs[(cm 4 []).pc]? = some (.put, some 4) := by rfl
      rw [this] at hf; cases hf
      intro k v hk hc
      cases hk
      have : condSimple.consts[4]? = some (.num (.int 1)) := by rfl
      rw [this] at hc; cases hc
      intro h; cases h
    · have : Abs.step fo host condSimple (cm 4 []) = .running (cm 5 [.num (.int 1)]) := by rfl
      rw [this] at hst; cases hst
      exact cond_r3 fo host _ (by intro h; cases h) k

theorem cond_r1 : ∀ k, RunOKOn fo host condSimple k (cm 1 [.tru]) := by
  intro k
  cases k with
  | zero => trivial
  | succ k =>
    refine ⟨fun instr operand hf => ?_, fun m' hst => ?_⟩
    · have : condSimple.instrs[(cm 1 [.tru]).pc]? = some (.jumpIfTrue, some 1) := by rfl
      rw [this] at hf; cases hf
      intro r rs h
      exact mdeep_nil _ _ _
    · have : Abs.step fo host condSimple (cm 1 [.tru]) = .running (cm 4 []) := by rfl
      rw [this] at hst; cases hst
      exact cond_r2 fo host k

theorem cond_r0 : ∀ k, RunOKOn fo host condSimple k (cm 0 []) := by
  intro k
  cases k with
  | zero => trivial
  | succ k =>
    refine ⟨fun instr operand hf => ?_, fun m' hst => ?_⟩
    · have : condSimple.instrs[(cm 0 []).pc]? = some (.putValue, none) := by rfl
      rw [this] at hf; cases hf
      intro v vs h
      cases h
      intro h; cases h
    · have : Abs.step fo host condSimple (cm 0 []) = .running (cm 1 [.tru]) := by rfl
      rw [this] at hst; cases hst
      exact cond_r1 fo host k


/-- a cache that never hits, a host that declines -/
abbrev exStore : RStore Float (SimState Float) := simpleRStore (fun _ _ => none) (fun _ st => (false, st))

/-- **non-vacuity**: the text `$ ?> 1 |> 2`, lexed, parsed and built by the models, relocated into a
`SimpleGarnishData` (payload model, cache that never hits) with the input value `true`, run by the address-level
loop: it ends (`End`) with ONE input-value address, and that address decodes to `1` — the value `evalProgram` assigns
to the text on input `true`; no register and no frame are left and the invariant holds. All hypotheses of
`C01_text_to_simple_store` are discharged (`RunOKOn` step by step along the five machine steps). -/
example (fo : FloatOps Float) :
    ∃ d entry n, buildText noFloat asciiCC "$ ?> 1 |> 2".toList = .ok (d, entry) ∧
      ∃ s' a, executeLoop fo exStore 0 (fullHandlers fo exStore 0 (RM.fail .unsupported)) n
          (loadSimple (reloc (progOf d)) ((progOf d).jumps[entry]?.getD 0) .tru) = .ok ((.end_, n), s') ∧
        s'.values = [a] ∧ Decodes (simView s'.cells) a (.num (.int 1)) ∧ exStore.regs s' = [] ∧
        exStore.frames s' = [] ∧ SInv s' := by
  obtain ⟨d, entry, n, hb, hrun⟩ :=
    C01_text_to_simple_store (hit := fun _ _ => none) noFloat asciiCC C15_hitSound_never (fun _ st => (false, st))
      fo Host.declining 0 (fullHandlers fo exStore 0 (RM.fail .unsupported)) _ _ text_cond_lex
      (by rw [text_cond_toks]; exact exCond_frag') _
      (by rw [text_cond_toks]; exact exCond_ref) progCond (by rw [text_cond_toks]; exact exCond_elab) progCond_wf
      .tru 5 _ _ (progCond_meaning fo Host.declining)
  obtain ⟨d', hb', hi, hj, hc⟩ :=
    C01_text_build noFloat asciiCC _ _ text_cond_lex (by rw [text_cond_toks]; exact exCond_frag') _
      (by rw [text_cond_toks]; exact exCond_ref) progCond (by rw [text_cond_toks]; exact exCond_elab) (by rfl)
  rw [hb] at hb'
  obtain ⟨rfl, rfl⟩ : d = d' ∧ entry = 0 := by
    simp only [Outcome.ok.injEq, Prod.mk.injEq] at hb'; exact hb'
  have hprog : progOf d = compile progCond := by
    show Prog.mk d.instrs d.jumps d.consts = _
    rw [hi, hj, hc]
  have hleaf : (progOf d).consts.toList.all isLeafS = true := by rw [hprog]; rfl
  have hok := cond_r0 fo Host.declining n
  rw [hprog] at hrun
  obtain ⟨s', a, h1, h2, h3, h4, h5, h6⟩ := hrun (by rw [← hprog]; exact hleaf) rfl hok
  refine ⟨d, 0, n, hb, s', a, ?_, h2, h3, h4, h5, h6⟩
  rw [hprog]; exact h1

end Garnish.Props.C01TextStore
