/-
Non-vacuity of Props/SourceProps2/3.lean: source STRINGS, the lexing hypotheses by evaluation (ASCII character classes;
`noFloat`: none of the literals is a float).
-/
import Garnish.Props.SourceProps4
namespace Garnish.Props.SourceProps
open Garnish Garnish.Gen Garnish.Spec Garnish.Spec.Spell Garnish.Abs Garnish.Abs.Tree Garnish.Abs.Source Garnish.Model
open Garnish.Model.Parser Garnish.Model.Lexer Garnish.Model.Literals Garnish.Model.Build Garnish.Props.C01Build
open Garnish.Props.C01Source Garnish.Props.C02Numbered Garnish.Props.C01Text Garnish.Props.C01Blocks
open Garnish.Lemmas.Literals

variable (fo : FloatOps Float) (host : Host Float)

/-- C14: `016_ff` (255 in radix 16) runs to 255 -/
example : (spellNumber 16 255 [] = "016_ff".toList) ∧
    ∃ dd entry, buildText noFloat asciiCC "016_ff".toList = .ok (dd, entry) ∧ RunsTo fo host dd entry .unit (.num (.int 255)) :=
  ⟨by rfl, C14_text_roundtrip noFloat asciiCC fo host 16 255 (by omega) (by omega) (by omega) 0 0 (by rfl) .unit⟩

/-- C14: `"a\nb"` runs to the three characters `a`, newline, `b` -/
example : ∃ dd entry, buildText noFloat asciiCC (quoteCharList 1 "a\\nb".toList) = .ok (dd, entry) ∧
    RunsTo fo host dd entry .unit (.chars [97, 10, 98]) :=
  C14_text_charlist noFloat asciiCC fo host 1 "a\\nb".toList (by decide) ['a', '\n', 'b'] (by rfl) 0 0 (by rfl) .unit

/-- C14: `'''1 255'''` (numeric form) runs to the bytes 1, 255 -/
example : ∃ dd entry, buildText noFloat asciiCC (spellBytesNumeric 3 [1, 255]) = .ok (dd, entry) ∧
    RunsTo fo host dd entry .unit (.bytes [1, 255]) :=
  C14_text_bytelist_numeric noFloat asciiCC fo host 3 (by omega) [1, 255] (by decide) 0 0 (by rfl) .unit

/-- C14: `:abc` runs to the symbol SipHash-1-3("abc") -/
example : ∃ dd entry, buildText noFloat asciiCC ":abc".toList = .ok (dd, entry) ∧
    RunsTo fo host dd entry .unit (.sym (Garnish.Model.SipHash.symbolValue "abc".toList).toNat) :=
  C14_text_symbol noFloat asciiCC fo host "abc".toList (by decide) (by decide) 0 0 (by rfl) .unit

/-- C09: `12 + 30` runs to 42; `12 ** 30` overflows an `i32` and runs to unit — never to a wrapped value -/
example : (∃ dd entry, buildText noFloat asciiCC "12 + 30".toList = .ok (dd, entry) ∧ RunsTo fo host dd entry .unit (.num (.int 42))) ∧
    (∃ dd entry, buildText noFloat asciiCC "12 ** 30".toList = .ok (dd, entry) ∧ RunsTo fo host dd entry .unit .unit) := by
  have h1 := C09_text_int_arith noFloat asciiCC fo host 10 12 10 30 [] [] (by omega) (by omega) (by omega) (by omega)
    (by intro _ h; cases h) (by intro _ h; cases h) .plusSign .addition .add Spec.add rfl rfl "12 + 30".toList
    (lexed "12 + 30") (by rfl) " ".toList "+".toList " ".toList (by rfl) .unit
  have h2 := C09_text_int_arith noFloat asciiCC fo host 10 12 10 30 [] [] (by omega) (by omega) (by omega) (by omega)
    (by intro _ h; cases h) (by intro _ h; cases h) .exponentialSign .exponentialSign .power Spec.pow rfl rfl "12 ** 30".toList
    (lexed "12 ** 30") (by rfl) " ".toList "**".toList " ".toList (by rfl) .unit
  have e1 : numResult ((Spec.add ((12 : Nat) : Int) ((30 : Nat) : Int)).map Number.int) = (.num (.int 42) : Val Float) := by rfl
  have e2 : numResult ((Spec.pow ((12 : Nat) : Int) ((30 : Nat) : Int)).map Number.int) = (.unit : Val Float) := by rfl
  rw [e1] at h1
  rw [e2] at h2
  exact ⟨h1, h2⟩

/-- C12: `"ab" < "b"` runs to `$?` -/
example : ∃ dd entry, buildText noFloat asciiCC "\"ab\" < \"b\"".toList = .ok (dd, entry) ∧ RunsTo fo host dd entry .unit .tru := by
  have h := C12_text_charlist_order noFloat asciiCC fo host 1 1 "ab".toList "b".toList (by decide) (by decide) "ab".toList
    "b".toList (by rfl) (by rfl) .lessThan .lessThan .lessThan _ rfl rfl "\"ab\" < \"b\"".toList (lexed "\"ab\" < \"b\"") (by rfl)
    " ".toList "<".toList " ".toList (by rfl) .unit
  exact h

/-- C11: `016_7 == 7` — the same number written in two radices — runs to `$?` -/
example : ∃ dd entry, buildText noFloat asciiCC "016_7 == 7".toList = .ok (dd, entry) ∧ RunsTo fo host dd entry .unit .tru :=
  C11_text_int_equal noFloat asciiCC fo host 16 7 10 7 [] [] (by omega) (by omega) (by omega) (by omega)
    (by intro h; cases h) (by intro _ h; cases h) "016_7 == 7".toList (lexed "016_7 == 7") (by rfl) " ".toList "==".toList
    " ".toList (by rfl) .unit

end Garnish.Props.SourceProps
