/-
Runtime refinement, part 7 (C01 anchor): ONE STEP for the whole instruction set. The dispatcher of execute.rs with
`fullHandlers` (Model/Runtime/Internals.lean: `type_of`, `type_equal`, the `equal` / `not_equal` wrappers, internals.rs)
simulates `Abs.Machine.step` for every instruction: the 48 of `C01_refine_step` plus TypeOf, TypeEqual, Equal, NotEqual,
AccessLeftInternal, AccessRightInternal, AccessLengthInternal. For `ApplyType` the value-level machine answers
`unsupported` (casts are outside Abs/Machine: Abs/Casts.lean + Props/C08Casts cover them), so the step relation claims
nothing there and `type_cast` stays the parameter `cast` of the dispatcher.
-/
import Garnish.Lemmas.RuntimeStep9
set_option linter.unusedSimpArgs false
set_option linter.unusedVariables false
namespace Garnish.Props.RuntimeRefine
open Garnish Gen Garnish.Abs Garnish.Model.Equality Garnish.Model.Runtime Garnish.Lemmas.Runtime

variable {F σ : Type} {S : RStore F σ} {P : Prog F} {host : Host F} (fo : FloatOps F)

theorem C01_refine_step_full (L : StoreLaws S) (HR : HostRefines S host) (fuel : Nat) (cast : RM σ (Option Nat))
    {s : σ} {m : MState F} (hsim : Sim S P s m) {instr : Instruction} {operand : Option Nat}
    (hfetch : P.instrs[m.pc]? = some (instr, operand)) (hok : StepOKF fo S P fuel s m instr operand) :
    StepSim fo host S P fuel (fullHandlers fo S fuel cast) s m := by
  by_cases hnew : instr = .typeOf ∨ instr = .typeEqual ∨ instr = .equal ∨ instr = .notEqual ∨
      instr = .accessLeftInternal ∨ instr = .accessRightInternal ∨ instr = .accessLengthInternal ∨
      instr = .applyType
  · rcases hnew with rfl | rfl | rfl | rfl | rfl | rfl | rfl | rfl
    · exact stepSim_typeOf fo L HR fuel cast hsim hfetch
    · exact stepSim_typeEqual fo L HR fuel cast hsim hfetch
    · exact stepSim_equal fo L HR fuel cast hsim hfetch hok
    · exact stepSim_notEqual fo L HR fuel cast hsim hfetch hok
    · exact stepSim_leftInternal fo L HR fuel cast hsim hfetch
    · exact stepSim_rightInternal fo L HR fuel cast hsim hfetch
    · exact stepSim_lengthInternal fo L HR fuel cast hsim hfetch hok
    · exact stepSim_of_err fo fuel _ s (e := .unsupported) (by unfold Abs.step; rw [hfetch])
  · have hok' : StepOK fo S P fuel s m instr operand := by
      cases instr <;> first | exact hok | exact absurd (by simp) hnew
    exact C01_refine_step fo L HR fuel _ hsim hfetch hok'

end Garnish.Props.RuntimeRefine
