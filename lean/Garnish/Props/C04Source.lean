/-
C04 — `C04_source_attribution`: the parser half and the builder half together, directly about token lists.

For every token list of `frag9'` (Props/C02Numbered.lean: the lists of `frag9` without a trailing blank line before a `}`)
that the parser accepts, and every successful `build` of the parser's output:
  * the node array is the sequence of the significant tokens: the nodes are numbered in in-order (`x < z` in the array ⟺
    the token of `x` is written before the token of `z`), every node is in the tree, every node carries the text of the
    token at its position (`C02_parse_wellNumbered`);
  * every node — every significant token — whose definition is attributable (not Group, List, CommaList, ElseJump,
    Subexpression: the structural ones) has an instruction attributed to it (`C04_build_attributes_every_node`);
  * inside one root the instruction order follows the token order of the operands: for a node `p` with both children in
    line, everything in line below the left child is written before `p`, everything in line below the right child after
    `p`, and the instructions of the former precede those of the latter — except for Pair / ApplyTo, where they follow them;
  * a separator or value-like node (layout lnr) emits between the two; every other node after the operands that are
    scheduled above it (`C04_child_before_node`, stated with the token order in `C04_source_operand_first`);
  * the subtree of an out-of-line child is written after its owner and emitted after the whole root of its owner.
-/
import Garnish.Props.C04Eval
import Garnish.Props.C02Numbered
import Garnish.Lemmas.TreeOrder
namespace Garnish.Props.C04Source
open Garnish Garnish.Gen Garnish.Spec Garnish.Model.Parser Garnish.Model.Build Garnish.Lemmas.Build
open Garnish.Lemmas.BuildSeq Garnish.Lemmas.TreeOrder Garnish.Props.C04Order Garnish.Props.C02Numbered
open Garnish.Abs.Source (textAt)

variable {F : Type}

/-- what the numbering of the parser's result says about the descendants of a node -/
theorem numbered_sides (toks : List PToken) (hf : frag9' toks = true) (hnum : NumberedFrom 0 toks) (r : ParseResult) (t : Spec.Tree)
    (hp : parse toks = .ok r) (ht : toTree r = some t) (y : Nat) (yn : ParseNode) (hy : r.nodes[y]? = some yn) :
    Sub r.nodes r.root y ∧ (∀ c x, yn.left = some c → Sub r.nodes c x → x < y) ∧
      (∀ c z, yn.right = some c → Sub r.nodes c z → y < z) := by
  have hwn := C02_parse_wellNumbered toks hf hnum r t hp ht
  obtain ⟨htree, _⟩ := (Garnish.Spec.toTree_some_iff r t).mp ht
  have hylt : y < r.nodes.size := by
    rcases Nat.lt_or_ge y r.nodes.size with h | h
    · exact h
    · rw [Array.getElem?_eq_none h] at hy; cases hy
  have hmem : y ∈ t.inorder := by rw [hwn.inord]; simpa using hylt
  have hne : r.nodes.isEmpty = false := by
    cases hb : r.nodes.isEmpty
    · rfl
    · have : r.nodes.size = 0 := by simpa [Array.isEmpty] using hb
      omega
  have hroot : rootLink r = some r.root := by simp [rootLink, hne]
  have hpw : t.inorder.Pairwise (· < ·) := by rw [hwn.inord]; exact range_pairwise _
  exact ⟨mem_sub htree r.root hroot y hmem, inorder_sides htree hpw y hmem yn hy⟩

/-- C04, tokens → instructions -/
theorem C04_source_attribution (parseFloat : List Char → Option F) (toks : List PToken) (hf : frag9' toks = true)
    (hnum : NumberedFrom 0 toks) (r : ParseResult) (t : Spec.Tree) (hp : parse toks = .ok r) (ht : toTree r = some t)
    (fuel : Nat) (d d' : BState F) (entry : Nat) (hb : build parseFloat fuel r.root r.nodes d = .ok (d', entry)) :
    -- the node array is the sequence of the significant tokens
    (t.inorder = List.range r.nodes.size ∧
      ∀ (i : Nat) (n : ParseNode), r.nodes[i]? = some n → textAt toks (tokPos n) = n.lexToken.text) ∧
    -- every token that is not structural gets an instruction
    (∀ (i : Nat) (n : ParseNode), r.nodes[i]? = some n → Garnish.Lemmas.BuildAttr.attributable n.definition = true →
      ∃ k, d.metadata.size ≤ k ∧ d'.metadata[k]? = some (some i)) ∧
    -- operands: token order and instruction order
    (∀ (p l rt : Nat) (pn : ParseNode), r.nodes[p]? = some pn → pn.left = some l → pn.right = some rt →
      inlL (layout pn.definition) = true → inlR (layout pn.definition) = true →
      ∀ x z, IDesc r.nodes l x → IDesc r.nodes rt z → (x < p ∧ p < z) ∧
        ∀ kx kz, d.metadata.size ≤ kx → d.metadata.size ≤ kz → d'.metadata[kx]? = some (some x) →
          d'.metadata[kz]? = some (some z) → if layout pn.definition = .rln then kz < kx else kx < kz) ∧
    -- out of line: written after the owner, emitted after the owner's root
    (∀ (ρ y rt : Nat) (yn : ParseNode), IDesc r.nodes ρ y → r.nodes[y]? = some yn → yn.right = some rt →
      oolR yn.definition = true → r.nodes[ρ]? ≠ none → ∀ x z, IDesc r.nodes ρ x → Sub r.nodes rt z → y < z ∧
        ∀ kx kz, d.metadata.size ≤ kx → d.metadata.size ≤ kz → d'.metadata[kx]? = some (some x) →
          d'.metadata[kz]? = some (some z) → kx < kz) := by
  have hwn := C02_parse_wellNumbered toks hf hnum r t hp ht
  refine ⟨⟨hwn.inord, hwn.linked⟩, ?_, ?_, ?_⟩
  · intro i n hi ha
    exact Garnish.Props.C04Build.C04_build_attributes_every_node parseFloat fuel r.root r.nodes d d' entry hb i n hi ha
  · intro p l rt pn hpn hl hr hil hir x z hx hz
    obtain ⟨hsub, hleft, hright⟩ := numbered_sides toks hf hnum r t hp ht p pn hpn
    refine ⟨⟨hleft l x hl hx.sub, hright rt z hr hz.sub⟩, ?_⟩
    intro kx kz hkx hkz hmx hmz
    have ht' : InTree r.nodes r.root p := Or.inl hsub
    cases hlay : layout pn.definition with
    | rln =>
      simp only [if_true]
      exact C04_children_swapped ⟨⟨entry, hb⟩, hkz, hkx, hmz, hmx⟩ p l rt pn hpn ht' hl hr hlay hz hx
    | lrn =>
      simp only [reduceCtorEq, if_false]
      exact C04_children_in_order ⟨⟨entry, hb⟩, hkx, hkz, hmx, hmz⟩ p l rt pn hpn ht' hl hr (Or.inl hlay) hx hz
    | lnr =>
      simp only [reduceCtorEq, if_false]
      exact C04_children_in_order ⟨⟨entry, hb⟩, hkx, hkz, hmx, hmz⟩ p l rt pn hpn ht' hl hr (Or.inr hlay) hx hz
    | ln => rw [hlay] at hir; cases hir
    | rn => rw [hlay] at hil; cases hil
    | gr => rw [hlay] at hil; cases hil
    | none => rw [hlay] at hil; cases hil
  · intro ρ y rt yn hy hyn hr hool hρ x z hx hz
    obtain ⟨_, _, hright⟩ := numbered_sides toks hf hnum r t hp ht y yn hyn
    refine ⟨hright rt z hr hz, ?_⟩
    intro kx kz hkx hkz hmx hmz
    cases hρn : r.nodes[ρ]? with
    | none => exact absurd hρn hρ
    | some ρn =>
      obtain ⟨hsub, _, _⟩ := numbered_sides toks hf hnum r t hp ht ρ ρn hρn
      exact C04_out_of_line_after_root ⟨⟨entry, hb⟩, hkx, hkz, hmx, hmz⟩ ρ y rt yn (Or.inl hsub) hy hyn hr hool hx hz

/-- an operand that is scheduled above its operator: written before (left) or after (right) the operator, emitted before it -/
theorem C04_source_operand_first (parseFloat : List Char → Option F) (toks : List PToken) (hf : frag9' toks = true)
    (hnum : NumberedFrom 0 toks) (r : ParseResult) (t : Spec.Tree) (hp : parse toks = .ok r) (ht : toTree r = some t)
    (fuel : Nat) (d d' : BState F) (entry : Nat) (hb : build parseFloat fuel r.root r.nodes d = .ok (d', entry))
    (p c x : Nat) (pn : ParseNode) (hpn : r.nodes[p]? = some pn)
    (hc : (pn.left = some c ∧ inlL (layout pn.definition) = true) ∨ (pn.right = some c ∧ preR (layout pn.definition) = true))
    (hnse : pn.definition ≠ .sideEffect) (hx : IDesc r.nodes c x) :
    (pn.left = some c → x < p) ∧ (pn.right = some c → p < x) ∧
    ∀ kx kp, d.metadata.size ≤ kx → d.metadata.size ≤ kp → d'.metadata[kx]? = some (some x) →
      d'.metadata[kp]? = some (some p) → kx < kp := by
  obtain ⟨hsub, hleft, hright⟩ := numbered_sides toks hf hnum r t hp ht p pn hpn
  refine ⟨fun h => hleft c x h hx.sub, fun h => hright c x h hx.sub, ?_⟩
  intro kx kp hkx hkp hmx hmp
  exact C04_child_before_node ⟨⟨entry, hb⟩, hkx, hkp, hmx, hmp⟩ c pn hpn (Or.inl hsub) hc hnse hx

/-! ### non-vacuity -/

open Garnish.Props.C01Source Garnish.Props.C01Build in
/-- the hypotheses are satisfiable: `exCond` of Props/C01Source.lean (a conditional) is in `frag9'`, the parser accepts it, its
result is a proper tree and `build` succeeds — so every non-structural token of it has an instruction -/
example : ∃ r d, parse exCond = .ok r ∧ build noFloat (defaultFuel r.nodes.size) r.root r.nodes BState.empty = .ok (d, 0) ∧
    ∀ (i : Nat) (n : ParseNode), r.nodes[i]? = some n → Garnish.Lemmas.BuildAttr.attributable n.definition = true →
      ∃ k : Nat, d.metadata[k]? = some (some i) := by
  obtain ⟨r, d, hp, hb, _⟩ := C01_source_build noFloat exCond exCond_frag' exCond_num _ exCond_ref progCond exCond_elab (by rfl)
  obtain ⟨r', t, hp', _, _, ht, _⟩ := C02Parse.C04_parse_proper_refgrammar9 exCond (frag9'_sub exCond_frag') exCond_num
  rw [hp] at hp'; cases hp'
  refine ⟨r, d, hp, hb, fun i n hi ha => ?_⟩
  obtain ⟨k, _, hk⟩ := (C04_source_attribution noFloat exCond exCond_frag' exCond_num r t hp ht _ _ d 0 hb).2.1 i n hi ha
  exact ⟨k, hk⟩

end Garnish.Props.C04Source
