/-
Runtime refinement, part 1 (C10 anchors): the statement-level models of runtime/src/runtime/utilities.rs,
logical.rs and jumps.rs (Model/Runtime/{Utilities,Logical,Jumps}.lean, over the abstract store `RStore` with
the trait contract `StoreLaws`) compute on ADDRESSES what Abs/Machine.lean computes on VALUES: for every store
satisfying the contract, every register stack and every operand value.

Hypotheses: `StoreLaws S`, the shape of the register stack, `Decodes` of the operands. Nothing else.
-/
import Garnish.Lemmas.RuntimeBase
import Garnish.Model.Runtime.Refines
import Garnish.Model.Runtime.Logical
import Garnish.Model.Runtime.Jumps
import Garnish.Lemmas.RuntimeRefStore
set_option linter.unusedSimpArgs false
set_option linter.unusedVariables false
namespace Garnish.Props.RuntimeRefine
open Garnish Gen Garnish.Abs Garnish.Model.Equality Garnish.Model.Runtime Garnish.Lemmas.Runtime

variable {F σ : Type} {S : RStore F σ}

/-! ### utilities.rs -/

/-- `next_ref` pops the top register -/
theorem C10_refine_next_ref (L : StoreLaws S) {s : σ} {a : Nat} {rest : List Nat} (h : S.regs s = a :: rest) :
    Popped S s (nextRef S s) a rest := nextRef_cons L h

/-- `next_ref` on an empty register stack is the state error "No references in register." -/
theorem C10_refine_next_ref_empty (L : StoreLaws S) {s : σ} (h : S.regs s = []) :
    nextRef S s = .err .state := nextRef_nil L h

/-- `next_two_raw_ref` returns (top, second) and removes both -/
theorem C10_refine_next_two_raw_ref (L : StoreLaws S) {s : σ} {r l : Nat} {rest : List Nat}
    (h : S.regs s = r :: l :: rest) : Popped S s (nextTwoRawRef S s) (r, l) rest := nextTwoRawRef_cons L h

theorem C10_refine_push_unit (L : StoreLaws S) (s : σ) : Pushed S s (pushUnit S s) () (S.regs s) .unit :=
  pushUnit_spec L s

theorem C10_refine_push_number (L : StoreLaws S) (n : Number F) (s : σ) :
    Pushed S s (pushNumber S n s) () (S.regs s) (.num n) := pushNumber_spec L n s

theorem C10_refine_push_boolean (L : StoreLaws S) (b : Bool) (s : σ) :
    Pushed S s (pushBoolean S b s) () (S.regs s) (Val.ofBool b) := pushBoolean_spec L b s

theorem C10_refine_push_pair (L : StoreLaws S) {l r : Nat} {vl vr : Val F} {s : σ}
    (hl : Decodes (S.view s) l vl) (hr : Decodes (S.view s) r vr) :
    Pushed S s (pushPair S l r s) () (S.regs s) (.pair vl vr) := pushPair_spec L hl hr

/-! ### logical.rs -/

/-- `is_true_value` is the language's one notion of truth, read off the address, and touches nothing -/
theorem C10_refine_is_true_value {s : σ} {a : Nat} {v : Val F} (h : Decodes (S.view s) a v) :
    isTrueValue S a s = .ok (v.truthy, s) := by
  rw [isTrueValue, bind_ok (getDataType_of h)]
  cases v <;> rfl

/-- a unary tester: pop the operand, push the boolean `f (truthy v)` -/
private theorem tester (L : StoreLaws S) {s : σ} {a : Nat} {v : Val F} {rest : List Nat} (f : Bool → Bool)
    (hregs : S.regs s = a :: rest) (h : Decodes (S.view s) a v) :
    Pushed S s ((do let addr ← nextRef S; let result ← isTrueValue S addr; pushBoolean S (f result); pure none :
      RM σ (Option Nat)) s) none rest (Val.ofBool (f v.truthy)) := by
  obtain ⟨s1, h1, e1⟩ := nextRef_cons L hregs
  obtain ⟨b, s2, h2, d2, e2⟩ := pushBoolean_spec L (f v.truthy) s1
  rw [e1.regs, e1.vals] at e2
  refine ⟨b, s2, ?_, d2, e1.trans e2⟩
  rw [bind_ok h1, bind_ok (C10_refine_is_true_value (e1.dec h)), bind_ok h2]; rfl

/-- `not` = Abs/Ops `unaryOp .not` -/
theorem C10_refine_not (L : StoreLaws S) {s : σ} {a : Nat} {v : Val F} {rest : List Nat}
    (hregs : S.regs s = a :: rest) (h : Decodes (S.view s) a v) :
    Pushed S s (Model.Runtime.not S s) none rest (Val.ofBool (!v.truthy)) := tester L (fun b => !b) hregs h

/-- `tis` = Abs/Ops `unaryOp .tis` -/
theorem C10_refine_tis (L : StoreLaws S) {s : σ} {a : Nat} {v : Val F} {rest : List Nat}
    (hregs : S.regs s = a :: rest) (h : Decodes (S.view s) a v) :
    Pushed S s (tis S s) none rest (Val.ofBool v.truthy) := tester L (fun b => b) hregs h

/-- `xor` = Abs/Ops `binaryOp .xor`: true iff exactly one operand is true -/
theorem C10_refine_xor (L : StoreLaws S) {s : σ} {r l : Nat} {vr vl : Val F} {rest : List Nat}
    (hregs : S.regs s = r :: l :: rest) (hl : Decodes (S.view s) l vl) (hr : Decodes (S.view s) r vr) :
    Pushed S s (Model.Runtime.xor S s) none rest (Val.ofBool (vl.truthy != vr.truthy)) := by
  obtain ⟨s1, h1, e1⟩ := nextTwoRawRef_cons L hregs
  have hb : xorResult vr.truthy vl.truthy = (vl.truthy != vr.truthy) := by
    cases vl.truthy <;> cases vr.truthy <;> rfl
  obtain ⟨b, s2, h2, d2, e2⟩ := pushBoolean_spec L (vl.truthy != vr.truthy) s1
  rw [e1.regs, e1.vals] at e2
  refine ⟨b, s2, ?_, d2, e1.trans e2⟩
  rw [Model.Runtime.xor, bind_ok h1]
  simp only []
  rw [bind_ok (C10_refine_is_true_value (e1.dec hr)), bind_ok (C10_refine_is_true_value (e1.dec hl)), hb,
    bind_ok h2]; rfl

/-- `and`: a true operand is consumed and the handler jumps to the right operand's code (state error when
the jump table has no such entry); a false operand is replaced by `false` and execution continues -/
theorem C10_refine_and (L : StoreLaws S) {s : σ} {a : Nat} {v : Val F} {rest : List Nat} (j : Nat)
    (hregs : S.regs s = a :: rest) (h : Decodes (S.view s) a v) :
    if v.truthy then
      match S.jumpTable s j with
      | some t => Popped S s (Model.Runtime.and S j s) (some t) rest
      | none => Model.Runtime.and S j s = .err .state
    else Pushed S s (Model.Runtime.and S j s) none rest .fls := by
  obtain ⟨s1, h1, e1⟩ := nextRef_cons L hregs
  have ht := C10_refine_is_true_value (e1.dec h)
  cases hv : v.truthy <;> rw [hv] at ht
  · obtain ⟨b, s2, h2, d2, e2⟩ := pushBoolean_spec L false s1
    rw [e1.regs, e1.vals] at e2
    refine ⟨b, s2, ?_, d2, e1.trans e2⟩
    rw [Model.Runtime.and, bind_ok h1, bind_ok ht]
    simp only []
    rw [bind_ok h2]; rfl
  · have hj : S.jumpTable s1 j = S.jumpTable s j := by rw [e1.keeps.jump]
    simp only [if_true]
    cases hjt : S.jumpTable s j with
    | some t =>
      refine ⟨s1, ?_, e1⟩
      rw [Model.Runtime.and, bind_ok h1, bind_ok ht]
      simp only []
      rw [bind_ok (getFromJumpTable_apply j s1), hj, hjt]; rfl
    | none =>
      rw [Model.Runtime.and, bind_ok h1, bind_ok ht]
      simp only []
      rw [bind_ok (getFromJumpTable_apply j s1), hj, hjt]; rfl

/-- `or`: a true operand is replaced by `true`; a false operand is consumed and the handler jumps -/
theorem C10_refine_or (L : StoreLaws S) {s : σ} {a : Nat} {v : Val F} {rest : List Nat} (j : Nat)
    (hregs : S.regs s = a :: rest) (h : Decodes (S.view s) a v) :
    if v.truthy then Pushed S s (Model.Runtime.or S j s) none rest .tru
    else
      match S.jumpTable s j with
      | some t => Popped S s (Model.Runtime.or S j s) (some t) rest
      | none => Model.Runtime.or S j s = .err .state := by
  obtain ⟨s1, h1, e1⟩ := nextRef_cons L hregs
  have ht := C10_refine_is_true_value (e1.dec h)
  cases hv : v.truthy <;> rw [hv] at ht
  · have hj : S.jumpTable s1 j = S.jumpTable s j := by rw [e1.keeps.jump]
    simp only [Bool.false_eq_true, if_false]
    cases hjt : S.jumpTable s j with
    | some t =>
      refine ⟨s1, ?_, e1⟩
      rw [Model.Runtime.or, bind_ok h1, bind_ok ht]
      simp only []
      rw [bind_ok (getFromJumpTable_apply j s1), hj, hjt]; rfl
    | none =>
      rw [Model.Runtime.or, bind_ok h1, bind_ok ht]
      simp only []
      rw [bind_ok (getFromJumpTable_apply j s1), hj, hjt]; rfl
  · obtain ⟨b, s2, h2, d2, e2⟩ := pushBoolean_spec L true s1
    rw [e1.regs, e1.vals] at e2
    refine ⟨b, s2, ?_, d2, e1.trans e2⟩
    rw [Model.Runtime.or, bind_ok h1, bind_ok ht]
    simp only []
    rw [bind_ok h2]; rfl

/-! ### jumps.rs -/

/-- `jump` -/
theorem C10_refine_jump (j : Nat) (s : σ) :
    jump S j s = match S.jumpTable s j with
      | some t => .ok (some t, s)
      | none => .err .state := by
  rw [jump, bind_ok (getFromJumpTable_apply j s)]
  cases S.jumpTable s j <;> rfl

/-- `jump_if_true`: the operand is consumed; the jump is taken iff it is true (Abs/Machine `.jumpIfTrue`) -/
theorem C10_refine_jump_if_true (L : StoreLaws S) {s : σ} {a : Nat} {v : Val F} {rest : List Nat} {j t : Nat}
    (hj : S.jumpTable s j = some t) (hregs : S.regs s = a :: rest) (h : Decodes (S.view s) a v) :
    Popped S s (jumpIfTrue S j s) (if v.truthy then some t else none) rest := by
  obtain ⟨s1, h1, e1⟩ := nextRef_cons L hregs
  refine ⟨s1, ?_, e1⟩
  rw [jumpIfTrue, bind_ok (getFromJumpTable_apply j s), hj]
  simp only []
  rw [bind_ok (pure_apply t s), bind_ok h1, bind_ok (getDataType_of (e1.dec h))]
  cases v <;> rfl

/-- `jump_if_false`: the jump is taken iff the operand is false or unit -/
theorem C10_refine_jump_if_false (L : StoreLaws S) {s : σ} {a : Nat} {v : Val F} {rest : List Nat} {j t : Nat}
    (hj : S.jumpTable s j = some t) (hregs : S.regs s = a :: rest) (h : Decodes (S.view s) a v) :
    Popped S s (jumpIfFalse S j s) (if v.truthy then none else some t) rest := by
  obtain ⟨s1, h1, e1⟩ := nextRef_cons L hregs
  refine ⟨s1, ?_, e1⟩
  rw [jumpIfFalse, bind_ok (getFromJumpTable_apply j s), hj]
  simp only []
  rw [bind_ok (pure_apply t s), bind_ok h1, bind_ok (getDataType_of (e1.dec h))]
  cases v <;> rfl

/-- both conditional jumps fail with the state error BEFORE touching the registers when the jump table has
no entry `j` -/
theorem C10_refine_jump_if_no_point {s : σ} {j : Nat} (hj : S.jumpTable s j = none) :
    jumpIfTrue S j s = .err .state ∧ jumpIfFalse S j s = .err .state := by
  constructor
  · rw [jumpIfTrue, bind_ok (getFromJumpTable_apply j s), hj]; rfl
  · rw [jumpIfFalse, bind_ok (getFromJumpTable_apply j s), hj]; rfl

/-- `end_expression` (Abs/Machine `.endExpression`): the result `r` is popped and `pop_frame` asked once. With no frame
left `r` replaces the current input value (state error if there is none) and execution ends at the instruction
length. Otherwise execution returns to the frame's address: the registers are the caller's with `r` on top, the
callee's input value is popped, the frame is gone. -/
theorem C10_refine_end_expression (L : StoreLaws S) {s : σ} {r : Nat} {rest : List Nat}
    (hregs : S.regs s = r :: rest) :
    match S.frames s with
    | [] =>
      (match S.vals s with
       | [] => endExpression S s = .err .state
       | _ :: vs => ∃ s', endExpression S s = .ok (some (S.instrLen s), s') ∧ Eff S s s' rest (r :: vs))
    | (ret, saved) :: fs =>
      ∃ s', endExpression S s = .ok (some ret, s') ∧ FEff S s s' (r :: saved) (S.vals s).tail fs := by
  obtain ⟨s0, h0, e0⟩ := nextRef_cons L hregs
  cases hf : S.frames s with
  | nil =>
    obtain ⟨s1, h1, e1⟩ := L.popFrameNil s0 (by rw [e0.frames, hf])
    rw [e0.regs, e0.vals] at e1
    have e01 := e0.trans e1
    simp only []
    cases hv : S.vals s with
    | nil =>
      obtain ⟨s2, h2, e2⟩ := L.setCurrentNil r s1 (by rw [e1.vals, hv])
      simp only []
      rw [endExpression, bind_ok h0, bind_ok h1]
      simp only []
      rw [bind_ok h2]; rfl
    | cons v vs =>
      obtain ⟨s2, h2, e2⟩ := L.setCurrentCons r s1 v vs (by rw [e1.vals, hv])
      rw [e1.regs] at e2
      refine ⟨s2, ?_, e01.trans e2⟩
      rw [endExpression, bind_ok h0, bind_ok h1]
      simp only []
      rw [bind_ok h2]
      simp only []
      rw [bind_ok (read_apply S.instrLen s2), (e01.trans e2).keeps.ilen]; rfl
  | cons fr fs =>
    obtain ⟨ret, saved⟩ := fr
    obtain ⟨s1, h1, e1⟩ := L.popFrameCons s0 ret saved fs (by rw [e0.frames, hf])
    rw [e0.vals] at e1
    have e01 := e0.toF.trans e1
    simp only []
    have hpv : ∃ o2 s2, S.popValueStack s1 = .ok (o2, s2) ∧ Eff S s1 s2 saved (S.vals s).tail := by
      cases hv : S.vals s with
      | nil =>
        obtain ⟨s2, h2, e2⟩ := L.popValueStackNil s1 (by rw [e1.vals, hv])
        rw [e1.regs] at e2
        exact ⟨none, s2, h2, e2⟩
      | cons v vs =>
        obtain ⟨s2, h2, e2⟩ := L.popValueStackCons s1 v vs (by rw [e1.vals, hv])
        rw [e1.regs] at e2
        exact ⟨some v, s2, h2, e2⟩
    obtain ⟨o2, s2, h2, e2⟩ := hpv
    obtain ⟨s3, h3, e3⟩ := L.pushRegister r s2
    rw [e2.regs, e2.vals] at e3
    refine ⟨s3, ?_, (e01.thenEff e2).thenEff e3⟩
    rw [endExpression, bind_ok h0, bind_ok h1]
    simp only []
    rw [bind_ok h2, bind_ok h3]; rfl

/-! ### non-vacuity: the reference store satisfies `StoreLaws`; concrete operands -/

/-- `0: ()  1: 5  2: $!  3: "a"` -/
def exCells : List (RCell F) := [.unit, .num (.int 5), .fls, .chars [97]]

/-- a host that declines everything -/
def declining : RefHost F := fun _ => none

/-- the hypotheses of `C10_refine_not` hold for the reference store with `5` on top of the registers -/
example : Pushed (refStore declining) (RefState.init (exCells (F := F)) [1, 7])
    (Model.Runtime.not (refStore declining) (RefState.init exCells [1, 7])) none [7] .fls :=
  C10_refine_not (refStore_laws declining) (v := .num (.int 5)) rfl (.num rfl rfl)

/-- the model itself, run: `!5` pushes a new `false` cell (address 4) on the remaining register -/
example : ∃ s', Model.Runtime.not (refStore declining) (RefState.init (exCells (F := F)) [1, 7]) = .ok (none, s') ∧
    s'.regs = [4, 7] ∧ s'.cells = exCells ++ [.fls] := ⟨_, rfl, rfl, rfl⟩

/-- `$! && …` with jump table `[40]`: no jump, `false` pushed; `5 && …`: the operand is consumed, jump to 40 -/
example : ∃ s', Model.Runtime.and (refStore declining) 0 { RefState.init (exCells (F := F)) [2, 7] with jumps := [40] }
    = .ok (none, s') ∧ s'.regs = [4, 7] := ⟨_, rfl, rfl⟩
example : ∃ s', Model.Runtime.and (refStore declining) 0 { RefState.init (exCells (F := F)) [1, 7] with jumps := [40] }
    = .ok (some 40, s') ∧ s'.regs = [7] := ⟨_, rfl, rfl⟩

/-- `"a" ^^ ()` is true; `jump_if_false` on unit jumps -/
example : ∃ s', Model.Runtime.xor (refStore declining) (RefState.init (exCells (F := F)) [0, 3, 7]) = .ok (none, s') ∧
    s'.regs = [4, 7] ∧ s'.cells = exCells ++ [.tru] := ⟨_, rfl, rfl, rfl⟩
example : ∃ s', jumpIfFalse (refStore declining) 0 { RefState.init (exCells (F := F)) [0, 7] with jumps := [40] }
    = .ok (some 40, s') ∧ s'.regs = [7] := ⟨_, rfl, rfl⟩

end Garnish.Props.RuntimeRefine
