/-
The announced-length list contract and `BasicGarnishData`.

`StoreLawsOn.addToList` / `endList` (Model/Runtime/StoreOn.lean) let any number of items follow `start_list(n)`; they
are false of BasicGarnishData (`basic_not_lawsOn`, Props/C19StoreOn.lean), whose `start_list(n)` ANNOUNCES the
length.  The contract that respects the announcement is a law about the operation SEQUENCE
`makeListRM S items` = `start_list(items.length)`, one `add_to_list` per item, `end_list` — what `values::build` and
the runtime's `make_list` always issue:

  `ListLawOn S Inv`:  on a state satisfying `Inv`, if the items decode to `vs` then the sequence answers `Ok` with an
  address that decodes to `.list vs`, disturbs nothing else (`Eff`) and re-establishes `Inv`.

* `basic_makeList_law`: BasicGarnishData satisfies it for EVERY announced length, with `Inv` = `BInvL` = `BInv` + the
  data block ends inside the heap (`LayoutOK`: what `end_list`'s slice `&mut data[start .. start + len]` needs;
  it holds of `BasicGarnishData::new()` and every push keeps it).  The proof: the sequence is `Store.buildList`
  (`makeListRM_basic`), which answers `Ok` (`buildList_total`: `add_to_list` cannot fail before the announced length
  is reached, `end_list` cannot fail once it is) and whose result is characterised by `basic_buildList_law`.
* `StoreLawsOn.listLaw`: the Simple-shaped clauses imply `ListLawOn` — so a development that asks for `ListLawOn`
  instead of the two clauses loses nothing on the stores that have them (reference store, SimpleGarnishData).
Not covered: other operations interleaved with the construction (the runtime's `make_list` pops registers between
the last `add_to_list` and `end_list`; on Basic `pop_register` only moves a head, but the law is stated for the pure
sequence).
-/
import Garnish.Props.C19StoreOn
import Garnish.Lemmas.BasicList3
import Garnish.Lemmas.RuntimeBase
namespace Garnish.Props.C19ListOn
open Garnish Gen Garnish.Model.Equality Garnish.Model.Runtime Garnish.Model.Runtime.Basic Garnish.BasicOpt
open Garnish.Lemmas.Runtime.Basic Garnish.Props.C19StoreOn

variable {F σ : Type}

/-- the announced-length list contract -/
def ListLawOn (S : RStore F σ) (Inv : σ → Prop) : Prop :=
  ∀ items vs s, Inv s → DecodesList (S.view s) items vs →
    Garnish.Model.Runtime.AddsOn S Inv (makeListRM S items) s (.list vs)

/-- the invariant of the Basic store with the heap-layout condition of `end_list` -/
def BInvL (st : BState) : Prop := BInv st ∧ LayoutOK st.store

theorem binvL_init : BInvL BState.init := ⟨binv_init, layout_fresh⟩

/-- **basic_makeList_law**: BasicGarnishData satisfies the announced-length list contract, for every length -/
theorem basic_makeList_law (nc : NumCode F) : ListLawOn (basicRStore nc) BInvL := by
  intro items vs st ⟨hinv, hlay⟩ hd
  have hd' : DecodesList (basicView nc.dec st.store.cells) items vs := hd
  have hnode : ∀ a ∈ items, isNode st.store.cells a = true := by
    intro a ha
    obtain ⟨v, hv⟩ := decodesList_mem hd' a ha
    exact (decodes_node hinv.wfq hv).2
  have hlt : ∀ a ∈ items, a < st.store.cells.size := fun a ha => node_lt (hnode a ha)
  have hpair : ∀ a ∈ items, ∀ l r, st.store.cells[a]? = some (Cell.pair l r) → l < st.store.cells.size := by
    intro a ha l r hc
    have hsh : shape st.store.cells a = some ⟨.pair 0 0, [], [l, r]⟩ := shape_of_solo hc rfl
    have := hinv.wfq.kid_lt hsh (by simp [svAt, hc, isSV]) (k := l) (by simp)
    have := hlt a ha
    omega
  obtain ⟨s', li, hok, hlay'⟩ := buildList_total hinv.fits hlay hlt hpair
  obtain ⟨_, hdec, he, hb⟩ := basic_buildList_law nc hinv hd hok
  refine ⟨li, { st with store := s', building := none }, makeListRM_basic nc hok, hdec,
    ⟨⟨he.keeps.dec, rfl, rfl, rfl, rfl⟩, he.regs, he.vals, rfl, he.frames⟩,
    ⟨hb.wfq, hb.fits, hb.regHead, hb.regPrev, hb.frameSaved, hb.ftyped⟩, hlay'⟩

/-! ### the Simple-shaped clauses imply the announced-length contract -/

theorem decodesList_kept {S : RStore F σ} {s s' : σ} (k : Keeps S s s') : ∀ {ps : List Nat} {pvs : List (Val F)},
    DecodesList (S.view s) ps pvs → DecodesList (S.view s') ps pvs
  | _, _, .nil => .nil
  | _, _, .cons h t => .cons (k.dec _ _ h) (decodesList_kept k t)

theorem addAll_of_clauses {S : RStore F σ} {Inv : σ → Prop} {R : σ → Nat → Prop} (L : StoreLawsOn S Inv R) :
    ∀ (rest done : List Nat) (t : Nat) (s : σ), Inv s → S.building s = some (t, done) →
      ∃ t' s', addAllRM S rest t s = .ok (t', s') ∧ Eff S s s' (S.regs s) (S.vals s) ∧
        S.building s' = some (t', done ++ rest) ∧ Inv s'
  | [], done, t, s, hi, hb => ⟨t, s, rfl, Eff.refl S s, by simpa using hb, hi⟩
  | a :: rest, done, t, s, hi, hb => by
    obtain ⟨t1, s1, h1, e1, b1, i1⟩ := L.addToList t done a s hi hb
    obtain ⟨t2, s2, h2, e2, b2, i2⟩ := addAll_of_clauses L rest (done ++ [a]) t1 s1 i1 b1
    refine ⟨t2, s2, by simp only [addAllRM, RM.bind, h1]; exact h2, ?_, by simpa using b2, i2⟩
    have := e1.trans (by rw [e1.regs, e1.vals] at e2; exact e2)
    exact this

/-- **StoreLawsOn.listLaw**: a store with the unrestricted list clauses satisfies the announced-length contract -/
theorem StoreLawsOn.listLaw {S : RStore F σ} {Inv : σ → Prop} {R : σ → Nat → Prop} (L : StoreLawsOn S Inv R) :
    ListLawOn S Inv := by
  intro items vs s hi hd
  obtain ⟨t, s1, h1, e1, b1, i1⟩ := L.startList items.length s hi
  obtain ⟨t2, s2, h2, e2, b2, i2⟩ := addAll_of_clauses L items [] t s1 i1 b1
  have e12 : Eff S s s2 (S.regs s) (S.vals s) := e1.trans (by rw [e1.regs, e1.vals] at e2; exact e2)
  have hd2 : DecodesList (S.view s2) items vs :=
    decodesList_kept e12.keeps hd
  obtain ⟨a, s3, h3, d3, e3, i3⟩ := L.endList t2 items vs s2 i2 (by simpa using b2) hd2
  refine ⟨a, s3, by simp only [makeListRM, RM.bind, h1, h2]; exact h3, d3, ?_, i3⟩
  exact e12.trans (by rw [e12.regs, e12.vals] at e3; exact e3)

end Garnish.Props.C19ListOn
