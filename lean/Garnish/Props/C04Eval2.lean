/-
C04, builder half — the mutual order of the out-of-line parts (`root_stack` is a stack), for EVERY node vector, root, fuel
and start state (helpers: Garnish/Lemmas/BuildLifo*.lean).

An out-of-line child `r` (right child of its owner `k`) is pushed on `root_stack` by its SCHEDULER `s` in the scheduler's
last visit (`Sched nodes root r s k`):
  owner `k`                                                     scheduler `s`
  And, Or, NestedExpression                                     `k` itself
  JumpIfTrue / JumpIfFalse without conditional parent           `k` itself
  JumpIfTrue / JumpIfFalse whose conditional parent is the      the head: it collects the arms in the order in which
    head `s` of an else-chain (an ElseJump without                their owners finish and pushes them together, in
    conditional parent)                                           that order, in its own last visit
(`conditional_parent`, statically: `CondParent` / `NoCondParent` — the left child of And / Or gets the And / Or node, the
children of an ElseJump get the ElseJump's conditional parent or the ElseJump itself, everything else gets none.)
`PushedBefore nodes root r1 r2`: the schedulers lie in line in one root and the scheduler of `r1` finishes first, or they
coincide (an else-chain head) and the owner of `r1` finishes first.  Then EVERYTHING below `r2` is emitted before ANYTHING
below `r1` (`C04_out_of_line_lifo`).  Instances: `C04_out_of_line_lifo_direct` (the statement registered in
Props/C04Eval.lean) and `C04_else_arms_reverse` (the arms of one else-chain are emitted in reverse source order).
-/
import Garnish.Lemmas.BuildLifo19
import Garnish.Props.C04OrderEx
namespace Garnish.Props.C04Order
open Garnish Garnish.Gen Garnish.Model.Parser Garnish.Model.Build Garnish.Lemmas.Build
open Garnish.Lemmas.BuildSeq

variable {F : Type}

/-- the build node of `x` gets `conditional_parent = Some(cp)` -/
abbrev CondParent (nodes : Array ParseNode) (root x cp : Nat) : Prop := CP nodes (InTree nodes root) root x cp
/-- the build node of `x` gets `conditional_parent = None` -/
abbrev NoCondParent (nodes : Array ParseNode) (root x : Nat) : Prop := NCP nodes (InTree nodes root) root x
/-- `r`, the out-of-line child of `k`, is pushed on `root_stack` in the last visit of `s` -/
abbrev Scheduled (nodes : Array ParseNode) (root r s k : Nat) : Prop := Sched nodes (InTree nodes root) root r s k
/-- `r1` is pushed on `root_stack` before `r2`, while the root that contains both schedulers is built -/
abbrev PushedBefore (nodes : Array ParseNode) (root r1 r2 : Nat) : Prop := Rel nodes (InTree nodes root) root r1 r2

theorem C04_lifo_core (parseFloat : List Char → Option F) (fuel root : Nat) (nodes : Array ParseNode) (d d' : BState F)
    (entry : Nat) (h : build parseFloat fuel root nodes d = .ok (d', entry)) :
    LFacts nodes root d.metadata.size d'.metadata := by
  have key := build_lifo (tree := nodes) parseFloat fuel root d
  rw [h] at key
  exact key

/-- C04, builder half, `root_stack` is a stack: everything below the out-of-line child that is pushed later is emitted
before anything below the one that was pushed earlier -/
theorem C04_out_of_line_lifo {parseFloat : List Char → Option F} {fuel root : Nat} {nodes : Array ParseNode} {d d' : BState F}
    {x z kx kz : Nat} (b : Built parseFloat fuel root nodes d d' x z kx kz) (r1 r2 : Nat)
    (hrel : PushedBefore nodes root r1 r2) (hx : Sub nodes r2 x) (hz : Sub nodes r1 z) : kx < kz := by
  obtain ⟨entry, h⟩ := b.ok
  exact (C04_lifo_core parseFloat fuel root nodes d d' entry h).1 x z ⟨r1, r2, hrel, hx, hz⟩ kx kz b.hkx b.hkz b.hmx b.hmz

theorem lastBefore_lastB {nodes : Array ParseNode} {root y1 y2 : Nat} (h : LastBefore nodes root y1 y2) :
    LastB nodes (InTree nodes root) y1 y2 := h

/-- the statement registered in Props/C04Eval.lean: owners that always schedule in their own last visit -/
theorem C04_out_of_line_lifo_direct (F : Type) : C04_out_of_line_lifo_statement F := by
  intro parseFloat fuel root nodes d d' entry h ρ y1 y2 r1 r2 n1 n2 hρ hd1 hd2 hn1 hn2 hr1 hr2 hdef1 hdef2 hlb x z kx kz hx hz
    hkx hkz hmx hmz
  have hdir : ∀ n : ParseNode, (n.definition = .and ∨ n.definition = .or ∨ n.definition = .nestedExpression) →
      isDirect n.definition = true := by
    intro n hn; rcases hn with e | e | e <;> rw [e] <;> rfl
  refine C04_out_of_line_lifo ⟨⟨entry, h⟩, hkx, hkz, hmx, hmz⟩ r1 r2 ?_ hx hz
  exact ⟨ρ, y1, y1, y2, y2, Or.inl hρ, hd1, hd2, ⟨n1, hn1, hr1, Or.inl ⟨rfl, Or.inl (hdir n1 hdef1)⟩⟩,
    ⟨n2, hn2, hr2, Or.inl ⟨rfl, Or.inl (hdir n2 hdef2)⟩⟩, Or.inl hlb⟩

/-- the arms of one else-chain: the head `e` (an ElseJump that is the conditional parent of both owners) pushes them in
the order in which their owners finish — the source order of the tests — so the arm of the later test is emitted first -/
theorem C04_else_arms_reverse {parseFloat : List Char → Option F} {fuel root : Nat} {nodes : Array ParseNode} {d d' : BState F}
    {x z kx kz : Nat} (b : Built parseFloat fuel root nodes d d' x z kx kz) (ρ e k1 k2 r1 r2 : Nat) (en n1 n2 : ParseNode)
    (hρ : Sub nodes root ρ) (he : IDesc nodes ρ e) (hen : nodes[e]? = some en) (hed : en.definition = .elseJump)
    (hn1 : nodes[k1]? = some n1) (hn2 : nodes[k2]? = some n2) (hj1 : isJumpIf n1.definition = true)
    (hj2 : isJumpIf n2.definition = true) (hr1 : n1.right = some r1) (hr2 : n2.right = some r2)
    (hc1 : CondParent nodes root k1 e) (hc2 : CondParent nodes root k2 e) (hlb : LastBefore nodes root k1 k2)
    (hx : Sub nodes r2 x) (hz : Sub nodes r1 z) : kx < kz :=
  C04_out_of_line_lifo b r1 r2 ⟨ρ, e, k1, e, k2, Or.inl hρ, he, he, ⟨n1, hn1, hr1, Or.inr ⟨hj1, hc1, en, hen, hed⟩⟩,
    ⟨n2, hn2, hr2, Or.inr ⟨hj2, hc2, en, hen, hed⟩⟩, Or.inr ⟨rfl, hlb⟩⟩ hx hz

/-! ### non-vacuity: the else-chain `1 ?> 2 |> 3 !> 4` of Props/C04OrderEx.lean, metadata `[0,1,4,5,-,6,-,2,-]` -/

/-- the arm of the second test (node 6) is emitted before the arm of the first test (node 2) -/
example (d' : BState Unit) (entry : Nat)
    (h : build (fun _ => none) (defaultFuel 7) 3 exElse BState.empty = .ok (d', entry))
    (k6 k2 : Nat) (h6 : d'.metadata[k6]? = some (some 6)) (h2 : d'.metadata[k2]? = some (some 2)) : k6 < k2 := by
  have hroot : NoCondParent exElse 3 3 := NCP.root
  refine C04_else_arms_reverse ⟨⟨entry, h⟩, Nat.zero_le _, Nat.zero_le _, h6, h2⟩ 3 3 1 5 2 6 _ _ _ (Sub.refl 3) (IDesc.refl 3)
    rfl rfl rfl rfl rfl rfl rfl rfl
    (CP.top (e := 3) (pn := exElse[3]) rfl rfl (Or.inl rfl) hroot)
    (CP.top (e := 3) (pn := exElse[3]) rfl rfl (Or.inr rfl) hroot)
    (Or.inl ⟨3, 1, 5, Or.inl (Sub.refl 3), ⟨_, 1, 5, (rfl : exElse[3]? = some _), rfl, rfl, Or.inr ⟨Or.inl rfl, rfl, rfl⟩⟩,
      IDesc.refl 1, IDesc.refl 5⟩)
    (Sub.refl 6) (Sub.refl 2)

end Garnish.Props.C04Order
