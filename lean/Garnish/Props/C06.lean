/-
C06 — evaluation is stack-balanced on every path.
This file: the fixed operand arity of the instruction families, call/return balance and the constant
depth of a reapply loop, on the abstract machine, for all states. The all-paths statement over built
programs (`C06_balanced_statement`) needs the structured compile model and is stated, not yet proved;
the RUN suite monitors the depth at every executed step of every generated program on both stores.
-/
import Garnish.Props.C01
namespace Garnish.Props.C06
open Garnish Gen Garnish.Abs Garnish.Spec

variable {F : Type} (fo : FloatOps F) (host : Host F)

/-- whatever an operation's outcome (value, deferred, accepted by the host), exactly one operand is pushed -/
theorem C06_pushOut_one (s s' : MState F) (o : OpOut F) (h : pushOut host s o = .ok s') :
    s'.regs.length = s.regs.length + 1 ∧ s'.vals = s.vals ∧ s'.frames = s.frames := by
  cases o with
  | val v => simp [pushOut] at h; subst h; simp
  | defer op l r =>
    simp only [pushOut] at h
    cases hd : host.defer op l r <;> simp [hd] at h <;> subst h <;> simp
  | err e => simp [pushOut] at h

/-- a binary operator consumes two operands and leaves one: net −1, on every outcome -/
theorem C06_binary_arity (P : Prog F) (s s' : MState F) (op : Instruction) (d : Option Nat) (l r : Val F) (rs : List (Val F))
    (o : OpOut F) (hi : P.instrs[s.pc]? = some (op, d)) (hr : s.regs = r :: l :: rs)
    (hu : unaryOp fo op r = none) (hb : binaryOp fo op l r = some o)
    (hop : op ≠ .apply ∧ op ≠ .makePair ∧ op ≠ .applyType)
    (hs : pushOut host { s with regs := rs } o = .ok s') :
    s'.regs.length + 1 = s.regs.length ∧ s'.vals = s.vals ∧ s'.frames = s.frames := by
  have := C06_pushOut_one host _ _ o hs
  simp [hr] at this ⊢
  omega

/-- calling an expression value and returning from it restores all three stacks: the two operands of
the apply are replaced by the one result, the argument pushed on the input-value stack is popped, the
frame is gone — whatever the body left on the operand stack above the frame -/
theorem C06_call_return_balance (P : Prog F) (s : MState F) (d d' : Option Nat) (j t : Nat) (x res : Val F)
    (rs leftover : List (Val F)) (pcEnd : Nat) (vals' : List (Val F)) (tr' : List (HostCall F))
    (hi : P.instrs[s.pc]? = some (.apply, d)) (hr : s.regs = x :: .expr j :: rs) (hj : P.jumps[j]? = some t)
    (he : P.instrs[pcEnd]? = some (.endExpression, d')) :
    -- state in which the body reaches its EndExpression: result on top of arbitrary leftovers, the
    -- body's input value still on the input-value stack, the call's frame on top of the frame chain
    let sBody : MState F := { pc := pcEnd, regs := res :: leftover, vals := vals' , frames := ⟨s.pc + 1, rs⟩ :: s.frames, trace := tr' }
    step fo host P s = finish P (.ok ({ s with regs := rs, vals := x :: s.vals, frames := ⟨s.pc + 1, rs⟩ :: s.frames }, t)) ∧
    step fo host P sBody = finish P (.ok ({ sBody with regs := res :: rs, vals := vals'.tail, frames := s.frames }, s.pc + 1)) := by
  refine ⟨C01.C01_apply_expression fo host P s d j t x rs hi hr hj, ?_⟩
  simp [step, he]

/-- a reapply loop runs in constant stack depth: each iteration replaces the input value in place,
creates no frame, and leaves the operand stack one shorter than before the `^~` operand was pushed -/
theorem C06_reapply_constant_depth (P : Prog F) (s : MState F) (j t : Nat) (v w : Val F) (rs vs : List (Val F))
    (hi : P.instrs[s.pc]? = some (.reapply, some j)) (hr : s.regs = v :: rs) (hv : s.vals = w :: vs) (hj : P.jumps[j]? = some t) :
    ∃ s', step fo host P s = finish P (.ok (s', t)) ∧
      s'.vals.length = s.vals.length ∧ s'.frames = s.frames ∧ s'.regs = rs := by
  refine ⟨_, C01.C01_reapply fo host P s j t v w rs vs hi hr hv hj, ?_, rfl, rfl⟩
  simp [hv]

/-- a side-effect block is balanced: `StartSideEffect … EndSideEffect` pushes and pops one input value
and discards exactly the block's one result -/
theorem C06_sideEffect_balance (P : Prog F) (s : MState F) (d d' : Option Nat) (cur : Val F) (vs : List (Val F))
    (pcEnd : Nat) (blockResult : Val F) (regs0 : List (Val F)) (inBlock : Val F) (tr' : List (HostCall F))
    (hi : P.instrs[s.pc]? = some (.startSideEffect, d)) (hv : s.vals = cur :: vs)
    (he : P.instrs[pcEnd]? = some (.endSideEffect, d')) :
    let sEnd : MState F := { pc := pcEnd, regs := blockResult :: regs0, vals := inBlock :: s.vals, frames := s.frames, trace := tr' }
    step fo host P s = seqNext P s (.ok { s with vals := cur :: cur :: vs }) ∧
    step fo host P sEnd = seqNext P sEnd (.ok { sEnd with vals := s.vals, regs := regs0 }) := by
  constructor
  · simp [step, hi, hv]
  · simp [step, he]

/-- The all-paths statement (not yet proved): in every built program the operand depth relative to the
frame base is a function of the program counter alone, never negative, and 1 at every EndExpression. -/
def C06_balanced_statement (compile : Program F → Prog F) (reachable : Prog F → MState F → Prop)
    (relDepth : MState F → Int) : Prop :=
  ∀ (p : Program F), ∃ depthAt : Nat → Int, ∀ s, reachable (compile p) s →
    relDepth s = depthAt s.pc ∧ 0 ≤ relDepth s ∧
    ((compile p).instrs[s.pc]?.map (·.1) = some .endExpression → relDepth s = 1)

end Garnish.Props.C06
