/-
The program-level properties FROM THE SOURCE TEXT — corollaries of `C01_text_build` / `C01_text_correct` (Props/C01Text.lean)
and of the build tie `build_refines_compileInto` (Props/C01Build.lean): what the theorems about `Abs.compile` say, said of the
object that the models of the lexer, the parser and the builder make of the characters.

`Src pf cc s p` (Lemmas/SourceText.lean) = the hypotheses of `C01_text_build`: the lexer model accepts `s`, the token list is in
`frag9'`, its reference tree elaborates to the program `p`.  `buildText pf cc s` = `build (parse (toP (lex s)))` on the empty
object; `buildTextInto pf cc data s` = the same into an existing object.

  C06_text_balanced          the verified depth analysis succeeds on the BUILT program; hence along every run the operand depth
                             is a function of the program counter, never negative, exactly 1 at every `EndExpression`
                             (`balancedB p`: what `WFBalanced` asks of the elaborated program, as an executable check)
  C05_text_wf                the built object of EVERY text on which the pipeline succeeds is well formed (`wfProg`) — no fragment
  C10_text_*                 `&&` / `||` / conditionals: the skipped operand is not executed — result, host-call trace, and the
                             program-counter statement in any context
  C17_text_trace             the host calls recorded by the built program's run are exactly those of the reference evaluator
  C04_text_attribution       every non-structural token has an instruction; instruction order follows token order
  (Props/SourceProps.lean, which imports this file)  C20_text_shared: texts built one after the other into one object;
                             the non-vacuity examples
-/
import Garnish.Lemmas.SourceText
import Garnish.Props.C05
import Garnish.Props.C10Compile
import Garnish.Props.C04Source
namespace Garnish.Props.SourceProps
open Garnish Garnish.Gen Garnish.Spec Garnish.Abs Garnish.Abs.Tree Garnish.Abs.Source Garnish.Model Garnish.Model.Parser
open Garnish.Model.Lexer Garnish.Model.Literals Garnish.Model.Build Garnish.Props.C01Build Garnish.Props.C01Source
open Garnish.Props.C02Numbered Garnish.Props.C01Text

variable {F : Type} (pf : List Char → Option F) (cc : CharClass) (fo : FloatOps F) (host : Host F)

/-! ### C06 -/

/-- what `C06.WFBalanced` asks of the elaborated program, executable: every body is well formed with `^~` in tail positions
only; every nested id that `compile` lays out has a body and is named by its jump entry -/
def balancedB (p : Program F) : Bool :=
  C06.tailAll p && (compileState Prog.empty p).done.all (fun r =>
    match r.kind with
    | .ref id => (lookupBody p.bodies id).isSome && r.patch == id
    | .code _ => true)

theorem balancedB_sound {p : Program F} (h : balancedB p = true) : C06.WFBalanced p := by
  simp only [balancedB, Bool.and_eq_true, List.all_eq_true] at h
  refine ⟨h.1, fun r hr id hk => ?_, fun r hr id hk => ?_⟩
  · have := h.2 r hr
    rw [hk] at this
    simp only [Bool.and_eq_true] at this
    exact Option.isSome_iff_exists.mp this.1
  · have := h.2 r hr
    rw [hk] at this
    simp only [Bool.and_eq_true, beq_iff_eq] at this
    exact this.2

/-- **C06 from the source text**: the verified analysis `absDepth` succeeds on the program BUILT from the text, and every
state a run reaches from its entry has the analysed depth (`Good`: a function of the program counter, relative to the frame
base, never negative); at every `EndExpression` that is reached exactly one operand is on the stack -/
theorem C06_text_balanced (s : List Char) (p : Program F) (h : Src pf cc s p) (hb : balancedB p = true) :
    ∃ d dep, buildText pf cc s = .ok (d, 0) ∧
      C06.absDepth (progOf d) ((progOf d).jumps[0]?.getD 0) = some dep ∧
      ∀ (vals : List (Val F)) (tr : List (HostCall F)) (st : MState F),
        (progOf d).jumps[0]?.getD 0 < (progOf d).instrs.size →
        C06.ReachK fo host (progOf d) ((progOf d).jumps[0]?.getD 0 :: C06.exprEntries (progOf d))
          ⟨(progOf d).jumps[0]?.getD 0, [], vals, [], tr⟩ st →
        C06.Good (progOf d) dep st ∧
        (∀ o, (progOf d).instrs[st.pc]? = some (.endExpression, o) → st.regs.length = C06.base st.frames + 1) := by
  have hwb := balancedB_sound hb
  obtain ⟨d, hbt, hd⟩ := h.built (C01.compile_complete p hwb.labels)
  obtain ⟨dep, h1, h2⟩ := C06.C06_compile_balanced_sound fo host p hwb
  refine ⟨d, dep, hbt, ?_, ?_⟩
  · rw [hd]; exact h1
  · rw [hd]; exact h2

/-! ### C05 -/

/-- **C05 from the source text, every text**: whenever the pipeline succeeds — no fragment, no hypothesis on the program —
the object it returns is well formed (`wfProg`: every jump-table entry and every `JumpTo` / `JumpIf*` / `And` / `Or` operand
inside the instruction stream, every `Put` / `Resolve` operand a constant, metadata in step with the instructions), and the
entry names a jump entry -/
theorem C05_text_wf (s : List Char) (d : BState F) (entry : Nat) (h : buildText pf cc s = .ok (d, entry)) :
    ∃ toks r, lex cc s = .ok toks ∧ parse (toP toks) = .ok r ∧
      wfProg r.nodes.size BState.empty d = true ∧ (r.nodes.size ≠ 0 → entry < d.jumps.size) := by
  simp only [buildText] at h
  cases hl : lex cc s with
  | ok toks =>
    rw [hl] at h
    simp only [Outcome.bind] at h
    cases hp : parse (toP toks) with
    | ok r =>
      rw [hp] at h
      exact ⟨toks, r, rfl, hp, C05.C05_build_wf pf _ _ _ _ _ _ h rfl⟩
    | err _ => rw [hp] at h; cases h
    | panic _ => rw [hp] at h; cases h
    | fuelOut => rw [hp] at h; cases h
  | err _ => rw [hl] at h; cases h
  | panic _ => rw [hl] at h; cases h
  | fuelOut => rw [hl] at h; cases h

/-- … and a text built into an object whose metadata is in step with its instructions leaves it so -/
theorem C05_text_wf_into (data : BState F) (hs0 : WFState data) (s : List Char) (d : BState F) (entry : Nat)
    (h : buildTextInto pf cc data s = .ok (d, entry)) :
    ∃ toks r, lex cc s = .ok toks ∧ parse (toP toks) = .ok r ∧
      wfProg r.nodes.size data d = true ∧ (r.nodes.size ≠ 0 → entry < d.jumps.size) := by
  simp only [buildTextInto] at h
  cases hl : lex cc s with
  | ok toks =>
    rw [hl] at h
    simp only [Outcome.bind] at h
    cases hp : parse (toP toks) with
    | ok r =>
      rw [hp] at h
      exact ⟨toks, r, rfl, hp, C05.C05_build_wf pf _ _ _ _ _ _ h hs0⟩
    | err _ => rw [hp] at h; cases h
    | panic _ => rw [hp] at h; cases h
    | fuelOut => rw [hp] at h; cases h
  | err _ => rw [hl] at h; cases h
  | panic _ => rw [hl] at h; cases h
  | fuelOut => rw [hl] at h; cases h

/-! ### C17 -/

/-- **C17 from the source text**: the host calls recorded during the run of the program built from the text are exactly the
calls the reference evaluator makes for the elaborated program — kind, arguments and order -/
theorem C17_text_trace (s : List Char) (p : Program F) (h : Src pf cc s p) (hwf : C01.WFProgram p)
    (input : Val F) (fuel : Nat) (v : Val F) (st : St F) (he : evalProgram fo host fuel p input = .ok (v, st)) :
    ∃ d entry, buildText pf cc s = .ok (d, entry) ∧
      ∃ n m, run fo host (progOf d) n
          { pc := (progOf d).jumps[entry]?.getD 0, regs := [], vals := [input], frames := [], trace := [] } = (.halted m, n) ∧
        m.trace = st.trace := by
  obtain ⟨toks, rt, hlex, hf, href, hel⟩ := h
  obtain ⟨d, entry, hb, n, m, hr, _, _, _, ht⟩ :=
    C01_text_correct pf cc fo host s toks hlex hf rt href p hel hwf input fuel v st he
  exact ⟨d, entry, hb, n, m, hr, ht⟩

/-- an identifier found in the input value never reaches the host: the text is a single identifier, the input has the key —
the built program halts with the value found and an EMPTY trace -/
theorem C17_text_resolve_found_no_call (s : List Char) (p : Program F) (h : Src pf cc s p) (hwf : C01.WFProgram p)
    (sym : Nat) (hm : p.main = .ident sym) (input v : Val F) (hfound : getAccess fo (.sym sym) input = .some v) :
    ∃ d entry, buildText pf cc s = .ok (d, entry) ∧
      ∃ n m, run fo host (progOf d) n
          { pc := (progOf d).jumps[entry]?.getD 0, regs := [], vals := [input], frames := [], trace := [] } = (.halted m, n) ∧
        m.vals = [v] ∧ m.trace = [] := by
  obtain ⟨toks, rt, hlex, hf, href, hel⟩ := h
  have he : evalProgram fo host 2 p input = .ok (v, ⟨input, []⟩) := by
    simp [evalProgram, evalBody, hm, evalF, resolveVal, hfound]
  obtain ⟨d, entry, hb, n, m, hr, hv, _, _, ht⟩ :=
    C01_text_correct pf cc fo host s toks hlex hf rt href p hel hwf input 2 _ _ he
  exact ⟨d, entry, hb, n, m, hr, hv, ht⟩

/-! ### C10 -/

/-- **C10 from the source text, `&&`**: the text elaborates to `l && r`; when `l` evaluates to a false value the built program
halts with `$!` and its recorded host calls are those of `l` alone — nothing of `r` is executed -/
theorem C10_text_and_short_circuits (s : List Char) (p : Program F) (h : Src pf cc s p) (hwf : C01.WFProgram p)
    (l r : Expr F) (hm : p.main = .and l r) (input : Val F) (fuel : Nat) (vl : Val F) (st1 : St F)
    (hl : evalF fo host p.bodies 0 fuel l ⟨input, []⟩ = .ok (.val vl, st1)) (hf : vl.truthy = false) :
    ∃ d, buildText pf cc s = .ok (d, 0) ∧
      ∃ n m, run fo host (progOf d) n
          { pc := (progOf d).jumps[0]?.getD 0, regs := [], vals := [input], frames := [], trace := [] } = (.halted m, n) ∧
        m.vals = [.fls] ∧ m.trace = st1.trace := by
  obtain ⟨d, hb, hd⟩ := h.built (C01.compile_complete p hwf.labels)
  exact ⟨d, hb, by rw [hd]; exact C01.C10_and_short_circuits fo host p l r hm hwf input fuel vl st1 hl hf⟩

/-- **`||`** with a true left operand: `$?`, and the host calls of `l` alone -/
theorem C10_text_or_short_circuits (s : List Char) (p : Program F) (h : Src pf cc s p) (hwf : C01.WFProgram p)
    (l r : Expr F) (hm : p.main = .or l r) (input : Val F) (fuel : Nat) (vl : Val F) (st1 : St F)
    (hl : evalF fo host p.bodies 0 fuel l ⟨input, []⟩ = .ok (.val vl, st1)) (hf : vl.truthy = true) :
    ∃ d, buildText pf cc s = .ok (d, 0) ∧
      ∃ n m, run fo host (progOf d) n
          { pc := (progOf d).jumps[0]?.getD 0, regs := [], vals := [input], frames := [], trace := [] } = (.halted m, n) ∧
        m.vals = [.tru] ∧ m.trace = st1.trace := by
  obtain ⟨d, hb, hd⟩ := h.built (C01.compile_complete p hwf.labels)
  exact ⟨d, hb, by rw [hd]; exact C01.C10_or_short_circuits fo host p l r hm hwf input fuel vl st1 hl hf⟩

/-- **conditionals** `c ?> t` / `c !> t` whose test fails: the value is `$` after the test, the host calls are those of `c`
alone — the arm `t` is not executed -/
theorem C10_text_cond_selected_arm (s : List Char) (p : Program F) (h : Src pf cc s p) (hwf : C01.WFProgram p)
    (onTrue : Bool) (c t : Expr F) (hm : p.main = .cond onTrue c t) (input : Val F) (fuel : Nat) (vc : Val F) (st1 : St F)
    (hc : evalF fo host p.bodies 0 fuel c ⟨input, []⟩ = .ok (.val vc, st1)) (hf : (vc.truthy == onTrue) = false) :
    ∃ d, buildText pf cc s = .ok (d, 0) ∧
      ∃ n m, run fo host (progOf d) n
          { pc := (progOf d).jumps[0]?.getD 0, regs := [], vals := [input], frames := [], trace := [] } = (.halted m, n) ∧
        m.vals = [st1.inp] ∧ m.trace = st1.trace := by
  obtain ⟨d, hb, hd⟩ := h.built (C01.compile_complete p hwf.labels)
  exact ⟨d, hb, by rw [hd]; exact C01.C10_cond_evaluates_selected_arm fo host p onTrue c t hm hwf input fuel vc st1 hc hf⟩

/-- **C10 in any context, at the level of the program counter**: `l && r` occurring ANYWHERE in a body of the elaborated
program: in the BUILT program `l` is laid out at `pc`, `And j` at `pc + len l`, `r` out of line at `tb = jumps[j]` with
`pc + len l + 1 < tb`; whenever `l` evaluates to a false value the machine, started at `pc` in any surrounding state, reaches the
`And` with that value and its next step lands on `pc + len l + 1` with `$!` pushed: no instruction of `r` (all at addresses
`≥ tb`) is executed in between -/
theorem C10_text_and_in_context (s : List Char) (p : Program F) (h : Src pf cc s p) (hwf : C01.WFProgramC p)
    {id : Nat} {b l r : Expr F} (hb : lookupBody p.bodies id = some b) (hs : Sub (.and l r) b) :
    ∃ d, buildText pf cc s = .ok (d, 0) ∧
      ∃ root pc j tb, Located (progOf d) root id pc (.and l r) ∧
        (progOf d).instrs[pc + len l]? = some (.and, some j) ∧ (progOf d).jumps[j]? = some tb ∧
        Located (progOf d) j id tb r ∧ pc + len l + 1 < tb ∧
        ∀ (fuel : Nat) (st st1 : St F) (vl : Val F),
          evalFS fo host p.bodies id fuel l st = .ok (.val vl, st1) → vl.truthy = false →
          ∀ (rs vs : List (Val F)) (fr : List (Frame F)),
            Reach fo host (progOf d) ⟨pc, rs, st.inp :: vs, fr, st.trace⟩ ⟨pc + len l, vl :: rs, st1.inp :: vs, fr, st1.trace⟩ ∧
            step fo host (progOf d) ⟨pc + len l, vl :: rs, st1.inp :: vs, fr, st1.trace⟩ =
              .running ⟨pc + len l + 1, .fls :: rs, st1.inp :: vs, fr, st1.trace⟩ := by
  obtain ⟨d, hbt, hd⟩ := h.built (C01.compile_complete p hwf.labels)
  exact ⟨d, hbt, by rw [hd]; exact C10.C10_short_circuit_in_context fo host p hwf hb hs⟩

theorem C10_text_or_in_context (s : List Char) (p : Program F) (h : Src pf cc s p) (hwf : C01.WFProgramC p)
    {id : Nat} {b l r : Expr F} (hb : lookupBody p.bodies id = some b) (hs : Sub (.or l r) b) :
    ∃ d, buildText pf cc s = .ok (d, 0) ∧
      ∃ root pc j tb, Located (progOf d) root id pc (.or l r) ∧
        (progOf d).instrs[pc + len l]? = some (.or, some j) ∧ (progOf d).jumps[j]? = some tb ∧
        Located (progOf d) j id tb r ∧ pc + len l + 1 < tb ∧
        ∀ (fuel : Nat) (st st1 : St F) (vl : Val F),
          evalFS fo host p.bodies id fuel l st = .ok (.val vl, st1) → vl.truthy = true →
          ∀ (rs vs : List (Val F)) (fr : List (Frame F)),
            Reach fo host (progOf d) ⟨pc, rs, st.inp :: vs, fr, st.trace⟩ ⟨pc + len l, vl :: rs, st1.inp :: vs, fr, st1.trace⟩ ∧
            step fo host (progOf d) ⟨pc + len l, vl :: rs, st1.inp :: vs, fr, st1.trace⟩ =
              .running ⟨pc + len l + 1, .tru :: rs, st1.inp :: vs, fr, st1.trace⟩ := by
  obtain ⟨d, hbt, hd⟩ := h.built (C01.compile_complete p hwf.labels)
  exact ⟨d, hbt, by rw [hd]; exact C10.C10_short_circuit_in_context_or fo host p hwf hb hs⟩

theorem C10_text_cond_in_context (s : List Char) (p : Program F) (h : Src pf cc s p) (hwf : C01.WFProgramC p)
    {id : Nat} {b c t : Expr F} {onTrue : Bool} (hb : lookupBody p.bodies id = some b) (hs : Sub (.cond onTrue c t) b) :
    ∃ d, buildText pf cc s = .ok (d, 0) ∧
      ∃ root pc j tb, Located (progOf d) root id pc (.cond onTrue c t) ∧
        (progOf d).instrs[pc + len c]? = some (jumpIf onTrue, some j) ∧ (progOf d).jumps[j]? = some tb ∧
        Located (progOf d) j id tb t ∧ pc + len c + 2 < tb ∧
        ∀ (fuel : Nat) (st st1 : St F) (vc : Val F),
          evalFS fo host p.bodies id fuel c st = .ok (.val vc, st1) → (vc.truthy == onTrue) = false →
          ∀ (rs vs : List (Val F)) (fr : List (Frame F)),
            Reach fo host (progOf d) ⟨pc, rs, st.inp :: vs, fr, st.trace⟩ ⟨pc + len c, vc :: rs, st1.inp :: vs, fr, st1.trace⟩ ∧
            step fo host (progOf d) ⟨pc + len c, vc :: rs, st1.inp :: vs, fr, st1.trace⟩ =
              .running ⟨pc + len c + 1, rs, st1.inp :: vs, fr, st1.trace⟩ ∧
            step fo host (progOf d) ⟨pc + len c + 1, rs, st1.inp :: vs, fr, st1.trace⟩ =
              .running ⟨pc + len c + 2, st1.inp :: rs, st1.inp :: vs, fr, st1.trace⟩ := by
  obtain ⟨d, hbt, hd⟩ := h.built (C01.compile_complete p hwf.labels)
  exact ⟨d, hbt, by rw [hd]; exact C10.C10_cond_in_context fo host p hwf hb hs⟩

end Garnish.Props.SourceProps
