/-
Runtime refinement, part 9 (C17 anchor): the host TRACE, one step. `StepTrace` (Model/Runtime/SimT.lean) is the trace
half of `StepSim`: if the store's recorded host calls decode, call for call, to the machine's trace before the step
(`TraceRel`), they do so after it — every `defer_op` / `resolve` / `apply` the store records is recorded by the
machine at the same step with the same instruction / symbol / external value and the operands the addresses denote,
and conversely. Same hypotheses as `C01_refine_step_full`.
-/
import Garnish.Lemmas.RuntimeTrace9
set_option linter.unusedSimpArgs false
set_option linter.unusedVariables false
namespace Garnish.Props.RuntimeRefine
open Garnish Gen Garnish.Abs Garnish.Model.Equality Garnish.Model.Runtime Garnish.Lemmas.Runtime

variable {F σ : Type} {S : RStore F σ} {P : Prog F} {host : Host F} (fo : FloatOps F)

/-- trace half of `C01_refine_step` (the 48 instructions with transliterated handlers, any `OtherHandlers`) -/
theorem C17_refine_step_trace48 (L : StoreLaws S) (HR : HostRefines S host) (fuel : Nat) (H : OtherHandlers σ)
    {s : σ} {m : MState F} (hsim : Sim S P s m) {instr : Instruction} {operand : Option Nat}
    (hfetch : P.instrs[m.pc]? = some (instr, operand)) (hok : StepOK fo S P fuel s m instr operand) :
    StepTrace fo host S P fuel H s m := by
  have arithB : ∀ nop : NumOp, numOpOf instr = some nop → nop.isUnary = false → StepTrace fo host S P fuel H s m :=
    fun nop h1 h2 => totalT_binary fo fuel H s hfetch (arith_facts_binary (S := S) fo h1 h2 fuel H operand .unit .unit).1
      (fun v => (arith_facts_binary (S := S) fo h1 h2 fuel H operand .unit v).2.1)
      (fun vr vl rs hr => stepTrace_arith_binary fo L HR fuel H hsim hfetch h1 h2 hr)
  have arithU : ∀ nop : NumOp, numOpOf instr = some nop → nop.isUnary = true → StepTrace fo host S P fuel H s m :=
    fun nop h1 h2 => totalT_unary fo fuel H s hfetch (arith_facts_unary (S := S) fo h1 h2 fuel H operand .unit).1
      (fun v rs hr => stepTrace_arith_unary fo L HR fuel H hsim hfetch h1 h2 hr)
  cases instr
  case invalid => exact stepTrace_invalid fo L fuel H hsim hfetch
  case put => exact totalT_put fo L fuel H hsim hfetch hok
  case putValue => exact stepTrace_putValue fo L fuel H hsim hfetch
  case pushValue => exact totalT_pushValue fo L fuel H hsim hfetch
  case updateValue => exact totalT_updateValue fo L fuel H hsim hfetch
  case jumpTo => exact totalT_jumpTo fo L fuel H hsim hfetch
  case endExpression => exact totalT_endExpression fo L fuel H hsim hfetch
  case add => exact arithB .plus rfl rfl
  case subtract => exact arithB .subtract rfl rfl
  case multiply => exact arithB .multiply rfl rfl
  case divide => exact arithB .divide rfl rfl
  case integerDivide => exact arithB .integerDivide rfl rfl
  case power => exact arithB .power rfl rfl
  case opposite => exact arithU .opposite rfl rfl
  case absoluteValue => exact arithU .absoluteValue rfl rfl
  case remainder => exact arithB .remainder rfl rfl
  case bitwiseNot => exact arithU .bitwiseNot rfl rfl
  case bitwiseAnd => exact arithB .bitwiseAnd rfl rfl
  case bitwiseOr => exact arithB .bitwiseOr rfl rfl
  case bitwiseXor => exact arithB .bitwiseXor rfl rfl
  case bitwiseShiftLeft => exact arithB .bitwiseShiftLeft rfl rfl
  case bitwiseShiftRight => exact arithB .bitwiseShiftRight rfl rfl
  case and => exact totalT_and fo L fuel H hsim hfetch
  case or => exact totalT_or fo L fuel H hsim hfetch
  case xor =>
    exact totalT_binary fo fuel H s hfetch rfl (fun _ => rfl)
      (fun vr vl rs hr => stepTrace_xor fo L HR fuel H hsim hfetch hr)
  case not => exact totalT_unary fo fuel H s hfetch rfl (fun v rs hr => stepTrace_not fo L HR fuel H hsim hfetch hr)
  case tis => exact totalT_unary fo fuel H s hfetch rfl (fun v rs hr => stepTrace_tis fo L HR fuel H hsim hfetch hr)
  case jumpIfTrue => exact totalT_jumpIf fo L fuel H hsim true hfetch
  case jumpIfFalse => exact totalT_jumpIf fo L fuel H hsim false hfetch
  case typeOf => exact absurd hok id
  case applyType => exact absurd hok id
  case typeEqual => exact absurd hok id
  case equal => exact absurd hok id
  case notEqual => exact absurd hok id
  case lessThan =>
    exact totalT_binary fo fuel H s hfetch rfl (fun _ => rfl) (fun vr vl rs hr => by
      obtain ⟨h1, h2, h3, h4⟩ := hok vr vl rs hr
      exact stepTrace_compare fo L HR fuel H hsim (Or.inl rfl) hfetch hr h1 h2 h3 h4)
  case lessThanOrEqual =>
    exact totalT_binary fo fuel H s hfetch rfl (fun _ => rfl) (fun vr vl rs hr => by
      obtain ⟨h1, h2, h3, h4⟩ := hok vr vl rs hr
      exact stepTrace_compare fo L HR fuel H hsim (Or.inr (Or.inl rfl)) hfetch hr h1 h2 h3 h4)
  case greaterThan =>
    exact totalT_binary fo fuel H s hfetch rfl (fun _ => rfl) (fun vr vl rs hr => by
      obtain ⟨h1, h2, h3, h4⟩ := hok vr vl rs hr
      exact stepTrace_compare fo L HR fuel H hsim (Or.inr (Or.inr (Or.inl rfl))) hfetch hr h1 h2 h3 h4)
  case greaterThanOrEqual =>
    exact totalT_binary fo fuel H s hfetch rfl (fun _ => rfl) (fun vr vl rs hr => by
      obtain ⟨h1, h2, h3, h4⟩ := hok vr vl rs hr
      exact stepTrace_compare fo L HR fuel H hsim (Or.inr (Or.inr (Or.inr rfl))) hfetch hr h1 h2 h3 h4)
  case makePair => exact totalT_makePair fo L fuel H hsim hfetch
  case makeList => exact totalT_makeList fo L fuel H hsim hfetch
  case apply => exact totalT_apply fo L HR fuel H hsim hfetch hok
  case partialApply =>
    exact totalT_binary fo fuel H s hfetch rfl (fun _ => rfl)
      (fun vr vl rs hr => stepTrace_partialApply fo L HR fuel H hsim hfetch hr)
  case emptyApply => exact totalT_emptyApply fo L HR fuel H hsim hfetch hok
  case reapply => exact totalT_reapply fo L fuel H hsim hfetch
  case access =>
    exact totalT_binary fo fuel H s hfetch rfl (fun _ => rfl)
      (fun vr vl rs hr => stepTrace_access fo L HR fuel H hsim hfetch hr (hok vr vl rs hr))
  case accessLeftInternal => exact absurd hok id
  case accessRightInternal => exact absurd hok id
  case accessLengthInternal => exact absurd hok id
  case resolve => exact totalT_resolve fo L HR fuel H hsim hfetch hok
  case startSideEffect => exact stepTrace_startSideEffect fo L fuel H hsim hfetch
  case endSideEffect => exact totalT_endSideEffect fo L fuel H hsim hfetch
  case makeRange =>
    exact totalT_binary fo fuel H s hfetch rfl (fun _ => rfl)
      (fun vr vl rs hr => stepTrace_make_range fo L HR fuel H hsim false false rfl hfetch hr)
  case makeStartExclusiveRange =>
    exact totalT_binary fo fuel H s hfetch rfl (fun _ => rfl)
      (fun vr vl rs hr => stepTrace_make_range fo L HR fuel H hsim true false rfl hfetch hr)
  case makeEndExclusiveRange =>
    exact totalT_binary fo fuel H s hfetch rfl (fun _ => rfl)
      (fun vr vl rs hr => stepTrace_make_range fo L HR fuel H hsim false true rfl hfetch hr)
  case makeExclusiveRange =>
    exact totalT_binary fo fuel H s hfetch rfl (fun _ => rfl)
      (fun vr vl rs hr => stepTrace_make_range fo L HR fuel H hsim true true rfl hfetch hr)
  case concat =>
    exact totalT_binary fo fuel H s hfetch rfl (fun _ => rfl)
      (fun vr vl rs hr => stepTrace_concat fo L HR fuel H hsim hfetch hr)

/-- trace half of `C01_refine_step_full`: ONE STEP keeps the store's recorded host calls and the machine's trace
related, for every instruction -/
theorem C17_refine_step_trace (L : StoreLaws S) (HR : HostRefines S host) (fuel : Nat) (cast : RM σ (Option Nat))
    {s : σ} {m : MState F} (hsim : Sim S P s m) {instr : Instruction} {operand : Option Nat}
    (hfetch : P.instrs[m.pc]? = some (instr, operand)) (hok : StepOKF fo S P fuel s m instr operand) :
    StepTrace fo host S P fuel (fullHandlers fo S fuel cast) s m := by
  by_cases hnew : instr = .typeOf ∨ instr = .typeEqual ∨ instr = .equal ∨ instr = .notEqual ∨
      instr = .accessLeftInternal ∨ instr = .accessRightInternal ∨ instr = .accessLengthInternal ∨
      instr = .applyType
  · rcases hnew with rfl | rfl | rfl | rfl | rfl | rfl | rfl | rfl
    · exact stepTrace_typeOf fo L HR fuel cast hsim hfetch
    · exact stepTrace_typeEqual fo L HR fuel cast hsim hfetch
    · exact stepTrace_equal fo L HR fuel cast hsim hfetch hok
    · exact stepTrace_notEqual fo L HR fuel cast hsim hfetch hok
    · exact stepTrace_leftInternal fo L HR fuel cast hsim hfetch
    · exact stepTrace_rightInternal fo L HR fuel cast hsim hfetch
    · exact stepTrace_lengthInternal fo L HR fuel cast hsim hfetch hok
    · exact stepTrace_of_err fo fuel _ s (e := .unsupported) (by unfold Abs.step; rw [hfetch])
  · have hok' : StepOK fo S P fuel s m instr operand := by
      cases instr <;> first | exact hok | exact absurd (by simp) hnew
    exact C17_refine_step_trace48 fo L HR fuel _ hsim hfetch hok'

/-- no instruction at the cursor: nothing is recorded on either side -/
theorem C17_refine_step_trace_end (fuel : Nat) (H : OtherHandlers σ) {s : σ} {m : MState F} (hsim : Sim S P s m)
    (hfetch : P.instrs[m.pc]? = none) : StepTrace fo host S P fuel H s m := by
  intro htr
  have hf : (RM.read (fun st => S.instruction st (S.cursor st)) : RM σ _) s = .ok (none, s) := by
    show Outcome.ok (S.instruction s (S.cursor s), s) = _
    rw [hsim.2.instrs, hsim.1, hfetch]
  have hstep : Abs.step fo host P m = .halted m := by unfold Abs.step; rw [hfetch]
  rw [hstep]
  intro r s' hex
  rw [executeCurrentInstruction, bind_ok hf] at hex
  cases hex
  exact htr

end Garnish.Props.RuntimeRefine
