/-
C01 from the source: tokens → parser → builder → machine in one theorem.

  parse_rep            the node array `parse` returns REPRESENTS (`Abs.Tree.Rep`) the program that its reference tree
                       elaborates to (`Abs.Source.elabWith`, Lemmas/SourceRep.lean: one bottom-up pass over the `RTree` of
                       Spec/RefParse.lean — literals through Model/Literals with the float parser `pf` of `build`, operators
                       by definition, `List` / `CommaList` spines as lists, `?>` / `!>` / `|>` spines as conditionals and
                       else-chains, `&&` / `||`, `( )` transparent, `{ }` bodies, `^~`, identifier application);
                       the program is body 0 of its table and `build`'s own check of the tree succeeds.
  C01_parse_build      hence (`build_refines_compile`, Props/C01Build.lean) the statement-level model of `build.rs` run on
                       the parser's output produces exactly `compile` of the elaborated program — for EVERY token list, not
                       only those of a fragment;
  C01_parse_correct    hence (`C01_compile_correct`) the built object, run on the value-level machine, computes what the
                       elaborated program means (`evalProgram`): value and host-call trace.
  C01_source_build_partial / C01_source_correct_partial
                       the same from the token list alone for the lists of `frag9` (Props/C02Parse.lean: the parser accepts,
                       its result is a proper tree, the tree is the reference tree `refParse` computes) — the program is
                       `elaborate (refParse toks)`.
What the elaboration does not cover (it returns `none`) is listed at the head of Lemmas/SourceRep.lean: side-effect blocks,
operators with a missing operand, literal text that does not parse, the shapes that need a group to be representable.

PARTIAL in one respect: `WellNumbered toks r t` (Lemmas/SourceRep7.lean) is a hypothesis — the nodes are numbered in
in-order and all of them are in the tree, a node carries the text of the token at its position, a bracket node has no left
child.  These are facts about `parse` that hold for the lists of `frag9` without a trailing blank line before `}` (there an
unlinked separator node stays in the array, and the simulation behind `build_refines_compile` does not cover node arrays
with unreachable entries) — the proofs behind `parse_fragF` maintain the first one as `NInv.inord` — but the exported
theorems (`toTree r = some t`, `ProperTree r`, `refParse … = treeToRG r t`) do not contain them.  They are decidable
(`wellNumbered`), and checked by evaluation in the examples below.  MISSING for the unconditional source theorem: exporting
`t.inorder = List.range r.nodes.size` (+ the two node-local facts) from the parser proofs.
The tie of the elaboration to the language: suite ELAB (Driver/ElabDrv.lean, tools/props/c01.py) — on every generated program
`elabSrc (refParse (lex source))` is the generator's AST (up to the association of `;` sequences) or undefined, and undefined
only for programs with side-effect blocks.
-/
import Garnish.Lemmas.SourceRep7
import Garnish.Props.C01Build
import Garnish.Props.C02Parse
namespace Garnish.Props.C01Source
open Garnish Garnish.Gen Garnish.Spec Garnish.Abs Garnish.Abs.Tree Garnish.Abs.Source Garnish.Model.Parser
open Garnish.Model.Literals Garnish.Model.Build Garnish.Props.C01Build

variable {F : Type} (pf : List Char → Option F)

/-- the reference tree read off a parse result -/
abbrev refTreeOf (r : ParseResult) (t : Spec.Tree) : RTree := toRG (dfOf r.nodes) t

/-- **`parse_rep`** (for every naming `κ` of the nested bodies) -/
theorem parse_rep (toks : List PToken) (κ : Nat → Nat) (r : ParseResult) (t : Spec.Tree) (p : Program F)
    (ht : toTree r = some t) (hwn : WellNumbered toks r t) (hel : elabWith pf κ toks (refTreeOf r t) = some p) :
    Rep pf r.nodes p.bodies 0 r.nodes.size r.root p.main ∧ lookupBody p.bodies 0 = some p.main ∧
      validateParseTree r.root r.nodes = .ok () :=
  Source.parse_rep r t p ht hwn hel

/-- `elaborate` is `elabWith` for the names `compile` gives -/
theorem elaborate_eq (toks : List PToken) (rt : RTree) (p : Program F) (h : elaborate pf toks rt = some p) :
    ∃ κ, elabWith pf κ toks rt = some p := by
  unfold elaborate at h
  split at h
  · exact ⟨_, h⟩
  · cases h

theorem parse_rep_elaborate (toks : List PToken) (r : ParseResult) (t : Spec.Tree) (p : Program F)
    (ht : toTree r = some t) (hwn : WellNumbered toks r t) (hel : elaborate pf toks (refTreeOf r t) = some p) :
    Rep pf r.nodes p.bodies 0 r.nodes.size r.root p.main ∧ lookupBody p.bodies 0 = some p.main ∧
      validateParseTree r.root r.nodes = .ok () := by
  obtain ⟨κ, h⟩ := elaborate_eq pf toks _ p hel
  exact parse_rep pf toks κ r t p ht hwn h

/-- **parser → builder**: `build` on the parser's output is `compile` of the elaborated program (any naming of the bodies;
`hcomplete`: the layout loop of `compile` finishes — `C01.compile_complete` for canonical names) -/
theorem C01_parse_build (toks : List PToken) (κ : Nat → Nat) (r : ParseResult) (t : Spec.Tree) (p : Program F)
    (ht : toTree r = some t) (hwn : WellNumbered toks r t) (hel : elabWith pf κ toks (refTreeOf r t) = some p)
    (hcomplete : (compileState Prog.empty p).pending = []) :
    ∃ d, build pf (defaultFuel r.nodes.size) r.root r.nodes BState.empty = .ok (d, 0) ∧
      d.instrs = (compile p).instrs ∧ d.jumps = (compile p).jumps ∧ d.consts = (compile p).consts := by
  obtain ⟨hrep, hmain, hval⟩ := parse_rep pf toks κ r t p ht hwn hel
  exact build_refines_compile pf r.nodes p r.root _ hrep hmain hval hcomplete (by simp only [defaultFuel]; omega)

/-- **parser → builder → machine**: if the elaborated program is well formed (`C01.WFProgram`: its bodies are named by
their jump entries, as `elaborate` names them) and means `(v, st)`, the object `build` produces from the parser's output
halts with `v` and the same host-call trace -/
theorem C01_parse_correct (fo : FloatOps F) (host : Host F) (toks : List PToken) (r : ParseResult) (t : Spec.Tree)
    (p : Program F) (input : Val F) (fuel : Nat) (v : Val F) (st : St F)
    (ht : toTree r = some t) (hwn : WellNumbered toks r t) (hel : elaborate pf toks (refTreeOf r t) = some p)
    (hwf : C01.WFProgram p) (h : evalProgram fo host fuel p input = .ok (v, st)) :
    ∃ d entry, build pf (defaultFuel r.nodes.size) r.root r.nodes BState.empty = .ok (d, entry) ∧
      ∃ n s, run fo host (progOf d) n
          { pc := (progOf d).jumps[entry]?.getD 0, regs := [], vals := [input], frames := [], trace := [] } = (.halted s, n) ∧
        s.vals = [v] ∧ s.regs = [] ∧ s.frames = [] ∧ s.trace = st.trace := by
  obtain ⟨hrep, _, hval⟩ := parse_rep_elaborate pf toks r t p ht hwn hel
  exact C01_build_correct pf fo host r.nodes p r.root input fuel v st hwf hrep hval h

/-! ### from the token list alone (the lists of `frag9`) -/

/-- **tokens → builder** — partial: `WellNumbered` of the parser's result is a hypothesis (see the header) -/
theorem C01_source_build_partial (toks : List PToken) (hf : C02Parse.frag9 toks = true) (hnum : NumberedFrom 0 toks)
    (rt : RTree) (href : refParse Table.gen toks = .ok rt) (p : Program F) (hel : elaborate pf toks rt = some p)
    (hcomplete : (compileState Prog.empty p).pending = [])
    (hwn : ∀ r t, parse toks = .ok r → toTree r = some t → WellNumbered toks r t) :
    ∃ r d, parse toks = .ok r ∧ build pf (defaultFuel r.nodes.size) r.root r.nodes BState.empty = .ok (d, 0) ∧
      d.instrs = (compile p).instrs ∧ d.jumps = (compile p).jumps ∧ d.consts = (compile p).consts := by
  obtain ⟨r, t, h1, h2, h3⟩ := C02Parse.C02_parse_correct_fragment_optional toks hf hnum
  rw [← C02Parse.C02_toRG_eq_treeToRG, href] at h3
  cases h3
  obtain ⟨κ, hk⟩ := elaborate_eq pf toks _ p hel
  obtain ⟨d, hd⟩ := C01_parse_build pf toks κ r t p h2 (hwn r t h1 h2) hk hcomplete
  exact ⟨r, d, h1, hd⟩

/-- **tokens → machine** — partial in the same respect -/
theorem C01_source_correct_partial (fo : FloatOps F) (host : Host F) (toks : List PToken)
    (hf : C02Parse.frag9 toks = true) (hnum : NumberedFrom 0 toks) (rt : RTree) (href : refParse Table.gen toks = .ok rt)
    (p : Program F) (hel : elaborate pf toks rt = some p) (hwf : C01.WFProgram p)
    (hwn : ∀ r t, parse toks = .ok r → toTree r = some t → WellNumbered toks r t)
    (input : Val F) (fuel : Nat) (v : Val F) (st : St F) (h : evalProgram fo host fuel p input = .ok (v, st)) :
    ∃ r d entry, parse toks = .ok r ∧ build pf (defaultFuel r.nodes.size) r.root r.nodes BState.empty = .ok (d, entry) ∧
      ∃ n s, run fo host (progOf d) n
          { pc := (progOf d).jumps[entry]?.getD 0, regs := [], vals := [input], frames := [], trace := [] } = (.halted s, n) ∧
        s.vals = [v] ∧ s.regs = [] ∧ s.frames = [] ∧ s.trace = st.trace := by
  obtain ⟨r, t, h1, h2, h3⟩ := C02Parse.C02_parse_correct_fragment_optional toks hf hnum
  rw [← C02Parse.C02_toRG_eq_treeToRG, href] at h3
  cases h3
  obtain ⟨d, entry, hd⟩ := C01_parse_correct pf fo host toks r t p input fuel v st h2 (hwn r t h1 h2) hel hwf h
  exact ⟨r, d, entry, h1, hd⟩

/-! ### non-vacuity: concrete token lists, everything checked by evaluation -/

open Garnish.Props.C02Parse (tk frag9)

def resultOf (toks : List PToken) : ParseResult :=
  match parse toks with
  | .ok r => r
  | _ => ⟨0, #[]⟩

def treeOfResult (toks : List PToken) : Spec.Tree := (toTree (resultOf toks)).getD .nil

/-- the hypotheses of the source theorems for a concrete list, from three evaluations -/
theorem wn_of_eval (toks : List PToken) (hp : parse toks = .ok (resultOf toks))
    (ht : toTree (resultOf toks) = some (treeOfResult toks))
    (hw : wellNumbered toks (resultOf toks) (treeOfResult toks) = true) :
    ∀ r t, parse toks = .ok r → toTree r = some t → WellNumbered toks r t := by
  intro r t h1 h2
  rw [hp] at h1; cases h1
  rw [ht] at h2; cases h2
  exact wellNumbered_sound hw

/-- a conditional with an else arm: `$ ?> 1 |> 2` -/
def exCond : List PToken :=
  [tk .value "$" 0, tk .whitespace " " 1, tk .jumpIfTrue "?>" 2, tk .whitespace " " 3, tk .number "1" 4,
   tk .whitespace " " 5, tk .elseJump "|>" 6, tk .whitespace " " 7, tk .number "2" 8]
def mainCond : Expr Float := .chain [(true, .input, int 1)] (some (int 2))
def progCond : Program Float := { main := mainCond, bodies := [(0, mainCond)] }

theorem exCond_frag : frag9 exCond = true := by decide
theorem exCond_num : NumberedFrom 0 exCond := by simp [exCond, NumberedFrom, tk]
theorem exCond_ref : refParse Table.gen exCond = .ok (.node (.node (.node .nil .value 0 .nil) .jumpIfTrue 2
    (.node .nil .number 4 .nil)) .elseJump 6 (.node .nil .number 8 .nil)) := by rfl
theorem exCond_elab : elaborate noFloat exCond (.node (.node (.node .nil .value 0 .nil) .jumpIfTrue 2
    (.node .nil .number 4 .nil)) .elseJump 6 (.node .nil .number 8 .nil)) = some progCond := by rfl
theorem exCond_wn : ∀ r t, parse exCond = .ok r → toTree r = some t → WellNumbered exCond r t :=
  wn_of_eval exCond (by rfl) (by rfl) (by rfl)

example : ∃ r d, parse exCond = .ok r ∧ build noFloat (defaultFuel r.nodes.size) r.root r.nodes BState.empty = .ok (d, 0) ∧
    d.instrs = (compile progCond).instrs ∧ d.jumps = (compile progCond).jumps ∧ d.consts = (compile progCond).consts :=
  C01_source_build_partial noFloat exCond exCond_frag exCond_num _ exCond_ref progCond exCond_elab (by rfl) exCond_wn

/-- … and to the machine: on input `true` the source means `1`, and that is what the built object computes -/
theorem progCond_done : (compileState Prog.empty progCond).done =
    [⟨.code (int 1), 1, [(.jumpTo, some 2)], 0⟩, ⟨.ref 0, 0, [(.endExpression, none)], 0⟩] := by rfl

theorem progCond_wf : C01.WFProgram progCond where
  main0 := rfl
  wf := by
    intro id b h
    simp only [progCond, lookupBody] at h
    split at h
    · cases h; rfl
    · cases h
  tail := rfl
  labels := by
    intro r hr id hk
    rw [progCond_done] at hr
    simp only [List.mem_cons, List.not_mem_nil, or_false] at hr
    rcases hr with rfl | rfl <;> first | (cases hk; rfl) | cases hk
  covered := by
    intro id b h
    rw [progCond_done]
    simp only [progCond, lookupBody] at h
    split at h
    · rename_i hid
      have h0 : (0 : Nat) = id := by simpa using hid
      subst h0
      exact ⟨⟨.ref 0, 0, [(.endExpression, none)], 0⟩, by simp, rfl⟩
    · cases h

theorem progCond_meaning (fo : FloatOps Float) (host : Host Float) :
    evalProgram fo host 5 progCond .tru = .ok (.num (.int 1), ⟨.tru, []⟩) := by
  simp [evalProgram, evalBody, evalF, evalChain, lookupBody, progCond, mainCond, int, Val.truthy]

example (fo : FloatOps Float) (host : Host Float) :
    ∃ r d entry, parse exCond = .ok r ∧
      build noFloat (defaultFuel r.nodes.size) r.root r.nodes BState.empty = .ok (d, entry) ∧
      ∃ n s, run fo host (progOf d) n
          { pc := (progOf d).jumps[entry]?.getD 0, regs := [], vals := [.tru], frames := [], trace := [] } = (.halted s, n) ∧
        s.vals = [.num (.int 1)] ∧ s.regs = [] ∧ s.frames = [] ∧ s.trace = [] :=
  C01_source_correct_partial noFloat fo host exCond exCond_frag exCond_num _ exCond_ref progCond exCond_elab progCond_wf
    exCond_wn .tru 5 _ _ (progCond_meaning fo host)

/-- a nested body, applied: `{ $ + 1 } <~ 5` — the body is named `1`, its jump entry -/
def exNested : List PToken :=
  [tk .startExpression "{" 0, tk .whitespace " " 1, tk .value "$" 2, tk .whitespace " " 3, tk .plusSign "+" 4,
   tk .whitespace " " 5, tk .number "1" 6, tk .whitespace " " 7, tk .endExpression "}" 8, tk .whitespace " " 9,
   tk .apply "<~" 10, tk .whitespace " " 11, tk .number "5" 12]
def mainNested : Expr Float := .binary .apply (.nested 1) (int 5)
def progNested : Program Float := { main := mainNested, bodies := [(0, mainNested), (1, .binary .add .input (int 1))] }

theorem exNested_ref : refParse Table.gen exNested = .ok (.node (.group .nestedExpression 0
    (.node (.node .nil .value 2 .nil) .addition 4 (.node .nil .number 6 .nil))) .apply 10 (.node .nil .number 12 .nil)) := by rfl
theorem exNested_elab : elaborate noFloat exNested (.node (.group .nestedExpression 0
    (.node (.node .nil .value 2 .nil) .addition 4 (.node .nil .number 6 .nil))) .apply 10 (.node .nil .number 12 .nil)) =
    some progNested := by rfl

example : ∃ r d, parse exNested = .ok r ∧
    build noFloat (defaultFuel r.nodes.size) r.root r.nodes BState.empty = .ok (d, 0) ∧
    d.instrs = (compile progNested).instrs ∧ d.jumps = (compile progNested).jumps ∧ d.consts = (compile progNested).consts :=
  C01_source_build_partial noFloat exNested (by decide) (by simp [exNested, NumberedFrom, tk]) _ exNested_ref progNested
    exNested_elab (by rfl) (wn_of_eval exNested (by rfl) (by rfl) (by rfl))

example : (compile progNested).instrs = #[(.put, some 0), (.put, some 1), (.apply, none), (.endExpression, none),
    (.putValue, none), (.put, some 2), (.add, none), (.endExpression, none)] ∧ (compile progNested).jumps = #[0, 4] := by
  constructor <;> decide

/-- lists: `1, $ 3, (4, 5)` — a comma list whose second item is a space list and whose third is a comma list in a group -/
def exItems : List PToken :=
  [tk .number "1" 0, tk .comma "," 1, tk .whitespace " " 2, tk .value "$" 3, tk .whitespace " " 4, tk .number "3" 5,
   tk .comma "," 6, tk .whitespace " " 7, tk .startGroup "(" 8, tk .number "4" 9, tk .comma "," 10, tk .number "5" 11,
   tk .endGroup ")" 12]
def mainItems : Expr Float := .list [int 1, .list [.input, int 3], .list [int 4, int 5]]
def progItems : Program Float := { main := mainItems, bodies := [(0, mainItems)] }

def treeItems : RTree :=
  .node (.node (.node .nil .number 0 .nil) .commaList 1 (.node (.node .nil .value 3 .nil) .list 4 (.node .nil .number 5 .nil)))
    .commaList 6 (.group .group 8 (.node (.node .nil .number 9 .nil) .commaList 10 (.node .nil .number 11 .nil)))
theorem exItems_ref : refParse Table.gen exItems = .ok treeItems := by rfl
theorem exItems_elab : elaborate noFloat exItems treeItems = some progItems := by rfl

example : ∃ r d, parse exItems = .ok r ∧
    build noFloat (defaultFuel r.nodes.size) r.root r.nodes BState.empty = .ok (d, 0) ∧
    d.instrs = (compile progItems).instrs ∧ d.jumps = (compile progItems).jumps ∧ d.consts = (compile progItems).consts :=
  C01_source_build_partial noFloat exItems (by decide) (by simp [exItems, NumberedFrom, tk])
    _ exItems_ref progItems exItems_elab (by rfl)
    (wn_of_eval exItems (by rfl) (by rfl) (by rfl))

end Garnish.Props.C01Source
