/-
C15 for every store reachable through the HEAP-suite operations, under every growth setting that can make progress.

Props/C15.lean proves read-back under two hypotheses on the store the history starts from: the layout invariant
`Inv h0` and `AllProgress h0`.  Here both are discharged:

* `progressSettings sizes pols` is a condition on the SETTINGS ALONE (initial size and `ReallocationStrategy` of each of
  the six blocks: `FixedSize(n)` with `n ≥ 1`; `Multiplicative(n)` with `n ≥ 2` from a non-zero initial size), and it
  is EXACTLY `AllProgress` of the freshly constructed store (`init_progress_iff`);
* `Inv` and `AllProgress` hold after every history (`heap_refines`), so they are invariants of the reachable stores:
  `Reachable` = construction with progressing settings followed by any sequence of the HEAP-suite operations `MOp`
  (instructions, jump table, symbol table, expression symbols, data, custom data, register / value / frame stacks,
  text), each of which is a history of pushes (`mstep_is_history`).

`C15_read_back_reachable`: on a reachable store, the index returned by a push into an append-only table reads back the
pushed cell after ANY later sequence of HEAP-suite operations; `C15_read_back_sorted_reachable` for the two sorted
tables; `reachable_no_panic`: no operation on a reachable store panics.
-/
import Garnish.Props.C15
set_option linter.unusedSimpArgs false
namespace Garnish.Props.C15Reach
open Garnish Garnish.Store Garnish.Spec Garnish.Props.C15

/-- a growth setting that makes progress from initial size `z` -/
def settingOK (z : Nat) : Policy → Bool
  | .fixed n => decide (1 ≤ n)
  | .mult n => decide (2 ≤ n) && decide (1 ≤ z)

/-- the condition on the settings alone: every block's setting makes progress -/
def progressSettings (sizes : List Nat) (pols : List Policy) : Bool :=
  (sizes.zip pols).all (fun zp => settingOK zp.1 zp.2)

theorem progress_settingOK (b : Garnish.Store.Block) : b.Progress ↔ settingOK b.size b.policy = true := by
  unfold Block.Progress settingOK
  cases b.policy <;> simp

/-- the blocks of a freshly constructed store: block `k` has the `k`-th initial size and setting -/
theorem init_blocks {sizes : List Nat} {pols : List Policy} {maxes : List (Option Nat)} {h : Heap}
    (h1 : sizes.length = 6) (h2 : pols.length = 6) (h3 : maxes.length = 6) (hi : init sizes pols maxes = .ok h) :
    h.blocks.length = 6 ∧ ∀ (k z : Nat) (p : Policy), sizes[k]? = some z → pols[k]? = some p →
      ∃ b, h.blocks[k]? = some b ∧ b.size = z ∧ b.policy = p := by
  unfold init reallocate at hi
  simp only at hi
  split at hi
  · cases hi
  · let blocks0 := (sizes.zip (pols.zip maxes)).map
      (fun (z, p, m) => ({ start := 0, cursor := 0, size := z, policy := p, maxItems := m } : Block))
    have hb0 : ∀ b ∈ blocks0, b.start = 0 ∧ b.cursor = 0 := by
      intro b hb
      simp only [blocks0, List.mem_map] at hb
      obtain ⟨⟨z, p, m⟩, _, rfl⟩ := hb
      exact ⟨rfl, rfl⟩
    have hlen0 : blocks0.length = 6 := by simp [blocks0, h1, h2, h3]
    obtain ⟨new', hr, _, _, _, _⟩ := reallocBlocks_spec (#[] : Array Cell) (blocks0.zip sizes) 0
      (Array.replicate (sumSizes sizes) Cell.empty)
      (by
        intro p hp
        have := hb0 p.1 (List.of_mem_zip hp).1
        rw [this.1, this.2]; simp)
      (by rw [sumSnd_zip _ _ (by rw [hlen0, h1]), Array.size_replicate]; omega)
    rw [show (List.map (fun x => match x with | (z, p, m) => ({ start := 0, cursor := 0, size := z, policy := p, maxItems := m } : Block))
      (sizes.zip (pols.zip maxes))) = blocks0 from rfl] at hi
    rw [hr] at hi
    simp only [Outcome.ok.injEq] at hi
    subst hi
    refine ⟨by simp [length_layout, hlen0, h1], ?_⟩
    intro k z p hz hp
    have hk : k < 6 := by
      rcases Nat.lt_or_ge k 6 with h | h
      · exact h
      · rw [List.getElem?_eq_none (by omega)] at hz; cases hz
    obtain ⟨m, hm⟩ : ∃ m, maxes[k]? = some m := ⟨maxes[k]'(by omega), by simp [h3, hk]⟩
    have hpm : (pols.zip maxes)[k]? = some (p, m) := List.getElem?_zip_eq_some.mpr ⟨hp, hm⟩
    have hzpm : (sizes.zip (pols.zip maxes))[k]? = some (z, p, m) := List.getElem?_zip_eq_some.mpr ⟨hz, hpm⟩
    have hb : blocks0[k]? = some { start := 0, cursor := 0, size := z, policy := p, maxItems := m } := by
      simp only [blocks0, List.getElem?_map, hzpm, Option.map_some]
    have hbz : (blocks0.zip sizes)[k]? = some ({ start := 0, cursor := 0, size := z, policy := p, maxItems := m }, z) :=
      List.getElem?_zip_eq_some.mpr ⟨hb, hz⟩
    obtain ⟨s, hs⟩ := layout_get (cur := 0) hbz
    exact ⟨_, hs, rfl, rfl⟩

/-- **the settings condition is exactly `AllProgress` of the constructed store** -/
theorem init_progress_iff {sizes : List Nat} {pols : List Policy} {maxes : List (Option Nat)} {h : Heap}
    (h1 : sizes.length = 6) (h2 : pols.length = 6) (h3 : maxes.length = 6) (hi : init sizes pols maxes = .ok h) :
    AllProgress h ↔ progressSettings sizes pols = true := by
  obtain ⟨hlen, hget⟩ := init_blocks h1 h2 h3 hi
  simp only [progressSettings, List.all_eq_true]
  constructor
  · intro hp zp hzp
    obtain ⟨k, hk⟩ := List.getElem?_of_mem hzp
    obtain ⟨hz, hpk⟩ := List.getElem?_zip_eq_some.mp hk
    obtain ⟨b, hb, e1, e2⟩ := hget k zp.1 zp.2 hz hpk
    have := (progress_settingOK b).mp (hp b (mem_of_getElem? hb))
    rw [e1, e2] at this; exact this
  · intro hs b hb
    obtain ⟨k, hk⟩ := List.getElem?_of_mem hb
    have hk6 : k < 6 := by
      rcases Nat.lt_or_ge k 6 with h | h
      · exact h
      · rw [List.getElem?_eq_none (by omega)] at hk; cases hk
    obtain ⟨z, hz⟩ : ∃ z, sizes[k]? = some z := ⟨sizes[k]'(by omega), by simp [h1, hk6]⟩
    obtain ⟨p, hp⟩ : ∃ p, pols[k]? = some p := ⟨pols[k]'(by omega), by simp [h2, hk6]⟩
    obtain ⟨b', hb', e1, e2⟩ := hget k z p hz hp
    rw [hk] at hb'
    simp only [Option.some.injEq] at hb'
    subst hb'
    rw [progress_settingOK, e1, e2]
    exact hs (z, p) (List.mem_of_getElem? (List.getElem?_zip_eq_some.mpr ⟨hz, hp⟩))

/-! ### histories of HEAP-suite operations -/

theorem run_append : ∀ (ops1 : List Op) {ops2 : List Op} {h h1 h2 : Heap}, run ops1 h = .ok h1 → run ops2 h1 = .ok h2 →
    run (ops1 ++ ops2) h = .ok h2
  | [], _, _, _, _, hr1, hr2 => by cases hr1; exact hr2
  | op :: ops1, ops2, h, h1, h2, hr1, hr2 => by
    obtain ⟨h', hs, hr'⟩ := run_ok_cons hr1
    simp only [List.cons_append, run, hs]
    exact run_append ops1 hr' hr2

/-- every sequence of HEAP-suite operations is a history of pushes -/
theorem mrun_is_history : ∀ (mops : List MOp) {m m' : MStore}, mrun mops m = .ok m' →
    ∃ ops, run ops m.heap = .ok m'.heap
  | [], m, m', h => by cases h; exact ⟨[], rfl⟩
  | op :: mops, m, m', h => by
    unfold mrun at h
    cases hs : mstep m op with
    | ok m1 =>
      rw [hs] at h
      obtain ⟨ops, hr⟩ := mrun_is_history mops h
      exact ⟨op.lower m ++ ops, run_append _ (mstep_is_history op hs) hr⟩
    | err e => rw [hs] at h; cases h
    | panic s => rw [hs] at h; cases h
    | fuelOut => rw [hs] at h; cases h

/-- the stores of the HEAP suite: construction with settings that can make progress, then any operations -/
def Reachable (m : MStore) : Prop :=
  ∃ sizes pols maxes h0 mops, sizes.length = 6 ∧ pols.length = 6 ∧ maxes.length = 6 ∧
    progressSettings sizes pols = true ∧ init sizes pols maxes = .ok h0 ∧ mrun mops { heap := h0 } = .ok m

/-- **`Inv` and `AllProgress` are invariants of the reachable stores** -/
theorem reachable_inv {m : MStore} (h : Reachable m) : Inv m.heap ∧ AllProgress m.heap := by
  obtain ⟨sizes, pols, maxes, h0, mops, h1, h2, h3, hset, hi, hr⟩ := h
  obtain ⟨hinv, _⟩ := init_inv h1 h2 h3 hi
  have hp := (init_progress_iff h1 h2 h3 hi).mpr hset
  obtain ⟨ops, hrun⟩ := mrun_is_history mops hr
  exact (heap_refines ops hinv hp hrun).2

theorem reachable_step {m m' : MStore} {op : MOp} (h : Reachable m) (hs : mstep m op = .ok m') : Reachable m' := by
  obtain ⟨sizes, pols, maxes, h0, mops, h1, h2, h3, hset, hi, hr⟩ := h
  refine ⟨sizes, pols, maxes, h0, mops ++ [op], h1, h2, h3, hset, hi, ?_⟩
  clear hi
  generalize ({ heap := h0 } : MStore) = m0 at hr
  induction mops generalizing m0 with
  | nil => cases hr; simp [mrun, hs]
  | cons o mops ih =>
    unfold mrun at hr
    cases ho : mstep m0 o with
    | ok m1 => rw [ho] at hr; simp only [List.cons_append, mrun, ho]; exact ih m1 hr
    | err e => rw [ho] at hr; cases hr
    | panic s => rw [ho] at hr; cases hr
    | fuelOut => rw [ho] at hr; cases hr

/-- **C15_read_back_reachable**: on ANY store reachable through the HEAP-suite operations from a construction whose
growth settings can make progress, the index a push into an append-only table (instructions, jump table, data, custom
data) returns reads back the pushed cell after ANY later sequence of HEAP-suite operations on any table -/
theorem C15_read_back_reachable {m1 m3 : MStore} {h2 : Heap} {k idx : Nat} {c : Cell} (mops : List MOp)
    (hreach : Reachable m1) (hk : sortedTable k = false) (hpush : pushToBlockN m1.heap k c = .ok (h2, idx))
    (hr : mrun mops { m1 with heap := h2 } = .ok m3) : getN m3.heap k idx = .ok c := by
  obtain ⟨hinv, hp⟩ := reachable_inv hreach
  obtain ⟨ops, hrun⟩ := mrun_is_history mops hr
  exact C15_read_back [] ops hinv hp hk rfl hpush hrun

/-- the same for the two sorted tables (symbol table, expression symbols): the entry stays in the table -/
theorem C15_read_back_sorted_reachable {m1 m3 : MStore} {h2 : Heap} {k : Nat} {c : Cell} (mops : List MOp)
    (hreach : Reachable m1) (hpush : step m1.heap ⟨k, c⟩ = .ok h2)
    (hr : mrun mops { m1 with heap := h2 } = .ok m3) : ∃ i, getN m3.heap k i = .ok c := by
  obtain ⟨hinv, hp⟩ := reachable_inv hreach
  obtain ⟨ops, hrun⟩ := mrun_is_history mops hr
  exact C15_read_back_sorted [] ops hinv hp rfl hpush hrun

/-- no push on a reachable store panics or runs out of fuel; without `max_items` limits it succeeds -/
theorem reachable_no_panic {m : MStore} (hreach : Reachable m) (which : Fin 6) (c : Cell) :
    (∀ site, pushToBlock m.heap which c ≠ .panic site) ∧ pushToBlock m.heap which c ≠ .fuelOut ∧
    (NoMax m.heap → ∃ r, pushToBlock m.heap which c = .ok r) :=
  push_no_panic which c (reachable_inv hreach).1 (reachable_inv hreach).2

/-! ### non-vacuity -/

/-- mixed settings: `FixedSize(1)` from size 0, `Multiplicative(2)` from size 1, `FixedSize(3)` from size 2 -/
example : progressSettings [0, 1, 2, 0, 1, 2] [.fixed 1, .mult 2, .fixed 3, .fixed 1, .mult 3, .fixed 2] = true := by decide

/-- `Multiplicative(2)` from size 0 and `FixedSize(0)` are rejected by the settings condition -/
example : progressSettings [0, 1, 2, 0, 1, 2] [.mult 2, .mult 2, .fixed 3, .fixed 1, .mult 3, .fixed 2] = false := by decide
example : progressSettings (List.replicate 6 10) (List.replicate 6 (.fixed 0)) = false := by decide

/-- a reachable store: mixed settings, then stacks, text and table pushes that make every block grow -/
def exOps : List MOp :=
  [.data 7, .pushRegister 0, .text 3 1, .pushFrame 9, .sym 5 1, .sym 2 0, .instr 4, .instr 5, .jump 1, .jump 2, .custom 3,
   .pushValue 1, .expr 8 2]

example : ∃ h0 m, init [0, 1, 2, 0, 1, 2] [.fixed 1, .mult 2, .fixed 3, .fixed 1, .mult 3, .fixed 2] (List.replicate 6 none) = .ok h0 ∧
    mrun exOps { heap := h0 } = .ok m ∧ Reachable m ∧
    -- a push into the data block, more operations, and the read-back
    ∃ h2 idx m3, pushToBlockN m.heap 4 (.num 42) = .ok (h2, idx) ∧
      mrun [.text 5 2, .instr 1, .pushFrame 3, .data 8] { m with heap := h2 } = .ok m3 ∧ getN m3.heap 4 idx = .ok (.num 42) := by
  refine ⟨_, _, rfl, rfl, ⟨[0, 1, 2, 0, 1, 2], [.fixed 1, .mult 2, .fixed 3, .fixed 1, .mult 3, .fixed 2],
    List.replicate 6 none, _, exOps, rfl, rfl, rfl, by decide, rfl, rfl⟩, _, _, _, rfl, rfl, rfl⟩

end Garnish.Props.C15Reach
