/-
C01 — compiled programs compute what the source means: the central theorem.

`Abs.compile` (Abs/Compile.lean) is the structured model of `build`; suite COMPILE ties it to the real
`build` (instruction stream, jump table and constants identical on every generated program).
`Spec.evalProgram` is the meaning of a program, `Abs.run` the value-level machine.

  C01_compile_correct :
    WFProgram p → evalProgram fo host fuel p input = .ok (v, st) →
    ∃ n s, run fo host (compile p) n ⟨entry, [], [input], [], []⟩ = (.halted s, n) ∧
           s.vals = [v] ∧ s.regs = [] ∧ s.frames = [] ∧ s.trace = st.trace

for every float type, host, input, fuel: no bound on program size, nesting depth, recursion or iterations.
Proof: (ii) `run_located` (Lemmas/CompileRun*.lean, induction on the evaluator's fuel) relative to
`Env` = "every body is laid out at the jump entry that is its id"; (iii) `layoutRoots_located`
(Lemmas/CompileLayout*.lean) establishes `Env` for `compile p`.

`WFProgram` — every exclusion (all are language-level or labelling conditions; the former technical hypotheses
`complete` and `distinct` are theorems now: `compile_complete`, `compile_distinct`):
  language-level (shapes the AST type admits and the language cannot produce)
   1. `main0`    body 0 of the table is the program itself (the convention of `evalProgram`).
   2. `wf` → `wfE` on every body:
      a. `unary op`: `op` is a prefix/suffix operator or `~~` (`unOK`); `binary op`: `op` is a binary operator whose
         operands are evaluated left first (`binOK`; `=` and `~>` have their own constructors: `binary makePair`
         would evaluate left first, which no instruction sequence of the builder does);
         a literal is not an expression value (`lit (.expr j)`: expression values come from `{}` only).
      b. an else-chain has its final arm … see (F1): `WFProgramC` / `C01_compile_correct_chain` drop this.
      c. (dropped: `{ }` inside an out-of-line root — see (F2), repaired in the repository.)
      d. the body of a side-effect block contains no `^~` of the enclosing body: a restart from inside the block
         leaves the block's copy of `$` on the input-value stack, so after the restarted body returns the caller's
         `$` is wrong — the compiled program and the meaning of the source differ here, this cannot be relaxed by
         weakening the conclusion (C06's decision on non-tail `^~`; `10 [^~ 7]` is also rejected by `absDepth`).
   3. `tail`     in the TOP-LEVEL body `^~` occurs only in tail positions (end of the body, of a conditional arm, of
                 the right operand of `&&`/`||`): an operand pending at a top-level restart stays on the operand stack
                 for good, so `s.regs = []` would fail. Nested bodies are NOT restricted — operand-position `^~` inside
                 `{ … }` is covered by the theorem: the frame pop discards the surplus (what remains excluded is
                 exactly: operand-position `^~` at top level, and any `^~` inside a side-effect block).
  labelling (the ids of `nested` are names; the theorem compares values, so the names must be the jump entries)
   4. `labels`   the id of every nested body is the jump entry `compile` allocates for it (this also rules out
                 shared or cyclic references to a body);
      `covered`  every body of the table is referenced by a `nested id` that is laid out (no dead table entries,
                 which a value `.expr id` coming from the input could enter).
      `CompileAux.canonical` (Driver/CompileDrv.lean) renames any tree-shaped program accordingly.
  findings (language CAN produce them; `build` and the meaning of the source differ):
   (F1) else-chain whose last arm is conditional and fails: no value is pushed (DESIGN finding #6).
        NO LONGER excluded by shape: `WFProgramC` (= `WFProgram` with `wfC` for `wfE`) admits else-chains without a final
        arm, and `C01_compile_correct_chain` proves the conclusion of C01 for them under the condition that the evaluation
        never reaches a missing fall-through — in every such chain that is evaluated, in every iteration and call, some
        arm matches. The condition is stated with the strict evaluator `evalProgramS` (Lemmas/CompileStrict.lean:
        `evalProgram` with that one outcome turned into `.err .state`): `evalProgramS … ≠ .err .state`;
        `strict_or`: `evalBodyS = evalBody ∨ evalBodyS = .err .state`; `strict_eq`: they coincide when every chain has its
        final arm. The simulation (Lemmas/CompileRun*.lean) is proved for the strict evaluator; `C01_compile_correct`
        (statement unchanged) follows by `strict_eq`.
   (F2) `$ ?> { }`: the empty nested expression inside an out-of-line root used to refer to that root's jump entry,
        not to the containing expression — a genuine defect (reproducer `({ $ == 1 ?> { } } <~ 1) <~ 0`: `Expression(2)`
        where the source means `0`), REPAIRED in the repository (commit df89d39: `{ }` takes the node's
        `containing_expression_jump`, as `^~` does). `emit` follows (`.emptyNested ↦ Put (.expr cur)`), the exclusion is
        removed from `wfE`/`wfC`, and the reproducer is a regression example below (`exF2`: well formed, meaning `0`,
        compiled program computes `0`).
-/
import Garnish.Lemmas.CompileRun4
import Garnish.Lemmas.CompileStrict3
import Garnish.Lemmas.CompileLayout4
import Garnish.Props.C06Static
import Garnish.Lemmas.CompileDepth13
import Garnish.Lemmas.CompileNodup
import Garnish.Lemmas.CompileComplete
namespace Garnish.Props.C01
open Garnish Gen Garnish.Abs Garnish.Spec

variable {F : Type} (fo : FloatOps F) (host : Host F)

structure WFProgram (p : Program F) : Prop where
  main0 : lookupBody p.bodies 0 = some p.main
  wf : ∀ id b, lookupBody p.bodies id = some b → wfE b = true
  tail : tailR p.main = true
  labels : ∀ r ∈ (compileState Prog.empty p).done, ∀ id, r.kind = .ref id → r.patch = id
  covered : ∀ id b, lookupBody p.bodies id = some b → ∃ r ∈ (compileState Prog.empty p).done, r.kind = .ref id

/-- `WFProgram` without exclusion (F1): an else-chain need not have a final arm (`wfC` instead of `wfE`). What replaces
the syntactic exclusion is a condition on the evaluation: it never reaches a missing fall-through — see
`C01_compile_correct_chain`. -/
structure WFProgramC (p : Program F) : Prop where
  main0 : lookupBody p.bodies 0 = some p.main
  wf : ∀ id b, lookupBody p.bodies id = some b → wfC b = true
  tail : tailR p.main = true
  labels : ∀ r ∈ (compileState Prog.empty p).done, ∀ id, r.kind = .ref id → r.patch = id
  covered : ∀ id b, lookupBody p.bodies id = some b → ∃ r ∈ (compileState Prog.empty p).done, r.kind = .ref id

theorem WFProgram.toC {p : Program F} (h : WFProgram p) : WFProgramC p :=
  ⟨h.main0, fun id b hb => wfE_wfC b (h.wf id b hb), h.tail, h.labels, h.covered⟩

theorem compile_eq (p : Program F) : compile p = (compileState Prog.empty p).toProg := rfl

theorem startState_inv : Inv (startState (F := F) Prog.empty) := by
  refine ⟨fun r hr => ?_, fun r hr => ?_, fun r hr => ?_⟩ <;>
    simp only [startState, List.mem_singleton] at hr <;> subst hr
  · simp [startState, Prog.empty]
  · simp [startState, Prog.empty]
  · intro id _; exact ⟨rfl, rfl⟩

/-- the roots laid out have pairwise distinct jump entries — for every program (formerly the technical hypothesis
`distinct` of `WFProgram`) -/
theorem compile_distinct (p : Program F) : ((compileState Prog.empty p).done.map (·.patch)).Nodup := by
  have n0 : NInv (startState (F := F) Prog.empty) := ⟨by simp [startState, pats], fun q hq => by simp [startState] at hq⟩
  have n := (layoutRoots_ninv p.bodies (bodiesSize p.bodies + 2) (startState Prog.empty) startState_inv n0).nodup
  rw [pats, List.map_append, List.nodup_append] at n
  exact n.2.1

theorem refIds_nodup : ∀ (l : List (Root F)), (∀ r ∈ l, ∀ id, r.kind = .ref id → r.patch = id) →
    (l.map (·.patch)).Nodup → (l.filterMap refId).Nodup
  | [], _, _ => by simp
  | r :: rs, hl, hn => by
    simp only [List.map_cons, List.nodup_cons] at hn
    have ih := refIds_nodup rs (fun q hq => hl q (List.mem_cons_of_mem _ hq)) hn.2
    simp only [List.filterMap_cons]
    cases hk : refId r with
    | none => exact ih
    | some id =>
      simp only
      rw [List.nodup_cons]
      refine ⟨fun hm => ?_, ih⟩
      obtain ⟨q, hq, hqid⟩ := List.mem_filterMap.1 hm
      have h1 : r.patch = id := hl r List.mem_cons_self id (by
        simp only [refId] at hk; split at hk <;> simp_all)
      have h2 : q.patch = id := hl q (List.mem_cons_of_mem _ hq) id (by
        simp only [refId] at hqid; split at hqid <;> simp_all)
      exact hn.1 (List.mem_map.2 ⟨q, hq, by rw [h2, h1]⟩)

/-- the layout loop finishes within its fuel when the nested bodies are named by their jump entries (formerly the
technical hypothesis `complete` of `WFProgram`) -/
theorem compile_complete (p : Program F)
    (hlab : ∀ r ∈ (compileState Prog.empty p).done, ∀ id, r.kind = .ref id → r.patch = id) :
    (compileState Prog.empty p).pending = [] := by
  apply Classical.byContradiction
  intro hne
  have hsteps := layoutRoots_steps p.bodies (bodiesSize p.bodies + 2) (startState Prog.empty) startState_inv hne
  have hbud := layoutRoots_budget p.bodies (bodiesSize p.bodies + 2) (startState Prog.empty) startState_inv
    (by simp [startState, listW, rootW, listC, sumCr])
  have hids := refIds_nodup _ hlab (compile_distinct p)
  have hsum := sumCr_le p.bodies _ hids
  have htot := totalSize_le p.bodies
  have hd0 : (startState (F := F) Prog.empty).done.length = 0 := by simp [startState]
  simp only [listC] at hbud
  have e : compileState Prog.empty p = layoutRoots p.bodies (bodiesSize p.bodies + 2) (startState Prog.empty) := rfl
  rw [← e] at hsteps hbud
  omega

/-- (iii) `layout_establishes_located` for whole programs: in `compile p` every body of the table is laid out at the
jump entry that is its id and is followed by `EndExpression` -/
theorem compile_env (p : Program F) (hwf : WFProgramC p) : Env (compile p) p.bodies := by
  have inv0 := startState_inv (F := F)
  have hlo := layoutRoots_located p.bodies (bodiesSize p.bodies + 2) (startState Prog.empty) inv0
    (compile_complete p hwf.labels) (fun r hr => hwf.labels r hr) (compile_distinct p)
  obtain ⟨_, _, hdone, _⟩ := hlo
  constructor
  intro id b hb
  obtain ⟨r, hr, hk⟩ := hwf.covered id b hb
  rcases hdone r hr with h | ⟨⟨hlab, hloc⟩, href⟩
  · simp [startState] at h
  · have hpid : r.patch = id := hlab id hk
    obtain ⟨hcont, hterm⟩ := href id hk
    have hrb : rootBody p.bodies r = some b := by simp [rootBody, hk, hb]
    obtain ⟨tb, hj, hl, hi⟩ := hloc b hrb
    rw [hcont, hpid] at hl
    rw [hpid] at hj
    have hwb := hwf.wf id b hb
    rw [hterm, termsAfter_end hl hwb] at hi
    exact ⟨tb, hj, hl, hwb, hi.1⟩

/-- **C01, the central theorem**: a program that the reference evaluator gives a value to runs, compiled, to
completion with that value as the current value, the same host-call trace, no pending operands, the
input-value stack at its initial depth and no frames -/
theorem C01_compile_correct_strict (p : Program F) (input : Val F) (fuel : Nat) (v : Val F) (st : St F)
    (hwf : WFProgramC p) (h : evalProgramS fo host fuel p input = .ok (v, st)) :
    ∃ n s, run fo host (compile p) n
        { pc := (compile p).jumps[0]?.getD 0, regs := [], vals := [input], frames := [], trace := [] } = (.halted s, n) ∧
      s.vals = [v] ∧ s.regs = [] ∧ s.frames = [] ∧ s.trace = st.trace := by
  obtain ⟨t, n, s, hj, hrun, h1, h2, h3, h4⟩ := run_program fo host (compile_env p hwf) hwf.main0 hwf.tail h
  refine ⟨n, s, ?_, h1, h2, h3, h4⟩
  rw [hj]
  exact hrun

/-- the strict evaluator only adds the side condition: a value it gives is the value `evalProgram` gives -/
theorem evalProgramS_refines {p : Program F} {input : Val F} {fuel : Nat} {r : Val F × St F}
    (h : evalProgramS fo host fuel p input = .ok r) : evalProgram fo host fuel p input = .ok r :=
  strict_refines fo host h

/-- **C01 with else-chains that have no final arm** (exclusion F1 as a condition on the evaluation instead of on the
syntax): for a program whose else-chains may lack the final arm, if the meaning of the source is `(v, trace)` and the
evaluation never reaches a missing fall-through — in every else-chain without a final arm that is evaluated, in every
iteration and every call, some arm matches: `evalProgramS ≠ .err .state`, where `evalProgramS` is `evalProgram` with
exactly that one outcome turned into an error (`strict_or`) — the compiled program computes `(v, trace)`. -/
theorem C01_compile_correct_chain (p : Program F) (input : Val F) (fuel : Nat) (v : Val F) (st : St F)
    (hwf : WFProgramC p) (h : evalProgram fo host fuel p input = .ok (v, st))
    (hnf : evalProgramS fo host fuel p input ≠ .err .state) :
    ∃ n s, run fo host (compile p) n
        { pc := (compile p).jumps[0]?.getD 0, regs := [], vals := [input], frames := [], trace := [] } = (.halted s, n) ∧
      s.vals = [v] ∧ s.regs = [] ∧ s.frames = [] ∧ s.trace = st.trace :=
  C01_compile_correct_strict fo host p input fuel v st hwf (strict_of_noFall fo host h hnf)

theorem C01_compile_correct (p : Program F) (input : Val F) (fuel : Nat) (v : Val F) (st : St F)
    (hwf : WFProgram p) (h : evalProgram fo host fuel p input = .ok (v, st)) :
    ∃ n s, run fo host (compile p) n
        { pc := (compile p).jumps[0]?.getD 0, regs := [], vals := [input], frames := [], trace := [] } = (.halted s, n) ∧
      s.vals = [v] ∧ s.regs = [] ∧ s.frames = [] ∧ s.trace = st.trace := by
  refine C01_compile_correct_strict fo host p input fuel v st hwf.toC ?_
  simp only [evalProgramS, evalProgram] at h ⊢
  rw [strict_eq hwf.wf 0 fuel p.main _ (hwf.wf 0 p.main hwf.main0)]
  exact h

/-- the statement of Props/C01.lean (`C01_compile_correct_statement`) holds for `compile` on well-formed programs -/
theorem C01_compile_correct_statement_wf :
    ∀ (p : Program F) (input : Val F) (fuel : Nat) (v : Val F) (st : St F), WFProgram p →
      evalProgram fo host fuel p input = .ok (v, st) →
      ∃ n s, run fo host (compile p) n
          { pc := (compile p).jumps[0]?.getD 0, regs := [], vals := [input], frames := [], trace := [] } = (.halted s, n) ∧
        s.vals = [v] ∧ s.regs = [] ∧ s.frames = [] ∧ s.trace = st.trace :=
  fun p input fuel v st hwf h => C01_compile_correct fo host p input fuel v st hwf h

/-! ### the stages (kept as theorems of their own; each is the central theorem on a class of programs) -/

mutual
/-- literals, `$`, identifiers, operators, pairs, lists, `;`, side-effect blocks -/
def straightE : Expr F → Bool
  | .lit _ | .input | .ident _ => true
  | .unary op x => op != .emptyApply && straightE x
  | .binary op l r => op != .apply && straightE l && straightE r
  | .pair l r | .seq l r | .sideAfter l r => straightE l && straightE r
  | .list items => straightL items
  | _ => false
def straightL : List (Expr F) → Bool
  | [] => true
  | x :: xs => straightE x && straightL xs
end

mutual
/-- … plus conditionals, else-chains, `&&`, `||` -/
def branchE : Expr F → Bool
  | .lit _ | .input | .ident _ => true
  | .unary op x => op != .emptyApply && branchE x
  | .binary op l r => op != .apply && branchE l && branchE r
  | .pair l r | .seq l r | .sideAfter l r | .cond _ l r | .and l r | .or l r => branchE l && branchE r
  | .list items => branchL items
  | .chain arms (some fe) => branchA arms && branchE fe
  | _ => false
def branchL : List (Expr F) → Bool
  | [] => true
  | x :: xs => branchE x && branchL xs
def branchA : List (Bool × Expr F × Expr F) → Bool
  | [] => true
  | (_, c, t) :: rest => branchE c && branchE t && branchA rest
end

/-- … plus nested expressions and every form of application: everything except `^~` -/
def callsP (p : Program F) : Prop := ∀ id b, lookupBody p.bodies id = some b → noR b = true

/-- stage 1: programs without jumps -/
theorem C01_compile_correct_straightline (p : Program F) (input : Val F) (fuel : Nat) (v : Val F) (st : St F)
    (_hs : straightE p.main = true) (hwf : WFProgram p) (h : evalProgram fo host fuel p input = .ok (v, st)) :
    ∃ n s, run fo host (compile p) n
        { pc := (compile p).jumps[0]?.getD 0, regs := [], vals := [input], frames := [], trace := [] } = (.halted s, n) ∧
      s.vals = [v] ∧ s.regs = [] ∧ s.frames = [] ∧ s.trace = st.trace :=
  C01_compile_correct fo host p input fuel v st hwf h

/-- stage 2: conditionals, else-chains with a final arm, `&&`/`||` -/
theorem C01_compile_correct_branches (p : Program F) (input : Val F) (fuel : Nat) (v : Val F) (st : St F)
    (_hs : branchE p.main = true) (hwf : WFProgram p) (h : evalProgram fo host fuel p input = .ok (v, st)) :
    ∃ n s, run fo host (compile p) n
        { pc := (compile p).jumps[0]?.getD 0, regs := [], vals := [input], frames := [], trace := [] } = (.halted s, n) ∧
      s.vals = [v] ∧ s.regs = [] ∧ s.frames = [] ∧ s.trace = st.trace :=
  C01_compile_correct fo host p input fuel v st hwf h

/-- stage 3: nested expressions, apply / apply-to / empty apply, identifier application (frames) -/
theorem C01_compile_correct_calls (p : Program F) (input : Val F) (fuel : Nat) (v : Val F) (st : St F)
    (_hs : callsP p) (hwf : WFProgram p) (h : evalProgram fo host fuel p input = .ok (v, st)) :
    ∃ n s, run fo host (compile p) n
        { pc := (compile p).jumps[0]?.getD 0, regs := [], vals := [input], frames := [], trace := [] } = (.halted s, n) ∧
      s.vals = [v] ∧ s.regs = [] ∧ s.frames = [] ∧ s.trace = st.trace :=
  C01_compile_correct fo host p input fuel v st hwf h

/-- stage 4: `^~` loops — any number of iterations, in constant stack depth -/
theorem C01_compile_correct_loops (p : Program F) (input : Val F) (fuel : Nat) (v : Val F) (st : St F)
    (hwf : WFProgram p) (h : evalProgram fo host fuel p input = .ok (v, st)) :
    ∃ n s, run fo host (compile p) n
        { pc := (compile p).jumps[0]?.getD 0, regs := [], vals := [input], frames := [], trace := [] } = (.halted s, n) ∧
      s.vals = [v] ∧ s.regs = [] ∧ s.frames = [] ∧ s.trace = st.trace :=
  C01_compile_correct fo host p input fuel v st hwf h

/-! ### corollaries: what is evaluated (C10) and which host calls are made (C17) -/

/-- C17: the host calls of the compiled program are exactly those of the source's meaning, in order -/
theorem C17_trace_transfer (p : Program F) (input : Val F) (fuel : Nat) (v : Val F) (st : St F)
    (hwf : WFProgram p) (h : evalProgram fo host fuel p input = .ok (v, st)) :
    ∃ n s, run fo host (compile p) n
        { pc := (compile p).jumps[0]?.getD 0, regs := [], vals := [input], frames := [], trace := [] } = (.halted s, n) ∧
      s.trace = st.trace := by
  obtain ⟨n, s, hr, _, _, _, ht⟩ := C01_compile_correct fo host p input fuel v st hwf h
  exact ⟨n, s, hr, ht⟩

/-- C10: `l && r` with a false left operand: the compiled program's result is `$!` and its host calls are those of
`l` alone — nothing of `r` is executed -/
theorem C10_and_short_circuits (p : Program F) (l r : Expr F) (hm : p.main = .and l r) (hwf : WFProgram p)
    (input : Val F) (fuel : Nat) (vl : Val F) (st1 : St F)
    (hl : evalF fo host p.bodies 0 fuel l ⟨input, []⟩ = .ok (.val vl, st1)) (hf : vl.truthy = false) :
    ∃ n s, run fo host (compile p) n
        { pc := (compile p).jumps[0]?.getD 0, regs := [], vals := [input], frames := [], trace := [] } = (.halted s, n) ∧
      s.vals = [.fls] ∧ s.trace = st1.trace := by
  have h : evalProgram fo host (fuel + 2) p input = .ok (.fls, st1) := by
    simp [evalProgram, evalBody, hm, evalF, hl, hf]
  obtain ⟨n, s, hr, hv, _, _, ht⟩ := C01_compile_correct fo host p input (fuel + 2) _ _ hwf h
  exact ⟨n, s, hr, hv, ht⟩

/-- C10: `l || r` with a true left operand: result `$?`, host calls of `l` alone -/
theorem C10_or_short_circuits (p : Program F) (l r : Expr F) (hm : p.main = .or l r) (hwf : WFProgram p)
    (input : Val F) (fuel : Nat) (vl : Val F) (st1 : St F)
    (hl : evalF fo host p.bodies 0 fuel l ⟨input, []⟩ = .ok (.val vl, st1)) (hf : vl.truthy = true) :
    ∃ n s, run fo host (compile p) n
        { pc := (compile p).jumps[0]?.getD 0, regs := [], vals := [input], frames := [], trace := [] } = (.halted s, n) ∧
      s.vals = [.tru] ∧ s.trace = st1.trace := by
  have h : evalProgram fo host (fuel + 2) p input = .ok (.tru, st1) := by
    simp [evalProgram, evalBody, hm, evalF, hl, hf]
  obtain ⟨n, s, hr, hv, _, _, ht⟩ := C01_compile_correct fo host p input (fuel + 2) _ _ hwf h
  exact ⟨n, s, hr, hv, ht⟩

/-- C10: a conditional whose test fails: the value is `$` and the host calls are those of the test alone — the
unselected arm is not executed -/
theorem C10_cond_evaluates_selected_arm (p : Program F) (onTrue : Bool) (c t : Expr F) (hm : p.main = .cond onTrue c t)
    (hwf : WFProgram p) (input : Val F) (fuel : Nat) (vc : Val F) (st1 : St F)
    (hc : evalF fo host p.bodies 0 fuel c ⟨input, []⟩ = .ok (.val vc, st1)) (hf : (vc.truthy == onTrue) = false) :
    ∃ n s, run fo host (compile p) n
        { pc := (compile p).jumps[0]?.getD 0, regs := [], vals := [input], frames := [], trace := [] } = (.halted s, n) ∧
      s.vals = [st1.inp] ∧ s.trace = st1.trace := by
  have h : evalProgram fo host (fuel + 2) p input = .ok (st1.inp, st1) := by
    simp [evalProgram, evalBody, hm, evalF, hc, hf]
  obtain ⟨n, s, hr, hv, _, _, ht⟩ := C01_compile_correct fo host p input (fuel + 2) _ _ hwf h
  exact ⟨n, s, hr, hv, ht⟩

/-! ### non-vacuity: a concrete well-formed program with a conditional, and its compiled form -/

/-- `$ ?> 1` -/
def exProg : Program F := { main := .cond true .input (.lit (.num (.int 1))), bodies := [(0, .cond true .input (.lit (.num (.int 1))))] }

example : (compile (exProg (F := F))).instrs =
    #[(.putValue, none), (.jumpIfTrue, some 1), (.putValue, none), (.endExpression, none), (.put, some 0), (.jumpTo, some 2)] ∧
    (compile (exProg (F := F))).jumps = #[0, 4, 3] := by
  constructor <;> rfl

example : WFProgram (exProg (F := F)) where
  main0 := rfl
  wf := by
    intro id b h
    simp only [exProg, lookupBody] at h
    split at h
    · cases h; rfl
    · cases h
  tail := rfl
  labels := by
    intro r hr id hk
    have : (compileState Prog.empty (exProg (F := F))).done =
        [⟨.code (.lit (.num (.int 1))), 1, [(.jumpTo, some 2)], 0⟩, ⟨.ref 0, 0, [(.endExpression, none)], 0⟩] := rfl
    rw [this] at hr
    simp only [List.mem_cons, List.not_mem_nil, or_false] at hr
    rcases hr with rfl | rfl
    · cases hk
    · cases hk; rfl
  covered := by
    intro id b h
    simp only [exProg, lookupBody] at h
    split at h
    · rename_i hid
      have : id = 0 := by
        have h0 : (0 : Nat) = id := by simpa using hid
        exact h0.symm
      subst this
      exact ⟨⟨.ref 0, 0, [(.endExpression, none)], 0⟩, by
        have : (compileState Prog.empty (exProg (F := F))).done =
          [⟨.code (.lit (.num (.int 1))), 1, [(.jumpTo, some 2)], 0⟩, ⟨.ref 0, 0, [(.endExpression, none)], 0⟩] := rfl
        rw [this]; simp, rfl⟩
    · cases h
/-! ### non-vacuity for (F1): an else-chain without a final arm -/

/-- `$ ?> 5 |> $ == 1 ?> 7`: two conditional arms, no final arm -/
def exChain : Program Float :=
  { main := .chain [(true, .input, .lit (.num (.int 5))), (true, .binary .equal .input (.lit (.num (.int 1))), .lit (.num (.int 7)))] none,
    bodies := [(0, .chain [(true, .input, .lit (.num (.int 5))), (true, .binary .equal .input (.lit (.num (.int 1))), .lit (.num (.int 7)))] none)] }

theorem exChain_done : (compileState Prog.empty exChain).done =
    [⟨.code (.lit (.num (.int 5))), 1, [(.jumpTo, some 3)], 0⟩, ⟨.code (.lit (.num (.int 7))), 2, [(.jumpTo, some 3)], 0⟩,
     ⟨.ref 0, 0, [(.endExpression, none)], 0⟩] := by rfl

theorem exChain_wf : WFProgramC exChain where
  main0 := rfl
  wf := by
    intro id b h
    simp only [exChain, lookupBody] at h
    split at h
    · cases h; rfl
    · cases h
  tail := rfl
  labels := by
    intro r hr id hk
    rw [exChain_done] at hr
    simp only [List.mem_cons, List.not_mem_nil, or_false] at hr
    rcases hr with rfl | rfl | rfl <;> first | (cases hk; rfl) | cases hk
  covered := by
    intro id b h
    simp only [exChain, lookupBody] at h
    split at h
    · rename_i hid
      have h0 : (0 : Nat) = id := by simpa using hid
      subst h0
      exact ⟨⟨.ref 0, 0, [(.endExpression, none)], 0⟩, by rw [exChain_done]; simp, rfl⟩
    · cases h

/-- on a truthy input the first arm matches: the strict evaluator gives `5`, and so does the compiled program … -/
example (fo : FloatOps Float) (host : Host Float) :
    ∃ n s, run fo host (compile exChain) n
        { pc := (compile exChain).jumps[0]?.getD 0, regs := [], vals := [.num (.int 3)], frames := [], trace := [] } = (.halted s, n) ∧
      s.vals = [.num (.int 5)] ∧ s.regs = [] ∧ s.frames = [] ∧ s.trace = [] :=
  C01_compile_correct_strict fo host exChain (.num (.int 3)) 5 (.num (.int 5)) ⟨.num (.int 3), []⟩ exChain_wf
    (by simp [evalProgramS, evalBodyS, evalFS, evalChainS, exChain, Val.truthy])

/-- … on `()` no arm matches: `evalProgram` says `()` (the current `$`), the strict evaluator reports the missing
fall-through — the side condition of `C01_compile_correct_chain` fails, and rightly so: the compiled code pushes nothing -/
example (fo : FloatOps Float) (host : Host Float) :
    evalProgram fo host 6 exChain .unit = .ok (.unit, ⟨.unit, []⟩) ∧
    evalProgramS fo host 6 exChain .unit = .err .state := by
  constructor <;>
    simp [evalProgram, evalProgramS, evalBody, evalBodyS, evalF, evalFS, evalChain, evalChainS, exChain, Val.truthy, binaryOp,
      valEq, norm, nvalEq, Val.ofBool, settle]

/-! ### regression for the former finding (F2): `{ }` inside a conditional arm

`({ $ == 1 ?> { } } <~ 1) <~ 0` used to give `Expression(2)` (the arm's own jump entry) on the real pipeline where the
meaning of the source is `0`; since repo commit df89d39 `{ }` names the containing expression everywhere, `emit` follows
(`.emptyNested ↦ Put (.expr cur)`), the exclusion is gone from `wfE`, and the program is an ordinary well-formed one. -/

def exF2body : Expr Float := .cond true (.binary .equal .input (.lit (.num (.int 1)))) .emptyNested
def exF2main : Expr Float :=
  .binary .apply (.binary .apply (.nested 1) (.lit (.num (.int 1)))) (.lit (.num (.int 0)))
def exF2 : Program Float := { main := exF2main, bodies := [(0, exF2main), (1, exF2body)] }

/-- the arm (root 2, laid out at 12) holds `Put (e 1)`: the nested body, not the arm -/
example : (compile exF2).instrs =
    #[(.put, some 0), (.put, some 1), (.apply, none), (.put, some 2), (.apply, none), (.endExpression, none),
      (.putValue, none), (.put, some 3), (.equal, none), (.jumpIfTrue, some 2), (.putValue, none), (.endExpression, none),
      (.put, some 4), (.jumpTo, some 3)] ∧
    (compile exF2).jumps = #[0, 6, 12, 11] := by
  constructor <;> decide

example : (compile exF2).consts[4]? = some (.expr 1) := by rfl

theorem exF2_done : (compileState Prog.empty exF2).done =
    [⟨.code .emptyNested, 2, [(.jumpTo, some 3)], 1⟩, ⟨.ref 1, 1, [(.endExpression, none)], 1⟩,
     ⟨.ref 0, 0, [(.endExpression, none)], 0⟩] := by rfl

theorem exF2_wf : WFProgram exF2 where
  main0 := rfl
  wf := by
    intro id b h
    simp only [exF2, lookupBody] at h
    split at h
    · cases h; rfl
    · split at h
      · cases h; rfl
      · cases h
  tail := rfl
  labels := by
    intro r hr id hk
    rw [exF2_done] at hr
    simp only [List.mem_cons, List.not_mem_nil, or_false] at hr
    rcases hr with rfl | rfl | rfl <;> first | (cases hk; rfl) | cases hk
  covered := by
    intro id b h
    rw [exF2_done]
    simp only [exF2, lookupBody] at h
    split at h
    · rename_i hid
      have h0 : (0 : Nat) = id := by simpa using hid
      subst h0
      exact ⟨⟨.ref 0, 0, [(.endExpression, none)], 0⟩, by simp, rfl⟩
    · split at h
      · rename_i hid
        have h0 : (1 : Nat) = id := by simpa using hid
        subst h0
        exact ⟨⟨.ref 1, 1, [(.endExpression, none)], 1⟩, by simp, rfl⟩
      · cases h

/-- the meaning of the source: `0` -/
theorem exF2_meaning (fo : FloatOps Float) (host : Host Float) :
    evalProgram fo host 12 exF2 .unit = .ok (.num (.int 0), ⟨.unit, []⟩) := by
  simp [evalProgram, evalBody, evalF, applyVals, applyKind, lookupBody, exF2, exF2main, exF2body, binaryOp, valEq, norm,
    nvalEq, Number.numEq, Val.ofBool, Val.truthy, settle]

/-- … and that is what the compiled program computes -/
example (fo : FloatOps Float) (host : Host Float) :
    ∃ n s, run fo host (compile exF2) n
        { pc := (compile exF2).jumps[0]?.getD 0, regs := [], vals := [.unit], frames := [], trace := [] } = (.halted s, n) ∧
      s.vals = [.num (.int 0)] ∧ s.regs = [] ∧ s.frames = [] ∧ s.trace = [] :=
  C01_compile_correct fo host exF2 .unit 12 _ _ exF2_wf (exF2_meaning fo host)

/-- the verified depth analysis accepts the compiled example (C06 static half, non-vacuity) -/
example : (C06.absDepth (compile (exProg (F := Float))) 0).isSome = true := by decide

end Garnish.Props.C01

/-! ## C06, static half: every compiled program is balanced

`C06_compile_balanced`: for every program whose bodies are well formed (`wfE`) and contain `^~` in tail positions
only (`tailAll` — in EVERY body, not only the top-level one: an operand pending at a restart makes the depth at the
body's entry depend on the path) the verified analysis `absDepth` succeeds on `compile p`. With `absDepth_sound`
(Props/C06Static.lean): along every execution the operand depth relative to the frame base is a function of the
program counter alone, never negative, and 1 at every `EndExpression` — for all compiled programs, all inputs, all
hosts, all paths, any number of iterations (`C06_compile_balanced_sound`).
Proof: `emit` carries a ghost depth for every instruction (`LState.depths`); Lemmas/CompileDepth*.lean show that this
assignment is consistent in the final program (`loopE`: every instruction is `EdgeOK`; `loopC`: the entry of every
`Expression` constant has depth 0); Lemmas/CompileDepthInfer.lean shows that the work-list search succeeds whenever a
consistent assignment exists. -/
namespace Garnish.Props.C06
open Garnish Gen Garnish.Abs Garnish.Spec

variable {F : Type} (fo : FloatOps F) (host : Host F)

/-- `^~` in tail positions only, and well-formedness, in every body of the table -/
def tailAll (p : Program F) : Bool := p.bodies.all (fun ib => wfE ib.2 && tailR ib.2)

theorem lookupBody_mem {bodies : List (Nat × Expr F)} {id : Nat} {b : Expr F} (h : lookupBody bodies id = some b) :
    (id, b) ∈ bodies := by
  induction bodies with
  | nil => simp [lookupBody] at h
  | cons x xs ih =>
    obtain ⟨k, e⟩ := x
    simp only [lookupBody] at h
    split at h
    · rename_i hk
      simp only [Option.some.injEq] at h
      have : k = id := by simpa using hk
      subst this; subst h
      exact List.mem_cons_self
    · exact List.mem_cons_of_mem _ (ih h)

/-- what `C06_compile_balanced` asks of a program -/
structure WFBalanced (p : Program F) : Prop where
  /-- every body is well formed and has `^~` in tail positions only -/
  tail : tailAll p = true
  /-- every nested id that is laid out has a body in the table -/
  closed : ∀ r ∈ (compileState Prog.empty p).done, ∀ id, r.kind = .ref id → ∃ b, lookupBody p.bodies id = some b
  labels : ∀ r ∈ (compileState Prog.empty p).done, ∀ id, r.kind = .ref id → r.patch = id

theorem startState_inv' : Inv (startState (F := F) Prog.empty) := by
  refine ⟨fun r hr => ?_, fun r hr => ?_, fun r hr => ?_⟩ <;>
    simp only [startState, List.mem_singleton] at hr <;> subst hr
  · simp [startState, Prog.empty]
  · simp [startState, Prog.empty]
  · intro id _; exact ⟨rfl, rfl⟩

/-- **C06_compile_balanced**: the verified depth analysis succeeds on every compiled program -/
theorem C06_compile_balanced (p : Program F) (h : WFBalanced p) :
    ∃ d, absDepth (compile p) ((compile p).jumps[0]?.getD 0) = some d := by
  have inv0 := C01.startState_inv (F := F)
  have hdist := C01.compile_distinct p
  have hcomplete := C01.compile_complete p h.labels
  have dinv0 : DInv (startState (F := F) Prog.empty) := ⟨by simp [Al, startState, Prog.empty], by simp [startState]⟩
  have hprog : ∀ id b, lookupBody p.bodies id = some b → wfE b = true ∧ tailR b = true := by
    intro id b hb
    have := List.all_eq_true.1 h.tail (id, b) (lookupBody_mem hb)
    simpa using this
  have hyp0 : ∀ q ∈ (startState (F := F) Prog.empty).pending.zip (startState (F := F) Prog.empty).pendDep,
      TermOK (compileState Prog.empty p) q.1 q.2 := by
    intro q hq
    simp only [startState, List.zip_cons_cons, List.zip_nil_right, List.mem_singleton] at hq
    subst hq
    exact ⟨fun j hj => by simp at hj, fun b hb => by simp at hb, fun _ _ => rfl⟩
  have hE := loopE p.bodies (bodiesSize p.bodies + 2) (startState Prog.empty) inv0 dinv0 hcomplete
    (fun r hr => h.labels r hr) hdist hprog h.closed hyp0
  have hC := loopC p.bodies (bodiesSize p.bodies + 2) (startState Prog.empty) inv0 dinv0 hcomplete
    (fun r hr => h.labels r hr) hdist hprog h.closed hyp0
  obtain ⟨_, alF, hroots⟩ := monoD p.bodies (bodiesSize p.bodies + 2) (startState Prog.empty) inv0 dinv0 hcomplete
    (fun r hr => h.labels r hr) hdist
  have hD : DOK (compile p) (compileState Prog.empty p).depths := by
    refine ⟨alF, fun pc k hk => ?_⟩
    have hlt : pc < (compileState Prog.empty p).instrs.size := by
      have := (Array.getElem?_eq_some_iff.mp hk).1
      have e : (compileState Prog.empty p).depths.size = (compileState Prog.empty p).instrs.size := alF
      omega
    obtain ⟨k', es, hd, he, hes⟩ := hE pc (by simp [startState, Prog.empty]) hlt
    have hd : (compileState Prog.empty p).depths[pc]? = some k' := hd
    rw [hk] at hd
    simp only [Option.some.injEq] at hd
    subst hd
    exact ⟨es, he, hes⟩
  refine absDepth_complete hD (fun t ht => ?_)
  simp only [List.mem_cons] at ht
  rcases ht with rfl | ht
  · have hr0 := hroots (⟨.ref 0, 0, [(.endExpression, none)], 0⟩, 0) (by simp [startState, Prog.empty])
    cases hj : (compile p).jumps[0]? with
    | none =>
      simp only [Option.getD_none]
      have hj0 := head_jump p.bodies (fuel := bodiesSize p.bodies + 1) (s := startState Prog.empty) inv0
        (r := ⟨.ref 0, 0, [(.endExpression, none)], 0⟩) (rest := []) (by simp [startState, Prog.empty]) hcomplete
        (fun r hr => h.labels r hr) hdist
      have : (compile p).jumps[0]? = some 0 := hj0
      rw [hj] at this; cases this
    | some t =>
      simp only [Option.getD_some]
      exact hr0 t hj
  · simp only [exprEntries, List.mem_filterMap] at ht
    obtain ⟨v, hv, hvt⟩ := ht
    cases v with
    | expr j =>
      simp only at hvt
      obtain ⟨k, hk, hkv⟩ := List.getElem_of_mem hv
      have hck : (compile p).consts[k]? = some (.expr j) := by
        rw [← Array.getElem?_toList]
        rw [List.getElem?_eq_getElem hk, hkv]
      exact hC k j (Nat.zero_le _) hck t hvt
    | _ => simp at hvt

/-- the static half of C06 for all compiled programs: the analysis succeeds, and therefore along every execution
(in which the expressions entered are bodies known to the analysis) the frame-relative operand depth is the one
the analysis assigns to the program counter — path-independent and never negative — and it is exactly 1 at every
`EndExpression` -/
theorem C06_compile_balanced_sound (p : Program F) (h : WFBalanced p) :
    ∃ d, absDepth (compile p) ((compile p).jumps[0]?.getD 0) = some d ∧
      ∀ (vals : List (Val F)) (tr : List (HostCall F)) (s : MState F),
        (compile p).jumps[0]?.getD 0 < (compile p).instrs.size →
        ReachK fo host (compile p) ((compile p).jumps[0]?.getD 0 :: exprEntries (compile p))
          ⟨(compile p).jumps[0]?.getD 0, [], vals, [], tr⟩ s →
        Good (compile p) d s ∧
        (∀ o, (compile p).instrs[s.pc]? = some (.endExpression, o) → s.regs.length = base s.frames + 1) := by
  obtain ⟨d, hd⟩ := C06_compile_balanced p h
  refine ⟨d, hd, fun vals tr s hentry hr => ⟨absDepth_sound (fo := fo) (host := host) hd hentry vals tr hr, fun o hi => ?_⟩⟩
  exact absDepth_endExpression_one (fo := fo) (host := host) hd hentry vals tr hr hi

end Garnish.Props.C06
