/-
C01 — compiled programs compute what the source means: the central theorem.

`Abs.compile` (Abs/Compile.lean) is the structured model of `build`; suite COMPILE ties it to the real
`build` (instruction stream, jump table and constants identical on every generated program).
`Spec.evalProgram` is the meaning of a program, `Abs.run` the value-level machine.

  C01_compile_correct :
    WFProgram p → evalProgram fo host fuel p input = .ok (v, st) →
    ∃ n s, run fo host (compile p) n ⟨entry, [], [input], [], []⟩ = (.halted s, n) ∧
           s.vals = [v] ∧ s.regs = [] ∧ s.frames = [] ∧ s.trace = st.trace

for every float type, host, input, fuel: no bound on program size, nesting depth, recursion or iterations.
Proof: (ii) `run_located` (Lemmas/CompileRun*.lean, induction on the evaluator's fuel) relative to
`Env` = "every body is laid out at the jump entry that is its id"; (iii) `layoutRoots_located`
(Lemmas/CompileLayout*.lean) establishes `Env` for `compile p`.

`WFProgram` — every exclusion:
  language-level (shapes the AST type admits and the language cannot produce)
   1. `main0`    body 0 of the table is the program itself (the convention of `evalProgram`).
   2. `wf` → `wfE`:
      a. `unary op`: `op` is a prefix/suffix operator or `~~` (`unOK`); `binary op`: `op` is a binary operator whose
         operands are evaluated left first (`binOK`; `=` and `~>` have their own constructors: `binary makePair`
         would evaluate left first, which no instruction sequence of the builder does).
      b. an else-chain has at least its final arm … see (F1).
      c. `{ }` (emptyNested) does not occur inside an out-of-line root (body of a conditional / else-chain arm,
         right operand of `&&`/`||`) … see (F2).
      d. the body of a side-effect block contains no `^~` of the enclosing body (a restart from inside the block
         would leave the block's copy of `$` on the input-value stack — C06's decision on non-tail `^~`).
   3. `tail`     in the top-level program `^~` occurs only in tail positions (end of the body, of a conditional
                 arm, of the right operand of `&&`/`||`): an operand pending at a top-level restart stays on the
                 operand stack for good, so `s.regs = []` would fail (nested bodies are not restricted: the frame
                 pop discards the surplus) — DESIGN §6 C06 "Decision recorded here".
  labelling (the ids of `nested` are names; the theorem compares values, so the names must be the jump entries)
   4. `labels`   the id of every nested body is the jump entry `compile` allocates for it;
      `covered`  every body of the table is referenced by a `nested id` that is laid out (no dead table entries,
                 which a value `.expr id` coming from the input could enter).
  technical (true for every tree-shaped program; checked by the driver on every generated program; each could be
  discharged by a further invariant of `emit`)
   5. `complete` the layout loop finished within its fuel (= total size of the bodies): body references are
                 not cyclic;
      `distinct` the roots laid out have pairwise distinct jump entries.
  findings excluded by shape (language CAN produce them; `build` and the meaning of the source differ):
   (F1) else-chain whose last arm is conditional and fails: no value is pushed (DESIGN finding #6).
   (F2) `$ ?> { }`: the empty nested expression inside an out-of-line root refers to that root's jump entry,
        not to the containing expression.
-/
import Garnish.Lemmas.CompileRun4
import Garnish.Lemmas.CompileLayout4
import Garnish.Props.C06Static
namespace Garnish.Props.C01
open Garnish Gen Garnish.Abs Garnish.Spec

variable {F : Type} (fo : FloatOps F) (host : Host F)

structure WFProgram (p : Program F) : Prop where
  main0 : lookupBody p.bodies 0 = some p.main
  wf : ∀ id b, lookupBody p.bodies id = some b → wfE b = true
  tail : tailR p.main = true
  labels : ∀ r ∈ (compileState Prog.empty p).done, ∀ id, r.kind = .ref id → r.patch = id
  covered : ∀ id b, lookupBody p.bodies id = some b → ∃ r ∈ (compileState Prog.empty p).done, r.kind = .ref id
  complete : (compileState Prog.empty p).pending = []
  distinct : ((compileState Prog.empty p).done.map (·.patch)).Nodup

theorem compile_eq (p : Program F) : compile p = (compileState Prog.empty p).toProg := rfl

/-- (iii) `layout_establishes_located` for whole programs: in `compile p` every body of the table is laid out at the
jump entry that is its id and is followed by `EndExpression` -/
theorem compile_env (p : Program F) (hwf : WFProgram p) : Env (compile p) p.bodies := by
  have inv0 : Inv (startState (F := F) Prog.empty) := by
    refine ⟨fun r hr => ?_, fun r hr => ?_, fun r hr => ?_⟩ <;>
      simp only [startState, List.mem_singleton] at hr <;> subst hr
    · simp [startState, Prog.empty]
    · simp [startState, Prog.empty]
    · intro id _; exact ⟨rfl, rfl⟩
  have hlo := layoutRoots_located p.bodies (bodiesSize p.bodies + 1) (startState Prog.empty) inv0
    hwf.complete (fun r hr => hwf.labels r hr) hwf.distinct
  obtain ⟨_, _, hdone, _⟩ := hlo
  constructor
  intro id b hb
  obtain ⟨r, hr, hk⟩ := hwf.covered id b hb
  rcases hdone r hr with h | ⟨⟨hlab, hloc⟩, href⟩
  · simp [startState] at h
  · have hpid : r.patch = id := hlab id hk
    obtain ⟨hcont, hterm⟩ := href id hk
    have hrb : rootBody p.bodies r = some b := by simp [rootBody, hk, hb]
    obtain ⟨tb, hj, hl, hi⟩ := hloc b hrb
    rw [hcont, hpid] at hl
    rw [hpid] at hj
    have hwb := hwf.wf id b hb
    rw [hterm, termsAfter_end hl hwb] at hi
    exact ⟨tb, hj, hl, hwb, hi.1⟩

/-- **C01, the central theorem**: a program that the reference evaluator gives a value to runs, compiled, to
completion with that value as the current value, the same host-call trace, no pending operands, the
input-value stack at its initial depth and no frames -/
theorem C01_compile_correct (p : Program F) (input : Val F) (fuel : Nat) (v : Val F) (st : St F)
    (hwf : WFProgram p) (h : evalProgram fo host fuel p input = .ok (v, st)) :
    ∃ n s, run fo host (compile p) n
        { pc := (compile p).jumps[0]?.getD 0, regs := [], vals := [input], frames := [], trace := [] } = (.halted s, n) ∧
      s.vals = [v] ∧ s.regs = [] ∧ s.frames = [] ∧ s.trace = st.trace := by
  obtain ⟨t, n, s, hj, hrun, h1, h2, h3, h4⟩ := run_program fo host (compile_env p hwf) hwf.main0 hwf.tail h
  refine ⟨n, s, ?_, h1, h2, h3, h4⟩
  rw [hj]
  exact hrun

/-- the statement of Props/C01.lean (`C01_compile_correct_statement`) holds for `compile` on well-formed programs -/
theorem C01_compile_correct_statement_wf :
    ∀ (p : Program F) (input : Val F) (fuel : Nat) (v : Val F) (st : St F), WFProgram p →
      evalProgram fo host fuel p input = .ok (v, st) →
      ∃ n s, run fo host (compile p) n
          { pc := (compile p).jumps[0]?.getD 0, regs := [], vals := [input], frames := [], trace := [] } = (.halted s, n) ∧
        s.vals = [v] ∧ s.regs = [] ∧ s.frames = [] ∧ s.trace = st.trace :=
  fun p input fuel v st hwf h => C01_compile_correct fo host p input fuel v st hwf h

/-! ### the stages (kept as theorems of their own; each is the central theorem on a class of programs) -/

mutual
/-- literals, `$`, identifiers, operators, pairs, lists, `;`, side-effect blocks -/
def straightE : Expr F → Bool
  | .lit _ | .input | .ident _ => true
  | .unary op x => op != .emptyApply && straightE x
  | .binary op l r => op != .apply && straightE l && straightE r
  | .pair l r | .seq l r | .sideAfter l r => straightE l && straightE r
  | .list items => straightL items
  | _ => false
def straightL : List (Expr F) → Bool
  | [] => true
  | x :: xs => straightE x && straightL xs
end

mutual
/-- … plus conditionals, else-chains, `&&`, `||` -/
def branchE : Expr F → Bool
  | .lit _ | .input | .ident _ => true
  | .unary op x => op != .emptyApply && branchE x
  | .binary op l r => op != .apply && branchE l && branchE r
  | .pair l r | .seq l r | .sideAfter l r | .cond _ l r | .and l r | .or l r => branchE l && branchE r
  | .list items => branchL items
  | .chain arms (some fe) => branchA arms && branchE fe
  | _ => false
def branchL : List (Expr F) → Bool
  | [] => true
  | x :: xs => branchE x && branchL xs
def branchA : List (Bool × Expr F × Expr F) → Bool
  | [] => true
  | (_, c, t) :: rest => branchE c && branchE t && branchA rest
end

/-- … plus nested expressions and every form of application: everything except `^~` -/
def callsP (p : Program F) : Prop := ∀ id b, lookupBody p.bodies id = some b → noR b = true

/-- stage 1: programs without jumps -/
theorem C01_compile_correct_straightline (p : Program F) (input : Val F) (fuel : Nat) (v : Val F) (st : St F)
    (_hs : straightE p.main = true) (hwf : WFProgram p) (h : evalProgram fo host fuel p input = .ok (v, st)) :
    ∃ n s, run fo host (compile p) n
        { pc := (compile p).jumps[0]?.getD 0, regs := [], vals := [input], frames := [], trace := [] } = (.halted s, n) ∧
      s.vals = [v] ∧ s.regs = [] ∧ s.frames = [] ∧ s.trace = st.trace :=
  C01_compile_correct fo host p input fuel v st hwf h

/-- stage 2: conditionals, else-chains with a final arm, `&&`/`||` -/
theorem C01_compile_correct_branches (p : Program F) (input : Val F) (fuel : Nat) (v : Val F) (st : St F)
    (_hs : branchE p.main = true) (hwf : WFProgram p) (h : evalProgram fo host fuel p input = .ok (v, st)) :
    ∃ n s, run fo host (compile p) n
        { pc := (compile p).jumps[0]?.getD 0, regs := [], vals := [input], frames := [], trace := [] } = (.halted s, n) ∧
      s.vals = [v] ∧ s.regs = [] ∧ s.frames = [] ∧ s.trace = st.trace :=
  C01_compile_correct fo host p input fuel v st hwf h

/-- stage 3: nested expressions, apply / apply-to / empty apply, identifier application (frames) -/
theorem C01_compile_correct_calls (p : Program F) (input : Val F) (fuel : Nat) (v : Val F) (st : St F)
    (_hs : callsP p) (hwf : WFProgram p) (h : evalProgram fo host fuel p input = .ok (v, st)) :
    ∃ n s, run fo host (compile p) n
        { pc := (compile p).jumps[0]?.getD 0, regs := [], vals := [input], frames := [], trace := [] } = (.halted s, n) ∧
      s.vals = [v] ∧ s.regs = [] ∧ s.frames = [] ∧ s.trace = st.trace :=
  C01_compile_correct fo host p input fuel v st hwf h

/-- stage 4: `^~` loops — any number of iterations, in constant stack depth -/
theorem C01_compile_correct_loops (p : Program F) (input : Val F) (fuel : Nat) (v : Val F) (st : St F)
    (hwf : WFProgram p) (h : evalProgram fo host fuel p input = .ok (v, st)) :
    ∃ n s, run fo host (compile p) n
        { pc := (compile p).jumps[0]?.getD 0, regs := [], vals := [input], frames := [], trace := [] } = (.halted s, n) ∧
      s.vals = [v] ∧ s.regs = [] ∧ s.frames = [] ∧ s.trace = st.trace :=
  C01_compile_correct fo host p input fuel v st hwf h

/-! ### corollaries: what is evaluated (C10) and which host calls are made (C17) -/

/-- C17: the host calls of the compiled program are exactly those of the source's meaning, in order -/
theorem C17_trace_transfer (p : Program F) (input : Val F) (fuel : Nat) (v : Val F) (st : St F)
    (hwf : WFProgram p) (h : evalProgram fo host fuel p input = .ok (v, st)) :
    ∃ n s, run fo host (compile p) n
        { pc := (compile p).jumps[0]?.getD 0, regs := [], vals := [input], frames := [], trace := [] } = (.halted s, n) ∧
      s.trace = st.trace := by
  obtain ⟨n, s, hr, _, _, _, ht⟩ := C01_compile_correct fo host p input fuel v st hwf h
  exact ⟨n, s, hr, ht⟩

/-- C10: `l && r` with a false left operand: the compiled program's result is `$!` and its host calls are those of
`l` alone — nothing of `r` is executed -/
theorem C10_and_short_circuits (p : Program F) (l r : Expr F) (hm : p.main = .and l r) (hwf : WFProgram p)
    (input : Val F) (fuel : Nat) (vl : Val F) (st1 : St F)
    (hl : evalF fo host p.bodies 0 fuel l ⟨input, []⟩ = .ok (.val vl, st1)) (hf : vl.truthy = false) :
    ∃ n s, run fo host (compile p) n
        { pc := (compile p).jumps[0]?.getD 0, regs := [], vals := [input], frames := [], trace := [] } = (.halted s, n) ∧
      s.vals = [.fls] ∧ s.trace = st1.trace := by
  have h : evalProgram fo host (fuel + 2) p input = .ok (.fls, st1) := by
    simp [evalProgram, evalBody, hm, evalF, hl, hf]
  obtain ⟨n, s, hr, hv, _, _, ht⟩ := C01_compile_correct fo host p input (fuel + 2) _ _ hwf h
  exact ⟨n, s, hr, hv, ht⟩

/-- C10: `l || r` with a true left operand: result `$?`, host calls of `l` alone -/
theorem C10_or_short_circuits (p : Program F) (l r : Expr F) (hm : p.main = .or l r) (hwf : WFProgram p)
    (input : Val F) (fuel : Nat) (vl : Val F) (st1 : St F)
    (hl : evalF fo host p.bodies 0 fuel l ⟨input, []⟩ = .ok (.val vl, st1)) (hf : vl.truthy = true) :
    ∃ n s, run fo host (compile p) n
        { pc := (compile p).jumps[0]?.getD 0, regs := [], vals := [input], frames := [], trace := [] } = (.halted s, n) ∧
      s.vals = [.tru] ∧ s.trace = st1.trace := by
  have h : evalProgram fo host (fuel + 2) p input = .ok (.tru, st1) := by
    simp [evalProgram, evalBody, hm, evalF, hl, hf]
  obtain ⟨n, s, hr, hv, _, _, ht⟩ := C01_compile_correct fo host p input (fuel + 2) _ _ hwf h
  exact ⟨n, s, hr, hv, ht⟩

/-- C10: a conditional whose test fails: the value is `$` and the host calls are those of the test alone — the
unselected arm is not executed -/
theorem C10_cond_evaluates_selected_arm (p : Program F) (onTrue : Bool) (c t : Expr F) (hm : p.main = .cond onTrue c t)
    (hwf : WFProgram p) (input : Val F) (fuel : Nat) (vc : Val F) (st1 : St F)
    (hc : evalF fo host p.bodies 0 fuel c ⟨input, []⟩ = .ok (.val vc, st1)) (hf : (vc.truthy == onTrue) = false) :
    ∃ n s, run fo host (compile p) n
        { pc := (compile p).jumps[0]?.getD 0, regs := [], vals := [input], frames := [], trace := [] } = (.halted s, n) ∧
      s.vals = [st1.inp] ∧ s.trace = st1.trace := by
  have h : evalProgram fo host (fuel + 2) p input = .ok (st1.inp, st1) := by
    simp [evalProgram, evalBody, hm, evalF, hc, hf]
  obtain ⟨n, s, hr, hv, _, _, ht⟩ := C01_compile_correct fo host p input (fuel + 2) _ _ hwf h
  exact ⟨n, s, hr, hv, ht⟩

/-! ### non-vacuity: a concrete well-formed program with a conditional, and its compiled form -/

/-- `$ ?> 1` -/
def exProg : Program F := { main := .cond true .input (.lit (.num (.int 1))), bodies := [(0, .cond true .input (.lit (.num (.int 1))))] }

example : (compile (exProg (F := F))).instrs =
    #[(.putValue, none), (.jumpIfTrue, some 1), (.putValue, none), (.endExpression, none), (.put, some 0), (.jumpTo, some 2)] ∧
    (compile (exProg (F := F))).jumps = #[0, 4, 3] := by
  constructor <;> rfl

example : WFProgram (exProg (F := F)) where
  main0 := rfl
  wf := by
    intro id b h
    simp only [exProg, lookupBody] at h
    split at h
    · cases h; rfl
    · cases h
  tail := rfl
  labels := by
    intro r hr id hk
    have : (compileState Prog.empty (exProg (F := F))).done =
        [⟨.code (.lit (.num (.int 1))), 1, [(.jumpTo, some 2)], 0⟩, ⟨.ref 0, 0, [(.endExpression, none)], 0⟩] := rfl
    rw [this] at hr
    simp only [List.mem_cons, List.not_mem_nil, or_false] at hr
    rcases hr with rfl | rfl
    · cases hk
    · cases hk; rfl
  covered := by
    intro id b h
    simp only [exProg, lookupBody] at h
    split at h
    · rename_i hid
      have : id = 0 := by
        have h0 : (0 : Nat) = id := by simpa using hid
        exact h0.symm
      subst this
      exact ⟨⟨.ref 0, 0, [(.endExpression, none)], 0⟩, by
        have : (compileState Prog.empty (exProg (F := F))).done =
          [⟨.code (.lit (.num (.int 1))), 1, [(.jumpTo, some 2)], 0⟩, ⟨.ref 0, 0, [(.endExpression, none)], 0⟩] := rfl
        rw [this]; simp, rfl⟩
    · cases h
  complete := rfl
  distinct := by
    have : (compileState Prog.empty (exProg (F := F))).done.map (·.patch) = [1, 0] := rfl
    rw [this]; decide

/-- the verified depth analysis accepts the compiled example (C06 static half, non-vacuity) -/
example : (C06.absDepth (compile (exProg (F := Float))) 0).isSome = true := by decide

end Garnish.Props.C01
