/-
L1 value-level semantics of `ApplyType` (`~#`): runtime/src/runtime/casting.rs `type_cast`, arm by arm, with the
helpers it calls (`list_from_char_list`, `list_from_byte_list`, `primitive_cast`, utilities.rs `get_range`,
range.rs `range_len`, internals.rs `concatenation_len`, traits helpers `iterate_concatenation_mut`) and the
data-implementation entry points it delegates to (`add_char_list_from`, `add_byte_list_from`,
`add_symbol_from`, `add_number_from`, `start_list / add_to_list / end_list`, `get_*_item`).

The left operand is the value, the right operand is a value whose TYPE is the target (a `Type` value names
the target directly).  The model states what the code does at /repo 5455df2, quirks included:

* ranges are stored with the end the cast treats as inclusive (`(2 .. 5) ~# (,)` has the items 2 … 6);
* three arms are delegated wholesale to the data implementation and the two shipped implementations answer
  differently (text rendering, byte lists, symbols): `CastEnv.store` selects whose answer is modelled;
* BasicGarnishData's list protocol (`start_list n`, exactly n × `add_to_list`, `end_list`) fails whenever the
  announced length differs from the number of items pushed, SimpleGarnishData ignores the announced length:
  `buildList`;  the item getters used for slices differ too: `sliceListItem`, `sliceSeqItem`.
  Every place where the two differ is one small named function below, so that a repair of /repo is a local
  change here.

Not modelled (said where it happens): float → text (`showF` is a parameter: Rust's `f64` `Display` is in
the trusted base and not reproduced by the driver), symbols that have a registered name (values carry the
64-bit symbol only; the OP harness builds symbols by value, so neither store knows a name), custom data,
SimpleGarnishData's slice counting loops once they have pushed more items than the range's length (only with
float range ends; the range → list loop itself is bounded since /repo 5455df2), error classes beyond "the instruction fails".
-/
import Garnish.Abs.Ops
import Garnish.Model.SipHash
namespace Garnish.Abs
open Garnish Gen

variable {F : Type} (fo : FloatOps F)

inductive StoreKind where
  | simple | basic
deriving DecidableEq, Repr

/-- what the cast needs besides the float operations -/
structure CastEnv (F : Type) where
  store : StoreKind
  /-- `f64::to_string` as code points (trusted, not compared) -/
  showF : F → List Nat

/-! ### text of numbers (`i32::to_string`, `u8::to_string`, `u64::to_string`) and `str::parse::<i32>` -/

abbrev Txt := List Nat

def natDigitsAux : Nat → Nat → Txt
  | 0, _ => []
  | fuel + 1, n => if n < 10 then [48 + n] else natDigitsAux fuel (n / 10) ++ [48 + n % 10]

/-- decimal digits, most significant first, as code points -/
def natDigits (n : Nat) : Txt := natDigitsAux (n + 1) n

def showInt (v : Int) : Txt := if v < 0 then 45 :: natDigits v.natAbs else natDigits v.toNat

def showNumber (showF : F → Txt) : Number F → Txt
  | .int v => showInt v
  | .float f => showF f

def digitsVal : Txt → Nat → Option Nat
  | [], acc => some acc
  | c :: cs, acc => if 48 ≤ c ∧ c ≤ 57 then digitsVal cs (acc * 10 + (c - 48)) else none

/-- `s.parse::<i32>()`: `[+-]? digit+`, a lone sign, an empty string, any other character (blanks
included) and a value outside i32 are errors -/
def parseI32 (cs : Txt) : Option Int :=
  match cs with
  | [] => none
  | 43 :: rest =>
    if rest.isEmpty then none else
    match digitsVal rest 0 with
    | some v => if (v : Int) ≤ I32_MAX then some v else none
    | none => none
  | 45 :: rest =>
    if rest.isEmpty then none else
    match digitsVal rest 0 with
    | some v => if I32_MIN ≤ -(v : Int) then some (-(v : Int)) else none
    | none => none
  | cs =>
    match digitsVal cs 0 with
    | some v => if (v : Int) ≤ I32_MAX then some v else none
    | none => none

def str (s : String) : Txt := s.toList.map Char.toNat

def joinTxt (sep : Txt) : List Txt → Txt
  | [] => []
  | [x] => x
  | x :: y :: xs => x ++ sep ++ joinTxt sep (y :: xs)

/-! ### `add_char_list_from`, SimpleGarnishData (simple.rs `add_to_current_char_list`)

State passing over the text accumulated so far: the `Byte`, `ByteList` and `SymbolList` arms call
`start_char_list()` again, which DISCARDS what has been written (a byte inside a pair or list loses
everything before it).  `fuel` is `max_char_list_depth - depth` (1000): below that depth nothing is written. -/

abbrev TxtM := Except ErrClass Txt

/-- render the items in order, `sep` between two items -/
def renderSeq (render : Val F → Txt → TxtM) (sep : Txt) : List (Val F) → Txt → TxtM
  | [], acc => .ok acc
  | [x], acc => render x acc
  | x :: y :: xs, acc =>
    match render x acc with
    | .ok acc => renderSeq render sep (y :: xs) (acc ++ sep)
    | .error e => .error e

/-- `for i in start..=end` over a list slice: items outside the list are skipped together with their
separator; the separator is omitted after index `end` only -/
def simpleSliceItems (render : Val F → Txt → TxtM) (items : List (Val F)) (e : Int) : List Nat → Txt → TxtM
  | [], acc => .ok acc
  | i :: is, acc =>
    match items[i]? with
    | some x =>
      match render x acc with
      | .ok acc => simpleSliceItems render items e is (if (i : Int) = e then acc else acc ++ [44, 32])
      | .error err => .error err
    | none => simpleSliceItems render items e is acc

/-- indices `k < n` with `s ≤ k ≤ e` in ascending order -/
def windowIdx (s e : Int) (n : Nat) : List Nat :=
  (List.range n).filter (fun k => decide (s ≤ (k : Int)) && decide ((k : Int) ≤ e))

def simpleSymPart : SymPart F → TxtM
  | .sym s => .ok (natDigits s)                 -- no registered name: `sym.to_string()`
  | .num (.int v) => .ok (showInt v)
  | .num (.float _) => .error .data             -- `to_integer().as_integer()?` keeps a float a float

def simpleSymParts : List (SymPart F) → Except ErrClass (List Txt)
  | [] => .ok []
  | p :: ps =>
    match simpleSymPart p, simpleSymParts ps with
    | .ok t, .ok ts => .ok (t :: ts)
    | .error e, _ => .error e
    | _, .error e => .error e

def simpleText (showF : F → Txt) : Nat → Nat → Val F → Txt → TxtM
  | 0, _, _, acc => .ok acc
  | fuel + 1, d, v, acc =>
    let sub := simpleText showF fuel (d + 1)
    let opened : Txt := if d > 0 then acc ++ [40] else acc
    let close (t : Txt) : Txt := if d > 0 then t ++ [41] else t
    match v with
    | .unit => .ok (acc ++ [40, 41])                       -- ()
    | .tru => .ok (acc ++ [36, 63])                        -- $?
    | .fls => .ok (acc ++ [36, 33])                        -- $!
    | .type t => .ok (acc ++ str t.name)
    | .num n => .ok (acc ++ showNumber showF n)
    | .char c => .ok (acc ++ [c])
    | .chars cs => .ok (acc ++ cs)
    | .byte b => .ok (natDigits b)                         -- restarts the text
    | .bytes bs => .ok (joinTxt [32] (bs.map (fun b => [39] ++ natDigits b ++ [39])))   -- restarts the text
    | .sym s => .ok (acc ++ natDigits s)
    | .symList ps =>                                       -- restarts the text
      match simpleSymParts ps with
      | .ok ts => .ok (joinTxt [44, 32] ts)
      | .error e => .error e
    | .expr j => .ok (acc ++ str "Expression(" ++ natDigits j ++ [41])
    | .ext n => .ok (acc ++ str "External(" ++ natDigits n ++ [41])
    | .range (.num s) (.num e) => .ok (acc ++ showNumber showF s ++ [46, 46] ++ showNumber showF e)
    | .range _ _ => .error .data                           -- `get_number` of an end that is not a number
    | .pair l r =>
      match sub l opened with
      | .ok t => match sub r (t ++ [32, 61, 32]) with
        | .ok t => .ok (close t)
        | .error e => .error e
      | .error e => .error e
    | .part _ _ => .error .data                            -- reads the partial with `get_pair`
    | .concat l r =>
      match sub l acc with
      | .ok t => sub r t
      | .error e => .error e
    | .list items =>
      match renderSeq sub [44, 32] items opened with
      | .ok t => .ok (close t)
      | .error e => .error e
    | .slice x (.range (.num (.int s)) (.num (.int e))) =>
      match x with
      | .chars cs =>
        -- `get_char_list_item` is an error outside the text
        if e < s then .ok acc
        else if s < 0 ∨ (cs.length : Int) ≤ e then .error .data
        else .ok (acc ++ (cs.drop s.toNat).take (e - s + 1).toNat)
      | .list items =>
        match simpleSliceItems sub items e (windowIdx s e items.length) opened with
        | .ok t => .ok (close t)
        | .error err => .error err
      | .concat a b =>
        let all := flatItems a ++ flatItems b
        renderSeq sub [] ((windowIdx s e all.length).filterMap (fun k => all[k]?)) acc
      | x =>
        match sub x acc with
        | .ok t => sub (.range (.num (.int s)) (.num (.int e))) (t ++ [32, 126, 32])
        | .error err => .error err
    | .slice _ _ => .error .data                           -- range ends that are not integers
    | .custom => .error .other                             -- `todo!()` in simple.rs; no value term builds it

/-! ### `add_char_list_from`, BasicGarnishData (conversions/string.rs `convert_with_delegate`): compositional -/

def basicSymPart (showF : F → Txt) : SymPart F → Txt
  | .sym s => str "[Symbol " ++ natDigits s ++ [93]    -- no registered name
  | .num n => showNumber showF n

/-- parentheses below the top level -/
def basicParen (d : Nat) (t : Txt) : Txt := if d > 0 then [40] ++ t ++ [41] else t

mutual
def basicText (showF : F → Txt) (d : Nat) : Val F → Txt
  | .unit => [40, 41]
  | .tru => str "True"
  | .fls => str "False"
  | .type t => str t.name
  | .num n => showNumber showF n
  | .char c => [c]
  | .chars cs => cs
  | .byte b => natDigits b
  | .bytes bs => basicParen d (joinTxt [32] (bs.map natDigits))
  | .sym s => str "[Symbol " ++ natDigits s ++ [93]
  | .symList ps => basicParen d (joinTxt [32] (ps.map (basicSymPart showF)))
  | .expr j => str "[Expression " ++ natDigits j ++ [93]
  | .ext n => str "[External " ++ natDigits n ++ [93]
  | .range s e => basicText showF (d + 1) s ++ [46, 46] ++ basicText showF (d + 1) e
  | .pair l r => basicParen d (basicText showF (d + 1) l ++ [32, 61, 32] ++ basicText showF (d + 1) r)
  | .slice l r => basicParen d (basicText showF (d + 1) l ++ [32, 126, 32] ++ basicText showF (d + 1) r)
  | .part l r => basicParen d (basicText showF (d + 1) l ++ [32, 126, 32] ++ basicText showF (d + 1) r)
  | .concat l r => basicParen d (basicText showF (d + 1) l ++ [32, 60, 62, 32] ++ basicText showF (d + 1) r)
  | .list items => basicParen d (joinTxt [32] (basicTexts showF (d + 1) items))
  | .custom => []                                        -- host-defined conversion, not modelled
def basicTexts (showF : F → Txt) (d : Nat) : List (Val F) → List Txt
  | [] => []
  | x :: xs => basicText showF d x :: basicTexts showF d xs
end

/-- the text the data implementation produces for a value -/
def textOf (env : CastEnv F) (v : Val F) : TxtM :=
  match env.store with
  | .simple => simpleText env.showF 1000 0 v []
  | .basic => .ok (basicText env.showF 0 v)

/-! ### symbols and byte lists -/

/-- `symbol_value` of a text -/
def symbolOfText (t : Txt) : Nat := (Model.SipHash.symbolValue (t.map Char.ofNat)).toNat

/-- `trim_matches(':')` (BasicDataFactory::parse_symbol) -/
def trimColons (t : Txt) : Txt := ((t.dropWhile (· == 58)).reverse.dropWhile (· == 58)).reverse

/-- `add_symbol_from`: the symbol of the value's text.  Basic strips colons at both ends first, so the two
implementations name different symbols for every text that starts or ends with `:` — and for every value
whose texts differ. -/
def symbolFrom (env : CastEnv F) (v : Val F) : OpOut F :=
  match textOf env v with
  | .error e => .err e
  | .ok t =>
    match env.store with
    | .simple => .val (.sym (symbolOfText t))
    | .basic => .val (.sym (symbolOfText (trimColons t)))

/-- `add_byte_list_from`.  Simple: only unit has a byte list (the empty one), everything else is a data
error.  Basic: computes the bytes, writes a byte list, and returns the address it was GIVEN: the result of
the cast is the operand itself.  (While computing the bytes, conversions/bytes.rs reads the cells of a byte
list / text / symbol list at heap-absolute instead of block-relative positions; for a non-empty byte list
nested in a list this usually hits a cell that is not a byte and the cast fails with a data error — that
depends on the heap layout, is not modelled, and is excluded from the comparison.) -/
def byteListFrom (env : CastEnv F) (v : Val F) : OpOut F :=
  match env.store with
  | .simple => match v with
    | .unit => .val (.bytes [])
    | _ => .err .data
  | .basic => .val v

/-! ### lists -/

/-- `number_to_size`: `max(0)`, floats truncate (saturation above i32 is out of reach: such a list cannot
be allocated) -/
def numToSize : Number F → Nat
  | .int v => v.toNat
  | .float f => (fo.toI32Sat f).toNat

def numLe (a b : Number F) : Bool :=
  match Number.partialCmp fo a b with
  | some .lt | some .eq => true
  | _ => false

def numLt (a b : Number F) : Bool :=
  match Number.partialCmp fo a b with
  | some .lt => true
  | _ => false

/-- `a > b` (`partial_cmp == Some(Greater)`) -/
def numGt (a b : Number F) : Bool :=
  match Number.partialCmp fo a b with
  | some .gt => true
  | _ => false

/-- the counting loops of casting.rs: `while count <= end` (`strict = false`) or `while count < end`
(`strict = true`) with `count = count.increment()?` after every item, cut off after `fuel` items.
The flag reports whether the loop condition still held at the cut. -/
def countLoop (strict : Bool) : Nat → Number F → Number F → Except ErrClass (List (Number F) × Bool)
  | 0, c, e => .ok ([], if strict then numLt fo c e else numLe fo c e)
  | n + 1, c, e =>
    if (if strict then numLt fo c e else numLe fo c e) then
      match Number.increment fo c with
      | some c' =>
        match countLoop strict n c' e with
        | .ok (xs, more) => .ok (c :: xs, more)
        | .error err => .error err
      | none => .error .number
    else .ok ([], false)

/-- `start_list declared`, one `add_to_list` per item, `end_list`.  Simple ignores `declared`; Basic fails
on the first item beyond it ("exceeded initial list length") and at the end when items are missing
("list not fully initialized"). -/
def buildList (st : StoreKind) (declared : Nat) (items : List (Val F)) : OpOut F :=
  match st with
  | .simple => .val (.list items)
  | .basic => if items.length = declared then .val (.list items) else .err .data

/-- how many items the counting loop is followed for.  Basic: one more than the announced length — the next
`add_to_list` fails, whatever the loop would do.  Simple: one more than the range's length `n`; with integer
ends the loop stops by itself after exactly `n` items (`Lemmas.countLoop_int`), with float ends it may push one
more (`0 .. 1.5` over a text visits 0, 1, 2) -/
def loopFuel (st : StoreKind) (n declared : Nat) : Nat :=
  match st with
  | .simple => n + 1
  | .basic => declared + 1

/-- the loop condition still holds after `loopFuel` items.  Basic: the item beyond the announced length is
refused (data error).  Simple: the real loop goes on, possibly for ever (a float that absorbs the increment)
— NOT modelled, reported as a defect; `err other` stands for "no statement" -/
def overrun (st : StoreKind) : OpOut F :=
  match st with
  | .basic => .err .data
  | .simple => .err .other

/-- `get_list_item` as the slice loop uses it.  Simple: no item (the cast pushes unit) outside the list, a
data error for a float index.  Basic: no item before the list, a data error behind it, floats truncate. -/
def sliceListItem (st : StoreKind) (items : List (Val F)) (i : Number F) : Except ErrClass (Val F) :=
  match st with
  | .simple =>
    match i with
    | .int k => if k < 0 then .ok .unit else .ok (items[k.toNat]?.getD .unit)
    | .float _ => .error .data
  | .basic =>
    if numLtZero fo i then .ok .unit else
    match items[numToSize fo i]? with
    | some x => .ok x
    | none => .error .data

/-- `get_char_list_item` / `get_byte_list_item` as the slice loop uses them.  Simple: a data error outside
the sequence and for a float index.  Basic: the index is clamped at 0 (a negative index reads the FIRST
item), floats truncate, no item (unit) behind the sequence. -/
def sliceSeqItem (st : StoreKind) (mk : Nat → Val F) (xs : List Nat) (i : Number F) : Except ErrClass (Val F) :=
  match st with
  | .simple =>
    match i with
    | .int k =>
      if k < 0 then .error .data else
      match xs[k.toNat]? with
      | some c => .ok (mk c)
      | none => .error .data
    | .float _ => .error .data
  | .basic =>
    match xs[numToSize fo i]? with
    | some c => .ok (mk c)
    | none => .ok .unit

def mapItems (get : Number F → Except ErrClass (Val F)) : List (Number F) → Except ErrClass (List (Val F))
  | [] => .ok []
  | i :: is =>
    match get i with
    | .ok x => match mapItems get is with
      | .ok xs => .ok (x :: xs)
      | .error e => .error e
    | .error e => .error e

/-- the items of a concatenation whose running index is neither `< start` nor `> end`; the walk stops at the
first index `> end` -/
def concatWindow (s e : Number F) : List (Val F) → Nat → List (Val F)
  | [], _ => []
  | x :: xs, k =>
    if numLt fo (.int k) s then concatWindow s e xs (k + 1)
    else if numGt fo (.int k) e then []
    else x :: concatWindow s e xs (k + 1)

/-- the `(Range, List)` loop after /repo 5455df2: `while added < len && count <= end`, `count` incremented only
BETWEEN items — at most `len` items, no increment after the last one (a range whose stored end is i32::MAX
is fine, an absorbed float increment cannot keep the loop going) -/
def rangeItems : Nat → Number F → Number F → Except ErrClass (List (Number F))
  | 0, _, _ => .ok []
  | 1, c, e => .ok (if numLe fo c e then [c] else [])
  | n + 2, c, e =>
    if numLe fo c e then
      match Number.increment fo c with
      | some c' =>
        match rangeItems (n + 1) c' e with
        | .ok xs => .ok (c :: xs)
        | .error err => .error err
      | none => .error .number
    else .ok []

/-- `(Range, List)`: `get_range`, the announced length `len = max 0 (end - start + 1)` (floats truncate), at most
`len` items.  With integer ends exactly `len` items are pushed (`Lemmas.rangeItems_int`) and the two data
implementations agree; with float ends the loop can stop early (`count <= end` fails first), which Simple
accepts and Basic refuses (`buildList`).  (`numToSize` saturates at i32::MAX where Rust's `as usize` goes on to
2^64: lists that long cannot be allocated — finding F-C07-range-cast-unbounded.) -/
def rangeToList (st : StoreKind) (s e : Val F) : OpOut F :=
  match s, e with
  | .num s, .num e =>
    match rangeLen fo s e with
    | none => .err .number
    | some len =>
      let n := numToSize fo len
      match rangeItems fo n s e with
      | .error err => .err err
      | .ok xs => buildList st n (xs.map .num)
  | _, _ => .err .state

/-- index loop over a sequence slice: the indices `start, start+1, …` the loop visits, each mapped by `get`,
announced length `declared` -/
def sliceLoop (st : StoreKind) (strict : Bool) (n declared : Nat) (s e : Number F)
    (get : Number F → Except ErrClass (Val F)) : OpOut F :=
  match countLoop fo strict (loopFuel st n declared) s e with
  | .error err => .err err
  | .ok (idx, more) =>
    if more then overrun st else
    match mapItems get idx with
    | .ok xs => buildList st declared xs
    | .error err => .err err

/-- `(Slice, List)`.  The announced length is the length of the WHOLE list / text / byte list (of the range
for a concatenation), so Basic accepts only slices that yield exactly that many items. -/
def sliceToList (st : StoreKind) (x rng : Val F) : OpOut F :=
  match rng with
  | .range (.num s) (.num e) =>
    match rangeLen fo s e with
    | none => .err .number
    | some len =>
      let n := numToSize fo len
      match x with
      | .list items => sliceLoop fo st false n items.length s e (sliceListItem fo st items)
      | .chars cs =>
        match Number.increment fo e with
        | some e1 => sliceLoop fo st true n cs.length s e1 (sliceSeqItem fo st .char cs)
        | none => .err .number
      | .bytes bs =>
        match Number.increment fo e with
        | some e1 => sliceLoop fo st true n bs.length s e1 (sliceSeqItem fo st .byte bs)
        | none => .err .number
      | .concat a b => buildList st n (concatWindow fo s e (flatItems a ++ flatItems b) 0)
      | _ => .val .unit
  | .range _ _ => .err .state
  | _ => .err .data

def symPartVal : SymPart F → Val F
  | .sym s => .sym s
  | .num n => .num n

/-! ### `type_cast` -/

/-- the type a right operand asks for: a `Type` value names it, any other value stands for its own type -/
def castTarget : Val F → Ty
  | .type t => t
  | r => r.typeOf

/-- the arms after the no-op arm, by target type (`r` is only needed for the offer to the host) -/
def castCore (env : CastEnv F) (l r : Val F) (rt : Ty) : OpOut F :=
  let offer : OpOut F := .defer .applyType l r
  match rt with
  | .charList =>
    match textOf env l with
    | .ok t => .val (.chars t)
    | .error e => .err e
  | .byteList => byteListFrom env l
  | .symbol => symbolFrom env l
  | .number =>
    match l with
    | .chars cs => .val (match parseI32 cs with | some v => .num (.int v) | none => .unit)
    | .char c => .val (.num (.int c))
    | .byte b => .val (.num (.int b))
    | .unit => .val .unit
    | _ => offer
  | .char =>
    match l with
    | .num (.int v) => .val (.char (v % 256).toNat)      -- `(v as u8)` then `char::from`
    | .num (.float _) => .val .unit
    | .byte b => .val (.char b)
    | .chars [c] => .val (.char c)
    | .chars _ => .val .unit
    | .unit => .val .unit
    | _ => offer
  | .byte =>
    match l with
    | .num (.int v) => .val (if 0 ≤ v ∧ v ≤ 255 then .byte v.toNat else .unit)
    | .num (.float _) => .val .unit
    | .char c => .val (.byte (c % 256))                  -- `c as u8`
    | .unit => .val .unit
    | _ => offer
  | .list =>
    match l with
    | .symList ps => buildList env.store ps.length (ps.map symPartVal)
    | .range s e => rangeToList fo env.store s e
    | .chars cs => buildList env.store cs.length (cs.map .char)
    | .bytes bs => buildList env.store bs.length (bs.map .byte)
    | .concat a b => buildList env.store (flatItems a ++ flatItems b).length (flatItems a ++ flatItems b)
    | .slice x rng => sliceToList fo env.store x rng
    | .unit => .val .unit
    | _ => offer
  | .true =>
    match l with
    | .unit => .val .fls
    | .fls => .val .fls
    | _ => .val .tru
  | .false =>
    match l with
    | .unit => .val .tru
    | _ => .val .fls
  | _ =>
    match l with
    | .unit => .val .unit
    | _ => offer

/-- `type_cast` on (left = value, right = target) -/
def castOp (env : CastEnv F) (l r : Val F) : OpOut F :=
  if l.typeOf = castTarget r then .val l else castCore fo env l r (castTarget r)

end Garnish.Abs
