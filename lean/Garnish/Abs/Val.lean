/-
L1 values: the structural value type of the abstract (value-level) machine and of the reference
evaluator. Registers of the abstract machine hold these values, not addresses.
Chars and bytes are code points / numbers (`Nat`), symbols are their 64-bit values (`Nat`).
-/
import Garnish.Model.Number
import Garnish.Gen.Enums
namespace Garnish
open Gen (Ty Instruction)

inductive SymPart (F : Type) where
  | sym (s : Nat)
  | num (n : Number F)

inductive Val (F : Type) where
  | unit | tru | fls
  | num (n : Number F)
  | char (c : Nat)
  | byte (b : Nat)
  | sym (s : Nat)
  | expr (j : Nat)
  | ext (n : Nat)
  | type (t : Ty)
  | chars (cs : List Nat)
  | bytes (bs : List Nat)
  | symList (ps : List (SymPart F))
  | pair (l r : Val F)
  | list (items : List (Val F))
  | concat (l r : Val F)
  | range (s e : Val F)
  | slice (v r : Val F)
  | part (f x : Val F)
  | custom

namespace Val
variable {F : Type}

def typeOf : Val F → Ty
  | .unit => .unit | .tru => .true | .fls => .false | .num _ => .number | .char _ => .char
  | .byte _ => .byte | .sym _ => .symbol | .expr _ => .expression | .ext _ => .external
  | .type _ => .type_ | .chars _ => .charList | .bytes _ => .byteList | .symList _ => .symbolList
  | .pair _ _ => .pair | .list _ => .list | .concat _ _ => .concatenation | .range _ _ => .range
  | .slice _ _ => .slice | .part _ _ => .partial_ | .custom => .custom

def ofBool (b : Bool) : Val F := if b then .tru else .fls

/-- the language's one notion of truth (C10): everything except unit and `$!` -/
def truthy : Val F → Bool
  | .unit => false
  | .fls => false
  | _ => true

end Val

/-! ### S-expression terms (protocol syntax shared with the Rust harness and the generators) -/

inductive Term where
  | atom (s : String)
  | node (items : List Term)
deriving Repr, Inhabited

namespace Term

def tokenize (s : String) : List String :=
  let step (acc : List String × List Char) (c : Char) : List String × List Char :=
    let (out, cur) := acc
    let flush := if cur.isEmpty then out else String.ofList cur.reverse :: out
    if c = '(' ∨ c = ')' then (String.singleton c :: flush, [])
    else if c = ' ' then (flush, [])
    else (out, c :: cur)
  let (out, cur) := s.toList.foldl step ([], [])
  (if cur.isEmpty then out else String.ofList cur.reverse :: out).reverse

/-- recursive descent with fuel = number of tokens -/
def parseAux : Nat → List String → Option (Term × List String)
  | 0, _ => none
  | _ + 1, [] => none
  | fuel + 1, t :: rest =>
    if t = "(" then
      let rec items (k : Nat) (ts : List String) (acc : List Term) : Option (List Term × List String) :=
        match k with
        | 0 => none
        | k + 1 =>
          match ts with
          | [] => none
          | ")" :: r => some (acc.reverse, r)
          | _ => match parseAux fuel ts with
            | some (x, r) => items k r (x :: acc)
            | none => none
      match items (fuel + 1) rest [] with
      | some (xs, r) => some (.node xs, r)
      | none => none
    else if t = ")" then none
    else some (.atom t, rest)

def parse (s : String) : Option Term :=
  let toks := tokenize s
  match parseAux (toks.length + 1) toks with
  | some (t, []) => some t
  | _ => none

end Term

end Garnish
