/-
L1 value-level semantics of the runtime instructions (runtime/src/runtime/*.rs), on `Val`s instead of
addresses. Type-pair dispatch follows the handlers arm by arm; what an arm computes is stated on values.
The result of an operation is a value, an offer to the host (`defer`) or a runtime error.
-/
import Garnish.Abs.Val
import Garnish.Model.Outcome
namespace Garnish.Abs
open Garnish Gen

variable {F : Type} (fo : FloatOps F)

inductive OpOut (F : Type) where
  | val (v : Val F)
  /-- the operation is not defined on these operands: offered once to the host, unit if it declines -/
  | defer (op : Instruction) (l r : Val F)
  | err (e : ErrClass)

/-! ### numbers -/

def numOpOf : Instruction → Option NumOp
  | .add => some .plus | .subtract => some .subtract | .multiply => some .multiply | .divide => some .divide
  | .integerDivide => some .integerDivide | .power => some .power | .remainder => some .remainder
  | .opposite => some .opposite | .absoluteValue => some .absoluteValue
  | .bitwiseNot => some .bitwiseNot | .bitwiseAnd => some .bitwiseAnd | .bitwiseOr => some .bitwiseOr
  | .bitwiseXor => some .bitwiseXor | .bitwiseShiftLeft => some .bitwiseShiftLeft
  | .bitwiseShiftRight => some .bitwiseShiftRight
  | _ => none

def numResult : Option (Number F) → Val F
  | some n => .num n
  | none => .unit

/-- `perform_op` -/
def arithBinary (op : Instruction) (nop : NumOp) (l r : Val F) : OpOut F :=
  match l, r with
  | .num a, .num b => .val (numResult (Number.apply fo nop a b))
  | l, r => .defer op l r

/-- `perform_unary_op`: the host sees the documented unit filler on the right -/
def arithUnary (op : Instruction) (nop : NumOp) (v : Val F) : OpOut F :=
  match v with
  | .num a => .val (numResult (Number.apply fo nop a a))
  | v => .defer op v .unit

/-! ### comparison (comparison.rs) -/

/-- `cmp_list`: element-wise loop, then the lengths -/
def cmpList : List Nat → List Nat → Ordering
  | [], [] => .eq
  | [], _ :: _ => .lt
  | _ :: _, [] => .gt
  | x :: xs, y :: ys => if x < y then .lt else if x > y then .gt else cmpList xs ys

inductive CmpRes where
  | foreign                      -- not comparable: all four operators yield false
  | unordered                    -- partial_cmp gave None (a NaN operand): unit
  | ord (o : Ordering)

/-- `cmp_list` once both indexes have been advanced to their start offsets: element-wise loop while BOTH sequences have an item
left, then the FULL lengths `n`, `m` of the underlying lists decide (the code compares `len1` with `len2`, not what remains) -/
def cmpTail : List Nat → List Nat → Nat → Nat → Ordering
  | x :: xs, y :: ys, n, m => if x < y then .lt else if x > y then .gt else cmpTail xs ys n m
  | _, _, n, m => compare n m

/-- `cmp_list this left right left_start right_start …` as the Slice/Slice arm of `perform_comparison` calls it: only the START of
each range takes part (the ends are read by `get_range` and dropped) -/
def cmpListFrom (a b : List Nat) (i j : Nat) : Ordering := cmpTail (a.drop i) (b.drop j) a.length b.length

/-- the `(start, _, range_len)` that `get_range` returns exists: both ends integers whose extent does not overflow; modelled for
non-negative starts (a negative or fractional start makes the data implementations' item getters fail, each in its own way) -/
def sliceStart : Val F → Option Nat
  | .range (.num (.int s)) (.num (.int e)) =>
      if 0 ≤ s ∧ InRange (e - s) ∧ InRange (e - s + 1) then some s.toNat else none
  | _ => none

/-- Slice/Slice arm of `perform_comparison`: two slices of text or two slices of bytes are ordered by `cmp_list` from their start
offsets; slices over anything else are not ordered -/
def compareSlices (lv lr rv rr : Val F) : CmpRes :=
  match lv, rv with
  | .chars a, .chars b => match sliceStart lr, sliceStart rr with
    | some i, some j => .ord (cmpListFrom a b i j)
    | _, _ => .foreign
  | .bytes a, .bytes b => match sliceStart lr, sliceStart rr with
    | some i, some j => .ord (cmpListFrom a b i j)
    | _, _ => .foreign
  | _, _ => .foreign

def compareVals (l r : Val F) : CmpRes :=
  match l, r with
  | .num a, .num b => match Number.partialCmp fo a b with
    | some o => .ord o
    | none => .unordered
  | .char a, .char b => .ord (compare a b)
  | .byte a, .byte b => .ord (compare a b)
  | .chars a, .chars b => .ord (cmpList a b)
  | .bytes a, .bytes b => .ord (cmpList a b)
  | .slice lv lr, .slice rv rr => compareSlices lv lr rv rr
  | _, _ => .foreign

def cmpOp (accept : Ordering → Bool) (l r : Val F) : Val F :=
  match compareVals fo l r with
  | .foreign => .fls
  | .unordered => .unit
  | .ord o => Val.ofBool (accept o)

def lessThan := cmpOp fo (fun o => o == .lt)
def lessThanOrEqual := cmpOp fo (fun o => o != .gt)
def greaterThan := cmpOp fo (fun o => o == .gt)
def greaterThanOrEqual := cmpOp fo (fun o => o != .lt)

/-! ### equality (equality.rs), via a structural normal form -/

/-- normal form: a char is the one-element text, a byte the one-element byte list; lists and
concatenations are the flat sequence of their items -/
inductive NVal (F : Type) where
  | atom (t : Ty) (n : Nat)            -- unit/true/false (n = 0), symbol, expression, external, type
  | num (n : Number F)
  | text (cs : List Nat)
  | blob (bs : List Nat)
  | symList (ps : List (SymPart F))
  | pair (l r : NVal F)
  | seq (items : List (NVal F))
  | range (s e : NVal F)
  | opaque                              -- slice / partial / custom: never equal to anything (outside C11's domain)

mutual
def norm : Val F → NVal F
  | .unit => .atom .unit 0 | .tru => .atom .true 0 | .fls => .atom .false 0
  | .num n => .num n
  | .char c => .text [c]
  | .byte b => .blob [b]
  | .sym s => .atom .symbol s
  | .expr j => .atom .expression j
  | .ext n => .atom .external n
  | .type t => .atom .type_ t.toNat
  | .chars cs => .text cs
  | .bytes bs => .blob bs
  | .symList ps => .symList ps
  | .pair l r => .pair (norm l) (norm r)
  | .list items => .seq (normList items)
  | .concat l r => .seq (normConcat l ++ normConcat r)
  | .range s e => .range (norm s) (norm e)
  | .slice _ _ => .opaque
  | .part _ _ => .opaque
  | .custom => .opaque
def normList : List (Val F) → List (NVal F)
  | [] => []
  | x :: xs => norm x :: normList xs
/-- items contributed by one side of a concatenation: a list gives its items, a concatenation recurses,
anything else is one item (`iterate_concatenation_mut`) -/
def normConcat : Val F → List (NVal F)
  | .list items => normList items
  | .concat l r => normConcat l ++ normConcat r
  | v => [norm v]
end

def symPartEq : SymPart F → SymPart F → Bool
  | .sym a, .sym b => a == b
  | .num a, .num b => Number.numEq fo a b
  | _, _ => false

def symPartsEq : List (SymPart F) → List (SymPart F) → Bool
  | [], [] => true
  | a :: as, b :: bs => symPartEq fo a b && symPartsEq as bs
  | _, _ => false

/-- range end points: only (unit, unit) and (number, number) compare equal -/
def rangeEndEq (x y : NVal F) : Bool :=
  match x, y with
  | .atom t _, .atom t' _ => t == .unit && t' == .unit
  | .num a, .num b => Number.numEq fo a b
  | _, _ => false

mutual
def nvalEq : NVal F → NVal F → Bool
  | .atom t n, .atom t' n' => t == t' && n == n'
  | .num a, .num b => Number.numEq fo a b
  | .text a, .text b => a == b
  | .blob a, .blob b => a == b
  | .symList a, .symList b => symPartsEq fo a b
  | .pair l r, .pair l' r' => nvalEq l l' && nvalEq r r'
  | .seq a, .seq b => nvalsEq a b
  | .range s e, .range s' e' => rangeEndEq fo s s' && rangeEndEq fo e e'
  | _, _ => false
def nvalsEq : List (NVal F) → List (NVal F) → Bool
  | [], [] => true
  | a :: as, b :: bs => nvalEq a b && nvalsEq as bs
  | _, _ => false
end

def valEq (l r : Val F) : Bool := nvalEq fo (norm l) (norm r)

/-! ### lists, access (list.rs, access.rs) -/

def numLtZero : Number F → Bool
  | .int n => n < 0
  | .float f => fo.ltZero f

/-- items of a concatenation in iteration order -/
def flatItems : Val F → List (Val F)
  | .list items => items
  | .concat l r => flatItems l ++ flatItems r
  | v => [v]

def concatItems : Val F → List (Val F)
  | .concat l r => flatItems l ++ flatItems r
  | v => [v]

/-- value of the first item that is a pair keyed by symbol `s` -/
def lookupSym (s : Nat) : List (Val F) → Option (Val F)
  | [] => none
  | .pair (.sym k) v :: rest => if k == s then some v else lookupSym s rest
  | _ :: rest => lookupSym s rest

/-- symbol look-up in a concatenation (`iterate_rev_concatenation_mut`): operands right to left, items of a
list operand forward, first match wins. Equal to `lookupSym s (flatItems v)` when the keys are distinct. -/
def lookupRev (s : Nat) : Val F → Option (Val F)
  | .concat l r => (lookupRev s r).orElse (fun _ => lookupRev s l)
  | .list items => lookupSym s items
  | v => lookupSym s [v]

/-- `range_len`: end - start + 1 -/
def rangeLen (s e : Number F) : Option (Number F) :=
  match Number.subtract fo e s with
  | some d => Number.increment fo d
  | none => none

/-- result of `get_access_addr`-style helpers: a value, "no item" (caller pushes unit), unsupported
operand types, or a runtime error -/
inductive Acc (F : Type) where
  | some (v : Val F)
  | none
  | unsupported
  | err (e : ErrClass)

/-- `index >= size_to_number(len)` with the mixed `PartialOrd` -/
def geLen (idx : Number F) (len : Nat) : Bool :=
  match Number.partialCmp fo idx (.int len) with
  | some .lt => false
  | some _ => true
  | none => false

/-- `access_with_integer` -/
def accessInt (idx : Number F) (v : Val F) : Acc F :=
  match v with
  | .pair (.sym k) r => if Number.numEq fo idx (.int 0) then .some (.pair (.sym k) r) else .none
  | .pair _ _ => .none
  | .list items =>
    if numLtZero fo idx || geLen fo idx items.length then .none else
    match idx with
    | .int i => match items[i.toNat]? with
      | some x => .some x
      | none => .none                -- `index_list`: outside 0..len-1 there is no item
    | .float _ => .err .data          -- store specific (Simple: error; Basic: truncation) — outside the corpora
  | .chars cs =>
    if numLtZero fo idx || geLen fo idx cs.length then .none else
    match idx with
    | .int i => match cs[i.toNat]? with
      | some c => .some (.char c)
      | none => .none
    | .float _ => .err .data
  | .bytes bs =>
    if numLtZero fo idx || geLen fo idx bs.length then .none else
    match idx with
    | .int i => match bs[i.toNat]? with
      | some c => .some (.byte c)
      | none => .none
    | .float _ => .err .data
  | .symList ps =>
    if numLtZero fo idx || geLen fo idx ps.length then .none else
    match idx with
    | .int i => match ps[i.toNat]? with
      | some (.sym s) => .some (.sym s)
      | some (.num n) => .some (.num n)
      | none => .none
    | .float _ => .err .data
  | .range (.num s) (.num e) =>
    match rangeLen fo s e with
    | none => .err .number
    | some len =>
      match Number.partialCmp fo idx len with
      | some .lt => match Number.plus fo s idx with
        | some r => .some (.num r)
        | none => .err .number
      | _ => .none
  | .range _ _ => .none
  | .concat l r =>
    match idx with
    | .int i => if i < 0 then .none else match (flatItems l ++ flatItems r)[i.toNat]? with
      | some x => .some x
      | none => .none
    | .float _ => .none
  | .slice _ _ => .err .unsupported   -- slices are not modelled at value level
  | _ => .unsupported

/-- `access_with_symbol` -/
def accessSym (s : Nat) (v : Val F) : Acc F :=
  match v with
  | .pair (.sym k) r => if k == s then .some r else .none
  | .pair _ _ => .none
  | .list items => match lookupSym s items with
    | some x => .some x
    | none => .none
  | .concat l r => match (lookupRev s r).orElse (fun _ => lookupRev s l) with
    | some x => .some x
    | none => .none
  | .slice _ _ => .err .unsupported
  | _ => .unsupported

/-- `get_access_addr` -/
def getAccess (key : Val F) (v : Val F) : Acc F :=
  match key with
  | .num n => accessInt fo n v
  | .sym s => accessSym s v
  | _ => .unsupported

def mergeSymList (l r : Val F) : Option (Val F) :=
  let parts : Val F → Option (List (SymPart F))
    | .sym s => some [.sym s]
    | .num n => some [.num n]
    | .symList ps => some ps
    | _ => none
  match parts l, parts r with
  | some a, some b => some (.symList (a ++ b))
  | _, _ => none

/-- `access`: dispatch on the type pair as listed in access.rs -/
def access (l r : Val F) : OpOut F :=
  let merge := match mergeSymList l r with
    | some v => OpOut.val v
    | none => .err .data
  let get := match getAccess fo r l with
    | .some v => OpOut.val v
    | .none => .val .unit
    | .unsupported => .defer .access l r    -- e.g. text by symbol: offered to the host like any undefined pair
    | .err e => .err e
  match l.typeOf, r.typeOf with
  | .symbol, .symbol | .symbol, .symbolList | .symbolList, .symbol | .symbolList, .symbolList
  | .symbolList, .number | .number, .symbolList | .symbol, .number | .number, .symbol => merge
  | .pair, .number | .pair, .symbol | .list, .number | .list, .symbol | .charList, .number | .charList, .symbol
  | .byteList, .number | .byteList, .symbol | .range, .number | .range, .symbol
  | .concatenation, .number | .concatenation, .symbol | .slice, .number | .slice, .symbol => get
  | _, _ => .defer .access l r

/-! ### internals (internals.rs) -/

def accessLeftInternal (v : Val F) : OpOut F :=
  match v with
  | .pair l _ => .val l
  | .range (.num s) _ => .val (.num s)
  | .range _ _ => .val .unit
  | .slice x _ => .val x
  | .concat l _ => .val l
  | v => .defer .accessLeftInternal v .unit

def accessRightInternal (v : Val F) : OpOut F :=
  match v with
  | .pair _ r => .val r
  | .range _ (.num e) => .val (.num e)
  | .range _ _ => .val .unit
  | .slice _ r => .val r
  | .concat _ r => .val r
  | v => .defer .accessRightInternal v .unit

def accessLengthInternal (v : Val F) : OpOut F :=
  match v with
  | .pair (.sym _) _ => .val (.num (.int 1))
  | .pair _ _ => .val .unit
  | .list items => .val (.num (.int items.length))
  | .chars cs => .val (.num (.int cs.length))
  | .bytes bs => .val (.num (.int bs.length))
  | .range (.num s) (.num e) => match rangeLen fo s e with
    | some n => .val (.num n)
    | none => .err .number
  | .range _ _ => .val .unit
  | .slice _ (.range (.num s) (.num e)) => match rangeLen fo s e with
    | some n => .val (.num n)
    | none => .err .number
  | .slice _ _ => .err .state
  | .concat l r => .val (.num (.int (flatItems l ++ flatItems r).length))
  | v => .defer .accessLengthInternal v .unit

/-! ### ranges, pairs, concatenation, types -/

def rangeInstr : Bool → Bool → Instruction
  | false, false => .makeRange
  | true, false => .makeStartExclusiveRange
  | false, true => .makeEndExclusiveRange
  | true, true => .makeExclusiveRange

/-- `make_range_internal` -/
def makeRange (startExcl endExcl : Bool) (l r : Val F) : OpOut F :=
  match l, r with
  | .num a, .num b =>
    let s := if startExcl then Number.increment fo a else some a
    let e := if endExcl then some b else Number.increment fo b
    match s, e with
    | some s, some e => .val (.range (.num s) (.num e))
    | _, _ => .err .number
  | l, r => .defer (rangeInstr startExcl endExcl) l r

def typeEqual (l r : Val F) : Val F :=
  let rt := match r with
    | .type t => t
    | r => r.typeOf
  Val.ofBool (l.typeOf == rt)

/-! ### apply without a frame (apply.rs `apply_internal`, the arms that do not enter an expression) -/

/-- `List <~ SymbolList`: follow the path; a miss — nothing under the key, or a value that cannot be looked into with this
kind of key — ends with unit -/
def accessPath : List (SymPart F) → Val F → Acc F
  | [], cur => .some cur
  | p :: ps, cur =>
    let r := match p with
      | .sym s => accessSym s cur
      | .num n => accessInt fo n cur
    match r with
    | .some v => accessPath ps v
    | .none => .some .unit
    | .unsupported => .some .unit      -- a value that cannot be looked into with this kind of key ends the path (repo fix)
    | .err e => .err e

/-- `narrow_range to_narrow by` -/
def narrowRange (toNarrow by_ : Val F) : Except ErrClass (Val F) :=
  match by_, toNarrow with
  | .range (.num s) (.num e), .range (.num os) _ =>
    match Number.plus fo os s, Number.subtract fo e s with
    | some ns, some adj => match Number.plus fo ns adj with
      | some ne => .ok (.range (.num ns) (.num ne))
      | none => .error .state
    | _, _ => .error .state
  | _, _ => .error .state

inductive ApplyKind (F : Type) where
  | enter (j : Nat) (input : Val F)          -- push frame + input value, jump to entry j
  | external (n : Nat) (arg : Val F)         -- host apply
  | out (o : OpOut F)

def applyKind (instr : Instruction) (useRight : Bool) (l r : Val F) : ApplyKind F :=
  let acc (a : Acc F) : ApplyKind F := match a with
    | .some v => .out (.val v)
    | .none => .out (.val .unit)
    | .unsupported => .out (.err .unsupported)
    | .err e => .out (.err e)
  match l, r with
  | .expr j, r => .enter j r
  | .ext n, r => .external n r
  | .part (.expr j) input, r => .enter j (if useRight then .concat input r else input)
  | .part _ _, _ => .out (.val .unit)
  | .sym _, .symList _ | .symList _, .sym _ | .symList _, .symList _ =>
    match mergeSymList l r with
    | some v => .out (.val v)
    | none => .out (.err .data)
  | .range _ _, .range _ _ => match narrowRange fo l r with
    | .ok v => .out (.val v)
    | .error e => .out (.err e)
  | .slice v sr, .range _ _ => match narrowRange fo sr r with
    | .ok nr => .out (.val (.slice v nr))
    | .error e => .out (.err e)
  | .symList _, .num n | .list _, .num n | .pair _ _, .num n => acc (accessInt fo n l)
  | .pair _ _, .sym s | .list _, .sym s => acc (accessSym s l)
  | .list _, .symList ps => acc (accessPath fo ps l)
  | .list _, .range _ _ | .concat _ _, .range _ _ | .chars _, .range _ _ | .bytes _, .range _ _
  | .symList _, .range _ _ => .out (.val (.slice l r))
  | l, r => .out (.defer instr l r)

/-! ### the binary / unary instruction table used by the machine and by the OP suite -/

/-- binary instructions on (left, right) in source order -/
def binaryOp (op : Instruction) (l r : Val F) : Option (OpOut F) :=
  match op with
  | .add | .subtract | .multiply | .divide | .integerDivide | .power | .remainder
  | .bitwiseAnd | .bitwiseOr | .bitwiseXor | .bitwiseShiftLeft | .bitwiseShiftRight =>
    (numOpOf op).map (fun nop => arithBinary fo op nop l r)
  | .xor => some (.val (Val.ofBool (l.truthy != r.truthy)))
  | .typeEqual => some (.val (typeEqual l r))
  | .equal => some (.val (Val.ofBool (valEq fo l r)))
  | .notEqual => some (.val (Val.ofBool (!valEq fo l r)))
  | .lessThan => some (.val (lessThan fo l r))
  | .lessThanOrEqual => some (.val (lessThanOrEqual fo l r))
  | .greaterThan => some (.val (greaterThan fo l r))
  | .greaterThanOrEqual => some (.val (greaterThanOrEqual fo l r))
  | .makePair => some (.val (.pair l r))
  | .access => some (access fo l r)
  | .makeRange => some (makeRange fo false false l r)
  | .makeStartExclusiveRange => some (makeRange fo true false l r)
  | .makeEndExclusiveRange => some (makeRange fo false true l r)
  | .makeExclusiveRange => some (makeRange fo true true l r)
  | .concat => some (.val (.concat l r))
  | .partialApply => some (.val (.part l r))
  | _ => none

def unaryOp (op : Instruction) (v : Val F) : Option (OpOut F) :=
  match op with
  | .opposite | .absoluteValue | .bitwiseNot => (numOpOf op).map (fun nop => arithUnary fo op nop v)
  | .not => some (.val (Val.ofBool (!v.truthy)))
  | .tis => some (.val (Val.ofBool v.truthy))
  | .typeOf => some (.val (.type v.typeOf))
  | .accessLeftInternal => some (accessLeftInternal v)
  | .accessRightInternal => some (accessRightInternal v)
  | .accessLengthInternal => some (accessLengthInternal fo v)
  | _ => none

end Garnish.Abs
