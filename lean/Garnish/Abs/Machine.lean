/-
L1 abstract machine: the value-level VM. Registers, the input-value stack and frames hold values.
`step` mirrors `execute_current_instruction` (runtime/src/execute.rs) and the handlers it calls.
-/
import Garnish.Abs.Ops
namespace Garnish.Abs
open Garnish Gen

variable {F : Type}

inductive HostCall (F : Type) where
  | defer (op : Instruction) (l r : Val F)
  | resolve (s : Nat)
  | apply (ext : Nat) (arg : Val F)

/-- the host's three extension points; `none` = declines -/
structure Host (F : Type) where
  defer : Instruction → Val F → Val F → Option (Val F)
  resolve : Nat → Option (Val F)
  apply : Nat → Val F → Option (Val F)

def Host.declining : Host F := ⟨fun _ _ _ => none, fun _ => none, fun _ _ => none⟩

structure Frame (F : Type) where
  ret : Nat
  /-- operand stack at the time of the call; restored by `pop_frame` (operands above it are discarded) -/
  saved : List (Val F)

structure Prog (F : Type) where
  instrs : Array (Instruction × Option Nat)
  jumps : Array Nat
  consts : Array (Val F)

structure MState (F : Type) where
  pc : Nat
  regs : List (Val F)          -- head = top of the operand stack
  vals : List (Val F)          -- head = current input value
  frames : List (Frame F)
  trace : List (HostCall F)    -- newest first

inductive StepRes (F : Type) where
  | running (s : MState F)
  | halted (s : MState F)
  | err (e : ErrClass)

variable (fo : FloatOps F) (host : Host F)

/-- push the outcome of an operation; a deferred operation is offered to the host exactly once -/
def pushOut (s : MState F) (o : OpOut F) : Except ErrClass (MState F) :=
  match o with
  | .val v => .ok { s with regs := v :: s.regs }
  | .defer op l r =>
    let tr := HostCall.defer op l r :: s.trace
    match host.defer op l r with
    | some v => .ok { s with regs := v :: s.regs, trace := tr }
    | none => .ok { s with regs := .unit :: s.regs, trace := tr }
  | .err e => .error e

def jumpTarget (P : Prog F) (j : Nat) : Except ErrClass Nat :=
  match P.jumps[j]? with
  | some t => .ok t
  | none => .error .state

/-- `apply_internal` on (left, right); returns the state and the next instruction -/
def applyStep (P : Prog F) (s : MState F) (instr : Instruction) (useRight : Bool) (l r : Val F) :
    Except ErrClass (MState F × Nat) :=
  match applyKind fo instr useRight l r with
  | .enter j input => do
    let t ← jumpTarget P j
    .ok ({ s with vals := input :: s.vals, frames := ⟨s.pc + 1, s.regs⟩ :: s.frames }, t)
  | .external n arg =>
    let tr := HostCall.apply n arg :: s.trace
    match host.apply n arg with
    | some v => .ok ({ s with regs := v :: s.regs, trace := tr }, s.pc + 1)
    | none => .ok ({ s with regs := .unit :: s.regs, trace := tr }, s.pc + 1)
  | .out o => do
    let s' ← pushOut host s o
    .ok (s', s.pc + 1)

/-- `resolve` -/
def resolveStep (s : MState F) (key : Val F) : Except ErrClass (MState F) :=
  let fromInput : Except ErrClass (Option (Val F)) :=
    match s.vals with
    | [] => .ok none
    | cur :: _ => match getAccess fo key cur with
      | .some v => .ok (some v)
      | .none => .ok none
      | .unsupported => .ok none
      | .err .unsupported => .ok none
      | .err e => .error e
  match fromInput with
  | .error e => .error e
  | .ok (some v) => .ok { s with regs := v :: s.regs }
  | .ok none =>
    match key with
    | .sym sy =>
      let tr := HostCall.resolve sy :: s.trace
      match host.resolve sy with
      | some v => .ok { s with regs := v :: s.regs, trace := tr }
      | none => .ok { s with regs := .unit :: s.regs, trace := tr }
    | _ => .ok { s with regs := .unit :: s.regs }

/-- continue at `next` (or stop when it lies beyond the last instruction), as the tail of
`execute_current_instruction` does -/
def finish (P : Prog F) (r : Except ErrClass (MState F × Nat)) : StepRes F :=
  match r with
  | .error e => .err e
  | .ok (s', next) =>
    if next ≥ P.instrs.size then .halted { s' with pc := next } else .running { s' with pc := next }

/-- continue with the instruction after the current one -/
def seqNext (P : Prog F) (s : MState F) (r : Except ErrClass (MState F)) : StepRes F :=
  match r with
  | .error e => .err e
  | .ok s' => finish P (.ok (s', s.pc + 1))

/-- one instruction -/
def step (P : Prog F) (s : MState F) : StepRes F :=
  match P.instrs[s.pc]? with
  | none => .halted s
  | some (instr, operand) =>
    let finish := finish P
    let seq := seqNext P s
    let noRef : StepRes F := .err .state
    match instr with
    | .invalid => seq (.ok s)
    | .put => match operand with
      | none => .err .implementation
      | some k => match P.consts[k]? with
        | some v => seq (.ok { s with regs := v :: s.regs })
        | none => .err .state
    | .putValue => match s.vals with
      | [] => seq (.ok { s with regs := .unit :: s.regs })
      | v :: _ => seq (.ok { s with regs := v :: s.regs })
    | .pushValue => match s.regs with
      | [] => noRef
      | r :: rs => seq (.ok { s with regs := rs, vals := r :: s.vals })
    | .updateValue => match s.regs with
      | [] => noRef
      | r :: rs => match s.vals with
        | [] => .err .state
        | _ :: vs => seq (.ok { s with regs := rs, vals := r :: vs })
    | .startSideEffect => match s.vals with
      | [] => seq (.ok { s with vals := [.unit] })
      | v :: vs => seq (.ok { s with vals := v :: v :: vs })
    | .endSideEffect => match s.vals with
      | [] => .err .state
      | _ :: vs => match s.regs with
        | [] => .err .state
        | _ :: rs => seq (.ok { s with vals := vs, regs := rs })
    | .jumpTo => match operand with
      | none => .err .implementation
      | some j => finish ((jumpTarget P j).map (fun t => (s, t)))
    | .jumpIfTrue => match operand with
      | none => .err .implementation
      | some j => match jumpTarget P j with
        | .error e => .err e
        | .ok t => match s.regs with
          | [] => noRef
          | d :: rs => finish (.ok ({ s with regs := rs }, if d.truthy then t else s.pc + 1))
    | .jumpIfFalse => match operand with
      | none => .err .implementation
      | some j => match jumpTarget P j with
        | .error e => .err e
        | .ok t => match s.regs with
          | [] => noRef
          | d :: rs => finish (.ok ({ s with regs := rs }, if d.truthy then s.pc + 1 else t))
    | .and => match operand with
      | none => .err .implementation
      | some j => match s.regs with
        | [] => noRef
        | d :: rs =>
          if d.truthy then finish ((jumpTarget P j).map (fun t => ({ s with regs := rs }, t)))
          else seq (.ok { s with regs := .fls :: rs })
    | .or => match operand with
      | none => .err .implementation
      | some j => match s.regs with
        | [] => noRef
        | d :: rs =>
          if d.truthy then seq (.ok { s with regs := .tru :: rs })
          else finish ((jumpTarget P j).map (fun t => ({ s with regs := rs }, t)))
    | .endExpression => match s.regs with
      | [] => noRef
      | r :: rs => match s.frames with
        | [] => match s.vals with
          | [] => .err .state
          | _ :: vs => .halted { s with regs := rs, vals := r :: vs, pc := P.instrs.size }
        | fr :: frs =>
          -- pop_frame restores the operand stack of the caller; then pop the input value, push the result
          finish (.ok ({ s with regs := r :: fr.saved, vals := s.vals.tail, frames := frs }, fr.ret))
    | .apply => match s.regs with
      | r :: l :: rs => finish (applyStep fo host P { s with regs := rs } .apply true l r)
      | _ => noRef
    | .emptyApply => match s.regs with
      | l :: rs => finish (applyStep fo host P { s with regs := rs } .emptyApply false l .unit)
      | _ => noRef
    | .reapply => match operand with
      | none => .err .implementation
      | some j => match s.regs with
        | [] => noRef
        | v :: rs => match jumpTarget P j with
          | .error e => .err e
          | .ok t => match s.vals with
            | [] => .err .state
            | _ :: vs => finish (.ok ({ s with regs := rs, vals := v :: vs }, t))
    | .makeList => match operand with
      | none => .err .implementation
      | some n =>
        if n > s.regs.length then .err .state
        else seq (.ok { s with regs := .list (s.regs.take n).reverse :: s.regs.drop n })
    | .resolve => match operand with
      | none => .err .implementation
      | some k => match P.consts[k]? with
        | none => .err .state
        | some key => seq (resolveStep fo host s key)
    | .makePair => match s.regs with
      -- make_pair pops the left operand first (the builder pushes right, then left)
      | l :: r :: rs => seq (.ok { s with regs := .pair l r :: rs })
      | _ => noRef
    | .applyType => .err .unsupported    -- casts are outside the value-level model
    | op =>
      match s.regs with
      | [] => noRef
      | top :: rest =>
        match unaryOp fo op top with
        | some o => seq (pushOut host { s with regs := rest } o)
        | none =>
          match rest with
          | [] => noRef
          | l :: rs =>
            match binaryOp fo op l top with
            | some o => seq (pushOut host { s with regs := rs } o)
            | none => .err .implementation

/-- run at most `fuel` steps -/
def run (P : Prog F) : Nat → MState F → StepRes F × Nat
  | 0, s => (.running s, 0)
  | fuel + 1, s =>
    match step fo host P s with
    | .running s' => let (r, n) := run P fuel s'; (r, n + 1)
    | r => (r, 1)

end Garnish.Abs
