/-
The structured compiler: `compile : Spec.Program F → Prog F` produces, for the core-language AST of
Spec/Eval.lean, the instruction stream, jump table and constants that `build`
(compiler/src/build/build.rs) produces for the printed program (DESIGN Appendix B).

Shape of the algorithm (= the shape of `build`):
* `emit` lays out the *main line* of one root in post-order and pushes the out-of-line roots it meets
  (conditional bodies, right operands of `&&`/`||`, nested `{}` bodies) on the LIFO `pending`,
  creating jump-table placeholders and join entries at the moments `build` creates them;
* `layoutRoots` pops the most recently pushed root, patches its jump entry with the current
  instruction count, emits it, appends its terminators "unless the last instruction, emitted by this
  same root, is an `EndExpression` equal to it" (the rule of commits 3cee692 + 7afc7c5, modelled literally), and goes on until no
  root is pending.
Constants are allocated sequentially without interning (the tie compares them by value).
`done` is a ghost field: the roots laid out so far, used to state the canonical-labelling part of
`WFProgram` (Props/C01Compile.lean); it does not influence the output.
-/
import Garnish.Spec.Eval
namespace Garnish.Abs
open Garnish Gen Garnish.Spec

abbrev Instr := Instruction × Option Nat

/-- what a pending root consists of: an expression of the current body, or the body of a nested
expression, named by its id in the program's table of bodies -/
inductive RootKind (F : Type) where
  | code (e : Expr F)
  | ref (id : Nat)

structure Root (F : Type) where
  kind : RootKind F
  /-- jump-table entry that receives the address of this root when it is laid out -/
  patch : Nat
  /-- terminators appended after the root -/
  term : List Instr
  /-- jump entry of the expression body this root belongs to (target of `^~`) -/
  containing : Nat

structure LState (F : Type) where
  instrs : Array Instr
  jumps : Array Nat
  consts : Array (Val F)
  pending : List (Root F)        -- head = most recently pushed
  done : List (Root F)           -- ghost: roots laid out so far, newest first
  /-- ghost (C06): operand depth, relative to the frame base, at which each instruction is entered -/
  depths : Array Nat := #[]
  /-- ghost (C06): depth at which the next instruction will be entered -/
  dep : Nat := 0
  /-- ghost (C06): depth at which each pending root starts (parallel to `pending`) -/
  pendDep : List Nat := []

variable {F : Type}

def jumpIf (onTrue : Bool) : Instruction := if onTrue then .jumpIfTrue else .jumpIfFalse

/-- ghost (C06): operand depth after the instruction on its fall-through edge, entered at depth `k`
(`JumpTo`: the depth the enclosing expression would have produced, the instruction after it is not reached
from it) -/
def fall (i : Instruction) (o : Option Nat) (k : Nat) : Nat :=
  match i with
  | .put | .putValue | .resolve | .jumpTo => k + 1
  | .pushValue | .updateValue | .endSideEffect | .jumpIfTrue | .jumpIfFalse | .apply | .makePair | .reapply
  | .applyType => k - 1
  | .makeList => k - o.getD 0 + 1
  | .invalid | .startSideEffect | .and | .or | .emptyApply | .endExpression
  | .opposite | .absoluteValue | .bitwiseNot | .not | .tis | .typeOf | .accessLeftInternal
  | .accessRightInternal | .accessLengthInternal => k
  | _ => k - 1

namespace LState

def push (s : LState F) (i : Instruction) (d : Option Nat) : LState F :=
  { s with instrs := s.instrs.push (i, d), depths := s.depths.push s.dep, dep := fall i d s.dep }

/-- a fresh constant and the instruction that refers to it (`Put` / `Resolve`: one operand more) -/
def pushConst (s : LState F) (i : Instruction) (v : Val F) : LState F :=
  { s with instrs := s.instrs.push (i, some s.consts.size), consts := s.consts.push v,
           depths := s.depths.push s.dep, dep := s.dep + 1 }

def pushJump (s : LState F) (target : Nat) : LState F :=
  { s with jumps := s.jumps.push target }

/-- a nested `{}` body starts at depth 0; a conditional body / right operand of `&&`,`||` starts one below the
depth after the `PutValue` resp. `And`/`Or` that was just emitted (the tested operand has been popped) -/
def pushRoot (s : LState F) (r : Root F) : LState F :=
  { s with pending := r :: s.pending,
           pendDep := (match r.kind with | .ref _ => 0 | .code _ => s.dep - 1) :: s.pendDep }

end LState

/-- the pending roots of an else-chain: pushed in arm order, so the last arm is laid out first -/
def armRoots (cur join : Nat) (items : List (Expr F × Nat)) : List (Root F) :=
  (items.map (fun it => (⟨.code it.1, it.2, [(.jumpTo, some join)], cur⟩ : Root F))).reverse

/-- after the condition of `c ?> t` (not under an else-chain): `JumpIf j; PutValue`, the join entry, and the
body `t` as a pending root that returns to the join -/
def condTail (cur : Nat) (onTrue : Bool) (t : Expr F) (s1 : LState F) : LState F :=
  let j := s1.jumps.size
  let s2 := ((s1.pushJump 0).push (jumpIf onTrue) (some j)).push .putValue none
  let join := s2.jumps.size
  (s2.pushRoot ⟨.code t, j, [(.jumpTo, some join)], cur⟩).pushJump s2.instrs.size

/-- after the left operand of `&&` / `||`: `And j` / `Or j`, the join entry, and the right operand as a pending
root terminated by `Tis; JumpTo join` -/
def logicalTail (cur : Nat) (instr : Instruction) (r : Expr F) (s1 : LState F) : LState F :=
  let j := s1.jumps.size
  let s2 := (s1.pushJump 0).push instr (some j)
  let join := s2.jumps.size
  (s2.pushRoot ⟨.code r, j, [(.tis, none), (.jumpTo, some join)], cur⟩).pushJump s2.instrs.size

/-- end of an else-chain: the join entry, then the arm bodies as pending roots -/
def finishChain (cur : Nat) (s2 : LState F) (items : List (Expr F × Nat)) : LState F :=
  match items with
  | [] => s2
  | it :: its =>
    let join := s2.jumps.size
    { s2.pushJump s2.instrs.size with
        pending := armRoots cur join (it :: its) ++ s2.pending,
        pendDep := List.replicate (it :: its).length (s2.dep - 1) ++ s2.pendDep }

/-- an else-chain without a final arm emits nothing more; without any arm at all (not a shape of the
language) the value is `$` -/
def chainNoFinal (arms : List (Bool × Expr F × Expr F)) (s : LState F) : LState F :=
  match arms with
  | [] => s.push .putValue none
  | _ :: _ => s

mutual
/-- main line of `e`; `root` = jump entry of the root being laid out (no longer used by any case since `{ }` names
`cur`, repo commit df89d39; kept so that the signatures of the layout lemmas stay), `cur` = jump entry of the
containing expression body -/
def emit (root cur : Nat) : Expr F → LState F → LState F
  | .lit v, s => s.pushConst .put v
  | .input, s => s.push .putValue none
  | .ident sym, s => s.pushConst .resolve (.sym sym)
  | .unary op x, s => (emit root cur x s).push op none
  | .binary op l r, s => (emit root cur r (emit root cur l s)).push op none
  | .pair l r, s => (emit root cur l (emit root cur r s)).push .makePair none
  | .applyTo x f, s => (emit root cur x (emit root cur f s)).push .apply none
  | .list items, s => (emitList root cur items s).push .makeList (some items.length)
  | .cond onTrue c t, s => condTail cur onTrue t (emit root cur c s)
  | .chain arms none, s =>
    let r := emitArms root cur arms s
    finishChain cur (chainNoFinal arms r.1) r.2
  | .chain arms (some e), s =>
    let r := emitArms root cur arms s
    finishChain cur (emit root cur e r.1) r.2
  | .and l r, s => logicalTail cur .and r (emit root cur l s)
  | .or l r, s => logicalTail cur .or r (emit root cur l s)
  | .seq a b, s => emit root cur b ((emit root cur a s).push .updateValue none)
  | .sideAfter x body, s =>
    (emit root cur body ((emit root cur x s).push .startSideEffect none)).push .endSideEffect none
  | .nested id, s =>
    let j := s.jumps.size
    ((s.pushJump 0).pushConst .put (.expr j)).pushRoot ⟨.ref id, j, [(.endExpression, none)], j⟩
  -- `{ }` names the expression body it is written in (build.rs after commit df89d39), not the root being laid out
  | .emptyNested, s => s.pushConst .put (.expr cur)
  | .reapply x, s => ((emit root cur x s).push .updateValue none).push .jumpTo (some cur)
  | .prefixApply sym x, s => (emit root cur x (s.pushConst .resolve (.sym sym))).push .apply none
  | .suffixApply x sym, s => (emit root cur x (s.pushConst .resolve (.sym sym))).push .apply none
  | .infixApply a sym b, s =>
    ((emit root cur b (emit root cur a (s.pushConst .resolve (.sym sym)))).push .makeList (some 2)).push .apply none

def emitList (root cur : Nat) : List (Expr F) → LState F → LState F
  | [], s => s
  | x :: xs, s => emitList root cur xs (emit root cur x s)

/-- conditions of the arms of an else-chain, each followed by its `JumpIf`; returns the arm bodies with
the jump entries to patch, in arm order -/
def emitArms (root cur : Nat) : List (Bool × Expr F × Expr F) → LState F → LState F × List (Expr F × Nat)
  | [], s => (s, [])
  | (onTrue, c, t) :: rest, s =>
    let s1 := emit root cur c s
    let j := s1.jumps.size
    let r := emitArms root cur rest ((s1.pushJump 0).push (jumpIf onTrue) (some j))
    (r.1, (t, j) :: r.2)
end

/-- "append the terminator unless the last instruction is already an `EndExpression` that equals it": `last` is
the last instruction of the stream when the root's own code is complete (fixed before the first terminator is
looked at, as in `build`); an instruction counts only when this root has emitted something (`start` = where it
began); only an explicit end of expression can stand in for the root's own (build.rs after commit 7afc7c5) -/
def addTerms (start : Nat) (last : Option Instr) : List Instr → LState F → LState F
  | [], s => s
  | t :: ts, s =>
    addTerms start last ts
      (if last = some t ∧ t.1 = .endExpression ∧ s.instrs.size > start then s else s.push t.1 t.2)

/-- lay out one root: patch its jump entry, main line, terminators -/
def layoutRoot (bodies : List (Nat × Expr F)) (r : Root F) (s : LState F) : LState F :=
  let s1 : LState F := { s with jumps := s.jumps.setIfInBounds r.patch s.instrs.size, done := r :: s.done,
                                 dep := s.pendDep.headD 0, pendDep := s.pendDep.tail }
  let s2 := match r.kind with
    | .code e => emit r.patch r.containing e s1
    | .ref id => match lookupBody bodies id with
      | some b => emit r.patch r.containing b s1
      | none => s1
  addTerms s1.instrs.size s2.instrs.back? r.term s2

/-- lay out pending roots, most recently pushed first, until none is left (or the fuel is used up, which
does not happen on programs whose bodies are referenced at most once) -/
def layoutRoots (bodies : List (Nat × Expr F)) : Nat → LState F → LState F
  | 0, s => s
  | fuel + 1, s =>
    match s.pending with
    | [] => s
    | r :: rest => layoutRoots bodies fuel (layoutRoot bodies r { s with pending := rest })

mutual
def exprSize : Expr F → Nat
  | .lit _ | .input | .ident _ | .emptyNested => 1
  | .nested _ => 2        -- pays for laying out the (possibly missing) body it names
  | .unary _ x | .reapply x | .prefixApply _ x | .suffixApply x _ => exprSize x + 1
  | .binary _ l r | .pair l r | .applyTo l r | .cond _ l r | .and l r | .or l r | .seq l r
  | .sideAfter l r | .infixApply l _ r => exprSize l + exprSize r + 1
  | .list items => exprsSize items + 1
  | .chain arms final => armsSize arms + (match final with | some e => exprSize e | none => 0) + 1
def exprsSize : List (Expr F) → Nat
  | [] => 0
  | x :: xs => exprSize x + exprsSize xs
def armsSize : List (Bool × Expr F × Expr F) → Nat
  | [] => 0
  | (_, c, t) :: rest => exprSize c + exprSize t + armsSize rest
end

def bodiesSize : List (Nat × Expr F) → Nat
  | [] => 0
  | (_, b) :: rest => exprSize b + 1 + bodiesSize rest

/-- the builder state in which a program starts to be built into an existing object: the entry of the
program is a new jump entry `entry`, the program itself (body `entry` of the table: bodies are named by their jump
entries; `0` when the object is empty) is the only pending root -/
def startState (s0 : Prog F) : LState F :=
  let entry := s0.jumps.size
  { instrs := s0.instrs, jumps := s0.jumps.push s0.instrs.size, consts := s0.consts,
    pending := [⟨.ref entry, entry, [(.endExpression, none)], entry⟩], done := [], depths := Array.replicate s0.instrs.size 0, dep := 0, pendDep := [0] }

def compileState (s0 : Prog F) (p : Program F) : LState F :=
  layoutRoots p.bodies (bodiesSize p.bodies + 2) (startState s0)

def LState.toProg (s : LState F) : Prog F := ⟨s.instrs, s.jumps, s.consts⟩

/-- build `p` into an object that already holds `s0`; returns the object and the program's jump entry -/
def compileInto (s0 : Prog F) (p : Program F) : Prog F × Nat :=
  ((compileState s0 p).toProg, s0.jumps.size)

def Prog.empty : Prog F := ⟨#[], #[], #[]⟩

def compile (p : Program F) : Prog F := (compileInto Prog.empty p).1

end Garnish.Abs
