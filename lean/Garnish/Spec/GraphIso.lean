/-
Verified checker for "structurally identical at the new address" (C19, certified-per-run route).

`graphIso h h' roots` traverses the two data blocks simultaneously from the root pairs, collecting a
visited relation `R ⊆ Addr × Addr` (worklist + fuel, unverified search), then *checks* that `R` is a
bisimulation: for every `(a, a') ∈ R` the two addresses have shapes with the same label, the same
inline cells and pairwise related children.  Soundness only needs the check:

  `graphIso_sound : graphIso h h' roots = true → ∀ (a, a') ∈ roots, ∀ fuel, unfold h fuel a = unfold h' fuel a'`

(for all heaps, no bound), hence the decoded values agree (`graphIso_sound_decode`), and so do the
decoded stacks (`graphIso_sound_stack`).  The tree of an address contains list key tables, the return
point of a frame, and — through the `previous` links — the whole chain below a stack head.
-/
import Garnish.Store.BasicCells
import Garnish.Store.BasicOptimize
namespace Garnish.BasicOpt
open Garnish

abbrev DataBlock := Array Cell

/-- one pair of the candidate relation is locally consistent -/
def nodeMatch (h h' : DataBlock) (R : List (Nat × Nat)) (p : Nat × Nat) : Bool :=
  match shape h p.1, shape h' p.2 with
  | some s, some s' =>
    decide (s.label = s'.label) && decide (s.inl = s'.inl) && decide (s.kids.length = s'.kids.length)
      && (s.kids.zip s'.kids).all (fun q => R.contains q)
  | _, _ => false

/-- `R` is a bisimulation between the two blocks -/
def checkBisim (h h' : DataBlock) (R : List (Nat × Nat)) : Bool := R.all (nodeMatch h h' R)

/-- simultaneous traversal: `work` = pairs still to visit, `vis` = visited relation -/
def closure (h h' : DataBlock) : Nat → List (Nat × Nat) → List (Nat × Nat) → List (Nat × Nat)
  | 0, _, vis => vis
  | _ + 1, [], vis => vis
  | fuel + 1, p :: work, vis =>
    if vis.contains p then closure h h' fuel work vis
    else match shape h p.1, shape h' p.2 with
      | some s, some s' => closure h h' fuel (s.kids.zip s'.kids ++ work) (p :: vis)
      | _, _ => closure h h' fuel work (p :: vis)

def isoFuel (h h' : DataBlock) (roots : List (Nat × Nat)) : Nat := roots.length + 4 * (h.size + h'.size) + 16

/-- the relation found from the roots -/
def isoRelation (h h' : DataBlock) (roots : List (Nat × Nat)) : List (Nat × Nat) :=
  closure h h' (isoFuel h h' roots) roots []

def graphIso (h h' : DataBlock) (roots : List (Nat × Nat)) : Bool :=
  let R := isoRelation h h' roots
  roots.all (fun p => R.contains p) && checkBisim h h' R

/-! ### soundness -/

theorem allSome_congr_zip {α β γ} (f : α → Option γ) (g : β → Option γ) :
    ∀ (l : List α) (l' : List β), l.length = l'.length →
      (∀ q ∈ l.zip l', f q.1 = g q.2) → allSome f l = allSome g l'
  | [], [], _, _ => rfl
  | [], _ :: _, hl, _ => by simp at hl
  | _ :: _, [], hl, _ => by simp at hl
  | x :: xs, y :: ys, hl, hq => by
    have h1 : f x = g y := hq (x, y) (by simp [List.zip_cons_cons])
    have h2 : allSome f xs = allSome g ys :=
      allSome_congr_zip f g xs ys (by simpa using hl) (fun q hqm => hq q (by simp [List.zip_cons_cons, hqm]))
    simp [allSome, h1, h2]

/-- a checked bisimulation relates only addresses with equal unfoldings, at every fuel -/
theorem checkBisim_sound (h h' : DataBlock) (R : List (Nat × Nat)) (hc : checkBisim h h' R = true) :
    ∀ (fuel : Nat) (a a' : Nat), (a, a') ∈ R → unfold h fuel a = unfold h' fuel a' := by
  intro fuel
  induction fuel with
  | zero => intro a a' _; simp [unfold]
  | succ f ih =>
    intro a a' hmem
    have hm : nodeMatch h h' R (a, a') = true := by
      unfold checkBisim at hc
      exact (List.all_eq_true.mp hc) (a, a') hmem
    unfold nodeMatch at hm
    simp only at hm
    cases hs : shape h a with
    | none => simp [hs] at hm
    | some s =>
      cases hs' : shape h' a' with
      | none => simp [hs, hs'] at hm
      | some s' =>
        simp only [hs, hs', Bool.and_eq_true, decide_eq_true_eq, List.all_eq_true] at hm
        obtain ⟨⟨⟨hlab, hinl⟩, hlen⟩, hkids⟩ := hm
        have hk : allSome (unfold h f) s.kids = allSome (unfold h' f) s'.kids := by
          apply allSome_congr_zip _ _ _ _ hlen
          intro q hq
          have := hkids q hq
          have hq' : q ∈ R := by simpa using this
          exact ih q.1 q.2 hq'
        simp [unfold, hs, hs', hk, hlab, hinl]

/-- **graphIso_sound**: an accepted root pair has equal unfoldings (all heaps, all fuels) -/
theorem graphIso_sound (h h' : DataBlock) (roots : List (Nat × Nat)) (hacc : graphIso h h' roots = true) :
    ∀ p ∈ roots, ∀ fuel, unfold h fuel p.1 = unfold h' fuel p.2 := by
  intro p hp fuel
  unfold graphIso at hacc
  simp only [Bool.and_eq_true, List.all_eq_true] at hacc
  obtain ⟨hroots, hc⟩ := hacc
  have hmem : p ∈ isoRelation h h' roots := by simpa using hroots p hp
  exact checkBisim_sound h h' _ hc fuel p.1 p.2 hmem

/-- the decoded values agree -/
theorem graphIso_sound_decode {F : Type} (numOf : Nat → Number F) (h h' : DataBlock) (roots : List (Nat × Nat))
    (hacc : graphIso h h' roots = true) :
    ∀ p ∈ roots, ∀ fuel, decode numOf h fuel p.1 = decode numOf h' fuel p.2 := by
  intro p hp fuel
  simp [decode, graphIso_sound h h' roots hacc p hp fuel]

/-- heads: `none`/`none` is trivially related, `some a`/`some a'` through the pair `(a, a')` -/
def headPairs : Option Nat → Option Nat → Option (List (Nat × Nat))
  | none, none => some []
  | some a, some a' => some [(a, a')]
  | _, _ => none

/-- the decoded stacks agree when the heads are accepted -/
theorem graphIso_sound_stack (h h' : DataBlock) (hd hd' : Option Nat) (ps : List (Nat × Nat))
    (hp : headPairs hd hd' = some ps) (hacc : graphIso h h' ps = true) :
    ∀ fuel, decodeStack h fuel hd = decodeStack h' fuel hd' := by
  intro fuel
  cases hd with
  | none => cases hd' with
    | none => rfl
    | some _ => simp [headPairs] at hp
  | some a => cases hd' with
    | none => simp [headPairs] at hp
    | some a' =>
      simp only [headPairs, Option.some.injEq] at hp
      subst hp
      have := graphIso_sound h h' _ hacc (a, a') (by simp) fuel
      simp only at this
      simp [decodeStack, this]

/-! ### the root pairs C19 speaks about -/

/-- cells that denote a value (`get_data_type` is not `Invalid`) -/
def isValueCell : Cell → Bool
  | .empty | .uninitializedList _ _ | .listItem _ | .associativeItem _ _ | .value _ _ | .valueRoot _
  | .register _ _ | .registerRoot _ | .instructionWithData _ _ | .instruction _ | .jumpPoint _
  | .frame _ _ | .frameIndex _ | .frameRegister _ | .frameRoot | .cloneItem _ | .cloneIndexMap _ _ => false
  | _ => true

/-- symbol-name table entries pairwise: same symbol, (old text address, new text address) -/
def symPairs : List Cell → List Cell → Option (List (Nat × Nat))
  | [], [] => some []
  | .associativeItem s d :: xs, .associativeItem s' d' :: ys =>
    if s = s' then (symPairs xs ys).map ((d, d') :: ·) else none
  | _, _ => none

/-- retained-prefix addresses that hold a value, paired with themselves -/
def prefixPairs (pre : Store) : List (Nat × Nat) :=
  (List.range pre.retention).filterMap (fun a => match pre.cells[a]? with
    | some c => if isValueCell c then some (a, a) else none
    | none => none)

/-- everything C19 lists: the three heads, the extra roots through the returned mapping, the symbol-name
table, the retained prefix -/
def c19Pairs (pre post : Store) (roots m : List Nat) : Option (List (Nat × Nat)) :=
  match headPairs pre.currentRegister post.currentRegister, headPairs pre.currentValue post.currentValue,
        headPairs pre.currentFrame post.currentFrame, symPairs pre.symtab.toList post.symtab.toList with
  | some r, some v, some f, some sy =>
    if roots.length = m.length then some (r ++ v ++ f ++ roots.zip m ++ sy ++ prefixPairs pre) else none
  | _, _, _, _ => none

end Garnish.BasicOpt
