/-
L0 specification for property C14 ("literals denote exactly what they spell"): the SPELLING functions — the
inverse direction of the literal parsers — and the clean escape-processing specifications the parsers are
proved equal to (Props/C14.lean). Nothing here depends on the code model except the `Outcome` type.

Everything is executable (structural recursion / fuel only, so `decide` and `rfl` evaluate it); the Python
generator /verif/tools/gen/litgen.py mirrors these definitions function by function (`spell_*`).
-/
import Garnish.Model.Outcome
namespace Garnish.Spec.Spell
open Garnish

/-! ## numbers -/

/-- digit `d` (< 36) as a character: `0-9` then `a-z` -/
def digitChar (d : Nat) : Char := if d < 10 then Char.ofNat (48 + d) else Char.ofNat (87 + d)

/-- positional digits, most significant first, pushed in front of `acc`; `fuel > n` is enough -/
def spellAux (radix : Nat) : Nat → Nat → List Char → List Char
  | 0, _, acc => acc
  | fuel + 1, n, acc =>
    let acc' := digitChar (n % radix) :: acc
    if n / radix = 0 then acc' else spellAux radix fuel (n / radix) acc'

/-- the canonical spelling of `n` in `radix` (2..36): digits `0-9a-z`, most significant first, `"0"` for 0 -/
def spellNat (radix n : Nat) : List Char := spellAux radix (n + 1) n []

/-- `ds` with one `_` after the digit at (0-based) position `i` for every occurrence of `i` in `seps`
    (so: never before the first digit; an index may be repeated — `1__0`; the last index gives a trailing `_`;
    indexes past the end are ignored) -/
def insertSepsFrom (seps : List Nat) : Nat → List Char → List Char
  | _, [] => []
  | i, d :: ds => d :: (List.replicate (seps.count i) '_' ++ insertSepsFrom seps (i + 1) ds)

def insertSeps (ds : List Char) (seps : List Nat) : List Char := insertSepsFrom seps 0 ds

/-- the prefixed form `0R_digits`: `0`, the radix in decimal, `_`, the digits (with separators) -/
def spellPrefixed (radix n : Nat) (seps : List Nat) : List Char :=
  '0' :: (spellNat 10 radix ++ '_' :: insertSeps (spellNat radix n) seps)

/-- a spelling of `n`: plain decimal digits for radix 10, the prefixed form `0R_digits` otherwise -/
def spellNumber (radix n : Nat) (seps : List Nat) : List Char :=
  if radix = 10 then insertSeps (spellNat 10 n) seps else spellPrefixed radix n seps

/-- The only placement the language does not accept: in the plain decimal form a `_` directly after a leading `0`
    (`0_`, `0_5`) reads the `0` as the start of a radix prefix with an empty radix. The canonical decimal spelling
    starts with `0` only for `n = 0`. -/
def ValidSeps (radix n : Nat) (seps : List Nat) : Prop := radix = 10 → n = 0 → 0 ∉ seps

instance (radix n : Nat) (seps : List Nat) : Decidable (ValidSeps radix n seps) := by
  unfold ValidSeps; infer_instance

/-- a decimal fraction `int.frac` (digit strings; separators are inserted by the caller) -/
def spellFraction (intDigits fracDigits : List Char) : List Char := intDigits ++ '.' :: fracDigits

/-! ## character lists -/

def quoteCharList (q : Nat) (body : List Char) : List Char :=
  List.replicate q '"' ++ body ++ List.replicate q '"'

/-- the escape sequence (or the character itself) that denotes `c` inside a char-list literal opened by `q` quotes.
    Must be escaped: `\` always; `"` (it could close the literal, or lengthen the opening run); newline and tab in
    the forms with at most one quote, where a raw one is skipped; NUL is written `\0`. Everything else is literal. -/
def escapeChar (q : Nat) (c : Char) : List Char :=
  if c = '\\' then ['\\', '\\']
  else if c = '"' then ['\\', '"']
  else if c = '\n' ∧ q ≤ 1 then ['\\', 'n']
  else if c = '\t' ∧ q ≤ 1 then ['\\', 't']
  else if c = Char.ofNat 0 then ['\\', '0']
  else [c]

def escapeChars (q : Nat) (cs : List Char) : List Char := cs.flatMap (escapeChar q)

/-- `\u{hex}` -/
def escapeUnicode (c : Char) : List Char := '\\' :: 'u' :: '{' :: (spellNat 16 c.toNat ++ ['}'])

/-- as `escapeChar`, but a quote is written `\u{22}`: the body then contains no `"` at all, so the LEXER
    (which knows nothing of escapes and closes the token at the first run of `q` quotes) keeps it in one token -/
def escapeCharU (q : Nat) (c : Char) : List Char :=
  if c = '"' then escapeUnicode '"' else escapeChar q c

def escapeCharsU (q : Nat) (cs : List Char) : List Char := cs.flatMap (escapeCharU q)

/-- as `escapeChar` but quotes stay raw (forms with `q ≥ 3` quotes: an inner run shorter than `q` does not close) -/
def escapeCharRaw (q : Nat) (c : Char) : List Char :=
  if c = '"' then ['"'] else escapeChar q c

def escapeCharsRaw (q : Nat) (cs : List Char) : List Char := cs.flatMap (escapeCharRaw q)

/-- state of escape processing -/
inductive Mode where
  | normal
  | esc                          -- after a backslash
  | uni (hexRev : List Char)     -- inside `\u…}`; the characters collected so far, reversed
deriving Repr, DecidableEq

def consOk {α : Type} (a : α) : Outcome (List α) → Outcome (List α)
  | .ok l => .ok (a :: l)
  | .err e => .err e
  | .panic s => .panic s
  | .fuelOut => .fuelOut

def appendOk {α : Type} (a : List α) : Outcome (List α) → Outcome (List α)
  | .ok l => .ok (a ++ l)
  | .err e => .err e
  | .panic s => .panic s
  | .fuelOut => .fuelOut

/-- Escape processing of the characters between the quotes of a char-list literal.
    `uni` decodes the text between `\u` and `}` (braces `{` removed); `skipWs` = the literal has at most one quote
    (raw newlines and tabs are dropped). Escapes: `\n \t \r \0 \\ \"` and `\u{hex}`; any other escape letter is an
    error. What the language does at the end of the body is part of the specification as observed: an unfinished
    escape (a trailing `\`, or `\u{…` without `}`) contributes nothing. -/
def unesc (uni : List Char → Outcome Char) (skipWs : Bool) : Mode → List Char → Outcome (List Char)
  | _, [] => .ok []
  | .normal, c :: rest =>
    if c = '\\' then unesc uni skipWs .esc rest
    else if (c = '\n' ∨ c = '\t') ∧ skipWs = true then unesc uni skipWs .normal rest
    else consOk c (unesc uni skipWs .normal rest)
  | .esc, c :: rest =>
    if c = 'n' then consOk '\n' (unesc uni skipWs .normal rest)
    else if c = 't' then consOk '\t' (unesc uni skipWs .normal rest)
    else if c = 'r' then consOk '\r' (unesc uni skipWs .normal rest)
    else if c = '0' then consOk (Char.ofNat 0) (unesc uni skipWs .normal rest)
    else if c = '\\' then consOk '\\' (unesc uni skipWs .normal rest)
    else if c = '"' then consOk '"' (unesc uni skipWs .normal rest)
    else if c = 'u' then unesc uni skipWs (.uni []) rest
    else .err .data
  | .uni hexRev, c :: rest =>
    if c = '}' then Outcome.bind (uni hexRev.reverse) fun ch => consOk ch (unesc uni skipWs .normal rest)
    else if c = '{' then unesc uni skipWs (.uni hexRev) rest
    else unesc uni skipWs (.uni (c :: hexRev)) rest

/-- what a char-list literal with `q` opening quotes and body `body` denotes -/
def unescape (uni : List Char → Outcome Char) (q : Nat) (body : List Char) : Outcome (List Char) :=
  unesc uni (decide (q ≤ 1)) .normal body

/-! ## byte lists -/

/-- UTF-8 encoding of a scalar value (the Unicode standard's table 3-6) -/
def utf8Encode (c : Char) : List Nat :=
  let n := c.toNat
  if n < 0x80 then [n]
  else if n < 0x800 then [0xC0 + n / 64, 0x80 + n % 64]
  else if n < 0x10000 then [0xE0 + n / 4096, 0x80 + n / 64 % 64, 0x80 + n % 64]
  else [0xF0 + n / 262144, 0x80 + n / 4096 % 64, 0x80 + n / 64 % 64, 0x80 + n % 64]

def quoteByteList (q : Nat) (body : List Char) : List Char :=
  List.replicate q '\'' ++ body ++ List.replicate q '\''

/-- Escape processing of the quoted byte-list form `'…'`: escapes `\n \t \r \0 \\ \'`, every other character
    contributes its UTF-8 bytes (`esc` = a backslash was just read; a trailing `\` contributes nothing). -/
def unescBytes : Bool → List Char → Outcome (List Nat)
  | _, [] => .ok []
  | true, c :: rest =>
    if c = 'n' then consOk 10 (unescBytes false rest)
    else if c = 't' then consOk 9 (unescBytes false rest)
    else if c = 'r' then consOk 13 (unescBytes false rest)
    else if c = '0' then consOk 0 (unescBytes false rest)
    else if c = '\\' then consOk 92 (unescBytes false rest)
    else if c = '\'' then consOk 39 (unescBytes false rest)
    else .err .data
  | false, c :: rest =>
    if c = '\\' then unescBytes true rest
    else appendOk (utf8Encode c) (unescBytes false rest)

/-- spelling of the ASCII byte `b` (< 128) in the quoted form: `\` and `'` must be escaped, newline, tab, CR and NUL
    are written as escapes, everything else is the character itself -/
def escapeByte (b : Nat) : List Char :=
  if b = 92 then ['\\', '\\']
  else if b = 39 then ['\\', '\'']
  else if b = 10 then ['\\', 'n']
  else if b = 9 then ['\\', 't']
  else if b = 13 then ['\\', 'r']
  else if b = 0 then ['\\', '0']
  else [Char.ofNat b]

/-- `'abc'` (ASCII bytes only) -/
def spellBytesQuoted (bs : List Nat) : List Char := quoteByteList 1 (bs.flatMap escapeByte)

/-- numbers joined by single spaces -/
def joinSpaces : List (List Char) → List Char
  | [] => []
  | [x] => x
  | x :: y :: rest => x ++ ' ' :: joinSpaces (y :: rest)

/-- `''1 2 255''` (`q ≥ 2` quotes), every byte written with `spell` (canonically: decimal) -/
def spellBytesNumericWith (spell : Nat → List Char) (q : Nat) (bs : List Nat) : List Char :=
  quoteByteList q (joinSpaces (bs.map spell))

def spellBytesNumeric (q : Nat) (bs : List Nat) : List Char := spellBytesNumericWith (spellNat 10) q bs

/-! ## symbols -/

/-- `:name` -/
def spellSymbol (name : List Char) : List Char := ':' :: name

end Garnish.Spec.Spell
