/-
The reference grammar extended with side-effect blocks `[ body ]`, AS THE PARSER TREATS THEM (a description of the
implementation, validated per input against the parser model in Props/C02Blocks.lean — not a language definition):

  (A) after a value        `v [b]`       the block becomes the RIGHT child of the value node; the list flag is cleared;
  (B) at an operand position after an operator / `,` / separator, or directly after `(` `{` `[`
                           `e + [b]`     the block is plugged in as the operand and stays PENDING: a value that follows
                           `e + [b] v`   (with or without whitespace) takes it as its LEFT child; a closer / the end
                                         accepts it as the operand; an operator is a syntax error;
  (C) at the very start    `[b]`         as (B), but the block counts as a complete operand: an operator may follow,
                           `[b] v`       a value directly behind it takes it as LEFT child, after whitespace it is a list item;
  (D) after a closed group `(e) [b]`     FINDING F-C18-side-effect-after-group, mirrored here: the block is spliced INSIDE
                                         the group, as a SideEffect node whose LEFT child is the content of the group.
Everything else around a block (`v [b] [c]`, a bracket after a pending block, a block after a suffix operator, …) is
`unsupported`.  All other tokens are handled by `refStep` of Spec/RefParse.lean; `refParseB_conservative`
(Lemmas/RefParseB1.lean): without `[` / `]` tokens `refParseB = refParse`.
-/
import Garnish.Spec.RefParse

namespace Garnish.Spec
open Garnish Garnish.Gen Garnish.Model.Parser

inductive BMode where
  | valueRight
  | groupSplice
  | pending (soft : Bool)
deriving Repr, DecidableEq

/-- state of the extended pass: `pend = some (C, SE, soft)`: the block `SE` has just been plugged into the tree `C` -/
structure BSt where
  f : Frame
  stack : List Frame
  modes : List BMode
  pend : Option (RTree × RTree × Bool)

/-- what the bottom of the right spine is: 0 nothing, 1 a node without right child, 2 a closed `( )` / `{ }`,
    3 a block (a closed block is kept as an opaque `group .sideEffect` node while the pass runs: no later operator may walk
    into it; `unB` turns it into the parser`s SideEffect node at the end) -/
def bottomKind : RTree → Nat
  | .nil => 0
  | .group d _ _ => if d == .sideEffect then 3 else 2
  | .node _ _ _ r => if r.isNil then 1 else bottomKind r

/-- the parser`s shape of a block: a SideEffect node without left child -/
def unB : RTree → RTree
  | .nil => .nil
  | .node l d k r => .node (unB l) d k (unB r)
  | .group d k i => if d == .sideEffect then .node .nil .sideEffect k (unB i) else .group d k (unB i)

def setBottomRight : RTree → RTree → RTree
  | .nil, x => x
  | .group d k i, _ => .group d k i
  | .node l d k r, x => if r.isNil then .node l d k x else .node l d k (setBottomRight r x)

def spliceGroup : RTree → Nat → RTree → RTree
  | .nil, _, _ => .nil
  | .group d k i, pos, body => .group d k (.node i .sideEffect pos body)
  | .node l d k r, pos, body => .node l d k (spliceGroup r pos body)

def bottomIsAccess : RTree → Bool
  | .nil => false
  | .group _ _ _ => false
  | .node _ d _ r => if r.isNil then d == .access else bottomIsAccess r

def blockFrame (pos : Nat) : Frame := { ctx := some (.sideEffect, pos), cur := .nil, last := .start, ws := false, prevSep := false }

def liftStep (s : BSt) (pend : Option (RTree × RTree × Bool)) (r : Outcome (Frame × List Frame)) : Outcome BSt :=
  match r with
  | .ok (f, stack) => .ok { s with f := f, stack := stack, pend := pend }
  | .err e => .err e
  | .panic m => .panic m
  | .fuelOut => .fuelOut

def refStepB (tbl : Table) (s : BSt) (pos : Nat) (t : PToken) (rest : List PToken) : Outcome BSt :=
  let (d, sd) := tbl.define t.type
  match sd with
  | .startSideEffect =>
    if s.pend.isSome then .err .unsupported
    else
      let opened (m : BMode) : Outcome BSt :=
        .ok { f := blockFrame pos, stack := s.f :: s.stack, modes := m :: s.modes, pend := none }
      match s.f.last with
      | .operand =>
        if bottomKind s.f.cur == 1 then opened .valueRight
        else if bottomKind s.f.cur == 2 then opened .groupSplice
        else .err .unsupported
      | .op | .optOp | .sep => opened (.pending false)
      | .start => opened (.pending s.f.ctx.isNone)
      | .suffix => .err .unsupported
  | .endSideEffect =>
    match s.f.ctx, s.stack, s.modes with
    | some (.sideEffect, gp), parent :: stack, m :: modes =>
      -- a pending block directly before `]` (the parser: syntax error, or the block is dropped): not mirrored
      if s.pend.isSome then .err .unsupported
      else if s.f.last == .op || s.f.last == .sep then .err .syntax
      else
        let se : RTree := .group .sideEffect gp s.f.cur
        match m with
        | .valueRight =>
          .ok { f := { parent with cur := setBottomRight parent.cur se, last := .operand, ws := false, prevSep := false },
                stack := stack, modes := modes, pend := none }
        | .groupSplice =>
          .ok { f := { parent with cur := spliceGroup parent.cur gp s.f.cur, last := .operand, ws := false, prevSep := false },
                stack := stack, modes := modes, pend := some (.nil, .nil, false) }
        | .pending soft =>
          .ok { f := { parent with cur := plug parent.cur se, last := if soft then .operand else parent.last, ws := false,
                                   prevSep := false },
                stack := stack, modes := modes, pend := some (parent.cur, se, soft) }
    | _, _, _ => .err .syntax
  | _ =>
    match s.pend with
    | none => liftStep s none (refStep tbl s.f s.stack pos t rest)
    | some (c, se, soft) =>
      match sd with
      | .annotation | .whitespace => liftStep s s.pend (refStep tbl s.f s.stack pos t rest)
      | .value | .identifier =>
        if d == .drop || d == .expressionTerminator then .err .unsupported
        else if se.isNil then .err .unsupported    -- after a block spliced into a group
        else if soft && s.f.ws then liftStep s none (refStep tbl s.f s.stack pos t rest)
        else
          let d' := if bottomIsAccess c && d == .identifier then .property else d
          .ok { s with f := { s.f with cur := plug c (.node se d' pos .nil), last := .operand, ws := false, prevSep := false },
                       pend := none }
      | .endGrouping =>
        -- the parser: after an operator a syntax error; directly after the opener the block is dropped (not mirrored)
        if c.isNil && !se.isNil then .err .unsupported else .err .syntax
      | .binaryLeftToRight | .binaryRightToLeft | .unarySuffix | .optionalBinaryLeftToRight | .subexpression =>
        if soft then liftStep s none (refStep tbl s.f s.stack pos t rest) else .err .syntax
      | _ => .err .unsupported

def refLoopB (tbl : Table) : BSt → Nat → List PToken → Outcome RTree
  | s, _, [] =>
    if !s.stack.isEmpty then .err .syntax
    else if s.pend.isNone && (s.f.last == .op || s.f.last == .sep) then .err .syntax
    else .ok (unB s.f.cur)
  | s, pos, t :: rest => Outcome.bind (refStepB tbl s pos t rest) fun s' => refLoopB tbl s' (pos + 1) rest

def BSt.top : BSt := { f := Frame.top, stack := [], modes := [], pend := none }

/-- reference parse with side-effect blocks (same trimming as `refParse`) -/
def refParseB (tbl : Table) (toks : List PToken) : Outcome RTree :=
  let start := trimStart toks
  let stop := toks.length - trimStart toks.reverse
  if start ≥ stop then .ok .nil
  else refLoopB tbl BSt.top start ((toks.drop start).take (stop - start))

end Garnish.Spec
