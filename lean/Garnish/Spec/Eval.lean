/-
L0 reference evaluator for the core language (property C01): a big-step interpreter over an AST,
independent of lexer, parser, builder and instruction stream. Operators use the value-level
semantics of Abs/Ops.lean (themselves related to exact specifications by C09/C11/C12).
`evalF` threads the current input value `$` (changed by `;`) and the host-call trace.
-/
import Garnish.Abs.Machine
namespace Garnish.Spec
open Garnish Gen Garnish.Abs

inductive Expr (F : Type) where
  | lit (v : Val F)
  | input                                   -- `$`
  | ident (sym : Nat)                       -- identifier, looked up in `$`, then offered to the host
  | unary (op : Instruction) (e : Expr F)
  | binary (op : Instruction) (l r : Expr F)   -- left operand evaluated first
  | pair (l r : Expr F)                     -- `l = r`: right operand evaluated first
  | applyTo (x f : Expr F)                  -- `x ~> f`: `f` evaluated first
  | list (items : List (Expr F))
  | cond (onTrue : Bool) (c t : Expr F)     -- `c ?> t` / `c !> t` outside an else-chain
  | chain (arms : List (Bool × Expr F × Expr F)) (final : Option (Expr F))
  | and (l r : Expr F)
  | or (l r : Expr F)
  | seq (a b : Expr F)                      -- `a ; b`, `a` blank-line `b`
  | sideAfter (e body : Expr F)             -- `e [body]`
  | nested (id : Nat)                       -- `{ body }`: an expression value naming body `id`
  | emptyNested                             -- `{ }`
  | reapply (e : Expr F)                    -- `^~ e`
  | prefixApply (sym : Nat) (x : Expr F)    -- name` x
  | suffixApply (x : Expr F) (sym : Nat)    -- x `name
  | infixApply (a : Expr F) (sym : Nat) (b : Expr F)

structure Program (F : Type) where
  main : Expr F
  bodies : List (Nat × Expr F)      -- bodies of nested expressions by id

inductive Res (F : Type) where
  | val (v : Val F)
  | restart (v : Val F)             -- `^~`: restart the enclosing body with `$ := v`

structure St (F : Type) where
  inp : Val F
  trace : List (HostCall F)         -- newest first

inductive Out (α : Type) where
  | ok (a : α)
  | err (e : ErrClass)
  | fuelOut

variable {F : Type} (fo : FloatOps F) (host : Host F)

def lookupBody (bodies : List (Nat × Expr F)) (id : Nat) : Option (Expr F) :=
  match bodies with
  | [] => none
  | (k, b) :: rest => if k == id then some b else lookupBody rest id

/-- outcome of an operation on values: offered to the host when undefined -/
def settle (st : St F) (o : OpOut F) : Out (Val F × St F) :=
  match o with
  | .val v => .ok (v, st)
  | .defer op l r =>
    let st' := { st with trace := HostCall.defer op l r :: st.trace }
    match host.defer op l r with
    | some v => .ok (v, st')
    | none => .ok (.unit, st')
  | .err e => .err e

/-- identifier: the current input value first, then the host exactly once, then unit -/
def resolveVal (st : St F) (sym : Nat) : Out (Val F × St F) :=
  let found : Out (Option (Val F)) := match getAccess fo (.sym sym) st.inp with
    | .some v => .ok (some v)
    | .none => .ok none
    | .unsupported => .ok none
    | .err .unsupported => .ok none
    | .err e => .err e
  match found with
  | .err e => .err e
  | .fuelOut => .fuelOut
  | .ok (some v) => .ok (v, st)
  | .ok none =>
    let st' := { st with trace := HostCall.resolve sym :: st.trace }
    match host.resolve sym with
    | some v => .ok (v, st')
    | none => .ok (.unit, st')

mutual
/-- evaluate one expression -/
def evalF (bodies : List (Nat × Expr F)) (cur : Nat) : Nat → Expr F → St F → Out (Res F × St F)
  | 0, _, _ => .fuelOut
  | fuel + 1, e, st =>
    match e with
    | .lit v => .ok (.val v, st)
    | .input => .ok (.val st.inp, st)
    | .ident sym => match resolveVal fo host st sym with
      | .ok (v, st') => .ok (.val v, st')
      | .err e => .err e
      | .fuelOut => .fuelOut
    | .unary op x =>
      match evalF bodies cur fuel x st with
      | .ok (.val v, st1) =>
        if op == .emptyApply then applyVals bodies cur fuel .emptyApply false v .unit st1
        else match unaryOp fo op v with
          | some o => match settle host st1 o with
            | .ok (r, st2) => .ok (.val r, st2)
            | .err e => .err e
            | .fuelOut => .fuelOut
          | none => .err .implementation
      | other => other
    | .binary op l r =>
      match evalF bodies cur fuel l st with
      | .ok (.val vl, st1) =>
        match evalF bodies cur fuel r st1 with
        | .ok (.val vr, st2) =>
          if op == .apply then applyVals bodies cur fuel .apply true vl vr st2
          else match binaryOp fo op vl vr with
            | some o => match settle host st2 o with
              | .ok (v, st3) => .ok (.val v, st3)
              | .err e => .err e
              | .fuelOut => .fuelOut
            | none => .err .implementation
        | other => other
      | other => other
    | .pair l r =>
      match evalF bodies cur fuel r st with
      | .ok (.val vr, st1) =>
        match evalF bodies cur fuel l st1 with
        | .ok (.val vl, st2) => .ok (.val (.pair vl vr), st2)
        | other => other
      | other => other
    | .applyTo x f =>
      match evalF bodies cur fuel f st with
      | .ok (.val vf, st1) =>
        match evalF bodies cur fuel x st1 with
        | .ok (.val vx, st2) => applyVals bodies cur fuel .apply true vf vx st2
        | other => other
      | other => other
    | .list items =>
      match evalList bodies cur fuel items st [] with
      | .ok (.inl vs, st1) => .ok (.val (.list vs), st1)
      | .ok (.inr v, st1) => .ok (.restart v, st1)
      | .err e => .err e
      | .fuelOut => .fuelOut
    | .cond onTrue c t =>
      match evalF bodies cur fuel c st with
      | .ok (.val vc, st1) =>
        if vc.truthy == onTrue then evalF bodies cur fuel t st1
        else .ok (.val st1.inp, st1)         -- the test failed: the value is the current `$`
      | other => other
    | .chain arms final => evalChain bodies cur fuel arms final st
    | .and l r =>
      match evalF bodies cur fuel l st with
      | .ok (.val vl, st1) =>
        if vl.truthy then
          match evalF bodies cur fuel r st1 with
          | .ok (.val vr, st2) => .ok (.val (Val.ofBool vr.truthy), st2)
          | other => other
        else .ok (.val .fls, st1)
      | other => other
    | .or l r =>
      match evalF bodies cur fuel l st with
      | .ok (.val vl, st1) =>
        if vl.truthy then .ok (.val .tru, st1)
        else match evalF bodies cur fuel r st1 with
          | .ok (.val vr, st2) => .ok (.val (Val.ofBool vr.truthy), st2)
          | other => other
      | other => other
    | .seq a b =>
      match evalF bodies cur fuel a st with
      | .ok (.val va, st1) => evalF bodies cur fuel b { st1 with inp := va }
      | other => other
    | .sideAfter x body =>
      match evalF bodies cur fuel x st with
      | .ok (.val vx, st1) =>
        -- the block sees the current `$`; whatever it does to `$` and its value are discarded
        match evalF bodies cur fuel body st1 with
        | .ok (.val _, st2) => .ok (.val vx, { st2 with inp := st1.inp })
        | other => other
      | other => other
    | .nested id => .ok (.val (.expr id), st)
    | .emptyNested => .ok (.val (.expr cur), st)
    | .reapply x =>
      match evalF bodies cur fuel x st with
      | .ok (.val v, st1) => .ok (.restart v, st1)
      | other => other
    | .prefixApply sym x =>
      match resolveVal fo host st sym with
      | .ok (vf, st1) =>
        match evalF bodies cur fuel x st1 with
        | .ok (.val vx, st2) => applyVals bodies cur fuel .apply true vf vx st2
        | other => other
      | .err e => .err e
      | .fuelOut => .fuelOut
    | .suffixApply x sym =>
      match resolveVal fo host st sym with
      | .ok (vf, st1) =>
        match evalF bodies cur fuel x st1 with
        | .ok (.val vx, st2) => applyVals bodies cur fuel .apply true vf vx st2
        | other => other
      | .err e => .err e
      | .fuelOut => .fuelOut
    | .infixApply a sym b =>
      match resolveVal fo host st sym with
      | .ok (vf, st1) =>
        match evalF bodies cur fuel a st1 with
        | .ok (.val va, st2) =>
          match evalF bodies cur fuel b st2 with
          | .ok (.val vb, st3) => applyVals bodies cur fuel .apply true vf (.list [va, vb]) st3
          | other => other
        | other => other
      | .err e => .err e
      | .fuelOut => .fuelOut

/-- list items left to right; a restart inside an item restarts the enclosing body -/
def evalList (bodies : List (Nat × Expr F)) (cur : Nat) : Nat → List (Expr F) → St F → List (Val F) →
    Out ((List (Val F) ⊕ Val F) × St F)
  | 0, _, _, _ => .fuelOut
  | _ + 1, [], st, acc => .ok (.inl acc.reverse, st)
  | fuel + 1, x :: xs, st, acc =>
    match evalF bodies cur fuel x st with
    | .ok (.val v, st1) => evalList bodies cur fuel xs st1 (v :: acc)
    | .ok (.restart v, st1) => .ok (.inr v, st1)
    | .err e => .err e
    | .fuelOut => .fuelOut

/-- else-chain: conditions in order, at most one arm; no arm and no final expression: the current `$` -/
def evalChain (bodies : List (Nat × Expr F)) (cur : Nat) : Nat → List (Bool × Expr F × Expr F) → Option (Expr F) → St F →
    Out (Res F × St F)
  | 0, _, _, _ => .fuelOut
  | fuel + 1, [], final, st =>
    match final with
    | some e => evalF bodies cur fuel e st
    | none => .ok (.val st.inp, st)
  | fuel + 1, (onTrue, c, t) :: rest, final, st =>
    match evalF bodies cur fuel c st with
    | .ok (.val vc, st1) =>
      if vc.truthy == onTrue then evalF bodies cur fuel t st1
      else evalChain bodies cur fuel rest final st1
    | other => other

/-- apply `f` to `x`: an expression value runs its body in a new frame with `$ := x` -/
def applyVals (bodies : List (Nat × Expr F)) (cur : Nat) : Nat → Instruction → Bool → Val F → Val F → St F →
    Out (Res F × St F)
  | 0, _, _, _, _, _ => .fuelOut
  | fuel + 1, instr, useRight, f, x, st =>
    match applyKind fo instr useRight f x with
    | .enter j input =>
      match lookupBody bodies j with
      | none => .err .state
      | some body =>
        match evalBody bodies j fuel body { st with inp := input } with
        | .ok (v, st1) => .ok (.val v, { st1 with inp := st.inp })
        | .err e => .err e
        | .fuelOut => .fuelOut
    | .external n arg =>
      let st' := { st with trace := HostCall.apply n arg :: st.trace }
      match host.apply n arg with
      | some v => .ok (.val v, st')
      | none => .ok (.val .unit, st')
    | .out o => match settle host st o with
      | .ok (v, st1) => .ok (.val v, st1)
      | .err e => .err e
      | .fuelOut => .fuelOut

/-- run a body to its value, restarting it on `^~` (no new frame, no growth) -/
def evalBody (bodies : List (Nat × Expr F)) (cur : Nat) : Nat → Expr F → St F → Out (Val F × St F)
  | 0, _, _ => .fuelOut
  | fuel + 1, body, st =>
    match evalF bodies cur fuel body st with
    | .ok (.val v, st1) => .ok (v, st1)
    | .ok (.restart v, st1) => evalBody bodies cur fuel body { st1 with inp := v }
    | .err e => .err e
    | .fuelOut => .fuelOut
end

/-- whole program on an initial input value; id of the top-level body is `0` by convention -/
def evalProgram (fuel : Nat) (p : Program F) (input : Val F) : Out (Val F × St F) :=
  evalBody fo host p.bodies 0 fuel p.main { inp := input, trace := [] }

end Garnish.Spec
