/-
L0 specification of number arithmetic (property C09): the mathematically exact result when it is
representable in i32, none (the runtime turns it into unit) otherwise.
-/
import Garnish.Model.Number
namespace Garnish.Spec

def exact (x : Int) : Option Int := if InRange x then some x else none

def add (a b : Int) := exact (a + b)
def sub (a b : Int) := exact (a - b)
def mul (a b : Int) := exact (a * b)
/-- `/` and `//` on integers truncate toward zero; division by zero and MIN / -1 have no result -/
def div (a b : Int) : Option Int := if b = 0 then none else exact (Int.tdiv a b)
/-- remainder has the sign of the dividend; none on zero and where the quotient overflows (MIN % -1) -/
def rem (a b : Int) : Option Int :=
  if b = 0 then none else if InRange (Int.tdiv a b) then some (Int.tmod a b) else none
def pow (a b : Int) : Option Int := if b < 0 then none else exact (a ^ b.toNat)
def neg (a : Int) := exact (-a)
def abs (a : Int) := exact (a.natAbs : Int)
def inc (a : Int) := exact (a + 1)
def dec (a : Int) := exact (a - 1)
/-- `<<`: the 32-bit shift (bits shifted out are dropped) for counts 0..31, none otherwise -/
def shl (a b : Int) : Option Int := if 0 ≤ b ∧ b ≤ 31 then some (wrap (a * 2 ^ b.toNat)) else none
/-- `>>`: arithmetic shift = floor division by 2^k for counts 0..31, none otherwise -/
def shr (a b : Int) : Option Int := if 0 ≤ b ∧ b ≤ 31 then some (Int.fdiv a (2 ^ b.toNat)) else none

/-- bit `i` of the 32-bit two's complement representation -/
def bit (a : Int) (i : Nat) : Bool := (BitVec.ofInt 32 a).getLsbD i

end Garnish.Spec
