/-
Proper binary trees over a parser node array (property C04): declarative definition, executable checker,
in-order walk, and the `significant` tokens that an accepted program's tree has to cover.

The checker is about ARBITRARY `ParseResult`s (it is fed the node dump of the real implementation by the
TREECHK suite of the driver); nothing here depends on how `parse` works.

Token positions: a node's token position is `node.lexToken.col` — the harness (`!tokidx` mode of the PARSE suite)
creates token k of the case with row = 0, column = k, so the column identifies the token a node was created from
(the synthesized `List` node carries the position of the whitespace token it was cloned from).
-/
import Garnish.Model.Parser

namespace Garnish.Spec
open Garnish Garnish.Gen Garnish.Model.Parser

/-- binary tree of node indices; every node also carries the position of its token in the token list.
    (`nil` = absent child; definition and token of a node are `r.nodes[idx]`) -/
inductive Tree where
  | nil
  | node (left : Tree) (idx : Nat) (tok : Nat) (right : Tree)
deriving Repr, DecidableEq, Inhabited

namespace Tree
/-- in-order walk: left subtree, node, right subtree (array indices) -/
def inorder : Tree → List Nat
  | nil => []
  | node l i _ r => l.inorder ++ i :: r.inorder

/-- token positions in in-order -/
def inorderToks : Tree → List Nat
  | nil => []
  | node l _ k r => l.inorderToks ++ k :: r.inorderToks

def depth : Tree → Nat
  | nil => 0
  | node l _ _ r => max l.depth r.depth + 1

def size : Tree → Nat
  | nil => 0
  | node l _ _ r => l.size + r.size + 1
end Tree

/-- token position of a node (see the header) -/
def tokPos (n : ParseNode) : Nat := n.lexToken.col

/-- `IsTreeAt nodes p link t`: following `link` (a `left`/`right`/root link whose owner is `p`) in `nodes` yields the
    tree `t`: the link is in range, the target's `parent` is `p`, and recursively so for its `left` and `right`. -/
inductive IsTreeAt (nodes : Array ParseNode) : Option Nat → Option Nat → Tree → Prop
  | nil (p : Option Nat) : IsTreeAt nodes p none .nil
  | node (p : Option Nat) (i : Nat) (n : ParseNode) (l r : Tree) :
      nodes[i]? = some n → n.parent = p →
      IsTreeAt nodes (some i) n.left l → IsTreeAt nodes (some i) n.right r →
      IsTreeAt nodes p (some i) (.node l i (tokPos n) r)

/-- the link to the root: an empty node array (empty program) has no root -/
def rootLink (r : ParseResult) : Option Nat := if r.nodes.isEmpty then none else some r.root

/-- **Proper tree**: the structure reachable from the root through `left`/`right` is a binary tree — all links in range,
    child and parent links agree (the root has no parent), and no array index occurs twice (no sharing, no cycle). -/
def ProperTree (r : ParseResult) : Prop :=
  ∃ t, IsTreeAt r.nodes none (rootLink r) t ∧ t.inorder.Nodup

/-- reachability from the root through `left`/`right` links -/
inductive Reachable (r : ParseResult) : Nat → Prop
  | root (i : Nat) : rootLink r = some i → Reachable r i
  | left (j i : Nat) (n : ParseNode) : Reachable r j → r.nodes[j]? = some n → n.left = some i → Reachable r i
  | right (j i : Nat) (n : ParseNode) : Reachable r j → r.nodes[j]? = some n → n.right = some i → Reachable r i

/-! ### executable checker -/

/-- depth-first construction with a visited list; `fuel` bounds the depth (a proper tree over `n` nodes has depth ≤ `n`).
    Returns the tree and the extended visited list, `none` as soon as anything is improper. -/
def buildTree (nodes : Array ParseNode) : (fuel : Nat) → (parent : Option Nat) → (link : Option Nat) → (visited : List Nat) →
    Option (Tree × List Nat)
  | _, _, none, visited => some (.nil, visited)
  | 0, _, some _, _ => none
  | fuel + 1, parent, some i, visited =>
    match nodes[i]? with
    | none => none
    | some n =>
      if n.parent != parent then none
      else if visited.contains i then none
      else
        match buildTree nodes fuel (some i) n.left (i :: visited) with
        | none => none
        | some (l, visited) =>
          match buildTree nodes fuel (some i) n.right visited with
          | none => none
          | some (r, visited) => some (.node l i (tokPos n) r, visited)

/-- the tree of a parse result, `none` when the result is not a proper tree -/
def toTree (r : ParseResult) : Option Tree :=
  match buildTree r.nodes r.nodes.size none (rootLink r) [] with
  | none => none
  | some (t, _) => some t

def properTree (r : ParseResult) : Bool := (toTree r).isSome

/-- strictly increasing (executable) -/
def strictlyIncreasing : List Nat → Bool
  | [] => true
  | [_] => true
  | a :: b :: rest => decide (a < b) && strictlyIncreasing (b :: rest)

/-- the in-order walk visits the tokens in source order -/
def inorderSorted (t : Tree) : Bool := strictlyIncreasing t.inorderToks

/-! ### significant tokens

`significant toks` = positions (in `toks`) of the tokens that the tree of an accepted program has to contain,
as a function of the token list alone.  Derived from what `parse` does:

* never a node: `Whitespace`, `Annotation`, `LineAnnotation` tokens ("fillers"; a `Whitespace` token may be *cloned*
  into a synthesized `List` node, which is not a token of the program), and the closers `)` `}` `]`
  (a bracket pair is represented by the node of its opener);
* `trim_tokens` removes the maximal prefix and suffix of `Whitespace` / `Subexpression` tokens;
* a separator (`Subexpression` = blank line, or `ExpressionSeparator` = `;`) is redundant, and creates no node or a node
  that is unlinked again, when
    - the innermost open bracket is a group `(` (blank lines inside groups are treated as whitespace), or
    - the previous non-filler token is a separator, or the `{` that opened the innermost bracket
      ("only one in a row", nothing to separate yet), or
    - it is a blank line and the next token that is neither filler nor separator is a closer
      (trailing blank line before `}`: the node is created and unlinked by the end-grouping code; a trailing `;`
      is NOT handled by the parser: it stays significant and its node keeps a dangling `right` link);
* every other token is significant.
-/

inductive Bracket where
  | group | expr | side
deriving DecidableEq, Repr

/-- what the previous non-filler token was (only what the separator rule needs) -/
inductive PrevTok where
  | start | sep | openExpr | other
deriving DecidableEq, Repr

def isFiller (t : TokenType) : Bool := t == .whitespace || t == .annotation || t == .lineAnnotation
def isSeparator (t : TokenType) : Bool := t == .subexpression || t == .expressionSeparator
def isCloser (t : TokenType) : Bool := t == .endGroup || t == .endExpression || t == .endSideEffect
def openerOf (t : TokenType) : Option Bracket :=
  match t with
  | .startGroup => some .group
  | .startExpression => some .expr
  | .startSideEffect => some .side
  | _ => none

/-- the next token that is neither filler nor separator is a closer -/
def closerFollows : List PToken → Bool
  | [] => false
  | t :: rest => if isFiller t.type || isSeparator t.type then closerFollows rest else isCloser t.type

/-- scan of the trimmed tokens; `pos` = position of the head token in the original list -/
def significantScan : List PToken → (pos : Nat) → (stack : List Bracket) → (prev : PrevTok) → List Nat
  | [], _, _, _ => []
  | t :: rest, pos, stack, prev =>
    if isFiller t.type then significantScan rest (pos + 1) stack prev
    else if isCloser t.type then significantScan rest (pos + 1) stack.tail .other
    else match openerOf t.type with
      | some b => pos :: significantScan rest (pos + 1) (b :: stack) (if b == .expr then .openExpr else .other)
      | none =>
        if isSeparator t.type then
          if stack.head? == some .group then significantScan rest (pos + 1) stack prev
          else if prev == .sep || prev == .openExpr || (t.type == .subexpression && closerFollows rest) then
            significantScan rest (pos + 1) stack .sep
          else pos :: significantScan rest (pos + 1) stack .sep
        else pos :: significantScan rest (pos + 1) stack .other

def significant (toks : List PToken) : List Nat :=
  let start := trimStart toks
  let stop := toks.length - trimStart toks.reverse
  if start ≥ stop then []
  else significantScan ((toks.drop start).take (stop - start)) start [] .start

/-- coverage check used by TREECHK: token positions of the tree's nodes (synthesized `List` nodes excluded),
    compared with the significant positions. Returns (missing, extra). -/
def coverage (r : ParseResult) (idxs : List Nat) (sig : List Nat) : List Nat × List Nat :=
  let toks := idxs.filterMap (fun i =>
    match r.nodes[i]? with
    | some n => if n.definition == .list then none else some (tokPos n)
    | none => none)
  (sig.filter (fun k => !toks.contains k), toks.filter (fun k => !sig.contains k))

end Garnish.Spec
