/-
Abstract specification of BasicGarnishData's storage (C15): six independent tables.
Tables 0, 1, 4, 5 (instructions, jump table, data, custom) are append-only arrays: `push` returns the old length and
`get` of an index never changes afterwards. Tables 2, 3 (symbol table, expression symbols) are kept sorted by symbol:
`push` appends and re-sorts stably (`sortStable (t ++ [c])`; on a sorted table that is the insertion of `c` after every
entry that is not greater). What C15 needs of them is that an entry, once added, stays in the table.
-/
import Garnish.Store.BasicHeap
namespace Garnish.Spec
open Garnish.Store

abbrev Tables := List (List Cell)

def Tables.init : Tables := List.replicate 6 []

def Tables.pushTable (k : Nat) (c : Cell) (t : List Cell) : List Cell :=
  if sortedTable k then sortStable (t ++ [c]) else t ++ [c]

def Tables.push (T : Tables) (k : Nat) (c : Cell) : Tables := T.modify k (Tables.pushTable k c)

def Tables.get (T : Tables) (k i : Nat) : Option Cell := (T[k]?).bind (·[i]?)

def Tables.step (T : Tables) (op : Op) : Tables := T.push op.which op.cell

def Tables.run : List Op → Tables → Tables
  | [], T => T
  | op :: ops, T => Tables.run ops (T.step op)

end Garnish.Spec
