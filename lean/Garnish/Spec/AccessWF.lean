/-
Well-formedness of the data block of `BasicGarnishData` as far as the accessors of Model/Access.lean depend on
it (property C07): what `push_to_data_block`, `add_string` / `add_byte_slice` / `parse_add_*`,
`merge_to_symbol_list`, `start_list … end_list` and `add_concatenation` establish.  Decidable, so that a concrete
heap (e.g. a dump of the implementation) can be checked by evaluation.
-/
import Garnish.Model.Access
import Garnish.Model.AccessSimple
namespace Garnish.Access
open Garnish
open Garnish.BasicOpt (Cell)

/-- `n` heap cells from the block-relative address `a` -/
def Heap.cellsAt (h : Heap) (a n : Nat) : List Cell :=
  h.heap.toList.extract (h.dstart + a) (h.dstart + a + n)

def isOk {α : Type} : Outcome α → Bool
  | .ok _ => true
  | _ => false

/-- the header cell at data address `i` describes cells that exist and have the announced variant:
a text / byte / symbol list of `n` is followed by `n` chars / bytes / parts below the cursor; a list `(n, k)` by `n`
`ListItem`s and `k` association slots below the cursor; a concatenation refers to earlier cells -/
def cellOK (h : Heap) (i : Nat) : Cell → Bool
  | .charList n => decide (i + n < h.cursor) && isOk (unwrapChars (h.cellsAt (i + 1) n))
  | .byteList n => decide (i + n < h.cursor) && isOk (unwrapBytes (h.cellsAt (i + 1) n))
  | .symbolList n => decide (i + n < h.cursor) && isOk (collectParts (h.cellsAt (i + 1) n))
  | .list n k => decide (i + n + k < h.cursor) && isOk (collectItems (h.cellsAt (i + 1) n))
  | .concatenation l r => decide (l < i) && decide (r < i)
  | _ => true

/-- `cellOK` of the cell stored at data address `i` -/
def cellOKAt (h : Heap) (i : Nat) : Bool :=
  match h.heap[h.dstart + i]? with
  | some c => cellOK h i c
  | none => true

/-- the data block lies inside the allocation, the allocation is a `Vec` (at most `usize::MAX` cells), and every
cell below the cursor is `cellOK` -/
def Heap.WF (h : Heap) : Prop :=
  h.dstart + h.cursor ≤ h.heap.size ∧ h.heap.size ≤ USIZE_MAX ∧
  ∀ i, i < h.cursor → cellOKAt h i = true

instance (h : Heap) : Decidable h.WF := by
  unfold Heap.WF
  exact inferInstance

/-- `SimpleGarnishData`: the integers stored in number cells are `i32` values (nothing else is needed: every other
access goes through `Vec::get`) -/
def Simple.cellOK : Simple.SCell → Bool
  | .int v => decide (InRange v)
  | _ => true

def Simple.WF (d : Simple.SData) : Prop := ∀ c, c ∈ d.toList → Simple.cellOK c = true

instance (d : Simple.SData) : Decidable (Simple.WF d) := by unfold Simple.WF; exact inferInstance

/-- every list of the data object is shorter than `2^31`, so that `size_to_number` (`usize as i32`) is exact on its indexes -/
def Simple.shortCell : Simple.SCell → Bool
  | .list items => decide (items.length ≤ 2147483647)
  | _ => true

def Simple.ShortLists (d : Simple.SData) : Prop := ∀ c, c ∈ d.toList → Simple.shortCell c = true

instance (d : Simple.SData) : Decidable (Simple.ShortLists d) := by unfold Simple.ShortLists; exact inferInstance

end Garnish.Access
