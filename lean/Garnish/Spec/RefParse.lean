/-
Reference parser for property C02: the tree the operator table dictates.

`refParse tbl toks` is a small operator-precedence parser that knows nothing about the implementation's bookkeeping
(`next_parent`, `last_left`, `check_for_list`, group stack, node ids): it is one left-to-right pass that keeps, per open
bracket, the tree built so far and inserts each operator at the place the table dictates:

  an operator `o` that follows a complete operand walks UP the right spine of the tree built so far, from the bottom, and
  stops below the first node `a` with  `prio o < prio a  ∨  (prio o = prio a ∧ o groups right-to-left)`  (lower number =
  binds tighter); what it walked over becomes its left operand.  If it never stops it becomes the new root of the bracket.

Consequences (all observed on the real parser as well):
* tighter operators nest below looser ones, equal priority groups left-to-right, `=` (Pair) right-to-left;
* a prefix operator sits in operand position (it never moves), its operand extends over all following operators that
  bind strictly tighter than the prefix operator itself: `-- 2 ** 2 = (-- 2) ** 2` (80 ≥ 75), `!! 1 == 2 = (!! 1) == 2`
  (400 ≥ 400, left-to-right), and since the walk starts at the bottom `1 * !! 2 + 3 = 1 * (!! (2 + 3))` (100 < 400);
* a suffix operator is a binary operator without right operand;
* the implicit space list is the binary operator `List` (token = the token just before its right operand) between a complete
  operand (value or closed bracket) and the start of the next operand when whitespace lies in between;
* `,` (CommaList) and infix identifiers are binary operators whose operands may be missing (leading comma; trailing comma
  before a closer, a separator or the end);
* blank lines / `;` are binary operators (priority 1000 / 990) outside of groups, whitespace inside `( )`;
  redundant ones (see `Spec.significant`) are dropped;
* a closed bracket is an opaque operand (`group` node: left absent, right = content).
Side effects `[ ]`, the expression terminator `;;` and Unknown tokens are outside of the reference grammar (`err .unsupported`).

The table is a parameter (`Table`); `Table.gen` is the table regenerated from parser.rs.
-/
import Garnish.Spec.Tree
import Garnish.Spec.ParseTable

namespace Garnish.Spec
open Garnish Garnish.Gen Garnish.Model.Parser

/-- the language table the reference parser is parameterised by -/
structure Table where
  /-- token type → node definition and syntactic class -/
  define : TokenType → Definition × SecDef
  /-- binding priority, lower = tighter -/
  prio : Definition → Option Nat

/-- the table regenerated from parser.rs (`get_definition`, `make_priority_map`) -/
def Table.gen : Table := { define := getDefinition, prio := priority }

/-- the language`s table (committed copy, Spec/ParseTable.lean): what the oracle uses -/
def Table.spec : Table := { define := Spec.Lang.getDefinition, prio := Spec.Lang.priority }

/-- reference tree: `node` = value / operator (children may be absent), `group` = closed bracket (opaque operand) -/
inductive RTree where
  | nil
  | node (l : RTree) (d : Definition) (tok : Nat) (r : RTree)
  | group (d : Definition) (tok : Nat) (inner : RTree)
deriving Repr, DecidableEq, Inhabited

namespace RTree
/-- token positions in in-order (a bracket node precedes its content) -/
def inorderToks : RTree → List Nat
  | nil => []
  | node l _ k r => l.inorderToks ++ k :: r.inorderToks
  | group _ k inner => k :: inner.inorderToks

def isNil : RTree → Bool
  | nil => true
  | _ => false

/-- token positions of the nodes that stand for a token (the synthesized `List` nodes left out), in in-order -/
def inorderSig : RTree → List Nat
  | nil => []
  | node l d k r => l.inorderSig ++ (if d == .list then [] else [k]) ++ r.inorderSig
  | group _ k inner => k :: inner.inorderSig

/-- s-expression `(Def tok left right)`, `-` for an absent child -/
def render : RTree → String
  | nil => "-"
  | node l d k r => "(" ++ d.name ++ " " ++ toString k ++ " " ++ l.render ++ " " ++ r.render ++ ")"
  | group d k inner => "(" ++ d.name ++ " " ++ toString k ++ " - " ++ inner.render ++ ")"
end RTree

/-- the walk stops below a node of priority `pa` -/
def stops (q : Nat) (rtl : Bool) (pa : Nat) : Bool := decide (q < pa) || (q == pa && rtl)

/-- priority of the top node of a tree (what the walk compares with) -/
def topPrio (tbl : Table) : RTree → Option Nat
  | .nil => none
  | .node _ d _ _ => tbl.prio d
  | .group d _ _ => tbl.prio d

/-- insert operator `(d, k)` of priority `q` into `t`, walking up the right spine from the bottom;
    `none` = the walk passed the whole of `t` -/
def absorb (tbl : Table) (q : Nat) (rtl : Bool) (d : Definition) (k : Nat) : RTree → Option RTree
  | .nil => none
  | .group _ _ _ => none
  | .node l a ka r =>
    match absorb tbl q rtl d k r with
    | some r' => some (.node l a ka r')
    | none =>
      match tbl.prio a with
      | some pa => if stops q rtl pa then some (.node l a ka (.node r d k .nil)) else none
      | none => none

/-- operator `(d, k)` arrives after the tree `t` -/
def attach (tbl : Table) (q : Nat) (rtl : Bool) (d : Definition) (k : Nat) (t : RTree) : RTree :=
  match absorb tbl q rtl d k t with
  | some t' => t'
  | none => .node t d k .nil

/-- an Identifier that is the direct right operand of `.` is a Property -/
def asProperty : RTree → RTree
  | .node .nil .identifier k .nil => .node .nil .property k .nil
  | t => t

/-- put operand `x` into the open operand position at the bottom of the right spine -/
def plug : RTree → RTree → RTree
  | .nil, x => x
  | .group d k inner, _ => .group d k inner
  | .node l d k r, x =>
    if r.isNil then .node l d k (if d == .access then asProperty x else x)
    else .node l d k (plug r x)

/-- what the last item of the current bracket was -/
inductive Last where
  | start      -- nothing yet
  | operand    -- value or closed bracket
  | suffix     -- suffix operator
  | op         -- binary / prefix operator: operand required
  | optOp      -- `,` / infix identifier: operand optional
  | sep        -- separator: operand required
deriving DecidableEq, Repr

structure Frame where
  /-- bracket that opened this frame: definition and token position (`none` = top level) -/
  ctx : Option (Definition × Nat)
  cur : RTree
  last : Last
  /-- whitespace (or a separator inside a group) seen since the last item -/
  ws : Bool
  /-- the previous non-filler token of this bracket was a separator (kept or dropped) or the `{` that opened it:
      a separator that follows is redundant -/
  prevSep : Bool
deriving Repr

def Frame.top : Frame := { ctx := none, cur := .nil, last := .start, ws := false, prevSep := false }

def Frame.inGroup (f : Frame) : Bool :=
  match f.ctx with
  | some (.group, _) => true
  | _ => false

def closerFor : Definition → Option TokenType
  | .group => some .endGroup
  | .nestedExpression => some .endExpression
  | _ => none

/-- an operand starts at position `pos`: insert the implicit `List` operator if a complete operand and whitespace precede -/
def beforeOperand (tbl : Table) (f : Frame) (pos : Nat) : Outcome Frame :=
  match f.last with
  | .start | .op | .optOp | .sep => .ok f
  | .suffix => .err .unsupported
  | .operand =>
    if f.ws then
      match tbl.prio .list with
      | some q => .ok { f with cur := attach tbl q false .list (pos - 1) f.cur, last := .op, ws := false }
      | none => .err .implementation
    else .err .syntax

/-- one token -/
def refStep (tbl : Table) (f : Frame) (stack : List Frame) (pos : Nat) (t : PToken) (rest : List PToken) :
    Outcome (Frame × List Frame) :=
  let (d, s) := tbl.define t.type
  match s with
  | .none => .err .implementation
  | .annotation => .ok (f, stack)
  | .whitespace => .ok ({ f with ws := true }, stack)
  | .value | .identifier =>
    if d == .drop || d == .expressionTerminator then .err .unsupported
    else
      Outcome.bind (beforeOperand tbl f pos) fun f =>
        .ok ({ f with cur := plug f.cur (.node .nil d pos .nil), last := .operand, ws := false, prevSep := false }, stack)
  | .unaryPrefix =>
    Outcome.bind (beforeOperand tbl f pos) fun f =>
      .ok ({ f with cur := plug f.cur (.node .nil d pos .nil), last := .op, ws := false, prevSep := false }, stack)
  | .startGrouping =>
    Outcome.bind (beforeOperand tbl f pos) fun f =>
      .ok ({ ctx := some (d, pos), cur := .nil, last := .start, ws := false, prevSep := d == .nestedExpression },
           { f with ws := false } :: stack)
  | .endGrouping =>
    match f.ctx, stack with
    | some (gd, gpos), parent :: stack =>
      if closerFor gd != some t.type then .err .syntax
      else if f.last == .op || f.last == .sep then .err .syntax
      else .ok ({ parent with cur := plug parent.cur (.group gd gpos f.cur), last := .operand, ws := false,
                              prevSep := false }, stack)
    | _, _ => .err .syntax
  | .startSideEffect | .endSideEffect => .err .unsupported
  | .binaryLeftToRight | .binaryRightToLeft | .unarySuffix | .optionalBinaryLeftToRight =>
    match tbl.prio d with
    | none => .err .implementation
    | some q =>
      let optional := s == .optionalBinaryLeftToRight
      let leftOk := f.last == .operand || f.last == .suffix || (optional && (f.last == .start || f.last == .sep))
      if !leftOk then .err .syntax
      else
        let last : Last := if s == .unarySuffix then .suffix else if optional then .optOp else .op
        .ok ({ f with cur := attach tbl q (s == .binaryRightToLeft) d pos f.cur, last := last, ws := false,
                      prevSep := false }, stack)
  | .subexpression =>
    if f.inGroup then .ok ({ f with ws := true }, stack)
    else if f.prevSep || (t.type == .subexpression && closerFollows rest) then .ok ({ f with prevSep := true }, stack)
    else if f.last == .op then .err .syntax
    else
      match tbl.prio d with
      | none => .err .implementation
      | some q => .ok ({ f with cur := attach tbl q false d pos f.cur, last := .sep, ws := false, prevSep := true }, stack)

/-- the pass over the trimmed tokens (structural recursion) -/
def refLoop (tbl : Table) : Frame → List Frame → Nat → List PToken → Outcome RTree
  | f, stack, _, [] =>
    if !stack.isEmpty then .err .syntax
    else if f.last == .op || f.last == .sep then .err .syntax
    else .ok f.cur
  | f, stack, pos, t :: rest =>
    Outcome.bind (refStep tbl f stack pos t rest) fun (f, stack) => refLoop tbl f stack (pos + 1) rest

/-- reference parse of a token list (same trimming of leading / trailing whitespace and blank lines as `parse`) -/
def refParse (tbl : Table) (toks : List PToken) : Outcome RTree :=
  let start := trimStart toks
  let stop := toks.length - trimStart toks.reverse
  if start ≥ stop then .ok .nil
  else refLoop tbl Frame.top [] start ((toks.drop start).take (stop - start))

/-! ### the precedence condition -/

/-- priorities of the nodes a walk up the right spine of `t` is compared with (order is irrelevant for the condition;
    a closed bracket is an opaque operand: every operator of the grammar walks over it) -/
def spinePrios (tbl : Table) : RTree → List Nat
  | .nil => []
  | .group _ _ _ => []
  | .node _ d _ r => (tbl.prio d).toList ++ spinePrios tbl r

/-- `PrecOK tbl rtl t` — every operator sits where the table dictates (`rtl d` = operator `d` groups right-to-left):
    for a node `n = node l d k r`
    (L) `n` has walked over its whole left operand: no node `a` on the right spine of `l` stops it, i.e.
        `¬ (prio n < prio a ∨ (prio n = prio a ∧ rtl n))`  — for an operator left child `a` this is the usual
        `prio a < prio n ∨ (prio a = prio n ∧ ¬ rtl n)`;
    (R) a right child `c` that has a left operand (binary or suffix operator; a prefix operator or a value in operand
        position never moved) stopped at `n`:  `prio c < prio n ∨ (prio c = prio n ∧ rtl c)`.
    Brackets are checked inside. -/
inductive PrecOK (tbl : Table) (rtl : Definition → Bool) : RTree → Prop
  | nil : PrecOK tbl rtl .nil
  | group (d : Definition) (k : Nat) (inner : RTree) : PrecOK tbl rtl inner → PrecOK tbl rtl (.group d k inner)
  | node (l : RTree) (d : Definition) (k : Nat) (r : RTree) :
      PrecOK tbl rtl l → PrecOK tbl rtl r →
      (∀ pn, tbl.prio d = some pn → ∀ pa ∈ spinePrios tbl l, stops pn (rtl d) pa = false) →
      (∀ lc dc kc rc pc pn, r = .node lc dc kc rc → lc.isNil = false → tbl.prio dc = some pc → tbl.prio d = some pn →
        stops pc (rtl dc) pn = true) →
      PrecOK tbl rtl (.node l d k r)

/-- the operators a table declares right-to-left -/
def Table.rtlDefs (tbl : Table) : List Definition :=
  TokenType.all.filterMap (fun t => if (tbl.define t).2 == .binaryRightToLeft then some (tbl.define t).1 else none)

def Table.rtl (tbl : Table) (d : Definition) : Bool := tbl.rtlDefs.contains d

/-! ### the atoms + binary operators (+ closed brackets as atoms) fragment, for the uniqueness theorem -/

/-- in-order items of the atoms + binary operators fragment: an atom is a value or a closed bracket (with its content) -/
inductive Item where
  | atom (t : RTree)
  | op (d : Definition) (k : Nat)

def items : RTree → List Item
  | .nil => []
  | .group d k inner => [.atom (.group d k inner)]
  | .node l d k r => if l.isNil && r.isNil then [.atom (.node l d k r)] else items l ++ .op d k :: items r

/-- atoms and full binary nodes only -/
def binFrag : RTree → Bool
  | .nil => false
  | .group _ _ _ => true
  | .node l _ _ r => (l.isNil && r.isNil) || (binFrag l && binFrag r)

/-- every operator of the tree has a priority -/
def allPrio (tbl : Table) : RTree → Bool
  | .nil => true
  | .group _ _ _ => true
  | .node l d _ r => (tbl.prio d).isSome && allPrio tbl l && allPrio tbl r

/-- operators of equal priority group the same way (true for the generated table: `Pair` is alone at its priority) -/
def Consistent (tbl : Table) (rtlf : Definition → Bool) : Prop :=
  ∀ d1 d2 p, tbl.prio d1 = some p → tbl.prio d2 = some p → rtlf d1 = rtlf d2

end Garnish.Spec
