/-
L0: the operand-type combinations for which the language defines a result (property C08).
Written from the language's behaviour, independently of the handlers' match arms: everything not
listed here must be offered to the host once and then yield unit.
-/
import Garnish.Gen.Enums
namespace Garnish.Spec
open Garnish.Gen

def isArith : Instruction → Bool
  | .add | .subtract | .multiply | .divide | .integerDivide | .power | .remainder
  | .bitwiseAnd | .bitwiseOr | .bitwiseXor | .bitwiseShiftLeft | .bitwiseShiftRight => true
  | _ => false

def isRangeOp : Instruction → Bool
  | .makeRange | .makeStartExclusiveRange | .makeEndExclusiveRange | .makeExclusiveRange => true
  | _ => false

/-- operations that are total on every pair of values (they classify, compare or construct) -/
def isTotalBinary : Instruction → Bool
  | .xor | .typeEqual | .equal | .notEqual | .lessThan | .lessThanOrEqual | .greaterThan
  | .greaterThanOrEqual | .makePair | .concat | .partialApply => true
  | _ => false

/-- `a . b`: symbols/numbers chain into symbol lists; containers are indexed by number or symbol -/
def definedAccess : Ty → Ty → Bool
  | .symbol, .symbol | .symbol, .symbolList | .symbolList, .symbol | .symbolList, .symbolList
  | .symbolList, .number | .number, .symbolList | .symbol, .number | .number, .symbol => true
  | .pair, .number | .pair, .symbol | .list, .number | .list, .symbol
  | .concatenation, .number | .concatenation, .symbol | .slice, .number | .slice, .symbol => true
  -- text, bytes and ranges have positions but no keys
  | .charList, .number | .byteList, .number | .range, .number => true
  | _, _ => false

/-- `f <~ x` -/
def definedApply : Ty → Ty → Bool
  | .expression, _ | .external, _ | .partial_, _ => true
  | .symbol, .symbolList | .symbolList, .symbol | .symbolList, .symbolList => true
  | .range, .range | .slice, .range => true
  | .symbolList, .number | .list, .number | .pair, .number | .pair, .symbol | .list, .symbol | .list, .symbolList => true
  | .list, .range | .concatenation, .range | .charList, .range | .byteList, .range | .symbolList, .range => true
  | _, _ => false

def definedBinary (op : Instruction) (l r : Ty) : Bool :=
  if isArith op then l == .number && r == .number
  else if isRangeOp op then l == .number && r == .number
  else if isTotalBinary op then true
  else match op with
    | .access => definedAccess l r
    | .apply => definedApply l r
    | _ => true      -- not a binary operation of this table (no claim)

def definedUnary (op : Instruction) (t : Ty) : Bool :=
  match op with
  | .opposite | .absoluteValue | .bitwiseNot => t == .number
  | .accessLeftInternal | .accessRightInternal =>
    t == .pair || t == .range || t == .slice || t == .concatenation
  | .accessLengthInternal =>
    t == .pair || t == .list || t == .charList || t == .byteList || t == .range || t == .slice || t == .concatenation
  | .emptyApply => t == .expression || t == .external || t == .partial_
  | _ => true

end Garnish.Spec
