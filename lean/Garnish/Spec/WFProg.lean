/-
C05 — well-formedness of a built program, as an executable check and as a proposition.

`wfProg nNodes s0 s` looks at the part of `s` that a build appended to `s0` (instructions from index
`s0.instrs.size`, constants from `s0.consts.size`, jump entries from `s0.jumps.size`, metadata from
`s0.metadata.size`):
  1. every data operand names an existing constant of the expected kind (`Put k`: `k < consts.size`;
     `Resolve k`: constant `k` is a symbol);
  2. every jump operand (`JumpTo`, `JumpIfTrue`, `JumpIfFalse`, `And`, `Or`, `Reapply`) and every expression constant
     `Val.expr j` names an existing jump-table entry;
  3. every new jump-table entry points at an existing instruction;
  4. the last instruction is `EndExpression` or `JumpTo`;
  5. there is exactly one metadata record per instruction, and every new record that names a parse node names one
     below `nNodes`.
The same function is run by the driver on dumps of the implementation (suite WFCHK, Driver/BuildDrv.lean) and is the
conclusion of the theorems in Props/C05.lean.
-/
import Garnish.Model.Build
namespace Garnish.Spec
open Garnish Garnish.Gen Garnish.Model.Build

/-- what the operand of an instruction refers to -/
inductive OpKind where
  | data    -- index of a constant (any kind)
  | sym     -- index of a symbol constant
  | jump    -- index of a jump-table entry
  | free    -- no reference (no operand, or a plain number such as the length of `MakeList`)
deriving DecidableEq, Repr

def opKind : Instruction → OpKind
  | .put => .data
  | .resolve => .sym
  | .jumpTo => .jump
  | .jumpIfTrue => .jump
  | .jumpIfFalse => .jump
  | .and => .jump
  | .or => .jump
  | .reapply => .jump
  | _ => .free

section
variable {F : Type}

/-- clause 1 and the instruction half of clause 2, for one instruction; `jb` = number of jump-table entries -/
def instrOk (jb : Nat) (consts : Array (Val F)) (i : Instr) : Bool :=
  match opKind i.1, i.2 with
  | .data, some k => decide (k < consts.size)
  | .sym, some k =>
    match consts[k]? with
    | some (.sym _) => true
    | _ => false
  | .jump, some j => decide (j < jb)
  | .free, _ => true
  | _, none => false

/-- the constant half of clause 2 -/
def constOk (jb : Nat) : Val F → Bool
  | .expr j => decide (j < jb)
  | _ => true

/-- clause 4 -/
def isTerminator (i : Instr) : Bool := i.1 == .endExpression || i.1 == .jumpTo

/-- clause 5, second half -/
def metaOk (nNodes : Nat) : Option Nat → Bool
  | some i => decide (i < nNodes)
  | none => true

/-- `p` holds for every element of `a` at an index `≥ lo` -/
def allFrom {α : Type} (lo : Nat) (a : Array α) (p : α → Bool) : Bool := (a.toList.drop lo).all p

/-- the first violated clause, `none` if the appended part of `s` is well formed -/
def wfWhy (nNodes : Nat) (s0 s : BState F) : Option String :=
  if !allFrom s0.instrs.size s.instrs (instrOk s.jumps.size s.consts) then some "operand"
  else if !allFrom s0.consts.size s.consts (constOk s.jumps.size) then some "expression-constant"
  else if !allFrom s0.jumps.size s.jumps (fun v => decide (v < s.instrs.size)) then some "jump-entry"
  else if !(match s.instrs.back? with | some i => isTerminator i | none => false) then some "terminator"
  else if !(s.metadata.size == s.instrs.size) then some "metadata-count"
  else if !allFrom s0.metadata.size s.metadata (metaOk nNodes) then some "metadata-node"
  else none

def wfProg (nNodes : Nat) (s0 s : BState F) : Bool := (wfWhy nNodes s0 s).isNone

/-- `wfProg` without clause 4 (what Props/C05 proves for every successful build) -/
def wfCore (nNodes : Nat) (s0 s : BState F) : Bool :=
  allFrom s0.instrs.size s.instrs (instrOk s.jumps.size s.consts) &&
  allFrom s0.consts.size s.consts (constOk s.jumps.size) &&
  allFrom s0.jumps.size s.jumps (fun v => decide (v < s.instrs.size)) &&
  (s.metadata.size == s.instrs.size) &&
  allFrom s0.metadata.size s.metadata (metaOk nNodes)

def lastIsTerminator (s : BState F) : Bool :=
  match s.instrs.back? with
  | some i => isTerminator i
  | none => false

/-! ### the declarative form -/

/-- `P` holds for every element of `a` at an index `≥ lo` -/
def AllFrom {α : Type} (lo : Nat) (a : Array α) (P : α → Prop) : Prop :=
  ∀ (i : Nat) (x : α), lo ≤ i → a[i]? = some x → P x

structure WFCore (nNodes : Nat) (s0 s : BState F) : Prop where
  operands : AllFrom s0.instrs.size s.instrs (fun i => instrOk s.jumps.size s.consts i = true)
  exprConsts : AllFrom s0.consts.size s.consts (fun v => constOk s.jumps.size v = true)
  jumpEntries : AllFrom s0.jumps.size s.jumps (fun v => v < s.instrs.size)
  metaCount : s.metadata.size = s.instrs.size
  metaNodes : AllFrom s0.metadata.size s.metadata (fun m => metaOk nNodes m = true)

structure WFProg (nNodes : Nat) (s0 s : BState F) : Prop extends WFCore nNodes s0 s where
  terminator : ∃ i, s.instrs.back? = some i ∧ isTerminator i = true

theorem allFrom_iff {α : Type} (lo : Nat) (a : Array α) (p : α → Bool) :
    allFrom lo a p = true ↔ AllFrom lo a (fun x => p x = true) := by
  unfold allFrom AllFrom
  rw [List.all_eq_true]
  constructor
  · intro h i x hlo hx
    apply h
    rw [List.mem_iff_getElem?]
    refine ⟨i - lo, ?_⟩
    rw [List.getElem?_drop]
    have : lo + (i - lo) = i := by omega
    rw [this]
    simpa using hx
  · intro h x hx
    rw [List.mem_iff_getElem?] at hx
    obtain ⟨k, hk⟩ := hx
    rw [List.getElem?_drop] at hk
    exact h (lo + k) x (by omega) (by simpa using hk)

theorem wfCore_iff (nNodes : Nat) (s0 s : BState F) : wfCore nNodes s0 s = true ↔ WFCore nNodes s0 s := by
  unfold wfCore
  simp only [Bool.and_eq_true, allFrom_iff, beq_iff_eq]
  constructor
  · rintro ⟨⟨⟨⟨h1, h2⟩, h3⟩, h4⟩, h5⟩
    exact ⟨h1, h2, fun i x hlo hx => by simpa using h3 i x hlo hx, h4, h5⟩
  · rintro ⟨h1, h2, h3, h4, h5⟩
    exact ⟨⟨⟨⟨h1, h2⟩, fun i x hlo hx => by simpa using h3 i x hlo hx⟩, h4⟩, h5⟩

theorem lastIsTerminator_iff (s : BState F) :
    lastIsTerminator s = true ↔ ∃ i, s.instrs.back? = some i ∧ isTerminator i = true := by
  unfold lastIsTerminator
  cases s.instrs.back? with
  | none => simp
  | some i => simp

theorem wfProg_eq (nNodes : Nat) (s0 s : BState F) : wfProg nNodes s0 s = (wfCore nNodes s0 s && lastIsTerminator s) := by
  unfold wfProg wfWhy wfCore lastIsTerminator
  cases allFrom s0.instrs.size s.instrs (instrOk s.jumps.size s.consts) <;>
  cases allFrom s0.consts.size s.consts (constOk s.jumps.size) <;>
  cases allFrom s0.jumps.size s.jumps (fun v => decide (v < s.instrs.size)) <;>
  cases (match s.instrs.back? with | some i => isTerminator i | none => false) <;>
  cases (s.metadata.size == s.instrs.size) <;>
  cases allFrom s0.metadata.size s.metadata (metaOk nNodes) <;> rfl

theorem wfProg_iff (nNodes : Nat) (s0 s : BState F) : wfProg nNodes s0 s = true ↔ WFProg nNodes s0 s := by
  rw [wfProg_eq, Bool.and_eq_true, wfCore_iff, lastIsTerminator_iff]
  constructor
  · rintro ⟨h1, h2⟩; exact ⟨h1, h2⟩
  · rintro ⟨h1, h2⟩; exact ⟨h1, h2⟩

/-- the state a build may start from: metadata and instructions of the object are in step -/
def WFState (s0 : BState F) : Prop := s0.metadata.size = s0.instrs.size

end
end Garnish.Spec
