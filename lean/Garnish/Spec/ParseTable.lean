/-
The LANGUAGE`s operator table (property C02): which definition and syntactic class each token type has and how
tightly each definition binds (lower = tighter). A committed copy, reviewed once against the pinned source and the
language documentation; deliberately NOT regenerated: the reference parser and the program printer use this copy, the
model of the real parser uses `Gen.*`, and the bridge theorems in Props/C02.lean (re-checked on every run) say the
two agree — so a change of the table in the code breaks a proof obligation instead of dragging the oracle along.
-/
import Garnish.Gen.Enums
namespace Garnish.Spec.Lang
open Garnish.Gen

def getDefinition : TokenType → Definition × SecDef
  | .unknown => (.drop, .value)
  | .unitLiteral => (.unit, .value)
  | .plusSign => (.addition, .binaryLeftToRight)
  | .subtraction => (.subtraction, .binaryLeftToRight)
  | .division => (.division, .binaryLeftToRight)
  | .multiplicationSign => (.multiplicationSign, .binaryLeftToRight)
  | .exponentialSign => (.exponentialSign, .binaryLeftToRight)
  | .integerDivision => (.integerDivision, .binaryLeftToRight)
  | .remainder => (.remainder, .binaryLeftToRight)
  | .absoluteValue => (.absoluteValue, .unaryPrefix)
  | .opposite => (.opposite, .unaryPrefix)
  | .bitwiseNot => (.bitwiseNot, .unaryPrefix)
  | .bitwiseAnd => (.bitwiseAnd, .binaryLeftToRight)
  | .bitwiseOr => (.bitwiseOr, .binaryLeftToRight)
  | .bitwiseXor => (.bitwiseXor, .binaryLeftToRight)
  | .bitwiseLeftShift => (.bitwiseLeftShift, .binaryLeftToRight)
  | .bitwiseRightShift => (.bitwiseRightShift, .binaryLeftToRight)
  | .and => (.and, .binaryLeftToRight)
  | .or => (.or, .binaryLeftToRight)
  | .xor => (.xor, .binaryLeftToRight)
  | .not => (.not, .unaryPrefix)
  | .tis => (.tis, .unaryPrefix)
  | .startExpression => (.nestedExpression, .startGrouping)
  | .endExpression => (.drop, .endGrouping)
  | .startGroup => (.group, .startGrouping)
  | .endGroup => (.drop, .endGrouping)
  | .startSideEffect => (.sideEffect, .startSideEffect)
  | .endSideEffect => (.drop, .endSideEffect)
  | .value => (.value, .value)
  | .comma => (.commaList, .optionalBinaryLeftToRight)
  | .symbol => (.symbol, .value)
  | .number => (.number, .value)
  | .identifier => (.identifier, .identifier)
  | .charList => (.charList, .value)
  | .byteList => (.byteList, .value)
  | .whitespace => (.drop, .whitespace)
  | .subexpression => (.subexpression, .subexpression)
  | .expressionTerminator => (.expressionTerminator, .value)
  | .expressionSeparator => (.expressionSeparator, .subexpression)
  | .annotation => (.drop, .annotation)
  | .lineAnnotation => (.drop, .annotation)
  | .jumpIfFalse => (.jumpIfFalse, .binaryLeftToRight)
  | .jumpIfTrue => (.jumpIfTrue, .binaryLeftToRight)
  | .elseJump => (.elseJump, .binaryLeftToRight)
  | .typeOf => (.typeOf, .unaryPrefix)
  | .apply => (.apply, .binaryLeftToRight)
  | .applyTo => (.applyTo, .binaryLeftToRight)
  | .partialApply => (.partialApply, .binaryLeftToRight)
  | .reapply => (.reapply, .unaryPrefix)
  | .emptyApply => (.emptyApply, .unarySuffix)
  | .typeCast => (.typeCast, .binaryLeftToRight)
  | .typeEqual => (.typeEqual, .binaryLeftToRight)
  | .equality => (.equality, .binaryLeftToRight)
  | .inequality => (.inequality, .binaryLeftToRight)
  | .lessThan => (.lessThan, .binaryLeftToRight)
  | .lessThanOrEqual => (.lessThanOrEqual, .binaryLeftToRight)
  | .greaterThan => (.greaterThan, .binaryLeftToRight)
  | .greaterThanOrEqual => (.greaterThanOrEqual, .binaryLeftToRight)
  | .period => (.access, .binaryLeftToRight)
  | .leftInternal => (.accessLeftInternal, .unaryPrefix)
  | .rightInternal => (.accessRightInternal, .unarySuffix)
  | .lengthInternal => (.accessLengthInternal, .unarySuffix)
  | .pair => (.pair, .binaryRightToLeft)
  | .concatenation => (.concatenation, .binaryLeftToRight)
  | .range => (.range, .binaryLeftToRight)
  | .startExclusiveRange => (.startExclusiveRange, .binaryLeftToRight)
  | .endExclusiveRange => (.endExclusiveRange, .binaryLeftToRight)
  | .exclusiveRange => (.exclusiveRange, .binaryLeftToRight)
  | .false => (.false, .value)
  | .true => (.true, .value)
  | .prefixIdentifier => (.prefixApply, .unaryPrefix)
  | .suffixIdentifier => (.suffixApply, .unarySuffix)
  | .infixIdentifier => (.infixApply, .optionalBinaryLeftToRight)


def priority : Definition → Option Nat
  | .number => some 10
  | .charList => some 10
  | .byteList => some 10
  | .identifier => some 10
  | .property => some 10
  | .addition => some 100
  | .absoluteValue => some 75
  | .subtraction => some 100
  | .division => some 90
  | .multiplicationSign => some 90
  | .exponentialSign => some 80
  | .integerDivision => some 90
  | .remainder => some 90
  | .opposite => some 75
  | .bitwiseNot => some 75
  | .bitwiseAnd => some 111
  | .bitwiseOr => some 113
  | .bitwiseXor => some 112
  | .bitwiseLeftShift => some 110
  | .bitwiseRightShift => some 110
  | .and => some 410
  | .or => some 430
  | .xor => some 420
  | .not => some 400
  | .tis => some 400
  | .emptyApply => some 40
  | .typeOf => some 69
  | .typeCast => some 70
  | .typeEqual => some 400
  | .equality => some 400
  | .inequality => some 400
  | .lessThan => some 300
  | .lessThanOrEqual => some 300
  | .greaterThan => some 300
  | .greaterThanOrEqual => some 300
  | .pair => some 210
  | .range => some 200
  | .startExclusiveRange => some 200
  | .endExclusiveRange => some 200
  | .exclusiveRange => some 200
  | .concatenation => some 240
  | .access => some 30
  | .accessLeftInternal => some 50
  | .accessRightInternal => some 60
  | .accessLengthInternal => some 60
  | .list => some 220
  | .commaList => some 900
  | .drop => none
  | .symbol => some 10
  | .value => some 10
  | .unit => some 10
  | .subexpression => some 1000
  | .expressionTerminator => some 500
  | .expressionSeparator => some 990
  | .group => some 20
  | .nestedExpression => some 20
  | .sideEffect => some 5
  | .apply => some 550
  | .applyTo => some 550
  | .partialApply => some 230
  | .reapply => some 600
  | .jumpIfTrue => some 700
  | .jumpIfFalse => some 700
  | .elseJump => some 800
  | .true => some 10
  | .false => some 10
  | .prefixApply => some 150
  | .suffixApply => some 151
  | .infixApply => some 152


end Garnish.Spec.Lang
