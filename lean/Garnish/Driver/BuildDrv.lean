/- BUILD / LIT / SYM suites of the driver: run the builder model, the literal parsers and `symbol_value`.

   SYM   \t id \t <escaped name>                       → decimal u64
   LIT   \t id \t kind \t <escaped literal text>        → `ok <value>` | `err` | `PANIC <site>`
            kind ∈ number | charlist | bytelist | symbol   (symbol: the token text, `&text[1..]` is applied as in build.rs)
   BUILD \t id \t store \t n_pre \t TypeName,<escaped text> ...
            → `parseerr` | `err` | `PANIC <site>` | `FUELOUT` |
              `ok entry=<jump index> I=[<instr>;..] J=[<n>;..] M=[<n or ->;..]`
            the complete instruction vector / jump table / metadata of the object after `n_pre` builds of the
            prelude `5 + 5` followed by the build of the given token list.  -/
import Garnish.Driver.Proto
import Garnish.Driver.ValIO
import Garnish.Model.Build
import Garnish.Spec.WFProg
namespace Garnish.Driver
open Garnish Garnish.Gen Garnish.Model.Parser Garnish.Model.Literals Garnish.Model.Build

/-! ### `f64::from_str`: grammar of core::num::dec2flt and exact (round-half-even) decimal → binary64 -/

/-- bits of the binary64 nearest to `m · 10^e10` (positive, `m > 0`), ties to even; overflow = +inf -/
def decToF64Bits (m : Nat) (e10 : Int) : UInt64 :=
  let num : Nat := if e10 ≥ 0 then m * 10 ^ e10.toNat else m
  let den : Nat := if e10 ≥ 0 then 1 else 10 ^ (-e10).toNat
  -- q = ⌊num / (den · 2^e2)⌋ with remainder information
  let divAt (e2 : Int) : Nat × Nat × Nat :=
    let dividend := if e2 ≥ 0 then num else num * 2 ^ (-e2).toNat
    let divisor := if e2 ≥ 0 then den * 2 ^ e2.toNat else den
    (dividend / divisor, dividend % divisor, divisor)
  let l : Int := (num.log2 : Int) - (den.log2 : Int)
  let e2 : Int := l - 52
  let e2 : Int := if (divAt e2).1 < 2 ^ 52 then e2 - 1 else e2
  let e2 : Int := if e2 < -1074 then -1074 else e2
  let (q, r, d) := divAt e2
  let q := if 2 * r > d then q + 1 else if 2 * r == d ∧ q % 2 == 1 then q + 1 else q
  let (q, e2) := if q == 2 ^ 53 then (2 ^ 52, e2 + 1) else (q, e2)
  if q < 2 ^ 52 then UInt64.ofNat q                       -- subnormal (e2 = -1074) or zero
  else
    let biased : Int := e2 + 1075
    if biased ≥ 2047 then 0x7ff0000000000000
    else UInt64.ofNat (biased.toNat * 2 ^ 52 + (q - 2 ^ 52))

def isDigitC (c : Char) : Bool := '0' ≤ c && c ≤ '9'

def natOfDigits (ds : List Char) : Nat := ds.foldl (fun a c => a * 10 + (c.toNat - 48)) 0

def lowerAscii (c : Char) : Char := if 'A' ≤ c && c ≤ 'Z' then Char.ofNat (c.toNat + 32) else c

/-- Rust `f64::from_str` -/
def parseFloatRaw (s : List Char) : Option Float :=
  let (neg, rest) : Bool × List Char :=
    match s with
    | '-' :: r => (true, r)
    | '+' :: r => (false, r)
    | _ => (false, s)
  let signBit : UInt64 := if neg then 0x8000000000000000 else 0
  let lower := String.ofList (rest.map lowerAscii)
  if lower == "inf" || lower == "infinity" then some (Float.ofBits (signBit ||| 0x7ff0000000000000))
  else if lower == "nan" then some (Float.ofBits 0x7ff8000000000000)
  else
    let intDigits := rest.takeWhile isDigitC
    let r := rest.dropWhile isDigitC
    let (fracDigits, r) : List Char × List Char :=
      match r with
      | '.' :: r' => (r'.takeWhile isDigitC, r'.dropWhile isDigitC)
      | _ => ([], r)
    if intDigits.length + fracDigits.length == 0 then none
    else
      let exp : Option Int :=
        match r with
        | [] => some 0
        | c :: r' =>
          if c == 'e' || c == 'E' then
            let (eneg, ds) : Bool × List Char :=
              match r' with
              | '-' :: d => (true, d)
              | '+' :: d => (false, d)
              | _ => (false, r')
            if ds.isEmpty || !ds.all isDigitC then none
            else
              let v : Int := natOfDigits ds
              some (if eneg then -v else v)
          else none
      match exp with
      | none => none
      | some exp =>
        let digits := intDigits ++ fracDigits
        let m := natOfDigits digits
        let e10 : Int := exp - fracDigits.length
        if m == 0 then some (Float.ofBits signBit)
        else
          -- magnitude ≈ 10^(e10 + #digits): clamp before building huge powers
          let mag : Int := e10 + digits.length
          if mag > 400 then some (Float.ofBits (signBit ||| 0x7ff0000000000000))
          else if mag < -400 then some (Float.ofBits signBit)
          else some (Float.ofBits (signBit ||| decToF64Bits m e10))

/-- the float reader of the literal parser: `f64::from_str` followed by the finiteness guard of parse_number_internal
(`nan`, `inf`, `infinity` and overflowing exponents are accepted by from_str but rejected as literals) -/
def parseFloatImpl (s : List Char) : Option Float :=
  match parseFloatRaw s with
  | some v => if v.isFinite then some v else none
  | none => none

/-! ### token fields (same format as the PARSE suite; kept local so that this file does not depend on ParseDrv) -/

/-- `TypeName,<escaped text>` → token (row/col are 0 as in the harness) -/
def buildTokenField (s : String) : Option PToken :=
  let cs := s.toList
  let name := cs.takeWhile (· != ',')
  match cs.dropWhile (· != ',') with
  | [] => none
  | _ :: text =>
    match TokenType.ofName? (String.ofList name) with
    | none => none
    | some tt => some { text := Garnish.Proto.unescape text, type := tt, row := 0, col := 0 }

def buildTokenFields : List String → Option (List PToken)
  | [] => some []
  | f :: rest =>
    match buildTokenField f, buildTokenFields rest with
    | some t, some ts => some (t :: ts)
    | _, _ => none

def showOptIdx : Option Nat → String
  | none => "-"
  | some n => toString n

/-! ### rendering -/

def showOutcomeVal : Outcome V → String
  | .ok v => "ok " ++ showVal v
  | .err _ => "err"
  | .panic site => s!"PANIC {site}"
  | .fuelOut => "FUELOUT"

def litCase (f : List String) : String :=
  match f with
  | _ :: _ :: kind :: rest =>
    let text := Garnish.Proto.unescape (rest.headD "").toList
    match kind with
    | "number" => showOutcomeVal (Outcome.bind (parseSimpleNumber parseFloatImpl text) fun n => .ok (.num n))
    | "charlist" => showOutcomeVal (Outcome.bind (parseCharList parseFloatImpl text) fun cs => .ok (.chars (cs.map Char.toNat)))
    | "bytelist" => showOutcomeVal (Outcome.bind (parseByteList parseFloatImpl text) fun bs => .ok (.bytes bs))
    | "symbol" =>
      match dropFirstByte text with
      | none => "PANIC str slice [1..]"
      | some r => showOutcomeVal (.ok (.sym (parseSymbol r)))
    | _ => "BAD-CASE"
  | _ => "BAD-CASE"

def symCase (f : List String) : String :=
  match f with
  | _ :: _ :: rest =>
    let name := Garnish.Proto.unescape (rest.headD "").toList
    toString (Garnish.Model.SipHash.symbolValue name).toNat
  | _ => "BAD-CASE"

def joinWith (sep : String) : List String → String
  | [] => ""
  | [x] => x
  | x :: xs => x ++ sep ++ joinWith sep xs

def showInstr (d : BState Float) (i : Instr) : String :=
  match i with
  | (ins, none) => ins.name
  | (ins, some k) =>
    if ins == .put || ins == .resolve then
      match d.consts[k]? with
      | some v => ins.name ++ ":" ++ showVal v
      | none => ins.name ++ ":<bad-addr>"
    else ins.name ++ ":" ++ toString k

def showBState (d : BState Float) (entry : Nat) : String :=
  s!"ok entry={entry} I=[" ++ joinWith ";" (d.instrs.toList.map (showInstr d)) ++ "] J=["
    ++ joinWith ";" (d.jumps.toList.map toString) ++ "] M=[" ++ joinWith ";" (d.metadata.toList.map showOptIdx) ++ "]"

/-- tokens of the prelude program `5 + 5` -/
def preludeTokens : List PToken :=
  [⟨['5'], .number, 0, 0⟩, ⟨[' '], .whitespace, 0, 0⟩, ⟨['+'], .plusSign, 0, 0⟩, ⟨[' '], .whitespace, 0, 0⟩, ⟨['5'], .number, 0, 0⟩]

/-- parse + build one token list into `d` -/
def buildTokens (tokens : List PToken) (d : BState Float) (nocheck : Bool := false) : Outcome (Option (BState Float × Nat)) :=
  match parse tokens with
  | .err _ => .ok none
  | .panic s => .panic s
  | .fuelOut => .fuelOut
  | .ok r =>
    if nocheck then
      -- store name `nocheck`: `build` without `validate_parse_tree`; analysis only
      if r.nodes.isEmpty then .ok (some (pushInstr d .endExpression none none, 0))
      else Outcome.bind (buildCore parseFloatImpl (defaultFuel r.nodes.size) r.root r.nodes d) fun res => .ok (some res)
    else
      Outcome.bind (build parseFloatImpl (defaultFuel r.nodes.size) r.root r.nodes d) fun res => .ok (some res)

def buildPrelude : Nat → BState Float → Outcome (BState Float)
  | 0, d => .ok d
  | n + 1, d =>
    Outcome.bind (buildTokens preludeTokens d) fun res =>
      match res with
      | none => .err .other
      | some (d, _) => buildPrelude n d

def buildCase (f : List String) : String :=
  match f with
  | _ :: _ :: store :: npre :: fields =>
    match npre.toNat?, buildTokenFields fields with
    | some npre, some tokens =>
      match buildPrelude npre BState.empty with
      | .ok d =>
        match buildTokens tokens d (store == "nocheck") with
        | .ok none => "parseerr"
        | .ok (some (d, entry)) => showBState d entry
        | .err _ => "err"
        | .panic site => s!"PANIC {site}"
        | .fuelOut => "FUELOUT"
      | _ => "PRELUDE-FAILED"
    | _, _ => "BAD-CASE"
  | _ => "BAD-CASE"


/-! ### WFCHK: the verified well-formedness checker (Spec/WFProg.lean) on a dump of the implementation

    WFCHK \t id \t <BUILD result line of the harness, verbatim> \t nNodes [\t i0 \t j0]
      → `skip` (the dump is not an `ok ..` line) | `BAD-CASE` | `wf=true why=-` | `wf=false why=<first violated clause>`
    clauses: operand | expression-constant | jump-entry | terminator | metadata-count | metadata-node | entry.
    The state is rebuilt from the dump: one constant per `Put`/`Resolve` instruction (`(e N)` = expression N,
    `(s N)` = symbol, a rendering starting with `<` = invalid address → operand out of range, anything else = a plain
    value); `i0`/`j0` (default 0) = number of instructions / jump entries that were in the object before the build,
    i.e. the start state `s0` of `wfProg`.  `entry` is checked only when `nNodes ≠ 0` (an empty node vector returns
    entry 0 without creating a jump entry). -/

def splitOnChar (c : Char) (s : String) : List String :=
  if s.isEmpty then [] else s.splitOn (String.singleton c)

/-- text between `open` and the next `close` after it -/
def between (s opn cls : String) : Option String :=
  match s.splitOn opn with
  | _ :: rest :: _ => (rest.splitOn cls).head?
  | _ => none

structure DumpAcc where
  instrs : Array Garnish.Model.Build.Instr := #[]
  consts : Array (Val Float) := #[]
  bad : Bool := false

def dumpInstr (acc : DumpAcc) (field : String) : DumpAcc :=
  let name := String.ofList (field.toList.takeWhile (· != ':'))
  let operand := String.ofList ((field.toList.dropWhile (· != ':')).drop 1)
  match Instruction.ofName? name with
  | none => { acc with bad := true }
  | some ins =>
    if operand.isEmpty then { acc with instrs := acc.instrs.push (ins, none) }
    else if ins == .put || ins == .resolve then
      if operand.startsWith "<" then { acc with instrs := acc.instrs.push (ins, some 1000000000) }
      else
        let v : Val Float :=
          if operand.startsWith "(e " then
            match (String.ofList ((operand.toList.drop 3).takeWhile Char.isDigit)).toNat? with
            | some n => .expr n
            | none => .custom
          else if operand.startsWith "(s " then .sym 0
          else .unit
        { acc with instrs := acc.instrs.push (ins, some acc.consts.size), consts := acc.consts.push v }
    else
      match operand.toNat? with
      | some n => { acc with instrs := acc.instrs.push (ins, some n) }
      | none => { acc with bad := true }

def parseMetaField (f : String) : Option (Option Nat) :=
  if f == "-" then some none else f.toNat?.map some

def wfCase (f : List String) : String :=
  match f with
  | _ :: _ :: dump :: nNodes :: rest =>
    if !dump.startsWith "ok entry=" then "skip"
    else
      let i0 := (rest.head?.bind String.toNat?).getD 0
      let j0 := ((rest.drop 1).head?.bind String.toNat?).getD 0
      match nNodes.toNat?, between dump "ok entry=" " ", between dump " I=[" "]", between dump " J=[" "]", between dump " M=[" "]" with
      | some nNodes, some entryS, some iS, some jS, some mS =>
        let acc := (splitOnChar ';' iS).foldl dumpInstr {}
        let acc0 := ((splitOnChar ';' iS).take i0).foldl dumpInstr {}
        let jumps := (splitOnChar ';' jS).map String.toNat?
        let metas := (splitOnChar ';' mS).map parseMetaField
        if acc.bad || jumps.any Option.isNone || metas.any Option.isNone || entryS.toNat?.isNone then "BAD-CASE"
        else
          let jumps : Array Nat := (jumps.filterMap id).toArray
          let metas : Array (Option Nat) := (metas.filterMap id).toArray
          let entry := entryS.toNat?.getD 0
          let s : BState Float := ⟨acc.instrs, jumps, acc.consts, metas⟩
          let s0 : BState Float := ⟨acc0.instrs, jumps.extract 0 j0, acc0.consts, metas.extract 0 i0⟩
          match Garnish.Spec.wfWhy nNodes s0 s with
          | some why => s!"wf=false why={why}"
          | none =>
            if nNodes != 0 && !(entry < jumps.size) then "wf=false why=entry"
            else "wf=true why=-"
      | _, _, _, _, _ => "BAD-CASE"
  | _ => "BAD-CASE"

end Garnish.Driver
