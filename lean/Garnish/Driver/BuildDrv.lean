import Garnish.Driver.Proto
namespace Garnish.Driver
def buildCase (_f : List String) : String := "UNIMPLEMENTED"
def litCase (_f : List String) : String := "UNIMPLEMENTED"
def symCase (_f : List String) : String := "UNIMPLEMENTED"
end Garnish.Driver
