import Garnish.Driver.Proto
namespace Garnish.Driver
def heapCase (_f : List String) : String := "UNIMPLEMENTED"
def cacheCase (_f : List String) : String := "UNIMPLEMENTED"
end Garnish.Driver
