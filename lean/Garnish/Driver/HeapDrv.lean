/- HEAP and CACHE suites (property C15): the storage model on the case lines of harness/src/heaps.rs -/
import Garnish.Driver.Proto
import Garnish.Store.BasicHeap
import Garnish.Store.SimpleCache
namespace Garnish.Driver
open Garnish Garnish.Store

/-! ### HEAP -/

def parsePolicy (s : String) : Option (Policy × Option Nat) :=
  let (body, mx) := match s.splitOn "x" with
    | [b, m] => (b, m.toNat?)
    | _ => (s, none)
  match body.toList with
  | 'f' :: ds => (String.ofList ds).toNat?.map (fun n => (.fixed n, mx))
  | 'm' :: ds => (String.ofList ds).toNat?.map (fun n => (.mult n, mx))
  | _ => none

def parseOp (k : Nat) (tok : String) : Option MOp :=
  match tok.toList with
  | ['i'] => some (.instr k)
  | ['j'] => some (.jump k)
  | 's' :: ds => (String.ofList ds).toNat?.map (fun s => .sym s k)
  | 'e' :: ds => (String.ofList ds).toNat?.map (fun s => .expr s k)
  | ['d'] => some (.data k)
  | ['c'] => some (.custom k)
  | ['r'] => some (.pushRegister k)
  | ['v'] => some (.pushValue k)
  | ['f'] => some (.pushFrame k)
  | 't' :: ds => (String.ofList ds).toNat?.map (fun n => .text n k)
  | _ => none

def tag : Cell → String
  | .empty => "_"
  | .instr k => s!"i{k}"
  | .jump k => s!"j{k}"
  | .assoc s v => s!"a{s}:{v}"
  | .num k => s!"n{k}"
  | .custom k => s!"c{k}"
  | .register p v => s!"r{p}:{v}"
  | .registerRoot v => s!"rr{v}"
  | .value p v => s!"v{p}:{v}"
  | .valueRoot v => s!"vr{v}"
  | .frame p r => s!"f{p}:{r}"
  | .frameIndex p => s!"fi{p}"
  | .frameRegister r => s!"fr{r}"
  | .frameRoot => "f0"
  | .charList n => s!"t{n}"
  | .char c => s!"h{c}"

/-- what was added (mirrors `Log` in heaps.rs) -/
structure Log where
  instr : Array Nat := #[]
  jumps : Nat := 0
  syms : Nat := 0
  exprs : Array Nat := #[]
  data : Array Nat := #[]
  texts : Array (Nat × Nat) := #[]
  custom : Array Nat := #[]

/-- the index an operation returns = the cursor of its block before the push -/
def cursorOf (h : Heap) (k : Nat) : Nat := match h.blocks[k]? with | some b => b.cursor | none => 0

def logOp (m : MStore) (log : Log) : MOp → Log
  | .instr _ => { log with instr := log.instr.push (cursorOf m.heap 0 - 1) }
  | .jump _ => { log with jumps := log.jumps + 1 }
  | .sym _ _ => { log with syms := log.syms + 1 }
  | .expr s _ => { log with exprs := log.exprs.push s }
  | .data _ => { log with data := log.data.push (cursorOf m.heap 4 - 1) }
  | .custom _ => { log with custom := log.custom.push (cursorOf m.heap 5 - 1) }
  | .text n _ => { log with texts := log.texts.push (cursorOf m.heap 4 - 1 - n, n) }
  | _ => log

def showCellRes : Outcome Cell → (Cell → String) → String
  | .ok c, f => f c
  | _, _ => "!"

def dataCell (h : Heap) (addr : Nat) : String := showCellRes (getN h 4 addr) tag

def readInstr (h : Heap) (i : Nat) : String :=
  showCellRes (getN h 0 i) (fun c => match c with | .instr k => s!"i{k}" | _ => "!")

def readJump (h : Heap) (i : Nat) : String :=
  showCellRes (getN h 1 i) (fun c => match c with | .jump k => s!"j{k}" | _ => "!")

def readSymEntry (h : Heap) (i : Nat) : String :=
  showCellRes (getN h 2 i) (fun c => match c with | .assoc s v => s!"a{s}:{v}" | _ => "!")

def readCustom (h : Heap) (i : Nat) : String :=
  showCellRes (getN h 5 i) (fun c => match c with | .custom k => s!"c{k}" | _ => "!")

/-- `search_for_associative_item_index` (search.rs) on a slice; `none` = `Err` -/
def searchLoop (items : Array Cell) (sym : Nat) : Nat → Nat → Nat → Option Nat
  | 0, base, _ => some base
  | fuel + 1, base, size =>
    if size > 1 then
      let half := size / 2
      let mid := base + half
      match items[mid]? with
      | some (.assoc s _) => searchLoop items sym fuel (if s > sym then base else mid) (size - half)
      | _ => none
    else some base

def readExpr (h : Heap) (sym : Nat) : String :=
  match h.blocks[3]? with
  | none => "!"
  | some b =>
    let items := (blockCells h.cells b).toArray
    if items.size == 0 then "-"
    else match searchLoop items sym (items.size + 1) 0 items.size with
      | none => "!"
      | some base =>
        match items[base]? with
        | some (.assoc s v) => if s == sym then s!"{v}" else "-"
        | _ => "!"

/-- `get_register`'s walk: values from the top down -/
def regWalk (h : Heap) : Nat → Option Nat → List Nat
  | 0, _ => []
  | _ + 1, none => []
  | fuel + 1, some i =>
    match getN h 4 i with
    | .ok (.register p v) => v :: regWalk h fuel (some p)
    | .ok (.registerRoot v) => [v]
    | _ => []

def valWalk (h : Heap) : Nat → Option Nat → List Nat
  | 0, _ => []
  | _ + 1, none => []
  | fuel + 1, some i =>
    match getN h 4 i with
    | .ok (.value p v) => v :: valWalk h fuel (some p)
    | .ok (.valueRoot v) => [v]
    | _ => []

/-- `pop_frame` repeated on a copy: `<return>/<register depth after the pop>` -/
def frameWalk (h : Heap) : Nat → Option Nat → List String
  | 0, _ => []
  | _ + 1, none => []
  | fuel + 1, some i =>
    -- `index - 1` is a usize subtraction: frames are pushed after their jump point, so `index >= 1`
    match (if i = 0 then Outcome.panic "pop_frame" else getN h 4 (i - 1)) with
    | .ok (.jump ret) =>
      let fuelR := h.cells.size + 1
      match getN h 4 i with
      | .ok (.frame p r) => s!"{ret}/{(regWalk h fuelR (some r)).length}" :: frameWalk h fuel (some p)
      | .ok (.frameIndex p) => s!"{ret}/0" :: frameWalk h fuel (some p)
      | .ok (.frameRegister r) => [s!"{ret}/{(regWalk h fuelR (some r)).length}"]
      | .ok .frameRoot => [s!"{ret}/0"]
      | _ => ["!"]
    | _ => ["!"]

def join (sep : String) (l : List String) : String := String.intercalate sep l

def dump (m : MStore) (log : Log) : String :=
  let h := m.heap
  let fuel := h.cells.size + 1
  let b := h.blocks.map (fun b => s!"{b.start},{b.cursor},{b.size}")
  let k := h.blocks.map (fun b => join "," ((List.range b.cursor).map (fun i =>
    match h.cells[b.start + i]? with | some c => tag c | none => "OOB")))
  let i := log.instr.toList.map (readInstr h)
  let j := (List.range log.jumps).map (readJump h)
  let s := (List.range log.syms).map (readSymEntry h)
  let e := log.exprs.toList.map (readExpr h)
  let d := log.data.toList.map (dataCell h)
  let t := log.texts.toList.map (fun (a, n) => join "." ((List.range (n + 1)).map (fun o => dataCell h (a + o))))
  let c := log.custom.toList.map (readCustom h)
  let r := (regWalk h fuel m.curReg).reverse.map toString
  let v := (valWalk h fuel m.curVal).map toString
  let f := frameWalk h fuel m.curFrame
  s!"B={join "|" b} H={h.cells.size} K={join "|" k} I={join "," i} J={join "," j} S={join "," s} E={join "," e} D={join "," d} T={join "," t} C={join "," c} R={join "," r} V={join "," v} F={join "," f}"

/-- file of the panic site, as the harness prints it -/
def siteFile (site : String) : String := (site.splitOn ":").headD ""

def heapLoop : List String → Nat → MStore → Log → String
  | [], _, m, log => s!"ok {dump m log}"
  | tok :: toks, k, m, log =>
    match parseOp k tok with
    | none => "BAD-CASE"
    | some op =>
      match mstep m op with
      | .ok m1 => heapLoop toks (k + 1) m1 (logOp m1 log op)
      | .err _ => s!"ERR@{k}"
      | .panic site => s!"PANIC@{k} {siteFile site}"
      | .fuelOut => s!"FUEL@{k}"

def heapCase (f : List String) : String :=
  match f with
  | _ :: _ :: pol :: sizes :: ops =>
    let ps := (pol.splitOn ",").filterMap parsePolicy
    let zs := (sizes.splitOn ",").filterMap String.toNat?
    if ps.length != 6 || zs.length != 6 then "BAD-CASE" else
    let toks := (ops.flatMap (fun s => s.splitOn " ")).filter (fun s => !s.isEmpty)
    match init zs (ps.map (·.1)) (ps.map (·.2)) with
    | .ok h => heapLoop toks 0 { heap := h } {}
    | .err _ => "ERR@init"
    | .panic site => s!"PANIC@init {siteFile site}"
    | .fuelOut => "FUEL@init"
  | _ => "BAD-CASE"

/-! ### CACHE -/

inductive Tm where
  | atom (s : String)
  | list (items : List Tm)

/-- tokens of one s-expression field -/
def tokenize (s : String) : List String :=
  let (toks, cur) := s.toList.foldl (fun (acc : List String × List Char) c =>
    let (toks, cur) := acc
    let flush := if cur.isEmpty then toks else String.ofList cur.reverse :: toks
    if c == '(' || c == ')' then (String.singleton c :: flush, [])
    else if c == ' ' then (flush, [])
    else (toks, c :: cur)) ([], [])
  (if cur.isEmpty then toks else String.ofList cur.reverse :: toks).reverse

/-- flat terms only: `(head arg*)` -/
def parseFlat (s : String) : Option (String × List String) :=
  match tokenize s with
  | "(" :: head :: rest =>
    match rest.reverse with
    | ")" :: args => some (head, args.reverse)
    | _ => none
  | _ => none

def typeDiscr (n : String) : Option Nat :=
  (["Invalid", "Unit", "Number", "Type", "Char", "CharList", "Byte", "ByteList", "Symbol", "SymbolList", "Pair", "Range",
    "Concatenation", "Slice", "Partial", "List", "Expression", "External", "True", "False", "Custom"].findIdx? (· == n))

def typeName (d : Nat) : String :=
  (["Invalid", "Unit", "Number", "Type", "Char", "CharList", "Byte", "ByteList", "Symbol", "SymbolList", "Pair", "Range",
    "Concatenation", "Slice", "Partial", "List", "Expression", "External", "True", "False", "Custom"][d]?).getD "?"

/-- constant + (for floats) the `Display` text the harness has checked against `format!("{}", v)` -/
def parseConst (s : String) : Option (Const × Option (UInt64 × String)) :=
  match parseFlat s with
  | some ("i", [v]) => v.toInt?.map (fun v => (.int v, none))
  | some ("f", [bits, disp]) =>
    (Proto.parseHex bits.toList).map (fun n => (.float n.toUInt64, some (n.toUInt64, disp)))
  | some ("c", [v]) => v.toNat?.map (fun v => (.char v, none))
  | some ("b", [v]) => v.toNat?.map (fun v => (.byte v, none))
  | some ("s", [v]) => v.toNat?.map (fun v => (.symbol v, none))
  | some ("e", [v]) => v.toNat?.map (fun v => (.expression v, none))
  | some ("x", [v]) => v.toNat?.map (fun v => (.external v, none))
  | some ("ty", [n]) => (typeDiscr n).map (fun d => (.type d, none))
  | some ("cl", args) => (args.mapM String.toNat?).map (fun l => (.charList l, none))
  | some ("bl", args) => (args.mapM String.toNat?).map (fun l => (.byteList l, none))
  | _ => none

def showConst : Const → String
  | .int v => s!"(i {v})"
  | .float b => if isNaNBits b then "(f nan)" else s!"(f {Proto.toHex16 b.toNat})"
  | .char c => s!"(c {c})"
  | .byte b => s!"(b {b})"
  | .symbol s => s!"(s {s})"
  | .expression n => s!"(e {n})"
  | .external n => s!"(x {n})"
  | .type d => s!"(ty {typeName d})"
  | .charList l => "(cl" ++ String.join (l.map (fun c => s!" {c}")) ++ ")"
  | .byteList l => "(bl" ++ String.join (l.map (fun c => s!" {c}")) ++ ")"

def showSCell : Option SCell → String
  | some .unit => "U" | some .false => "F" | some .true => "T"
  | some (.const c) => showConst c
  | none => "<bad-addr>"

/-- variant `v0`: `cache_add` as written; `v1`: with the proposed repair -/
def cacheCase (f : List String) : String :=
  match f with
  | _ :: _ :: variant :: terms =>
    match terms.mapM parseConst with
    | none => "BAD-CASE"
    | some cs =>
      let table := cs.filterMap (·.2)
      let display : UInt64 → List Nat := fun b => (((table.find? (·.1 == b)).map (·.2)).getD "").toList.map Char.toNat
      let hash := rustHash display
      let consts := cs.map (·.1)
      let (s, addrs) := consts.foldl (fun (acc : SimpleStore × List Nat) c =>
        let (s, as) := acc
        if variant == "v1" then
          match cacheAddFixed hash s c with
          | some (s1, a) => (s1, a :: as)
          | none => (s, 0 :: as)
        else
          let (s1, a) := cacheAdd hash s c
          (s1, a :: as)) ({}, [])
      let addrs := addrs.reverse
      let a := addrs.map toString
      let r := addrs.map (fun a => showSCell s.data[a]?)
      let x := consts.map (fun c => Proto.toHex16 (hash c).toNat)
      s!"ok A={join "," a} R={join ";" r} X={join "," x}"
  | _ => "BAD-CASE"

end Garnish.Driver
