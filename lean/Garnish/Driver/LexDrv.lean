import Garnish.Driver.Proto
namespace Garnish.Driver
/-- LEX suite (stub, replaced by the lexer model's driver) -/
def lexCase (_f : List String) : String := "UNIMPLEMENTED"
end Garnish.Driver
