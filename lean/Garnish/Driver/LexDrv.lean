/- LEX suite of the driver: runs the lexer model (Garnish.Model.Lexer) with the generated Unicode range tables.
Case:   LEX \t id \t <escaped text>
Result: `ok` then per token `\tTypeName,row,col,<escaped token text>` | `err` | `PANIC <site>` | `FUELOUT` -/
import Garnish.Driver.Proto
import Garnish.Model.Lexer
import Garnish.Gen.CharRanges
namespace Garnish.Driver
open Garnish.Model.Lexer

/-- the Rust std predicates, from the tables dumped by the harness suite CHARCLASS -/
def rustCharClass : CharClass where
  isAlphanumeric := Garnish.Gen.CharRanges.isAlphanumeric
  isNumeric := Garnish.Gen.CharRanges.isNumeric

def showToken (t : LexerToken) : String :=
  s!"{t.tokenType.name},{t.row},{t.column},{Garnish.Proto.escape t.text}"

def showLexOutcome : Outcome (List LexerToken) → String
  | .ok tokens => tokens.foldl (fun acc t => acc ++ "\t" ++ showToken t) "ok"
  | .err _ => "err"
  | .panic site => s!"PANIC {site}"
  | .fuelOut => "FUELOUT"

/-- LEX suite -/
def lexCase (f : List String) : String :=
  match f with
  | _ :: _ :: text :: _ => showLexOutcome (lex rustCharClass (Garnish.Proto.unescape text.toList))
  | [_, _] => showLexOutcome (lex rustCharClass [])
  | _ => "BAD-CASE"
end Garnish.Driver
