/- ELAB suite: the elaboration `Abs.Source.elabSrc` of the reference tree of the lexed source against the generator's AST.
   Case:   ELAB \t id \t <escaped source text> \t <ast term>
   Result: `same` (equal up to the association of `;` / blank-line sequences; `same-p`: the source is outside the reference
           grammar — side-effect blocks — and the tree is the one of the parser model, `parse`) | `differs <why>` | `none <why>` (the source is outside what the elaboration covers: `lex`, `refparse`,
           `elab` say at which step) | `BAD-CASE …` -/
import Garnish.Driver.LexDrv
import Garnish.Driver.BuildDrv
import Garnish.Driver.RunDrv
import Garnish.Lemmas.SourceRep
import Garnish.Model.Tokens
namespace Garnish.Driver
open Garnish Garnish.Gen Garnish.Spec Garnish.Abs Garnish.Abs.Source Garnish.Model.Parser Garnish.Model.Lexer

namespace ElabAux

/- `showE`: the term of the generator (tools/gen/proggen.py `Numbering.term`) -/
mutual
def showE : E → String
  | .lit v => s!"(lit {showVal v})"
  | .input => "in"
  | .ident s => s!"(id {s})"
  | .unary op x => s!"(un {op.name} {showE x})"
  | .binary op a b => s!"(bin {op.name} {showE a} {showE b})"
  | .pair a b => s!"(pair {showE a} {showE b})"
  | .applyTo a b => s!"(applyto {showE a} {showE b})"
  | .list items => "(list" ++ showEs items ++ ")"
  | .cond t c e => s!"(cond {if t then "T" else "F"} {showE c} {showE e})"
  | .chain arms none => "(chain" ++ showArms arms ++ ")"
  | .chain arms (some fe) => "(chain" ++ showArms arms ++ s!" (else {showE fe}))"
  | .and a b => s!"(and {showE a} {showE b})"
  | .or a b => s!"(or {showE a} {showE b})"
  | .seq a b => s!"(seq {showE a} {showE b})"
  | .sideAfter a b => s!"(seafter {showE a} {showE b})"
  | .nested i => s!"(nested {i})"
  | .emptyNested => "enested"
  | .reapply x => s!"(reapply {showE x})"
  | .prefixApply s x => s!"(prefix {s} {showE x})"
  | .suffixApply x s => s!"(suffix {showE x} {s})"
  | .infixApply a s b => s!"(infix {showE a} {s} {showE b})"
def showEs : List E → String
  | [] => ""
  | x :: xs => " " ++ showE x ++ showEs xs
def showArms : List (Bool × E × E) → String
  | [] => ""
  | (t, c, e) :: xs => s!" (arm {if t then "T" else "F"} {showE c} {showE e})" ++ showArms xs
end

/-- `a ; b ; c`: the parser nests to the left (equal priority groups left to right, `;` binds tighter than a blank line), the
generator's term nests to the right; both mean and compile to the same sequence — compared as right-nested -/
def appendSeq : E → E → E
  | .seq p q, y => .seq p (appendSeq q y)
  | x, y => .seq x y

mutual
def normE : E → E
  | .unary op x => .unary op (normE x)
  | .binary op a b => .binary op (normE a) (normE b)
  | .pair a b => .pair (normE a) (normE b)
  | .applyTo a b => .applyTo (normE a) (normE b)
  | .list items => .list (normEs items)
  | .cond t c e => .cond t (normE c) (normE e)
  | .chain arms none => .chain (normArms arms) none
  | .chain arms (some fe) => .chain (normArms arms) (some (normE fe))
  | .and a b => .and (normE a) (normE b)
  | .or a b => .or (normE a) (normE b)
  | .seq a b => appendSeq (normE a) (normE b)
  | .sideAfter a b => .sideAfter (normE a) (normE b)
  | .reapply x => .reapply (normE x)
  | .prefixApply s x => .prefixApply s (normE x)
  | .suffixApply x s => .suffixApply (normE x) s
  | .infixApply a s b => .infixApply (normE a) s (normE b)
  | e => e
def normEs : List E → List E
  | [] => []
  | x :: xs => normE x :: normEs xs
def normArms : List (Bool × E × E) → List (Bool × E × E)
  | [] => []
  | (t, c, e) :: xs => (t, normE c, normE e) :: normArms xs
end

def showProgram (p : Program Float) : String :=
  "(prog " ++ showE (normE p.main) ++
    (p.bodies.filter (fun ib => ib.1 != 0)).foldl (fun acc ib => acc ++ s!" (body {ib.1} {showE (normE ib.2)})") "" ++ ")"

end ElabAux
open ElabAux

def elabCase (f : List String) : String :=
  match f with
  | _ :: _ :: src :: ast :: _ =>
    match (Term.parse ast).bind programOfTerm with
    | none => "BAD-CASE ast"
    | some pg =>
      match lex rustCharClass (Garnish.Proto.unescape src.toList) with
      | .ok ltoks =>
        let toks := Garnish.Model.toP ltoks
        let cmp (tag : String) (pe : Program Float) : String :=
          let a := showProgram pe
          let b := showProgram pg
          if a == b then "same" ++ tag else s!"differs{tag} elab={a} ast={b}"
        match refParse Table.gen toks with
        | .ok rt =>
          match elabSrc parseFloatImpl toks rt with
          | some pe => cmp "" pe
          | none => "none elab"
        | _ =>
          -- outside the reference grammar (side-effect blocks): the tree of the parser model itself
          match parse toks with
          | .ok r =>
            match toTree r with
            | some t =>
              match elabSrc parseFloatImpl toks (treeRT r.nodes t) with
              | some pe => cmp "-p" pe
              | none => "none elab-p"
            | none => "none tree"
          | _ => "none parse"
      | _ => "none lex"
  | _ => "BAD-CASE fields"

end Garnish.Driver
