/-
Driver-only instance of `FloatOps` at hardware doubles (`Float`). Not used by any theorem.
`rem` is an exact fmod (Sterbenz-exact subtraction of the scaled divisor); everything else is the
IEEE-754 primitive of the same hardware the Rust code runs on.
-/
import Garnish.Model.Number
namespace Garnish

/-- exact C `fmod` for finite x, nonzero finite y; IEEE special cases as in C -/
def fmodFloat (x y : Float) : Float :=
  if x.isNaN || y.isNaN || x.isInf || y == 0.0 then (0.0 / 0.0 : Float)
  else if y.isInf then x
  else
    let ax := x.abs
    let ay := y.abs
    let rec go (fuel : Nat) (r : Float) : Float :=
      match fuel with
      | 0 => r
      | fuel + 1 =>
        if r < ay then r
        else
          let (_, er) := r.frExp
          let (_, ey) := ay.frExp
          let t0 := ay.scaleB (er - ey)
          let t := if t0 > r then ay.scaleB (er - ey - 1) else t0
          go fuel (r - t)
    let r := go 2200 ax
    -- the result has the sign of x (also for a zero result)
    if x < 0.0 || (x == 0.0 && (1.0 / x) < 0.0) then -r else r

def floatToI32Sat (f : Float) : Int := f.toInt32.toInt

def floatToI32? (f : Float) : Option Int :=
  if f.isNaN || f.isInf then none
  else
    let t := if f < 0.0 then f.ceil else f.floor
    if t < -2147483648.0 || t > 2147483647.0 then none else some t.toInt32.toInt

def hwFloatOps : FloatOps Float where
  add := (· + ·)
  sub := (· - ·)
  mul := (· * ·)
  div := (· / ·)
  rem := fmodFloat
  powf := Float.pow
  neg := fun x => -x
  abs := Float.abs
  ofInt := Float.ofInt
  one := 1.0
  isFinite := Float.isFinite
  isInfinite := Float.isInf
  isNaN := Float.isNaN
  isZero := fun x => x == 0.0
  ltZero := fun x => x < 0.0
  trunc := fun f => if f < 0.0 then f.ceil else f.floor
  toI32? := floatToI32?
  toI32Sat := floatToI32Sat
  feq := fun a b => a == b
  flt := fun a b => a < b
  fle := fun a b => a ≤ b

end Garnish
