/- PARSE suite of the driver: runs `Garnish.Model.Parser.parse` on a token list given directly in the case line.
   Case:   PARSE \t id \t TypeName,<escaped text> \t ...   (optional first field `!errclass`: print the error class)
   Result: `ok root=<n>` then per node `\tDefinition/SecDef,parent,left,right,TokenTypeName,<escaped text>` | `err` -/
import Garnish.Driver.Proto
import Garnish.Model.Parser
import Garnish.Spec.Tree
import Garnish.Spec.RefParse
namespace Garnish.Driver
open Garnish Garnish.Gen Garnish.Model.Parser Garnish.Spec


/-- `TypeName,<escaped text>` → token (row/col are 0 as in the harness) -/
def parseTokenField (s : String) : Option PToken :=
  let cs := s.toList
  let name := cs.takeWhile (· != ',')
  match cs.dropWhile (· != ',') with
  | [] => none
  | _ :: text =>
    match TokenType.ofName? (String.ofList name) with
    | none => none
    | some tt => some { text := Garnish.Proto.unescape text, type := tt, row := 0, col := 0 }

def parseTokenFields : List String → Option (List PToken)
  | [] => some []
  | f :: rest =>
    match parseTokenField f, parseTokenFields rest with
    | some t, some ts => some (t :: ts)
    | _, _ => none

def showOptNat : Option Nat → String
  | none => "-"
  | some n => toString n

/- further helpers live in their own namespace so that they cannot clash with the other suites' drivers
   (`parseTokenField(s)` and `showOptNat` above are used by BuildDrv) -/
namespace ParseAux

def showNode (n : ParseNode) : String :=
  s!"\t{n.definition.name}/{n.secondaryDefinition.name},{showOptNat n.parent},{showOptNat n.left},{showOptNat n.right},{n.lexToken.type.name},{Garnish.Proto.escape n.lexToken.text}"

def showParseOutcome (errclass : Bool) (tokidx : Bool := false) : Outcome ParseResult → String
  | .ok r => r.nodes.foldl (fun acc n => acc ++ showNode n ++ (if tokidx then s!"@{n.lexToken.col}" else "")) s!"ok root={r.root}"
  | .err e => if errclass then s!"err {e.name}" else "err"
  | .panic site => s!"PANIC {site}"
  | .fuelOut => "FUELOUT"

/-- leading option fields `!errclass`, `!tokidx` -/
def splitOptions : List String → Bool → Bool → Bool × Bool × List String
  | "!errclass" :: rest, _, ti => splitOptions rest true ti
  | "!tokidx" :: rest, ec, _ => splitOptions rest ec true
  | fields, ec, ti => (ec, ti, fields)

/-- token k gets row 0, column k (as in the harness' `!tokidx` mode) -/
def numberTokens : List PToken → Nat → List PToken
  | [], _ => []
  | t :: rest, k => { t with col := k } :: numberTokens rest (k + 1)

end ParseAux
open ParseAux

def parseCasePlain (f : List String) : String :=
  let (errclass, tokidx, fields) := splitOptions (f.drop 2) false false
  match parseTokenFields fields with
  | none => "BAD-CASE"
  | some tokens =>
    let tokens := if tokidx then numberTokens tokens 0 else tokens
    showParseOutcome errclass tokidx (parse tokens)

/-! ### TREECHK: the verified proper-tree checker on a node dump (of the implementation)
  case   TREECHK \t id \t root \t nNodes \t node.. \t tok..   node = `Definition/SecDef,parent,left,right,TokenType,text@k`
  result proper=<b> inorder_sorted=<b> covers_significant=<b> missing=<i,..> extra=<i,..> tree=<s-expression> -/

namespace ParseAux
def parseOptNat (s : String) : Option (Option Nat) :=
  if s == "-" then some none else s.toNat?.map some

def splitOnChar (c : Char) (cs : List Char) : List (List Char) :=
  let r := cs.foldr (fun x (acc : List Char × List (List Char)) =>
    if x == c then ([], acc.1 :: acc.2) else (x :: acc.1, acc.2)) ([], [])
  r.1 :: r.2

/-- split the first `n` comma separated fields off -/
def splitFields : Nat → List Char → List Char → List (List Char)
  | 0, cur, cs => [cur.reverse ++ cs]
  | _, cur, [] => [cur.reverse]
  | n + 1, cur, c :: cs => if c == ',' then cur.reverse :: splitFields n [] cs else splitFields (n + 1) (c :: cur) cs

def parseNodeField (s : String) : Option ParseNode :=
  match splitFields 5 [] s.toList with
  | [ds, p, l, r, tt, textk] =>
    let dsl := splitOnChar '/' ds
    -- the token index follows the last '@'
    let rev := textk.reverse
    let kRev := rev.takeWhile (· != '@')
    let textRev := (rev.dropWhile (· != '@')).drop 1
    match dsl, parseOptNat (String.ofList p), parseOptNat (String.ofList l), parseOptNat (String.ofList r),
        TokenType.ofName? (String.ofList tt), (String.ofList kRev.reverse).toNat? with
    | [d, sd], some p, some l, some r, some tt, some k =>
      match Definition.ofName? (String.ofList d), SecDef.ofName? (String.ofList sd) with
      | some d, some sd =>
        some { definition := d, secondaryDefinition := sd, parent := p, left := l, right := r,
               lexToken := { text := Garnish.Proto.unescape textRev.reverse, type := tt, row := 0, col := k } }
      | _, _ => none
    | _, _, _, _, _, _ => none
  | _ => none

def parseNodeFields : List String → Option (List ParseNode)
  | [] => some []
  | f :: rest =>
    match parseNodeField f, parseNodeFields rest with
    | some n, some ns => some (n :: ns)
    | _, _ => none

def showNats (l : List Nat) : String := ",".intercalate (l.map toString)

/-- s-expression of the implementation's tree; a bracket node prints like the reference tree's `group` -/
def renderTree (r : ParseResult) : Tree → String
  | .nil => "-"
  | .node l i k rt =>
    let d := match r.nodes[i]? with
      | some n => n.definition.name
      | none => "?"
    "(" ++ d ++ " " ++ toString k ++ " " ++ renderTree r l ++ " " ++ renderTree r rt ++ ")"

end ParseAux

def treechkCase (f : List String) : String :=
  match f with
  | _ :: _ :: root :: n :: rest =>
    match root.toNat?, n.toNat? with
    | some root, some n =>
      match parseNodeFields (rest.take n), parseTokenFields (rest.drop n) with
      | some nodes, some toks =>
        let r : ParseResult := { root := root, nodes := nodes.toArray }
        match toTree r with
        | none => "proper=false inorder_sorted=- covers_significant=- missing= extra= tree=-"
        | some t =>
          let (missing, extra) := coverage r t.inorder (significant toks)
          s!"proper=true inorder_sorted={inorderSorted t} covers_significant={missing.isEmpty && extra.isEmpty} missing={showNats missing} extra={showNats extra} tree={renderTree r t}"
      | _, _ => "BAD-CASE"
    | _, _ => "BAD-CASE"
  | _ => "BAD-CASE"

/-! ### REFPARSE: the reference parser (`Spec.refParse` with the generated table) on a token list (same syntax as PARSE)
  result `ok <s-expression>` | `err <class>` -/
def refparseCase (f : List String) : String :=
  match parseTokenFields (f.drop 2) with
  | none => "BAD-CASE"
  | some tokens =>
    match refParse Table.spec tokens with
    | .ok t => "ok " ++ t.render
    | .err e => s!"err {e.name}"
    | .panic s => s!"PANIC {s}"
    | .fuelOut => "FUELOUT"

/-- PARSE suite. Until TREECHK / REFPARSE are registered as suites of their own they are also reachable as
    `PARSE \t id \t !treechk \t root \t n \t ..` and `PARSE \t id \t !refparse \t tok..`. -/
def parseCase (f : List String) : String :=
  match f with
  | s :: id :: "!treechk" :: rest => treechkCase (s :: id :: rest)
  | s :: id :: "!refparse" :: rest => refparseCase (s :: id :: rest)
  | _ => parseCasePlain f

end Garnish.Driver
