/- PARSE suite of the driver: runs `Garnish.Model.Parser.parse` on a token list given directly in the case line.
   Case:   PARSE \t id \t TypeName,<escaped text> \t ...   (optional first field `!errclass`: print the error class)
   Result: `ok root=<n>` then per node `\tDefinition/SecDef,parent,left,right,TokenTypeName,<escaped text>` | `err` -/
import Garnish.Driver.Proto
import Garnish.Model.Parser
namespace Garnish.Driver
open Garnish Garnish.Gen Garnish.Model.Parser

/-- `TypeName,<escaped text>` → token (row/col are 0 as in the harness) -/
def parseTokenField (s : String) : Option PToken :=
  let cs := s.toList
  let name := cs.takeWhile (· != ',')
  match cs.dropWhile (· != ',') with
  | [] => none
  | _ :: text =>
    match TokenType.ofName? (String.ofList name) with
    | none => none
    | some tt => some { text := Garnish.Proto.unescape text, type := tt, row := 0, col := 0 }

def parseTokenFields : List String → Option (List PToken)
  | [] => some []
  | f :: rest =>
    match parseTokenField f, parseTokenFields rest with
    | some t, some ts => some (t :: ts)
    | _, _ => none

def showOptNat : Option Nat → String
  | none => "-"
  | some n => toString n

def showNode (n : ParseNode) : String :=
  s!"\t{n.definition.name}/{n.secondaryDefinition.name},{showOptNat n.parent},{showOptNat n.left},{showOptNat n.right},{n.lexToken.type.name},{Garnish.Proto.escape n.lexToken.text}"

def showParseOutcome (errclass : Bool) : Outcome ParseResult → String
  | .ok r => r.nodes.foldl (fun acc n => acc ++ showNode n) s!"ok root={r.root}"
  | .err e => if errclass then s!"err {e.name}" else "err"
  | .panic site => s!"PANIC {site}"
  | .fuelOut => "FUELOUT"

def parseCase (f : List String) : String :=
  let fields := f.drop 2
  let (errclass, fields) :=
    match fields with
    | "!errclass" :: rest => (true, rest)
    | _ => (false, fields)
  match parseTokenFields fields with
  | none => "BAD-CASE"
  | some tokens => showParseOutcome errclass (parse tokens)

end Garnish.Driver
