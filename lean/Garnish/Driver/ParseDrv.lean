import Garnish.Driver.Proto
namespace Garnish.Driver
/-- PARSE suite (stub, replaced by the parser model's driver) -/
def parseCase (_f : List String) : String := "UNIMPLEMENTED"
end Garnish.Driver
