import Garnish.Driver.Proto
namespace Garnish.Driver
def listCase (_f : List String) : String := "UNIMPLEMENTED"
end Garnish.Driver
