/-
LIST suite (C16): builds the value term in a model of each store (address allocation as the implementation
does it, lists through `Store.Lists`), answers the data-level queries from the store models and the
runtime-level queries from the value-level semantics (`Abs.Ops`).
Line format: see harness/src/lists.rs.
-/
import Garnish.Abs.Ops
import Garnish.Driver.ValIO
import Garnish.Store.Lists
namespace Garnish.Driver
open Garnish Garnish.Abs Garnish.Store.Lists

/-! ### SimpleGarnishData: `data` seeded with unit/false/true, scalars through `cache_add`, the rest pushed -/

structure SSt where
  cells : Array SCell
  vals : Array V                   -- the value an address denotes (for rendering only)
  cache : List (String × Nat)

def SSt.init : SSt := ⟨#[.other, .other, .other], #[.unit, .fls, .tru], []⟩

def SSt.push (st : SSt) (c : SCell) (v : V) : Nat × SSt :=
  (st.cells.size, { st with cells := st.cells.push c, vals := st.vals.push v })

def SSt.cached (st : SSt) (c : SCell) (v : V) : Nat × SSt :=
  let key := showVal v
  match st.cache.lookup key with
  | some a => (a, st)
  | none =>
    let (a, st) := st.push c v
    (a, { st with cache := (key, a) :: st.cache })

mutual
def buildS : V → SSt → Except String (Nat × SSt)
  | .unit, st => .ok (0, st)
  | .fls, st => .ok (1, st)
  | .tru, st => .ok (2, st)
  | .num n, st => .ok (st.cached .other (.num n))
  | .char c, st => .ok (st.cached .other (.char c))
  | .byte b, st => .ok (st.cached .other (.byte b))
  | .sym s, st => .ok (st.cached (.sym s) (.sym s))
  | .expr j, st => .ok (st.cached .other (.expr j))
  | .ext n, st => .ok (st.cached .other (.ext n))
  | .type t, st => .ok (st.cached .other (.type t))
  | .chars cs, st => .ok (st.push .other (.chars cs))
  | .bytes bs, st => .ok (st.push .other (.bytes bs))
  | .pair l r, st =>
    match buildS l st with
    | .error e => .error e
    | .ok (a, st) =>
      match buildS r st with
      | .error e => .error e
      | .ok (b, st) => .ok (st.push (.pair a b) (.pair l r))
  | .concat l r, st =>
    match buildS l st with
    | .error e => .error e
    | .ok (a, st) =>
      match buildS r st with
      | .error e => .error e
      | .ok (b, st) => .ok (st.push (.concat a b) (.concat l r))
  | .range l r, st =>
    match buildS l st with
    | .error e => .error e
    | .ok (_, st) =>
      match buildS r st with
      | .error e => .error e
      | .ok (_, st) => .ok (st.push .other (.range l r))
  | .part l r, st =>
    match buildS l st with
    | .error e => .error e
    | .ok (_, st) =>
      match buildS r st with
      | .error e => .error e
      | .ok (_, st) => .ok (st.push .other (.part l r))
  | .list items, st =>
    match buildSList items st with
    | .error e => .error e
    | .ok (addrs, st) =>
      match endListSimple addrs with
      | .ok (its, ord) => .ok (st.push (.list its ord) (.list items))
      | .err _ => .error "SETUP-ERR data error"
      | .panic m => .error ("PANIC " ++ m)
      | .fuelOut => .error "FUEL"
  | _, _ => .error "UNSUPPORTED-TERM"
def buildSList : List V → SSt → Except String (List Nat × SSt)
  | [], st => .ok ([], st)
  | v :: vs, st =>
    match buildS v st with
    | .error e => .error e
    | .ok (a, st) =>
      match buildSList vs st with
      | .error e => .error e
      | .ok (as, st) => .ok (a :: as, st)
end

/-! ### BasicGarnishData: every `add_*` pushes cells onto the data block -/

structure BSt where
  cells : BHeap
  vals : Array V

def BSt.push (st : BSt) (c : BCell) (v : V) : Nat × BSt :=
  (st.cells.size, { cells := st.cells.push c, vals := st.vals.push v })

def BSt.pushMany (st : BSt) (n : Nat) : BSt :=
  { cells := st.cells ++ Array.replicate n .other, vals := st.vals ++ Array.replicate n .unit }

mutual
def buildB : V → BSt → Except String (Nat × BSt)
  | .unit, st => .ok (st.push .other .unit)
  | .fls, st => .ok (st.push .other .fls)
  | .tru, st => .ok (st.push .other .tru)
  | .num n, st => .ok (st.push .other (.num n))
  | .char c, st => .ok (st.push .other (.char c))
  | .byte b, st => .ok (st.push .other (.byte b))
  | .sym s, st => .ok (st.push (.sym s) (.sym s))
  | .expr j, st => .ok (st.push .other (.expr j))
  | .ext n, st => .ok (st.push .other (.ext n))
  | .type t, st => .ok (st.push .other (.type t))
  | .chars cs, st => let (a, st) := st.push .other (.chars cs); .ok (a, st.pushMany cs.length)
  | .bytes bs, st => let (a, st) := st.push .other (.bytes bs); .ok (a, st.pushMany bs.length)
  | .pair l r, st =>
    match buildB l st with
    | .error e => .error e
    | .ok (a, st) =>
      match buildB r st with
      | .error e => .error e
      | .ok (b, st) => .ok (st.push (.pair a b) (.pair l r))
  | .concat l r, st =>
    match buildB l st with
    | .error e => .error e
    | .ok (a, st) =>
      match buildB r st with
      | .error e => .error e
      | .ok (b, st) => .ok (st.push (.concat a b) (.concat l r))
  | .range l r, st =>
    match buildB l st with
    | .error e => .error e
    | .ok (_, st) =>
      match buildB r st with
      | .error e => .error e
      | .ok (_, st) => .ok (st.push .other (.range l r))
  | .part l r, st =>
    match buildB l st with
    | .error e => .error e
    | .ok (_, st) =>
      match buildB r st with
      | .error e => .error e
      | .ok (_, st) => .ok (st.push .other (.part l r))
  | .list items, st =>
    match buildBList items st with
    | .error e => .error e
    | .ok (addrs, st) =>
      match buildListBasic st.cells addrs with
      | .ok (h2, a) =>
        let vals := (st.vals.push (.list items)) ++ Array.replicate (2 * addrs.length) Val.unit
        .ok (a, { cells := h2, vals := vals })
      | .err _ => .error "SETUP-ERR data error"
      | .panic m => .error ("PANIC " ++ m)
      | .fuelOut => .error "FUEL"
  | _, _ => .error "UNSUPPORTED-TERM"
def buildBList : List V → BSt → Except String (List Nat × BSt)
  | [], st => .ok ([], st)
  | v :: vs, st =>
    match buildB v st with
    | .error e => .error e
    | .ok (a, st) =>
      match buildBList vs st with
      | .error e => .error e
      | .ok (as, st) => .ok (a :: as, st)
end

/-! ### queries -/

/-- the data interface of a built store, as far as the LIST suite uses it -/
structure ListData where
  len : Outcome Nat
  items : Outcome (List Nat)
  nth : Int → Outcome (Option Nat)
  sym : Nat → Outcome (Option Nat)
  show_ : Nat → String

def showOptItem (d : ListData) : Outcome (Option Nat) → String
  | .ok (some a) => d.show_ a
  | .ok none => "none"
  | .err _ => "err"
  | .panic m => "PANIC " ++ m
  | .fuelOut => "FUEL"

def opOutStr : OpOut Float → String
  | .val v => showVal v
  | .defer _ _ _ => "U"              -- no host installed: the offer is declined, unit
  | .err _ => "err"

def applyStr (l r : V) : String :=
  match applyKind hwFloatOps .apply true l r with
  | .out o => opOutStr o
  | .enter _ _ => "ENTER"
  | .external _ _ => "EXTERNAL"

def answer (d : ListData) (v : V) (q : String) : String :=
  let (name, arg) := match q.splitOn ":" with
    | [n, a] => (n, a)
    | _ => (q, "")
  match name with
  | "len" => match d.len with
    | .ok n => s!"len={n}"
    | .err _ => "len=err"
    | .panic m => "len=PANIC " ++ m
    | .fuelOut => "len=FUEL"
  | "items" => match d.items with
    | .ok xs => "items=[" ++ String.intercalate "," (xs.map d.show_) ++ "]"
    | .err _ => "items=err"
    | .panic m => "items=PANIC " ++ m
    | .fuelOut => "items=FUEL"
  | "nth" => match arg.toInt? with
    | some i => s!"nth({i})=" ++ showOptItem d (d.nth i)
    | none => "BAD-CASE nth"
  | "sym" => match arg.toNat? with
    | some s => s!"sym({s})=" ++ showOptItem d (d.sym s)
    | none => "BAD-CASE sym"
  | "acc" => match arg.toInt? with
    | some i => s!"acc({i})=" ++ opOutStr (access hwFloatOps v (.num (.int i)))
    | none => "BAD-CASE acc"
  | "app" => match arg.toInt? with
    | some i => s!"app({i})=" ++ applyStr v (.num (.int i))
    | none => "BAD-CASE app"
  | "accs" => match arg.toNat? with
    | some s => s!"accs({s})=" ++ opOutStr (access hwFloatOps v (.sym s))
    | none => "BAD-CASE accs"
  | "apps" => match arg.toNat? with
    | some s => s!"apps({s})=" ++ applyStr v (.sym s)
    | none => "BAD-CASE apps"
  | x => "BAD-CASE query " ++ x

def showAddr (vals : Array V) (a : Nat) : String :=
  match vals[a]? with
  | some v => showVal v
  | none => "<bad-addr>"

def isConcat : V → Bool
  | .concat _ _ => true
  | _ => false

def listCase (f : List String) : String :=
  match f with
  | [_, _, store, term, queries] =>
    match parseVal term with
    | none => "BAD-CASE term"
    | some v =>
      let qs := (queries.splitOn " ").filter (· ≠ "")
      if store == "simple" then
        match buildS v SSt.init with
        | .error e => e
        | .ok (addr, st) =>
          let view : SView := fun a => st.cells[a]?
          let d : ListData := {
            len := listLenSimple view addr
            items := if isConcat v then concatIterSimple view (2 * st.cells.size + 2) addr else listIterSimple view addr
            nth := listItemSimple view addr
            sym := listLookupSimple view addr
            show_ := showAddr st.vals }
          String.intercalate " " (qs.map (answer d v))
      else if store == "basic" then
        match buildB v ⟨#[], #[]⟩ with
        | .error e => e
        | .ok (addr, st) =>
          let d : ListData := {
            len := listLenBasic st.cells addr
            items := if isConcat v then concatIterBasic st.cells (2 * st.cells.size + 2) addr else listIterBasic st.cells addr
            nth := listItemBasic st.cells addr
            sym := lookupBasic st.cells addr
            show_ := showAddr st.vals }
          String.intercalate " " (qs.map (answer d v))
      else "BAD-CASE store " ++ store
  | _ => "BAD-CASE fields"

end Garnish.Driver
