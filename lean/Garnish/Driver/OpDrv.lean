/- OP suite: one instruction of the abstract machine on two operand values -/
import Garnish.Abs.Machine
import Garnish.Abs.Casts
import Garnish.Driver.ValIO
namespace Garnish.Driver
open Garnish Gen Garnish.Abs

def hostOfMode (mode : String) (simple : Bool) : Host Float :=
  if mode == "accept" then
    ⟨fun _ _ _ => some (.num (.int 777)), fun _ => none, fun _ _ => if simple then none else some (.num (.int 888))⟩
  else Host.declining

def showCall : HostCall Float → String
  -- `type_cast` hands the host the TARGET type as the right operand's type; the harness log prints a unit-typed
  -- operand as `U` without looking at the address
  | .defer .applyType l r =>
    let rt := castTarget r
    s!"defer(ApplyType,{l.typeOf.name}:{showVal l},{rt.name}:{if rt == .unit then "U" else showVal r})"
  | .defer op l r => s!"defer({op.name},{l.typeOf.name}:{showVal l},{r.typeOf.name}:{showVal r})"
  | .resolve s => s!"resolve({s})"
  | .apply n a => s!"apply({n},{showVal a})"

/-- `absent`: no callbacks installed, nothing is logged. SimpleGarnishData has no apply hook at all. -/
def showTrace (absent simple : Bool) (tr : List (HostCall Float)) : String :=
  if absent then "" else
  let tr := if simple then tr.filter (fun c => match c with | .apply _ _ => false | _ => true) else tr
  String.intercalate ";" (tr.reverse.map showCall)

def errName : ErrClass → String
  | .unsupported => "UnsupportedOpTypes"
  | _ => "Unknown"

/-- the OP suite pushes A then B; no callbacks are installed at all in `absent` mode (nothing is logged) -/
def opCase (f : List String) : String :=
  match f with
  | [_, _, store, instr, mode, a, b] =>
    match Instruction.ofName? instr with
    | none => "UNKNOWN-INSTR " ++ instr
    | some ins =>
      let pa := if a == "-" then some none else (parseVal a).map some
      let pb := if b == "-" then some none else (parseVal b).map some
      match pa, pb with
      | some va, some vb =>
        let pushed : List V := (match vb with | some v => [v] | none => []) ++ (match va with | some v => [v] | none => [])
        let P : Prog Float := { instrs := #[(ins, some 0)], jumps := #[42, 43, 44, 45], consts := #[] }
        let s0 : MState Float := { pc := 0, regs := pushed, vals := [], frames := [], trace := [] }
        let out (s : MState Float) : String :=
          let top := match s.regs with | v :: _ => showVal v | [] => "-"
          let delta : Int := (s.regs.length : Int)
          s!"ok {top} regs={delta} next={s.pc} vals={s.vals.length} frames={s.frames.length} log={showTrace (mode == "absent") (store == "simple") s.trace}"
        -- ApplyType: the machine's step does not know casts (Abs/Machine.lean is frozen); the suite applies
        -- `castOp` (Abs/Casts.lean) to (left = A, right = B) and pushes the outcome the way `step` does for
        -- every other binary instruction.  Float → text is not reproduced (cases skipped by opsuite).
        let env : CastEnv Float := ⟨if store == "simple" then .simple else .basic, fun f => (toString f).toList.map Char.toNat⟩
        let res : StepRes Float :=
          match ins, va, vb with
          | .applyType, some l, some r =>
            seqNext P s0 (pushOut (hostOfMode mode (store == "simple")) { s0 with regs := [] } (castOp hwFloatOps env l r))
          | _, _, _ => step hwFloatOps (hostOfMode mode (store == "simple")) P s0
        match res with
        | .running s => out s
        | .halted s => out s
        | .err e => "err " ++ errName e
      | _, _ => "BAD-CASE term"
  | _ => "BAD-CASE fields"

end Garnish.Driver
