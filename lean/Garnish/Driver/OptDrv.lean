/-
OPT / CLONE suites: the model of `optimize` / `clone_data` on the same scripts as harness/src/opts.rs.
The driver prints the same record the harness prints (blocks, heads, mapping, raw data cells, symbol
table, structural read-back before/after) and appends ` iso=<graphIso verdict>` per record, computed by
the verified checker of Spec/GraphIso.lean on (data block before, data block after, root pairs).
` awf=<0|1>` (per record, on the store after the call, and on the final store): the well-formedness `Heap.WF` that
the accessor theorems of Props/C07Access.lean assume, decided on the heap view `toAccessHeap` of the store
(Props/C07Reach.lean proves it for every reachable store; the suite compares the store with the real heap cell by cell).
` wfq=<0|1>` next to it: the invariant `WFq` of Props/C07ReachV.lean (stores with in-place updates of the input value) decided
on the same store; ` ns=<0|1>` on `opt` records: the side condition `noStale` of the `optimize` step on the store before the call.
Extra op (driver only): `load <dump>` replaces the state by a heap dump printed by the harness
(used to replay the pre-states of running programs).
-/
import Garnish.Store.BasicOptimize
import Garnish.Spec.GraphIso
import Garnish.Lemmas.OptimizeWF
import Garnish.Lemmas.OptimizeWFv
import Garnish.Lemmas.AccessReach
import Garnish.Lemmas.MutStale
import Garnish.Driver.ValIO
namespace Garnish.Driver.Opt
open Garnish Gen Garnish.Proto Garnish.BasicOpt Garnish.Driver

/-! ### numbers: injective encoding of `SimpleNumber` into the opaque payload -/

def encNum : Number Float → Nat
  | .int v => 2 * (v + 2147483648).toNat
  | .float f => 2 * f.toBits.toNat + 1

def decNum (n : Nat) : Number Float :=
  if n % 2 = 0 then .int ((n / 2 : Nat) - 2147483648) else .float (Float.ofBits (n / 2).toUInt64)

def numToken (n : Nat) : String :=
  match decNum n with
  | .int v => s!"i{v}"
  | .float f => s!"f{toHex16 f.toBits.toNat}"

/-! ### cell tokens -/

def cellToken : Cell → String
  | .unit => "U" | .tru => "T" | .fls => "F"
  | .type t => s!"TY:{t.name}"
  | .number n => "N:" ++ numToken n
  | .char c => s!"C:{c}" | .byte b => s!"B:{b}" | .symbol s => s!"S:{s}"
  | .symbolList n => s!"SL:{n}" | .expression e => s!"E:{e}" | .external e => s!"X:{e}"
  | .charList n => s!"CL:{n}" | .byteList n => s!"BL:{n}"
  | .pair a b => s!"P:{a},{b}" | .range a b => s!"R:{a},{b}" | .slice a b => s!"SLC:{a},{b}"
  | .partial_ a b => s!"PA:{a},{b}" | .list a b => s!"L:{a},{b}" | .concatenation a b => s!"CAT:{a},{b}"
  | .custom => "CU" | .empty => "_"
  | .uninitializedList a b => s!"UL:{a},{b}" | .listItem a => s!"LI:{a}"
  | .associativeItem s a => s!"AI:{s},{a}"
  | .value a b => s!"V:{a},{b}" | .valueRoot a => s!"VR:{a}"
  | .register a b => s!"RG:{a},{b}" | .registerRoot a => s!"RR:{a}"
  | .instructionWithData c d => s!"IWD:{c},{d}" | .instruction c => s!"I:{c}"
  | .jumpPoint p => s!"JP:{p}"
  | .frame a b => s!"FR:{a},{b}" | .frameIndex a => s!"FI:{a}" | .frameRegister a => s!"FG:{a}"
  | .frameRoot => "FRT"
  | .cloneItem a => s!"CI:{a}" | .cloneIndexMap a b => s!"CM:{a},{b}"

def parseNumToken (s : String) : Option Nat :=
  match s.toList with
  | 'i' :: r => (String.ofList r).toInt?.map (fun v => encNum (.int v))
  | 'f' :: r => (parseHex r).map (fun b => 2 * b + 1)
  | _ => none

def parseCellToken (tok : String) : Option Cell :=
  match tok.splitOn ":" with
  | ["U"] => some .unit | ["T"] => some .tru | ["F"] => some .fls | ["CU"] => some .custom
  | ["_"] => some .empty | ["FRT"] => some .frameRoot
  | [tag, body] =>
    let args := (body.splitOn ",").map String.toNat?
    match tag, args with
    | "TY", _ => (Ty.ofName? body).map .type
    | "N", _ => (parseNumToken body).map .number
    | "C", [some a] => some (.char a) | "B", [some a] => some (.byte a) | "S", [some a] => some (.symbol a)
    | "SL", [some a] => some (.symbolList a) | "E", [some a] => some (.expression a) | "X", [some a] => some (.external a)
    | "CL", [some a] => some (.charList a) | "BL", [some a] => some (.byteList a)
    | "P", [some a, some b] => some (.pair a b) | "R", [some a, some b] => some (.range a b)
    | "SLC", [some a, some b] => some (.slice a b) | "PA", [some a, some b] => some (.partial_ a b)
    | "L", [some a, some b] => some (.list a b) | "CAT", [some a, some b] => some (.concatenation a b)
    | "UL", [some a, some b] => some (.uninitializedList a b) | "LI", [some a] => some (.listItem a)
    | "AI", [some a, some b] => some (.associativeItem a b)
    | "V", [some a, some b] => some (.value a b) | "VR", [some a] => some (.valueRoot a)
    | "RG", [some a, some b] => some (.register a b) | "RR", [some a] => some (.registerRoot a)
    | "IWD", [some a, some b] => some (.instructionWithData a b) | "I", [some a] => some (.instruction a)
    | "JP", [some a] => some (.jumpPoint a)
    | "FR", [some a, some b] => some (.frame a b) | "FI", [some a] => some (.frameIndex a)
    | "FG", [some a] => some (.frameRegister a)
    | "CI", [some a] => some (.cloneItem a) | "CM", [some a, some b] => some (.cloneIndexMap a b)
    | _, _ => none
  | _ => none

def showOpt : Option Nat → String
  | some v => toString v
  | none => "-"

def blockStr (b : BlockInfo) : String := s!"({b.start},{b.cursor},{b.size})"

def dump (s : Store) : String :=
  let b := blockStr s.instr ++ blockStr s.jump ++ s!"({s.instr.size + s.jump.size},{s.symtab.size},{s.symSize})"
    ++ blockStr s.expr ++ s!"({s.start},{s.cells.size},{s.size})" ++ blockStr s.custom
  let cells := String.intercalate " " (s.cells.toList.map cellToken)
  let syms := String.intercalate " " (s.symtab.toList.map cellToken)
  s!"B={b} H=v:{showOpt s.currentValue},r:{showOpt s.currentRegister},f:{showOpt s.currentFrame},ret:{s.retention} D=[{cells}] Y=[{syms}] W=0"

/-! ### loading a dump -/

def between (s : String) (pre post : String) : Option String :=
  match s.splitOn pre with
  | _ :: rest :: _ => (rest.splitOn post).head?
  | _ => none

def parseTriples (s : String) : List (Nat × Nat × Nat) :=
  (s.splitOn "(").filterMap (fun part =>
    match ((part.splitOn ")").headD "").splitOn "," with
    | [a, b, c] => match a.toNat?, b.toNat?, c.toNat? with
      | some a, some b, some c => some (a, b, c)
      | _, _, _ => none
    | _ => none)

def parseOptNat (s : String) : Option Nat := if s = "-" then none else s.toNat?

def parseCells (s : String) : Option (Array Cell) :=
  let toks := (s.splitOn " ").filter (· ≠ "")
  (toks.mapM parseCellToken).map List.toArray

def loadDump (d : String) : Option Store :=
  match between d "B=" " ", between d "H=" " ", between d "D=[" "]", between d "Y=[" "]" with
  | some b, some h, some cs, some ys =>
    match parseTriples b, h.splitOn ",", parseCells cs, parseCells ys with
    | [(is, ic, iz), (js, jc, jz), (_, _, yz), (es, ec, ez), (ds, _, dz), (us, uc, uz)], [v, r, f, ret], some cells, some syms =>
      let strip (x : String) : String := ((x.splitOn ":").getD 1 "")
      some { cells := cells, size := dz, start := ds, grow := 10, symtab := syms, symSize := yz, symGrow := 10
             instr := ⟨is, ic, iz⟩, jump := ⟨js, jc, jz⟩, expr := ⟨es, ec, ez⟩, custom := ⟨us, uc, uz⟩
             currentValue := parseOptNat (strip v), currentRegister := parseOptNat (strip r)
             currentFrame := parseOptNat (strip f), retention := (strip ret).toNat?.getD 0 }
    | _, _, _, _ => none
  | _, _, _, _ => none

/-! ### building values (values::build on the Basic store, with `@k` handles) -/

def handleOf (tok : String) (hs : Array Nat) : Option Nat :=
  match tok.toList with
  | '@' :: r => ((String.ofList r).toNat?).bind (fun k => hs[k]?)
  | _ => none

def bad {α} : Outcome α := .err .other

def natArgs (ts : List Term) : Option (List Nat) :=
  ts.mapM (fun t => match t with | .atom a => a.toNat? | _ => none)

mutual
def buildTerm (hs : Array Nat) : Term → Store → Outcome (Store × Nat)
  | .atom a, s =>
    if a = "U" then s.push .unit else if a = "T" then s.push .tru else if a = "F" then s.push .fls
    else match handleOf a hs with
      | some x => .ok (s, x)
      | none => bad
  | .node (.atom h :: rest), s =>
    if h = "i" ∨ h = "f" then
      match numOfTerm (.atom h :: rest) with
      | some n => s.push (.number (encNum n))
      | none => bad
    else if h = "c" ∨ h = "b" ∨ h = "s" ∨ h = "e" ∨ h = "x" then
      match natArgs rest with
      | some [v] => s.push (if h = "c" then .char v else if h = "b" then .byte v else if h = "s" then .symbol v
                            else if h = "e" then .expression v else .external v)
      | _ => bad
    else if h = "ty" then
      match rest with
      | [.atom v] => match Ty.ofName? v with
        | some t => s.push (.type t)
        | none => bad
      | _ => bad
    else if h = "cl" then
      match natArgs rest with
      | some cs => s.addInline (.charList cs.length) (cs.map .char)
      | none => bad
    else if h = "bl" then
      match natArgs rest with
      | some cs => s.addInline (.byteList cs.length) (cs.map .byte)
      | none => bad
    else if h = "p" ∨ h = "cat" ∨ h = "r" ∨ h = "sl" ∨ h = "pa" then do
      let (s, addrs) ← buildTerms hs rest s
      match addrs with
      | [l, r] => s.push (if h = "p" then .pair l r else if h = "cat" then .concatenation l r
                          else if h = "r" then .range l r else if h = "sl" then .slice l r else .partial_ l r)
      | _ => bad
    else if h = "l" then do
      let (s, addrs) ← buildTerms hs rest s
      s.buildList addrs
    else if h = "syl" then
      match rest with
      | t :: more@(_ :: _) => do
        let (s, acc) ← buildTerm hs t s
        buildSyl hs more acc s
      | _ => bad
    else bad
  | .node _, _ => bad
def buildTerms (hs : Array Nat) : List Term → Store → Outcome (Store × List Nat)
  | [], s => .ok (s, [])
  | t :: ts, s => do
    let (s, a) ← buildTerm hs t s
    let (s, as) ← buildTerms hs ts s
    pure (s, a :: as)
def buildSyl (hs : Array Nat) : List Term → Nat → Store → Outcome (Store × Nat)
  | [], acc, s => .ok (s, acc)
  | t :: ts, acc, s => do
    let (s, a) ← buildTerm hs t s
    let (s, acc) ← s.mergeToSymbolList acc a
    buildSyl hs ts acc s
end

/-! ### structural read-back from the model (what values::render prints through the getters) -/

def treeFuel (s : Store) : Nat := s.cells.size + 2

def renderTree (t : Tree) : String :=
  match Tree.toVal decNum t with
  | some v => showVal v
  | none => "<undecodable>"

/-- key lookups of lists, in the order harness `render_keys` emits them -/
def keysOf : Nat → Tree → List String
  | 0, _ => []
  | fuel + 1, .node lab inl kids =>
    match lab with
    | .pair _ _ | .concatenation _ _ | .range _ _ | .slice _ _ | .partial_ _ _ =>
      kids.flatMap (keysOf fuel)
    | .list n _ =>
      let items := kids.take n
      let targets := kids.drop n
      let syms := items.foldl (fun acc it => match it with
        | .node (.pair _ _) _ (.node (.symbol sy) _ _ :: _) => if acc.contains sy then acc else acc ++ [sy]
        | _ => acc) ([] : List Nat)
      let own := syms.map (fun sy =>
        let v := match Store.searchAssoc inl sy with
          | .ok (some i) => (match targets[i]? with | some t => renderTree t | none => "<err>")
          | .ok none => "none"
          | _ => "<err>"
        s!"{sy}>{v}")
      own ++ items.flatMap (keysOf fuel)
    | _ => []

def renderFull (s : Store) (a : Nat) : String :=
  match unfold s.cells (treeFuel s) a with
  | none => "<undecodable>"
  | some t =>
    let ks := keysOf (treeFuel s) t
    if ks.isEmpty then renderTree t else renderTree t ++ " K<" ++ String.intercalate " " ks ++ ">"

def renderPlain (s : Store) (a : Nat) : String :=
  match unfold s.cells (treeFuel s) a with
  | none => "<undecodable>"
  | some t => renderTree t

/-- values on the register chain, top first (`get_register_len` / `get_register` stop at a malformed cell) -/
def regChain (s : Store) : Nat → Option Nat → List Nat
  | 0, _ => []
  | _, none => []
  | fuel + 1, some i =>
    match s.cells[i]? with
    | some (.register p v) => v :: regChain s fuel (some p)
    | some (.registerRoot v) => [v]
    | _ => []

def registers (s : Store) : String :=
  String.intercalate ";" ((regChain s (s.cells.size + 1) s.currentRegister).reverse.map (renderFull s))

def valueEntries : Nat → Store → List String
  | 0, _ => []
  | fuel + 1, s =>
    match s.popValue with
    | (s', some a) => renderFull s' a :: valueEntries fuel s'
    | (_, none) => []

def frameEntries : Nat → Store → List String
  | 0, _ => []
  | fuel + 1, s =>
    match s.popFrame with
    | .ok (s', some ret) => (s!"{ret}" ++ "{" ++ registers s' ++ "}") :: frameEntries fuel s'
    | .ok (_, none) => []
    | .err _ => ["<err>"]
    | _ => ["<panic>"]

/-- `get_symbol_string` -/
def symbolString (s : Store) (sym : Nat) : String :=
  match Store.searchAssoc s.symtab.toList sym with
  | .ok (some i) =>
    match s.symtab[i]? with
    | some (.associativeItem _ di) =>
      match s.cells[di]? with
      | some (.charList n) =>
        match inlineCells s.cells isChar (di + 1) n with
        | some cs => "\"" ++ String.ofList (cs.map (fun c => Char.ofNat (charCode c))) ++ "\""
        | none => "<panic>"
      | _ => "<err>"
    | _ => "<err>"
  | .ok none => "none"
  | .err _ => "<err>"
  | _ => "<panic>"

def dedup (xs : List Nat) : List Nat := xs.foldl (fun acc x => if acc.contains x then acc else acc ++ [x]) []

def sections (s : Store) (roots : List Nat) (retention : Nat) (syms : List Nat) (handles : Option (List Nat)) : String :=
  let fuel := s.cells.size + 1
  let r := registers s
  let v := String.intercalate ";" (valueEntries fuel s)
  let f := String.intercalate ";" (frameEntries fuel s)
  let x := String.intercalate ";" (roots.map (renderFull s))
  let p := String.intercalate ";" ((List.range retention).filterMap (fun a =>
    match s.cells[a]? with
    | some c => if isValueCell c then some (s!"{a}:" ++ renderFull s a) else none
    | none => none))
  let y := String.intercalate ";" ((dedup syms).map (fun sy => s!"{sy}=" ++ symbolString s sy))
  let base := s!"R=[{r}] V=[{v}] F=[{f}] X=[{x}] P=[{p}] S=[{y}]"
  match handles with
  | some hs => base ++ " A=[" ++ String.intercalate ";" (hs.map (renderPlain s)) ++ "]"
  | none => base

/-! ### root pairs handed to the verified checker -/

def optPairs (pre post : Store) (roots mapped : List Nat) : Option (List (Nat × Nat)) := c19Pairs pre post roots mapped

def isoVerdict (pre post : Store) (pairs : Option (List (Nat × Nat))) : String :=
  match pairs with
  | some ps => if graphIso pre.cells post.cells ps then "1" else "0"
  | none => "0"

/-! ### scripts -/

structure St where
  s : Store
  hs : Array Nat
  syms : List Nat
  out : List String
  stopped : Bool

def splitOp (op : String) : String × String :=
  match op.splitOn " " with
  | [] => ("", "")
  | w :: rest => (w, String.intercalate " " rest)

def trimSp (s : String) : String :=
  String.ofList ((s.toList.dropWhile (· = ' ')).reverse.dropWhile (· = ' ')).reverse

/-- `Heap.WF` of the accessor model, decided on the heap view of the store -/
def awf (s : Store) : String :=
  (if decide (toAccessHeap s).WF then "1" else "0") ++ " wfq=" ++ (if wfq s then "1" else "0")

/-- one op; `none` = stop the script -/
def runOp (n : Nat) (st : St) (op : String) : Except String (St × Bool) :=
  let (word, rest0) := splitOp op
  let rest := trimSp rest0
  let fail (what : String) : Except String (St × Bool) := .ok ({ st with out := st.out ++ [s!"{n}:{word} {what}"], stopped := true }, false)
  let outcome {α} (o : Outcome α) (k : α → Except String (St × Bool)) : Except String (St × Bool) :=
    match o with
    | .ok a => k a
    | .err _ => fail "err"
    | .panic _ => fail "panic"
    | .fuelOut => fail "fuelout"
  match word with
  | "add" =>
    match Term.parse rest with
    | none => .error "BAD-TERM"
    | some t => outcome (buildTerm st.hs t st.s) (fun (s, a) => .ok ({ st with s := s, hs := st.hs.push a }, true))
  | "h" => .ok ({ st with hs := st.hs.push (rest.toNat?.getD 0) }, true)
  | "load" =>
    match loadDump rest with
    | some s => .ok ({ st with s := s }, true)
    | none => .error "BAD-DUMP"
  | "reg" | "val" =>
    match handleOf rest st.hs with
    | none => .error "BAD-SCRIPT handle"
    | some a => outcome (if word = "reg" then st.s.pushRegister a else st.s.pushValue a) (fun s => .ok ({ st with s := s }, true))
  | "setval" =>
    match handleOf rest st.hs with
    | none => .error "BAD-SCRIPT handle"
    | some a => outcome (st.s.setCurrentValue a) (fun s => .ok ({ st with s := s }, true))
  | "frame" => outcome (st.s.pushFrame (rest.toNat?.getD 0)) (fun s => .ok ({ st with s := s }, true))
  | "popreg" => outcome st.s.popRegister (fun (s, r) =>
      .ok ({ st with s := s, hs := match r with | some a => st.hs.push a | none => st.hs }, true))
  | "popval" =>
    let (s, r) := st.s.popValue
    .ok ({ st with s := s, hs := match r with | some a => st.hs.push a | none => st.hs }, true)
  | "popframe" => outcome st.s.popFrame (fun (s, _) => .ok ({ st with s := s }, true))
  | "sym" =>
    match rest.splitOn " " with
    | [name, hash] =>
      let sym := hash.toNat?.getD 0
      outcome (st.s.parseAddSymbol sym (name.toList.map Char.toNat)) (fun (s, a) =>
        .ok ({ st with s := s, hs := st.hs.push a, syms := st.syms ++ [sym] }, true))
    | _ => .error "BAD-SCRIPT sym"
  | "retain" =>
    if rest.isEmpty then .ok ({ st with s := st.s.retainAll }, true)
    else .ok ({ st with s := st.s.setRetention (rest.toNat?.getD 0) }, true)
  | "opt" =>
    let toks := (rest.splitOn " ").filter (· ≠ "")
    match toks.mapM (fun t => handleOf t st.hs) with
    | none => .error "BAD-SCRIPT handle"
    | some roots =>
      let retention := st.s.retention
      let before := sections st.s roots retention st.syms none
      outcome (st.s.optimize roots) (fun (s, mapped) =>
        let hidx := toks.filterMap (fun t => (String.ofList (t.toList.drop 1)).toNat?)
        let hs := (hidx.zip mapped).foldl (fun hs (h, m) => hs.setIfInBounds h m) st.hs
        let after := sections s mapped retention st.syms none
        let m := String.intercalate "," (mapped.map toString)
        let iso := isoVerdict st.s s (optPairs st.s s roots mapped)
        -- hypotheses of `C19_optimize_preserves` on the state before the call
        let wfv := if (wf st.s && rootsOK st.s roots) || (wfv st.s && rootsOKv st.s roots) then "1" else "0"
        let rec_ := s!"{n}:opt ok M=[{m}] {dump s} BEFORE" ++ "{" ++ before ++ "} AFTER{" ++ after ++ "}" ++ s!" iso={iso} wf={wfv} awf={awf s} ns={if noStale st.s then 1 else 0}"
        .ok ({ st with s := s, hs := hs, out := st.out ++ [rec_] }, true))
  | "clone" =>
    match handleOf rest st.hs with
    | none => .error "BAD-SCRIPT handle"
    | some a =>
      let retention := st.s.retention
      let shown := st.hs.toList.filter (· < st.s.cells.size)
      let before := sections st.s [a] retention st.syms (some shown)
      outcome (st.s.cloneData a) (fun (s, nw) =>
        let after := sections s [a, nw] retention st.syms (some shown)
        let pairs := optPairs st.s s [a, a] [a, nw]
        let pairs := pairs.map (fun ps => ps ++ (st.hs.toList.filterMap (fun x => match st.s.cells[x]? with
          | some c => if isValueCell c then some (x, x) else none
          | none => none)))
        let iso := isoVerdict st.s s pairs
        let wfv := if wf st.s && isNode st.s.cells a then "1" else "0"
        let rec_ := s!"{n}:clone ok M=[{nw}] {dump s} BEFORE" ++ "{" ++ before ++ "} AFTER{" ++ after ++ "}" ++ s!" iso={iso} wf={wfv} awf={awf s}"
        .ok ({ st with s := s, hs := st.hs.push nw, out := st.out ++ [rec_] }, true))
  | w => .error s!"BAD-SCRIPT op {w}"

def runScript (script : String) : String :=
  let ops := (script.splitOn ";").map trimSp
  let rec go : List String → Nat → St → Except String St
    | [], _, st => .ok st
    | op :: rest, n, st =>
      if op.isEmpty then go rest (n + 1) st else
      match runOp n st op with
      | .error e => .error e
      | .ok (st, true) => go rest (n + 1) st
      | .ok (st, false) => .ok st
  match go ops 0 { s := Store.fresh, hs := #[], syms := [], out := [], stopped := false } with
  | .error e => e
  | .ok st => String.intercalate " || " (if st.stopped then st.out else st.out ++ ["end " ++ dump st.s ++ " awf=" ++ awf st.s])

end Garnish.Driver.Opt

namespace Garnish.Driver
def optCase (f : List String) : String :=
  match f with
  | _ :: _ :: "run" :: _ => "MODEL-N/A"
  | [_, _, script] => Opt.runScript script
  | _ => "BAD-CASE"
def cloneCase (f : List String) : String :=
  match f with
  | [_, _, script] => Opt.runScript script
  | _ => "BAD-CASE"
end Garnish.Driver
