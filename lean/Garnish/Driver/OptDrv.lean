import Garnish.Driver.Proto
namespace Garnish.Driver
def optCase (_f : List String) : String := "UNIMPLEMENTED"
def cloneCase (_f : List String) : String := "UNIMPLEMENTED"
end Garnish.Driver
