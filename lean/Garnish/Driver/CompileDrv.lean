/- COMPILE suite: the structured compiler `Abs.compile` on the generator's AST, printed in the format of the
harness's DUMP suite (the built instruction stream of the printed program), so that the two can be compared
line by line. -/
import Garnish.Abs.Compile
import Garnish.Driver.RunDrv
namespace Garnish.Driver
open Garnish Gen Garnish.Abs Garnish.Spec

def showInstr (P : Prog Float) (i : Instr) : String :=
  match i with
  | (ins, none) => ins.name
  | (ins, some o) =>
    if ins == .put || ins == .resolve then
      match P.consts[o]? with
      | some v => s!"{ins.name}:{showVal v}"
      | none => s!"{ins.name}:?{o}"
    else s!"{ins.name}:{o}"

def showProg (P : Prog Float) (entry : Nat) : String :=
  let is := String.join (P.instrs.toList.map (fun i => showInstr P i ++ ","))
  let js := String.join (P.jumps.toList.map (fun j => toString j ++ ","))
  s!"ok entry={entry} meta={P.instrs.size} {is} J={js}"

/-- COMPILE \t id \t <ast term> -/
def compileCase (f : List String) : String :=
  match f with
  | _ :: _ :: ast :: _ =>
    match (Term.parse ast).bind programOfTerm with
    | some p =>
      let st := compileState Prog.empty p
      if st.pending.isEmpty then showProg st.toProg 0 else "INCOMPLETE"
    | none => "BAD-CASE ast"
  | _ => "BAD-CASE fields"

end Garnish.Driver
