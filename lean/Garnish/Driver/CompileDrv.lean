/- COMPILE suite: the structured compiler `Abs.compile` on the generator's AST, printed in the format of the
harness's DUMP suite (the built instruction stream of the printed program), so that the two can be compared
line by line. -/
import Garnish.Lemmas.CompileBase
import Garnish.Props.C06Static
import Garnish.Driver.RunDrv
namespace Garnish.Driver
open Garnish Gen Garnish.Abs Garnish.Spec

namespace CompileAux

def showInstr (P : Prog Float) (i : Instr) : String :=
  match i with
  | (ins, none) => ins.name
  | (ins, some o) =>
    if ins == .put || ins == .resolve then
      match P.consts[o]? with
      | some v => s!"{ins.name}:{showVal v}"
      | none => s!"{ins.name}:?{o}"
    else s!"{ins.name}:{o}"

def showProg (P : Prog Float) (entry : Nat) : String :=
  let is := String.join (P.instrs.toList.map (fun i => showInstr P i ++ ","))
  let js := String.join (P.jumps.toList.map (fun j => toString j ++ ","))
  s!"ok entry={entry} meta={P.instrs.size} {is} J={js}"

/-! relabelling: the generator numbers nested bodies in source order; `WFProgram` wants the jump entries -/
mutual
def relabelE (m : Nat → Nat) : E → E
  | .nested id => .nested (m id)
  | .unary op x => .unary op (relabelE m x)
  | .binary op l r => .binary op (relabelE m l) (relabelE m r)
  | .pair l r => .pair (relabelE m l) (relabelE m r)
  | .applyTo l r => .applyTo (relabelE m l) (relabelE m r)
  | .list items => .list (relabelL m items)
  | .cond b c t => .cond b (relabelE m c) (relabelE m t)
  | .chain arms none => .chain (relabelA m arms) none
  | .chain arms (some e) => .chain (relabelA m arms) (some (relabelE m e))
  | .and l r => .and (relabelE m l) (relabelE m r)
  | .or l r => .or (relabelE m l) (relabelE m r)
  | .seq l r => .seq (relabelE m l) (relabelE m r)
  | .sideAfter l r => .sideAfter (relabelE m l) (relabelE m r)
  | .reapply x => .reapply (relabelE m x)
  | .prefixApply sy x => .prefixApply sy (relabelE m x)
  | .suffixApply x sy => .suffixApply (relabelE m x) sy
  | .infixApply a sy b => .infixApply (relabelE m a) sy (relabelE m b)
  | e => e
def relabelL (m : Nat → Nat) : List E → List E
  | [] => []
  | x :: xs => relabelE m x :: relabelL m xs
def relabelA (m : Nat → Nat) : List (Bool × E × E) → List (Bool × E × E)
  | [] => []
  | (b, c, t) :: rest => (b, relabelE m c, relabelE m t) :: relabelA m rest
end

def refIds (rs : List (Root Float)) : List (Nat × Nat) :=
  rs.filterMap (fun r => match r.kind with | .ref id => some (id, r.patch) | .code _ => none)

/-- the program with every nested body named by the jump entry `compile` gives it -/
def canonical (p : Program Float) : Program Float :=
  let ids := refIds (compileState Prog.empty p).done
  let m : Nat → Nat := fun id => ((ids.find? (fun q => q.1 == id)).map (·.2)).getD id
  { main := relabelE m p.main, bodies := p.bodies.map (fun (id, b) => (m id, relabelE m b)) }

/-- the decidable fields of `Props.C01.WFProgram` (all of them except `main0`, which holds by construction of
`programOfTerm`); `complete` and `distinct` are theorems now (`compile_complete`, `compile_distinct`) and are
printed as a cross-check only; `balancedWF` = the hypothesis `WFBalanced` of `C06_compile_balanced` -/
def wfReport (p : Program Float) : String :=
  let st := compileState Prog.empty p
  let ids := refIds st.done
  let complete := st.pending.isEmpty
  let labels := ids.all (fun q => q.1 == q.2)
  let covered := p.bodies.all (fun (id, _) => ids.any (fun q => q.1 == id))
  let patches := st.done.map (·.patch)
  let distinct := patches.eraseDups.length == patches.length
  let wf := p.bodies.all (fun (_, b) => wfE b)
  let tail := tailR p.main
  let all := labels && covered && wf && tail
  let tailEvery := p.bodies.all (fun (_, b) => wfE b && tailR b)
  let closed := ids.all (fun q => (lookupBody p.bodies q.1).isSome)
  let balancedWF := tailEvery && closed && labels
  -- `WFProgramC` (Props/C01Compile.lean): else-chains may lack the final arm (hypothesis of `C01_compile_correct_chain`)
  let wfc := labels && covered && p.bodies.all (fun (_, b) => wfC b) && tail
  s!"wf={all} complete={complete} labels={labels} covered={covered} distinct={distinct} wfE={wf} tail={tail} balancedWF={balancedWF} wfC={wfc}"

/-- the harness's DUMP line -> program (constants allocated in order of appearance) and entry jump index -/
def parseDump (line : String) : Option (Prog Float × Nat) :=
  match line.splitOn " J=" with
  | [left, js] =>
    match left.splitOn " " with
    | "ok" :: e :: _m :: rest =>
      let entry := ((e.splitOn "=").getD 1 "").toNat?
      let body := " ".intercalate rest
      let jumps := (js.splitOn ",").filterMap (fun x => x.toNat?)
      let toks := (body.splitOn ",").filter (fun x => x != "")
      let step (acc : Option (Array Instr × Array (Val Float))) (tok : String) : Option (Array Instr × Array (Val Float)) :=
        match acc with
        | none => none
        | some (is, cs) =>
          match tok.splitOn ":" with
          | [name] => (Instruction.ofName? name).map (fun i => (is.push (i, none), cs))
          | [name, opnd] =>
            match Instruction.ofName? name with
            | none => none
            | some i =>
              if i == .put || i == .resolve then
                some (is.push (i, some cs.size), cs.push ((parseVal opnd).getD .unit))
              else opnd.toNat?.map (fun n => (is.push (i, some n), cs))
          | _ => none
      match entry, toks.foldl step (some (#[], #[])) with
      | some en, some (is, cs) => some (⟨is, jumps.toArray, cs⟩, en)
      | _, _ => none
    | _ => none
  | _ => none

/-- the program as it has to be presented to `compileInto` for an object that holds `J0` jump entries: the top-level
body is named `J0`; the ids of the nested bodies are moved out of the way (the output does not depend on them) -/
def placeAt (J0 : Nat) (p : Program Float) : Program Float :=
  let m : Nat → Nat := fun id => id + 1000000
  { main := relabelE m p.main,
    bodies := (J0, relabelE m p.main) :: (p.bodies.filter (fun ib => ib.1 != 0)).map (fun ib => (m ib.1, relabelE m ib.2)) }

end CompileAux
open CompileAux

/-- COMPILE \t id \t <ast term> -/
def compileCase (f : List String) : String :=
  match f with
  | _ :: _ :: ast :: _ =>
    match (Term.parse ast).bind programOfTerm with
    | some p =>
      let st := compileState Prog.empty p
      if st.pending.isEmpty then showProg st.toProg 0 else "INCOMPLETE"
    | none => "BAD-CASE ast"
  | _ => "BAD-CASE fields"

/-- WFCHECK \t id \t <ast term>: does the theorem `C01_compile_correct` apply to this program (after naming the
nested bodies by their jump entries)? -/
def wfProgramCase (f : List String) : String :=
  match f with
  | _ :: _ :: ast :: _ =>
    match (Term.parse ast).bind programOfTerm with
    | some p => wfReport (canonical p)
    | none => "BAD-CASE ast"
  | _ => "BAD-CASE fields"

/-- ABSDEPTH \t id \t <harness DUMP line verbatim>: the verified depth analysis on the implementation's own
instruction stream -/
def absDepthCase (f : List String) : String :=
  match f with
  | _ :: _ :: line :: _ =>
    match parseDump line with
    | some (P, entry) =>
      match P.jumps[entry]? with
      | none => "BAD-CASE entry"
      | some t =>
        match Props.C06.absDepthE P t with
        | .ok _ => "balanced=true at=-"
        | .error pc => s!"balanced=false at={pc}"
    | none => "BAD-CASE dump"
  | _ => "BAD-CASE fields"

/-- DEPTHCHK \t id \t <harness DEPTH result verbatim>: the verified depth analysis `absDepth` on the implementation's
own instruction stream, compared with every (address, frame-relative operand depth) the harness observed while the real
VM executed it. `absDepth_sound` says the model machine is at depth `d[pc]` whenever it is at `pc`; an observation that
differs means an instruction of the real VM consumed or produced a different number of operands than its arity. -/
def depthChkCase (f : List String) : String :=
  match f with
  | _ :: _ :: line :: _ =>
    match line.splitOn " @@ " with
    | dump :: obs :: _ =>
      if !dump.startsWith "ok " then "skip" else
      match parseDump dump with
      | some (P, entry) =>
        match P.jumps[entry]? with
        | none => "BAD-CASE entry"
        | some t =>
          match Props.C06.absDepthE P t with
          | .error pc => s!"static=unbalanced at={pc}"
          | .ok d =>
            let pairs := (obs.splitOn ",").filterMap (fun x =>
              match x.splitOn ":" with
              | [a, b] => match a.toNat?, b.toInt? with
                | some a, some b => some (a, b)
                | _, _ => none
              | _ => none)
            let bad := pairs.find? (fun (pc, rel) =>
              match d[pc]? with
              | some (some k) => (k : Int) != rel
              | _ => true)
            match bad with
            | none => s!"static=balanced observed=agree n={pairs.length}"
            | some (pc, rel) =>
              let st := match d[pc]? with
                | some (some k) => toString k
                | _ => "unreached"
              s!"mismatch pc={pc} static={st} observed={rel}"
      | none => "BAD-CASE dump"
    | _ => "BAD-CASE fields"
  | _ => "BAD-CASE fields"

/-- COMPILE2 \t id \t <ast term 1> \t <ast term 2> …: the programs compiled one after the other into one object
(`compileInto`), printed like the harness's DUMP2 -/
def compile2Case (f : List String) : String :=
  match f with
  | _ :: _ :: asts =>
    let step (acc : Option (Prog Float × List Nat)) (ast : String) : Option (Prog Float × List Nat) :=
      match acc, (Term.parse ast).bind programOfTerm with
      | some (P, es), some p =>
        let st := compileState P (placeAt P.jumps.size p)
        if st.pending.isEmpty then some (st.toProg, es ++ [P.jumps.size]) else none
      | _, _ => none
    match asts.foldl step (some (Prog.empty, [])) with
    | some (P, es) =>
      let is := String.join (P.instrs.toList.map (fun i => showInstr P i ++ ","))
      let js := String.join (P.jumps.toList.map (fun j => toString j ++ ","))
      let en := String.join (es.map (fun e => toString e ++ ","))
      s!"ok entries={en} meta={P.instrs.size} {is} J={js}"
    | none => "BAD-CASE ast or INCOMPLETE"
  | _ => "BAD-CASE fields"

end Garnish.Driver
