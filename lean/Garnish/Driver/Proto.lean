/- line-protocol helpers shared by all suites of the driver -/
import Garnish.Model.Number
import Garnish.Driver.FloatImpl
namespace Garnish.Proto

def hexDigit (c : Char) : Option Nat :=
  if '0' ≤ c ∧ c ≤ '9' then some (c.toNat - '0'.toNat)
  else if 'a' ≤ c ∧ c ≤ 'f' then some (c.toNat - 'a'.toNat + 10)
  else if 'A' ≤ c ∧ c ≤ 'F' then some (c.toNat - 'A'.toNat + 10)
  else none

def parseHex (s : List Char) : Option Nat :=
  s.foldl (fun acc c => match acc, hexDigit c with
    | some a, some d => some (a * 16 + d)
    | _, _ => none) (some 0)

def toHex16 (n : Nat) : String :=
  let digits := "0123456789abcdef".toList
  let rec go (k : Nat) (n : Nat) (acc : List Char) : List Char :=
    match k with
    | 0 => acc
    | k + 1 => go k (n / 16) (digits[n % 16]! :: acc)
  String.ofList (go 16 n [])

/-- unescape a protocol field into characters -/
def unescape (cs : List Char) : List Char :=
  let rec go (fuel : Nat) (cs : List Char) (acc : List Char) : List Char :=
    match fuel with
    | 0 => acc.reverse
    | fuel + 1 =>
      match cs with
      | [] => acc.reverse
      | '\\' :: '\\' :: r => go fuel r ('\\' :: acc)
      | '\\' :: 't' :: r => go fuel r ('\t' :: acc)
      | '\\' :: 'n' :: r => go fuel r ('\n' :: acc)
      | '\\' :: 'r' :: r => go fuel r ('\r' :: acc)
      | '\\' :: 'x' :: a :: b :: r =>
        match parseHex [a, b] with
        | some n => go fuel r (Char.ofNat n :: acc)
        | none => go fuel r acc
      | c :: r => go fuel r (c :: acc)
  go (cs.length + 1) cs []

def escape (cs : List Char) : String :=
  String.ofList (cs.foldr (fun c acc =>
    if c = '\\' then '\\' :: '\\' :: acc
    else if c = '\t' then '\\' :: 't' :: acc
    else if c = '\n' then '\\' :: 'n' :: acc
    else if c = '\r' then '\\' :: 'r' :: acc
    else if c.toNat < 0x20 ∨ c.toNat = 0x7f then
      let h := toHex16 c.toNat
      '\\' :: 'x' :: (h.toList.drop 14) ++ acc
    else c :: acc) [])

def parseNum (s : String) : Option (Number Float) :=
  if s.startsWith "i:" then (s.drop 2).toString.toInt?.map .int
  else if s.startsWith "f:" then (parseHex (s.drop 2).toString.toList).map (fun n => .float (Float.ofBits n.toUInt64))
  else none

def showNum : Number Float → String
  | .int v => s!"i:{v}"
  | .float f => if f.isNaN then "f:nan" else s!"f:{toHex16 f.toBits.toNat}"

def showOptNum : Option (Number Float) → String
  | none => "none"
  | some n => showNum n

def parseNumOp (s : String) : Option NumOp :=
  match s with
  | "plus" => some .plus | "subtract" => some .subtract | "multiply" => some .multiply
  | "divide" => some .divide | "integerDivide" => some .integerDivide | "power" => some .power
  | "remainder" => some .remainder | "absoluteValue" => some .absoluteValue | "opposite" => some .opposite
  | "increment" => some .increment | "decrement" => some .decrement | "bitwiseNot" => some .bitwiseNot
  | "bitwiseAnd" => some .bitwiseAnd | "bitwiseOr" => some .bitwiseOr | "bitwiseXor" => some .bitwiseXor
  | "bitwiseShiftLeft" => some .bitwiseShiftLeft | "bitwiseShiftRight" => some .bitwiseShiftRight
  | _ => none

end Garnish.Proto
