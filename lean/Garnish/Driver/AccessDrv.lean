/-
ACCESS suite (C07): the index / extent arithmetic models of Model/Access*.lean on the same cases as
harness/src/access.rs.  The value term is built into a model of each data object (Basic: the cell-level builder of
the OPT suite, then the whole allocation is laid out around the data block; Simple: one cell per sub-term), the
queries are answered by the transliterated accessors.  Line format: see harness/src/access.rs.
-/
import Garnish.Model.AccessRuntime
import Garnish.Spec.AccessWF
import Garnish.Driver.OptDrv
namespace Garnish.Driver.AccessD
open Garnish Gen Garnish.Proto Garnish.Driver Garnish.Access Garnish.Access.Runtime
open Garnish.BasicOpt (Cell)

/-! ### numbers of the protocol -/

/-- `Float(f)` as the accessors see it: `f < 0.0` and `f.max(0.0) as usize` (saturating, NaN ↦ 0) -/
def numOfFloat (f : Float) : Num :=
  .float (f < 0.0) (if f.isNaN ∨ f < 0.0 then 0 else f.toUInt64.toNat)

def parseNumQ (s : String) : Option Num :=
  match s.toList with
  | 'i' :: r => (String.ofList r).toInt?.map .int
  | 'f' :: r => (parseHex r).map (fun b => numOfFloat (Float.ofBits b.toUInt64))
  | _ => none

def parseExtents (s : String) : Option (Num × Num) :=
  match s.splitOn "," with
  | [a, b] => match parseNumQ a, parseNumQ b with
    | some x, some y => some (x, y)
    | _, _ => none
  | _ => none

def intOfPayload (n : Nat) : Option Int :=
  match Opt.decNum n with
  | .int v => some v
  | .float _ => none

/-! ### the two data objects -/

/-- `self.data` around the data block: every cell of the other five blocks and of the unused tail is `Empty` -/
def heapOf (s : BasicOpt.Store) : Heap :=
  let total := s.custom.start + s.custom.size
  let before := Array.replicate s.start Cell.empty
  let after := Array.replicate (total - s.start - s.cells.size) Cell.empty
  { heap := before ++ s.cells ++ after, dstart := s.start, cursor := s.cells.size }

structure SB where
  cells : Array Simple.SCell
  vals : Array V

def SB.init : SB := ⟨#[.leaf .unit, .leaf .false, .leaf .true], #[.unit, .fls, .tru]⟩

def SB.push (st : SB) (c : Simple.SCell) (v : V) : Nat × SB :=
  (st.cells.size, { cells := st.cells.push c, vals := st.vals.push v })

def symsOnly (ps : List (SymPart Float)) : Option (List Nat) :=
  ps.foldr (fun p acc => match p, acc with
    | .sym s, some xs => some (s :: xs)
    | _, _ => none) (some [])

mutual
/-- one cell per sub-term (interning of scalars is not modelled: addresses never show in an answer) -/
def buildSimple : V → SB → Except String (Nat × SB)
  | .unit, st => .ok (0, st)
  | .fls, st => .ok (1, st)
  | .tru, st => .ok (2, st)
  | .num (.int v), st => .ok (st.push (.int v) (.num (.int v)))
  | .num (.float f), st => .ok (st.push .float (.num (.float f)))
  | .char c, st => .ok (st.push (.leaf .char) (.char c))
  | .byte b, st => .ok (st.push (.leaf .byte) (.byte b))
  | .sym s, st => .ok (st.push (.symbol s) (.sym s))
  | .expr j, st => .ok (st.push (.leaf .expression) (.expr j))
  | .ext n, st => .ok (st.push (.leaf .external) (.ext n))
  | .type t, st => .ok (st.push (.leaf .type_) (.type t))
  | .custom, st => .ok (st.push (.leaf .custom) .custom)
  | .chars cs, st => .ok (st.push (.chars cs) (.chars cs))
  | .bytes bs, st => .ok (st.push (.bytes bs) (.bytes bs))
  | .symList ps, st =>
    match symsOnly ps with
    | some ss => if ss.length < 2 then .error "SETUP-ERR" else .ok (st.push (.syms ss) (.symList ps))
    | none => .error "SETUP-ERR"                      -- `merge_to_symbol_list` of SimpleGarnishData takes symbols only
  | .pair l r, st => do
    let (a, st) ← buildSimple l st
    let (b, st) ← buildSimple r st
    pure (st.push (.pair a b) (.pair l r))
  | .concat l r, st => do
    let (a, st) ← buildSimple l st
    let (b, st) ← buildSimple r st
    pure (st.push (.concat a b) (.concat l r))
  | .range l r, st => do
    let (a, st) ← buildSimple l st
    let (b, st) ← buildSimple r st
    pure (st.push (.range a b) (.range l r))
  | .slice l r, st => do
    let (a, st) ← buildSimple l st
    let (b, st) ← buildSimple r st
    pure (st.push (.slice a b) (.slice l r))
  | .part l r, st => do
    let (_, st) ← buildSimple l st
    let (_, st) ← buildSimple r st
    pure (st.push (.leaf .partial_) (.part l r))
  | .list items, st => do
    let (addrs, st) ← buildSimpleList items st
    pure (st.push (.list addrs) (.list items))
def buildSimpleList : List V → SB → Except String (List Nat × SB)
  | [], st => .ok ([], st)
  | v :: vs, st => do
    let (a, st) ← buildSimple v st
    let (as, st) ← buildSimpleList vs st
    pure (a :: as, st)
end

/-! ### answers -/

def showOutcome {α} (sh : α → String) : Outcome α → String
  | .ok a => sh a
  | .err _ => "err"
  | .panic m => "PANIC " ++ m
  | .fuelOut => "FUEL"

def showOpt {α} (sh : α → String) (o : Outcome (Option α)) : String :=
  showOutcome (fun r => match r with | some a => "ok " ++ sh a | none => "none") o

def showSeq {α} (sh : α → String) (o : Outcome (List α)) : String :=
  showOutcome (fun xs => "ok [" ++ String.intercalate "," (xs.map sh) ++ "]") o

def showLen (o : Outcome Nat) : String := showOutcome (fun n => s!"ok {n}") o

def showPart : Part → String
  | .sym s => s!"(s {s})"
  | .num n => showNumT (Opt.decNum n)

/-- everything a query needs from one data object -/
structure Obj where
  llen : Outcome Nat
  clen : Outcome Nat
  blen : Outcome Nat
  slen : Outcome Nat
  li : Num → Outcome (Option Nat)
  ci : Num → Outcome (Option Nat)
  bi : Num → Outcome (Option Nat)
  si : Num → Outcome (Option Part)
  lit : Num → Num → Outcome (List Nat)
  cit : Num → Num → Outcome (List Nat)
  bit : Num → Num → Outcome (List Nat)
  sit : Num → Num → Outcome (List Part)
  cot : Num → Num → Outcome (List Nat)
  iface : Iface
  addr : Nat
  showAddr : Nat → String
  /-- the well-formedness hypothesis of Props/C07Access, decided on this heap -/
  wf : Bool

def accessFuel : Nat := 1000000

def showRes (o : Obj) : Outcome Res → String :=
  showOutcome fun r => "ok " ++ match r with
    | .none => "U" | .unit => "U"
    | .addr a => o.showAddr a
    | .char c => s!"(c {c})" | .byte b => s!"(b {b})" | .sym s => s!"(s {s})"
    | .num n => showNumT (Opt.decNum n)
    | .int v => s!"(i {v})"

/-- `ops::access` reaches `access_with_integer` for these left types (a symbol list is merged instead),
`ops::apply` for those -/
def accessTypes : List Ty := [.pair, .list, .charList, .byteList, .range, .concatenation, .slice]
def applyTypes : List Ty := [.pair, .list, .symbolList]

def answer (o : Obj) (q : String) : String :=
  let (name, arg) := match q.splitOn ":" with
    | [n, a] => (n, a)
    | _ => (q, "")
  let body :=
    if name == "wf" then (if o.wf then "ok" else "NOT-WELL-FORMED")
    else if name == "llen" then showLen o.llen
    else if name == "clen" then showLen o.clen
    else if name == "blen" then showLen o.blen
    else if name == "slen" then showLen o.slen
    else if name == "li" ∨ name == "ci" ∨ name == "bi" ∨ name == "si" then
      match parseNumQ arg with
      | none => "BAD-CASE num"
      | some n =>
        if name == "li" then showOpt o.showAddr (o.li n)
        else if name == "ci" then showOpt (fun c => s!"(c {c})") (o.ci n)
        else if name == "bi" then showOpt (fun b => s!"(b {b})") (o.bi n)
        else showOpt showPart (o.si n)
    else if name == "lit" ∨ name == "cit" ∨ name == "bit" ∨ name == "sit" ∨ name == "cot" then
      match parseExtents arg with
      | none => "BAD-CASE extents"
      | some (s, e) =>
        if name == "lit" then showSeq o.showAddr (o.lit s e)
        else if name == "cot" then showSeq o.showAddr (o.cot s e)
        else if name == "cit" then showSeq toString (o.cit s e)
        else if name == "bit" then showSeq toString (o.bit s e)
        else showSeq showPart (o.sit s e)
    else if name == "acc" ∨ name == "app" then
      match arg.toInt?, o.iface.typeOf o.addr with
      | some i, .ok t =>
        if (name == "acc" ∧ accessTypes.contains t) ∨ (name == "app" ∧ applyTypes.contains t) then
          showRes o (accessWithInteger o.iface accessFuel i o.addr)
        else "UNSUPPORTED"
      | _, _ => "BAD-CASE acc"
    else if name == "accs" then
      match arg.toNat?, o.iface.typeOf o.addr with
      | some s, .ok .slice =>
        (match o.iface.getSlice o.addr with
         | .ok (v, r) =>
           (match o.iface.typeOf v with
            | .ok .list => showOutcome (fun r => match r with | some a => "ok " ++ o.showAddr a | none => "ok U")
                              (accessSliceListSymbol o.iface v r s)
            | _ => "UNSUPPORTED")
         | _ => "UNSUPPORTED")
      | _, _ => "UNSUPPORTED"
    else "BAD-CASE query " ++ name
  q ++ "=" ++ body

def basicObj (s : BasicOpt.Store) (addr : Nat) : Obj :=
  let h := heapOf s
  { llen := getListLen h addr, clen := getCharListLen h addr, blen := getByteListLen h addr, slen := getSymbolListLen h addr
    li := getListItem h addr, ci := getCharListItem h addr, bi := getByteListItem h addr, si := getSymbolListItem h addr
    lit := getListItemIter h addr, cit := getCharListIter h addr, bit := getByteListIter h addr, sit := getSymbolListIter h addr
    cot := getConcatenationIter h (3 ^ addr) addr
    iface := basicIface h intOfPayload, addr := addr
    showAddr := Opt.renderPlain s
    wf := decide h.WF }

def simpleObj (st : SB) (addr : Nat) : Obj :=
  let d := st.cells
  { llen := Simple.getListLen d addr, clen := Simple.getCharListLen d addr, blen := Simple.getByteListLen d addr
    slen := Simple.getSymbolListLen d addr
    li := Simple.getListItem d addr, ci := Simple.getCharListItem d addr, bi := Simple.getByteListItem d addr
    si := fun n => (Simple.getSymbolListItem d addr n).bind fun r => .ok (r.map Part.sym)
    lit := fun _ _ => Simple.getListItemIter d addr, cit := fun _ _ => Simple.getCharListIter d addr
    bit := fun _ _ => Simple.getByteListIter d addr
    sit := fun _ _ => (Simple.getSymbolListIter d addr).bind fun ss => .ok (ss.map Part.sym)
    cot := fun _ _ => Simple.getConcatenationIter d accessFuel addr
    iface := simpleIface d, addr := addr
    showAddr := fun a => match st.vals[a]? with | some v => showVal v | none => "<bad-addr>"
    wf := decide (Simple.WF d) && decide (Simple.ShortLists d) }

def accessCase (f : List String) : String :=
  match f with
  | [_, _, store, term, queries] =>
    let qs := (queries.splitOn " ").filter (· ≠ "")
    if store == "basic" then
      match Term.parse term with
      | none => "BAD-CASE term"
      | some t =>
        match Opt.buildTerm #[] t BasicOpt.Store.fresh with
        | .ok (s, addr) => String.intercalate " " (qs.map (answer (basicObj s addr)))
        | _ => "SETUP-ERR"
    else if store == "simple" then
      match parseVal term with
      | none => "BAD-CASE term"
      | some v =>
        match buildSimple v SB.init with
        | .ok (addr, st) => String.intercalate " " (qs.map (answer (simpleObj st addr)))
        | .error e => e
    else "BAD-CASE store " ++ store
  | _ => "BAD-CASE fields"

end Garnish.Driver.AccessD
